(* C08 -- Input returns every byte and triggered event exactly once, in order.
   PARTIAL by nature: the theorems are about the model (Model/InputQ.v: _send,
   _wait_for_read_ready_or_timeout, the trigger factories and the kernel objects
   they use), for ALL histories of environment steps and requests; real thread
   interleavings finer than those steps, select wake-up order and signal delivery
   are exercised by the correspondence run, not proved.  The key decoder is a
   parameter of the general theorems; the C08_real_decoder_* theorems below are
   their instances for the model of the REAL decoder (events.get_key driven by
   the find_key loop of _send: find_key_real, Model/InputKeys.v), for every
   encoding and naming mode, with fk_lossless / fk_progress PROVED
   (Proofs/InputKeys.v, on top of C03's Proofs/Keys.v): no hypothesis is left. *)
From Coq Require Import Permutation.
From Curtsies Require Import Model.Base Gen.Tables Model.Utf8 Model.Keys Model.InputQ Model.InputKeys Spec.QueueSpec Proofs.InputQ Proofs.InputKeys.
Close Scope N_scope.
Local Open Scope Z_scope.

(* delivered ++ pending = injected, per source, after every history *)
Theorem C08_exactly_once_all_histories :
  forall find_key, fk_lossless find_key -> fk_progress find_key ->
  forall (h : list item) (th : option Z) (ntrig : nat) tr s',
    run find_key th (init ntrig) h = (tr, s') ->
    let D := outcomes tr in
    flat_map d_consumed D ++ unproc s' ++ kq s' = g_bytes s' /\
    flat_map d_ev D ++ qev s' = map snd (g_ev s') /\
    flat_map d_int D ++ qint s' = map snd (g_int s') /\
    (forall w, filter (has_when w) (flat_map d_sched D) ++ filter (has_when w) (qsched s')
               = filter (has_when w) (g_sched s')) /\
    Permutation (flat_map d_sig D ++ sigints s') (g_sig s').
Proof. exact exactly_once_all_histories. Qed.
Print Assumptions C08_exactly_once_all_histories.

(* as long as the decoder raised nothing: the bytes of the delivered keypresses
   and paste events, then the buffered ones, then the kernel's, ARE the stream *)
Theorem C08_bytes_exactly_once_in_order :
  forall find_key, fk_lossless find_key -> fk_progress find_key ->
  forall h th ntrig tr s',
    run find_key th (init ntrig) h = (tr, s') -> no_raise (outcomes tr) ->
    flat_map d_bytes (outcomes tr) ++ unproc s' ++ kq s' = g_bytes s'.
Proof. exact bytes_exactly_once_in_order. Qed.
Print Assumptions C08_bytes_exactly_once_in_order.

(* per trigger: what was delivered is a prefix of what its callback injected *)
Theorem C08_events_in_trigger_order :
  forall find_key, fk_lossless find_key -> fk_progress find_key ->
  forall h th ntrig tr s',
    run find_key th (init ntrig) h = (tr, s') ->
    (exists Gd Gp, g_ev s' = Gd ++ Gp /\ map snd Gd = flat_map d_ev (outcomes tr) /\ map snd Gp = qev s' /\
       forall i, filter (fun p => N.eqb (fst p) i) (g_ev s')
                 = filter (fun p => N.eqb (fst p) i) Gd ++ filter (fun p => N.eqb (fst p) i) Gp) /\
    (exists Gd Gp, g_int s' = Gd ++ Gp /\ map snd Gd = flat_map d_int (outcomes tr) /\ map snd Gp = qint s' /\
       forall i, filter (fun p => Nat.eqb (fst p) i) (g_int s')
                 = filter (fun p => Nat.eqb (fst p) i) Gd ++ filter (fun p => Nat.eqb (fst p) i) Gp).
Proof. exact events_in_trigger_order. Qed.
Print Assumptions C08_events_in_trigger_order.

(* ---- the same for the REAL decoder: no hypotheses ------------------------------ *)
Theorem C08_real_decoder_hypotheses :
  forall enc mode, fk_lossless (find_key_real enc mode) /\ fk_progress (find_key_real enc mode).
Proof. intros enc mode. split; [apply find_key_real_lossless|apply find_key_real_progress]. Qed.
Print Assumptions C08_real_decoder_hypotheses.

Theorem C08_real_decoder_exactly_once :
  forall enc mode (h : list item) (th : option Z) (ntrig : nat) tr s',
    run (find_key_real enc mode) th (init ntrig) h = (tr, s') ->
    let D := outcomes tr in
    flat_map d_consumed D ++ unproc s' ++ kq s' = g_bytes s' /\
    flat_map d_ev D ++ qev s' = map snd (g_ev s') /\
    flat_map d_int D ++ qint s' = map snd (g_int s') /\
    (forall w, filter (has_when w) (flat_map d_sched D) ++ filter (has_when w) (qsched s')
               = filter (has_when w) (g_sched s')) /\
    Permutation (flat_map d_sig D ++ sigints s') (g_sig s').
Proof. exact real_decoder_exactly_once. Qed.
Print Assumptions C08_real_decoder_exactly_once.

Theorem C08_real_decoder_bytes_in_order :
  forall enc mode h th ntrig tr s',
    run (find_key_real enc mode) th (init ntrig) h = (tr, s') -> no_raise (outcomes tr) ->
    flat_map d_bytes (outcomes tr) ++ unproc s' ++ kq s' = g_bytes s'.
Proof. exact real_decoder_bytes_in_order. Qed.
Print Assumptions C08_real_decoder_bytes_in_order.

Theorem C08_real_decoder_events_in_trigger_order :
  forall enc mode h th ntrig tr s',
    run (find_key_real enc mode) th (init ntrig) h = (tr, s') ->
    (exists Gd Gp, g_ev s' = Gd ++ Gp /\ map snd Gd = flat_map d_ev (outcomes tr) /\ map snd Gp = qev s' /\
       forall i, filter (fun p => N.eqb (fst p) i) (g_ev s')
                 = filter (fun p => N.eqb (fst p) i) Gd ++ filter (fun p => N.eqb (fst p) i) Gp) /\
    (exists Gd Gp, g_int s' = Gd ++ Gp /\ map snd Gd = flat_map d_int (outcomes tr) /\ map snd Gp = qint s' /\
       forall i, filter (fun p => Nat.eqb (fst p) i) (g_int s')
                 = filter (fun p => Nat.eqb (fst p) i) Gd ++ filter (fun p => Nat.eqb (fst p) i) Gp).
Proof. exact real_decoder_events_in_trigger_order. Qed.
Print Assumptions C08_real_decoder_events_in_trigger_order.

(* with nothing scheduled, None is returned no earlier than the timeout -- whatever
   wakes the request up in between (code as of commit 4c90127) *)
Theorem C08_none_only_after_timeout :
  forall find_key th t s sc s' sc',
    qsched s = [] -> 0 <= t ->
    send find_key th (Some t) s sc = (s', sc', ONone) -> now s + t <= now s'.
Proof. exact none_only_after_timeout. Qed.
Print Assumptions C08_none_only_after_timeout.

(* the hypotheses on the decoder are satisfiable, the invariant theorem is not vacuous *)
Example C08_decoder_hypotheses_nonvacuous : fk_lossless toy_fk /\ fk_progress toy_fk.
Proof. exact decoder_hypotheses_nonvacuous. Qed.

(* the formula before commit 4c90127 returned None at clock 6 for a request made
   at clock 0 with timeout 10 and nothing scheduled (regression witness, corpus/C08) *)
Example C08_old_recompute_refuted :
  qsched early_none_witness_state = [] /\ now early_none_witness_state = 0 /\
  let '(s', _, o) := send_gen toy_fk true None (Some 10) early_none_witness_state early_none_witness_script in
  o = ONone /\ now s' = 6.
Proof. exact old_recompute_refuted. Qed.

(* Known finding F-C08a, with the model of the real decoder (utf-8, curtsies names):
   a read ending after 2 bytes of a 3-byte character: ValueError, the 2 bytes are
   gone; the third byte later comes out as a Meta key. *)
Example C08_F_C08a_bytes_dropped :
  map (fun e => fst (fst e))
      (fst (run (find_key_real Utf8 CURTSIES) None (init 0)
                [Env (Arrive [226; 130]%N); Req (Some 0) []; Env (Arrive [172]%N); Req (Some 0) []]))
  = [ORaise ValueError [226; 130]%N; OKey [60; 77; 101; 116; 97; 45; 44; 62]%N [172]%N].
Proof. vm_compute. reflexivity. Qed.

(* Known finding F-C08b: the same inside the paste loop throws away the whole
   paste event under construction ('a','b','c' here) *)
Example C08_F_C08b_paste_dropped :
  map (fun e => fst (fst e))
      (fst (run (find_key_real Utf8 CURTSIES) (Some 1) (init 0)
                [Env (Arrive [97; 98; 99; 226; 130]%N); Req (Some 0) []; Env (Arrive [172]%N); Req (Some 0) []]))
  = [ORaise ValueError [97; 98; 99; 226; 130]%N; OKey [60; 77; 101; 116; 97; 45; 44; 62]%N [172]%N].
Proof. vm_compute. reflexivity. Qed.
