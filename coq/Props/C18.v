(* C18 -- the cursor position query parses the report exactly; movement is
   conserved.  Model: Model/CursorQuery.v (get_cursor_position,
   get_cursor_vertical_diff, _get_cursor_vertical_diff_once, the bookkeeping of
   render_to_terminal); reference notions: Spec/CursorSpec.v. *)
From Curtsies Require Import Model.Base Model.CursorQuery Spec.CursorSpec Proofs.CursorQuery.
Local Open Scope N_scope.

(* (parse) For every extra holding no complete report, every pair of non-empty
   digit strings (any length, leading zeros allowed), both CSI forms, every
   trail (any items at all) and every interleaving of failing reads (and
   nested-call points) with the characters: the query returns
   (row-1, col-1), the callback gets exactly extra, once (not at all when extra
   is empty; ValueError instead when there is no callback), and exactly the trail
   is left unread. *)
Theorem C18_parse :
  forall cb extra csi rs cs pre trail,
    no_report extra -> is_csi csi -> digits rs = true -> digits cs = true ->
    no_eof pre ->
    chars_of pre = extra ++ csi ++ rs ++ [59] ++ cs ->
    get_cursor_position cb (pre ++ Rd (Char 82) :: trail) =
    expected_outcome cb extra rs cs trail (count_nests pre).
Proof. exact get_cursor_position_parse. Qed.
Print Assumptions C18_parse.

Example C18_parse_nonvacuous :
  let extra := [97; 27; 91; 49; 59; 27; 91; 49; 50] in     (* a ESC[1; ESC[12 *)
  let pre := [Rd OsError; Rd (Char 97); Rd (Char 27); Rd (Char 91); Rd (Char 49); Rd (Char 59);
              Rd OsError; Rd (Char 27); Rd (Char 91); Rd (Char 49); Rd (Char 50);
              Rd (Char 155); Rd (Char 48); Rd (Char 52); Rd OsError; Rd (Char 59); Rd (Char 55)] in
  no_report extra /\ is_csi csi8 /\ digits [48; 52] = true /\ digits [55] = true /\ no_eof pre /\
  chars_of pre = extra ++ csi8 ++ [48; 52] ++ [59] ++ [55] /\
  get_cursor_position true (pre ++ Rd (Char 82) :: [Rd (Char 120); Rd Eof]) =
  mkOut (Ok (3, 6)%Z) [extra] [Rd (Char 120); Rd Eof] 0.
Proof.
  cbv zeta. split; [apply no_report_by_search; vm_compute; reflexivity|].
  split; [now right|]. split; [reflexivity|]. split; [reflexivity|].
  split; [|split; vm_compute; reflexivity].
  intros i Hi. cbn in Hi.
  repeat (destruct Hi as [<-|Hi]; [reflexivity|]). destruct Hi.
Qed.

(* "every reported position": every row, col is denoted by digit strings, and for
   ALL digit strings denoting them (no bound on length) the result is (row-1, col-1) *)
Theorem C18_parse_every_position :
  forall row col,
    (exists rs cs, digits rs = true /\ digits cs = true /\ value rs = row /\ value cs = col) /\
    forall cb extra csi rs cs pre trail,
      no_report extra -> is_csi csi -> digits rs = true -> digits cs = true ->
      value rs = row -> value cs = col ->
      no_eof pre -> chars_of pre = extra ++ csi ++ rs ++ [59] ++ cs ->
      (extra = [] \/ cb = true) ->
      let o := get_cursor_position cb (pre ++ Rd (Char 82) :: trail) in
      o_res o = Ok (Z.of_N row - 1, Z.of_N col - 1)%Z /\
      o_cb o = match extra with [] => [] | _ => [extra] end /\
      o_rest o = trail.
Proof. exact parse_every_position. Qed.
Print Assumptions C18_parse_every_position.

(* the hypothesis of C18_parse is decided by the model's own scanner *)
Theorem C18_no_report_decidable :
  forall extra, no_report extra <-> search extra = None.
Proof. exact no_report_iff_search. Qed.
Print Assumptions C18_no_report_decidable.

(* the search runs after every character; the first time it succeeds the match
   ends at the last character read, so nothing after the report is consumed *)
Theorem C18_first_match_ends_at_end :
  forall resp c e rs cs a,
    search resp = None -> search (resp ++ [c]) = Some (e, rs, cs, a) -> a = [].
Proof. exact first_match_ends_at_end. Qed.
Print Assumptions C18_first_match_ends_at_end.

Example C18_first_match_nonvacuous :
  search [97; 155; 49; 59; 50] = None /\
  search ([97; 155; 49; 59; 50] ++ [82]) = Some ([97], [49], [50], []).
Proof. split; vm_compute; reflexivity. Qed.

(* no report before the stream returns '': ValueError, everything up to there consumed *)
Theorem C18_no_report_then_eof :
  forall cb pre trail,
    no_eof pre -> no_report (chars_of pre) ->
    get_cursor_position cb (pre ++ Rd Eof :: trail) =
    mkOut (Raise ValueError) [] trail (count_nests pre).
Proof. exact get_cursor_position_eof. Qed.
Print Assumptions C18_no_report_then_eof.

Example C18_no_report_then_eof_nonvacuous :
  no_eof [Rd (Char 27); Rd OsError; Rd (Char 91); Rd (Char 49); Rd (Char 59)] /\
  no_report (chars_of [Rd (Char 27); Rd OsError; Rd (Char 91); Rd (Char 49); Rd (Char 59)]).
Proof.
  split.
  - intros i Hi. cbn in Hi. repeat (destruct Hi as [<-|Hi]; [reflexivity|]). destruct Hi.
  - apply no_report_by_search. vm_compute. reflexivity.
Qed.

(* the two clamped loops: closed form (|dy| iterations always suffice), so the
   first loop moves rows only while top_usable_row > -1, the second only while
   top_usable_row > 1; every iteration conserves top_usable_row + cursor_dy *)
Theorem C18_loops_closed_form :
  forall t dy, move_loops t dy = move_closed t dy.
Proof. exact move_loops_closed. Qed.
Print Assumptions C18_loops_closed_form.

Theorem C18_loops_conserve :
  forall t dy t' dy', move_loops t dy = (t', dy') -> ((t' - t) + dy' = dy)%Z.
Proof. exact move_loops_conserve. Qed.
Print Assumptions C18_loops_conserve.

Theorem C18_loops_fuel_enough :
  forall t dy t' dy',
    move_loops t dy = (t', dy') ->
    ((t' >? -1) && (dy' >? 0) = false)%Z /\ ((t' >? 1) && (dy' <? 0) = false)%Z.
Proof. exact loops_fuel_enough. Qed.
Print Assumptions C18_loops_fuel_enough.

Example C18_loops_nonvacuous :
  move_loops 3 4 = (7, 0)%Z /\ move_loops 3 (-5) = (1, -3)%Z /\
  move_loops 0 (-2) = (0, -2)%Z /\ move_loops (-1) 2 = (-1, 2)%Z.
Proof. repeat split; vm_compute; reflexivity. Qed.

(* (diff) one get_cursor_vertical_diff call that is not nested, from ANY state
   and on ANY stream, if it returns: the change of top_usable_row plus the value
   returned equals the row reported last minus the row at the last query or
   render (_last_cursor_row; the first row reported when there was none); it
   leaves _last_cursor_row at the row reported last and in_get_cursor_diff False;
   if no reported row differs from the reference it returns 0 and leaves
   top_usable_row alone.  Holds over all the queries the call makes (one more for
   every round in which a nested call arrived). *)
Theorem C18_diff_conserves :
  forall cb w s ret,
    in_diff w = false ->
    d_ret (get_cursor_vertical_diff cb w s) = Ok ret ->
    let r := get_cursor_vertical_diff cb w s in
    exists first now,
      hd_error (d_rows r) = Some first /\ List.last (d_rows r) 0%Z = now /\
      last (d_w r) = Some now /\ in_diff (d_w r) = false /\
      ((top (d_w r) - top w) + ret = now - ref_row w first)%Z /\
      (Forall (fun x => x = ref_row w first) (d_rows r) -> ret = 0%Z /\ top (d_w r) = top w).
Proof. exact diff_conserves. Qed.
Print Assumptions C18_diff_conserves.

(* two query rounds: a nested call arrives during the first *)
Example C18_diff_nonvacuous :
  let w := mkW 3 (Some 2%Z) false false in
  let s := [Rd (Char 27); Nest; Rd (Char 91); Rd (Char 53); Rd (Char 59); Rd (Char 49); Rd (Char 82);
            Rd (Char 155); Rd (Char 56); Rd (Char 59); Rd (Char 49); Rd (Char 82); Rd (Char 113)] in
  get_cursor_vertical_diff true w s =
  mkD (Ok 0%Z) (mkW 8 (Some 7%Z) false false) [Rd (Char 113)] [] [4%Z; 7%Z].
Proof. vm_compute. reflexivity. Qed.

(* a call during which no nested call arrives and whose answer reports the row
   already recorded: returns 0 and changes nothing at all *)
Theorem C18_second_call_without_movement :
  forall cb w extra csi rs cs pre trail,
    in_diff w = false -> another w = false ->
    no_report extra -> is_csi csi -> digits rs = true -> digits cs = true ->
    no_eof pre -> chars_of pre = extra ++ csi ++ rs ++ [59] ++ cs ->
    count_nests pre = 0%nat -> (extra = [] \/ cb = true) ->
    last w = Some (Z.of_N (value rs) - 1)%Z ->
    get_cursor_vertical_diff cb w (pre ++ Rd (Char 82) :: trail) =
    mkD (Ok 0%Z) w trail (cbs_of extra) [(Z.of_N (value rs) - 1)%Z].
Proof. exact diff_no_movement. Qed.
Print Assumptions C18_second_call_without_movement.

(* a nested call arrives during the first query (it returns 0 and only sets
   another_sigwinch, C18_nested_call_inert): the outer loop asks again, reads
   exactly the two answers, and its total balances over both queries *)
Theorem C18_nested_call_outer_total :
  forall w extra1 csi1 rs1 cs1 pre1 extra2 csi2 rs2 cs2 pre2 trail,
    in_diff w = false ->
    no_report extra1 -> is_csi csi1 -> digits rs1 = true -> digits cs1 = true ->
    no_eof pre1 -> chars_of pre1 = extra1 ++ csi1 ++ rs1 ++ [59] ++ cs1 ->
    no_report extra2 -> is_csi csi2 -> digits rs2 = true -> digits cs2 = true ->
    no_eof pre2 -> chars_of pre2 = extra2 ++ csi2 ++ rs2 ++ [59] ++ cs2 ->
    (0 < count_nests pre1)%nat -> count_nests pre2 = 0%nat ->
    let row1 := (Z.of_N (value rs1) - 1)%Z in
    let row2 := (Z.of_N (value rs2) - 1)%Z in
    let r := get_cursor_vertical_diff true w
               (pre1 ++ Rd (Char 82) :: pre2 ++ Rd (Char 82) :: trail) in
    exists ret,
      d_ret r = Ok ret /\ d_rows r = [row1; row2] /\ d_rest r = trail /\
      d_cb r = cbs_of extra1 ++ cbs_of extra2 /\
      last (d_w r) = Some row2 /\ in_diff (d_w r) = false /\ another (d_w r) = false /\
      ((top (d_w r) - top w) + ret = row2 - ref_row w row1)%Z.
Proof. exact diff_two_rounds. Qed.
Print Assumptions C18_nested_call_outer_total.

(* a nested call returns 0, reads nothing, changes nothing but another_sigwinch *)
Theorem C18_nested_call_inert :
  forall cb w s,
    in_diff w = true ->
    get_cursor_vertical_diff cb w s = mkD (Ok 0%Z) (mkW (top w) (last w) true true) s [] [].
Proof. exact nested_call_inert. Qed.
Print Assumptions C18_nested_call_inert.

(* the round bound given to the outer loop is never what stops it; the only
   exception the model raises is ValueError *)
Theorem C18_diff_rounds_enough :
  forall cb w s, d_ret (get_cursor_vertical_diff cb w s) <> Raise OtherError.
Proof. exact diff_fuel_enough. Qed.
Print Assumptions C18_diff_rounds_enough.

(* (history) every step of every history of assignments, renders, diff calls
   and direct queries, from any state and any pending input, satisfies the
   movement relation of Spec/CursorSpec.v (step_rel: diff_relation for diff calls,
   _last_cursor_row = the row the render put the cursor on, direct queries and
   nested calls change nothing) -- the relation the correspondence evaluates on
   the real window *)
Theorem C18_history :
  forall ops w pending, hist_rel w ops (run_ops w pending ops) = true.
Proof. exact history_conserves. Qed.
Print Assumptions C18_history.

Example C18_history_nonvacuous :
  run_ops (mkW 0 None false false) []
    [OpSet 3 None; OpRender 4 1 5;
     OpDiff true [Rd (Char 155); Rd (Char 55); Rd (Char 59); Rd (Char 49); Rd (Char 82)];
     OpDiff true [Rd (Char 155); Rd (Char 55); Rd (Char 59); Rd (Char 49); Rd (Char 82)]] =
  [mkObs (Ok []) (mkW 3 None false false) 0 [] [];
   mkObs (Ok [0%Z]) (mkW 1 (Some 2%Z) false false) 0 [] [2%Z];
   mkObs (Ok [0%Z]) (mkW 5 (Some 6%Z) false false) 0 [] [6%Z];
   mkObs (Ok [0%Z]) (mkW 5 (Some 6%Z) false false) 0 [] [6%Z]].
Proof. vm_compute. reflexivity. Qed.
