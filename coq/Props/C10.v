(* C10 -- width, width_at_offset and width_aware_slice measure and cut by terminal
   columns.  [wc] stands for cwcwidth.wcwidth; all that is assumed of it is its
   range on the characters of the input (0 = combining, 1, 2 = double-width) and
   that the replacement character, the space, is one column wide.
   colcells: the column-expanded cell list (a width-2 character gives a LeftH and
   a RightH cell, a width-0 character none), Spec/Columns.v. *)
From Curtsies Require Import Model.Base Model.Width Spec.Columns Proofs.Width.
Local Open Scope Z_scope.

(* f.width is the number of terminal columns f occupies *)
Theorem C10_width_is_number_of_columns :
  forall (wc : char -> Z) (f : fmtstr),
    (forall c, In c (text f) -> wc c = 0 \/ wc c = 1 \/ wc c = 2) ->
    fs_width wc f = Ok (Z.of_nat (length (colcells wc f))).
Proof. exact width_is_columns. Qed.
Print Assumptions C10_width_is_number_of_columns.

(* f.width_at_offset(n) is the number of columns of the first n characters *)
Theorem C10_width_at_offset_is_columns_of_prefix :
  forall (wc : char -> Z) (f : fmtstr) (n : Z),
    (forall c, In c (text f) -> wc c = 0 \/ wc c = 1 \/ wc c = 2) ->
    0 <= n ->
    width_at_offset wc f n =
    Ok (Z.of_nat (length (colcells_of wc (firstn (Z.to_nat n) (cells f))))).
Proof. exact width_at_offset_is_columns. Qed.
Print Assumptions C10_width_at_offset_is_columns_of_prefix.

(* f.width_aware_slice(slice(a, b)) shows exactly display columns a .. b-1 of f:
   col_slice a b l = cut (firstn (b - a) (skipn a l)), where cut replaces a half
   of a double-width character whose other half is outside by a space in that
   character's graphic state.  Characters wholly inside keep character and state.
   (Holds for every 0 <= a, 0 <= b; for b < a both sides are empty.) *)
Theorem C10_slice_is_the_requested_columns :
  forall (wc : char -> Z), wc 32%N = 1 ->
  forall (f : fmtstr) (a b : Z),
    (forall c, In c (text f) -> wc c = 0 \/ wc c = 1 \/ wc c = 2) ->
    0 <= a -> 0 <= b ->
    exists r, fs_was wc f (IxSlice (Some a) (Some b)) = Ok r /\
              colcells wc r = col_slice a b (colcells wc f).
Proof. exact slice_is_columns. Qed.
Print Assumptions C10_slice_is_the_requested_columns.

(* its width is the number of requested columns that exist *)
Theorem C10_slice_width_is_number_of_existing_columns :
  forall (wc : char -> Z), wc 32%N = 1 ->
  forall (f : fmtstr) (a b : Z),
    (forall c, In c (text f) -> wc c = 0 \/ wc c = 1 \/ wc c = 2) ->
    0 <= a <= b ->
    exists r, fs_was wc f (IxSlice (Some a) (Some b)) = Ok r /\
              let W := Z.of_nat (length (colcells wc f)) in
              Z.of_nat (length (colcells wc r)) = Z.min b W - Z.min a W.
Proof. exact slice_width. Qed.
Print Assumptions C10_slice_width_is_number_of_existing_columns.

(* no zero-width character is invented or reordered, whatever the index and
   whatever the widths of the other characters *)
Theorem C10_slice_zero_width_chars_are_a_subsequence :
  forall (wc : char -> Z), wc 32%N = 1 ->
  forall (f : fmtstr) (ix : index) (r : fmtstr),
    fs_was wc f ix = Ok r ->
    subseq (zw_cells wc (cells r)) (zw_cells wc (cells f)).
Proof. exact slice_zero_width_subseq. Qed.
Print Assumptions C10_slice_zero_width_chars_are_a_subsequence.

(* ---- the slice character by character, zero-width characters included ----------
   The column view above cannot see a zero-width character (it occupies no column);
   the three theorems below speak about the full cell list of the result
   (characters with their graphic state).  Reference notions, Spec/Columns.v:
     positions p cs       every character with the column at which it starts
     keep_char a b (s,x)  x of width w at column s against [a, b): kept when w > 0 and
                          a <= s, s + w <= b; a space in its state when w = 2 and exactly
                          one of its columns is inside; kept when w = 0 and a < s <= b
                          (a combining character belongs to the character ending at s;
                          "no zero-width characters at the beginning of a slice"); else dropped
     slice_ref a b cs     = flat_map (keep_char a b) (positions 0 cs)   (no run layout)
     slice_ref_runs a b f the same, except for the zero-width characters standing at the
                          very beginning of a run (column K, run end E): kept iff a < K < b
                          when the run has width 0, iff a <= K and E <= b otherwise.
   The first theorem is the exact description of the code for EVERY run layout.  The
   run-dependent clause is needed: the code's treatment of a run's leading marks is
   not a function of the cells (see the _refuted examples below).                    *)

(* cells of the slice = the run-aware reference, for all f and all 0 <= a, 0 <= b
   (the space needs no hypothesis: a replacement cell is (32, state) whatever wc 32 is) *)
Theorem C10_slice_cells_are_the_run_aware_reference :
  forall (wc : char -> Z) (f : fmtstr) (a b : Z),
    (forall c, In c (text f) -> wc c = 0 \/ wc c = 1 \/ wc c = 2) ->
    0 <= a -> 0 <= b ->
    exists r, fs_was wc f (IxSlice (Some a) (Some b)) = Ok r /\
              cells r = slice_ref_runs wc a b f.
Proof. exact slice_cells_exact. Qed.
Print Assumptions C10_slice_cells_are_the_run_aware_reference.

(* where no run begins with a zero-width character, the run layout is immaterial:
   cells of the slice = the layout-independent reference applied to the cells of f *)
Theorem C10_slice_cells_are_the_reference_when_no_run_begins_with_a_mark :
  forall (wc : char -> Z) (f : fmtstr) (a b : Z),
    (forall c, In c (text f) -> wc c = 0 \/ wc c = 1 \/ wc c = 2) ->
    no_leading_marks wc f = true ->
    0 <= a -> 0 <= b ->
    exists r, fs_was wc f (IxSlice (Some a) (Some b)) = Ok r /\
              cells r = slice_ref wc a b (cells f).
Proof. exact slice_cells_ideal. Qed.
Print Assumptions C10_slice_cells_are_the_reference_when_no_run_begins_with_a_mark.

(* every zero-width character whose column lies strictly inside (a, b) is in the slice,
   with its own formatting, in order - for every f in which a run that begins with a
   zero-width character consists of zero-width characters only (an accent formatted
   differently from its base letter is such a run).  Without that hypothesis the
   statement is FALSE of the code: C10_every_inner_mark_is_kept_refuted *)
Theorem C10_slice_keeps_zero_width_chars_strictly_inside :
  forall (wc : char -> Z) (f : fmtstr) (a b : Z),
    (forall c, In c (text f) -> wc c = 0 \/ wc c = 1 \/ wc c = 2) ->
    marks_lead_only_mark_runs wc f = true ->
    0 <= a -> 0 <= b ->
    exists r, fs_was wc f (IxSlice (Some a) (Some b)) = Ok r /\
              subseq (inner_marks wc a b (cells f)) (zw_cells wc (cells r)).
Proof. exact slice_keeps_inner_marks. Qed.
Print Assumptions C10_slice_keeps_zero_width_chars_strictly_inside.

(* the hypotheses are inhabited by a non-trivial input: a, wide E, combining grave
   in one run, wide E in another; columns 2..4 cut both wide characters *)
Definition ex_wc : char -> Z := wc_of [(65317%N, 2); (768%N, 0)].
Definition ex_f : fmtstr :=
  [C [97; 65317; 768]%N (A 2 0 1 0 0 0 0 0); C [65317; 98]%N (A 0 5 0 0 0 0 0 0)].
Example C10_nonvacuous :
  ex_wc 32%N = 1 /\
  (forall c, In c (text ex_f) -> ex_wc c = 0 \/ ex_wc c = 1 \/ ex_wc c = 2) /\
  fs_width ex_wc ex_f = Ok 6 /\
  width_at_offset ex_wc ex_f 3 = Ok 3 /\
  fs_was ex_wc ex_f (IxSlice (Some 2) (Some 4)) =
    Ok [C [32; 768]%N (A 2 0 1 0 0 0 0 0); C [32]%N (A 0 5 0 0 0 0 0 0)] /\
  col_slice 2 4 (colcells ex_wc ex_f) =
    [Full 32%N (Sg 2 0 1 0 0 0 0 0); Full 32%N (Sg 0 5 0 0 0 0 0 0)].
Proof.
  split; [reflexivity|]. split.
  - intros c Hc. cbn in Hc.
    repeat (destruct Hc as [<-|Hc]; [vm_compute; auto|]). contradiction.
  - repeat split; vm_compute; reflexivity.
Qed.

(* non-vacuity of the three character-level theorems: a run made of a combining
   character only (red, bold), strictly inside the range 0..2, between two narrow
   characters of other formatting: the accent is kept with its own state *)
Definition ex_g : fmtstr :=
  [C [97]%N (A 0 0 0 0 0 0 0 0); C [768]%N (A 2 0 1 0 0 0 0 0); C [98; 99]%N (A 0 5 0 0 0 0 0 0)].
Example C10_slice_cells_nonvacuous :
  (forall c, In c (text ex_g) -> ex_wc c = 0 \/ ex_wc c = 1 \/ ex_wc c = 2) /\
  marks_lead_only_mark_runs ex_wc ex_g = true /\
  no_leading_marks ex_wc ex_g = false /\
  inner_marks ex_wc 0 2 (cells ex_g) = [(768%N, Sg 2 0 1 0 0 0 0 0)] /\
  slice_ref_runs ex_wc 0 2 ex_g =
    [(97%N, Sg 0 0 0 0 0 0 0 0); (768%N, Sg 2 0 1 0 0 0 0 0); (98%N, Sg 0 5 0 0 0 0 0 0)] /\
  fs_was ex_wc ex_g (IxSlice (Some 0) (Some 2)) =
    Ok [C [97]%N (A 0 0 0 0 0 0 0 0); C [768]%N (A 2 0 1 0 0 0 0 0); C [98]%N (A 0 5 0 0 0 0 0 0)] /\
  (* and of the layout-independent one: ex_f has no run beginning with a mark; columns 2..4
     hold the right half of the first wide E with its accent, and the left half of the second *)
  no_leading_marks ex_wc ex_f = true /\
  slice_ref ex_wc 2 4 (cells ex_f) =
    [(32%N, Sg 2 0 1 0 0 0 0 0); (768%N, Sg 2 0 1 0 0 0 0 0); (32%N, Sg 0 5 0 0 0 0 0 0)].
Proof.
  split.
  - intros c Hc. cbn in Hc.
    repeat (destruct Hc as [<-|Hc]; [vm_compute; auto|]). contradiction.
  - repeat split; vm_compute; reflexivity.
Qed.

(* REFUTED for the code as it is: "every zero-width character strictly inside the range
   is kept" without the hypothesis on run beginnings.  a | grave b c (second run red):
   the accent sits at column 1, strictly inside 0..2, and is DROPPED, because its run is
   cut by the right edge and the helper takes local column 0 of that run for "the
   beginning of the slice".  (Python: FmtStr(Chunk('a'), Chunk('\u0300bc', {'fg': 31}))
   .width_aware_slice(slice(0, 2)) -> 'a' + red 'b'; slice(0, 3) keeps the accent, and so
   does slice(0, 2) of the single run 'a\u0300bc'.) *)
Definition ex_h : fmtstr := [C [97]%N (A 0 0 0 0 0 0 0 0); C [768; 98; 99]%N (A 2 0 0 0 0 0 0 0)].
Example C10_every_inner_mark_is_kept_refuted :
  (forall c, In c (text ex_h) -> ex_wc c = 0 \/ ex_wc c = 1 \/ ex_wc c = 2) /\
  marks_lead_only_mark_runs ex_wc ex_h = false /\
  inner_marks ex_wc 0 2 (cells ex_h) = [(768%N, Sg 2 0 0 0 0 0 0 0)] /\
  slice_ref ex_wc 0 2 (cells ex_h) =
    [(97%N, Sg 0 0 0 0 0 0 0 0); (768%N, Sg 2 0 0 0 0 0 0 0); (98%N, Sg 2 0 0 0 0 0 0 0)] /\
  exists r, fs_was ex_wc ex_h (IxSlice (Some 0) (Some 2)) = Ok r /\
            cells r = [(97%N, Sg 0 0 0 0 0 0 0 0); (98%N, Sg 2 0 0 0 0 0 0 0)] /\
            zw_cells ex_wc (cells r) = [].
Proof.
  split.
  - intros c Hc. cbn in Hc.
    repeat (destruct Hc as [<-|Hc]; [vm_compute; auto|]). contradiction.
  - repeat split; try (vm_compute; reflexivity).
    eexists. repeat split; vm_compute; reflexivity.
Qed.

(* REFUTED for the code as it is: "the cells of the slice are a function of the cells of
   f and of the range" (so no layout-independent reference can be exact).  Same cells,
   same range, different run layout, different result:
     a | grave b  (1..2): the whole second run lies inside and is reused, accent included;
     a grave b    (1..2): the helper drops the accent at the start column;
     a | grave    (0..1): the accent's run starts at the end column and is skipped;
     a grave      (0..1): the whole run is reused, accent included *)
Definition pl : atts := A 0 0 0 0 0 0 0 0.
Example C10_slice_is_a_function_of_the_cells_refuted :
  cells [C [97]%N pl; C [768; 98]%N pl] = cells [C [97; 768; 98]%N pl] /\
  (exists r1 r2,
     fs_was ex_wc [C [97]%N pl; C [768; 98]%N pl] (IxSlice (Some 1) (Some 2)) = Ok r1 /\
     fs_was ex_wc [C [97; 768; 98]%N pl] (IxSlice (Some 1) (Some 2)) = Ok r2 /\
     cells r1 = [(768%N, Sg 0 0 0 0 0 0 0 0); (98%N, Sg 0 0 0 0 0 0 0 0)] /\
     cells r2 = [(98%N, Sg 0 0 0 0 0 0 0 0)]) /\
  cells [C [97]%N pl; C [768]%N pl] = cells [C [97; 768]%N pl] /\
  (exists r1 r2,
     fs_was ex_wc [C [97]%N pl; C [768]%N pl] (IxSlice (Some 0) (Some 1)) = Ok r1 /\
     fs_was ex_wc [C [97; 768]%N pl] (IxSlice (Some 0) (Some 1)) = Ok r2 /\
     cells r1 = [(97%N, Sg 0 0 0 0 0 0 0 0)] /\
     cells r2 = [(97%N, Sg 0 0 0 0 0 0 0 0); (768%N, Sg 0 0 0 0 0 0 0 0)]).
Proof.
  split; [reflexivity|]. split.
  - do 2 eexists. repeat split; vm_compute; reflexivity.
  - split; [reflexivity|]. do 2 eexists. repeat split; vm_compute; reflexivity.
Qed.

(* tie of the model's interval_overlap to the function text in the repository: Gen/Pure.v
   holds the syntax tree of curtsies.formatstring.interval_overlap dumped from the Python
   AST of the working tree on every run, [PyMini.call] is the reference semantics of that
   Python subset (Spec/PyMini.v); for ALL integer arguments they agree *)
From Curtsies Require Spec.PyMini Gen.Pure Proofs.PureTie.
Theorem C10_interval_overlap_is_the_repository_function :
  forall a b x y : Z,
    PyMini.call Pure.py_interval_overlap [PyMini.VInt a; PyMini.VInt b; PyMini.VInt x; PyMini.VInt y]
    = Ok (PyMini.VInt (interval_overlap a b x y)).
Proof. exact PureTie.interval_overlap_tie. Qed.
Print Assumptions C10_interval_overlap_is_the_repository_function.
