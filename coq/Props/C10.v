(* C10 -- width, width_at_offset and width_aware_slice measure and cut by terminal
   columns.  [wc] stands for cwcwidth.wcwidth; all that is assumed of it is its
   range on the characters of the input (0 = combining, 1, 2 = double-width) and
   that the replacement character, the space, is one column wide.
   colcells: the column-expanded cell list (a width-2 character gives a LeftH and
   a RightH cell, a width-0 character none), Spec/Columns.v. *)
From Curtsies Require Import Model.Base Model.Width Spec.Columns Proofs.Width.
Local Open Scope Z_scope.

(* f.width is the number of terminal columns f occupies *)
Theorem C10_width_is_number_of_columns :
  forall (wc : char -> Z) (f : fmtstr),
    (forall c, In c (text f) -> wc c = 0 \/ wc c = 1 \/ wc c = 2) ->
    fs_width wc f = Ok (Z.of_nat (length (colcells wc f))).
Proof. exact width_is_columns. Qed.
Print Assumptions C10_width_is_number_of_columns.

(* f.width_at_offset(n) is the number of columns of the first n characters *)
Theorem C10_width_at_offset_is_columns_of_prefix :
  forall (wc : char -> Z) (f : fmtstr) (n : Z),
    (forall c, In c (text f) -> wc c = 0 \/ wc c = 1 \/ wc c = 2) ->
    0 <= n ->
    width_at_offset wc f n =
    Ok (Z.of_nat (length (colcells_of wc (firstn (Z.to_nat n) (cells f))))).
Proof. exact width_at_offset_is_columns. Qed.
Print Assumptions C10_width_at_offset_is_columns_of_prefix.

(* f.width_aware_slice(slice(a, b)) shows exactly display columns a .. b-1 of f:
   col_slice a b l = cut (firstn (b - a) (skipn a l)), where cut replaces a half
   of a double-width character whose other half is outside by a space in that
   character's graphic state.  Characters wholly inside keep character and state.
   (Holds for every 0 <= a, 0 <= b; for b < a both sides are empty.) *)
Theorem C10_slice_is_the_requested_columns :
  forall (wc : char -> Z), wc 32%N = 1 ->
  forall (f : fmtstr) (a b : Z),
    (forall c, In c (text f) -> wc c = 0 \/ wc c = 1 \/ wc c = 2) ->
    0 <= a -> 0 <= b ->
    exists r, fs_was wc f (IxSlice (Some a) (Some b)) = Ok r /\
              colcells wc r = col_slice a b (colcells wc f).
Proof. exact slice_is_columns. Qed.
Print Assumptions C10_slice_is_the_requested_columns.

(* its width is the number of requested columns that exist *)
Theorem C10_slice_width_is_number_of_existing_columns :
  forall (wc : char -> Z), wc 32%N = 1 ->
  forall (f : fmtstr) (a b : Z),
    (forall c, In c (text f) -> wc c = 0 \/ wc c = 1 \/ wc c = 2) ->
    0 <= a <= b ->
    exists r, fs_was wc f (IxSlice (Some a) (Some b)) = Ok r /\
              let W := Z.of_nat (length (colcells wc f)) in
              Z.of_nat (length (colcells wc r)) = Z.min b W - Z.min a W.
Proof. exact slice_width. Qed.
Print Assumptions C10_slice_width_is_number_of_existing_columns.

(* no zero-width character is invented or reordered, whatever the index and
   whatever the widths of the other characters *)
Theorem C10_slice_zero_width_chars_are_a_subsequence :
  forall (wc : char -> Z), wc 32%N = 1 ->
  forall (f : fmtstr) (ix : index) (r : fmtstr),
    fs_was wc f ix = Ok r ->
    subseq (zw_cells wc (cells r)) (zw_cells wc (cells f)).
Proof. exact slice_zero_width_subseq. Qed.
Print Assumptions C10_slice_zero_width_chars_are_a_subsequence.

(* ---- the slice character by character, zero-width characters included ----------
   The column view above cannot see a zero-width character (it occupies no column);
   the two theorems below speak about the full cell list of the result
   (characters with their graphic state).  Reference notions, Spec/Columns.v:
     positions p cs       every character with the column at which it starts
     keep_char a b (s,x)  x of width w at column s against [a, b): kept when w > 0 and
                          a <= s, s + w <= b; a space in its state when w = 2 and exactly
                          one of its columns is inside; kept when w = 0 and a < s <= b
                          (a combining character belongs to the character ending at s;
                          "no zero-width characters at the beginning of a slice"); else dropped
     slice_ref a b cs     = flat_map (keep_char a b) (positions 0 cs)
     marks_in_range a b cs  the zero-width cells of cs whose column s has a < s <= b
   Both are functions of the cells of f: the run layout plays no part.              *)

(* cells of the slice = the reference, for ALL f (any run layout) and all 0 <= a, 0 <= b
   (for b < a both sides are empty; no hypothesis on the space is needed: a replacement
   cell is (32, state) whatever wc 32 is) *)
Theorem C10_slice_cells_are_the_reference :
  forall (wc : char -> Z) (f : fmtstr) (a b : Z),
    (forall c, In c (text f) -> wc c = 0 \/ wc c = 1 \/ wc c = 2) ->
    0 <= a -> 0 <= b ->
    exists r, fs_was wc f (IxSlice (Some a) (Some b)) = Ok r /\
              cells r = slice_ref wc a b (cells f).
Proof. exact slice_cells. Qed.
Print Assumptions C10_slice_cells_are_the_reference.

(* the zero-width characters of the slice are EXACTLY the zero-width characters of f
   whose column s satisfies a < s <= b, each with its own formatting, in order: every
   one of those is kept, and none at column a, none beyond b, none invented *)
Theorem C10_slice_keeps_exactly_the_zero_width_chars_of_its_columns :
  forall (wc : char -> Z), wc 32%N = 1 ->
  forall (f : fmtstr) (a b : Z),
    (forall c, In c (text f) -> wc c = 0 \/ wc c = 1 \/ wc c = 2) ->
    0 <= a -> 0 <= b ->
    exists r, fs_was wc f (IxSlice (Some a) (Some b)) = Ok r /\
              zw_cells wc (cells r) = marks_in_range wc a b (cells f).
Proof. exact slice_marks. Qed.
Print Assumptions C10_slice_keeps_exactly_the_zero_width_chars_of_its_columns.

(* the hypotheses are inhabited by a non-trivial input: a, wide E, combining grave
   in one run, wide E in another; columns 2..4 cut both wide characters *)
Definition ex_wc : char -> Z := wc_of [(65317%N, 2); (768%N, 0)].
Definition ex_f : fmtstr :=
  [C [97; 65317; 768]%N (A 2 0 1 0 0 0 0 0); C [65317; 98]%N (A 0 5 0 0 0 0 0 0)].
Example C10_nonvacuous :
  ex_wc 32%N = 1 /\
  (forall c, In c (text ex_f) -> ex_wc c = 0 \/ ex_wc c = 1 \/ ex_wc c = 2) /\
  fs_width ex_wc ex_f = Ok 6 /\
  width_at_offset ex_wc ex_f 3 = Ok 3 /\
  fs_was ex_wc ex_f (IxSlice (Some 2) (Some 4)) =
    Ok [C [32; 768]%N (A 2 0 1 0 0 0 0 0); C [32]%N (A 0 5 0 0 0 0 0 0)] /\
  col_slice 2 4 (colcells ex_wc ex_f) =
    [Full 32%N (Sg 2 0 1 0 0 0 0 0); Full 32%N (Sg 0 5 0 0 0 0 0 0)].
Proof.
  split; [reflexivity|]. split.
  - intros c Hc. cbn in Hc.
    repeat (destruct Hc as [<-|Hc]; [vm_compute; auto|]). contradiction.
  - repeat split; vm_compute; reflexivity.
Qed.

(* non-vacuity of the two character-level theorems: a run made of a combining
   character only (red, bold), strictly inside the range 0..2, between two narrow
   characters of other formatting: the accent is kept with its own state *)
Definition ex_g : fmtstr :=
  [C [97]%N (A 0 0 0 0 0 0 0 0); C [768]%N (A 2 0 1 0 0 0 0 0); C [98; 99]%N (A 0 5 0 0 0 0 0 0)].
Example C10_slice_cells_nonvacuous :
  (forall c, In c (text ex_g) -> ex_wc c = 0 \/ ex_wc c = 1 \/ ex_wc c = 2) /\
  marks_in_range ex_wc 0 2 (cells ex_g) = [(768%N, Sg 2 0 1 0 0 0 0 0)] /\
  slice_ref ex_wc 0 2 (cells ex_g) =
    [(97%N, Sg 0 0 0 0 0 0 0 0); (768%N, Sg 2 0 1 0 0 0 0 0); (98%N, Sg 0 5 0 0 0 0 0 0)] /\
  fs_was ex_wc ex_g (IxSlice (Some 0) (Some 2)) =
    Ok [C [97]%N (A 0 0 0 0 0 0 0 0); C [768]%N (A 2 0 1 0 0 0 0 0); C [98]%N (A 0 5 0 0 0 0 0 0)] /\
  (* at the start column the accent is not part of the slice, at the end column it is *)
  fs_was ex_wc ex_g (IxSlice (Some 1) (Some 2)) = Ok [C [98]%N (A 0 5 0 0 0 0 0 0)] /\
  fs_was ex_wc ex_g (IxSlice (Some 0) (Some 1)) =
    Ok [C [97]%N (A 0 0 0 0 0 0 0 0); C [768]%N (A 2 0 1 0 0 0 0 0)] /\
  (* columns 2..4 of ex_f hold the right half of the first wide E with its accent, and the
     left half of the second *)
  slice_ref ex_wc 2 4 (cells ex_f) =
    [(32%N, Sg 2 0 1 0 0 0 0 0); (768%N, Sg 2 0 1 0 0 0 0 0); (32%N, Sg 0 5 0 0 0 0 0 0)].
Proof.
  split.
  - intros c Hc. cbn in Hc.
    repeat (destruct Hc as [<-|Hc]; [vm_compute; auto|]). contradiction.
  - repeat split; vm_compute; reflexivity.
Qed.

(* the three inputs on which the code before the repository fix 3b8c3df disagreed with the
   reference (the fate of a run's leading combining characters depended on the run layout;
   record in Proofs/Width.v, corpus/C10/fix-3b8c3df.json), with what the fixed code returns:
     a | grave b c (red)  0..2 : accent at column 1 kept          (was dropped)
     a | grave b          1..2 : accent at the start column gone  (was kept)
     a | grave            0..1 : accent at the end column kept    (was dropped)
   and each agrees with the same cells in a single run *)
Definition pl : atts := A 0 0 0 0 0 0 0 0.
Definition rd : atts := A 2 0 0 0 0 0 0 0.
Example C10_fixed_witnesses :
  fs_was ex_wc [C [97]%N pl; C [768; 98; 99]%N rd] (IxSlice (Some 0) (Some 2)) =
    Ok [C [97]%N pl; C [768; 98]%N rd] /\
  fs_was ex_wc [C [97]%N pl; C [768; 98]%N pl] (IxSlice (Some 1) (Some 2)) = Ok [C [98]%N pl] /\
  fs_was ex_wc [C [97; 768; 98]%N pl] (IxSlice (Some 1) (Some 2)) = Ok [C [98]%N pl] /\
  fs_was ex_wc [C [97]%N pl; C [768]%N pl] (IxSlice (Some 0) (Some 1)) = Ok [C [97]%N pl; C [768]%N pl] /\
  fs_was ex_wc [C [97; 768]%N pl] (IxSlice (Some 0) (Some 1)) = Ok [C [97; 768]%N pl].
Proof. repeat split; vm_compute; reflexivity. Qed.
