(* C10 -- width, width_at_offset and width_aware_slice measure and cut by terminal
   columns.  [wc] stands for cwcwidth.wcwidth; all that is assumed of it is its
   range on the characters of the input (0 = combining, 1, 2 = double-width) and
   that the replacement character, the space, is one column wide.
   colcells: the column-expanded cell list (a width-2 character gives a LeftH and
   a RightH cell, a width-0 character none), Spec/Columns.v. *)
From Curtsies Require Import Model.Base Model.Width Spec.Columns Proofs.Width.
Local Open Scope Z_scope.

(* f.width is the number of terminal columns f occupies *)
Theorem C10_width_is_number_of_columns :
  forall (wc : char -> Z) (f : fmtstr),
    (forall c, In c (text f) -> wc c = 0 \/ wc c = 1 \/ wc c = 2) ->
    fs_width wc f = Ok (Z.of_nat (length (colcells wc f))).
Proof. exact width_is_columns. Qed.
Print Assumptions C10_width_is_number_of_columns.

(* f.width_at_offset(n) is the number of columns of the first n characters *)
Theorem C10_width_at_offset_is_columns_of_prefix :
  forall (wc : char -> Z) (f : fmtstr) (n : Z),
    (forall c, In c (text f) -> wc c = 0 \/ wc c = 1 \/ wc c = 2) ->
    0 <= n ->
    width_at_offset wc f n =
    Ok (Z.of_nat (length (colcells_of wc (firstn (Z.to_nat n) (cells f))))).
Proof. exact width_at_offset_is_columns. Qed.
Print Assumptions C10_width_at_offset_is_columns_of_prefix.

(* f.width_aware_slice(slice(a, b)) shows exactly display columns a .. b-1 of f:
   col_slice a b l = cut (firstn (b - a) (skipn a l)), where cut replaces a half
   of a double-width character whose other half is outside by a space in that
   character's graphic state.  Characters wholly inside keep character and state.
   (Holds for every 0 <= a, 0 <= b; for b < a both sides are empty.) *)
Theorem C10_slice_is_the_requested_columns :
  forall (wc : char -> Z), wc 32%N = 1 ->
  forall (f : fmtstr) (a b : Z),
    (forall c, In c (text f) -> wc c = 0 \/ wc c = 1 \/ wc c = 2) ->
    0 <= a -> 0 <= b ->
    exists r, fs_was wc f (IxSlice (Some a) (Some b)) = Ok r /\
              colcells wc r = col_slice a b (colcells wc f).
Proof. exact slice_is_columns. Qed.
Print Assumptions C10_slice_is_the_requested_columns.

(* its width is the number of requested columns that exist *)
Theorem C10_slice_width_is_number_of_existing_columns :
  forall (wc : char -> Z), wc 32%N = 1 ->
  forall (f : fmtstr) (a b : Z),
    (forall c, In c (text f) -> wc c = 0 \/ wc c = 1 \/ wc c = 2) ->
    0 <= a <= b ->
    exists r, fs_was wc f (IxSlice (Some a) (Some b)) = Ok r /\
              let W := Z.of_nat (length (colcells wc f)) in
              Z.of_nat (length (colcells wc r)) = Z.min b W - Z.min a W.
Proof. exact slice_width. Qed.
Print Assumptions C10_slice_width_is_number_of_existing_columns.

(* no zero-width character is invented or reordered, whatever the index and
   whatever the widths of the other characters *)
Theorem C10_slice_zero_width_chars_are_a_subsequence :
  forall (wc : char -> Z), wc 32%N = 1 ->
  forall (f : fmtstr) (ix : index) (r : fmtstr),
    fs_was wc f ix = Ok r ->
    subseq (zw_cells wc (cells r)) (zw_cells wc (cells f)).
Proof. exact slice_zero_width_subseq. Qed.
Print Assumptions C10_slice_zero_width_chars_are_a_subsequence.

(* the hypotheses are inhabited by a non-trivial input: a, wide E, combining grave
   in one run, wide E in another; columns 2..4 cut both wide characters *)
Definition ex_wc : char -> Z := wc_of [(65317%N, 2); (768%N, 0)].
Definition ex_f : fmtstr :=
  [C [97; 65317; 768]%N (A 2 0 1 0 0 0 0 0); C [65317; 98]%N (A 0 5 0 0 0 0 0 0)].
Example C10_nonvacuous :
  ex_wc 32%N = 1 /\
  (forall c, In c (text ex_f) -> ex_wc c = 0 \/ ex_wc c = 1 \/ ex_wc c = 2) /\
  fs_width ex_wc ex_f = Ok 6 /\
  width_at_offset ex_wc ex_f 3 = Ok 3 /\
  fs_was ex_wc ex_f (IxSlice (Some 2) (Some 4)) =
    Ok [C [32; 768]%N (A 2 0 1 0 0 0 0 0); C [32]%N (A 0 5 0 0 0 0 0 0)] /\
  col_slice 2 4 (colcells ex_wc ex_f) =
    [Full 32%N (Sg 2 0 1 0 0 0 0 0); Full 32%N (Sg 0 5 0 0 0 0 0 0)].
Proof.
  split; [reflexivity|]. split.
  - intros c Hc. cbn in Hc.
    repeat (destruct Hc as [<-|Hc]; [vm_compute; auto|]). contradiction.
  - repeat split; vm_compute; reflexivity.
Qed.

(* tie of the model's interval_overlap to the function text in the repository: Gen/Pure.v
   holds the syntax tree of curtsies.formatstring.interval_overlap dumped from the Python
   AST of the working tree on every run, [PyMini.call] is the reference semantics of that
   Python subset (Spec/PyMini.v); for ALL integer arguments they agree *)
From Curtsies Require Spec.PyMini Gen.Pure Proofs.PureTie.
Theorem C10_interval_overlap_is_the_repository_function :
  forall a b x y : Z,
    PyMini.call Pure.py_interval_overlap [PyMini.VInt a; PyMini.VInt b; PyMini.VInt x; PyMini.VInt y]
    = Ok (PyMini.VInt (interval_overlap a b x y)).
Proof. exact PureTie.interval_overlap_tie. Qed.
Print Assumptions C10_interval_overlap_is_the_repository_function.
