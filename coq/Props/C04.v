(* C04 -- FSArray region assignment composites exactly the assigned block.
   [fsa_setitem]/[fsa_getitem] model FSArray.__setitem__/__getitem__ (on the proved
   models of setslice_with_length and FmtStr.__getitem__); [grid] is the per-cell
   grid an array shows, [blit]/[grow]/[pad] are the reference grid operations. *)
From Curtsies Require Import Model.Base Spec.ListOps Model.Slice Model.Splice Model.FSArray Spec.Grid Proofs.FSArray.
Close Scope N_scope.
Local Open Scope Z_scope.

(* never a row wider than the array: after any history of assignments with any
   indices and values, successful or raising *)
Theorem C04_width_invariant_all_histories :
  forall ops a, inv a -> inv (setitems a ops).
Proof. exact history_inv. Qed.
Print Assumptions C04_width_invariant_all_histories.

(* a block with the right number of rows, none wider than the region, assigned to a
   non-empty region inside the width (inside, straddling or beyond the current
   height): the region shows the rows (blank where shorter), every other cell is
   as it was, the array has grown downward with blank rows *)
Theorem C04_assignment_is_blit :
  forall a r0 r1 c0 c1 v,
    inv a ->
    0 <= r0 < r1 -> r1 <= maxsize -> 0 <= c0 < c1 -> c1 <= fa_cols a ->
    Z.of_nat (length (value_items v)) = r1 - r0 ->
    Forall (fun x => op_len x <= c1 - c0) (value_items v) ->
    (value_is_str v = true -> c1 - c0 = 1) ->
    exists a', fsa_setitem a (Slice (Some r0) (Some r1) None) (Slice (Some c0) (Some c1) None) v = (a', Ok tt)
      /\ fa_cols a' = fa_cols a
      /\ grid a' = blit (Z.to_nat (fa_cols a)) (grow (Z.to_nat (fa_cols a)) (grid a) (Z.to_nat r1))
                        (map op_cells (value_items v)) (Z.to_nat r0) (Z.to_nat r1) (Z.to_nat c0) (Z.to_nat c1).
Proof. exact setitem_blit. Qed.
Print Assumptions C04_assignment_is_blit.

(* whatever raises changes no cell: the rows are the old rows followed by fresh (blank) ones *)
Theorem C04_error_changes_no_cell :
  forall a ri ci v a' e,
    fsa_setitem a ri ci v = (a', Raise e) ->
    exists k, fa_rows a' = fa_rows a ++ repeat (fresh_row (fa_fill a)) k /\ fa_cols a' = fa_cols a.
Proof. exact setitem_error_unchanged. Qed.
Print Assumptions C04_error_changes_no_cell.

(* a block with the wrong number of rows raises *)
Theorem C04_wrong_row_count_raises :
  forall a r0 r1 c0 c1 v,
    0 <= r0 < r1 -> r1 <= maxsize -> 0 <= c0 < c1 ->
    Z.of_nat (length (value_items v)) <> r1 - r0 ->
    exists a' e, fsa_setitem a (Slice (Some r0) (Some r1) None) (Slice (Some c0) (Some c1) None) v = (a', Raise e).
Proof. exact setitem_wrong_count. Qed.
Print Assumptions C04_wrong_row_count_raises.

(* a row that would reach past the array's width is rejected *)
Theorem C04_row_past_width_raises :
  forall f x c0 c1 cols,
    0 <= c0 <= c1 -> len f <= cols -> cols < c0 + op_len x ->
    exists e, setslice_with_length f c0 c1 x cols = Raise e.
Proof. exact row_too_wide. Qed.
Print Assumptions C04_row_past_width_raises.

(* a row longer than its region is rejected when existing content continues past the region *)
Theorem C04_row_into_existing_content_raises :
  forall f x c0 c1 cols,
    0 <= c0 <= c1 -> c1 < len f -> c1 - c0 < op_len x ->
    setslice_with_length f c0 c1 x cols = Raise AssertionError.
Proof. exact row_spills. Qed.
Print Assumptions C04_row_into_existing_content_raises.

(* reading a region returns, row by row, the cells of columns [c0, c1) *)
Theorem C04_read_region :
  forall a r0 r1 c0 c1,
    0 <= r0 -> 0 <= r1 -> 0 <= c0 -> 0 <= c1 ->
    exists got, fsa_getitem a (Slice (Some r0) (Some r1) None) (Slice (Some c0) (Some c1) None) = Ok got /\
      map cells got = map (fun fs => pyslice (cells fs) (Some c0) (Some c1)) (rows_slice (fa_rows a) r0 r1).
Proof. exact getitem_region. Qed.
Print Assumptions C04_read_region.

(* fsarray(strings[, width]) builds the array whose rows show the strings *)
Theorem C04_fsarray_shows_strings :
  forall strings width fill,
    (forall w, width = Some w -> Forall (fun o => op_len o <= w) strings) ->
    exists a, fsarray_of strings width fill = Ok a
      /\ fa_cols a = match width with Some w => w | None => fold_left Z.max (map op_len strings) 0 end
      /\ map cells (fa_rows a) = map (as_fs_cells fill) strings.
Proof. exact fsarray_shows_strings. Qed.
Print Assumptions C04_fsarray_shows_strings.
