(* C17 -- fmtstr accepts any string: never raises, never loses ordinary text. *)
From Curtsies Require Import Model.Base Gen.Tables Model.Parse Spec.EscScan Proofs.Parse.

(* FmtStr.from_str(s) and fmtstr(s) return a value for EVERY string: each partial operation
   of the Python code (dict lookups, int(), info["numbers"], parse_args' checks, the loop
   running out of input) is an explicit outcome of the model and is shown not to occur /
   to be caught *)
Theorem C17_total : forall s : str, exists f, from_str s = Ok f.
Proof. exact from_str_total. Qed.
Print Assumptions C17_total.

Theorem C17_fmtstr_total : forall s : str, exists f, fmtstr0 s = Ok f /\ from_str s = Ok f.
Proof. exact fmtstr0_total_same. Qed.
Print Assumptions C17_fmtstr_total.

Example C17_total_nonvacuous :
  (* unsupported SGR -> fallback; truncated; nested; a trailing ';' *)
  from_str [27; 91; 51; 56; 109; 120] = Ok [C [120] (A 0 0 0 0 0 0 0 0)] /\
  from_str [27; 91; 27; 91; 49; 59; 109; 97; 155] = Ok [C [27; 91; 97; 155] (A 0 0 0 0 0 0 0 0)] /\
  from_str [27; 91; 63; 50; 53; 108; 27; 91; 49; 109; 10; 120] = Ok [C [63; 50; 53; 108] (A 0 0 0 0 0 0 0 0); C [10; 120] (A 0 0 1 0 0 0 0 0)].
Proof. vm_compute. repeat split. Qed.

(* text containing neither ESC [ nor the 8-bit CSI comes back verbatim as one unformatted run *)
Theorem C17_plain :
  forall s : str, needs_parse s = false -> from_str s = Ok [mkChunk s no_atts].
Proof. exact from_str_plain. Qed.
Print Assumptions C17_plain.

Example C17_plain_nonvacuous :
  needs_parse [104; 105; 10; 27; 10; 91; 49; 109; 27] = false /\
  cells [mkChunk [104; 105] no_atts] = plain_cells [104; 105] /\ text [mkChunk [104; 105] no_atts] = [104; 105].
Proof. vm_compute. repeat split. Qed.

(* the text of the result is s with characters removed -- never added or reordered -- and
   every character that is not part of an escape sequence (ECMA-48 control sequences and
   two-byte ESC Fe sequences, found by the independent scanner Spec/EscScan.v) is kept:
   there is a keep-mask of the length of s that selects the result's text and keeps every
   position outside the escape sequences *)
Theorem C17_kept :
  forall (s : str) (f : fmtstr), from_str s = Ok f ->
    exists keep : list bool, length keep = length s /\ text f = select keep s /\
                             mask_le (map negb (esc_mask s)) keep = true.
Proof. exact from_str_keeps. Qed.
Print Assumptions C17_kept.

Example C17_kept_nonvacuous :
  let s := [97; 27; 91; 63; 50; 53; 108; 98; 27; 72; 99; 155; 51; 49; 109; 100; 27; 91; 51; 56; 109; 27] in
  esc_mask s = [false; true; true; true; true; true; true; false; true; true; false; true; true; true; true; false;
                true; true; true; true; true; false] /\
  exists f, from_str s = Ok f /\ text f = [97; 98; 27; 72; 99; 100; 27].
Proof. vm_compute. split; [reflexivity|]. eexists. split; reflexivity. Qed.

(* the scanners of Model/Parse.v were written for exactly these sources of
   peel_off_esc_code and remove_ansi (SHA-1 of the patterns and flags the two functions hand to the re module, observed at run
   time and regenerated from the tree on every run); an edited pattern or flag breaks this obligation *)
Theorem C17_regex_sources_tie :
  peel_src_hash = [57; 49; 53; 48; 49; 50; 52; 50; 57; 102; 55; 49; 57; 49; 97; 54; 100; 102; 50; 56; 57; 102; 98; 51; 97; 55; 56; 55; 51; 55; 101; 97; 55; 101; 51; 52; 51; 57; 57; 53] /\
  remove_ansi_src_hash = [97; 53; 100; 100; 56; 50; 97; 53; 101; 51; 50; 52; 50; 102; 48; 97; 100; 50; 50; 57; 97; 53; 48; 50; 56; 99; 57; 55; 101; 57; 102; 99; 100; 56; 50; 97; 54; 101; 98; 100].
Proof. exact regex_sources_tie. Qed.
Print Assumptions C17_regex_sources_tie.
