(* C17 -- fmtstr accepts any string: never raises, never loses ordinary text. *)
From Curtsies Require Import Model.Base Gen.Tables Model.Parse Spec.EscScan Proofs.Parse.

(* FmtStr.from_str(s) and fmtstr(s) return a value for EVERY string: each partial operation
   of the Python code (dict lookups, int(), info["numbers"], parse_args' checks, the loop
   running out of input) is an explicit outcome of the model and is shown not to occur /
   to be caught *)
Theorem C17_total : forall s : str, exists f, from_str s = Ok f.
Proof. exact from_str_total. Qed.
Print Assumptions C17_total.

Theorem C17_fmtstr_total : forall s : str, exists f, fmtstr0 s = Ok f /\ from_str s = Ok f.
Proof. exact fmtstr0_total_same. Qed.
Print Assumptions C17_fmtstr_total.

Example C17_total_nonvacuous :
  (* unsupported SGR -> fallback; truncated; nested; a trailing ';' *)
  from_str [27; 91; 51; 56; 109; 120] = Ok [C [120] (A 0 0 0 0 0 0 0 0)] /\
  from_str [27; 91; 27; 91; 49; 59; 109; 97; 155] = Ok [C [27; 91; 97; 155] (A 0 0 0 0 0 0 0 0)] /\
  from_str [27; 91; 63; 50; 53; 108; 27; 91; 49; 109; 10; 120] = Ok [C [63; 50; 53; 108] (A 0 0 0 0 0 0 0 0); C [10; 120] (A 0 0 1 0 0 0 0 0)].
Proof. vm_compute. repeat split. Qed.

(* text containing neither ESC [ nor the 8-bit CSI comes back verbatim as one unformatted run *)
Theorem C17_plain :
  forall s : str, needs_parse s = false -> from_str s = Ok [mkChunk s no_atts].
Proof. exact from_str_plain. Qed.
Print Assumptions C17_plain.

Example C17_plain_nonvacuous :
  needs_parse [104; 105; 10; 27; 10; 91; 49; 109; 27] = false /\
  cells [mkChunk [104; 105] no_atts] = plain_cells [104; 105] /\ text [mkChunk [104; 105] no_atts] = [104; 105].
Proof. vm_compute. repeat split. Qed.

(* the text of the result is s with characters removed -- never added or reordered -- and
   every character that is not part of an escape sequence (ECMA-48 control sequences and
   two-byte ESC Fe sequences, found by the independent scanner Spec/EscScan.v) is kept:
   there is a keep-mask of the length of s that selects the result's text and keeps every
   position outside the escape sequences *)
Theorem C17_kept :
  forall (s : str) (f : fmtstr), from_str s = Ok f ->
    exists keep : list bool, length keep = length s /\ text f = select keep s /\
                             mask_le (map negb (esc_mask s)) keep = true.
Proof. exact from_str_keeps. Qed.
Print Assumptions C17_kept.

Example C17_kept_nonvacuous :
  let s := [97; 27; 91; 63; 50; 53; 108; 98; 27; 72; 99; 155; 51; 49; 109; 100; 27; 91; 51; 56; 109; 27] in
  esc_mask s = [false; true; true; true; true; true; true; false; true; true; false; true; true; true; true; false;
                true; true; true; true; true; false] /\
  exists f, from_str s = Ok f /\ text f = [97; 98; 27; 72; 99; 100; 27].
Proof. vm_compute. split; [reflexivity|]. eexists. split; reflexivity. Qed.

(* the scanners of Model/Parse.v were written for exactly these sources of
   peel_off_esc_code and remove_ansi (SHA-1 of the function sources, regenerated from the
   tree on every run); an edit of either function breaks this obligation *)
Theorem C17_regex_sources_tie :
  peel_src_hash = [99; 51; 50; 97; 56; 98; 49; 97; 55; 98; 100; 52; 100; 56; 55; 99; 102; 102; 51; 54; 102; 56; 100; 48; 98; 56; 56; 98; 56; 99; 50; 48; 54; 53; 97; 99; 101; 56; 52; 51] /\
  remove_ansi_src_hash = [56; 49; 52; 49; 49; 101; 51; 99; 54; 101; 98; 50; 101; 98; 53; 97; 49; 55; 102; 49; 53; 101; 97; 52; 101; 48; 52; 51; 54; 54; 53; 102; 53; 97; 54; 51; 52; 52; 54; 50].
Proof. exact regex_sources_tie. Qed.
Print Assumptions C17_regex_sources_tie.
