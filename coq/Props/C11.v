(* C11 -- width_aware_splitlines wraps to the column limit without losing anything.
   [wc] stands for cwcwidth.wcwidth; assumed: its range {0, 1, 2} on the characters
   of the input, and (for the widths) that the space is one column wide.
   The model of ChunkSplitter.request / _width_aware_splitlines (Model/Wrap.v)
   carries one ghost bit per returned chunk: whether request took the branch that
   appends the replacement character.  [aline_cells] turns a line of the model
   into cells tagged Orig / Pad accordingly; [line_fs] is the line as the FmtStr
   the code yields.  [splitlines_ann ... = Some (Ok ls)] says: the fuel given to
   the inner `while True` (2 * len(run) + 2 iterations per run) was not exhausted
   and neither assertion nor exception was raised. *)
From Curtsies Require Import Model.Base Model.Width Model.Wrap Spec.Columns Proofs.Wrap.
Local Open Scope Z_scope.

(* termination, no exception; the observable result is the list of the lines *)
Theorem C11_terminates_without_exception :
  forall (wc : char -> Z) (columns : Z), 2 <= columns ->
  forall f : fmtstr,
    (forall c, In c (text f) -> wc c = 0 \/ wc c = 1 \/ wc c = 2) ->
    exists ls, splitlines_ann wc f columns = Some (Ok ls) /\
               splitlines wc f columns = Some (Ok (map line_fs ls)).
Proof. exact splitlines_total. Qed.
Print Assumptions C11_terminates_without_exception.

(* erasing the tags of an annotated line gives the cells of the line the code yields *)
Theorem C11_erasing_tags_gives_the_output :
  forall l : aline, erase (aline_cells l) = cells (line_fs l).
Proof. exact erase_aline_cells. Qed.
Print Assumptions C11_erasing_tags_gives_the_output.

(* the original cells of all lines, concatenated, are exactly the cells of f:
   every character, in order, with its formatting; nothing else but paddings *)
Theorem C11_lines_contain_exactly_the_input :
  forall (wc : char -> Z) (columns : Z), 2 <= columns ->
  forall f : fmtstr,
    (forall c, In c (text f) -> wc c = 0 \/ wc c = 1 \/ wc c = 2) ->
    exists ls, splitlines_ann wc f columns = Some (Ok ls) /\
               erase (filter is_orig (concat (map aline_cells ls))) = cells f.
Proof. exact splitlines_conserves. Qed.
Print Assumptions C11_lines_contain_exactly_the_input.

(* no line is empty, every line but the last is exactly [columns] wide, the last
   at most (widths_ok, Spec/Columns.v) *)
Theorem C11_line_widths :
  forall (wc : char -> Z) (columns : Z), 2 <= columns ->
  forall f : fmtstr,
    wc 32%N = 1 ->
    (forall c, In c (text f) -> wc c = 0 \/ wc c = 1 \/ wc c = 2) ->
    exists ls, splitlines_ann wc f columns = Some (Ok ls) /\
               widths_ok wc columns (map (fun l => cells (line_fs l)) ls).
Proof. exact splitlines_widths. Qed.
Print Assumptions C11_line_widths.

(* every padding is the last cell of its line, is a space, and the next line
   starts with an original double-width character in the same graphic state
   (pads_ok, Spec/Columns.v) *)
Theorem C11_paddings_only_before_a_pushed_wide_character :
  forall (wc : char -> Z) (columns : Z), 2 <= columns ->
  forall f : fmtstr,
    (forall c, In c (text f) -> wc c = 0 \/ wc c = 1 \/ wc c = 2) ->
    exists ls, splitlines_ann wc f columns = Some (Ok ls) /\
               pads_ok wc (map aline_cells ls).
Proof. exact splitlines_pads. Qed.
Print Assumptions C11_paddings_only_before_a_pushed_wide_character.

(* the annotated lines are those of the per-character greedy wrap of Spec/Columns.v
   run on the cells of f with the run ends marked (a full line is closed at a run
   end; otherwise by the next character that does not fit) *)
Theorem C11_model_is_the_greedy_wrap :
  forall (wc : char -> Z) (columns : Z), 2 <= columns ->
  forall f : fmtstr,
    (forall c, In c (text f) -> wc c = 0 \/ wc c = 1 \/ wc c = 2) ->
    exists ls, splitlines_ann wc f columns = Some (Ok ls) /\
               map aline_cells ls = wrap_runs wc columns f.
Proof. exact splitlines_sim. Qed.
Print Assumptions C11_model_is_the_greedy_wrap.

(* the hypotheses are inhabited by a non-trivial input: "a", wide E, combining
   grave | wide E, "b" at 2 columns: the first wide E is pushed to line 2 behind
   a padding, the run ends exactly at a line boundary *)
Definition ex_wc : char -> Z := wc_of [(65317%N, 2); (768%N, 0)].
Definition ex_f : fmtstr :=
  [C [97; 65317; 768]%N (A 2 0 1 0 0 0 0 0); C [65317; 98]%N (A 0 5 0 0 0 0 0 0)].
Example C11_nonvacuous :
  ex_wc 32%N = 1 /\
  (forall c, In c (text ex_f) -> ex_wc c = 0 \/ ex_wc c = 1 \/ ex_wc c = 2) /\
  splitlines ex_wc ex_f 2 =
    Some (Ok [ [C [97; 32]%N (A 2 0 1 0 0 0 0 0)];
               [C [65317; 768]%N (A 2 0 1 0 0 0 0 0)];
               [C [65317]%N (A 0 5 0 0 0 0 0 0)];
               [C [98]%N (A 0 5 0 0 0 0 0 0)] ]) /\
  option_map (fun r => match r with Ok ls => map (fun l => map snd (aline_cells l)) ls | Raise _ => [] end)
             (splitlines_ann ex_wc ex_f 2)
  = Some [[Orig; Pad]; [Orig; Orig]; [Orig]; [Orig]].
Proof.
  split; [reflexivity|]. split.
  - intros c Hc. cbn in Hc.
    repeat (destruct Hc as [<-|Hc]; [vm_compute; auto|]). contradiction.
  - split; vm_compute; reflexivity.
Qed.
