(* C05 -- parsing a FmtStr's terminal string gives the same FmtStr back; more generally,
   parsing text interleaved with supported SGR sequences yields for every character the
   formatting an ANSI terminal (the reference interpreter Spec/Sgr.v) displays it with. *)
From Curtsies Require Import Model.Base Gen.Tables Model.Render Model.Parse Spec.Sgr Spec.EscScan Proofs.Parse.

(* every string of the grammar (text | ESC [ p1;...;pn m)* with ESC/CSI-free text and
   parameters from 0,1,2,3,4,5,7,30-37,39,40-47,49 (or none): from_str succeeds and its
   per-character cells are exactly what the reference terminal displays *)
Theorem C05_grammar :
  forall toks : list gtok, supported toks = true ->
    exists f st, from_str (flatten toks) = Ok f /\ display (flatten toks) = Some (cells f, st, Ground).
Proof. exact from_str_grammar. Qed.
Print Assumptions C05_grammar.

Example C05_grammar_nonvacuous :
  let toks := [GText [97; 10]; GSgr [1; 31; 44]; GText [91; 59; 109]; GSgr []; GSgr [4]; GText [120]; GSgr [39; 0; 49]] in
  supported toks = true /\ length (flatten toks) = 33%nat /\
  exists f, from_str (flatten toks) = Ok f /\ length (cells f) = 6%nat /\
            nth_error (cells f) 2 = Some (91, Sg 2 5 1 0 0 0 0 0) /\ nth_error (cells f) 5 = Some (120, Sg 0 0 0 0 0 1 0 0).
Proof. vm_compute. repeat split. eexists. repeat split. Qed.

(* the round trip: for every FmtStr with ESC/CSI-free text, parsing str(f) gives a FmtStr
   with the same characters and the same formatting on every character *)
Theorem C05_roundtrip :
  forall f : fmtstr, clean f = true ->
    exists f', from_str (render f) = Ok f' /\ cells f' = cells f.
Proof. exact from_str_render. Qed.
Print Assumptions C05_roundtrip.

Example C05_roundtrip_nonvacuous :
  let f := [C [104; 105; 10] (A 2 5 1 0 2 0 0 1); C [] (A 0 0 1 0 0 0 0 0); C [9; 65279; 120] (A 0 0 0 0 0 1 0 0)] in
  clean f = true /\ length (cells f) = 6%nat /\
  exists f', from_str (render f) = Ok f' /\ cells f' = cells f.
Proof. vm_compute. repeat split. eexists. repeat split. Qed.

(* the scanners of Model/Parse.v were written for exactly these sources of
   peel_off_esc_code and remove_ansi (SHA-1 of the function sources, regenerated from the
   tree on every run); an edit of either function breaks this obligation *)
Theorem C05_regex_sources_tie :
  peel_src_hash = [99; 51; 50; 97; 56; 98; 49; 97; 55; 98; 100; 52; 100; 56; 55; 99; 102; 102; 51; 54; 102; 56; 100; 48; 98; 56; 56; 98; 56; 99; 50; 48; 54; 53; 97; 99; 101; 56; 52; 51] /\
  remove_ansi_src_hash = [56; 49; 52; 49; 49; 101; 51; 99; 54; 101; 98; 50; 101; 98; 53; 97; 49; 55; 102; 49; 53; 101; 97; 52; 101; 48; 52; 51; 54; 54; 53; 102; 53; 97; 54; 51; 52; 52; 54; 50].
Proof. exact regex_sources_tie. Qed.
Print Assumptions C05_regex_sources_tie.
