(* C05 -- parsing a FmtStr's terminal string gives the same FmtStr back; more generally,
   parsing text interleaved with supported SGR sequences yields for every character the
   formatting an ANSI terminal (the reference interpreter Spec/Sgr.v) displays it with. *)
From Curtsies Require Import Model.Base Gen.Tables Model.Render Model.Parse Spec.Sgr Spec.EscScan Proofs.Parse.

(* every string of the grammar (text | ESC [ p1;...;pn m)* with ESC/CSI-free text and
   parameters from 0,1,2,3,4,5,7,30-37,39,40-47,49 (or none): from_str succeeds and its
   per-character cells are exactly what the reference terminal displays *)
Theorem C05_grammar :
  forall toks : list gtok, supported toks = true ->
    exists f st, from_str (flatten toks) = Ok f /\ display (flatten toks) = Some (cells f, st, Ground).
Proof. exact from_str_grammar. Qed.
Print Assumptions C05_grammar.

Example C05_grammar_nonvacuous :
  let toks := [GText [97; 10]; GSgr [1; 31; 44]; GText [91; 59; 109]; GSgr []; GSgr [4]; GText [120]; GSgr [39; 0; 49]] in
  supported toks = true /\ length (flatten toks) = 33%nat /\
  exists f, from_str (flatten toks) = Ok f /\ length (cells f) = 6%nat /\
            nth_error (cells f) 2 = Some (91, Sg 2 5 1 0 0 0 0 0) /\ nth_error (cells f) 5 = Some (120, Sg 0 0 0 0 0 1 0 0).
Proof. vm_compute. repeat split. eexists. repeat split. Qed.

(* the round trip: for every FmtStr with ESC/CSI-free text, parsing str(f) gives a FmtStr
   with the same characters and the same formatting on every character *)
Theorem C05_roundtrip :
  forall f : fmtstr, clean f = true ->
    exists f', from_str (render f) = Ok f' /\ cells f' = cells f.
Proof. exact from_str_render. Qed.
Print Assumptions C05_roundtrip.

Example C05_roundtrip_nonvacuous :
  let f := [C [104; 105; 10] (A 2 5 1 0 2 0 0 1); C [] (A 0 0 1 0 0 0 0 0); C [9; 65279; 120] (A 0 0 0 0 0 1 0 0)] in
  clean f = true /\ length (cells f) = 6%nat /\
  exists f', from_str (render f) = Ok f' /\ cells f' = cells f.
Proof. vm_compute. repeat split. eexists. repeat split. Qed.

(* the scanners of Model/Parse.v were written for exactly these sources of
   peel_off_esc_code and remove_ansi (SHA-1 of the patterns and flags the two functions hand to the re module, observed at run
   time and regenerated from the tree on every run); an edited pattern or flag breaks this obligation *)
Theorem C05_regex_sources_tie :
  peel_src_hash = [57; 49; 53; 48; 49; 50; 52; 50; 57; 102; 55; 49; 57; 49; 97; 54; 100; 102; 50; 56; 57; 102; 98; 51; 97; 55; 56; 55; 51; 55; 101; 97; 55; 101; 51; 52; 51; 57; 57; 53] /\
  remove_ansi_src_hash = [97; 53; 100; 100; 56; 50; 97; 53; 101; 51; 50; 52; 50; 102; 48; 97; 100; 50; 50; 57; 97; 53; 48; 50; 56; 99; 57; 55; 101; 57; 102; 99; 100; 56; 50; 97; 54; 101; 98; 100].
Proof. exact regex_sources_tie. Qed.
Print Assumptions C05_regex_sources_tie.
