(* C14 -- applying or removing formatting touches exactly the named attributes.
   Model: Model/Atts.v (parse_args, fmtstr, the fmtfuncs helpers, copy_with_new_atts,
   new_with_atts_removed, copy_with_new_str, shared_atts); reference reading:
   Spec/AttSpec.v ([valid], [invalid], [exactly]/[named], [override], [clear]).
   Values are int / bool / str / None; keyword names are distinct (Python). *)
From Curtsies Require Import Model.Base Gen.Tables Model.Render Model.Atts Spec.Sgr Spec.AttSpec Proofs.Atts.

(* a valid specification, in any spelling and any order, parses to exactly the named attributes *)
Theorem C14_parse_args_valid :
  forall args kw a, valid args kw = true -> exactly args kw a ->
    exists d, parse_args args kw = Ok d /\ atts_of_dict d = Some a.
Proof. exact parse_args_valid. Qed.
Print Assumptions C14_parse_args_valid.

(* ... and such a record exists: the one obtained by setting the named attributes one by one *)
Theorem C14_named_exactly :
  forall args kw, valid args kw = true -> exactly args kw (named args kw).
Proof. exact named_exactly. Qed.
Print Assumptions C14_named_exactly.

(* fmtstr(): every character stays, the named attributes take the given values (overriding
   earlier ones), all other attributes stay; on a str (without ESC '[') the start is plain *)
Theorem C14_fmtstr_sets_exactly_the_named_attributes :
  forall x args kw a, valid args kw = true -> exactly args kw a ->
    match x with
    | SFmt f => exists g, fmtstr_fn x args kw = Some (Ok g) /\ cells g = override_cells a (cells f)
    | SStr s => has_esc_csi s = false ->
                exists g, fmtstr_fn x args kw = Some (Ok g) /\ cells g = override_cells a (plain_cells s)
    | SOther => fmtstr_fn x args kw = Some (Raise ValueError)
    end.
Proof. exact fmtstr_cells. Qed.
Print Assumptions C14_fmtstr_sets_exactly_the_named_attributes.

(* copy_with_new_atts itself *)
Theorem C14_copy_with_new_atts_cells :
  forall f a, cells (copy_with_new_atts f a) = override_cells a (cells f) /\ text (copy_with_new_atts f a) = text f.
Proof. intros f a. split; [apply copy_with_new_atts_cells | apply copy_with_new_atts_text]. Qed.
Print Assumptions C14_copy_with_new_atts_cells.

(* equivalent spellings give identical results *)
Theorem C14_spellings_agree :
  forall args1 kw1 args2 kw2,
    valid args1 kw1 = true -> valid args2 kw2 = true ->
    (forall m, In m (goods (classes args1 kw1)) <-> In m (goods (classes args2 kw2))) ->
    exists d1 d2 a, parse_args args1 kw1 = Ok d1 /\ parse_args args2 kw2 = Ok d2 /\
                    atts_of_dict d1 = Some a /\ atts_of_dict d2 = Some a /\
                    a = named args1 kw1 /\ a = named args2 kw2.
Proof. exact spellings_agree. Qed.
Print Assumptions C14_spellings_agree.

(* the fmtfuncs helpers: red(x, ...) = fmtstr(x, ..., 'red') etc., through the generated table *)
Theorem C14_fmtfunc_is_fmtstr :
  forall name pa x args kw,
    func_args name = Some pa -> NoDup (map fst kw) -> ~ In k_style (map fst kw) ->
    fmtfunc name x args kw = fmtstr_fn x (args ++ pa) kw.
Proof. exact fmtfunc_is_fmtstr. Qed.
Print Assumptions C14_fmtfunc_is_fmtstr.

Theorem C14_fmtfunc_sets_exactly_the_named_attributes :
  forall name pa x args kw a,
    func_args name = Some pa -> ~ In k_style (map fst kw) ->
    valid (args ++ pa) kw = true -> exactly (args ++ pa) kw a ->
    match x with
    | SFmt f => exists g, fmtfunc name x args kw = Some (Ok g) /\ cells g = override_cells a (cells f)
    | SStr s => has_esc_csi s = false ->
                exists g, fmtfunc name x args kw = Some (Ok g) /\ cells g = override_cells a (plain_cells s)
    | SOther => fmtfunc name x args kw = Some (Raise ValueError)
    end.
Proof. exact fmtfunc_cells. Qed.
Print Assumptions C14_fmtfunc_sets_exactly_the_named_attributes.

(* each of the 24 helper names, called alone, is a valid specification of one attribute (plain: of none) *)
Theorem C14_helpers_alone_valid :
  forall name, In name all_func_names ->
    exists pa, func_args name = Some pa /\ valid pa [] = true /\
               match pa with
               | [] => named pa [] = no_atts
               | v :: _ => exists m, pos_cls v = Good m /\ named pa [] = one m
               end.
Proof. exact helpers_alone_valid. Qed.
Print Assumptions C14_helpers_alone_valid.

(* nesting: calls naming different attributes commute; on the same attributes the later call wins *)
Theorem C14_nesting_order_independent :
  forall f args1 kw1 args2 kw2,
    valid args1 kw1 = true -> valid args2 kw2 = true ->
    disjoint_atts (named args1 kw1) (named args2 kw2) = true ->
    exists g1 g2 h,
      fmtstr_fn (SFmt f) args1 kw1 = Some (Ok g1) /\ fmtstr_fn (SFmt g1) args2 kw2 = Some (Ok h) /\
      fmtstr_fn (SFmt f) args2 kw2 = Some (Ok g2) /\ fmtstr_fn (SFmt g2) args1 kw1 = Some (Ok h) /\
      cells h = override_cells (named args2 kw2) (override_cells (named args1 kw1) (cells f)).
Proof. exact nesting_order_independent. Qed.
Print Assumptions C14_nesting_order_independent.

Theorem C14_nesting_later_wins :
  forall f args1 kw1 args2 kw2,
    valid args1 kw1 = true -> valid args2 kw2 = true ->
    covers (named args2 kw2) (named args1 kw1) = true ->
    exists g1 h,
      fmtstr_fn (SFmt f) args1 kw1 = Some (Ok g1) /\ fmtstr_fn (SFmt g1) args2 kw2 = Some (Ok h) /\
      fmtstr_fn (SFmt f) args2 kw2 = Some (Ok h).
Proof. exact nesting_later_wins. Qed.
Print Assumptions C14_nesting_later_wins.

(* new_with_atts_removed deletes exactly the named attributes *)
Theorem C14_new_with_atts_removed_exact :
  forall f ks, cells (new_with_atts_removed f ks) = clear_cells ks (cells f) /\
               text (new_with_atts_removed f ks) = text f /\
               forall a m, has (att_remove ks a) m = (negb (mem_str (key_str m) ks) && has a m)%bool.
Proof.
  intros f ks. split; [apply new_with_atts_removed_cells|]. split; [apply new_with_atts_removed_text|].
  intros a m. apply att_remove_exact.
Qed.
Print Assumptions C14_new_with_atts_removed_exact.

(* copy_with_new_str swaps the text and keeps a uniformly formatted string's formatting
   (uniform: every run, empty ones included, has the same effective attributes) *)
Theorem C14_copy_with_new_str_uniform :
  forall f s st, uniform f st = true -> f <> [] ->
    cells (copy_with_new_str f s) = map (fun x => (x, st)) s.
Proof. exact copy_with_new_str_uniform. Qed.
Print Assumptions C14_copy_with_new_str_uniform.

(* every specification of the invalid catalogue raises ValueError; parse_args raises nothing else;
   a mis-typed first argument raises ValueError whatever the specification *)
Theorem C14_invalid_raises_ValueError :
  forall args kw, distinct_keywords kw = true -> invalid args kw ->
    parse_args args kw = Raise ValueError /\ forall x, fmtstr_fn x args kw = Some (Raise ValueError).
Proof.
  intros args kw D I. split; [now apply parse_args_invalid | intros x; now apply fmtstr_invalid].
Qed.
Print Assumptions C14_invalid_raises_ValueError.

Theorem C14_only_ValueError :
  forall args kw, ((exists d, parse_args args kw = Ok d) \/ parse_args args kw = Raise ValueError) /\
                  fmtstr_fn SOther args kw = Some (Raise ValueError).
Proof. intros args kw. split; [apply parse_args_total | apply fmtstr_mistyped]. Qed.
Print Assumptions C14_only_ValueError.

(* the families of the catalogue are members of it, whatever else the specification contains *)
Theorem C14_catalogue_members :
  (forall args kw v, In v args -> (forall s, v <> VStr s) -> invalid args kw) /\
  (forall args kw k s, In (VStr s) args -> ci_eqb s (style_name k) = true -> s <> style_name k -> invalid args kw) /\
  (forall args kw v, In (n_style, v) kw -> (forall s, v <> VStr s) -> invalid args kw) /\
  (forall args kw k v, In (k, v) kw -> k <> n_fg -> k <> n_bg -> k <> n_style -> style_named k = None -> invalid args kw) /\
  (forall args kw, In (n_fg, VNone) kw \/ In (n_bg, VNone) kw -> invalid args kw) /\
  (forall args kw b, In (n_fg, VBool b) kw \/ In (n_bg, VBool b) kw -> invalid args kw) /\
  (forall args kw c, In (n_fg, VStr (n_on ++ color_name c)) kw \/ In (n_bg, VStr (n_on ++ color_name c)) kw -> invalid args kw) /\
  (forall args kw z, (In (n_fg, VInt z) kw /\ (z < 30 \/ 37 < z)%Z) \/ (In (n_bg, VInt z) kw /\ (z < 40 \/ 47 < z)%Z) -> invalid args kw) /\
  (forall args kw s, color_named s = None -> In (n_fg, VStr s) kw \/ In (n_bg, VStr s) kw -> invalid args kw) /\
  (forall args kw a1 v1 a2 v2 a3 m1 m2, args = a1 ++ v1 :: a2 ++ v2 :: a3 -> pos_cls v1 = Good m1 -> pos_cls v2 = Good m2 ->
      akey_of m1 = akey_of m2 -> (akey_of m1 = KFg \/ akey_of m1 = KBg) -> invalid args kw) /\
  (forall args kw v m k w m', In v args -> pos_cls v = Good m -> In (k, w) kw -> kw_cls (k, w) = Good m' ->
      akey_of m = akey_of m' -> (akey_of m = KFg \/ akey_of m = KBg) -> invalid args kw).
Proof.
  repeat split.
  - intros args kw v I H. apply (invalid_bad_positional args kw v I). now apply cat_positional_not_str.
  - intros args kw k s I C N. apply (invalid_bad_positional args kw _ I). now apply (cat_style_wrong_case k).
  - intros args kw v I H. apply (invalid_bad_keyword args kw _ _ I). now apply cat_style_not_str.
  - intros args kw k v I N1 N2 N3 H. apply (invalid_bad_keyword args kw _ _ I). now apply cat_unknown_keyword.
  - intros args kw [I|I]; apply (invalid_bad_keyword args kw _ _ I); reflexivity.
  - intros args kw b [I|I]; apply (invalid_bad_keyword args kw _ _ I); reflexivity.
  - intros args kw c [I|I]; apply (invalid_bad_keyword args kw _ _ I); [apply cat_fg_on_name | apply cat_bg_on_name].
  - intros args kw z [[I H]|[I H]]; apply (invalid_bad_keyword args kw _ _ I);
      [now apply cat_fg_out_of_range | now apply cat_bg_out_of_range].
  - intros args kw s H [I|I]; apply (invalid_bad_keyword args kw _ _ I);
      [now apply cat_fg_unknown_name | now apply cat_bg_unknown_name].
  - exact invalid_twice_positional.
  - exact invalid_positional_and_keyword.
Qed.
Print Assumptions C14_catalogue_members.

(* shared_atts only ever reports a value that every character has *)
Theorem C14_shared_atts_sound :
  forall f a, shared_atts f = Ok a -> all_cells_have a (cells f) = true.
Proof. exact shared_atts_sound. Qed.
Print Assumptions C14_shared_atts_sound.

(* the generated tables say what the reference names say (breaks when a table entry changes) *)
Theorem C14_tables_agree_with_reference_names :
  (forall x, tab_get x fg_colors = option_map fg_value (color_named x)) /\
  (forall x, tab_get x bg_colors = option_map bg_value (color_named x)) /\
  (forall x, tab_mem x styles = match style_named x with Some _ => true | None => false end) /\
  (forall name, ff_get name fmtfuncs_table =
                match func_args name with
                | Some [] => Some None
                | Some (VStr s :: _) => Some (Some s)
                | _ => None
                end).
Proof. repeat split; [apply fg_table | apply bg_table | apply styles_table | apply fmtfuncs_table_ok]. Qed.
Print Assumptions C14_tables_agree_with_reference_names.
