(* C16 -- linesplit word-wraps without losing, reordering or restyling words.
   [is_space] stands for Python's regex class `\s` (outside the repository); the
   only thing assumed of it, and only where stated, is that U+0020 belongs to it.
   The argument [inp] is a str or a FmtStr (operand); [op_cells inp] is its
   per-character list (character, graphic state), [op_text inp] its text.
   Reference functions (Spec/StrSpec.v, independent of the model):
     blocks sp l        the maximal blocks of non-space items of l   (the words)
     inner_gaps sp l    the blocks of space items between two words  (the gaps)
     greedy_wrap n mk words gaps
                        greedy first-fit wrap: word i+1 joins the current line,
                        behind the single item [mk gap_i], exactly when
                        len(line) + 1 + len(word) <= n; otherwise it starts a new
                        line; a word longer than n is cut into pieces of n items
     meet_sgr states    the graphic state showing exactly what ALL the states show
     sgr_le a b         every attribute shown by a is shown by b
     interleave ws gs   w0 ++ g0 ++ w1 ++ g1 ++ ...                                  *)
From Curtsies Require Import Model.Base Model.Slice Spec.StrSpec Model.LineSplit Proofs.LineSplit.
Local Open Scope Z_scope.

(* For every argument and every columns >= 1 linesplit raises nothing, and the
   returned lines are, cell by cell (characters AND formatting), the greedy
   first-fit wrap of the words of the argument; the space that joins two words on
   a line carries the formatting shared by all cells of the whitespace it replaces. *)
Theorem C16_lines_are_the_greedy_wrap :
  forall (is_space : char -> bool) (inp : operand) (columns : Z), 1 <= columns ->
  let sp := fun cl : cell => is_space (fst cl) in
  let L := op_cells inp in
  exists lines, linesplit is_space inp columns = Ok lines /\
    map cells lines =
    greedy_wrap (Z.to_nat columns) (fun gap => (32%N, meet_sgr (map snd gap)))
                (blocks sp L) (inner_gaps sp L).
Proof. exact linesplit_greedy. Qed.
Print Assumptions C16_lines_are_the_greedy_wrap.

(* the same on the text alone: the greedy wrap of the whitespace-separated words,
   joined by one U+0020 *)
Theorem C16_line_texts_are_the_greedy_wrap :
  forall (is_space : char -> bool) (inp : operand) (columns : Z), 1 <= columns ->
  exists lines, linesplit is_space inp columns = Ok lines /\
    map text lines =
    greedy_wrap (Z.to_nat columns) (fun _ => 32%N)
                (blocks is_space (op_text inp)) (inner_gaps is_space (op_text inp)).
Proof. exact linesplit_text_greedy. Qed.
Print Assumptions C16_line_texts_are_the_greedy_wrap.

(* no line is longer than columns (nor empty), in the code's own measure len() *)
Theorem C16_no_line_longer_than_columns :
  forall (is_space : char -> bool) (inp : operand) (columns : Z), 1 <= columns ->
  exists lines, linesplit is_space inp columns = Ok lines /\
    Forall (fun ln => 1 <= len ln <= columns) lines.
Proof. exact linesplit_len_le. Qed.
Print Assumptions C16_no_line_longer_than_columns.

(* ... and every line begins and ends with a non-whitespace character *)
Theorem C16_lines_fit_and_have_no_outer_whitespace :
  forall (is_space : char -> bool) (inp : operand) (columns : Z), 1 <= columns ->
  exists lines, linesplit is_space inp columns = Ok lines /\
    Forall (fun ln : list cell =>
              (length ln <= Z.to_nat columns)%nat /\
              exists x y, hd_error ln = Some x /\ last ln x = y /\
                          is_space (fst x) = false /\ is_space (fst y) = false)
           (map cells lines).
Proof. exact linesplit_lines_ok. Qed.
Print Assumptions C16_lines_fit_and_have_no_outer_whitespace.

(* the non-whitespace cells of the lines, concatenated, are the non-whitespace
   cells of the argument: every character of every word, in order, with its
   formatting; nothing lost, duplicated or restyled *)
Theorem C16_words_are_conserved :
  forall (is_space : char -> bool) (inp : operand) (columns : Z), 1 <= columns ->
  is_space 32%N = true ->
  let nsp := fun cl : cell => negb (is_space (fst cl)) in
  exists lines, linesplit is_space inp columns = Ok lines /\
    filter nsp (concat (map cells lines)) = filter nsp (op_cells inp).
Proof. exact linesplit_conserves. Qed.
Print Assumptions C16_words_are_conserved.

(* where the gaps handed to the joiner lie: the argument is leading whitespace,
   then words and gaps alternating, then trailing whitespace; every gap is a
   non-empty block of whitespace cells, one between each two consecutive words *)
Theorem C16_gaps_lie_between_consecutive_words :
  forall (is_space : char -> bool) (inp : operand),
  let sp := fun cl : cell => is_space (fst cl) in
  let L := op_cells inp in
  Forall (fun g => g <> [] /\ forall c, In c g -> sp c = true) (inner_gaps sp L) /\
  length (inner_gaps sp L) = pred (length (blocks sp L)) /\
  exists lead trail,
    (forall c, In c lead -> sp c = true) /\ (forall c, In c trail -> sp c = true) /\
    L = lead ++ interleave (blocks sp L) (inner_gaps sp L) ++ trail.
Proof. exact linesplit_gaps. Qed.
Print Assumptions C16_gaps_lie_between_consecutive_words.

(* a uniformly formatted gap gives a joining space with exactly that formatting *)
Theorem C16_joining_space_of_a_uniform_gap :
  forall (gap : list cell) (st : sgr), gap <> [] -> (forall c, In c gap -> snd c = st) ->
  (32%N, meet_sgr (map snd gap)) = (32%N, st).
Proof. exact meet_joiner_uniform. Qed.
Print Assumptions C16_joining_space_of_a_uniform_gap.

(* in general it shows no attribute that some cell of the gap does not show *)
Theorem C16_joining_space_shows_only_shared_formatting :
  forall (gap : list cell) (c : cell), In c gap ->
  sgr_le (meet_sgr (map snd gap)) (snd c) = true.
Proof. intros gap c H. exact (proj2 (meet_joiner_le gap c H)). Qed.
Print Assumptions C16_joining_space_shows_only_shared_formatting.

(* a text without any word gives no line (whatever columns is) ... *)
Theorem C16_no_words_no_lines :
  forall (is_space : char -> bool) (inp : operand) (columns : Z),
  (forall c, In c (op_text inp) -> is_space c = true) ->
  linesplit is_space inp columns = Ok [].
Proof. exact linesplit_no_words. Qed.
Print Assumptions C16_no_words_no_lines.

(* ... and only such a text does *)
Theorem C16_no_lines_only_without_words :
  forall (is_space : char -> bool) (inp : operand) (columns : Z), 1 <= columns ->
  exists lines, linesplit is_space inp columns = Ok lines /\
    (lines = [] <-> forall c, In c (op_text inp) -> is_space c = true).
Proof. exact linesplit_empty_iff. Qed.
Print Assumptions C16_no_lines_only_without_words.

(* non-vacuity, columns = 5:  " a|b |TAB cd  efg|hijklm x " (| = run boundary)
   - the word "ab" changes formatting inside; the gap " TAB" changes formatting
     inside (red-on-blue bold / blue background only): the joining space keeps the
     blue background alone;
   - "efghijklm" is longer than a line and is cut into "efghi" + "jklm";
   - "x" does not fit behind "jklm" (4 + 1 + 1 > 5);
   - leading and trailing whitespace vanish. *)
Definition ex_space (c : char) : bool := N.eqb c 32 || N.eqb c 9.
Definition ex_in : operand :=
  OFmt [C [32; 97]%N (A 2 0 1 0 0 0 0 0); C [98; 32]%N (A 2 5 1 0 0 0 0 0);
        C [9; 99; 100; 32; 32; 101; 102; 103]%N (A 0 5 0 0 0 0 0 0);
        C [104; 105; 106; 107; 108; 109; 32; 120; 32]%N (A 4 0 0 0 0 1 0 0)].
Example C16_nonvacuous :
  1 <= 5 /\ ex_space 32%N = true /\
  option_map (map cells) (match linesplit ex_space ex_in 5 with Ok ls => Some ls | Raise _ => None end) =
  Some [ [(97%N, Sg 2 0 1 0 0 0 0 0); (98%N, Sg 2 5 1 0 0 0 0 0); (32%N, Sg 0 5 0 0 0 0 0 0);
          (99%N, Sg 0 5 0 0 0 0 0 0); (100%N, Sg 0 5 0 0 0 0 0 0)];
         [(101%N, Sg 0 5 0 0 0 0 0 0); (102%N, Sg 0 5 0 0 0 0 0 0); (103%N, Sg 0 5 0 0 0 0 0 0);
          (104%N, Sg 4 0 0 0 0 1 0 0); (105%N, Sg 4 0 0 0 0 1 0 0)];
         [(106%N, Sg 4 0 0 0 0 1 0 0); (107%N, Sg 4 0 0 0 0 1 0 0); (108%N, Sg 4 0 0 0 0 1 0 0);
          (109%N, Sg 4 0 0 0 0 1 0 0)];
         [(120%N, Sg 4 0 0 0 0 1 0 0)] ] /\
  blocks ex_space (op_text ex_in) = [[97; 98]; [99; 100]; [101; 102; 103; 104; 105; 106; 107; 108; 109]; [120]]%N /\
  inner_gaps ex_space (op_text ex_in) = [[32; 9]; [32; 32]; [32]]%N.
Proof. repeat split; vm_compute; reflexivity || (intros; discriminate). Qed.
