(* Model of Chunk.color_str / FmtStr.__str__ (curtsies/formatstring.py).
   The strings wrapped around the text come from Gen/Tables.v, i.e. from what
   one_arg_xforms / two_arg_xforms of the current tree actually return. *)
From Curtsies Require Import Model.Base Gen.Tables.
Local Open Scope N_scope.

(* for k, v in sorted(atts.items()): keys sort as
   bg, blink, bold, dark, fg, invert, italic, underline;
   "v is False" skips, everything else wraps s = open ++ s ++ close *)
Definition wrap_style (k : style) (v : option bool) (s : str) : str :=
  match v with
  | Some true => st_open k ++ s ++ st_close k
  | _ => s
  end.
Definition wrap_fg (v : option color) (s : str) : str :=
  match v with Some c => fg_open c ++ s ++ fg_close | None => s end.
Definition wrap_bg (v : option color) (s : str) : str :=
  match v with Some c => bg_open c ++ s ++ bg_close | None => s end.

Definition render_chunk (c : chunk) : str :=
  let a := c_a c in
  let s := c_s c in
  let s := wrap_bg (a_bg a) s in
  let s := wrap_style Blink (a_blink a) s in
  let s := wrap_style Bold (a_bold a) s in
  let s := wrap_style Dark (a_dark a) s in
  let s := wrap_fg (a_fg a) s in
  let s := wrap_style Invert (a_invert a) s in
  let s := wrap_style Italic (a_italic a) s in
  let s := wrap_style Underline (a_underline a) s in
  s.

(* "".join(str(fs) for fs in self.chunks) *)
Definition render (f : fmtstr) : str := flat_map render_chunk f.
