(* Model of curtsies/configfile_keynames.py: KeyMap.__getitem__.
   SPECIALS is the generated table [specials] (Gen/Tables.v).
   str.isdigit() / int() are modelled for ASCII digits only (Python's isdigit
   also accepts other Unicode digits; outside the property's quantifier).
   Executable definitions only, no proofs. *)
From Curtsies Require Import Model.Base Gen.Tables.
Local Open Scope N_scope.

Fixpoint lookup_str (t : list (str * str)) (s : str) : option str :=
  match t with
  | [] => None
  | (k, v) :: r => if str_eqb k s then Some v else lookup_str r s
  end.

Definition is_digit (c : N) : bool := (48 <=? c) && (c <=? 57).
(* str.isdigit(): at least one character, all digits *)
Definition isdigit (s : str) : bool :=
  match s with [] => false | _ => forallb is_digit s end.

(* int(s) for a string of ASCII digits *)
Fixpoint digits_val (acc : N) (s : str) : N :=
  match s with
  | [] => acc
  | d :: r => digits_val (acc * 10 + (d - 48)) r
  end.

(* "%d" % n *)
Fixpoint dec_go (fuel : nat) (n : N) (acc : str) : str :=
  match fuel with
  | O => acc
  | Datatypes.S f =>
      let acc' := (48 + n mod 10) :: acc in
      if n / 10 =? 0 then acc' else dec_go f (n / 10) acc'
  end.
Definition decimal (n : N) : str := dec_go (Datatypes.S (N.size_nat n)) n [].

Definition s_C_dash : str := [67; 45].                       (* "C-" *)
Definition s_M_dash : str := [77; 45].                       (* "M-" *)
Definition s_ctrl : str := [60; 67; 116; 114; 108; 45].      (* "<Ctrl-" *)
Definition s_esc : str := [60; 69; 115; 99; 43].             (* "<Esc+" *)
Definition s_meta : str := [60; 77; 101; 116; 97; 45].       (* "<Meta-" *)
Definition s_F : str := [60; 70].                            (* "<F" *)
Definition s_gt : str := [62].                               (* ">" *)

Definition nonempty {X} (l : list X) : bool := match l with [] => false | _ => true end.

(* KeyMap.__getitem__: a tuple of names, or KeyError *)
Definition keymap_get (key : str) : res (list str) :=
  match key with
  | [] => Ok []                                              (* unbound key *)
  | k0 :: k1 =>
      match lookup_str specials key with
      | Some v => Ok [v]
      | None =>
          if nonempty k1 && str_eqb (firstn 2 key) s_C_dash
          then Ok [s_ctrl ++ skipn 2 key ++ s_gt]
          else if nonempty k1 && str_eqb (firstn 2 key) s_M_dash
          then Ok [s_esc ++ skipn 2 key ++ s_gt; s_meta ++ skipn 2 key ++ s_gt]
          else if (k0 =? 70) && isdigit k1
          then Ok [s_F ++ decimal (digits_val 0 k1) ++ s_gt]
          else Raise KeyError
      end
  end.
