(* Model of the attribute machinery of curtsies/formatstring.py and curtsies/fmtfuncs.py:
   parse_args, fmtstr, FmtStr.copy_with_new_atts / new_with_atts_removed /
   copy_with_new_str / shared_atts, FrozenAttributes.extend / remove, the fmtfuncs
   partials, FmtStr.__eq__ / __hash__ / __repr__ and Chunk.repr_part.
   Executable definitions only, no proofs.  All name <-> number tables are the
   generated ones (Gen/Tables.v); the literal key strings "fg" "bg" "style" "on_"
   are literals of the Python source.

   Modelled domain (what is assumed, stated once):
   * positional arguments and keyword values are ints, bools, strs or None
     ([value]); all of them are hashable, so `kwargs["fg"] in FG_COLORS` never
     raises; floats (fg=31.0), lists, bytes are outside the model;
   * Python's `==` between such values: True == 1 and False == 0, a str or None
     is equal to no int ([val_eq_num]);
   * keyword names are strs and pairwise distinct (Python guarantees both);
   * str.lower(): ASCII A-Z and U+212A KELVIN SIGN (-> 'k') are mapped, every
     other character is left alone.  This agrees with Python as far as the tests
     of parse_args can see: no other non-ASCII character lower-cases to a string
     containing an ASCII character except U+0130 (-> 'i' U+0307), which still
     cannot produce a table name (checked by brute force in harness/props/c14.py
     on every run);
   * fmtstr() on a str goes through FmtStr.from_str; only text WITHOUT the
     substring ESC '[' is modelled here (one unformatted run); the escape-sequence
     parser is modelled elsewhere (C05/C17).  [None] results mean "outside the
     modelled domain", never a Python outcome. *)
From Curtsies Require Import Model.Base Gen.Tables Model.Render.
Local Open Scope N_scope.

(* ---- values and keyword dictionaries ---------------------------------------- *)
Inductive value := VInt (z : Z) | VBool (b : bool) | VStr (s : str) | VNone.

Definition value_eqb (a b : value) : bool :=
  match a, b with
  | VInt x, VInt y => Z.eqb x y
  | VBool x, VBool y => Bool.eqb x y
  | VStr x, VStr y => str_eqb x y
  | VNone, VNone => true
  | _, _ => false
  end.

(* an insertion-ordered Python dict with str keys *)
Definition dict := list (str * value).

Fixpoint dict_get (k : str) (d : dict) : option value :=
  match d with
  | [] => None
  | (k', v) :: r => if str_eqb k' k then Some v else dict_get k r
  end.
Definition dict_mem (k : str) (d : dict) : bool :=
  match dict_get k d with Some _ => true | None => false end.
(* d[k] = v : an existing key keeps its position *)
Fixpoint dict_set (k : str) (v : value) (d : dict) : dict :=
  match d with
  | [] => [(k, v)]
  | (k', v') :: r => if str_eqb k' k then (k', v) :: r else (k', v') :: dict_set k v r
  end.
Fixpoint dict_del (k : str) (d : dict) : dict :=
  match d with
  | [] => []
  | (k', v') :: r => if str_eqb k' k then r else (k', v') :: dict_del k r
  end.

(* the Mapping[str, int] tables of termformatconstants.py *)
Fixpoint tab_get (k : str) (t : list (str * N)) : option N :=
  match t with
  | [] => None
  | (k', n) :: r => if str_eqb k' k then Some n else tab_get k r
  end.
Definition tab_mem (k : str) (t : list (str * N)) : bool :=
  match tab_get k t with Some _ => true | None => false end.
Fixpoint num_get (n : N) (t : list (N * str)) : option str :=
  match t with
  | [] => None
  | (n', s) :: r => if N.eqb n' n then Some s else num_get n r
  end.

(* literals of the source *)
Definition k_fg : str := [102; 103].                       (* "fg" *)
Definition k_bg : str := [98; 103].                        (* "bg" *)
Definition k_style : str := [115; 116; 121; 108; 101].     (* "style" *)
Definition on_prefix : str := [111; 110; 95].              (* "on_" *)

(* str.lower() as far as parse_args can observe it (see header) *)
Definition lower_char (c : char) : char :=
  if (65 <=? c) && (c <=? 90) then c + 32 else if c =? 8490 then 107 else c.
Definition lower (s : str) : str := map lower_char s.

Fixpoint starts_with (p s : str) : bool :=
  match p, s with
  | [], _ => true
  | x :: p', y :: s' => N.eqb x y && starts_with p' s'
  | _ :: _, [] => false
  end.

(* ---- parse_args ------------------------------------------------------------------ *)
(*  if "style" in kwargs:
        args += (kwargs["style"],)
        del kwargs["style"]                                                     *)
Definition fold_style (args : list value) (kw : dict) : list value * dict :=
  match dict_get k_style kw with
  | Some v => (args ++ [v], dict_del k_style kw)
  | None => (args, kw)
  end.

(* the body of `for arg in args:` *)
Definition arg_step (arg : value) (kw : dict) : res dict :=
  match arg with
  | VStr a =>                                       (* isinstance(arg, str) *)
      let la := lower a in
      match tab_get la fg_colors with               (* arg.lower() in FG_COLORS *)
      | Some n =>
          if dict_mem k_fg kw then Raise ValueError (* "fg specified twice" *)
          else Ok (dict_set k_fg (VInt (Z.of_N n)) kw)
      | None =>
          (* arg.lower().startswith("on_") and arg[3:].lower() in BG_COLORS *)
          match (if starts_with on_prefix la then tab_get (lower (skipn 3 a)) bg_colors else None) with
          | Some n =>
              if dict_mem k_bg kw then Raise ValueError
              else Ok (dict_set k_bg (VInt (Z.of_N n)) kw)
          | None =>
              if tab_mem la styles                  (* arg.lower() in STYLES *)
              then Ok (dict_set a (VBool true) kw)  (* kwargs[arg] = True : the UN-lowered arg *)
              else Raise ValueError                 (* "couldn't process arg" *)
          end
      end
  | _ => Raise ValueError                           (* "args must be strings" *)
  end.

Fixpoint args_loop (args : list value) (kw : dict) : res dict :=
  match args with
  | [] => Ok kw
  | a :: r => bind (arg_step a kw) (args_loop r)
  end.

(* k not in ("fg", "bg") and k not in STYLES.keys()  ==> ValueError *)
Definition known_key (k : str) : bool := str_eqb k k_fg || str_eqb k k_bg || tab_mem k styles.

(* `v in FG_COLORS` for a dict keyed by strs: only a str can be equal to a key *)
Definition val_tab_get (v : value) (t : list (str * N)) : option N :=
  match v with VStr s => tab_get s t | _ => None end.
(* Python == between a value and an int of the table *)
Definition val_eq_num (v : value) (n : N) : bool :=
  match v with
  | VInt z => Z.eqb z (Z.of_N n)
  | VBool b => N.eqb (if b then 1 else 0) n
  | _ => false
  end.
(* v in list(FG_COLORS.values()) *)
Definition val_in_values (v : value) (t : list (str * N)) : bool :=
  existsb (fun kv => val_eq_num v (snd kv)) t.

(*  if "fg" in kwargs:
        if kwargs["fg"] in FG_COLORS: kwargs["fg"] = FG_COLORS[kwargs["fg"]]
        if kwargs["fg"] not in list(FG_COLORS.values()): raise ValueError       *)
Definition norm_color (key : str) (t : list (str * N)) (kw : dict) : res dict :=
  match dict_get key kw with
  | None => Ok kw
  | Some v =>
      let kw1 := match val_tab_get v t with
                 | Some n => dict_set key (VInt (Z.of_N n)) kw
                 | None => kw
                 end in
      match dict_get key kw1 with
      | Some v1 => if val_in_values v1 t then Ok kw1 else Raise ValueError
      | None => Raise KeyError                       (* unreachable *)
      end
  end.

Definition parse_args (args : list value) (kw : dict) : res dict :=
  let '(args1, kw1) := fold_style args kw in
  bind (args_loop args1 kw1) (fun kw2 =>
  if forallb (fun kv => known_key (fst kv)) kw2 then
    bind (norm_color k_fg fg_colors kw2) (norm_color k_bg bg_colors)
  else Raise ValueError).                            (* "Can't apply that transformation" *)

(* ---- a validated keyword dict as a canonical attribute record ------------------ *)
(* The colour constructors stand for the VALUES 30..37 / 40..47 (Base.v, canon.py) *)
Definition color_index (c : color) : N :=
  match c with Black => 0 | Red => 1 | Green => 2 | Yellow => 3
             | Blue => 4 | Magenta => 5 | Cyan => 6 | Gray => 7 end.
Definition fg_value (c : color) : N := 30 + color_index c.
Definition bg_value (c : color) : N := 40 + color_index c.
Definition color_of_num (base n : N) : option color :=
  find (fun c => N.eqb (base + color_index c) n) all_colors.
Definition color_of_value (base : N) (v : value) : option color :=
  match v with
  | VInt z => if Z.leb 0 z then color_of_num base (Z.to_N z) else None
  | _ => None
  end.
(* the dictionary key under which a style field of the canonical record is stored *)
Definition style_key (k : style) : str :=
  match k with
  | Bold => [98; 111; 108; 100]
  | Dark => [100; 97; 114; 107]
  | Italic => [105; 116; 97; 108; 105; 99]
  | Underline => [117; 110; 100; 101; 114; 108; 105; 110; 101]
  | Blink => [98; 108; 105; 110; 107]
  | Invert => [105; 110; 118; 101; 114; 116]
  end.

(* Some None = key absent, None = a value the canonical record cannot hold *)
Definition color_field (key : str) (base : N) (d : dict) : option (option color) :=
  match dict_get key d with
  | None => Some None
  | Some v => match color_of_value base v with Some c => Some (Some c) | None => None end
  end.
Definition style_field (k : style) (d : dict) : option (option bool) :=
  match dict_get (style_key k) d with
  | None => Some None
  | Some (VBool b) => Some (Some b)
  | Some _ => None
  end.
Definition atts_of_dict (d : dict) : option atts :=
  match color_field k_fg 30 d, color_field k_bg 40 d,
        style_field Bold d, style_field Dark d, style_field Italic d,
        style_field Underline d, style_field Blink d, style_field Invert d with
  | Some fg, Some bg, Some b, Some dk, Some i, Some u, Some bl, Some inv =>
      Some (mkAtts fg bg b dk i u bl inv)
  | _, _, _, _, _, _, _, _ => None
  end.
(* inverse direction, used for **self.shared_atts / **atts *)
Definition opt_item {X} (k : str) (f : X -> value) (v : option X) : dict :=
  match v with Some x => [(k, f x)] | None => [] end.
Definition dict_of_atts (a : atts) : dict :=
  opt_item k_fg (fun c => VInt (Z.of_N (fg_value c))) (a_fg a) ++
  opt_item k_bg (fun c => VInt (Z.of_N (bg_value c))) (a_bg a) ++
  opt_item (style_key Bold) VBool (a_bold a) ++ opt_item (style_key Dark) VBool (a_dark a) ++
  opt_item (style_key Italic) VBool (a_italic a) ++ opt_item (style_key Underline) VBool (a_underline a) ++
  opt_item (style_key Blink) VBool (a_blink a) ++ opt_item (style_key Invert) VBool (a_invert a).

(* ---- FrozenAttributes.extend / remove ---------------------------------------------- *)
Definition later {X} (old new : option X) : option X :=
  match new with Some _ => new | None => old end.
(* FrozenAttributes(chain(self.items(), dictlike.items())): later keys override *)
Definition att_extend (old new : atts) : atts :=
  mkAtts (later (a_fg old) (a_fg new)) (later (a_bg old) (a_bg new))
         (later (a_bold old) (a_bold new)) (later (a_dark old) (a_dark new))
         (later (a_italic old) (a_italic new)) (later (a_underline old) (a_underline new))
         (later (a_blink old) (a_blink new)) (later (a_invert old) (a_invert new)).

Definition drop {X} (keys : list str) (k : str) (v : option X) : option X :=
  if existsb (str_eqb k) keys then None else v.
(* FrozenAttributes((k, v) for k, v in self.items() if k not in keys) *)
Definition att_remove (keys : list str) (a : atts) : atts :=
  mkAtts (drop keys k_fg (a_fg a)) (drop keys k_bg (a_bg a))
         (drop keys (style_key Bold) (a_bold a)) (drop keys (style_key Dark) (a_dark a))
         (drop keys (style_key Italic) (a_italic a)) (drop keys (style_key Underline) (a_underline a))
         (drop keys (style_key Blink) (a_blink a)) (drop keys (style_key Invert) (a_invert a)).

(* ---- FmtStr methods ------------------------------------------------------------------ *)
(* FmtStr( *(Chunk(bfs.s, bfs.atts.extend(attributes)) for bfs in self.chunks)) *)
Definition copy_with_new_atts (f : fmtstr) (a : atts) : fmtstr :=
  map (fun c => mkChunk (c_s c) (att_extend (c_a c) a)) f.

Definition new_with_atts_removed (f : fmtstr) (keys : list str) : fmtstr :=
  map (fun c => mkChunk (c_s c) (att_remove keys (c_a c))) f.

(* old_atts = {att: value for bfs in self.chunks for (att, value) in bfs.atts.items()}:
   every run contributes, later runs override earlier ones *)
Definition copy_with_new_str (f : fmtstr) (s : str) : fmtstr :=
  [mkChunk s (fold_left att_extend (map c_a f) no_atts)].

(* shared_atts: for att in sorted(first.atts):
     if all(fs.atts.get(att, "???") == first.atts[att] for fs in self.chunks if len(fs) > 0)
   where first is the first non-empty run (the first run if all are empty) *)
Definition nonempty_agree {X} (eqb : X -> X -> bool) (get : atts -> option X) (f : fmtstr) (v : X) : bool :=
  forallb (fun c => match c_s c with [] => true | _ :: _ => opt_eqb eqb (get (c_a c)) (Some v) end) f.
Definition shared_field {X} (eqb : X -> X -> bool) (get : atts -> option X) (first : chunk) (f : fmtstr) : option X :=
  match get (c_a first) with
  | Some v => if nonempty_agree eqb get f v then Some v else None
  | None => None
  end.
(*  nonempty = [fs for fs in self.chunks if len(fs) > 0]
    first = nonempty[0] if nonempty else self.chunks[0]                          *)
Definition first_run (f : fmtstr) : res chunk :=
  match filter (fun c => match c_s c with [] => false | _ :: _ => true end) f with
  | c :: _ => Ok c
  | [] => match f with
          | c :: _ => Ok c
          | [] => Raise IndexError                     (* self.chunks[0] *)
          end
  end.
Definition shared_atts (f : fmtstr) : res atts :=
  bind (first_run f) (fun first =>
    Ok (mkAtts (shared_field color_eqb a_fg first f) (shared_field color_eqb a_bg first f)
               (shared_field Bool.eqb a_bold first f) (shared_field Bool.eqb a_dark first f)
               (shared_field Bool.eqb a_italic first f) (shared_field Bool.eqb a_underline first f)
               (shared_field Bool.eqb a_blink first f) (shared_field Bool.eqb a_invert first f))).

(* ---- fmtstr() ---------------------------------------------------------------------------- *)
Inductive strarg := SStr (s : str) | SFmt (f : fmtstr) | SOther.   (* the first argument *)

(* "\x1b[" in s *)
Fixpoint has_esc_csi (s : str) : bool :=
  match s with
  | [] => false
  | c :: r => ((c =? 27) && match r with d :: _ => d =? 91 | [] => false end) || has_esc_csi r
  end.

(* FmtStr.from_str, text without ESC '[' only *)
Definition from_str (s : str) : option fmtstr :=
  if has_esc_csi s then None else Some [mkChunk s no_atts].

(*  atts = parse_args(args, kwargs)
    if isinstance(string, str): string = FmtStr.from_str(string)
    elif not isinstance(string, FmtStr): raise ValueError
    return string.copy_with_new_atts( **atts)                                  *)
(* string.copy_with_new_atts( **atts) for the dict parse_args returned; a dict the
   canonical record cannot hold (bold=None ...) is outside the model, unless there
   is no run to carry it *)
Definition copy_with_dict (f : fmtstr) (d : dict) : option fmtstr :=
  match f with
  | [] => Some []
  | _ :: _ => match atts_of_dict d with Some a => Some (copy_with_new_atts f a) | None => None end
  end.
Definition fmtstr_fn (string : strarg) (args : list value) (kw : dict) : option (res fmtstr) :=
  match parse_args args kw with
  | Raise e => Some (Raise e)
  | Ok d =>
      match string with
      | SOther => Some (Raise ValueError)
      | SStr s =>
          match from_str s with
          | Some f => match copy_with_dict f d with Some g => Some (Ok g) | None => None end
          | None => None
          end
      | SFmt f => match copy_with_dict f d with Some g => Some (Ok g) | None => None end
      end
  end.

(* ---- fmtfuncs: name = partial(fmtstr, style=...) ------------------------------------------ *)
Fixpoint ff_get (name : str) (t : list (str * option str)) : option (option str) :=
  match t with
  | [] => None
  | (n, v) :: r => if str_eqb n name then Some v else ff_get name r
  end.
(* functools.partial: keywords = {**self.keywords, **call_keywords} *)
Definition partial_kw (style : option str) (kw : dict) : dict :=
  fold_left (fun d kv => dict_set (fst kv) (snd kv) d) kw
            (match style with Some s => [(k_style, VStr s)] | None => [] end).
Definition fmtfunc (name : str) (string : strarg) (args : list value) (kw : dict) : option (res fmtstr) :=
  match ff_get name fmtfuncs_table with
  | Some st => fmtstr_fn string args (partial_kw st kw)
  | None => None                                       (* no such function *)
  end.

(* ---- __eq__ / __hash__ ------------------------------------------------------------------------ *)
(* isinstance(other, FmtStr): str(self) == str(other) *)
Definition py_eq (f g : fmtstr) : bool := str_eqb (render f) (render g).
(* isinstance(other, str): str(other) is other; `s == f` reaches the same method
   through the reflected call because str.__eq__ returns NotImplemented *)
Definition py_eq_str (f : fmtstr) (s : str) : bool := str_eqb (render f) s.
Definition py_str_eq (s : str) (f : fmtstr) : bool := py_eq_str f s.
(* hash(str(self)), for whatever the interpreter's str hash is *)
Definition py_hash {H} (hash_str : str -> H) (f : fmtstr) : H := hash_str (render f).

(* ---- __repr__ / repr_part as an expression tree ---------------------------------------------- *)
Inductive expr := Lit (s : str) | Call (name : str) (e : expr).

Definition wrap_call (name : option str) (e : expr) : expr :=
  match name with Some n => Call n e | None => e end.
(* pp_att for "fg" / "bg": a missing number is a KeyError *)
Definition fg_pp (v : option color) : res (option str) :=
  match v with
  | None => Ok None
  | Some c => match num_get (fg_value c) fg_number_to_color with
              | Some nm => Ok (Some nm) | None => Raise KeyError end
  end.
Definition bg_pp (v : option color) : res (option str) :=
  match v with
  | None => Ok None
  | Some c => match num_get (bg_value c) bg_number_to_color with
              | Some nm => Ok (Some (on_prefix ++ nm)) | None => Raise KeyError end
  end.
(* atts_out = {k: v for (k, v) in atts.items() if v}: True styles (colour numbers are truthy) *)
Definition st_pp (k : style) (a : atts) : option str :=
  if on (get_style k a) then Some (style_key k) else None.

(* "".join(pp_att(att) + "(" for att in sorted(atts_out)) + repr(s) + ")" * len(atts_out):
   sorted order bg, blink, bold, dark, fg, invert, italic, underline, first = outermost *)
Definition repr_part (c : chunk) : res expr :=
  let a := c_a c in
  bind (bg_pp (a_bg a)) (fun bgn =>
  bind (fg_pp (a_fg a)) (fun fgn =>
  let e := Lit (c_s c) in
  let e := wrap_call (st_pp Underline a) e in
  let e := wrap_call (st_pp Italic a) e in
  let e := wrap_call (st_pp Invert a) e in
  let e := wrap_call fgn e in
  let e := wrap_call (st_pp Dark a) e in
  let e := wrap_call (st_pp Bold a) e in
  let e := wrap_call (st_pp Blink a) e in
  Ok (wrap_call bgn e))).

(* "+".join(fs.repr_part() for fs in self.chunks) : the list is a sum *)
Fixpoint py_repr (f : fmtstr) : res (list expr) :=
  match f with
  | [] => Ok []
  | c :: r => bind (repr_part c) (fun e => bind (py_repr r) (fun es => Ok (e :: es)))
  end.

(* printing the tree; the text of a string literal (Python's repr of a str) is
   outside the model and supplied by [lit] *)
Fixpoint print_expr (lit : str -> str) (e : expr) : str :=
  match e with
  | Lit s => lit s
  | Call n e' => n ++ [40] ++ print_expr lit e' ++ [41]
  end.
Fixpoint print_sum (lit : str -> str) (es : list expr) : str :=
  match es with
  | [] => []
  | [e] => print_expr lit e
  | e :: r => print_expr lit e ++ [43] ++ print_sum lit r
  end.

(* evaluating such an expression in the namespace vars(curtsies.fmtfuncs) *)
Inductive pyval := PStr (s : str) | PFmt (f : fmtstr).
Definition strarg_of (v : pyval) : strarg := match v with PStr s => SStr s | PFmt f => SFmt f end.
Definition val_cells (v : pyval) : list cell :=
  match v with PStr s => plain_cells s | PFmt f => cells f end.

Fixpoint eval_expr (e : expr) : option (res pyval) :=
  match e with
  | Lit s => Some (Ok (PStr s))
  | Call name e' =>
      match eval_expr e' with
      | Some (Ok v) =>
          match fmtfunc name (strarg_of v) [] [] with
          | Some (Ok f) => Some (Ok (PFmt f))
          | Some (Raise x) => Some (Raise x)
          | None => None
          end
      | r => r
      end
  end.
(* str + str, str + FmtStr (__radd__), FmtStr + str (__add__), FmtStr + FmtStr *)
Definition py_add (a b : pyval) : pyval :=
  match a, b with
  | PStr x, PStr y => PStr (x ++ y)
  | PStr x, PFmt g => PFmt (mkChunk x no_atts :: g)
  | PFmt f, PStr y => PFmt (f ++ [mkChunk y no_atts])
  | PFmt f, PFmt g => PFmt (f ++ g)
  end.
(* a + b + c is (a + b) + c; operands are evaluated left to right *)
Fixpoint eval_sum_from (acc : pyval) (es : list expr) : option (res pyval) :=
  match es with
  | [] => Some (Ok acc)
  | e :: r =>
      match eval_expr e with
      | Some (Ok v) => eval_sum_from (py_add acc v) r
      | o => o
      end
  end.
Definition eval_sum (es : list expr) : option (res pyval) :=
  match es with
  | [] => None                                         (* eval('') is a SyntaxError: no runs, outside *)
  | e :: r =>
      match eval_expr e with
      | Some (Ok v) => eval_sum_from v r
      | o => o
      end
  end.
