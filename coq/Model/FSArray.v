(* Model of FSArray (curtsies/formatstringarray.py): __init__, __setitem__ on a
   (rows, columns) pair, __getitem__, fsarray().  Built on the models of
   normalize_slice / __getitem__ (Model/Slice.v) and setslice_with_length
   (Model/Splice.v).  Executable definitions only. *)
From Curtsies Require Import Model.Base Spec.ListOps Model.Slice Model.Splice.
Local Open Scope Z_scope.

Record fsarr := mkFsa {
  fa_rows : list fmtstr;      (* self.rows *)
  fa_cols : Z;                (* self.num_columns *)
  fa_fill : atts }.           (* parse_args(saved_args, saved_kwargs): formatting of fresh rows *)

(* fmtstr("", *args, **kwargs): one empty run carrying the constructor's formatting *)
Definition fresh_row (fill : atts) : fmtstr := [mkChunk [] fill].

(* FSArray(num_rows, num_columns, *args, **kwargs) *)
Definition fsa_new (num_rows : nat) (num_columns : Z) (fill : atts) : fsarr :=
  mkFsa (repeat (fresh_row fill) num_rows) num_columns fill.

Definition maxsize : Z := 9223372036854775807.   (* sys.maxsize *)

(* the assigned value: a str (iterated character by character), or a list of
   str / FmtStr rows (an FSArray value iterates as its rows) *)
Inductive value := VStr (s : str) | VRows (rows : list operand).

Definition value_items (v : value) : list operand :=
  match v with VStr s => map (fun ch => OStr [ch]) s | VRows rows => rows end.
Definition value_is_str (v : value) : bool := match v with VStr _ => true | VRows _ => false end.

(* slicesize: int((stop - start) / 1) *)
Definition slicesize (p : Z * Z) : Z := snd p - fst p.

(* rows[a:b] for normalised (non-negative) bounds *)
Definition rows_slice {X} (l : list X) (a b : Z) : list X :=
  firstn (Z.to_nat b - Z.to_nat a) (skipn (Z.to_nat a) l).

Fixpoint map2_res {X Y W} (g : X -> Y -> res W) (xs : list X) (ys : list Y) : res (list W) :=
  match xs, ys with
  | x :: xs', y :: ys' =>
      match g x y with
      | Raise e => Raise e
      | Ok w => match map2_res g xs' ys' with Raise e => Raise e | Ok ws => Ok (w :: ws) end
      end
  | _, _ => Ok []
  end.

Definition with_rows (a : fsarr) (rows : list fmtstr) : fsarr := mkFsa rows (fa_cols a) (fa_fill a).

(* a[ri, ci] = v.  Returns the array afterwards (rows are appended BEFORE the
   value is validated) and whether the call raised. *)
Definition fsa_setitem (a : fsarr) (ri ci : index) (v : value) : fsarr * res unit :=
  match normalize_slice maxsize ri with
  | Raise e => (a, Raise e)
  | Ok r =>
      let additional := Z.max 0 (snd r - Z.of_nat (length (fa_rows a))) in
      let rows1 := fa_rows a ++ repeat (fresh_row (fa_fill a)) (Z.to_nat additional) in
      let a1 := with_rows a rows1 in
      match normalize_slice (fa_cols a) ci with
      | Raise e => (a1, Raise e)
      | Ok c =>
          if (slicesize c =? 0) || (slicesize r =? 0) then (a1, Ok tt)
          else if (slicesize c >? 1) && value_is_str v then (a1, Raise ValueError)
          else if negb (slicesize r =? Z.of_nat (length (value_items v))) then (a1, Raise ValueError)
          else
            match map2_res (fun fs x => setslice_with_length fs (fst c) (snd c) x (fa_cols a))
                           (rows_slice rows1 (fst r) (snd r)) (value_items v) with
            | Raise e => (a1, Raise e)
            | Ok new =>
                (with_rows a (firstn (Z.to_nat (fst r)) rows1 ++ new ++ skipn (Z.to_nat (snd r)) rows1), Ok tt)
            end
      end
  end.

(* a[ri, ci] -> [fs[colslice] for fs in self.rows[rowslice]] *)
Fixpoint all_ok {X} (l : list (res X)) : res (list X) :=
  match l with
  | [] => Ok []
  | Ok x :: r => match all_ok r with Ok xs => Ok (x :: xs) | Raise e => Raise e end
  | Raise e :: _ => Raise e
  end.

Definition fsa_getitem (a : fsarr) (ri ci : index) : res (list fmtstr) :=
  bind (normalize_slice (Z.of_nat (length (fa_rows a))) ri) (fun r =>
  bind (normalize_slice (fa_cols a) ci) (fun c =>
  all_ok (map (fun fs => getitem fs (Slice (Some (fst c)) (Some (snd c)) None))
              (rows_slice (fa_rows a) (fst r) (snd r))))).

(* a[i] for 0 <= i < len: the row itself *)
Definition fsa_getrow (a : fsarr) (i : Z) : res fmtstr :=
  if (i <? 0) || (i >=? Z.of_nat (length (fa_rows a))) then Raise IndexError
  else match nth_error (fa_rows a) (Z.to_nat i) with Some r => Ok r | None => Raise IndexError end.

(* fsarray(strings, width=None, *args, **kwargs): a str row is formatted with the
   constructor's arguments (fmtstr(s, *args, **kwargs)), a FmtStr row is taken as is *)
Definition fsarray_of (strings : list operand) (width : option Z) (fill : atts) : res fsarr :=
  let lens := map op_len strings in
  let too_wide := match width with Some w => existsb (fun l => l >? w) lens | None => false end in
  if too_wide then Raise ValueError
  else
    let w := match width with Some w => w | None => fold_left Z.max lens 0 end in
    let as_fs (o : operand) : operand :=
      match o with OStr s => OFmt [mkChunk s fill] | OFmt f => OFmt f end in
    match map2_res (fun fs s => setslice_with_length fs 0 (op_len s) (as_fs s) w)
                   (repeat (fresh_row fill) (length strings)) strings with
    | Raise e => Raise e
    | Ok rows => Ok (mkFsa rows w fill)
    end.
