(* Model of the str-like methods of FmtStr (curtsies/formatstring.py) that are not
   plain slicing: split, splitlines, ljust, rjust, shared_atts, the __getattr__
   delegation wrapper and fmtstr(text, **atts) as these methods use it.
   (join is Model/Slice.join; slicing is Model/Slice.getitem.)
   The functions follow the Python statement by statement; exceptions are [Raise]
   outcomes.  Executable definitions only, no proofs (Proofs/StrMeth.v).

   Outside the repository's logic, and therefore arguments of the model:
   * the regex engine: `re.finditer(pattern, s)` is represented by the list of
     its match spans [(m.start(), m.end())].  For an explicit separator
     (`re.escape(sep)`: a literal pattern) the spans are computed here by a
     leftmost, non-overlapping scanner ([lit_spans]); for `regex=True` they are an
     ARGUMENT (an arbitrary list of spans); for `sep=None` (pattern `\s+`) they are
     computed by [ws_spans] from [is_space : char -> bool] = Python's `\s`.
   * the str method behind a delegated call: an arbitrary function of the text
     ([m : str -> mres X]) whose answer is a str, a list of strs, anything else,
     or an exception.
   * Python's built-in str.ljust / str.rjust ([Spec/StrSpec.py_ljust], reference
     semantics of the language, like [pyslice]).

   fmtstr(text, **atts) is modelled for text that FmtStr.from_str does not parse
   ("\x1b[" not in text and "\x9b" not in text: Base.clean_str is enough); every
   theorem about a result built that way states that scope.
   Attribute dictionaries, FrozenAttributes.extend / remove, copy_with_new_atts and
   new_with_atts_removed are those of Model/Atts.v; shared_atts is modelled HERE
   (it follows the code after the commit `fix: shared_atts takes its candidates
   from the first non-empty run`). *)
From Curtsies Require Import Model.Base Spec.ListOps Model.Slice Spec.StrSpec.
From Curtsies Require Model.Atts.
Local Open Scope Z_scope.

(* ---- shared_atts -----------------------------------------------------------------
     nonempty = [fs for fs in self.chunks if len(fs) > 0]
     first = nonempty[0] if nonempty else self.chunks[0]          (IndexError: no runs)
     for att in sorted(first.atts):
         if all(fs.atts.get(att, "???") == first.atts[att] for fs in self.chunks if len(fs) > 0):
             atts[att] = first.atts[att]                                                  *)
Definition nonempty_run (c : chunk) : bool := match c_s c with [] => false | _ :: _ => true end.

Definition shared_first (f : fmtstr) : res chunk :=
  match filter nonempty_run f with
  | c :: _ => Ok c
  | [] => match f with c :: _ => Ok c | [] => Raise IndexError end
  end.

(* all(fs.atts.get(att, "???") == v for fs in self.chunks if len(fs) > 0) *)
Definition runs_agree {X} (eqb : X -> X -> bool) (get : atts -> option X) (f : fmtstr) (v : X) : bool :=
  forallb (fun c => if nonempty_run c then opt_eqb eqb (get (c_a c)) (Some v) else true) f.

Definition shared_field {X} (eqb : X -> X -> bool) (get : atts -> option X) (first : chunk) (f : fmtstr) : option X :=
  match get (c_a first) with
  | Some v => if runs_agree eqb get f v then Some v else None
  | None => None
  end.

Definition shared_atts (f : fmtstr) : res atts :=
  bind (shared_first f) (fun first =>
  Ok (mkAtts (shared_field color_eqb a_fg first f) (shared_field color_eqb a_bg first f)
             (shared_field Bool.eqb a_bold first f) (shared_field Bool.eqb a_dark first f)
             (shared_field Bool.eqb a_italic first f) (shared_field Bool.eqb a_underline first f)
             (shared_field Bool.eqb a_blink first f) (shared_field Bool.eqb a_invert first f))).

(* ---- fmtstr(text, **atts) for unparsed text ----------------------------------------
   FmtStr.from_str(text) = FmtStr(Chunk(text)); .copy_with_new_atts( **atts)            *)
Definition fmtstr_with (s : str) (a : atts) : fmtstr := Atts.copy_with_new_atts (fmtstr_plain s) a.

(* ---- regex match spans ------------------------------------------------------------------ *)
Definition span := (Z * Z)%type.

Fixpoint is_prefix (p s : str) : bool :=
  match p, s with
  | [], _ => true
  | x :: p', y :: s' => N.eqb x y && is_prefix p' s'
  | _ :: _, [] => false
  end.

(* list(re.finditer(re.escape(sep), s)) : the occurrences of the literal [sep], leftmost
   first, the search resuming at the end of each match.  [pos] = index of the head of
   [s] in the whole text, [skip] = characters of the last match still to be passed.
   An empty [sep] matches (emptily) at every position, the end included. *)
Fixpoint lit_scan (sep : str) (s : str) (pos : Z) (skip : nat) : list span :=
  match s with
  | [] => match sep with [] => [(pos, pos)] | _ => [] end
  | _ :: r =>
      match skip with
      | Datatypes.S k => lit_scan sep r (pos + 1) k
      | O => if is_prefix sep s
             then (pos, pos + Z.of_nat (length sep)) :: lit_scan sep r (pos + 1) (length sep - 1)
             else lit_scan sep r (pos + 1) 0
      end
  end.
Definition lit_spans (sep s : str) : list span := lit_scan sep s 0 0.

(* list(re.finditer(r"\s+", s)) : the maximal blocks of whitespace.  [cur] = start of
   the block being read, if any. *)
Fixpoint ws_scan (is_space : char -> bool) (s : str) (pos : Z) (cur : option Z) : list span :=
  match s with
  | [] => match cur with Some a => [(a, pos)] | None => [] end
  | c :: r =>
      if is_space c then ws_scan is_space r (pos + 1) (Some (match cur with Some a => a | None => pos end))
      else match cur with
           | Some a => (a, pos) :: ws_scan is_space r (pos + 1) None
           | None => ws_scan is_space r (pos + 1) None
           end
  end.
Definition ws_spans (is_space : char -> bool) (s : str) : list span := ws_scan is_space s 0 None.

(* ---- split ----------------------------------------------------------------------------------
     matches = list(re.finditer(sep, s))
     return [self[start:end] for start, end in zip(chain((0,), (m.end() for m in matches)),
                                                   chain((m.start() for m in matches), (len(s),)))] *)
Fixpoint map_res {X Y} (g : X -> res Y) (l : list X) : res (list Y) :=
  match l with
  | [] => Ok []
  | x :: r => bind (g x) (fun y => bind (map_res g r) (fun ys => Ok (y :: ys)))
  end.

Definition cut_points (matches : list span) (n : Z) : list (Z * Z) :=
  combine (0 :: map snd matches) (map fst matches ++ [n]).

Definition split_matches (f : fmtstr) (matches : list span) : res (list fmtstr) :=
  map_res (fun '(start, end_) => getitem_slice f (Some start) (Some end_))
          (cut_points matches (Z.of_nat (length (text f)))).

(* how the pattern of split() is given *)
Inductive sep_arg :=
| SepNone                                  (* sep=None : r"\s+" *)
| SepLit (sep : str)                       (* an explicit separator, regex=False: re.escape(sep) *)
| SepRegex (matches : list span).          (* regex=True: the engine's matches on self.s *)

Definition split (is_space : char -> bool) (f : fmtstr) (sep : sep_arg) (maxsplit : option Z) : res (list fmtstr) :=
  match maxsplit with
  | Some _ => Raise NotImplementedError      (* "no maxsplit yet" *)
  | None =>
      let s := text f in
      split_matches f (match sep with
                       | SepNone => ws_spans is_space s
                       | SepLit x => lit_spans x s
                       | SepRegex ms => ms
                       end)
  end.

(* ---- splitlines ------------------------------------------------------------------------------
     lines = self.split("\n")
     if keepends:
         ends = list(accumulate(len(line) + 1 for line in lines)); ends[-1] -= 1
         lines = [self[start:end] for start, end in zip([0] + ends, ends)]
     return lines if lines[-1] else lines[:-1]                                             *)
Fixpoint accumulate (acc : Z) (l : list Z) : list Z :=
  match l with
  | [] => []
  | x :: r => (acc + x) :: accumulate (acc + x) r
  end.

(* l[-1] -= 1 ; l[-1] *)
Definition dec_last (l : list Z) : res (list Z) :=
  match rev l with
  | [] => Raise IndexError
  | x :: r => Ok (rev ((x - 1) :: r))
  end.
Definition last_item {X} (l : list X) : res X :=
  match rev l with [] => Raise IndexError | x :: _ => Ok x end.

Definition newline : str := [10%N].

Definition splitlines (f : fmtstr) (keepends : bool) : res (list fmtstr) :=
  bind (split (fun _ => false) f (SepLit newline) None) (fun lines =>
  bind (if keepends then
          bind (dec_last (accumulate 0 (map (fun line => len line + 1) lines))) (fun ends =>
          map_res (fun '(start, end_) => getitem_slice f (Some start) (Some end_))
                  (combine (0 :: ends) ends))
        else Ok lines) (fun lines =>
  bind (last_item lines) (fun l =>
  Ok (if len l =? 0 then removelast lines else lines)))).       (* bool(FmtStr) is len != 0 *)

(* ---- ljust / rjust ---------------------------------------------------------------------------- *)
Definition space_char : char := 32%N.

(* str.ljust(width, fillchar): fillchar must be exactly one character (TypeError) *)
Definition builtin_just (left : bool) (s : str) (width : Z) (fillchar : str) : res str :=
  match fillchar with
  | [c] => Ok (if left then py_ljust s width c else py_rjust s width c)
  | _ => Raise TypeError
  end.

(*  if fillchar is not None:
        return fmtstr(self.s.ljust(width, fillchar), **self.shared_atts)
    to_add = " " * (width - len(self.s))
    shared = self.shared_atts
    if "bg" in shared:
        return self + fmtstr(to_add, bg=shared["bg"]) if to_add else self
    else:
        uniform = self.new_with_atts_removed("bg")
        return uniform + fmtstr(to_add, **self.shared_atts) if to_add else uniform
   rjust: the same with  fmtstr(...) + self  /  fmtstr(...) + uniform                    *)
Definition just (left : bool) (f : fmtstr) (width : Z) (fillchar : option str) : res fmtstr :=
  let s := text f in
  match fillchar with
  | Some fc =>
      bind (builtin_just left s width fc) (fun padded =>
      bind (shared_atts f) (fun shared => Ok (fmtstr_with padded shared)))
  | None =>
      let to_add := repeat space_char (Z.to_nat (width - Z.of_nat (length s))) in
      let glue (base pad : fmtstr) := if left then add base (OFmt pad) else add pad (OFmt base) in
      bind (shared_atts f) (fun shared =>
      match a_bg shared with
      | Some bg =>
          match to_add with
          | [] => Ok f
          | _ :: _ => Ok (glue f (fmtstr_with to_add (set_bg (Some bg) no_atts)))
          end
      | None =>
          let uniform := Atts.new_with_atts_removed f [Atts.k_bg] in
          match to_add with
          | [] => Ok uniform
          | _ :: _ => bind (shared_atts f) (fun shared' => Ok (glue uniform (fmtstr_with to_add shared')))
          end
      end)
  end.
Definition ljust := just true.
Definition rjust := just false.

(* ---- __getattr__ : delegation to the str method ---------------------------------------------------
     result = getattr(self.s, att)( *args, **kwargs)
     if isinstance(result, (bytes, str)): return fmtstr(result, **self.shared_atts)
     elif isinstance(result, list):       return [fmtstr(x, **self.shared_atts) for x in result]
     else:                                return result
   (bytes results - encode - are outside the model; list items are strs)                          *)
Inductive mres (X : Type) := MStr (s : str) | MList (l : list str) | MOther (x : X) | MRaise (e : exn).
Arguments MStr {X} s.
Arguments MList {X} l.
Arguments MOther {X} x.
Arguments MRaise {X} e.

Inductive dval (X : Type) := DFmt (f : fmtstr) | DList (l : list fmtstr) | DOther (x : X).
Arguments DFmt {X} f.
Arguments DList {X} l.
Arguments DOther {X} x.

Definition delegate {X} (m : str -> mres X) (f : fmtstr) : res (dval X) :=
  match m (text f) with
  | MRaise e => Raise e
  | MStr s => bind (shared_atts f) (fun shared => Ok (DFmt (fmtstr_with s shared)))
  | MList l => bind (map_res (fun x => bind (shared_atts f) (fun shared => Ok (fmtstr_with x shared))) l)
                    (fun fs => Ok (DList fs))
  | MOther x => Ok (DOther x)
  end.
