(* The decoder parameter of Model/InputQ.v instantiated with the model of the REAL
   decoder: events.get_key from Model/Keys.v (C03), driven over the buffer by
   the inner function find_key of Input._send exactly like Keys.find_key_go,
   but also reporting what stays in the buffer when it raises (Input keeps the
   un-popped bytes in unprocessed_bytes; the popped ones are gone).
   Executable definitions only, no proofs.  (Moved here unchanged from
   Corr/C08.v so that proof files can use it without importing Corr.) *)
From Curtsies Require Import Model.Base Gen.Tables Model.Utf8 Model.Keys Model.InputQ.
Close Scope N_scope.
Local Open Scope Z_scope.

Fixpoint fk_go (enc : encoding) (mode : keynames) (cur buf : list N) : fk :=
  match buf with
  | [] => match cur with [] => FkNone | _ => FkRaise ValueError cur [] end
  | b :: rest =>
      let cur' := cur ++ [b] in
      match get_key enc mode (is_nil rest) cur' with
      | Key k => FkKey k cur' rest
      | More => fk_go enc mode cur' rest
      | Err e => FkRaise e cur' rest
      end
  end.
Definition find_key_real (enc : encoding) (mode : keynames) (buf : list N) : fk := fk_go enc mode [] buf.
