(* Model of the key decoder: curtsies/events.py (get_key, _key_name,
   could_be_unfinished_char, could_be_unfinished_utf8) and the find_key loop
   of Input._send (curtsies/input.py).  The tables CURTSIES_NAMES, CURSES_NAMES,
   KEYMAP_PREFIXES and MAX_KEYPRESS_SIZE are the generated ones (Gen/Tables.v).
   Executable definitions only, no proofs. *)
From Curtsies Require Import Model.Base Gen.Tables Model.Utf8.
Local Open Scope N_scope.

Inductive keynames := CURTSIES | CURSES | BYTES.

Definition keynames_eqb (a b : keynames) : bool :=
  match a, b with
  | CURTSIES, CURTSIES | CURSES, CURSES | BYTES, BYTES => true
  | _, _ => false
  end.

(* what get_key does: returns a key (a str, or the bytes themselves under
   BYTES naming), returns None ("more input needed"), or raises *)
Inductive outcome :=
| Key (name : str)
| More
| Err (e : exn).

Definition outcome_eqb (a b : outcome) : bool :=
  match a, b with
  | Key x, Key y => str_eqb x y
  | More, More => true
  | Err e, Err e' => exn_eqb e e'
  | _, _ => false
  end.

Definition of_res (r : res str) : outcome :=
  match r with Ok n => Key n | Raise e => Err e end.

(* `seq in TABLE` / TABLE[seq] for a dict given as its item list *)
Fixpoint lookup (t : list (list N * str)) (s : list N) : option str :=
  match t with
  | [] => None
  | (k, v) :: r => if bytes_eqb k s then Some v else lookup r s
  end.

Definition in_table (t : list (list N * str)) (s : list N) : bool :=
  match lookup t s with Some _ => true | None => false end.

(* `seq in KEYMAP_PREFIXES` *)
Definition in_prefixes (s : list N) : bool := existsb (fun p => bytes_eqb p s) keymap_prefixes.

(* "%X" of a value below 16 *)
Definition hexdigit (d : N) : N := if d <? 10 then 48 + d else 55 + d.
(* "x%02X" % ord(seq) for one byte *)
Definition hexname (b : N) : str := [120; hexdigit (b / 16); hexdigit (b mod 16)].

(* events._key_name.  [lc] / [ls] = the result of looking [seq] up in
   CURTSIES_NAMES / CURSES_NAMES (`seq in T` followed by `T[seq]` is one lookup here) *)
Definition key_name_with (lc ls : option str) (enc : encoding) (mode : keynames) (seq : list N) : res str :=
  match mode with
  | CURSES =>
      match ls with
      | Some n => Ok n
      | None =>
          match decode enc seq with
          | Some u => Ok u
          | None =>
              match seq with
              | [b] => Ok (hexname b)
              | _ => Raise NotImplementedError
              end
          end
      end
  | CURTSIES =>
      match lc with
      | Some n => Ok n
      | None =>
          match decode enc seq with
          | Some u => Ok u
          | None => Raise UnicodeDecodeError      (* seq.decode(encoding) is not guarded *)
          end
      end
  | BYTES => Ok seq
  end.

Definition key_name (enc : encoding) (mode : keynames) (seq : list N) : res str :=
  key_name_with (lookup curtsies_names seq) (lookup curses_names seq) enc mode seq.

(* events.could_be_unfinished_utf8: looks at seq[0] only.
   ord(seq[0:1]) on an empty seq is a TypeError. *)
Definition could_be_unfinished_utf8 (seq : list N) : res bool :=
  match seq with
  | [] => Raise TypeError
  | o :: _ =>
      let n := length seq in
      Ok (((N.land o 224 =? 192) && (n <? 2)%nat)
       || ((N.land o 240 =? 224) && (n <? 3)%nat)
       || ((N.land o 248 =? 240) && (n <? 4)%nat)
       || ((N.land o 252 =? 248) && (n <? 5)%nat)
       || ((N.land o 254 =? 252) && (n <? 6)%nat))
  end.

(* events.could_be_unfinished_char *)
Definition could_be_unfinished_char (enc : encoding) (seq : list N) : res bool :=
  if decodable enc seq then Ok false
  else match enc with
       | Utf8 => could_be_unfinished_utf8 seq
       | Ascii => Ok false
       | Latin1 => Ok true            (* "We don't know, it could be" *)
       end.

Definition is_some {X} (o : option X) : bool := match o with Some _ => true | None => false end.

(* events.get_key, the cascade as written; the three table queries on [seq]
   (`seq in CURTSIES_NAMES`, `seq in CURSES_NAMES`, `seq in KEYMAP_PREFIXES`)
   are passed in so that they can be shared between evaluations *)
Definition get_key_with (lc ls : option str) (ip : bool)
           (enc : encoding) (mode : keynames) (full : bool) (seq : list N) : outcome :=
  if (max_keypress_size <? length seq)%nat then Err ValueError
  else
    let known := is_some lc || is_some ls || decodable enc seq in
    if full && known then of_res (key_name_with lc ls enc mode seq)
    else
      match (if ip then Ok true else could_be_unfinished_char enc seq) with
      | Raise e => Err e
      | Ok true => More
      | Ok false =>
          if known then of_res (key_name_with lc ls enc mode seq)
          else match decode enc seq with
               | None => Err UnicodeDecodeError        (* seq.decode(encoding) raises *)
               | Some _ => Err AssertionError          (* assert False *)
               end
      end.

Definition get_key (enc : encoding) (mode : keynames) (full : bool) (seq : list N) : outcome :=
  get_key_with (lookup curtsies_names seq) (lookup curses_names seq) (in_prefixes seq) enc mode full seq.

Definition key_known (enc : encoding) (seq : list N) : bool :=
  in_table curtsies_names seq || in_table curses_names seq || decodable enc seq.

Definition is_nil {X} (l : list X) : bool := match l with [] => true | _ => false end.

(* find_key inside Input._send: pop one byte at a time from unprocessed_bytes,
   ask get_key with full = (buffer now empty).
   Result: Ok None (buffer was empty), Ok (Some (key, consumed bytes, rest of buffer)),
   or the exception (ValueError when the buffer runs out on an incomplete key). *)
Fixpoint find_key_go (enc : encoding) (mode : keynames) (cur buf : list N)
  : res (option (str * list N * list N)) :=
  match buf with
  | [] => match cur with [] => Ok None | _ => Raise ValueError end
  | b :: rest =>
      let cur' := cur ++ [b] in
      match get_key enc mode (is_nil rest) cur' with
      | Key k => Ok (Some (k, cur', rest))
      | More => find_key_go enc mode cur' rest
      | Err e => Raise e
      end
  end.

Definition find_key (enc : encoding) (mode : keynames) (buf : list N) :=
  find_key_go enc mode [] buf.

(* repeated find_key on one buffer (what successive send() calls, or the paste
   loop, do with the bytes of one read), at most [n] keys.
   Result: the keys with the bytes each consumed, and what is left in the buffer. *)
Fixpoint find_keys_n (n : nat) (enc : encoding) (mode : keynames) (buf : list N)
  : res (list (str * list N) * list N) :=
  match n with
  | O => Ok ([], buf)
  | Datatypes.S n' =>
      match find_key enc mode buf with
      | Raise e => Raise e
      | Ok None => Ok ([], buf)
      | Ok (Some (k, used, rest)) =>
          match find_keys_n n' enc mode rest with
          | Raise e => Raise e
          | Ok (ks, r) => Ok ((k, used) :: ks, r)
          end
      end
  end.

(* until the buffer is empty: every key consumes at least one byte *)
Definition find_keys (enc : encoding) (mode : keynames) (buf : list N) :=
  find_keys_n (Datatypes.S (length buf)) enc mode buf.
