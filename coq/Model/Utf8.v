(* Python's strict decoders for the three encodings the key decoder is used with
   (bytes.decode(encoding) / UnicodeDecodeError), as executable functions.
   Modelled, not verified (trusted, validated by the C03 correspondence on all
   1- and 2-byte sequences and the boundary 3/4-byte ones):

   utf-8   = the well-formed byte sequences of the Unicode standard, Table 3-7
               00..7F
               C2..DF 80..BF
               E0     A0..BF 80..BF
               E1..EC 80..BF 80..BF
               ED     80..9F 80..BF          (no surrogates)
               EE..EF 80..BF 80..BF
               F0     90..BF 80..BF 80..BF
               F1..F3 80..BF 80..BF 80..BF
               F4     80..8F 80..BF 80..BF   (max U+10FFFF)
             as a byte-at-a-time automaton (so that the recursion is structural);
   ascii   = every byte < 0x80;
   latin-1 = every byte is its own code point.

   Executable definitions only, no proofs. *)
From Curtsies Require Import Model.Base.
Local Open Scope N_scope.

Inductive encoding := Utf8 | Ascii | Latin1.

Definition encoding_eqb (a b : encoding) : bool :=
  match a, b with
  | Utf8, Utf8 | Ascii, Ascii | Latin1, Latin1 => true
  | _, _ => false
  end.

Definition in_range (lo hi b : N) : bool := (lo <=? b) && (b <=? hi).
Definition is_cont (b : N) : bool := in_range 128 191 b.
Definition is_byte (b : N) : bool := b <? 256.
Definition is_bytes (s : list N) : bool := forallb is_byte s.
Definition is_ascii (b : N) : bool := b <? 128.
Definition all_ascii (s : list N) : bool := forallb is_ascii s.
(* some byte has its top bit set *)
Definition has_high (s : list N) : bool := existsb (fun b => 128 <=? b) s.

(* decoder state: between characters, or inside one: [n] more bytes wanted
   AFTER the next one, the next one must lie in [lo, hi], [acc] = payload bits so far *)
Inductive ustate :=
| UGround
| UNeed (n : nat) (lo hi : N) (acc : N).

(* one byte: None = ill-formed; Some (state', emitted code point if a character ends here) *)
Definition ustep (st : ustate) (b : N) : option (ustate * option N) :=
  match st with
  | UGround =>
      if b <? 128 then Some (UGround, Some b)
      else if in_range 194 223 b then Some (UNeed 0 128 191 (b - 192), None)
      else if b =? 224 then Some (UNeed 1 160 191 0, None)
      else if in_range 225 236 b then Some (UNeed 1 128 191 (b - 224), None)
      else if b =? 237 then Some (UNeed 1 128 159 13, None)
      else if in_range 238 239 b then Some (UNeed 1 128 191 (b - 224), None)
      else if b =? 240 then Some (UNeed 2 144 191 0, None)
      else if in_range 241 243 b then Some (UNeed 2 128 191 (b - 240), None)
      else if b =? 244 then Some (UNeed 2 128 143 4, None)
      else None
  | UNeed n lo hi acc =>
      if in_range lo hi b then
        let acc' := acc * 64 + (b - 128) in
        match n with
        | O => Some (UGround, Some acc')
        | Datatypes.S n' => Some (UNeed n' 128 191 acc', None)
        end
      else None
  end.

Fixpoint urun (st : ustate) (s : list N) : option str :=
  match s with
  | [] => match st with UGround => Some [] | _ => None end
  | b :: r =>
      match ustep st b with
      | None => None
      | Some (st', o) =>
          match urun st' r with
          | None => None
          | Some u => Some (match o with Some c => c :: u | None => u end)
          end
      end
  end.

Definition decode_utf8 (s : list N) : option str := urun UGround s.

(* bytes.decode(encoding): Some text, or None = UnicodeDecodeError *)
Definition decode (enc : encoding) (s : list N) : option str :=
  match enc with
  | Utf8 => decode_utf8 s
  | Ascii => if all_ascii s then Some s else None
  | Latin1 => if is_bytes s then Some s else None
  end.

(* events.decodable *)
Definition decodable (enc : encoding) (s : list N) : bool :=
  match decode enc s with Some _ => true | None => false end.

(* str.encode('utf-8') of one code point (used to state "every character is
   reported as itself" over Unicode scalar values) *)
Definition utf8_encode (c : N) : list N :=
  if c <? 128 then [c]
  else if c <? 2048 then [192 + c / 64; 128 + c mod 64]
  else if c <? 65536 then [224 + c / 4096; 128 + (c / 64) mod 64; 128 + c mod 64]
  else [240 + c / 262144; 128 + (c / 4096) mod 64; 128 + (c / 64) mod 64; 128 + c mod 64].

(* Unicode scalar value: a code point that is not a surrogate *)
Definition is_scalar (c : N) : bool := (c <? 55296) || ((57344 <=? c) && (c <=? 1114111)).

(* chr(c).encode(encoding) where it exists *)
Definition encode_char (enc : encoding) (c : N) : option (list N) :=
  match enc with
  | Utf8 => if is_scalar c then Some (utf8_encode c) else None
  | Ascii => if c <? 128 then Some [c] else None
  | Latin1 => if c <? 256 then Some [c] else None
  end.

(* equality of byte strings, stopping at the first difference (Base.list_eqb
   uses &&, whose two sides are both evaluated by the kernel's call-by-value machine) *)
Fixpoint bytes_eqb (a b : list N) : bool :=
  match a, b with
  | [], [] => true
  | x :: a', y :: b' => if x =? y then bytes_eqb a' b' else false
  | _, _ => false
  end.

(* the 256 byte values *)
Definition all_bytes : list N := map N.of_nat (seq 0 256).
