(* Model of FullscreenWindow (curtsies/window.py): render_to_terminal statement by
   statement, as a function from the window's state and the call's arguments to
   the list of terminal commands it writes and the new state. *)
From Curtsies Require Import Model.Base Gen.Tables Model.Render Spec.Sgr Spec.Term.
From Coq Require Import Arith.
Close Scope N_scope.
Open Scope nat_scope.

(* _last_lines_by_row : Dict[int, Optional[FmtStr]] *)
Definition cache := list (nat * option fmtstr).

Fixpoint lookup (c : cache) (r : nat) : option (option fmtstr) :=
  match c with
  | [] => None
  | (k, v) :: rest => if k =? r then Some v else lookup rest r
  end.

Record fswin := mkFs {
  fw_hide : bool;                       (* hide_cursor *)
  fw_cache : cache;                     (* _last_lines_by_row *)
  fw_last : option (nat * nat) }.       (* _last_rendered_height, _last_rendered_width *)

Definition fs_init (hide : bool) : fswin := mkFs hide [] None.

(* line == other, i.e. str(line) == str(other) (C19) *)
Definition row_eqb (a b : fmtstr) : bool := str_eqb (render a) (render b).

(* line[:width] observed per character (the run structure of the real slice is
   C06's business; only the cells matter to what is displayed) *)
Fixpoint take_fs (n : nat) (f : fmtstr) : fmtstr :=
  match f with
  | [] => []
  | c :: r =>
      if length (c_s c) <=? n then c :: take_fs (n - length (c_s c)) r
      else [mkChunk (firstn n (c_s c)) (c_a c)]
  end.

Definition clip (w : nat) (line : fmtstr) : fmtstr :=
  if w <? flen line then take_fs w line else line.

(* for row, line in enumerate(array[:height]) *)
Fixpoint content_rows (w : nat) (old : cache) (row : nat) (lines : list fmtstr) : list cmd * cache :=
  match lines with
  | [] => ([], [])
  | line0 :: rest =>
      let line := clip w line0 in
      let '(ks, cur) := content_rows w old (S row) rest in
      let same := match lookup old row with Some (Some l) => row_eqb line l | _ => false end in
      let mine :=
        if same then []
        else [Cup row 0; Str (render line)] ++ (if flen line <? w then [El0] else []) in
      (mine ++ ks, (row, Some line) :: cur)
  end.

(* for row in range(len(array), height) *)
Fixpoint blank_rows (old : cache) (rows : list nat) : list cmd * cache :=
  match rows with
  | [] => ([], [])
  | row :: rest =>
      let '(ks, cur) := blank_rows old rest in
      let skip := match old with [] => false | _ => match lookup old row with None => true | Some _ => false end end in
      if skip then (ks, cur) else ([Cup row 0; El0; El1] ++ ks, (row, None) :: cur)
  end.

Definition fs_render (ws : fswin) (h w : nat) (array : list fmtstr) (cursor : nat * nat)
  : list cmd * fswin :=
  let changed := match fw_last ws with Some (lh, lw) => negb ((lh =? h) && (lw =? w)) | None => true end in
  let old := if changed then [] else fw_cache ws in
  let '(k1, c1) := content_rows w old 0 (firstn h array) in
  let '(k2, c2) := blank_rows old (seq (length array) (h - length array)) in
  ((if fw_hide ws then [] else [Hide]) ++ k1 ++ k2 ++ [Cup (fst cursor) (snd cursor)]
     ++ (if fw_hide ws then [] else [Show]),
   mkFs (fw_hide ws) (c1 ++ c2) (Some (h, w))).

(* __enter__ / __exit__ (blessed fullscreen context + BaseWindow) *)
Definition fs_enter (ws : fswin) : list cmd := [AltOn] ++ (if fw_hide ws then [Hide] else []).
Definition fs_exit (ws : fswin) : list cmd := [AltOff; Show].
