(* Model of the str-like operations of FmtStr (curtsies/formatstring.py):
     normalize_slice, FmtStr.__getitem__, __len__, __add__, __radd__, __mul__, join.
   The functions follow the Python statement by statement: loops are structural
   recursion with the same running variables ([counter], [parts], [before],
   [chunks]); exceptions are [Raise] outcomes.  No proofs here (Proofs/Slice.v).

   Python's BUILT-IN str slicing  s[a:b]  is [pyslice s a b] of Spec/ListOps.v
   (reference semantics of the language, not code of the repository).

   Operands: where Python accepts "a str or a FmtStr" the model takes an
   [operand].  Other operand types (the NotImplemented / TypeError paths, bytes)
   are outside the properties' quantifiers and are not modelled. *)
From Curtsies Require Import Model.Base Spec.ListOps.
Local Open Scope Z_scope.

Inductive operand := OStr (s : str) | OFmt (f : fmtstr).

(* what Python's subscript passes to __getitem__: an int or slice(start, stop, step) *)
Inductive index := Idx (i : Z) | Slice (start stop step : option Z).

(* ---- Chunk(s) and fmtstr(s) for a plain str ------------------------------ *)
(* Chunk(s): atts default to the empty dictionary; no parsing *)
Definition plain_chunk (s : str) : chunk := mkChunk s no_atts.

(* "\x1b[" in s or "\x9b" in s : the guard of FmtStr.from_str *)
Fixpoint has_esc_intro (s : str) : bool :=
  match s with
  | [] => false
  | c :: r => N.eqb c 155 ||
              match r with
              | d :: _ => (N.eqb c 27 && N.eqb d 91) || has_esc_intro r
              | [] => false
              end
  end.

(* fmtstr(s) for a str s with neither "\x1b[" nor the 8-bit CSI "\x9b" in s : FmtStr.from_str takes its last
   branch, FmtStr(Chunk(s)), and copy_with_new_atts() with no attributes copies
   the run.  The parsing branch of from_str is the subject of C05/C17; every
   theorem that goes through [fmtstr_plain] states [has_esc_intro s = false]. *)
Definition fmtstr_plain (s : str) : fmtstr := [plain_chunk s].

(* new_str if isinstance(new_str, FmtStr) else fmtstr(new_str) *)
Definition to_fs (o : operand) : fmtstr :=
  match o with OStr s => fmtstr_plain s | OFmt f => f end.

(* the scope condition on an operand that goes through fmtstr() *)
Definition operand_plain (o : operand) : bool :=
  match o with OStr s => negb (has_esc_intro s) | OFmt _ => true end.

(* observation of an operand: a plain str is unformatted *)
Definition op_cells (o : operand) : list cell :=
  match o with OStr s => plain_cells s | OFmt f => cells f end.
Definition op_text (o : operand) : str :=
  match o with OStr s => s | OFmt f => text f end.

(* ---- __len__ ------------------------------------------------------------------ *)
Definition chunk_len (c : chunk) : Z := Z.of_nat (length (c_s c)).
(* sum(len(fs) for fs in self.chunks) *)
Definition len (f : fmtstr) : Z := fold_left (fun acc c => acc + chunk_len c) f 0.
(* len(x) for x a str or a FmtStr *)
Definition op_len (o : operand) : Z :=
  match o with OStr s => Z.of_nat (length s) | OFmt f => len f end.

(* ---- normalize_slice --------------------------------------------------------------
   returns (index.start, index.stop) of the normalised slice.  Note that bounds
   above [length] are NOT clipped (the loop of __getitem__ copes with them). *)
Definition normalize_slice (length : Z) (ix : index) : res (Z * Z) :=
  bind (match ix with
        | Idx i =>
            if (i <? - length) || (i >=? length) then Raise IndexError
            else let i := if i <? 0 then i + length else i in
                 Ok (Some i, Some (i + 1), @None Z)
        | Slice a b st => Ok (a, b, st)
        end)
       (fun '(a, b, st) =>
          let start := match a with None => 0 | Some x => x end in
          let stop := match b with None => length | Some x => x end in
          let start := if start <? 0 then Z.max 0 (length + start) else start in
          let stop := if stop <? 0 then Z.max 0 (length + stop) else stop in
          match st with
          | Some _ => Raise NotImplementedError
          | None => Ok (start, stop)
          end).

(* ---- __getitem__ -------------------------------------------------------------------
   the loop over self.chunks; [counter] = characters in the runs already passed,
   [parts] = runs collected so far.  The result is [parts] at the [break] or at
   the end of the runs. *)
Fixpoint getitem_loop (start stop : Z) (counter : Z) (chunks parts : list chunk) : list chunk :=
  match chunks with
  | [] => parts
  | chunk :: rest =>
      let n := chunk_len chunk in
      let parts :=
        if (start <? counter + n) && (stop >? counter) then
          let s := Z.max 0 (start - counter) in
          let e := Z.min (stop - counter) n in
          if e - s =? n then parts ++ [chunk]                       (* whole run reused *)
          else parts ++ [mkChunk (pyslice (c_s chunk) (Some (Z.max 0 (start - counter)))
                                                      (Some (stop - counter)))
                                 (c_a chunk)]
        else parts in
      let counter := counter + n in
      if stop <? counter then parts                                  (* break *)
      else getitem_loop start stop counter rest parts
  end.

Definition getitem (f : fmtstr) (ix : index) : res fmtstr :=
  bind (normalize_slice (len f) ix) (fun '(start, stop) =>
    let parts := getitem_loop start stop 0 f [] in
    Ok (match parts with
        | [] => fmtstr_plain []          (* FmtStr( *parts ) if parts else fmtstr("") *)
        | _ => parts
        end)).

(* f[a:b] and f[i] *)
Definition getitem_slice (f : fmtstr) (a b : option Z) : res fmtstr := getitem f (Slice a b None).
Definition getitem_int (f : fmtstr) (i : Z) : res fmtstr := getitem f (Idx i).

(* ---- __add__ / __radd__ ---------------------------------------------------------------
   self + other ; other + self.  A str operand becomes ONE run Chunk(other)
   (not fmtstr(other): no parsing on this path). *)
Definition add (self : fmtstr) (other : operand) : fmtstr :=
  match other with
  | OFmt g => self ++ g
  | OStr s => self ++ [plain_chunk s]
  end.

Definition radd (self : fmtstr) (other : operand) : fmtstr :=
  match other with
  | OFmt g => g ++ self
  | OStr s => [plain_chunk s] ++ self
  end.

(* ---- __mul__ :  sum((self for _ in range(other)), FmtStr())
   [acc] starts as FmtStr() (no runs) and is replaced by acc + self, [other]
   times; range(other) is empty for other <= 0. *)
Fixpoint sum_loop (self : fmtstr) (k : nat) (acc : fmtstr) : fmtstr :=
  match k with
  | O => acc
  | Datatypes.S k' => sum_loop self k' (add acc (OFmt self))
  end.
Definition mul (self : fmtstr) (other : Z) : fmtstr := sum_loop self (Z.to_nat other) [].

(* ---- join ----------------------------------------------------------------------------
   before = []; chunks = []
   for s in iterable: chunks.extend(before); before = self.chunks; chunks.extend(<runs of s>) *)
Fixpoint join_loop (self : fmtstr) (items : list operand) (before chunks : list chunk) : list chunk :=
  match items with
  | [] => chunks
  | s :: rest =>
      let chunks := chunks ++ before in
      let before := self in
      join_loop self rest before (chunks ++ to_fs s)
  end.
Definition join (self : fmtstr) (items : list operand) : fmtstr := join_loop self items [] [].

(* ---- helpers for stating results ------------------------------------------------------ *)
Definition res_map {X Y} (g : X -> Y) (r : res X) : res Y :=
  match r with Ok x => Ok (g x) | Raise e => Raise e end.
