(* Model of FmtStr.divides, splice, append, setitem, setslice_with_length
   (curtsies/formatstring.py), following the code as it is now (after the
   `fix: splice inserts exactly once ...` commit).  No proofs here
   (Proofs/Splice.v).  Built-in str slicing is [pyslice] (Spec/ListOps.v). *)
From Curtsies Require Import Model.Base Spec.ListOps Model.Slice.
Local Open Scope Z_scope.

(* ---- divides:  acc = [0]; for s in self.chunks: acc.append(acc[-1] + len(s)) ---- *)
Fixpoint divides_from (last : Z) (chunks : list chunk) : list Z :=
  last :: match chunks with
          | [] => []
          | s :: rest => divides_from (last + chunk_len s) rest
          end.
Definition divides (f : fmtstr) : list Z := divides_from 0 f.

(* zip(a, b, c): stops at the shortest *)
Fixpoint zip3 {X Y W} (a : list X) (b : list Y) (c : list W) : list (X * Y * W) :=
  match a, b, c with
  | x :: a', y :: b', w :: c' => (x, y, w) :: zip3 a' b' c'
  | _, _, _ => []
  end.

Definition is_empty (s : str) : bool := match s with [] => true | _ => false end.

(* ---- one iteration of the loop of splice -------------------------------------------
   state: (new_components, inserted); item: (bfs, bfs_start, bfs_end).
   The Python variable [tail] is only ever used right after its assignment and
   [divide] in the third branch is unused, so neither is part of the state. *)
Definition splice_step (new_fs : fmtstr) (start end_ : Z)
           (st : list chunk * bool) (it : chunk * Z * Z) : list chunk * bool :=
  let '(comps, inserted) := st in
  let '(bfs, bfs_start, bfs_end) := it in
  (* if end == bfs_start == 0 and not inserted *)
  if (end_ =? bfs_start) && (bfs_start =? 0) && negb inserted then
    (comps ++ new_fs ++ [bfs], true)
  (* elif bfs_start <= start < bfs_end and not inserted *)
  else if (bfs_start <=? start) && (start <? bfs_end) && negb inserted then
    let divide := start - bfs_start in
    let head := mkChunk (pyslice (c_s bfs) None (Some divide)) (c_a bfs) in
    let comps := comps ++ ([head] ++ new_fs) in
    if end_ <? bfs_end then
      let tail := mkChunk (pyslice (c_s bfs) (Some (end_ - bfs_start)) None) (c_a bfs) in
      (comps ++ [tail], true)
    else (comps, true)
  (* elif bfs_start < end < bfs_end *)
  else if (bfs_start <? end_) && (end_ <? bfs_end) then
    let tail := mkChunk (pyslice (c_s bfs) (Some (end_ - bfs_start)) None) (c_a bfs) in
    (comps ++ [tail], inserted)
  (* elif bfs_start >= end or bfs_end <= start *)
  else if (bfs_start >=? end_) || (bfs_end <=? start) then
    (comps ++ [bfs], inserted)
  (* no branch: the run lies inside the replaced range and is dropped *)
  else (comps, inserted).

Definition splice_items (f : fmtstr) : list (chunk * Z * Z) :=
  let d := divides f in zip3 f (removelast d) (tl d).       (* divides[:-1], divides[1:] *)

(* f.splice(new_str, start, end) ; [end_ = None] = argument omitted *)
Definition splice (f : fmtstr) (new_str : operand) (start : Z) (end_ : option Z) : fmtstr :=
  let end_ := match end_ with None => start | Some e => e end in
  if (op_len new_str =? 0) && (end_ <=? start) then f           (* return self *)
  else
    let new_fs := to_fs new_str in
    let '(comps, inserted) :=
      fold_left (splice_step new_fs start end_) (splice_items f) ([], false) in
    let comps := if inserted then comps else comps ++ new_fs in
    filter (fun c => negb (is_empty (c_s c))) comps.             (* s for s in ... if s.s *)

(* f.append(x) = self.splice(x, len(self.s)) *)
Definition append (f : fmtstr) (x : operand) : fmtstr :=
  splice f x (Z.of_nat (length (text f))) None.

(* ---- setslice_with_length / setitem ---------------------------------------------------- *)
(* " " * k  (empty for k <= 0) *)
Definition spaces (k : Z) : str := repeat 32%N (Z.to_nat k).

(* str + fs  and  fs + str  for fs a str or a FmtStr *)
Definition str_plus (s : str) (fs : operand) : operand :=
  match fs with OStr t => OStr (s ++ t) | OFmt g => OFmt (radd g (OStr s)) end.
Definition plus_str (fs : operand) (s : str) : operand :=
  match fs with OStr t => OStr (t ++ s) | OFmt g => OFmt (add g (OStr s)) end.

Definition setslice_with_length (f : fmtstr) (startindex endindex : Z) (fs : operand)
           (length : Z) : res fmtstr :=
  let fs := if len f <? startindex then str_plus (spaces (startindex - len f)) fs else fs in
  bind (if len f >? endindex then
          let fs := plus_str fs (spaces (endindex - startindex - op_len fs)) in
          if op_len fs =? endindex - startindex then Ok fs else Raise AssertionError
        else Ok fs)
       (fun fs =>
          let result := splice f fs startindex (Some endindex) in
          if len result >? length then Raise ValueError else Ok result).

Definition setitem (f : fmtstr) (startindex : Z) (fs : operand) : res fmtstr :=
  setslice_with_length f startindex (startindex + 1) fs (len f).
