(* Model of the context managers of curtsies (termhelpers.py, input.py, window.py)
   for property C12: what entering changes in the process environment and the
   terminal, what each manager saves in its own object, what leaving puts back.
   Executable definitions only, no proofs.

   Environment = what the property names: tty attributes and file status flags
   of the input stream, the SIGINT handler, the signal wake-up descriptor, the
   table of open descriptors (with the object that owns each), and the terminal
   the output stream is connected to (reference model Spec/Term.v) together
   with everything written to it so far.

   A program is a tree of [With manager body] regions around atomic steps.  An
   exception is raised after any number of atomic steps (the budget of [prun]);
   `with` semantics: __exit__ runs iff __enter__ returned, whether the body
   finished or raised.  Not expressible here (the property is PARTIAL for that
   reason): an asynchronous exception arriving while __enter__/__exit__
   themselves, or a C call, are executing. *)
From Curtsies Require Import Model.Base Spec.Sgr Spec.Term.
From Coq Require Import Arith.
Close Scope N_scope.
Local Open Scope nat_scope.

(* ---- tty attributes (termios.tcgetattr of the input stream) ----------------- *)
(* the fields some manager writes individually are explicit, everything else
   (the other bits of the four flag words, the speeds, the other control
   characters) is carried along as an uninterpreted list of numbers *)
Record tty := mkTty {
  ty_icrnl : bool;                     (* c_iflag & ICRNL *)
  ty_echo : bool; ty_icanon : bool;    (* c_lflag & ECHO, & ICANON *)
  ty_vmin : N; ty_vtime : N;           (* c_cc[VMIN], c_cc[VTIME] *)
  ty_vstart : N; ty_vstop : N;         (* c_cc[VSTART] (Ctrl-q), c_cc[VSTOP] (Ctrl-s) *)
  ty_rest : list N }.

(* tty.setcbreak (CPython 3.12 cfmakecbreak): ICRNL, ECHO, ICANON off, VMIN = 1, VTIME = 0 *)
Definition setcbreak (a : tty) : tty :=
  mkTty false false false 1%N 0%N (ty_vstart a) (ty_vstop a) (ty_rest a).

(* Input.__enter__ with disable_terminal_start_stop: tty_cc[VSTOP] = 0; tty_cc[VSTART] = 0 *)
Definition no_start_stop (a : tty) : tty :=
  mkTty (ty_icrnl a) (ty_echo a) (ty_icanon a) (ty_vmin a) (ty_vtime a) 0%N 0%N (ty_rest a).

(* ---- file status flags (fcntl F_GETFL of the input stream) ------------------ *)
Record flags := mkFl { fl_nonblock : bool; fl_rest : N }.   (* O_NONBLOCK; O_APPEND, access mode, ... *)
Definition set_nonblock (f : flags) : flags := mkFl true (fl_rest f).   (* orig_fl | os.O_NONBLOCK *)

(* ---- SIGINT handler as signal.getsignal reports it --------------------------- *)
Inductive handler :=
| HDfl | HIgn                (* signal.SIG_DFL, signal.SIG_IGN *)
| HPyDefault                 (* signal.default_int_handler (raises KeyboardInterrupt) *)
| HUser (n : nat)            (* some other Python callable *)
| HInput (obj : nat)         (* the bound method sigint_handler of Input object [obj] *)
| HNone.                     (* None: a handler that was not installed from Python *)

Definition is_HNone (h : handler) : bool := match h with HNone => true | _ => false end.

(* ---- open file descriptors --------------------------------------------------- *)
Inductive owner :=
| OEnv                       (* open before the program started *)
| OWake (obj : nat)          (* wake-up pipe of Input object [obj] (closed by its __exit__) *)
| OTrig (obj : nat).         (* pipe of a threadsafe_event_trigger callback of Input [obj]: never closed *)

Definition fdtable := list (nat * owner).

Definition fd_open (fd : nat) (t : fdtable) : bool := existsb (fun p => fst p =? fd) t.

(* the kernel hands out the lowest free number *)
Fixpoint lowest_free (fuel cand : nat) (t : fdtable) : nat :=
  match fuel with
  | 0 => cand
  | S f => if fd_open cand t then lowest_free f (S cand) t else cand
  end.
Definition alloc (t : fdtable) : nat := lowest_free (length t) 0 t.

Definition close (fd : nat) (t : fdtable) : fdtable := filter (fun p => negb (fst p =? fd)) t.

(* os.pipe(): read end first, then write end; returns the new table and both numbers *)
Definition pipe (o : owner) (t : fdtable) : fdtable * nat * nat :=
  let r := alloc t in
  let t1 := (r, o) :: t in
  let w := alloc t1 in
  ((w, o) :: t1, r, w).

(* ---- terminal ---------------------------------------------------------------- *)
(* Spec/Term.v is undefined (None) on a string with a malformed SGR sequence;
   such a write is dropped here (the correspondence check separately insists
   that every replay of real output is defined) *)
Definition texec (t : term) (k : cmd) : term := match exec t k with Some t' => t' | None => t end.
Definition texecs (t : term) (ks : list cmd) : term := fold_left texec ks t.

(* ---- the environment --------------------------------------------------------- *)
Record env := mkEnv {
  e_tty : tty; e_flags : flags; e_handler : handler;
  e_wakeup : option nat;                 (* signal.set_wakeup_fd: None is -1 *)
  e_fds : fdtable;
  e_term : term;
  e_out : list (list cmd) }.             (* every out_stream.write so far, latest first *)

Definition set_tty (a : tty) (e : env) : env :=
  mkEnv a (e_flags e) (e_handler e) (e_wakeup e) (e_fds e) (e_term e) (e_out e).
Definition set_flags (f : flags) (e : env) : env :=
  mkEnv (e_tty e) f (e_handler e) (e_wakeup e) (e_fds e) (e_term e) (e_out e).
Definition set_handler (h : handler) (e : env) : env :=
  mkEnv (e_tty e) (e_flags e) h (e_wakeup e) (e_fds e) (e_term e) (e_out e).
Definition set_wakeup (w : option nat) (e : env) : env :=
  mkEnv (e_tty e) (e_flags e) (e_handler e) w (e_fds e) (e_term e) (e_out e).
Definition set_fds (t : fdtable) (e : env) : env :=
  mkEnv (e_tty e) (e_flags e) (e_handler e) (e_wakeup e) t (e_term e) (e_out e).
(* self.write(msg): out_stream.write + flush *)
Definition wr (ks : list cmd) (e : env) : env :=
  mkEnv (e_tty e) (e_flags e) (e_handler e) (e_wakeup e) (e_fds e) (texecs (e_term e) ks) (ks :: e_out e).
Definition wr_if (b : bool) (ks : list cmd) (e : env) : env := if b then wr ks e else e.

(* ---- the context managers ---------------------------------------------------- *)
Record icfg := mkIcfg {                  (* an Input object *)
  i_obj : nat;                           (* identity *)
  i_sigint_event : bool;
  i_start_stop : bool }.                 (* disable_terminal_start_stop *)

Inductive mgr :=
| MInput (c : icfg)
| MCbreak
| MTermmode (attrs : tty)
| MNonblocking
| MRsh (h : handler)                     (* ReplacedSigIntHandler(handler) *)
| MBaseWindow (hide : bool)
| MFullscreen (hide : bool)
| MCursorAware (hide keep : bool) (reply_ok : bool).
    (* reply_ok = the cursor-position query in __enter__ gets a well-formed answer with nothing
       typed ahead of it (otherwise get_cursor_position raises ValueError inside __enter__) *)

(* what a manager object remembers between __enter__ and __exit__
   ([None] = attribute not assigned by this __enter__) *)
Record saved := mkSaved {
  sv_tty : option tty;                   (* original_stty *)
  sv_flags : option flags;               (* orig_fl *)
  sv_handler : option handler;           (* orig_sigint_handler *)
  sv_wakeup : option nat;                (* orig_wakeup_fd (-1 = None, also the __init__ value) *)
  sv_rfd : option nat; sv_wfd : option nat }.   (* wakeup_read_fd, wakeup_write_fd *)

Definition no_saved : saved := mkSaved None None None None None None.

(* __enter__: the new environment and [Some saved] if it returned, [None] if it raised
   (then __exit__ will not run; the environment is what __enter__ left behind) *)
Definition enter_mgr (main : bool) (m : mgr) (e : env) : env * option saved :=
  match m with
  | MInput c =>
      (* self.original_stty = tcgetattr; tty.setcbreak *)
      let e1 := set_tty (setcbreak (e_tty e)) e in
      (* if self.disable_terminal_start_stop: ... *)
      let e2 := if i_start_stop c then set_tty (no_start_stop (e_tty e1)) e1 else e1 in
      (* (sys.platform == "darwin" branch: not taken on the modelled platform) *)
      (* if self.sigint_event and is_main_thread(): getsignal; signal(SIGINT, self.sigint_handler) *)
      let hsave := if i_sigint_event c && main then Some (e_handler e2) else None in
      let e3 := if i_sigint_event c && main then set_handler (HInput (i_obj c)) e2 else e2 in
      (* if is_main_thread(): os.pipe(); set_blocking; self.orig_wakeup_fd = set_wakeup_fd(wfd) *)
      if main then
        let '(t, r, w) := pipe (OWake (i_obj c)) (e_fds e3) in
        let e4 := set_wakeup (Some w) (set_fds t e3) in
        (e4, Some (mkSaved (Some (e_tty e)) None hsave (e_wakeup e3) (Some r) (Some w)))
      else
        (e3, Some (mkSaved (Some (e_tty e)) None hsave None None None))
  | MCbreak =>
      (set_tty (setcbreak (e_tty e)) e, Some (mkSaved (Some (e_tty e)) None None None None None))
  | MTermmode attrs =>
      (set_tty attrs e, Some (mkSaved (Some (e_tty e)) None None None None None))
  | MNonblocking =>
      (set_flags (set_nonblock (e_flags e)) e, Some (mkSaved None (Some (e_flags e)) None None None None))
  | MRsh h =>
      (* signal.signal raises ValueError outside the main thread and TypeError for a
         non-callable handler, in both cases before changing anything *)
      if main && negb (is_HNone h)
      then (set_handler h e, Some (mkSaved None None (Some (e_handler e)) None None None))
      else (e, None)
  | MBaseWindow hide =>
      (wr_if hide [Hide] e, Some no_saved)
  | MFullscreen hide =>
      (* self.fullscreen_ctx.__enter__(); BaseWindow.__enter__ *)
      (wr_if hide [Hide] (wr [AltOn] e), Some no_saved)
  | MCursorAware hide keep reply_ok =>
      (* self.cbreak = Cbreak(in_stream); self.cbreak.__enter__() *)
      let e1 := set_tty (setcbreak (e_tty e)) e in
      (* get_cursor_position(): write the query, read the answer *)
      let e2 := wr [Dsr] e1 in
      if reply_ok then (wr_if hide [Hide] e2, Some (mkSaved (Some (e_tty e)) None None None None None))
      else (e2, None)
  end.

Definition close_opt (fd : option nat) (t : fdtable) : fdtable :=
  match fd with Some n => close n t | None => t end.

Definition restore_tty (sv : saved) (e : env) : env :=
  match sv_tty sv with Some a => set_tty a e | None => e end.

(* __exit__ (its three arguments are ignored by every manager; none swallows the exception) *)
Definition exit_mgr (main : bool) (m : mgr) (sv : saved) (e : env) : env :=
  match m with
  | MInput c =>
      (* if self.sigint_event and is_main_thread() and self.orig_sigint_handler is not None: signal(...) *)
      let e1 := match sv_handler sv with
                | Some h => if i_sigint_event c && main && negb (is_HNone h) then set_handler h e else e
                | None => e
                end in
      (* if is_main_thread(): set_wakeup_fd(self.orig_wakeup_fd); close both ends *)
      let e2 := if main
                then set_fds (close_opt (sv_wfd sv) (close_opt (sv_rfd sv) (e_fds e1))) (set_wakeup (sv_wakeup sv) e1)
                else e1 in
      (* tcsetattr(self.in_stream, TCSANOW, self.original_stty) *)
      restore_tty sv e2
  | MCbreak | MTermmode _ => restore_tty sv e
  | MNonblocking =>
      match sv_flags sv with Some f => set_flags f e | None => e end
  | MRsh _ =>
      (* signal.signal(SIGINT, self.orig_sigint_handler); with None it raises TypeError and changes nothing *)
      match sv_handler sv with
      | Some h => if is_HNone h then e else set_handler h e
      | None => e
      end
  | MBaseWindow _ => wr [Show] e
  | MFullscreen _ =>
      (* self.fullscreen_ctx.__exit__(...); BaseWindow.__exit__ *)
      wr [Show] (wr [AltOff] e)
  | MCursorAware _ keep _ =>
      (* move_down if keep_last_line; move_x(0); clear_eos; clear_eol; cbreak.__exit__; BaseWindow.__exit__ *)
      let e1 := wr_if keep [Lf] e in
      let e2 := wr [El0] (wr [Ed0] (wr [Cha 0] e1)) in
      wr [Show] (restore_tty sv e2)
  end.

(* ---- programs ---------------------------------------------------------------- *)
(* what a step without effect on the environment stands for (documentation and
   a handle for the correspondence check; the semantics ignores it) *)
Inductive note :=
| NQueue      (* send: the queued-event checks and find_key before waiting *)
| NSelect     (* _wait_for_read_ready_or_timeout: blocked in select (a SIGINT lands here) *)
| NRead       (* os.read inside `with Nonblocking` *)
| NDecode     (* find_key / paste bookkeeping after a read *)
| NCall       (* calling a trigger callback: queue append + os.write to its pipe *)
| NUser.      (* any statement of the with-body that does not touch the environment
                 (also: the place where the harness observes or raises) *)

Inductive atom :=
| Pure (n : note) (id sub : nat)
| Write (ks : list cmd)        (* one out_stream.write call *)
| OpenPipe (obj : nat).        (* threadsafe_event_trigger of Input [obj]: os.pipe(), never closed *)

Inductive prog :=
| Step (a : atom)
| With (m : mgr) (body : list prog).

Definition do_atom (a : atom) (e : env) : env :=
  match a with
  | Pure _ _ _ => e
  | Write ks => wr ks e
  | OpenPipe obj => let '(t, _, _) := pipe (OTrig obj) (e_fds e) in set_fds t e
  end.

Inductive outcome :=
| Done (budget : option nat)   (* finished; the steps still to go before the exception ([None]: there is none) *)
| Raised.

(* [None] = the exception is raised here *)
Definition tick (b : option nat) : option (option nat) :=
  match b with
  | None => Some None
  | Some 0 => None
  | Some (S k) => Some (Some k)
  end.

(* where a trace entry was taken *)
Inductive label := LStep (a : atom) | LEnter (m : mgr).
(* (number of enclosing Nonblocking regions, where, environment at that moment) *)
Definition entry := (nat * label * env)%type.

Definition result := (env * outcome * list entry)%type.
Definition r_env (r : result) : env := fst (fst r).
Definition r_out (r : result) : outcome := snd (fst r).
Definition r_trace (r : result) : list entry := snd r.

Section RunList.
  Variable runp : prog -> option nat -> env -> result.
  Fixpoint prun_list_with (ps : list prog) (b : option nat) (e : env) : result :=
    match ps with
    | [] => (e, Done b, [])
    | p :: rest =>
        let '(e1, o, t1) := runp p b e in
        match o with
        | Raised => (e1, Raised, t1)
        | Done b1 => let '(e2, o2, t2) := prun_list_with rest b1 e1 in (e2, o2, t1 ++ t2)
        end
    end.
End RunList.

Definition is_nonblocking (m : mgr) : bool := match m with MNonblocking => true | _ => false end.

(* [main]: running on the main thread.  [d]: number of enclosing Nonblocking regions.
   [b]: number of ticks (atomic steps, and `with` statements reached) after which the
   exception is raised; [None] = no exception.  The trace has one entry per tick, taken
   before the step is executed (also for the tick at which the exception is raised). *)
Fixpoint prun (main : bool) (d : nat) (p : prog) (b : option nat) (e : env) : result :=
  match p with
  | Step a =>
      match tick b with
      | None => (e, Raised, [(d, LStep a, e)])
      | Some b1 => (do_atom a e, Done b1, [(d, LStep a, e)])
      end
  | With m body =>
      match tick b with
      | None => (e, Raised, [(d, LEnter m, e)])          (* raised before the with statement *)
      | Some b1 =>
          match enter_mgr main m e with
          | (e1, None) => (e1, Raised, [(d, LEnter m, e)])       (* __enter__ raised: no __exit__ *)
          | (e1, Some sv) =>
              let '(e2, o, t) :=
                prun_list_with (prun main (if is_nonblocking m then S d else d)) body b1 e1 in
              (exit_mgr main m sv e2, o, (d, LEnter m, e) :: t)  (* __exit__ runs, the outcome propagates *)
          end
      end
  end.

Definition prun_list (main : bool) (d : nat) : list prog -> option nat -> env -> result :=
  prun_list_with (prun main d).

(* ---- the operations of a body as programs -------------------------------------- *)
(* render_to_terminal of either window: every self.write is an atomic step; with
   hide_cursor off the body is bracketed by hide_cursor / normal_cursor.  [body] =
   the writes in between (cursor moves, row strings, erases; for CursorAwareWindow
   also save/restore and line feeds) *)
Definition render_writes (hide : bool) (body : list (list cmd)) : list (list cmd) :=
  (if hide then [] else [[Hide]]) ++ body ++ (if hide then [] else [[Show]]).
Definition render_prog (hide : bool) (body : list (list cmd)) : list prog :=
  map (fun ks => Step (Write ks)) (render_writes hide body).

(* Input.send(timeout).  [early]: an event was already queued (returns before waiting);
   otherwise it blocks in select and then performs [reads] non-blocking reads, each inside
   its own `with Nonblocking(self.in_stream)` and followed by decoding *)
Fixpoint reads_prog (id : nat) (j reads : nat) : list prog :=
  match reads with
  | 0 => []
  | S k => With MNonblocking [Step (Pure NRead id j)] :: Step (Pure NDecode id j) :: reads_prog id (S j) k
  end.

Definition send_body (id : nat) (early : bool) (reads : nat) : list prog :=
  Step (Pure NQueue id 0) :: (if early then [] else Step (Pure NSelect id 0) :: reads_prog id 0 reads).

Definition request_prog (main : bool) (c : icfg) (id : nat) (early : bool) (reads : nat) : list prog :=
  (* if self.sigint_event and is_main_thread(): with ReplacedSigIntHandler(self.sigint_handler): ... *)
  if i_sigint_event c && main
  then [With (MRsh (HInput (i_obj c))) (send_body id early reads)]
  else send_body id early reads.

(* cb = input.threadsafe_event_trigger(...) ;  cb() *)
Definition trigger_create (c : icfg) : list prog := [Step (OpenPipe (i_obj c))].
Definition trigger_call (id : nat) : list prog := [Step (Pure NCall id 0)].

(* ---- syntactic conditions on programs (used as hypotheses of the theorems) ------ *)
Section ProgAll.
  Variable pm : mgr -> bool.
  Variable pa : atom -> bool.
  Fixpoint prog_all (p : prog) : bool :=
    match p with
    | Step a => pa a
    | With m body => pm m && forallb prog_all body
    end.
End ProgAll.
