(* Model of the column arithmetic of curtsies/formatstring.py:
     Chunk.width, FmtStr.width, FmtStr.width_at_offset, FmtStr.width_aware_slice,
     the module-level helper width_aware_slice and interval_overlap.
   Executable definitions only, no proofs.

   Character widths come from the C library cwcwidth, which is outside the
   repository's logic: [wc] (= cwcwidth.wcwidth on one character: -1, 0, 1 or 2)
   is a Section variable.  cwcwidth.wcswidth(s, n) is the sum of wcwidth over the
   first n characters, or -1 as soon as one of them is negative ([wcswidth]).

   normalize_slice: another file (Model/Slice.v, property C06) models it in full;
   to stay independent of it this file carries its own small copy
   ([ws_normalize_slice]: slice objects without step and plain ints). *)
From Curtsies Require Import Model.Base.
Local Open Scope Z_scope.

(* Python: a slice object (step None) or an int, as passed to width_aware_slice *)
Inductive index := IxInt (i : Z) | IxSlice (start stop : option Z).

(* normalize_slice(length, index) *)
Definition ws_normalize_slice (length : Z) (ix : index) : res (Z * Z) :=
  match ix with
  | IxInt i =>
      if (i <? - length) || (i >=? length) then Raise IndexError
      else let i := if i <? 0 then i + length else i in
           Ok (i, i + 1)
  | IxSlice a b =>
      let start := match a with None => 0 | Some a => a end in
      let stop := match b with None => length | Some b => b end in
      let start := if start <? 0 then Z.max 0 (length + start) else start in
      let stop := if stop <? 0 then Z.max 0 (length + stop) else stop in
      Ok (start, stop)
  end.

(* def interval_overlap(a, b, x, y): return max(0, min(b, y) - max(a, x)) *)
Definition interval_overlap (a b x y : Z) : Z := Z.max 0 (Z.min b y - Z.max a x).

Section Width.
Variable wc : char -> Z.

(* cwcwidth.wcswidth(s) *)
Fixpoint wcswidth (s : str) : Z :=
  match s with
  | [] => 0
  | c :: r =>
      if wc c <? 0 then -1
      else let t := wcswidth r in if t <? 0 then -1 else wc c + t
  end.

(* Chunk.width:
     width = wcswidth(self._s)
     if len(self._s) > 0 and width < 0: raise ValueError
     return width *)
Definition chunk_width (c : chunk) : res Z :=
  let width := wcswidth (c_s c) in
  if negb (Nat.eqb (length (c_s c)) 0) && (width <? 0) then Raise ValueError
  else Ok width.

(* FmtStr.width: sum(fs.width for fs in self.chunks); the first run whose width
   raises ends the sum *)
Fixpoint fs_width (f : fmtstr) : res Z :=
  match f with
  | [] => Ok 0
  | c :: r => bind (chunk_width c) (fun w => bind (fs_width r) (fun t => Ok (w + t)))
  end.

(* FmtStr.width_at_offset(n):
     width = wcswidth(self.s, n); assert width != -1; return width
   (a negative n makes the C binding raise OverflowError, not one of the modelled
   exception classes) *)
Definition width_at_offset (f : fmtstr) (n : Z) : res Z :=
  if n <? 0 then Raise OtherError
  else
    let width := wcswidth (firstn (Z.to_nat n) (text f)) in
    if width =? -1 then Raise AssertionError else Ok width.

(* the helper width_aware_slice(s, start, end, replacement_char=" "):
     divides = [0]; for c in s: divides.append(divides[-1] + wcwidth(c))
     for char, char_start, char_end in zip(s, divides[:-1], divides[1:]):
         if char_start == start and char_end == start: continue
         elif char_start >= start and char_end <= end: new_chunk_chars.append(char)
         else: new_chunk_chars.extend(" " * interval_overlap(char_start, char_end, start, end))
   [pos] is the running entry divides[-1]; [was_char] is the body of the second loop. *)
Definition was_char (c : char) (char_start char_end start end_ : Z) : str :=
  if (char_start =? start) && (char_end =? start) then []
  else if (char_start >=? start) && (char_end <=? end_) then [c]
  else repeat 32%N (Z.to_nat (interval_overlap char_start char_end start end_)).

Fixpoint was_chars (s : str) (pos start end_ : Z) : str :=
  match s with
  | [] => []
  | c :: r =>
      let char_start := pos in
      let char_end := pos + wc c in
      was_char c char_start char_end start end_ ++ was_chars r char_end start end_
  end.

Definition was_str (s : str) (start end_ : Z) : str := was_chars s 0 start end_.

(* the loop of FmtStr.width_aware_slice:
     for chunk in self.chunks:
         if index.start < counter + chunk.width and index.stop >= counter:
             s_part = width_aware_slice(chunk.s, index.start - counter, index.stop - counter)
             if s_part == chunk.s: parts.append(chunk)
             elif s_part: parts.append(Chunk(s_part, chunk.atts))
         counter += chunk.width
         if index.stop < counter: break
   (the helper gets the UNCLAMPED offsets: index.start - counter may be negative) *)
Fixpoint was_walk (chunks : list chunk) (start stop counter : Z) : res (list chunk) :=
  match chunks with
  | [] => Ok []
  | ch :: rest =>
      bind (chunk_width ch) (fun w =>
        let part :=
          if (start <? counter + w) && (stop >=? counter) then
            let s_part := was_str (c_s ch) (start - counter) (stop - counter) in
            if str_eqb s_part (c_s ch) then [ch]
            else match s_part with
                 | [] => []
                 | _ => [mkChunk s_part (c_a ch)]
                 end
          else [] in
        let counter := counter + w in
        if stop <? counter then Ok part
        else bind (was_walk rest start stop counter) (fun ps => Ok (part ++ ps)))
  end.

(* FmtStr.width_aware_slice(index):
     if wcswidth(self.s, None) == -1: raise ValueError
     index = normalize_slice(self.width, index)
     ... loop ...
     return FmtStr( *parts) if parts else fmtstr("")        (fmtstr("") = FmtStr(Chunk(""))) *)
Definition fs_was (f : fmtstr) (ix : index) : res fmtstr :=
  if wcswidth (text f) =? -1 then Raise ValueError
  else
    bind (fs_width f) (fun wd =>
    bind (ws_normalize_slice wd ix) (fun se =>
    bind (was_walk f (fst se) (snd se) 0) (fun parts =>
    Ok (match parts with [] => [mkChunk [] no_atts] | _ => parts end)))).

End Width.

(* the width function as data (correspondence cases): association list, the
   characters not listed have width 1 *)
Fixpoint wc_of (al : list (char * Z)) (c : char) : Z :=
  match al with
  | [] => 1
  | (k, v) :: r => if N.eqb k c then v else wc_of r c
  end.
