(* Model of ChunkSplitter (reinit, request) and of FmtStr.width_aware_splitlines /
   FmtStr._width_aware_splitlines (curtsies/formatstring.py).
   Executable definitions only, no proofs.

   The widths come from cwcwidth: [wc], see Model/Width.v.

   Ghost information: [request] returns, beside what the Python returns, a flag
   telling whether it took the branch that appends the replacement character
   (the padding space).  The flag is carried along with the chunks of a line and
   dropped in the observable result ([splitlines]); it only serves to state the
   property about paddings (annotated cells, end of this file). *)
From Curtsies Require Import Model.Base Model.Width Spec.Columns.
Local Open Scope Z_scope.

(* ChunkSplitter: chunk, internal_offset (index into chunk.s), internal_width
   (width of chunk.s[:internal_offset]).  reinit also computes a list [divides]
   that request never reads (wcwidth of a character cannot raise): left out. *)
Record splitter := mkSplitter { sp_chunk : chunk; sp_off : nat; sp_width : Z }.

Definition reinit (ch : chunk) : splitter := mkSplitter ch 0 0.

(* s[a:b] for 0 <= a, 0 <= b *)
Definition slice_str (s : str) (a b : nat) : str := firstn (b - a) (skipn a s).

(* chunks_of_line: the requested chunks, each with its ghost flag *)
Definition aline := list (chunk * bool).

(* outcome of the generator consumed by list(): None = the fuel given to the
   inner `while True` ran out (proved impossible, Proofs/Wrap.v) *)
Definition outcome := option (res (list aline)).

(* yield: the line is delivered before the rest of the computation; if that
   raises, list() raises *)
Definition yield (l : aline) (rest : outcome) : outcome :=
  match rest with
  | Some (Ok ls) => Some (Ok (l :: ls))
  | o => o
  end.

Section Wrap.
Variable wc : char -> Z.

(* the `while True` of request, recursion over rest = s[i:]:
     w = wcswidth(s[i], None)
     if width + w > max_width:
         self.internal_offset = i; self.internal_width += width
         if width < max_width:
             assert width + 1 == max_width
             assert w == 2
             return (width + 1, Chunk(s[start_offset:self.internal_offset] + " ", atts))
         return (width, Chunk(s[start_offset:self.internal_offset], atts))
     width += w
     if i + 1 == length:
         self.internal_offset = i + 1; self.internal_width += width
         return (width, Chunk(s[start_offset:self.internal_offset], atts))
     i += 1 *)
Fixpoint request_loop (sp : splitter) (max_width : Z) (start_offset : nat)
         (rest : str) (i : nat) (width : Z) : res (splitter * option (Z * chunk * bool)) :=
  let s := c_s (sp_chunk sp) in
  let atts := c_a (sp_chunk sp) in
  match rest with
  | [] => Raise IndexError   (* s[i] with i = len(s); i < len(s) is an invariant of the loop *)
  | c :: rest' =>
      let w := wcswidth wc [c] in
      if width + w >? max_width then
        let sp' := mkSplitter (sp_chunk sp) i (sp_width sp + width) in
        if width <? max_width then
          if negb (width + 1 =? max_width) then Raise AssertionError
          else if negb (w =? 2) then Raise AssertionError
          else Ok (sp', Some (width + 1, mkChunk (slice_str s start_offset i ++ [32%N]) atts, true))
        else Ok (sp', Some (width, mkChunk (slice_str s start_offset i) atts, false))
      else
        let width := width + w in
        if Nat.eqb (i + 1) (length s) then
          Ok (mkSplitter (sp_chunk sp) (i + 1) (sp_width sp + width),
              Some (width, mkChunk (slice_str s start_offset (i + 1)) atts, false))
        else request_loop sp max_width start_offset rest' (i + 1) width
  end.

(* ChunkSplitter.request(max_width):
     if max_width < 1: raise ValueError
     if self.internal_offset == len(s): return None
     width = 0; start_offset = i = self.internal_offset; while True: ... *)
Definition request (sp : splitter) (max_width : Z) : res (splitter * option (Z * chunk * bool)) :=
  if max_width <? 1 then Raise ValueError
  else
    let s := c_s (sp_chunk sp) in
    if Nat.eqb (sp_off sp) (length s) then Ok (sp, None)
    else request_loop sp max_width (sp_off sp) (skipn (sp_off sp) s) (sp_off sp) 0.

(* the inner `while True` of _width_aware_splitlines for one source chunk; [k] is
   what follows the `break` (the rest of the for loop):
     request = splitter.request(columns - width_of_line)
     if request is None: break
     w, new_chunk = request
     chunks_of_line.append(new_chunk); width_of_line += w
     if width_of_line == columns:
         yield FmtStr( *chunks_of_line); del chunks_of_line[:]; width_of_line = 0 *)
Fixpoint fill (k : aline -> Z -> outcome) (columns : Z) (fuel : nat)
         (sp : splitter) (chunks_of_line : aline) (width_of_line : Z) : outcome :=
  match fuel with
  | O => None
  | S fuel' =>
      match request sp (columns - width_of_line) with
      | Raise e => Some (Raise e)
      | Ok (sp', None) => k chunks_of_line width_of_line
      | Ok (sp', Some (w, new_chunk, padded)) =>
          let chunks_of_line := chunks_of_line ++ [(new_chunk, padded)] in
          let width_of_line := width_of_line + w in
          if width_of_line =? columns then yield chunks_of_line (fill k columns fuel' sp' [] 0)
          else fill k columns fuel' sp' chunks_of_line width_of_line
      end
  end.

(* for source_chunk in self.chunks: splitter.reinit(source_chunk); while True: ...
   then:  if chunks_of_line: yield FmtStr( *chunks_of_line)
   (the one splitter object is reused, reinit overwrites all of its fields) *)
Fixpoint lines_from (columns : Z) (chunks : list chunk) (chunks_of_line : aline) (width_of_line : Z)
  : outcome :=
  match chunks with
  | [] => Some (Ok (match chunks_of_line with [] => [] | _ => [chunks_of_line] end))
  | source_chunk :: rest =>
      fill (fun col wol => lines_from columns rest col wol) columns
           (2 * length (c_s source_chunk) + 2) (reinit source_chunk) chunks_of_line width_of_line
  end.

(* FmtStr.width_aware_splitlines(columns), consumed by list():
     if columns < 2: raise ValueError
     if wcswidth(self.s, None) == -1: raise ValueError
     _width_aware_splitlines:  if not self.chunks: return *)
Definition splitlines_ann (f : fmtstr) (columns : Z) : outcome :=
  if columns <? 2 then Some (Raise ValueError)
  else if wcswidth wc (text f) =? -1 then Some (Raise ValueError)
  else
    match f with
    | [] => Some (Ok [])
    | _ => lines_from columns f [] 0
    end.

(* the observable result: the lines as FmtStrs *)
Definition line_fs (l : aline) : fmtstr := map fst l.
Definition splitlines (f : fmtstr) (columns : Z) : option (res (list fmtstr)) :=
  match splitlines_ann f columns with
  | Some (Ok ls) => Some (Ok (map line_fs ls))
  | Some (Raise e) => Some (Raise e)
  | None => None
  end.

End Wrap.

(* ---- the annotated view of a line (ghost): the last cell of a chunk returned
   by the padding branch of request is a Pad, every other cell an Orig -------- *)
Fixpoint tag_pad (l : list cell) : list acell :=
  match l with
  | [] => []
  | [x] => [(x, Pad)]
  | x :: r => (x, Orig) :: tag_pad r
  end.
Definition tag_orig (l : list cell) : list acell := map (fun x => (x, Orig)) l.
Definition achunk_cells (cp : chunk * bool) : list acell :=
  if snd cp then tag_pad (chunk_cells (fst cp)) else tag_orig (chunk_cells (fst cp)).
Definition aline_cells (l : aline) : list acell := flat_map achunk_cells l.
