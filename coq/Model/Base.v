(* Shared foundation of the curtsies models: characters, attribute dictionaries,
   chunks (runs), FmtStr values, Python exceptions as explicit outcomes and the
   per-character observation [cells].  Executable definitions only, no proofs. *)
From Coq Require Export List NArith ZArith Bool.
Export ListNotations.
Open Scope N_scope.

Definition char := N.              (* Unicode code point; ESC = 27, 8-bit CSI = 155 *)
Definition str := list char.

Inductive color := Black | Red | Green | Yellow | Blue | Magenta | Cyan | Gray.
Inductive style := Bold | Dark | Italic | Underline | Blink | Invert.

Definition all_colors := [Black; Red; Green; Yellow; Blue; Magenta; Cyan; Gray].
Definition all_styles := [Bold; Dark; Italic; Underline; Blink; Invert].

Definition color_eqb (a b : color) : bool :=
  match a, b with
  | Black, Black | Red, Red | Green, Green | Yellow, Yellow
  | Blue, Blue | Magenta, Magenta | Cyan, Cyan | Gray, Gray => true
  | _, _ => false
  end.

Definition style_eqb (a b : style) : bool :=
  match a, b with
  | Bold, Bold | Dark, Dark | Italic, Italic | Underline, Underline
  | Blink, Blink | Invert, Invert => true
  | _, _ => false
  end.

Definition opt_eqb {A} (eqb : A -> A -> bool) (a b : option A) : bool :=
  match a, b with
  | None, None => true
  | Some x, Some y => eqb x y
  | _, _ => false
  end.

(* A Python attribute dictionary in canonical form.  [None] = key absent.
   fg/bg hold one of the eight colours (parse_args admits nothing else);
   a style key holds True or False. *)
Record atts := mkAtts {
  a_fg : option color; a_bg : option color;
  a_bold : option bool; a_dark : option bool; a_italic : option bool;
  a_underline : option bool; a_blink : option bool; a_invert : option bool }.

Definition no_atts : atts := mkAtts None None None None None None None None.

Definition get_style (k : style) (a : atts) : option bool :=
  match k with
  | Bold => a_bold a | Dark => a_dark a | Italic => a_italic a
  | Underline => a_underline a | Blink => a_blink a | Invert => a_invert a
  end.

Definition set_style (k : style) (v : option bool) (a : atts) : atts :=
  match k with
  | Bold => mkAtts (a_fg a) (a_bg a) v (a_dark a) (a_italic a) (a_underline a) (a_blink a) (a_invert a)
  | Dark => mkAtts (a_fg a) (a_bg a) (a_bold a) v (a_italic a) (a_underline a) (a_blink a) (a_invert a)
  | Italic => mkAtts (a_fg a) (a_bg a) (a_bold a) (a_dark a) v (a_underline a) (a_blink a) (a_invert a)
  | Underline => mkAtts (a_fg a) (a_bg a) (a_bold a) (a_dark a) (a_italic a) v (a_blink a) (a_invert a)
  | Blink => mkAtts (a_fg a) (a_bg a) (a_bold a) (a_dark a) (a_italic a) (a_underline a) v (a_invert a)
  | Invert => mkAtts (a_fg a) (a_bg a) (a_bold a) (a_dark a) (a_italic a) (a_underline a) (a_blink a) v
  end.

Definition set_fg (v : option color) (a : atts) : atts :=
  mkAtts v (a_bg a) (a_bold a) (a_dark a) (a_italic a) (a_underline a) (a_blink a) (a_invert a).
Definition set_bg (v : option color) (a : atts) : atts :=
  mkAtts (a_fg a) v (a_bold a) (a_dark a) (a_italic a) (a_underline a) (a_blink a) (a_invert a).

Definition atts_eqb (a b : atts) : bool :=
  opt_eqb color_eqb (a_fg a) (a_fg b) && opt_eqb color_eqb (a_bg a) (a_bg b) &&
  opt_eqb Bool.eqb (a_bold a) (a_bold b) && opt_eqb Bool.eqb (a_dark a) (a_dark b) &&
  opt_eqb Bool.eqb (a_italic a) (a_italic b) && opt_eqb Bool.eqb (a_underline a) (a_underline b) &&
  opt_eqb Bool.eqb (a_blink a) (a_blink b) && opt_eqb Bool.eqb (a_invert a) (a_invert b).

(* What a terminal displays: the graphic state.  False and absent both mean off. *)
Record sgr := mkSgr {
  s_fg : option color; s_bg : option color;
  s_bold : bool; s_dark : bool; s_italic : bool;
  s_underline : bool; s_blink : bool; s_invert : bool }.

Definition sgr_default : sgr := mkSgr None None false false false false false false.

Definition on (v : option bool) : bool := match v with Some true => true | _ => false end.

Definition eff (a : atts) : sgr :=
  mkSgr (a_fg a) (a_bg a) (on (a_bold a)) (on (a_dark a)) (on (a_italic a))
        (on (a_underline a)) (on (a_blink a)) (on (a_invert a)).

Definition sgr_eqb (a b : sgr) : bool :=
  opt_eqb color_eqb (s_fg a) (s_fg b) && opt_eqb color_eqb (s_bg a) (s_bg b) &&
  Bool.eqb (s_bold a) (s_bold b) && Bool.eqb (s_dark a) (s_dark b) &&
  Bool.eqb (s_italic a) (s_italic b) && Bool.eqb (s_underline a) (s_underline b) &&
  Bool.eqb (s_blink a) (s_blink b) && Bool.eqb (s_invert a) (s_invert b).

(* A run of text with one attribute dictionary; a FmtStr is a list of runs. *)
Record chunk := mkChunk { c_s : str; c_a : atts }.
Definition fmtstr := list chunk.

Definition cell := (char * sgr)%type.

Definition chunk_cells (c : chunk) : list cell := map (fun x => (x, eff (c_a c))) (c_s c).
Definition cells (f : fmtstr) : list cell := flat_map chunk_cells f.
Definition text (f : fmtstr) : str := flat_map c_s f.
Definition flen (f : fmtstr) : nat := length (text f).

Definition plain_cells (s : str) : list cell := map (fun x => (x, sgr_default)) s.

Definition cell_eqb (a b : cell) : bool := N.eqb (fst a) (fst b) && sgr_eqb (snd a) (snd b).

Fixpoint list_eqb {A} (eqb : A -> A -> bool) (a b : list A) : bool :=
  match a, b with
  | [], [] => true
  | x :: a', y :: b' => eqb x y && list_eqb eqb a' b'
  | _, _ => false
  end.

Definition str_eqb : str -> str -> bool := list_eqb N.eqb.
Definition cells_eqb : list cell -> list cell -> bool := list_eqb cell_eqb.
Definition chunk_eqb (a b : chunk) : bool := str_eqb (c_s a) (c_s b) && atts_eqb (c_a a) (c_a b).
Definition fmtstr_eqb : fmtstr -> fmtstr -> bool := list_eqb chunk_eqb.

(* Python exceptions as explicit outcomes. *)
Inductive exn := IndexError | ValueError | TypeError | KeyError | AssertionError
               | NotImplementedError | UnicodeDecodeError | OtherError.

Definition exn_eqb (a b : exn) : bool :=
  match a, b with
  | IndexError, IndexError | ValueError, ValueError | TypeError, TypeError
  | KeyError, KeyError | AssertionError, AssertionError
  | NotImplementedError, NotImplementedError
  | UnicodeDecodeError, UnicodeDecodeError | OtherError, OtherError => true
  | _, _ => false
  end.

Inductive res (A : Type) := Ok (a : A) | Raise (e : exn).
Arguments Ok {A} a.
Arguments Raise {A} e.

Definition res_eqb {A} (eqb : A -> A -> bool) (a b : res A) : bool :=
  match a, b with
  | Ok x, Ok y => eqb x y
  | Raise e, Raise e' => exn_eqb e e'
  | _, _ => false
  end.

Definition bind {A B} (r : res A) (k : A -> res B) : res B :=
  match r with Ok a => k a | Raise e => Raise e end.

(* Text free of escape-sequence introducers (ESC and the 8-bit CSI). *)
Definition clean_char (c : char) : bool := negb (N.eqb c 27) && negb (N.eqb c 155).
Definition clean_str (s : str) : bool := forallb clean_char s.
Definition clean (f : fmtstr) : bool := forallb (fun c => clean_str (c_s c)) f.

(* --- compact literals used by the harness-written case files ------------- *)
Definition color_of_N (n : N) : option color :=
  match n with
  | 1 => Some Black | 2 => Some Red | 3 => Some Green | 4 => Some Yellow
  | 5 => Some Blue | 6 => Some Magenta | 7 => Some Cyan | 8 => Some Gray
  | _ => None
  end.
Definition tri_of_N (n : N) : option bool :=
  match n with 1 => Some true | 2 => Some false | _ => None end.

(* A fg bg bold dark italic underline blink invert; 0 = key absent,
   colours 1..8 in table order, styles 1 = True, 2 = False *)
Definition A (fg bg b d i u bl inv : N) : atts :=
  mkAtts (color_of_N fg) (color_of_N bg) (tri_of_N b) (tri_of_N d) (tri_of_N i)
         (tri_of_N u) (tri_of_N bl) (tri_of_N inv).
Definition C (s : str) (a : atts) : chunk := mkChunk s a.
(* Sg fg bg bold dark italic underline blink invert; colours as in A, styles 0 off / 1 on *)
Definition Sg (fg bg b d i u bl inv : N) : sgr :=
  mkSgr (color_of_N fg) (color_of_N bg) (N.eqb b 1) (N.eqb d 1) (N.eqb i 1)
        (N.eqb u 1) (N.eqb bl 1) (N.eqb inv 1).

(* indices (as N) of the elements of [l] on which [p] is false *)
Fixpoint failing_from {X} (p : X -> bool) (i : N) (l : list X) : list N :=
  match l with
  | [] => []
  | x :: r => if p x then failing_from p (N.succ i) r else i :: failing_from p (N.succ i) r
  end.
Definition failing {X} (p : X -> bool) (l : list X) : list N := failing_from p 0 l.
