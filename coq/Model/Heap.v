(* HEAP model of curtsies/formatstring.py for property C13 (immutability and
   memoisation).  A purely functional model makes C13 vacuous, so here FmtStr
   values are OBJECTS in a heap:

     chunk object   k_c   (the run: _s and _atts; _atts is a FrozenAttributes
                           built by Chunk.__init__, a value of its own)
                    k_str (Chunk.color_str, a functools.cached_property:
                           None = not yet in the instance __dict__)
     list object    a Python list of chunk references (FmtStr.chunks, and the
                    local lists `chunks`, `before`, `new_components` of join /
                    splice, which are heap lists here because the code aliases
                    and mutates them)
     FmtStr object  f_list (REFERENCE to its chunks list) and the four memo slots
                    _unicode / _len / _s / _width (None = not filled)

   Every operation is a heap transformer (state monad with exceptions) that
   mirrors the allocation and aliasing behaviour of the code: FmtStr.__init__
   copies its components into a NEW list (`list(components)`); slicing, copy,
   `+`, join and splice put the operand's chunk OBJECTS into the new list (shared
   runs), new Chunk objects are made only where the code calls Chunk(...);
   `before = self.chunks` in join aliases the separator's list; splice with an
   empty new_str and ljust/rjust without padding return `self`; len(self),
   self.s, self.width, str(self) fill the memo slot of the object they are called
   on, also when they are called from inside another operation (`__getitem__`
   calls len(self), append calls self.s, ...).

   Heap references that do not exist cannot occur in Python; the primitives
   answer such a reference with Raise OtherError and leave the heap alone (this
   keeps well-formedness a local matter).  Executable definitions only, no
   proofs (Proofs/Heap.v).

   Outside the repository's logic and therefore DATA of an operation: the result
   of a delegated str method (upper, strip, center, replace, ...), the match
   positions of the regex in split; cwcwidth.wcwidth is the Section variable [wc]. *)
From Curtsies Require Import Model.Base Gen.Tables Model.Render.
Local Open Scope nat_scope.

Record chunkobj := mkCk { k_c : chunk; k_str : option str }.
Record fsobj := mkFs { f_list : nat; f_unicode : option str; f_len : option nat;
                       f_s : option str; f_width : option Z }.
Record heap := mkHeap { h_ck : list chunkobj; h_ls : list (list nat); h_fs : list fsobj }.
Definition empty_heap : heap := mkHeap [] [] [].

(* ---- state monad with exceptions (the heap survives a raise: memo slots filled
        before the raise stay filled) ------------------------------------------ *)
Definition M (A : Type) := heap -> res A * heap.
Definition ret {A} (x : A) : M A := fun h => (Ok x, h).
Definition raise {A} (e : exn) : M A := fun h => (Raise e, h).
Definition mbind {A B} (m : M A) (k : A -> M B) : M B :=
  fun h => match m h with
           | (Ok x, h1) => k x h1
           | (Raise e, h1) => (Raise e, h1)
           end.
Notation "x <- m ;; k" := (mbind m (fun x => k)) (at level 61, m at next level, right associativity).
Notation "m ;;; k" := (mbind m (fun _ => k)) (at level 61, right associativity).

Fixpoint mapM {A B} (f : A -> M B) (l : list A) : M (list B) :=
  match l with
  | [] => ret []
  | x :: r => y <- f x ;; ys <- mapM f r ;; ret (y :: ys)
  end.
Fixpoint foldM {A S} (f : S -> A -> M S) (l : list A) (s : S) : M S :=
  match l with
  | [] => ret s
  | x :: r => s' <- f s x ;; foldM f r s'
  end.
Definition lift {A} (r : res A) : M A := fun h => (r, h).

Fixpoint upd {A} (n : nat) (f : A -> A) (l : list A) : list A :=
  match l, n with
  | [], _ => []
  | x :: r, O => f x :: r
  | x :: r, S n' => x :: upd n' f r
  end.

Definition valid_cks (h : heap) (xs : list nat) : bool := forallb (fun c => c <? length (h_ck h)) xs.

(* ---- primitives --------------------------------------------------------------- *)
(* Chunk(s, atts): a new chunk object, color_str not yet computed *)
Definition new_chunk (s : str) (a : atts) : M nat :=
  fun h => (Ok (length (h_ck h)),
            mkHeap (h_ck h ++ [mkCk (mkChunk s a) None]) (h_ls h) (h_fs h)).
(* a new Python list holding the given chunk references: [], list(xs), a + b, [x for ..] *)
Definition new_list (xs : list nat) : M nat :=
  fun h => if valid_cks h xs
           then (Ok (length (h_ls h)), mkHeap (h_ck h) (h_ls h ++ [xs]) (h_fs h))
           else (Raise OtherError, h).
(* reading a list object *)
Definition list_get (l : nat) : M (list nat) :=
  fun h => match nth_error (h_ls h) l with Some xs => (Ok xs, h) | None => (Raise OtherError, h) end.
(* l.extend(xs) / l.append(x): IN PLACE *)
Definition list_extend (l : nat) (xs : list nat) : M unit :=
  fun h => if valid_cks h xs && (l <? length (h_ls h))
           then (Ok tt, mkHeap (h_ck h) (upd l (fun old => old ++ xs) (h_ls h)) (h_fs h))
           else (Raise OtherError, h).
(* del l[:]: IN PLACE *)
Definition list_clear (l : nat) : M unit :=
  fun h => if l <? length (h_ls h)
           then (Ok tt, mkHeap (h_ck h) (upd l (fun _ => []) (h_ls h)) (h_fs h))
           else (Raise OtherError, h).

(* FmtStr( *components ):  self.chunks = list(components)  -- a NEW list -- and the
   four memo slots set to None *)
Definition new_fs (components : list nat) : M nat :=
  l <- new_list components ;;
  fun h => (Ok (length (h_fs h)),
            mkHeap (h_ck h) (h_ls h) (h_fs h ++ [mkFs l None None None None])).

Definition fs_obj (o : nat) : M fsobj :=
  fun h => match nth_error (h_fs h) o with Some f => (Ok f, h) | None => (Raise OtherError, h) end.
(* self.chunks: the REFERENCE *)
Definition fs_list (o : nat) : M nat := f <- fs_obj o ;; ret (f_list f).
Definition fs_refs (o : nat) : M (list nat) := l <- fs_list o ;; list_get l.
Definition ck_get (c : nat) : M chunk :=
  fun h => match nth_error (h_ck h) c with Some k => (Ok (k_c k), h) | None => (Raise OtherError, h) end.
(* the chunk objects of a FmtStr with their references *)
Definition fs_chunks (o : nat) : M (list (nat * chunk)) :=
  refs <- fs_refs o ;; mapM (fun c => k <- ck_get c ;; ret (c, k)) refs.

(* Chunk.color_str (cached_property) / Chunk.__str__ *)
Definition ck_color_str (c : nat) : M str :=
  fun h => match nth_error (h_ck h) c with
           | None => (Raise OtherError, h)
           | Some k =>
               match k_str k with
               | Some u => (Ok u, h)
               | None => let u := render_chunk (k_c k) in
                         (Ok u, mkHeap (upd c (fun k => mkCk (k_c k) (Some u)) (h_ck h)) (h_ls h) (h_fs h))
               end
           end.

Definition set_fs (o : nat) (g : fsobj -> fsobj) : M unit :=
  fun h => (Ok tt, mkHeap (h_ck h) (h_ls h) (upd o g (h_fs h))).

(* FmtStr.__str__:
     if self._unicode is not None: return self._unicode
     self._unicode = "".join(str(fs) for fs in self.chunks); return self._unicode *)
Definition fs_str (o : nat) : M str :=
  f <- fs_obj o ;;
  match f_unicode f with
  | Some u => ret u
  | None =>
      refs <- fs_refs o ;;
      parts <- mapM ck_color_str refs ;;
      let u := concat parts in
      set_fs o (fun f => mkFs (f_list f) (Some u) (f_len f) (f_s f) (f_width f)) ;;;
      ret u
  end.

(* FmtStr.__len__:  value = sum(len(fs) for fs in self.chunks); self._len = value *)
Definition fs_len (o : nat) : M nat :=
  f <- fs_obj o ;;
  match f_len f with
  | Some n => ret n
  | None =>
      cs <- fs_chunks o ;;
      let n := fold_left (fun acc ck => acc + length (c_s (snd ck))) cs 0 in
      set_fs o (fun f => mkFs (f_list f) (f_unicode f) (Some n) (f_s f) (f_width f)) ;;;
      ret n
  end.

(* FmtStr.s:  self._s = "".join(fs.s for fs in self.chunks) *)
Definition fs_s (o : nat) : M str :=
  f <- fs_obj o ;;
  match f_s f with
  | Some s => ret s
  | None =>
      cs <- fs_chunks o ;;
      let s := concat (map (fun ck => c_s (snd ck)) cs) in
      set_fs o (fun f => mkFs (f_list f) (f_unicode f) (f_len f) (Some s) (f_width f)) ;;;
      ret s
  end.

(* Python slice semantics on a str for 0 <= a, 0 <= b:  s[a:b], s[a:] *)
Definition sub (s : str) (a b : nat) : str := skipn a (firstn b s).

Inductive index := IxInt (i : Z) | IxSlice (a b : option Z).

(* normalize_slice(length, index) for ints and slices without step; returns (start, stop) *)
Definition norm_slice (length : Z) (ix : index) : res (Z * Z) :=
  match ix with
  | IxInt i =>
      if ((i <? - length) || (i >=? length))%Z then Raise IndexError
      else let i := if (i <? 0)%Z then (i + length)%Z else i in Ok (i, (i + 1)%Z)
  | IxSlice a b =>
      let start := match a with None => 0%Z | Some a => a end in
      let stop := match b with None => length | Some b => b end in
      let start := if (start <? 0)%Z then Z.max 0 (length + start) else start in
      let stop := if (stop <? 0)%Z then Z.max 0 (length + stop) else stop in
      Ok (start, stop)
  end.

(* an element of the component list of a result: an existing chunk OBJECT or Chunk(s, atts) *)
Inductive elem := Old (c : nat) | New (s : str) (a : atts).
Definition alloc_elems (es : list elem) : M (list nat) :=
  mapM (fun e => match e with Old c => ret c | New s a => new_chunk s a end) es.
Definition build (es : list elem) : M nat := cs <- alloc_elems es ;; new_fs cs.

(* ---- attribute dictionaries (FrozenAttributes.extend / remove build new dicts) ---- *)
Definition oor {A} (d a : option A) : option A := match d with Some _ => d | None => a end.
(* a.extend(d): keys of d override *)
Definition atts_extend (a d : atts) : atts :=
  mkAtts (oor (a_fg d) (a_fg a)) (oor (a_bg d) (a_bg a)) (oor (a_bold d) (a_bold a)) (oor (a_dark d) (a_dark a))
         (oor (a_italic d) (a_italic a)) (oor (a_underline d) (a_underline a)) (oor (a_blink d) (a_blink a))
         (oor (a_invert d) (a_invert a)).
Definition odrop {A B} (m : option B) (a : option A) : option A := match m with Some _ => None | None => a end.
(* a.remove( *keys ): [m] has Some at the keys to drop *)
Definition atts_remove (a m : atts) : atts :=
  mkAtts (odrop (a_fg m) (a_fg a)) (odrop (a_bg m) (a_bg a)) (odrop (a_bold m) (a_bold a)) (odrop (a_dark m) (a_dark a))
         (odrop (a_italic m) (a_italic a)) (odrop (a_underline m) (a_underline a)) (odrop (a_blink m) (a_blink a))
         (odrop (a_invert m) (a_invert a)).

(* FmtStr.shared_atts:
     nonempty = [fs for fs in self.chunks if len(fs) > 0]
     first = nonempty[0] if nonempty else self.chunks[0]         (IndexError without runs)
     for att in sorted(first.atts):
         if all(fs.atts.get(att, '???') == first.atts[att] for fs in self.chunks if len(fs) > 0): keep *)
Definition shared_field {A} (eqb : A -> A -> bool) (get : atts -> option A) (first : chunk) (cs : list chunk)
  : option A :=
  match get (c_a first) with
  | None => None
  | Some v =>
      if forallb (fun k => match c_s k with [] => true | _ => opt_eqb eqb (get (c_a k)) (Some v) end) cs
      then Some v else None
  end.
Definition nonempty_chunk (k : chunk) : bool := match c_s k with [] => false | _ => true end.
Definition shared_of (cs : list chunk) : res atts :=
  match (match filter nonempty_chunk cs with f :: _ => Some f | [] => hd_error cs end) with
  | None => Raise IndexError
  | Some first =>
      Ok (mkAtts (shared_field color_eqb a_fg first cs) (shared_field color_eqb a_bg first cs)
                 (shared_field Bool.eqb a_bold first cs) (shared_field Bool.eqb a_dark first cs)
                 (shared_field Bool.eqb a_italic first cs) (shared_field Bool.eqb a_underline first cs)
                 (shared_field Bool.eqb a_blink first cs) (shared_field Bool.eqb a_invert first cs))
  end.
Definition shared_atts (o : nat) : M atts := cs <- fs_chunks o ;; lift (shared_of (map snd cs)).

(* ---- the operations ------------------------------------------------------------------ *)
(* FmtStr.copy_with_new_atts( **d ):  FmtStr( *(Chunk(bfs.s, bfs.atts.extend(d)) for bfs in self.chunks)) *)
Definition copy_with_new_atts (o : nat) (d : atts) : M nat :=
  cs <- fs_chunks o ;; build (map (fun ck => New (c_s (snd ck)) (atts_extend (c_a (snd ck)) d)) cs).

(* fmtstr(string, **d) for a str without escape sequences:
     FmtStr.from_str(s) = FmtStr(Chunk(s)), then .copy_with_new_atts( **atts ) *)
Definition fmtstr_plain (s : str) (d : atts) : M nat :=
  f0 <- build [New s no_atts] ;; copy_with_new_atts f0 d.

Definition new_with_atts_removed (o : nat) (m : atts) : M nat :=
  cs <- fs_chunks o ;; build (map (fun ck => New (c_s (snd ck)) (atts_remove (c_a (snd ck)) m)) cs).

(* copy_with_new_str: old_atts = {att: value for bfs in self.chunks for (att, value) in bfs.atts.items()} *)
Definition copy_with_new_str (o : nat) (s : str) : M nat :=
  cs <- fs_chunks o ;;
  build [New s (fold_left (fun acc ck => atts_extend acc (c_a (snd ck))) cs no_atts)].

(* __add__ with a FmtStr: FmtStr( *(self.chunks + other.chunks)) *)
Definition add (a b : nat) : M nat := ra <- fs_refs a ;; rb <- fs_refs b ;; new_fs (ra ++ rb).
(* __add__ with a str: FmtStr( *(self.chunks + [Chunk(other)])) *)
Definition add_str (a : nat) (s : str) : M nat :=
  ra <- fs_refs a ;; c <- new_chunk s no_atts ;; new_fs (ra ++ [c]).
(* __radd__ with a str *)
Definition radd_str (s : str) (a : nat) : M nat :=
  c <- new_chunk s no_atts ;; ra <- fs_refs a ;; new_fs ([c] ++ ra).
(* __mul__: sum((self for _ in range(n)), FmtStr()) *)
Definition mul (a : nat) (n : nat) : M nat :=
  z <- new_fs [] ;; foldM (fun acc (_ : unit) => add acc a) (repeat tt n) z.
(* copy: FmtStr( *self.chunks ) *)
Definition copy (a : nat) : M nat := ra <- fs_refs a ;; new_fs ra.

(* the loop of __getitem__: whole runs are shared, cut runs are new Chunks *)
Fixpoint getitem_walk (cs : list (nat * chunk)) (start stop counter : Z) : list elem :=
  match cs with
  | [] => []
  | (r, ch) :: rest =>
      let len := Z.of_nat (length (c_s ch)) in
      let part :=
        if ((start <? counter + len) && (stop >? counter))%Z then
          let s := Z.max 0 (start - counter) in
          let e := Z.min (stop - counter) len in
          if (e - s =? len)%Z then [Old r]
          else [New (sub (c_s ch) (Z.to_nat (Z.max 0 (start - counter))) (Z.to_nat (stop - counter))) (c_a ch)]
        else [] in
      let counter := (counter + len)%Z in
      if (stop <? counter)%Z then part else part ++ getitem_walk rest start stop counter
  end.

(* __getitem__: index = normalize_slice(len(self), index) ... FmtStr( *parts ) if parts else fmtstr("") *)
Definition getitem (o : nat) (ix : index) : M nat :=
  n <- fs_len o ;;
  se <- lift (norm_slice (Z.of_nat n) ix) ;;
  cs <- fs_chunks o ;;
  match getitem_walk cs (fst se) (snd se) 0 with
  | [] => fmtstr_plain [] no_atts
  | parts => build parts
  end.

(* one iteration of the loop of splice; [nc] is the local list new_components,
   [nf] the FmtStr being inserted; returns the new value of `inserted` *)
Definition splice_step (nc nf : nat) (start end_ : nat) (inserted : bool)
           (it : nat * chunk * nat * nat) : M bool :=
  let '(r, ch, bfs_start, bfs_end) := it in
  if (end_ =? bfs_start) && (bfs_start =? 0) && negb inserted then
    xs <- fs_refs nf ;; list_extend nc xs ;;; list_extend nc [r] ;;; ret true
  else if (bfs_start <=? start) && (start <? bfs_end) && negb inserted then
    head <- new_chunk (sub (c_s ch) 0 (start - bfs_start)) (c_a ch) ;;
    _tail <- new_chunk (skipn (end_ - bfs_start) (c_s ch)) (c_a ch) ;;
    xs <- fs_refs nf ;;
    list_extend nc ([head] ++ xs) ;;;                              (* extend([head] + new_fs.chunks) *)
    (if end_ <? bfs_end then
       tail <- new_chunk (skipn (end_ - bfs_start) (c_s ch)) (c_a ch) ;; list_extend nc [tail]
     else ret tt) ;;;
    ret true
  else if (bfs_start <? end_) && (end_ <? bfs_end) then
    tail <- new_chunk (skipn (end_ - bfs_start) (c_s ch)) (c_a ch) ;; list_extend nc [tail] ;;; ret inserted
  else if (end_ <=? bfs_start) || (bfs_end <=? start) then
    list_extend nc [r] ;;; ret inserted
  else ret inserted.

(* zip(self.chunks, self.divides[:-1], self.divides[1:]) *)
Fixpoint with_divides (cs : list (nat * chunk)) (pos : nat) : list (nat * chunk * nat * nat) :=
  match cs with
  | [] => []
  | (r, ch) :: rest => (r, ch, pos, pos + length (c_s ch)) :: with_divides rest (pos + length (c_s ch))
  end.

(* new_str argument: a FmtStr object or a plain str *)
Inductive sarg := AFs (o : nat) | AStr (s : str).

(* FmtStr.splice(new_str, start, end=None), for 0 <= start <= end *)
Definition splice (o : nat) (new : sarg) (start : nat) (end_ : option nat) : M nat :=
  let end_ := match end_ with None => start | Some e => e end in
  ln <- match new with AFs n => fs_len n | AStr s => ret (length s) end ;;
  if (ln =? 0) && (end_ <=? start) then ret o                       (* return self *)
  else
    nf <- match new with AFs n => ret n | AStr s => fmtstr_plain s no_atts end ;;
    nc <- new_list [] ;;                                            (* new_components = [] *)
    cs <- fs_chunks o ;;
    inserted <- foldM (splice_step nc nf start end_) (with_divides cs 0) false ;;
    (if inserted then ret tt else xs <- fs_refs nf ;; list_extend nc xs) ;;;
    comps <- list_get nc ;;
    kept <- mapM (fun c => k <- ck_get c ;; ret (c, k)) comps ;;
    (* FmtStr( *(s for s in new_components if s.s)) *)
    new_fs (map fst (filter (fun ck => match c_s (snd ck) with [] => false | _ => true end) kept)).

(* append: self.splice(string, len(self.s)) *)
Definition append (o : nat) (new : sarg) : M nat :=
  s <- fs_s o ;; splice o new (length s) None.

(* join: `before` is first a fresh empty list, then an ALIAS of self.chunks *)
Definition join (sep : nat) (items : list sarg) : M nat :=
  before0 <- new_list [] ;;
  chunks <- new_list [] ;;
  _b <- foldM (fun before it =>
           xs <- list_get before ;; list_extend chunks xs ;;;     (* chunks.extend(before) *)
           before' <- fs_list sep ;;                               (* before = self.chunks *)
           (match it with
            | AFs o => ys <- fs_refs o ;; list_extend chunks ys
            | AStr s => f <- fmtstr_plain s no_atts ;; ys <- fs_refs f ;; list_extend chunks ys
            end) ;;;
           ret before') items before0 ;;
  cs <- list_get chunks ;;
  new_fs cs.

(* split: s = self.s; matches from the regex engine (DATA: [bounds] are the
   (start, end) pairs the list comprehension iterates over); each piece is self[start:end] *)
Definition split (o : nat) (bounds : list (nat * nat)) : M (list nat) :=
  _s <- fs_s o ;;
  mapM (fun se => getitem o (IxSlice (Some (Z.of_nat (fst se))) (Some (Z.of_nat (snd se))))) bounds.

(* the (start, end) pairs of split("\n") *)
Fixpoint nl_bounds (s : str) (start pos : nat) : list (nat * nat) :=
  match s with
  | [] => [(start, pos)]
  | c :: r => if N.eqb c 10 then (start, pos) :: nl_bounds r (S pos) (S pos) else nl_bounds r start (S pos)
  end.

Fixpoint accumulate (l : list nat) (acc : nat) : list nat :=
  match l with [] => [] | x :: r => (acc + x) :: accumulate r (acc + x) end.

(* splitlines(keepends) *)
Definition splitlines (o : nat) (keepends : bool) : M (list nat) :=
  s <- fs_s o ;;
  lines <- split o (nl_bounds s 0 0) ;;
  lines <- (if keepends then
              lens <- mapM fs_len lines ;;                           (* len(line) + 1 for line in lines *)
              let ends := accumulate (map S lens) 0 in
              let ends := removelast ends ++ [last ends 0 - 1] in   (* ends[-1] -= 1 *)
              mapM (fun se => getitem o (IxSlice (Some (Z.of_nat (fst se))) (Some (Z.of_nat (snd se)))))
                   (combine (0 :: ends) ends)
            else ret lines) ;;
  (* return lines if lines[-1] else lines[:-1]   -- bool(FmtStr) is len(...) != 0 *)
  n <- fs_len (last lines 0) ;;
  ret (if n =? 0 then removelast lines else lines).

Definition has_bg (a : atts) : bool := match a_bg a with Some _ => true | None => false end.
Definition only_bg (a : atts) : atts := mkAtts None (a_bg a) None None None None None None.
Definition bg_mask : atts := mkAtts None (Some Black) None None None None None None.

(* ljust / rjust *)
Definition just (lf : bool) (o : nat) (width : nat) (fill : option char) : M nat :=
  match fill with
  | Some fc =>
      s <- fs_s o ;;
      let pad := repeat fc (width - length s) in
      sh <- shared_atts o ;;
      fmtstr_plain (if lf then s ++ pad else pad ++ s) sh
  | None =>
      s <- fs_s o ;;
      let to_add := repeat 32%N (width - length s) in
      shared <- shared_atts o ;;
      if has_bg shared then
        match to_add with
        | [] => ret o                                                      (* return self *)
        | _ => f <- fmtstr_plain to_add (only_bg shared) ;; if lf then add o f else add f o
        end
      else
        uniform <- new_with_atts_removed o bg_mask ;;                   (* new_with_atts_removed("bg") *)
        match to_add with
        | [] => ret uniform
        | _ => sh2 <- shared_atts o ;; f <- fmtstr_plain to_add sh2 ;;
               if lf then add uniform f else add f uniform
        end
  end.

(* a delegated str method that returns a str ([result], DATA):
   __getattr__: hasattr(self.s, att); func_help: fmtstr(result, **self.shared_atts) *)
Definition strmeth (o : nat) (result : str) : M nat :=
  _s <- fs_s o ;; sh <- shared_atts o ;; fmtstr_plain result sh.

Section Width.
Variable wc : char -> Z.

(* cwcwidth.wcswidth(s) *)
Fixpoint wcswidth (s : str) : Z :=
  match s with
  | [] => 0%Z
  | c :: r => if (wc c <? 0)%Z then (-1)%Z
              else let t := wcswidth r in if (t <? 0)%Z then (-1)%Z else (wc c + t)%Z
  end.
(* Chunk.width *)
Definition chunk_width (c : chunk) : res Z :=
  let width := wcswidth (c_s c) in
  match c_s c with
  | [] => Ok width
  | _ => if (width <? 0)%Z then Raise ValueError else Ok width
  end.
(* sum(fs.width for fs in self.chunks): left to right, the first raise ends it *)
Fixpoint sum_widths (cs : list chunk) (acc : Z) : res Z :=
  match cs with
  | [] => Ok acc
  | c :: r => match chunk_width c with Ok w => sum_widths r (acc + w)%Z | Raise e => Raise e end
  end.

(* FmtStr.width (memoised only when it does not raise) *)
Definition fs_width (o : nat) : M Z :=
  f <- fs_obj o ;;
  match f_width f with
  | Some w => ret w
  | None =>
      cs <- fs_chunks o ;;
      w <- lift (sum_widths (map snd cs) 0%Z) ;;
      set_fs o (fun f => mkFs (f_list f) (f_unicode f) (f_len f) (f_s f) (Some w)) ;;;
      ret w
  end.

(* the module-level helper width_aware_slice(s, start, end) *)
Definition interval_overlap (a b x y : Z) : Z := Z.max 0 (Z.min b y - Z.max a x).
Fixpoint was_chars (s : str) (pos start end_ : Z) : str :=
  match s with
  | [] => []
  | c :: r =>
      let char_start := pos in
      let char_end := (pos + wc c)%Z in
      (if ((char_start =? start) && (char_end =? start))%Z then []
       else if ((char_start >=? start) && (char_end <=? end_))%Z then [c]
       else repeat 32%N (Z.to_nat (interval_overlap char_start char_end start end_)))
      ++ was_chars r char_end start end_
  end.

(* the loop of FmtStr.width_aware_slice:
     if index.start < counter + chunk.width and index.stop >= counter:
         s_part = width_aware_slice(chunk.s, index.start - counter, index.stop - counter)
         if s_part == chunk.s: parts.append(chunk)          (the SAME Chunk object)
         elif s_part: parts.append(Chunk(s_part, chunk.atts))  (a new one; nothing when s_part is empty) *)
Fixpoint was_walk (cs : list (nat * chunk)) (start stop counter : Z) : res (list elem) :=
  match cs with
  | [] => Ok []
  | (r, ch) :: rest =>
      match chunk_width ch with
      | Raise e => Raise e
      | Ok w =>
          let part :=
            if ((start <? counter + w) && (stop >=? counter))%Z then
              let s_part := was_chars (c_s ch) 0 (start - counter) (stop - counter) in
              if str_eqb s_part (c_s ch) then [Old r]
              else match s_part with
                   | [] => []
                   | _ => [New s_part (c_a ch)]
                   end
            else [] in
          let counter := (counter + w)%Z in
          if (stop <? counter)%Z then Ok part
          else match was_walk rest start stop counter with
               | Ok ps => Ok (part ++ ps)
               | Raise e => Raise e
               end
      end
  end.

(* FmtStr.width_aware_slice(index) *)
Definition wa_slice (o : nat) (ix : index) : M nat :=
  s <- fs_s o ;;
  if (wcswidth s =? -1)%Z then raise ValueError
  else
    w <- fs_width o ;;
    se <- lift (norm_slice w ix) ;;
    cs <- fs_chunks o ;;
    parts <- lift (was_walk cs (fst se) (snd se) 0) ;;
    match parts with
    | [] => fmtstr_plain [] no_atts
    | _ => build parts
    end.

(* ---- programs over a pool ---------------------------------------------------------- *)
Inductive slot := SUnicode | SLen | SS | SWidth.
(* a component of the result of an operation that is not modelled in detail:
   chunk number [pos] of pool object [p], or a new Chunk *)
Inductive gelem := GOld (p pos : nat) | GNew (s : str) (a : atts).

Inductive op :=
| ONew (runs : fmtstr)                         (* FmtStr( *[Chunk(s, atts) ...]) *)
| OFmtstr (s : str) (d : atts)                 (* fmtstr(s, ...) / fmtfuncs on a str *)
| OWrap (p : nat) (d : atts)                   (* copy_with_new_atts / fmtstr(fs, ...) / fmtfuncs on a FmtStr *)
| ORemove (p : nat) (m : atts)                 (* new_with_atts_removed *)
| ONewStr (p : nat) (s : str)                  (* copy_with_new_str *)
| OAdd (p q : nat) | OAddStr (p : nat) (s : str) | ORaddStr (s : str) (p : nat)
| OMul (p : nat) (n : nat)
| OCopy (p : nat)
| OGetitem (p : nat) (ix : index)
| OSplice (p : nat) (new : nat + str) (start : nat) (end_ : option nat)
| OAppend (p : nat) (new : nat + str)
| OJoin (p : nat) (items : list (nat + str))
| OSplit (p : nat) (bounds : list (nat * nat))
| OSplitlines (p : nat) (keepends : bool)
| OJust (lf : bool) (p : nat) (width : nat) (fill : option char)
| OStrMeth (p : nat) (result : str)
| OWaSlice (p : nat) (ix : index)
| OGeneric (fills : list (nat * slot)) (results : list (list gelem))
                                               (* linesplit, width_aware_splitlines: which memo slots the call
                                                  fills and how the results share runs is DATA *)
| OStr (p : nat) | OLen (p : nat) | OS (p : nat) | OWidth (p : nat) | ORepr (p : nat)
| OEq (p q : nat)                              (* p == q: str(p) == str(q) *)
| OSetitem (p : nat)                           (* p[i] = v *)
| OAttsMutate (p : nat) (i : nat) (how : nat). (* a mutating dict method on p.chunks[i].atts *)

Inductive outcome :=
| RObjs (l : list nat)          (* new pool entries (heap references) *)
| RStr (s : str) | RNat (n : nat) | RZ (z : Z) | RBool (b : bool) | RUnit.

Definition pool_get (pool : list nat) (p : nat) : M nat :=
  match nth_error pool p with Some o => ret o | None => raise OtherError end.
Definition sarg_of (pool : list nat) (x : nat + str) : M sarg :=
  match x with inl p => o <- pool_get pool p ;; ret (AFs o) | inr s => ret (AStr s) end.
Definition fill (o : nat) (s : slot) : M unit :=
  match s with
  | SUnicode => fs_str o ;;; ret tt
  | SLen => fs_len o ;;; ret tt
  | SS => fs_s o ;;; ret tt
  | SWidth => fs_width o ;;; ret tt
  end.
Definition gelem_resolve (pool : list nat) (g : gelem) : M elem :=
  match g with
  | GNew s a => ret (New s a)
  | GOld p pos => o <- pool_get pool p ;; refs <- fs_refs o ;;
                  match nth_error refs pos with Some c => ret (Old c) | None => raise OtherError end
  end.
Definition one (m : M nat) : M outcome := o <- m ;; ret (RObjs [o]).

Definition exec (pool : list nat) (x : op) : M outcome :=
  match x with
  | ONew runs => one (build (map (fun c => New (c_s c) (c_a c)) runs))
  | OFmtstr s d => one (fmtstr_plain s d)
  | OWrap p d => o <- pool_get pool p ;; one (copy_with_new_atts o d)
  | ORemove p m => o <- pool_get pool p ;; one (new_with_atts_removed o m)
  | ONewStr p s => o <- pool_get pool p ;; one (copy_with_new_str o s)
  | OAdd p q => a <- pool_get pool p ;; b <- pool_get pool q ;; one (add a b)
  | OAddStr p s => a <- pool_get pool p ;; one (add_str a s)
  | ORaddStr s p => a <- pool_get pool p ;; one (radd_str s a)
  | OMul p n => a <- pool_get pool p ;; one (mul a n)
  | OCopy p => a <- pool_get pool p ;; one (copy a)
  | OGetitem p ix => a <- pool_get pool p ;; one (getitem a ix)
  | OSplice p new start end_ => a <- pool_get pool p ;; n <- sarg_of pool new ;; one (splice a n start end_)
  | OAppend p new => a <- pool_get pool p ;; n <- sarg_of pool new ;; one (append a n)
  | OJoin p items => a <- pool_get pool p ;; its <- mapM (sarg_of pool) items ;; one (join a its)
  | OSplit p bounds => a <- pool_get pool p ;; l <- split a bounds ;; ret (RObjs l)
  | OSplitlines p k => a <- pool_get pool p ;; l <- splitlines a k ;; ret (RObjs l)
  | OJust lf p w fillc => a <- pool_get pool p ;; one (just lf a w fillc)
  | OStrMeth p result => a <- pool_get pool p ;; one (strmeth a result)
  | OWaSlice p ix => a <- pool_get pool p ;; one (wa_slice a ix)
  | OGeneric fills results =>
      l <- mapM (fun r => es <- mapM (gelem_resolve pool) r ;; build es) results ;;
      (* the slots the call filled, on operands and on its own results (pool indices continue) *)
      mapM (fun ps => o <- pool_get (pool ++ l) (fst ps) ;; fill o (snd ps)) fills ;;;
      ret (RObjs l)
  | OStr p => a <- pool_get pool p ;; s <- fs_str a ;; ret (RStr s)
  | OLen p => a <- pool_get pool p ;; n <- fs_len a ;; ret (RNat n)
  | OS p => a <- pool_get pool p ;; s <- fs_s a ;; ret (RStr s)
  | OWidth p => a <- pool_get pool p ;; w <- fs_width a ;; ret (RZ w)
  | ORepr p => a <- pool_get pool p ;; ret RUnit                  (* repr reads the runs, fills nothing *)
  | OEq p q => a <- pool_get pool p ;; b <- pool_get pool q ;;
               x <- fs_str a ;; y <- fs_str b ;; ret (RBool (str_eqb x y))
  | OSetitem p => raise OtherError                                 (* FmtStr.__setitem__: raise Exception("No!") *)
  | OAttsMutate p i how => raise OtherError                        (* FrozenAttributes.<mutator>: raise Exception *)
  end.

Definition pool_after (pool : list nat) (r : res outcome) : list nat :=
  match r with Ok (RObjs l) => pool ++ l | _ => pool end.

(* a program is a list of operations; exceptions are outcomes, the program goes on *)
Fixpoint run (prog : list op) (pool : list nat) (h : heap) : list nat * heap :=
  match prog with
  | [] => (pool, h)
  | x :: rest => let '(r, h1) := exec pool x h in run rest (pool_after pool r) h1
  end.

End Width.
