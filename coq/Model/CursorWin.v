(* Model of CursorAwareWindow (curtsies/window.py): __enter__, render_to_terminal
   and __exit__ statement by statement, as functions from the window's state and
   the call's arguments to the list of terminal commands written, the new state
   and the return value.  Executable definitions only, no proofs.

   Shared with the FullscreenWindow model (Model/Fullscreen.v): the row cache
   [cache]/[lookup], the equality test of rows [row_eqb] (FmtStr.__eq__, i.e.
   equality of the terminal strings) and the blanking loop [blank_rows], whose
   Python text is identical in both classes. *)
From Curtsies Require Import Model.Base Gen.Tables Model.Render Spec.Sgr Spec.Term Model.Fullscreen.
From Coq Require Import Arith.
Close Scope N_scope.
Local Open Scope nat_scope.

Record cwwin := mkCw {
  cw_hide : bool;                          (* hide_cursor *)
  cw_keep : bool;                          (* keep_last_line *)
  cw_cache : cache;                        (* _last_lines_by_row *)
  cw_last : option (nat * nat);            (* _last_rendered_height, _last_rendered_width *)
  cw_top : nat;                            (* top_usable_row *)
  cw_last_cursor : option (nat * nat) }.   (* _last_cursor_row, _last_cursor_column *)

(* __init__, then __enter__: Cbreak (no output), get_cursor_position writes the
   query ESC[6n and parses the report (C18's business: [row] is the 0-based row
   of the report), BaseWindow.__enter__ hides the cursor if asked to *)
Definition cw_enter (hide keep : bool) (row : nat) : list cmd * cwwin :=
  ([Dsr] ++ (if hide then [Hide] else []), mkCw hide keep [] None row None).

(* for row, line in zip(rows_for_use[:shared], array[:shared]) -- no clipping here *)
Fixpoint cw_content_rows (w : nat) (old : cache) (row : nat) (lines : list fmtstr) : list cmd * cache :=
  match lines with
  | [] => ([], [])
  | line :: rest =>
      let '(ks, cur) := cw_content_rows w old (S row) rest in
      let same := match lookup old row with Some (Some l) => row_eqb line l | _ => false end in
      let mine :=
        if same then []
        else [Cup row 0; Str (render line)] ++ (if flen line <? w then [El0] else []) in
      (mine ++ ks, (row, Some line) :: cur)
  end.

(* {k - 1: v for k, v in current_lines_by_row.items()}.  A key that would become
   negative is dropped: rows are only ever looked up at indices >= 0, and the
   dictionary is never tested for emptiness before key height-1 is set again. *)
Fixpoint rekey (c : cache) : cache :=
  match c with
  | [] => []
  | (0, _) :: rest => rekey rest
  | (S k, v) :: rest => (k, v) :: rekey rest
  end.

(* self.scroll_down(): with self.t.location(x=0, y=1000000): write(move_down).
   [far] stands for the row 1000000 (the tokeniser of the byte stream clamps it,
   the terminal clamps it to its last row anyway) *)
Definition scroll_down (far : nat) : list cmd := [Sc; Cup far 0; Lf; Rc].

(* for line in rest_of_lines: running (current_lines_by_row, top_usable_row, offscreen_scrolls) *)
Fixpoint scroll_rows (far h : nat) (lines : list fmtstr) (cur : cache) (top off : nat)
  : list cmd * cache * nat * nat :=
  match lines with
  | [] => ([], cur, top, off)
  | line :: rest =>
      let top1 := if 0 <? top then top - 1 else top in
      let off1 := if 0 <? top then off else S off in
      let cur1 := (h - 1, Some line) :: rekey cur in
      let '(ks, c, t, o) := scroll_rows far h rest cur1 top1 off1 in
      (scroll_down far ++ [Cup (h - 1) 0; Str (render line)] ++ ks, c, t, o)
  end.

Definition cw_render (far : nat) (ws : cwwin) (h w : nat) (array : list fmtstr) (cursor : nat * nat)
  : list cmd * cwwin * nat :=
  let changed := match cw_last ws with Some (lh, lw) => negb ((lh =? h) && (lw =? w)) | None => true end in
  let old := if changed then [] else cw_cache ws in          (* on_terminal_size_change *)
  let top := cw_top ws in
  let rows_for_use := seq top (h - top) in                    (* list(range(top_usable_row, height)) *)
  let shared := Nat.min (length array) (length rows_for_use) in
  let '(k1, c1) := cw_content_rows w old top (firstn shared array) in
  let '(k2, c2) := blank_rows old (skipn shared rows_for_use) in
  let '(k3, c3, top', off) := scroll_rows far h (skipn shared array) (c1 ++ c2) top 0 in
  let crow := (fst cursor + top') - off in                    (* max(0, cursor_pos[0] - offscreen_scrolls + top_usable_row) *)
  ((if cw_hide ws then [] else [Hide]) ++ k1 ++ k2 ++ k3 ++ [Cup crow (snd cursor)]
     ++ (if cw_hide ws then [] else [Show]),
   mkCw (cw_hide ws) (cw_keep ws) c3 (Some (h, w)) top' (Some (crow, snd cursor)),
   off).

(* __exit__: move_down if keep_last_line; move_x(0); clear_eos; clear_eol; Cbreak exit
   (no output); BaseWindow.__exit__ writes normal_cursor *)
Definition cw_exit (ws : cwwin) : list cmd :=
  (if cw_keep ws then [Lf] else []) ++ [Cha 0; Ed0; El0; Show].
