(* Model of curtsies/input.py: class Input -- unget_bytes, the three trigger
   factories, sigint_handler, _nonblocking_read, _wait_for_read_ready_or_timeout
   and _send, statement by statement -- together with the part of the operating
   system it talks to (kernel-side stdin queue, the signal wake-up pipe, one pipe
   per threadsafe trigger, select(), a clock).  Executable definitions only.

   The key decoder (the inner function find_key of _send, i.e. events.get_key
   driven over unprocessed_bytes) is a Section parameter: C03 models and proves
   it (Model/Keys.v); Model/InputKeys.v instantiates it with that model.

   Time is an integer (the harness patches curtsies.input.time with an
   integer-valued clock, so every expression of the code is exact).

   Ghost fields (named g_...) record what the environment injected; the code never reads
   them (no function below inspects a g_ field except to extend it). *)
From Curtsies Require Import Model.Base Gen.Tables.
Close Scope N_scope.
Local Open Scope Z_scope.

Definition key := list N.        (* a key name (str), or the bytes under Keynames.BYTES *)

(* result of find_key on a buffer *)
Inductive fk :=
| FkNone                                        (* returns None: nothing popped *)
| FkKey (k : key) (used rest : list N)          (* a key; [used] were popped, [rest] stays *)
| FkRaise (e : exn) (used rest : list N).       (* an exception; [used] were popped and are gone *)

Inductive qsrc := SrcEv | SrcInt.

Inductive outcome :=
| OKey (k : key) (used : list N)
| OPaste (ks : list (key * list N))
| OEvent (q : qsrc) (id : N)                    (* from queued_events / queued_interrupting_events *)
| OSched (w : Z) (id : N)
| OSigint (k : N)
| ONone
| ORaise (e : exn) (dropped : list N)
| OBlocked      (* select(timeout=None), nothing ready, no further environment activity *)
| OFuel.        (* loop fuel exhausted: never happens (Proofs/InputQ.v), visible if it did *)

Record st := mkSt {
  (* the Input object *)
  unproc : list N;              (* unprocessed_bytes *)
  qev : list N;                 (* queued_events (event ids) *)
  qint : list N;                (* queued_interrupting_events *)
  qsched : list (Z * N);        (* queued_scheduled_events: (when, id) *)
  sigints : list N;             (* sigints (ghost serial numbers of the SigIntEvent objects) *)
  (* the operating system *)
  wake : list N;                (* signal numbers sitting in the wake-up pipe *)
  pipes : list N;               (* bytes sitting in the pipe of each threadsafe trigger (readers order) *)
  kq : list N;                  (* kernel-side stdin queue (tty in non-canonical mode: a byte FIFO) *)
  now : Z;                      (* time.time() *)
  (* ghost *)
  g_bytes : list N;             (* the byte stream: delivered ++ unprocessed ++ kernel *)
  g_ev : list (N * N);          (* (trigger, id) of every event_trigger callback call, in call order *)
  g_int : list (nat * N);       (* (trigger, id) of every threadsafe callback call (its append) *)
  g_sched : list (Z * N);       (* every scheduled (when, id), in call order *)
  g_sig : list N                (* every SIGINT handled *)
}.

Definition init (ntrig : nat) : st :=
  mkSt [] [] [] [] [] [] (repeat 0%N ntrig) [] 0 [] [] [] [] [].

Definition set_unproc v s := mkSt v (qev s) (qint s) (qsched s) (sigints s) (wake s) (pipes s) (kq s) (now s) (g_bytes s) (g_ev s) (g_int s) (g_sched s) (g_sig s).
Definition set_qev v s := mkSt (unproc s) v (qint s) (qsched s) (sigints s) (wake s) (pipes s) (kq s) (now s) (g_bytes s) (g_ev s) (g_int s) (g_sched s) (g_sig s).
Definition set_qint v s := mkSt (unproc s) (qev s) v (qsched s) (sigints s) (wake s) (pipes s) (kq s) (now s) (g_bytes s) (g_ev s) (g_int s) (g_sched s) (g_sig s).
Definition set_qsched v s := mkSt (unproc s) (qev s) (qint s) v (sigints s) (wake s) (pipes s) (kq s) (now s) (g_bytes s) (g_ev s) (g_int s) (g_sched s) (g_sig s).
Definition set_sigints v s := mkSt (unproc s) (qev s) (qint s) (qsched s) v (wake s) (pipes s) (kq s) (now s) (g_bytes s) (g_ev s) (g_int s) (g_sched s) (g_sig s).
Definition set_wake v s := mkSt (unproc s) (qev s) (qint s) (qsched s) (sigints s) v (pipes s) (kq s) (now s) (g_bytes s) (g_ev s) (g_int s) (g_sched s) (g_sig s).
Definition set_pipes v s := mkSt (unproc s) (qev s) (qint s) (qsched s) (sigints s) (wake s) v (kq s) (now s) (g_bytes s) (g_ev s) (g_int s) (g_sched s) (g_sig s).
Definition set_kq v s := mkSt (unproc s) (qev s) (qint s) (qsched s) (sigints s) (wake s) (pipes s) v (now s) (g_bytes s) (g_ev s) (g_int s) (g_sched s) (g_sig s).
Definition set_now v s := mkSt (unproc s) (qev s) (qint s) (qsched s) (sigints s) (wake s) (pipes s) (kq s) v (g_bytes s) (g_ev s) (g_int s) (g_sched s) (g_sig s).
Definition set_g_bytes v s := mkSt (unproc s) (qev s) (qint s) (qsched s) (sigints s) (wake s) (pipes s) (kq s) (now s) v (g_ev s) (g_int s) (g_sched s) (g_sig s).
Definition set_g_ev v s := mkSt (unproc s) (qev s) (qint s) (qsched s) (sigints s) (wake s) (pipes s) (kq s) (now s) (g_bytes s) v (g_int s) (g_sched s) (g_sig s).
Definition set_g_int v s := mkSt (unproc s) (qev s) (qint s) (qsched s) (sigints s) (wake s) (pipes s) (kq s) (now s) (g_bytes s) (g_ev s) v (g_sched s) (g_sig s).
Definition set_g_sched v s := mkSt (unproc s) (qev s) (qint s) (qsched s) (sigints s) (wake s) (pipes s) (kq s) (now s) (g_bytes s) (g_ev s) (g_int s) v (g_sig s).
Definition set_g_sig v s := mkSt (unproc s) (qev s) (qint s) (qsched s) (sigints s) (wake s) (pipes s) (kq s) (now s) (g_bytes s) (g_ev s) (g_int s) (g_sched s) v.

(* ------------------------------------------------------------------------- *)
(* Environment steps: what other code / other threads / the kernel do.        *)
Inductive estep :=
| Arrive (bs : list N)             (* bytes arrive on the input stream *)
| Unget (bs : list N)              (* Input.unget_bytes(bs) *)
| Trigger (i : N) (id : N)         (* the callback of the i-th event_trigger is called *)
| Sched (w : Z) (id : N)           (* the scheduled_event_trigger callback: callback(when=w) *)
| TsTrigger (i : nat) (id : N)     (* a threadsafe callback, both statements without interruption *)
| TsAppend (i : nat) (id : N)      (*   its first statement: queued_interrupting_events.append *)
| TsWrite (i : nat)                (*   its second statement: os.write(writefd, b"interrupting event!") *)
| Sigint (k : N)                   (* SIGINT with sigint_event=True: wake-up byte + sigint_handler *)
| Signal (n : N)                   (* another signal that has a Python handler: wake-up byte only *)
| Tick (d : Z)                     (* the clock advances *)
| Late (d : Z).                    (* a LATE select wake-up: meaningful only as a step of the script of a
                                      request, when a select call that has a timeout reaches it with
                                      nothing ready: the call then times out with the clock at its
                                      deadline + max 0 d (a real select always returns a little late).
                                      No effect anywhere else (select without timeout, between requests). *)

Definition pipe_msg_len : N := 19.     (* len(b"interrupting event!") *)
Definition sigint_no : N := 2.         (* signal.SIGINT *)
Definition pipe_read_size : N := 1024. (* os.read(r, 1024) in _wait_for_read_ready_or_timeout *)
Definition sys_maxsize : Z := 9223372036854775807.

Fixpoint bump (i : nat) (d : N) (l : list N) : list N :=
  match l, i with
  | [], _ => []
  | c :: r, O => (c + d)%N :: r
  | c :: r, S i' => c :: bump i' d r
  end.

(* where ungot bytes go in the stream: behind everything Input already holds,
   in front of what is still in the kernel ([nk] bytes) *)
Definition ins_before_last (nk : nat) (bs g : list N) : list N :=
  firstn (length g - nk) g ++ bs ++ skipn (length g - nk) g.

Definition ts_append (i : nat) (id : N) (s : st) : st :=
  set_g_int (g_int s ++ [(i, id)]) (set_qint (qint s ++ [id]) s).
Definition ts_write (i : nat) (s : st) : st := set_pipes (bump i pipe_msg_len (pipes s)) s.

Definition apply_env (e : estep) (s : st) : st :=
  match e with
  | Arrive bs => set_g_bytes (g_bytes s ++ bs) (set_kq (kq s ++ bs) s)
  | Unget bs => set_g_bytes (ins_before_last (length (kq s)) bs (g_bytes s)) (set_unproc (unproc s ++ bs) s)
  | Trigger i id => set_g_ev (g_ev s ++ [(i, id)]) (set_qev (qev s ++ [id]) s)
  | Sched w id => set_g_sched (g_sched s ++ [(w, id)]) (set_qsched (qsched s ++ [(w, id)]) s)
  | TsTrigger i id => ts_write i (ts_append i id s)
  | TsAppend i id => ts_append i id s
  | TsWrite i => ts_write i s
  | Sigint k => set_g_sig (g_sig s ++ [k]) (set_wake (wake s ++ [sigint_no]) (set_sigints (sigints s ++ [k]) s))
  | Signal n => set_wake (wake s ++ [n]) s
  | Tick d => set_now (now s + Z.max 0 d) s
  | Late _ => s
  end.

Definition apply_envs (es : list estep) (s : st) : st := fold_left (fun s e => apply_env e s) es s.

(* ------------------------------------------------------------------------- *)
(* select.select([stdin] + [wakeup_read_fd] + readers, [], [], timeout)       *)
Inductive fd := FdStdin | FdWake | FdPipe (i : nat).

Fixpoint first_pipe (i : nat) (l : list N) : option fd :=
  match l with
  | [] => None
  | c :: r => if (0 <? c)%N then Some (FdPipe i) else first_pipe (S i) r
  end.

(* rs[0]: select returns the ready descriptors in the order they were passed *)
Definition first_ready (s : st) : option fd :=
  match kq s with
  | _ :: _ => Some FdStdin
  | [] => match wake s with
          | _ :: _ => Some FdWake
          | [] => first_pipe 0 (pipes s)
          end
  end.

(* One call of select.  [script] = what the environment does while this call is
   blocked, in order; the call returns as soon as a descriptor is ready (steps not
   yet consumed stay in the script) or when the timeout expires: exactly at the
   deadline tcall + rem (or at once if it has passed), or, through a [Late d]
   step, max 0 d later.
   Result: Some (Some fd) ready, Some None timed out (rs empty),
   None = blocked for ever. *)
Fixpoint select_run (rem : option Z) (tcall : Z) (s : st) (script : list estep)
  : st * list estep * option (option fd) :=
  match first_ready s with
  | Some f => (s, script, Some (Some f))
  | None =>
      match script with
      | [] =>
          match rem with
          | Some r => (set_now (Z.max (now s) (tcall + r)) s, [], Some None)
          | None => (s, [], None)
          end
      | Tick d :: rest =>
          let d := Z.max 0 d in
          match rem with
          | Some r =>
              if tcall + r <=? now s + d
              then let fire := Z.max (now s) (tcall + r) in
                   (set_now fire s, Tick (now s + d - fire) :: rest, Some None)
              else select_run rem tcall (set_now (now s + d) s) rest
          | None => select_run rem tcall (set_now (now s + d) s) rest
          end
      | Late d :: rest =>
          match rem with
          | Some r => (set_now (Z.max (now s) (tcall + r) + Z.max 0 d) s, rest, Some None)
          | None => select_run rem tcall s rest
          end
      | e :: rest => select_run rem tcall (apply_env e s) rest
      end
  end.

Fixpoint pop_last {A} (l : list A) : option (A * list A) :=
  match l with
  | [] => None
  | x :: r => match pop_last r with
              | None => Some (x, [])
              | Some (y, r') => Some (y, x :: r')
              end
  end.

Fixpoint drain (i : nat) (l : list N) : list N :=
  match l, i with
  | [], _ => []
  | c :: r, O => (c - N.min c pipe_read_size)%N :: r
  | c :: r, S i' => c :: drain i' r
  end.

Inductive wres :=
| WEvent (o : outcome)       (* (False, event) *)
| WReady (b : bool)          (* (b, None) *)
| WBlocked
| WFuel.

(* The two recomputations of remaining_timeout.  [old = false] is the code as
   it is now (commit 4c90127): both start from the ORIGINAL timeout.
   [old = true] is the formula before that commit, which started from the
   already reduced remaining_timeout with the original t0; it is kept only for
   the regression witness (Proofs/InputQ.v, old_recompute_refuted) and is not
   used by [send]. *)
Definition recompute_pipe (old : bool) (t0 timeout r nw : Z) : Z :=
  if old then Z.max 0 (t0 + r - nw) else Z.max 0 (t0 + timeout - nw).
Definition recompute_oserror (old : bool) (t0 timeout r nw : Z) : Z :=
  if old then Z.max (r - (nw - t0)) 0 else Z.max (timeout - (nw - t0)) 0.

(* _wait_for_read_ready_or_timeout(timeout); [t0] is read once, [rem] = remaining_timeout *)
Fixpoint wait_loop (old : bool) (fuel : nat) (t0 : Z) (timeout rem : option Z) (s : st) (script : list estep)
  : st * list estep * wres :=
  match fuel with
  | O => (s, script, WFuel)
  | S fuel' =>
      let '(s1, sc1, r) := select_run rem (now s) s script in
      match r with
      | None => (s1, sc1, WBlocked)
      | Some None => (s1, sc1, WReady false)                 (* if not rs: return False, None *)
      | Some (Some FdStdin) => (s1, sc1, WReady true)        (* r == in_stream.fileno() *)
      | Some (Some FdWake) =>                                (* r == wakeup_read_fd *)
          match wake s1 with
          | [] => (s1, sc1, WFuel)
          | b :: w' =>
              let s2 := set_wake w' s1 in                    (* os.read(r, 1) *)
              if (b =? sigint_no)%N
              then (* raise InterruptedError() -> except OSError: *)
                   match pop_last (sigints s2) with
                   | Some (k, rest) => (set_sigints rest s2, sc1, WEvent (OSigint k))
                   | None =>
                       let rem' := match rem, timeout with
                                   | Some r, Some t => Some (recompute_oserror old t0 t r (now s2))
                                   | _, _ => rem
                                   end in
                       wait_loop old fuel' t0 timeout rem' s2 sc1
                   end
              else wait_loop old fuel' t0 timeout rem s2 sc1 (* falls out of the if: next iteration *)
          end
      | Some (Some (FdPipe i)) =>
          let s2 := set_pipes (drain i (pipes s1)) s1 in     (* os.read(r, 1024) *)
          match qint s2 with
          | e :: q' => (set_qint q' s2, sc1, WEvent (OEvent SrcInt e))
          | [] =>
              let rem' := match rem, timeout with
                          | Some r, Some t => Some (recompute_pipe old t0 t r (now s2))
                          | _, _ => rem
                          end in
              wait_loop old fuel' t0 timeout rem' s2 sc1
          end
      end
  end.

(* ceil(c / 1024): how many reads drain a pipe *)
Definition pipe_units (c : N) : nat := N.to_nat ((c + 1023) / 1024).
Definition wait_fuel (s : st) (script : list estep) : nat :=
  S (length (wake s) + fold_right (fun c a => pipe_units c + a)%nat O (pipes s) + length script).

(* the stable sort by `when` (list.sort(key=...) is stable) as insertion sort *)
Fixpoint ins_sched (x : Z * N) (l : list (Z * N)) : list (Z * N) :=
  match l with
  | [] => [x]
  | y :: r => if fst x <=? fst y then x :: l else y :: ins_sched x r
  end.
Definition sort_sched (l : list (Z * N)) : list (Z * N) := fold_right ins_sched [] l.

Definition read_size_nat : nat := N.to_nat read_size.

(* _nonblocking_read: number of bytes read *)
Definition nb_read (s : st) : nat * st :=
  let data := firstn read_size_nat (kq s) in
  (length data, set_kq (skipn read_size_nat (kq s)) (set_unproc (unproc s ++ data) s)).

(* len(l) < n, looking at no more than n elements *)
Fixpoint len_lt {A} (l : list A) (n : nat) : bool :=
  match n with
  | O => false
  | S n' => match l with [] => true | _ :: r => len_lt r n' end
  end.

Section Decoder.
Variable find_key : list N -> fk.

(* the `while True:` loop building a PasteEvent; [acc] = paste.events reversed *)
Fixpoint paste_loop (fuel : nat) (acc : list (key * list N)) (s : st) : st * outcome :=
  match fuel with
  | O => (s, OFuel)
  | S fuel' =>
      let s1 := if len_lt (unproc s) max_keypress_size then snd (nb_read s) else s in
      match find_key (unproc s1) with
      | FkNone => (s1, OPaste (rev acc))
      | FkKey k used rest => paste_loop fuel' ((k, used) :: acc) (set_unproc rest s1)
      | FkRaise e used rest =>
          (set_unproc rest s1, ORaise e (concat (map snd (rev acc)) ++ used))
      end
  end.

(* the part of _send after the wait returned without an event *)
Definition after_wait (th : option Z) (whn : option Z) (ready : bool) (s : st) : st * outcome :=
  match
    match qsched s with
    | [] => Ok None
    | (w0, e0) :: q' =>                       (* self.queued_scheduled_events and when < time.time() *)
        match whn with
        | None => Raise OtherError            (* UnboundLocalError: `when` was never assigned *)
        | Some w => if w <? now s then Ok (Some (set_qsched q' s, OSched w0 e0)) else Ok None
        end
    end
  with
  | Raise e => (s, ORaise e [])
  | Ok (Some r) => r
  | Ok None =>
      if negb ready then (s, ONone)
      else
        let '(n, s1) := nb_read s in
        if Nat.eqb n 0 then (s1, ONone)
        else
          if match th with Some t => t <? Z.of_nat n | None => false end
          then paste_loop (S (length (unproc s1) + length (kq s1))) [] s1
          else match find_key (unproc s1) with
               | FkKey k used rest => (set_unproc rest s1, OKey k used)
               | FkNone => (s1, ORaise AssertionError [])            (* assert e is not None *)
               | FkRaise e used rest => (set_unproc rest s1, ORaise e used)
               end
  end.

(* Input._send(timeout); [th] = paste_threshold; [script] = environment activity
   available while the request is blocked in select *)
Definition send_gen (old : bool) (th : option Z) (timeout : option Z) (s : st) (script : list estep)
  : st * list estep * outcome :=
  match pop_last (sigints s) with
  | Some (k, rest) => (set_sigints rest s, script, OSigint k)               (* self.sigints.pop() *)
  | None =>
  match qev s with
  | e :: q' => (set_qev q' s, script, OEvent SrcEv e)                       (* queued_events.pop(0) *)
  | [] =>
  match qint s with
  | e :: q' => (set_qint q' s, script, OEvent SrcInt e)                     (* queued_interrupting_events.pop(0) *)
  | [] =>
  let s := match qsched s with [] => s | _ => set_qsched (sort_sched (qsched s)) s end in
  match
    match qsched s with
    | [] => inr (timeout, None)
    | (w, e) :: q' =>
        if w <? now s then inl (set_qsched q' s, OSched w e)
        else inr (Some (Z.min (Z.max 0 (w - now s))
                              (match timeout with Some t => t | None => sys_maxsize end)),
                  Some w)
    end
  with
  | inl (s', o) => (s', script, o)
  | inr (tuc, whn) =>
      match find_key (unproc s) with
      | FkKey k used rest => (set_unproc rest s, script, OKey k used)
      | FkRaise e used rest => (set_unproc rest s, script, ORaise e used)
      | FkNone =>
          let '(s1, sc1, w) := wait_loop old (wait_fuel s script) (now s) tuc tuc s script in
          match w with
          | WEvent o => (s1, sc1, o)
          | WBlocked => (s1, sc1, OBlocked)
          | WFuel => (s1, sc1, OFuel)
          | WReady b => let '(s2, o) := after_wait th whn b s1 in (s2, sc1, o)
          end
      end
  end end end end.

Definition send := send_gen false.

(* ------------------------------------------------------------------------- *)
(* Histories: environment steps between requests, and requests.  Steps of a
   request's script that were not consumed while it was blocked happen right
   after it returns.  The trace records, per request, the outcome and the clock
   at the call and at the return. *)
Inductive item :=
| Env (e : estep)
| Req (timeout : option Z) (script : list estep).

Fixpoint run (th : option Z) (s : st) (h : list item) : list (outcome * Z * Z) * st :=
  match h with
  | [] => ([], s)
  | Env e :: r => run th (apply_env e s) r
  | Req t sc :: r =>
      let '(s1, lft, o) := send th t s sc in
      match o with
      | OBlocked => ([(o, now s, now s1)], s1)
      | _ => let '(tr, s2) := run th (apply_envs lft s1) r in ((o, now s, now s1) :: tr, s2)
      end
  end.

End Decoder.
