(* Model of CursorAwareWindow.get_cursor_position (non-blessed path),
   get_cursor_vertical_diff, _get_cursor_vertical_diff_once and of the
   bookkeeping render_to_terminal does on top_usable_row / _last_cursor_row
   (curtsies/window.py).  Executable definitions only, no proofs.

   The input stream is a list of results of in_stream.read(1):
     Char c   the read returns the one-character string c
     OsError  the read raises OSError (retrying_read logs and retries)
     Eof      the read returns ''  (retrying_read raises ValueError)
   and, between reads, [Nest]: a nested get_cursor_vertical_diff call arrives
   (SIGWINCH handler) while the read is blocked.  A script that is exhausted
   behaves like Eof (a StringIO returns '' at its end). *)
From Curtsies Require Import Model.Base.
Local Open Scope N_scope.

Inductive rd := Char (c : char) | OsError | Eof.
Inductive item := Rd (r : rd) | Nest.

(* --- the regular expression ------------------------------------------------
     (?P<extra>.* )(?P<CSI>\x1b\[|\x9b)(?P<row>\d+);(?P<column>\d+)R      re.DOTALL
   as a deterministic scanner.  The source text of the pattern, as the harness
   reads it out of the current tree (compared in Corr/C18.v): *)
Definition cursor_regex_src : str :=
  [40;63;80;60;101;120;116;114;97;62;46;42;41;
   40;63;80;60;67;83;73;62;92;120;49;98;92;91;124;92;120;57;98;41;
   40;63;80;60;114;111;119;62;92;100;43;41;59;40;63;80;60;99;111;108;117;109;110;62;92;100;43;41;82].

(* \d restricted to ASCII (see ASSUMPTIONS of the check) *)
Definition is_digit (c : char) : bool := (48 <=? c) && (c <=? 57).

(* \d+ is greedy; what follows it in the pattern (';' or 'R') is not a digit,
   so backtracking into a shorter digit run can never succeed: the run taken
   is the maximal one. *)
Fixpoint span_digits (s : str) : str * str :=
  match s with
  | c :: r => if is_digit c then let (d, t) := span_digits r in (c :: d, t) else ([], s)
  | [] => ([], [])
  end.

(* (\x1b\[|\x9b) at the start of s: the two alternatives exclude each other *)
Definition match_csi (s : str) : option str :=
  match s with
  | c :: r =>
      if c =? 27 then
        match r with
        | c2 :: r2 => if c2 =? 91 then Some r2 else None
        | [] => None
        end
      else if c =? 155 then Some r
      else None
  | [] => None
  end.

(* a literal character of the pattern *)
Definition expect (x : char) (s : str) : option str :=
  match s with
  | c :: r => if c =? x then Some r else None
  | [] => None
  end.

(* CSI \d+ ; \d+ R at the start of s: (row digits, column digits, what follows R) *)
Definition match_report (s : str) : option (str * str * str) :=
  match match_csi s with
  | None => None
  | Some r =>
      let (rdg, r1) := span_digits r in
      match rdg, expect 59 r1 with
      | _ :: _, Some r2 =>
          let (cdg, r3) := span_digits r2 in
          match cdg, expect 82 r3 with
          | _ :: _, Some r4 => Some (rdg, cdg, r4)
          | _, _ => None
          end
      | _, _ => None
      end
  end.

(* re.search(pattern, s, re.DOTALL).  With DOTALL `.*` can swallow any prefix,
   so if there is a match at all there is one starting at index 0, and that is
   the one re.search reports.  `.*` is greedy: it first takes everything and
   gives characters back one at a time, so group `extra` is the LONGEST prefix
   after which the rest of the pattern matches, i.e. the report found is the one
   with the LAST start.  Result: (extra, row digits, column digits, text after
   the match). *)
Fixpoint search (s : str) : option (str * str * str * str) :=
  match s with
  | [] => None
  | c :: r =>
      match search r with
      | Some (e, rdg, cdg, a) => Some (c :: e, rdg, cdg, a)
      | None =>
          match match_report s with
          | Some (rdg, cdg, a) => Some ([], rdg, cdg, a)
          | None => None
          end
      end
  end.

(* int() of a non-empty string of ASCII digits *)
Fixpoint int_acc (acc : N) (ds : str) : N :=
  match ds with
  | [] => acc
  | d :: r => int_acc (10 * acc + (d - 48)) r
  end.
Definition py_int (ds : str) : N := int_acc 0 ds.

(* query_cursor_position = "\x1b[6n" *)
Definition query_cursor_position : str := [27; 91; 54; 110].

(* --- get_cursor_position ----------------------------------------------------- *)
Record outcome := mkOut {
  o_res : res (Z * Z);        (* (row - 1, col - 1) or the exception *)
  o_cb : list str;            (* arguments extra_bytes_callback was called with (as text) *)
  o_rest : list item;         (* what was not read *)
  o_nests : nat               (* nested-call points passed while reading *)
}.

(*  resp = ""
    while True:
        c = retrying_read()          # OSError: retry; '': raise ValueError
        resp += c
        m = re.search(..., resp, re.DOTALL)
        if m: ... return (row - 1, col - 1)
   [cb] = extra_bytes_callback is not None *)
Fixpoint gcp_loop (cb : bool) (resp : str) (nests : nat) (s : list item) : outcome :=
  match s with
  | [] => mkOut (Raise ValueError) [] [] nests
  | Nest :: r => gcp_loop cb resp (S nests) r
  | Rd OsError :: r => gcp_loop cb resp nests r
  | Rd Eof :: r => mkOut (Raise ValueError) [] r nests
  | Rd (Char c) :: r =>
      let resp' := resp ++ [c] in
      match search resp' with
      | None => gcp_loop cb resp' nests r
      | Some (extra, rdg, cdg, _) =>
          let pos := (Z.of_N (py_int rdg) - 1, Z.of_N (py_int cdg) - 1)%Z in
          match extra with
          | [] => mkOut (Ok pos) [] r nests
          | _ :: _ =>
              if cb then mkOut (Ok pos) [extra] r nests
              else mkOut (Raise ValueError) [] r nests
          end
      end
  end.

Definition get_cursor_position (cb : bool) (s : list item) : outcome := gcp_loop cb [] 0 s.

(* --- window state touched by the diff logic ---------------------------------- *)
Record wstate := mkW {
  top : Z;                (* top_usable_row *)
  last : option Z;        (* _last_cursor_row, None before the first render/query *)
  in_diff : bool;         (* in_get_cursor_diff *)
  another : bool          (* another_sigwinch *)
}.

(*  while self.top_usable_row > -1 and cursor_dy > 0:
        self.top_usable_row += 1;  cursor_dy -= 1 *)
Fixpoint loop_down (fuel : nat) (t dy : Z) : Z * Z :=
  match fuel with
  | O => (t, dy)
  | S f => if ((t >? -1) && (dy >? 0))%Z then loop_down f (t + 1)%Z (dy - 1)%Z else (t, dy)
  end.
(*  while self.top_usable_row > 1 and cursor_dy < 0:
        self.top_usable_row -= 1;  cursor_dy += 1 *)
Fixpoint loop_up (fuel : nat) (t dy : Z) : Z * Z :=
  match fuel with
  | O => (t, dy)
  | S f => if ((t >? 1) && (dy <? 0))%Z then loop_up f (t - 1)%Z (dy + 1)%Z else (t, dy)
  end.
(* both loops; |dy| iterations always suffice (Proofs/CursorQuery.v: loops_fuel_enough) *)
Definition move_loops (t dy : Z) : Z * Z :=
  let (t1, d1) := loop_down (Z.abs_nat dy) t dy in
  loop_up (Z.abs_nat d1) t1 d1.

(* result of a diff-level call: return value, window state, unread stream,
   callback arguments, rows reported by the queries made (in order) *)
Record dres := mkD {
  d_ret : res Z;
  d_w : wstate;
  d_rest : list item;
  d_cb : list str;
  d_rows : list Z
}.

(* _get_cursor_vertical_diff_once, called with in_get_cursor_diff = True: every
   nested get_cursor_vertical_diff arriving during the read sees the flag, sets
   another_sigwinch and returns 0 without touching anything else. *)
Definition once (cb : bool) (w : wstate) (s : list item) : dres :=
  let o := get_cursor_position cb s in
  let w1 := match o_nests o with
            | O => w
            | S _ => mkW (top w) (last w) (in_diff w) true
            end in
  match o_res o with
  | Raise e => mkD (Raise e) w1 (o_rest o) (o_cb o) []
  | Ok (row, _) =>
      match last w1 with
      | None => mkD (Ok 0%Z) (mkW (top w1) (Some row) (in_diff w1) (another w1)) (o_rest o) (o_cb o) [row]
      | Some l =>
          let (t', dy') := move_loops (top w1) (row - l)%Z in
          mkD (Ok dy') (mkW t' (Some row) (in_diff w1) (another w1)) (o_rest o) (o_cb o) [row]
      end
  end.

(*  cursor_dy = 0
    while True:
        self.in_get_cursor_diff = True; self.another_sigwinch = False
        cursor_dy += self._get_cursor_vertical_diff_once()
        self.in_get_cursor_diff = False
        if not self.another_sigwinch: return cursor_dy
   A further round needs a Nest consumed in this round, so 1 + |s| rounds always
   suffice (Proofs: diff_fuel_enough); running out of fuel is OtherError.
   An exception inside the query propagates with in_get_cursor_diff still True
   (the code has no try/finally). *)
Fixpoint diff_loop (fuel : nat) (cb : bool) (w : wstate) (s : list item)
         (acc : Z) (cbs : list str) (rows : list Z) : dres :=
  match fuel with
  | O => mkD (Raise OtherError) w s cbs rows
  | S f =>
      let w0 := mkW (top w) (last w) true false in
      let r := once cb w0 s in
      match d_ret r with
      | Raise e => mkD (Raise e) (d_w r) (d_rest r) (cbs ++ d_cb r) (rows ++ d_rows r)
      | Ok dy =>
          let w2 := mkW (top (d_w r)) (last (d_w r)) false (another (d_w r)) in
          if another w2
          then diff_loop f cb w2 (d_rest r) (acc + dy)%Z (cbs ++ d_cb r) (rows ++ d_rows r)
          else mkD (Ok (acc + dy)%Z) w2 (d_rest r) (cbs ++ d_cb r) (rows ++ d_rows r)
      end
  end.

(*  if self.in_get_cursor_diff: self.another_sigwinch = True; return 0 *)
Definition get_cursor_vertical_diff (cb : bool) (w : wstate) (s : list item) : dres :=
  if in_diff w
  then mkD (Ok 0%Z) (mkW (top w) (last w) (in_diff w) true) s [] []
  else diff_loop (S (length s)) cb w s 0%Z [] [].

(* --- what render_to_terminal does to the two fields --------------------------
    rows_for_use = list(range(self.top_usable_row, height))
    shared = min(len(array), len(rows_for_use))
    for line in array[shared:]:
        if self.top_usable_row > 0: self.top_usable_row -= 1
        else: offscreen_scrolls += 1
    self._last_cursor_row = max(0, cursor_pos[0] - offscreen_scrolls + self.top_usable_row)
    ... self.write(self.t.move(self._last_cursor_row, self._last_cursor_column))
    return offscreen_scrolls *)
Fixpoint scroll_loop (k : nat) (t off : Z) : Z * Z :=
  match k with
  | O => (t, off)
  | S k' => if (t >? 0)%Z then scroll_loop k' (t - 1)%Z off else scroll_loop k' t (off + 1)%Z
  end.

Definition render_book (w : wstate) (nlines : nat) (cur_row height : Z) : Z * wstate :=
  let avail := Z.to_nat (height - top w) in          (* len(range(top, height)) *)
  let shared := Nat.min nlines avail in
  let (t', off) := scroll_loop (nlines - shared) (top w) 0%Z in
  (off, mkW t' (Some (Z.max 0 (cur_row - off + t'))) (in_diff w) (another w)).

(* --- histories ----------------------------------------------------------------
   The in_stream is shared: what one call leaves unread is read first by the
   next; each operation first appends its own items to the pending stream. *)
Inductive op :=
| OpSet (t : Z) (l : option Z)                    (* assign top_usable_row, _last_cursor_row *)
| OpRender (nlines : nat) (cur_row height : Z)    (* render_to_terminal(array of nlines rows, (cur_row, _)) *)
| OpDiff (cb : bool) (s : list item)              (* get_cursor_vertical_diff() *)
| OpPos (cb : bool) (s : list item).              (* get_cursor_position() called directly *)

Definition is_nest (i : item) : bool := match i with Nest => true | _ => false end.

Record obs := mkObs {
  ob_ret : res (list Z);     (* Render: [scrolls]; Diff: [dy]; Pos: [row; col]; Set: [] *)
  ob_w : wstate;             (* state after *)
  ob_unread : nat;           (* items pending after *)
  ob_cb : list str;          (* callback arguments during the operation *)
  ob_rows : list Z           (* rows reported by the queries made during the operation;
                                Render: the row the cursor is finally moved to *)
}.

Definition step (w : wstate) (pending : list item) (o : op) : obs * list item :=
  match o with
  | OpSet t l =>
      (mkObs (Ok []) (mkW t l (in_diff w) (another w)) (length pending) [] [], pending)
  | OpRender n c h =>
      let (off, w') := render_book w n c h in
      (* ob_rows: the row of the final self.t.move(self._last_cursor_row, ...) *)
      (mkObs (Ok [off]) w' (length pending) []
             (match last w' with Some r => [r] | None => [] end), pending)
  | OpDiff cb s =>
      let r := get_cursor_vertical_diff cb w (pending ++ s) in
      (mkObs (match d_ret r with Ok dy => Ok [dy] | Raise e => Raise e end)
             (d_w r) (length (d_rest r)) (d_cb r) (d_rows r), d_rest r)
  | OpPos cb s =>
      (* nested calls during a direct query (in_get_cursor_diff False) are outside
         the model: the driver removes them from the pending stream first *)
      let o := get_cursor_position cb (filter (fun i => negb (is_nest i)) (pending ++ s)) in
      (mkObs (match o_res o with Ok (r, c) => Ok [r; c] | Raise e => Raise e end)
             w (length (o_rest o)) (o_cb o)
             (match o_res o with Ok (r, _) => [r] | Raise _ => [] end), o_rest o)
  end.

Fixpoint run_ops (w : wstate) (pending : list item) (ops : list op) : list obs :=
  match ops with
  | [] => []
  | o :: r => let (ob, p') := step w pending o in ob :: run_ops (ob_w ob) p' r
  end.
