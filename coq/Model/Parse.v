(* Model of curtsies/escseqparse.py (remove_ansi, parse, peel_off_esc_code,
   token_type) and of FmtStr.from_str / fmtstr(s) (curtsies/formatstring.py).
   Executable definitions only, no proofs.

   The regular expressions of the code are hand-translated to deterministic
   left-to-right scanners.  Why a maximal-munch scanner is equivalent to the
   backtracking `re` engine on these patterns (proved as [match_csi_body_spec] /
   [match_csi_body_unique] and [ansi_len_spec] in Proofs/Parse.v, validated by the
   correspondence on exhaustive short strings over the critical alphabet):

     CSI      (ESC[ | \x9b)  (\d+;)* (\d+)?  [\x20-\x2f]*  [\x40-\x7e]
     remove   (\x9b | ESC[)  [0-?]*          [ -/]*        [@-~]

   the character classes that follow one another are pairwise disjoint
   (digits and ';' = 0x30-0x39,0x3b; intermediates 0x20-0x2f; final bytes
   0x40-0x7e), so in ANY successful match the numbers group is the whole maximal
   run of digits/';' after the introducer (the next character must be an
   intermediate or a final byte, and a digit or ';' is neither), the intermediates
   group is the whole maximal run of intermediates, and exactly one byte follows.
   Hence a match at a given position is unique, backtracking can only re-discover
   it or fail, and the greedy scanner finds it iff it exists.  E.g. 'ESC[12' + 'x'
   with x not a final byte: the engine fails here only after backtracking to
   'ESC[1' + '2', but '2' is neither in [ -/] nor in [@-~], so no shorter match
   exists either.  `front` is lazy (.*?) and `rest` is .* under re.DOTALL, so the
   engine returns the LEFTMOST position at which the sequence pattern matches.

   Python's \d and int() also accept non-ASCII decimal digits; only 0-9 are
   modelled (generators keep other digits out of escape positions).
   int() of more than 4300 digits raises ValueError (CPython >= 3.11 default
   sys.get_int_max_str_digits()); this is modelled ([int_max_str_digits]). *)
From Curtsies Require Import Model.Base Gen.Tables.
Local Open Scope N_scope.

(* ---- character classes -------------------------------------------------- *)
Definition isdigit (c : char) : bool := (48 <=? c) && (c <=? 57).      (* \d, ASCII only *)
Definition is_inter (c : char) : bool := (32 <=? c) && (c <=? 47).     (* [\x20-\x2f] *)
Definition is_final (c : char) : bool := (64 <=? c) && (c <=? 126).    (* [\x40-\x7e] *)
Definition is_fe (c : char) : bool := (64 <=? c) && (c <=? 95).        (* [\x40-\x5f] *)
Definition is_param (c : char) : bool := (48 <=? c) && (c <=? 63).     (* [0-?] *)

Definition is_nil {X} (l : list X) : bool := match l with [] => true | _ => false end.

(* maximal prefix whose characters satisfy [p] (a greedy `[class]*`) *)
Fixpoint span (p : char -> bool) (s : str) : str * str :=
  match s with
  | c :: r => if p c then let (a, b) := span p r in (c :: a, b) else ([], s)
  | [] => ([], [])
  end.

(* greedy (\d+;)*(\d+)? : the longest prefix made of digit groups separated /
   terminated by single ';'.  [seen] = at least one digit since the last ';'. *)
Fixpoint scan_numbers (seen : bool) (s : str) : str * str :=
  match s with
  | c :: r =>
      if isdigit c then let (a, b) := scan_numbers true r in (c :: a, b)
      else if (c =? 59) && seen then let (a, b) := scan_numbers false r in (c :: a, b)
      else ([], s)
  | [] => ([], [])
  end.

(* a regex match object, reduced to the named groups the code reads *)
Record rmatch := mkMatch {
  m_front : str; m_csi : str;
  m_numbers : option str;        (* None: the pattern has no such group (two-byte pattern) *)
  m_intermed : str; m_command : char; m_rest : str }.

(* the part of the CSI pattern after the introducer, at the head of [s] *)
Definition match_csi_body (s : str) : option (str * str * char * str) :=
  let (nums, r1) := scan_numbers false s in
  let (inter, r2) := span is_inter r1 in
  match r2 with
  | c :: rest => if is_final c then Some (nums, inter, c, rest) else None
  | [] => None
  end.

(* (?P<seq>(?P<csi>ESC\[|\x9b)(?P<numbers>...)(?P<intermed>...)(?P<command>...)) at the head of [s] *)
Definition match_csi_at (s : str) : option rmatch :=
  match s with
  | c :: r =>
      if c =? 155 then
        match match_csi_body r with
        | Some (n, i, k, rest) => Some (mkMatch [] [155] (Some n) i k rest)
        | None => None
        end
      else if c =? 27 then
        match r with
        | d :: r' =>
            if d =? 91 then
              match match_csi_body r' with
              | Some (n, i, k, rest) => Some (mkMatch [] [27; 91] (Some n) i k rest)
              | None => None
              end
            else None
        | [] => None
        end
      else None
  | [] => None
  end.

(* (?P<seq>(?P<csi>ESC)(?P<command>[\x40-\x5f])) at the head of [s] *)
Definition match_two_at (s : str) : option rmatch :=
  match s with
  | c :: r =>
      match r with
      | d :: rest => if (c =? 27) && is_fe d then Some (mkMatch [] [27] None [] d rest) else None
      | [] => None
      end
  | [] => None
  end.

Definition with_front (c : char) (m : rmatch) : rmatch :=
  mkMatch (c :: m_front m) (m_csi m) (m_numbers m) (m_intermed m) (m_command m) (m_rest m).

(* re.match(lazy front + seq + greedy rest, s, DOTALL): leftmost position where seq matches *)
Fixpoint find_first (at_head : str -> option rmatch) (s : str) : option rmatch :=
  match at_head s with
  | Some m => Some m
  | None =>
      match s with
      | c :: r => match find_first at_head r with Some m => Some (with_front c m) | None => None end
      | [] => None
      end
  end.

(* ---- numbers group -> list of ints, or left as a string ------------------- *)
Inductive numbers := NumInts (l : list N) | NumStr (s : str).

Record token := mkToken {
  t_csi : str; t_numbers : option numbers (* None = key absent *);
  t_intermed : str; t_command : char }.

(* str.split(sep): always at least one piece *)
Fixpoint split_on (sep : char) (s : str) : list str :=
  match s with
  | [] => [[]]
  | c :: r =>
      if c =? sep then [] :: split_on sep r
      else match split_on sep r with p :: ps => (c :: p) :: ps | [] => [[c]] end
  end.

Definition int_max_str_digits : N := 4300.

Fixpoint digits_val (acc : N) (s : str) : N :=
  match s with [] => acc | c :: r => digits_val (10 * acc + (c - 48)) r end.

(* int(x) for the strings that reach it here (ASCII digit strings) *)
Definition py_int (x : str) : res N :=
  if is_nil x || negb (forallb isdigit x) then Raise ValueError
  else if int_max_str_digits <? N.of_nat (length x) then Raise ValueError
  else Ok (digits_val 0 x).

Fixpoint map_res {X Y} (f : X -> res Y) (l : list X) : res (list Y) :=
  match l with
  | [] => Ok []
  | x :: r => bind (f x) (fun y => bind (map_res f r) (fun ys => Ok (y :: ys)))
  end.

(* if 'numbers' in d and all(d['numbers'].split(';')): d['numbers'] = [int(x) for x in ...] *)
Definition convert_numbers (nums : str) : res numbers :=
  let parts := split_on 59 nums in
  if forallb (fun p => negb (is_nil p)) parts
  then bind (map_res py_int parts) (fun l => Ok (NumInts l))
  else Ok (NumStr nums).

(* ---- peel_off_esc_code ------------------------------------------------------- *)
Definition choose (m1 m2 : option rmatch) : option rmatch :=
  match m1, m2 with
  | Some a, Some b => if (length (m_front a) <=? length (m_front b))%nat then Some a else Some b
  | Some a, None => Some a
  | None, Some b => Some b
  | None, None => None
  end.

Definition peel (s : str) : res (str * option token * str) :=
  let m1 := find_first match_csi_at s in
  let m2 := find_first match_two_at s in
  match choose m1 m2 with
  | Some m =>
      bind (match m_numbers m with
            | Some ns => bind (convert_numbers ns) (fun x => Ok (Some x))
            | None => Ok None
            end)
           (fun nums => Ok (m_front m, Some (mkToken (m_csi m) nums (m_intermed m) (m_command m)), m_rest m))
  | None => Ok (s, None, [])
  end.

(* ---- token_type ----------------------------------------------------------------- *)
(* values of the format dictionaries: a colour/style name, True, or None *)
Inductive fval := VName (s : str) | VTrue | VNone.
(* a Python dict with str keys as an association list: the FIRST binding of a key is the current one *)
Definition dict := list (str * fval).

Definition key_fg : str := [102; 103].
Definition key_bg : str := [98; 103].
Definition key_style : str := [115; 116; 121; 108; 101].

Fixpoint lookupN {V} (n : N) (t : list (N * V)) : option V :=
  match t with [] => None | (k, v) :: r => if k =? n then Some v else lookupN n r end.
Fixpoint lookupS {V} (k : str) (t : list (str * V)) : option V :=
  match t with [] => None | (k', v) :: r => if str_eqb k' k then Some v else lookupS k r end.

(* what iterating over info['numbers'] yields: ints, or the characters of a str *)
Inductive pyval := PInt (n : N) | PChr (c : char).

(* dict({k: None for k in STYLES}, **{'fg': None, 'bg': None}) *)
Definition reset_all_dict : dict :=
  [(key_fg, VNone); (key_bg, VNone)] ++ map (fun kv => (fst kv, VNone)) styles.

(* the body of `for value in values:` *)
Definition tokens_of_value (v : pyval) : list dict :=
  match v with
  | PChr _ => []          (* a str is no key of the int-keyed tables and == no int *)
  | PInt n =>
      (match lookupN n fg_number_to_color with Some nm => [[(key_fg, VName nm)]] | None => [] end) ++
      (match lookupN n bg_number_to_color with Some nm => [[(key_bg, VName nm)]] | None => [] end) ++
      (match lookupN n number_to_style with Some nm => [[(nm, VTrue)]] | None => [] end) ++
      (if n =? reset_all then [reset_all_dict] else []) ++
      (if n =? reset_fg then [[(key_fg, VNone)]] else []) ++
      (if n =? reset_bg then [[(key_bg, VNone)]] else [])
  end.

Definition values_of (nums : numbers) : list pyval :=
  match nums with
  | NumInts l => if is_nil l then [PInt 0] else map PInt l
  | NumStr s => if is_nil s then [PInt 0] else map PChr s
  end.

Definition token_type (t : token) : res (option (list dict)) :=
  if t_command t =? 109 then                        (* 'm' *)
    match t_numbers t with
    | None => Raise KeyError                        (* info['numbers'] *)
    | Some nums =>
        match flat_map tokens_of_value (values_of nums) with
        | [] => Raise ValueError
        | tokens => Ok (Some tokens)
        end
    end
  else if t_command t =? 72 then Ok (Some [[]])     (* 'H': [{}] *)
  else Ok None.

(* ---- parse -------------------------------------------------------------------------- *)
Inductive item := IStr (s : str) | IDict (d : dict).

(* one iteration appends `front` (if non-empty) and the token dictionaries (if any) to
   `stuff`; the model returns them in front of what the remaining iterations append.
   The loop consumes at least one character per iteration that does not break, so
   fuel [S (length s)] is never exhausted (Proofs/Parse.v, parse_fuel_enough). *)
Fixpoint parse_loop (fuel : nat) (rest : str) : res (list item) :=
  match fuel with
  | O => Raise OtherError
  | S fuel' =>
      bind (peel rest) (fun '(front, token, rest') =>
      bind (match token with
            | Some tk =>
                (* except ValueError: raise ValueError(...) -- same class *)
                bind (token_type tk) (fun tok =>
                  match tok with Some l => Ok (map IDict l) | None => Ok [] end)
            | None => Ok []
            end) (fun toks =>
      bind (match rest' with [] => Ok [] | _ => parse_loop fuel' rest' end) (fun later =>
      Ok ((if is_nil front then [] else [IStr front]) ++ toks ++ later))))
  end.

Definition parse (s : str) : res (list item) := parse_loop (S (length s)) s.

(* ---- remove_ansi: re.sub(r'(\x9B|\x1B\[)[0-?]*[ -\/]*[@-~]', '', s) ------------------------ *)
Definition ansi_body_len (s : str) : option nat :=
  let (p, r1) := span is_param s in
  let (i, r2) := span is_inter r1 in
  match r2 with
  | c :: _ => if is_final c then Some (length p + length i + 1)%nat else None
  | [] => None
  end.

(* length of the match at the head of [s], if there is one *)
Definition ansi_len (s : str) : option nat :=
  match s with
  | c :: r =>
      if c =? 155 then option_map S (ansi_body_len r)
      else if c =? 27 then
        match r with
        | d :: r' => if d =? 91 then option_map (fun n => S (S n)) (ansi_body_len r') else None
        | [] => None
        end
      else None
  | [] => None
  end.

(* leftmost, non-overlapping: [skip] characters of a match remain to be dropped *)
Fixpoint remove_ansi_from (skip : nat) (s : str) : str :=
  match s with
  | [] => []
  | c :: r =>
      match skip with
      | S k => remove_ansi_from k r
      | O =>
          match ansi_len s with
          | Some (S k) => remove_ansi_from k r
          | _ => c :: remove_ansi_from O r
          end
      end
  end.
Definition remove_ansi (s : str) : str := remove_ansi_from O s.

(* ---- parse_args((), kwargs) on the running format ------------------------------------------- *)
(* kwargs = {k: v for k, v in cur_fmt.items() if v is not None} *)
Definition kw_get (d : dict) (k : str) : option fval :=
  match lookupS k d with Some VNone => None | x => x end.

Definition in_keys {V} (k : str) (t : list (str * V)) : bool := existsb (fun kv => str_eqb (fst kv) k) t.

Fixpoint index_of {X} (p : X -> bool) (l : list X) : option nat :=
  match l with
  | [] => None
  | x :: r => if p x then Some O else option_map S (index_of p r)
  end.

(* canonical form of a colour number: its position in FG_COLORS / BG_COLORS *)
Definition color_at (tbl : list (str * N)) (n : N) : option color :=
  match index_of (fun kv => snd kv =? n) tbl with
  | Some i => nth_error all_colors i
  | None => None
  end.

(* if kwargs[key] in TABLE: kwargs[key] = TABLE[kwargs[key]]
   if kwargs[key] not in list(TABLE.values()): raise ValueError *)
Definition conv_color (tbl : list (str * N)) (v : option fval) : res (option color) :=
  match v with
  | None | Some VNone => Ok None
  | Some (VName nm) =>
      match lookupS nm tbl with
      | Some n => match color_at tbl n with Some c => Ok (Some c) | None => Raise OtherError end
      | None => Raise ValueError
      end
  | Some VTrue =>                                   (* True == 1 *)
      if existsb (fun kv => snd kv =? 1) tbl
      then match color_at tbl 1 with Some c => Ok (Some c) | None => Raise OtherError end
      else Raise ValueError
  end.

Definition style_name (k : style) : str :=
  match k with
  | Bold => nth 0 (map fst styles) [] | Dark => nth 1 (map fst styles) []
  | Italic => nth 2 (map fst styles) [] | Underline => nth 3 (map fst styles) []
  | Blink => nth 4 (map fst styles) [] | Invert => nth 5 (map fst styles) []
  end.

Definition conv_style (v : option fval) : res (option bool) :=
  match v with
  | None | Some VNone => Ok None
  | Some VTrue => Ok (Some true)
  | Some (VName _) => Raise OtherError              (* a str as a style value: outside the canonical form *)
  end.

Definition parse_args_kw (d : dict) : res atts :=
  (* if 'style' in kwargs: args += (kwargs['style'],); a value True is a non-str arg: ValueError.
     (A name as value cannot arise: only the literal keys 'fg' / 'bg' carry names; not modelled.)
     No table of the current tree has a key 'style', so this branch is dead (from_str_total). *)
  match kw_get d key_style with
  | Some VTrue => Raise ValueError
  | Some _ => Raise OtherError
  | None =>
  (* for k in kwargs: if k not in ('fg', 'bg') and k not in STYLES.keys(): raise ValueError *)
  if negb (forallb (fun k => match kw_get d k with
                                  | None => true
                                  | Some _ => str_eqb k key_fg || str_eqb k key_bg || in_keys k styles
                                  end) (map fst d))
  then Raise ValueError
  else
    bind (conv_color fg_colors (kw_get d key_fg)) (fun fg =>
    bind (conv_color bg_colors (kw_get d key_bg)) (fun bg =>
    bind (conv_style (kw_get d (style_name Bold))) (fun b =>
    bind (conv_style (kw_get d (style_name Dark))) (fun dk =>
    bind (conv_style (kw_get d (style_name Italic))) (fun i =>
    bind (conv_style (kw_get d (style_name Underline))) (fun u =>
    bind (conv_style (kw_get d (style_name Blink))) (fun bl =>
    bind (conv_style (kw_get d (style_name Invert))) (fun inv =>
    Ok (mkAtts fg bg b dk i u bl inv)))))))))
  end.

(* ---- FmtStr.from_str --------------------------------------------------------------------------- *)
(* '\x1b[' in s *)
Fixpoint contains_esc_lb (s : str) : bool :=
  match s with
  | c :: r => match r with
              | d :: _ => ((c =? 27) && (d =? 91)) || contains_esc_lb r
              | [] => false
              end
  | [] => false
  end.

(* cur_fmt.update(x) *)
Definition dict_update (cur x : dict) : dict := x ++ cur.

(* for x in tokens_and_strings: ... ; parse_args raising here is NOT caught by from_str *)
Fixpoint build_chunks (cur : dict) (l : list item) : res fmtstr :=
  match l with
  | [] => Ok []
  | IDict x :: r => build_chunks (dict_update cur x) r
  | IStr x :: r =>
      bind (parse_args_kw cur) (fun a =>
      bind (build_chunks cur r) (fun cs => Ok (mkChunk x a :: cs)))
  end.

(* '\x1b[' in s or '\x9b' in s *)
Definition needs_parse (s : str) : bool := contains_esc_lb s || existsb (N.eqb 155) s.

Definition from_str (s : str) : res fmtstr :=
  if needs_parse s then
    match parse s with
    | Raise ValueError => Ok [mkChunk (remove_ansi s) no_atts]
    | Raise e => Raise e
    | Ok l => build_chunks [] l
    end
  else Ok [mkChunk s no_atts].

(* ---- fmtstr(s) with no further arguments ---------------------------------------------------------- *)
(* FrozenAttributes.extend: later items win *)
Definition pick {X} (a b : option X) : option X := match b with Some _ => b | None => a end.
Definition atts_extend (a b : atts) : atts :=
  mkAtts (pick (a_fg a) (a_fg b)) (pick (a_bg a) (a_bg b)) (pick (a_bold a) (a_bold b))
         (pick (a_dark a) (a_dark b)) (pick (a_italic a) (a_italic b))
         (pick (a_underline a) (a_underline b)) (pick (a_blink a) (a_blink b))
         (pick (a_invert a) (a_invert b)).
Definition copy_with_new_atts (f : fmtstr) (a : atts) : fmtstr :=
  map (fun c => mkChunk (c_s c) (atts_extend (c_a c) a)) f.

(* atts = parse_args((), {}) = {};  FmtStr.from_str(string).copy_with_new_atts(atts as keyword arguments) *)
Definition fmtstr0 (s : str) : res fmtstr :=
  bind (from_str s) (fun f => Ok (copy_with_new_atts f no_atts)).
