(* Model of the module function linesplit (curtsies/formatstring.py), following the
   code statement by statement.  No proofs (Proofs/LineSplit.v).

   Outside the repository's logic: the regex engine on r"\s+" -- represented by
   [is_space : char -> bool] (Python's `\s`) and the maximal-block scanner
   [ws_spans] of Model/StrMeth.v.  A str argument goes through fmtstr(string)
   (modelled for text that from_str does not parse, see Model/Slice.fmtstr_plain). *)
From Curtsies Require Import Model.Base Spec.ListOps Model.Slice Model.StrMeth.
Local Open Scope Z_scope.

Section LineSplit.
Variable is_space : char -> bool.

(* string[a:b] *)
Definition sl (f : fmtstr) (a b : Z) : res fmtstr := getitem_slice f (Some a) (Some b).

(* range(n) *)
Definition zrange (n : Z) : list Z := map Z.of_nat (seq 0 (Z.to_nat n)).

(* word_to_lines = lambda word: [word[columns * i : columns * (i + 1)]
                                 for i in range((len(word) - 1) // columns + 1)]
   (ZeroDivisionError for columns = 0; Coq's Z./ is Python's floor division otherwise) *)
Definition word_to_lines (columns : Z) (word : fmtstr) : res (list fmtstr) :=
  if columns =? 0 then Raise OtherError
  else map_res (fun i => sl word (columns * i) (columns * (i + 1)))
               (zrange ((len word - 1) / columns + 1)).

(* one iteration of  for word, space in zip(words[1:], spaces):
     if len(lines[-1]) + len(word) < columns:
         lines[-1] += fmtstr(" ", **space.shared_atts)
         lines[-1] += word
     else:
         lines.extend(word_to_lines(word))                                             *)
Definition step (columns : Z) (lines : list fmtstr) (ws : fmtstr * fmtstr) : res (list fmtstr) :=
  let '(word, space) := ws in
  bind (last_item lines) (fun l =>
  if len l + len word <? columns then
    bind (shared_atts space) (fun shared =>
    let l1 := add l (OFmt (fmtstr_with [space_char] shared)) in
    let l2 := add l1 (OFmt word) in
    Ok (removelast lines ++ [l2]))
  else
    bind (word_to_lines columns word) (fun more => Ok (lines ++ more))).

Fixpoint loop (columns : Z) (lines : list fmtstr) (pairs : list (fmtstr * fmtstr)) : res (list fmtstr) :=
  match pairs with
  | [] => Ok lines
  | p :: r => bind (step columns lines p) (fun lines' => loop columns lines' r)
  end.

Definition linesplit (string : operand) (columns : Z) : res (list fmtstr) :=
  let string := to_fs string in                  (* if not isinstance(string, FmtStr): string = fmtstr(string) *)
  let string_s := text string in
  let n := Z.of_nat (length string_s) in
  let matches := ws_spans is_space string_s in
  (* spaces = [string[m.start():m.end()] for m in matches if m.start() != 0 and m.end() != len(string_s)] *)
  bind (map_res (fun '(a, b) => sl string a b)
                (filter (fun '(a, b) => negb (a =? 0) && negb (b =? n)) matches)) (fun spaces =>
  (* words = [string[start:end] for start, end in zip([0] + ends, starts + [len]) if start != end] *)
  bind (map_res (fun '(a, b) => sl string a b)
                (filter (fun '(a, b) => negb (a =? b)) (cut_points matches n))) (fun words =>
  match words with
  | [] => Ok []                                  (* if not words: return [] *)
  | w0 :: ws =>
      bind (word_to_lines columns w0) (fun lines =>
      loop columns lines (combine ws spaces))
  end)).

End LineSplit.
