(* C03 / C20: lemmas and main theorems about the key decoder model. *)
From Curtsies Require Import Model.Base Gen.Tables Model.Utf8 Model.Keys Model.KeyMap Spec.KeySpec.
From Coq Require Import Lia ZifyBool ZifyNat ZifyN.
Local Open Scope N_scope.

(* ======================================================================= *)
(* basics                                                                   *)
Lemma str_eqb_eq : forall a b : list N, str_eqb a b = true <-> a = b.
Proof.
  unfold str_eqb. induction a as [|x a IH]; destruct b as [|y b]; cbn [list_eqb]; split; intro H;
    try reflexivity; try discriminate.
  - apply andb_true_iff in H. destruct H as [H1 H2]. apply N.eqb_eq in H1. apply IH in H2. now subst.
  - inversion H; subst. apply andb_true_iff. split; [apply N.eqb_refl | now apply IH].
Qed.

Lemma str_eqb_refl : forall a, str_eqb a a = true.
Proof. intro a. now apply str_eqb_eq. Qed.

Lemma str_eqb_neq : forall a b : list N, str_eqb a b = false <-> a <> b.
Proof.
  intros a b. split.
  - intros H E. apply str_eqb_eq in E. congruence.
  - intro H. destruct (str_eqb a b) eqn:E; [|reflexivity]. apply str_eqb_eq in E. contradiction.
Qed.

Lemma bytes_eqb_eq : forall a b : list N, bytes_eqb a b = true <-> a = b.
Proof.
  induction a as [|x a IH]; destruct b as [|y b]; cbn [bytes_eqb]; split; intro H;
    try reflexivity; try discriminate.
  - destruct (x =? y) eqn:E; [|discriminate]. apply N.eqb_eq in E. apply IH in H. now subst.
  - inversion H; subst. rewrite N.eqb_refl. now apply IH.
Qed.

Lemma bytes_eqb_refl : forall a, bytes_eqb a a = true.
Proof. intro a. now apply bytes_eqb_eq. Qed.

Lemma lookup_In : forall t s v, lookup t s = Some v -> In (s, v) t.
Proof.
  induction t as [|[k w] t IH]; intros s v H; cbn [lookup] in H; [discriminate|].
  destruct (bytes_eqb k s) eqn:E.
  - apply bytes_eqb_eq in E. inversion H; subst. now left.
  - right. now apply IH.
Qed.

Lemma In_lookup : forall t s v, In (s, v) t -> exists w, lookup t s = Some w.
Proof.
  induction t as [|[k w] t IH]; intros s v H; [contradiction|]. cbn [lookup].
  destruct (bytes_eqb k s) eqn:E; [eauto|].
  destruct H as [H|H]; [|eauto]. inversion H; subst. rewrite bytes_eqb_refl in E. discriminate.
Qed.

Lemma assoc_lookup : forall t s, assoc t s = lookup t s.
Proof.
  unfold assoc. induction t as [|[k w] t IH]; intro s; cbn [find lookup fst]; [reflexivity|].
  destruct (bytes_eqb k s); [reflexivity | apply IH].
Qed.

Lemma in_prefixes_In : forall s, in_prefixes s = true <-> In s keymap_prefixes.
Proof.
  intro s. unfold in_prefixes. rewrite existsb_exists. split.
  - intros [p [Hp E]]. apply bytes_eqb_eq in E. now subst.
  - intro H. exists s. split; [assumption | apply bytes_eqb_refl].
Qed.

(* the 256 byte values, for statements proved by enumeration *)
Lemma all_bytes_In : forall b, b < 256 -> In b all_bytes.
Proof.
  intros b H. unfold all_bytes. apply in_map_iff. exists (N.to_nat b). split.
  - apply N2Nat.id.
  - apply in_seq. lia.
Qed.

Lemma byte_cases : forall P : N -> bool,
  forallb P all_bytes = true -> forall b, b < 256 -> P b = true.
Proof. intros P H b Hb. rewrite forallb_forall in H. apply H. now apply all_bytes_In. Qed.

Lemma is_bytes_forall : forall s, is_bytes s = true <-> forall b, In b s -> b < 256.
Proof.
  intro s. unfold is_bytes. rewrite forallb_forall. unfold is_byte.
  split; intros H b Hb; specialize (H b Hb); lia.
Qed.

(* ======================================================================= *)
(* codecs                                                                    *)
Lemma urun_ascii : forall s, all_ascii s = true -> urun UGround s = Some s.
Proof.
  induction s as [|b s IH]; intro H; [reflexivity|].
  cbn [all_ascii forallb] in H. apply andb_true_iff in H. destruct H as [Hb Hs].
  cbn [urun ustep]. unfold is_ascii in Hb. rewrite Hb. unfold all_ascii in IH. now rewrite (IH Hs).
Qed.

Lemma has_high_not_ascii : forall s, has_high s = negb (all_ascii s).
Proof.
  induction s as [|b s IH]; [reflexivity|].
  cbn [has_high existsb all_ascii forallb]. unfold has_high, all_ascii in IH. rewrite IH.
  unfold is_ascii. destruct (forallb _ s); lia.
Qed.

(* what does not decode contains a byte >= 0x80 *)
Lemma undecodable_has_high : forall enc s, decode enc s = None -> has_high s = true.
Proof.
  intros enc s H. rewrite has_high_not_ascii. destruct (all_ascii s) eqn:A; [|reflexivity]. exfalso.
  destruct enc; cbn [decode] in H.
  - unfold decode_utf8 in H. now rewrite (urun_ascii s A) in H.
  - now rewrite A in H.
  - assert (B : is_bytes s = true).
    { unfold is_bytes, all_ascii in *. rewrite forallb_forall in *. intros b Hb. specialize (A b Hb).
      unfold is_byte, is_ascii in *. lia. }
    now rewrite B in H.
Qed.

Lemma ascii_decodable : forall enc s, all_ascii s = true -> decode enc s = Some s.
Proof.
  intros enc s A. destruct enc; cbn [decode].
  - now apply urun_ascii.
  - now rewrite A.
  - assert (B : is_bytes s = true).
    { unfold is_bytes, all_ascii in *. rewrite forallb_forall in *. intros b Hb. specialize (A b Hb).
      unfold is_byte, is_ascii in *. lia. }
    now rewrite B.
Qed.

(* ======================================================================= *)
(* facts about the generated tables (kernel-evaluated on every rebuild)      *)

(* every table sequence that contains a byte >= 0x80 is a single byte *)
Definition high_key_single (e : list N * str) : bool :=
  negb (has_high (fst e)) || (length (fst e) =? 1)%nat.
Lemma table_high_keys_single :
  forallb high_key_single (curtsies_names ++ curses_names) = true.
Proof. vm_compute. reflexivity. Qed.

(* every sequence with a curses name has a curtsies name *)
Lemma table_curses_subset :
  forallb (fun e => in_table curtsies_names (fst e)) curses_names = true.
Proof. vm_compute. reflexivity. Qed.

Lemma table_prefixes_ascii : forallb all_ascii keymap_prefixes = true.
Proof. vm_compute. reflexivity. Qed.

Lemma table_prefixes_short :
  forallb (fun p => (length p <? max_keypress_size)%nat) keymap_prefixes = true.
Proof. vm_compute. reflexivity. Qed.

(* keys are pairwise distinct (the list is a dict) *)
Fixpoint keys_distinct (l : list (list N)) : bool :=
  match l with
  | [] => true
  | k :: r => negb (mem k r) && keys_distinct r
  end.
Lemma table_keys_distinct :
  keys_distinct (map fst curtsies_names) = true /\ keys_distinct (map fst curses_names) = true.
Proof. split; vm_compute; reflexivity. Qed.

Lemma high_key_lookup : forall t s v,
  forallb high_key_single t = true -> lookup t s = Some v -> has_high s = true -> exists b, s = [b].
Proof.
  intros t s v F L H. apply lookup_In in L. rewrite forallb_forall in F. specialize (F _ L).
  unfold high_key_single in F. cbn [fst] in F. rewrite H in F. cbn in F.
  destruct s as [|b [|c s]]; cbn in F; try discriminate. now exists b.
Qed.

Lemma curtsies_high_single : forall s v, lookup curtsies_names s = Some v -> has_high s = true -> exists b, s = [b].
Proof.
  intros s v. apply high_key_lookup. pose proof table_high_keys_single as F.
  rewrite forallb_app in F. apply andb_true_iff in F. apply F.
Qed.

Lemma curses_in_curtsies : forall s v, lookup curses_names s = Some v -> exists w, lookup curtsies_names s = Some w.
Proof.
  intros s v L. apply lookup_In in L. pose proof table_curses_subset as F. rewrite forallb_forall in F.
  specialize (F _ L). cbn [fst] in F. unfold in_table in F. destruct (lookup curtsies_names s); [eauto|discriminate].
Qed.

(* ======================================================================= *)
(* C20: the naming mode changes names only                                   *)

(* _key_name cannot raise on a sequence get_key regards as known: the
   NotImplementedError branch (curses naming) and the unguarded decode (curtsies
   naming) are unreachable because of the two table facts above *)
Lemma key_name_known_ok : forall enc mode s,
  key_known enc s = true -> exists n, key_name enc mode s = Ok n.
Proof.
  intros enc mode s K. unfold key_name, key_name_with. destruct mode.
  - (* CURTSIES *)
    destruct (lookup curtsies_names s) as [n|] eqn:Lc; [eauto|].
    destruct (decode enc s) as [u|] eqn:D; [eauto|]. exfalso.
    unfold key_known, in_table, decodable in K. rewrite Lc, D in K.
    destruct (lookup curses_names s) as [v|] eqn:Ls; [|discriminate K].
    destruct (curses_in_curtsies _ _ Ls) as [w Hw]. congruence.
  - (* CURSES *)
    destruct (lookup curses_names s) as [n|] eqn:Ls; [eauto|].
    destruct (decode enc s) as [u|] eqn:D; [eauto|].
    unfold key_known, in_table, decodable in K. rewrite Ls, D in K.
    destruct (lookup curtsies_names s) as [v|] eqn:Lc; [|discriminate K].
    destruct (curtsies_high_single _ _ Lc (undecodable_has_high _ _ D)) as [b ->]. eauto.
  - eauto.
Qed.

Lemma key_known_unfold : forall enc s,
  key_known enc s = is_some (lookup curtsies_names s) || is_some (lookup curses_names s) || decodable enc s.
Proof. intros. unfold key_known, in_table, is_some. reflexivity. Qed.

(* get_key in any mode = get_key in BYTES mode, renamed *)
Lemma get_key_mode : forall enc mode full s,
  get_key enc mode full s =
  match get_key enc BYTES full s with
  | Key _ => of_res (key_name enc mode s)
  | o => o
  end.
Proof.
  intros enc mode full s. unfold get_key, get_key_with, key_name.
  destruct (max_keypress_size <? length s)%nat; [reflexivity|].
  destruct (full && _); [reflexivity|].
  destruct (if in_prefixes s then Ok true else could_be_unfinished_char enc s) as [[|]|e]; try reflexivity.
  destruct (is_some _ || is_some _ || decodable enc s); [reflexivity|].
  destruct (decode enc s); reflexivity.
Qed.

(* when BYTES naming returns a key, get_key regarded the sequence as known *)
Lemma get_key_bytes_key : forall enc full s k,
  get_key enc BYTES full s = Key k -> k = s /\ key_known enc s = true.
Proof.
  intros enc full s k. rewrite key_known_unfold. unfold get_key, get_key_with.
  destruct (max_keypress_size <? length s)%nat; [discriminate|].
  set (kn := is_some _ || is_some _ || decodable enc s).
  destruct kn eqn:K.
  - destruct full; cbn [andb key_name_with of_res].
    + intro H; inversion H; auto.
    + destruct (if in_prefixes s then Ok true else could_be_unfinished_char enc s) as [[|]|e]; try discriminate.
      intro H; inversion H; auto.
  - rewrite andb_false_r.
    destruct (if in_prefixes s then Ok true else could_be_unfinished_char enc s) as [[|]|e]; try discriminate.
    destruct (decode enc s); discriminate.
Qed.

Theorem shape_mode_independent : forall enc m1 m2 full s,
  shape_of (get_key enc m1 full s) = shape_of (get_key enc m2 full s).
Proof.
  assert (H : forall enc m full s, shape_of (get_key enc m full s) = shape_of (get_key enc BYTES full s)).
  { intros enc m full s. rewrite (get_key_mode enc m).
    destruct (get_key enc BYTES full s) as [k| |e] eqn:G; try reflexivity.
    apply get_key_bytes_key in G. destruct G as [_ K].
    destruct (key_name_known_ok enc m s K) as [n ->]. reflexivity. }
  intros. now rewrite (H enc m1), (H enc m2).
Qed.

(* BYTES naming returns exactly the bytes of the keypress *)
Theorem bytes_mode_exact : forall enc full s k, get_key enc BYTES full s = Key k -> k = s.
Proof. intros enc full s k H. now apply get_key_bytes_key in H. Qed.

(* the name reported is the table name of that mode / the decoded text *)
Lemma key_name_named : forall enc mode s n, key_name enc mode s = Ok n -> name_ok enc mode s n = true.
Proof.
  intros enc mode s n. unfold key_name, key_name_with, name_ok. rewrite !assoc_lookup. destruct mode.
  - destruct (lookup curtsies_names s); [intro H; inversion H; apply str_eqb_refl|].
    destruct (decode enc s); [intro H; inversion H; apply str_eqb_refl|discriminate].
  - destruct (lookup curses_names s); [intro H; inversion H; apply str_eqb_refl|].
    destruct (decode enc s); [intro H; inversion H; apply str_eqb_refl|].
    destruct s as [|b [|c s]]; try discriminate. intro H; inversion H; apply str_eqb_refl.
  - intro H; inversion H; apply str_eqb_refl.
Qed.

Theorem get_key_named : forall enc mode full s n,
  get_key enc mode full s = Key n -> name_ok enc mode s n = true.
Proof.
  intros enc mode full s n. rewrite get_key_mode.
  destruct (get_key enc BYTES full s); try discriminate.
  destruct (key_name enc mode s) eqn:K; cbn [of_res]; [|discriminate].
  intro H; inversion H; subst. now apply key_name_named.
Qed.

(* ======================================================================= *)
(* C03 item 1: lossless, for all byte strings                                *)

Lemma find_key_go_split : forall enc mode buf cur k used rest,
  find_key_go enc mode cur buf = Ok (Some (k, used, rest)) ->
  used ++ rest = cur ++ buf /\ (length cur < length used)%nat /\ name_ok enc mode used k = true.
Proof.
  induction buf as [|b buf IH]; intros cur k used rest H; cbn [find_key_go] in H.
  - destruct cur; discriminate.
  - destruct (get_key enc mode (is_nil buf) (cur ++ [b])) as [n| |e] eqn:G; [| |discriminate].
    + inversion H; subst. rewrite <- app_assoc. cbn [app]. split; [reflexivity|]. split.
      * rewrite app_length. cbn [length]. lia.
      * now apply get_key_named in G.
    + apply IH in H. destruct H as [H1 [H2 H3]]. rewrite <- app_assoc in H1. cbn [app] in H1.
      split; [assumption|]. split; [|assumption]. rewrite app_length in H2. cbn [length] in H2. lia.
Qed.

Lemma find_key_none : forall enc mode buf cur,
  find_key_go enc mode cur buf = Ok None -> cur = [] /\ buf = [].
Proof.
  induction buf as [|b buf IH]; intros cur H; cbn [find_key_go] in H.
  - destruct cur; [auto|discriminate].
  - destruct (get_key enc mode (is_nil buf) (cur ++ [b])); try discriminate.
    apply IH in H. destruct H as [H _]. destruct cur; discriminate.
Qed.

(* every key is the name of exactly the bytes it consumed; the consumed
   pieces, in order, followed by what is left, are the buffer *)
Theorem find_keys_n_lossless : forall enc mode n buf ks rest,
  find_keys_n n enc mode buf = Ok (ks, rest) ->
  concat (map snd ks) ++ rest = buf /\
  Forall (fun ku => snd ku <> [] /\ name_ok enc mode (snd ku) (fst ku) = true) ks.
Proof.
  induction n as [|n IH]; intros buf ks rest H; cbn [find_keys_n] in H.
  - inversion H; subst. split; [reflexivity | constructor].
  - unfold find_key in H. destruct (find_key_go enc mode [] buf) as [[[[k used] r]|]|e] eqn:F; [| |discriminate].
    + destruct (find_keys_n n enc mode r) as [[ks' r']|e] eqn:R; [|discriminate].
      inversion H; subst. apply IH in R. destruct R as [R1 R2].
      apply find_key_go_split in F. destruct F as [F1 [F2 F3]]. cbn [app] in F1.
      cbn [map concat snd]. rewrite <- app_assoc, R1. split; [assumption|].
      constructor; [|assumption]. cbn [fst snd]. split; [|assumption].
      intro E; subst. cbn [length] in F2. lia.
    + inversion H; subst. split; [reflexivity | constructor].
Qed.

(* BYTES naming: the keys ARE the consumed bytes, so their concatenation
   followed by the unconsumed rest is the buffer (DESIGN C03 item 1) *)
Theorem find_keys_bytes_lossless : forall enc n buf ks rest,
  find_keys_n n enc BYTES buf = Ok (ks, rest) ->
  concat (map fst ks) ++ rest = buf.
Proof.
  intros enc n buf ks rest H. apply find_keys_n_lossless in H. destruct H as [H1 H2].
  assert (E : map fst ks = map snd ks).
  { clear H1. induction H2 as [|[k u] ks [_ Hk] _ IH]; [reflexivity|].
    cbn [map fst snd] in *. cbn [name_ok] in Hk. apply str_eqb_eq in Hk. now rewrite Hk, IH. }
  now rewrite E.
Qed.

(* find_keys (fuel = buffer length + 1) decodes to the end of the buffer *)
Lemma find_keys_n_exhausts : forall enc mode n buf ks rest,
  (length buf < n)%nat -> find_keys_n n enc mode buf = Ok (ks, rest) -> rest = [].
Proof.
  induction n as [|n IH]; intros buf ks rest L H; [lia|]. cbn [find_keys_n] in H.
  unfold find_key in H. destruct (find_key_go enc mode [] buf) as [[[[k used] r]|]|e] eqn:F; [| |discriminate].
  - destruct (find_keys_n n enc mode r) as [[ks' r']|e] eqn:R; [|discriminate].
    inversion H; subst. apply find_key_go_split in F. destruct F as [F1 [F2 _]]. cbn [app length] in *.
    apply (IH r ks'); [|assumption]. rewrite <- F1, app_length in L. lia.
  - inversion H; subst. now apply find_key_none in F.
Qed.

Theorem find_keys_lossless : forall enc mode buf ks rest,
  find_keys enc mode buf = Ok (ks, rest) -> rest = [] /\ concat (map snd ks) = buf.
Proof.
  intros enc mode buf ks rest H. unfold find_keys in H.
  assert (R : rest = []) by (eapply find_keys_n_exhausts; [|exact H]; lia).
  split; [assumption|]. apply find_keys_n_lossless in H. destruct H as [H _]. rewrite R, app_nil_r in H. exact H.
Qed.

(* ======================================================================= *)
(* C20: the cut points do not depend on the naming mode                      *)

Definition cut1 (r : res (option (str * list N * list N))) : res (option (list N * list N)) :=
  match r with
  | Ok (Some (_, used, rest)) => Ok (Some (used, rest))
  | Ok None => Ok None
  | Raise e => Raise e
  end.

Lemma find_key_go_cuts : forall enc m1 m2 buf cur,
  cut1 (find_key_go enc m1 cur buf) = cut1 (find_key_go enc m2 cur buf).
Proof.
  induction buf as [|b buf IH]; intro cur; cbn [find_key_go].
  - reflexivity.
  - pose proof (shape_mode_independent enc m1 m2 (is_nil buf) (cur ++ [b])) as S.
    destruct (get_key enc m1 (is_nil buf) (cur ++ [b])), (get_key enc m2 (is_nil buf) (cur ++ [b]));
      cbn [shape_of] in S; try discriminate; cbn [cut1].
    + reflexivity.
    + apply IH.
    + now inversion S.
Qed.

(* the segmentation of a run: consumed pieces and the rest, or the exception *)
Definition cuts (r : res (list (str * list N) * list N)) : res (list (list N) * list N) :=
  match r with
  | Ok (ks, rest) => Ok (map snd ks, rest)
  | Raise e => Raise e
  end.

Theorem cuts_mode_independent : forall enc m1 m2 n buf,
  cuts (find_keys_n n enc m1 buf) = cuts (find_keys_n n enc m2 buf).
Proof.
  induction n as [|n IH]; intro buf; cbn [find_keys_n]; [reflexivity|].
  unfold find_key. pose proof (find_key_go_cuts enc m1 m2 buf []) as C.
  destruct (find_key_go enc m1 [] buf) as [[[[k1 u1] r1]|]|e1], (find_key_go enc m2 [] buf) as [[[[k2 u2] r2]|]|e2];
    cbn [cut1] in C; try discriminate; try reflexivity.
  - inversion C; subst. specialize (IH r2).
    destruct (find_keys_n n enc m1 r2) as [[ks1 q1]|e1], (find_keys_n n enc m2 r2) as [[ks2 q2]|e2];
      cbn [cuts] in IH |- *; try discriminate.
    + inversion IH; subst. cbn [map snd]. now rewrite H0.
    + now inversion IH.
  - now inversion C.
Qed.

(* ======================================================================= *)
(* C03 items 2-3: exactly when get_key answers key / more / raises           *)

(* could_be_unfinished_utf8 as a total boolean (its TypeError on the empty
   sequence is unreachable: the empty sequence is decodable) *)
Definition utf8_lead_wait (s : list N) : bool :=
  match could_be_unfinished_utf8 s with Ok b => b | Raise _ => false end.
(* could_be_unfinished_char as a boolean *)
Definition waiting (enc : encoding) (s : list N) : bool :=
  negb (decodable enc s) &&
  match enc with Utf8 => utf8_lead_wait s | Ascii => false | Latin1 => true end.

Lemma decodable_nil : forall enc, decodable enc [] = true.
Proof. destruct enc; reflexivity. Qed.

Lemma cbuc_waiting : forall enc s, could_be_unfinished_char enc s = Ok (waiting enc s).
Proof.
  intros enc s. unfold could_be_unfinished_char, waiting.
  destruct (decodable enc s) eqn:D; [reflexivity|]. cbn [negb andb].
  destruct enc; try reflexivity. unfold utf8_lead_wait.
  destruct s as [|o s]; [now rewrite decodable_nil in D|]. reflexivity.
Qed.

(* the cascade in closed form (BYTES naming; other modes rename the key) *)
Lemma get_key_bytes_closed : forall enc full s,
  get_key enc BYTES full s =
  if (max_keypress_size <? length s)%nat then Err ValueError
  else if full && key_known enc s then Key s
  else if in_prefixes s || waiting enc s then More
  else if key_known enc s then Key s
  else Err UnicodeDecodeError.
Proof.
  intros enc full s. rewrite key_known_unfold. unfold get_key, get_key_with.
  destruct (max_keypress_size <? length s)%nat; [reflexivity|].
  set (kn := is_some _ || is_some _ || decodable enc s).
  cbn [key_name_with of_res]. destruct (full && kn); [reflexivity|].
  rewrite cbuc_waiting. destruct (in_prefixes s); cbn [orb]; [reflexivity|].
  destruct (waiting enc s); [reflexivity|]. destruct kn eqn:K; [reflexivity|].
  destruct (decode enc s) eqn:D; [|reflexivity].
  subst kn. unfold decodable in K. rewrite D in K. rewrite orb_true_r in K. discriminate.
Qed.

Lemma shape_bytes : forall enc mode full s,
  shape_of (get_key enc mode full s) = shape_of (get_key enc BYTES full s).
Proof. intros. apply shape_mode_independent. Qed.

Lemma shape_err : forall o e, shape_of o = SErr e <-> o = Err e.
Proof. intros [n| |e'] e; cbn; split; intro H; try discriminate; inversion H; reflexivity. Qed.
Lemma shape_more : forall o, shape_of o = SMore <-> o = More.
Proof. intros [n| |e']; cbn; split; intro H; try discriminate; reflexivity. Qed.
Lemma shape_key : forall o, shape_of o = SKey <-> exists n, o = Key n.
Proof. intros [n| |e']; cbn; split; intro H; try discriminate; eauto; destruct H; discriminate. Qed.

(* exact failure characterisation, all byte strings, all encodings, all modes:
   get_key raises iff the sequence is longer than the longest table sequence
   (ValueError), or it is neither a table sequence nor decodable text, nor a
   member of KEYMAP_PREFIXES, nor (by the first byte only) an unfinished
   character (UnicodeDecodeError).  No other exception is possible. *)
Theorem get_key_raises_iff : forall enc mode full s e,
  get_key enc mode full s = Err e <->
  ((max_keypress_size < length s)%nat /\ e = ValueError) \/
  ((length s <= max_keypress_size)%nat /\ key_known enc s = false /\
   in_prefixes s = false /\ waiting enc s = false /\ e = UnicodeDecodeError).
Proof.
  intros enc mode full s e. rewrite <- shape_err, shape_bytes, shape_err, get_key_bytes_closed.
  destruct (max_keypress_size <? length s)%nat eqn:L.
  - split; [intro H; inversion H; left; split; [lia|reflexivity]|].
    intros [[_ ->]|[H _]]; [reflexivity|lia].
  - destruct (key_known enc s) eqn:K.
    + rewrite andb_true_r. destruct full; [|destruct (in_prefixes s || waiting enc s)];
        (split; [discriminate|intros [[H _]|[_ [H _]]]; [lia|discriminate]]).
    + rewrite andb_false_r. destruct (in_prefixes s) eqn:P; cbn [orb].
      * split; [discriminate|intros [[H _]|[_ [_ [H _]]]]; [lia|discriminate]].
      * destruct (waiting enc s) eqn:W.
        -- split; [discriminate|intros [[H _]|[_ [_ [_ [H _]]]]]; [lia|discriminate]].
        -- split; [intro H; inversion H; right; repeat split; lia|].
           intros [[H _]|[_ [_ [_ [_ ->]]]]]; [lia|reflexivity].
Qed.

(* asks for more exactly while: not (read ends and known), and the bytes are in
   KEYMAP_PREFIXES or look like an unfinished character *)
Theorem get_key_more_iff : forall enc mode full s,
  get_key enc mode full s = More <->
  (length s <= max_keypress_size)%nat /\ (full && key_known enc s = false) /\
  (in_prefixes s = true \/ waiting enc s = true).
Proof.
  intros enc mode full s. rewrite <- shape_more, shape_bytes, shape_more, get_key_bytes_closed.
  destruct (max_keypress_size <? length s)%nat eqn:L; [split; [discriminate|intros [H _]; lia]|].
  destruct (full && key_known enc s) eqn:FK; [split; [discriminate|intros [_ [H _]]; discriminate]|].
  destruct (in_prefixes s || waiting enc s) eqn:PW.
  - split; [|reflexivity]. intros _. apply orb_true_iff in PW. repeat split; [lia|assumption].
  - apply orb_false_iff in PW. destruct PW as [P W].
    destruct (key_known enc s); (split; [discriminate|intros [_ [_ [H|H]]]; congruence]).
Qed.

(* ---- one decoder query against the property, table queries shared -------- *)
Definition encs := [Utf8; Ascii; Latin1].
Definition modes := [CURTSIES; CURSES; BYTES].
Definition bools := [true; false].

Lemma In_encs : forall e, In e encs. Proof. destruct e; cbn; auto. Qed.
Lemma In_bools : forall b, In b bools. Proof. destruct b; cbn; auto. Qed.

(* for the pending bytes [s]: in every encoding and both [full] situations the
   decoder's answer has the shape the property requires, or [s] is in the F-C03 family *)
Definition query_ok_with (lc ls : option str) (ip g fp tbl : bool) (s : list N) : bool :=
  forallb (fun enc => forallb (fun full =>
    (negb (encoding_eqb enc Latin1) && fp) ||
    req_shape_ok (required_with g fp tbl enc full s)
                 (shape_of (get_key_with lc ls ip enc BYTES full s))) bools) encs.
Definition query_ok (s : list N) : bool :=
  query_ok_with (lookup curtsies_names s) (lookup curses_names s) (in_prefixes s)
                (growable s) (fc03_point s) (is_table_seq s) s.

Lemma req_shape_lift : forall r enc mode full s,
  req_shape_ok r (shape_of (get_key enc BYTES full s)) = true ->
  req_ok r enc mode s (get_key enc mode full s) = true.
Proof.
  intros r enc mode full s H. rewrite <- (shape_bytes enc mode) in H.
  destruct (get_key enc mode full s) as [n| |e] eqn:G; destruct r; cbn in H |- *; try discriminate; try reflexivity.
  now apply get_key_named in G.
Qed.

Lemma query_ok_spec : forall s, query_ok s = true ->
  forall enc mode full, fc03_family enc s = true \/ prop_ok enc mode full s (get_key enc mode full s) = true.
Proof.
  intros s Q enc mode full. unfold query_ok, query_ok_with in Q. rewrite forallb_forall in Q.
  specialize (Q enc (In_encs enc)). rewrite forallb_forall in Q. specialize (Q full (In_bools full)).
  apply orb_true_iff in Q. destruct Q as [Q|Q]; [now left|right].
  unfold prop_ok. now apply req_shape_lift.
Qed.

(* ---- the complete one-step tree ------------------------------------------ *)
Definition step_ok (p : list N) (b : N) : bool :=
  let s := p ++ [b] in
  let lc := lookup curtsies_names s in
  let ls := lookup curses_names s in
  let ip := in_prefixes s in
  let g := growable s in
  query_ok_with lc ls ip g (fc03_point s) (is_table_seq s) s &&
  forallb (fun enc => forallb (fun full =>
    shape_eqb (shape_of (get_key_with lc ls ip enc BYTES full s)) (expected_step_with g enc full p b)) bools) encs.

Definition tree_nodes : list (list N) := [] :: keymap_prefixes.

Lemma tree_checked : forallb (fun p => forallb (step_ok p) all_bytes) tree_nodes = true.
Proof. vm_cast_no_check (eq_refl true). Qed.

Lemma shape_eqb_eq : forall a b, shape_eqb a b = true -> a = b.
Proof.
  intros [| |e] [| |e'] H; cbn in H; try discriminate; try reflexivity.
  destruct e, e'; cbn in H; try discriminate; reflexivity.
Qed.

Lemma step_ok_at : forall p b, In p tree_nodes -> b < 256 -> step_ok p b = true.
Proof.
  intros p b Hp Hb. pose proof tree_checked as T. rewrite forallb_forall in T.
  specialize (T p Hp). now apply byte_cases.
Qed.

(* ---- KEYMAP_PREFIXES is what it is meant to be --------------------------- *)
Lemma is_prefix_firstn : forall p s, is_prefix p s = true -> p = firstn (length p) s.
Proof.
  induction p as [|a p IH]; intros s H; [reflexivity|].
  destruct s as [|b s]; cbn [is_prefix] in H; [discriminate|].
  destruct (a =? b) eqn:E; [|discriminate]. apply N.eqb_eq in E. subst.
  cbn [length firstn]. f_equal. now apply IH.
Qed.

Lemma prefixes_growable_checked : forallb growable keymap_prefixes = true.
Proof. vm_compute. reflexivity. Qed.
Lemma growable_prefixes_checked :
  forallb (fun k => if starts_esc k then forallb in_prefixes (proper_prefixes k) else true) table_keys = true.
Proof. vm_compute. reflexivity. Qed.

(* KEYMAP_PREFIXES (as built by the Python module) = the non-empty proper
   prefixes of the ESC-initiated table sequences (computed here from the tables) *)
Theorem prefixes_correct : forall s, in_prefixes s = growable s.
Proof.
  intro s. destruct (growable s) eqn:G.
  - unfold growable in G. apply andb_true_iff in G. destruct G as [Hne G].
    apply existsb_exists in G. destruct G as [k [Hk G]].
    destruct (starts_esc k) eqn:E; [|discriminate].
    unfold proper_prefix in G. destruct (is_prefix s k) eqn:P; [|discriminate].
    pose proof growable_prefixes_checked as C. rewrite forallb_forall in C. specialize (C k Hk).
    rewrite E in C. rewrite forallb_forall in C. apply C.
    unfold proper_prefixes. apply in_map_iff. exists (length s). split.
    + symmetry. now apply is_prefix_firstn.
    + apply in_seq. destruct s; [discriminate|]. cbn [length] in *. lia.
  - destruct (in_prefixes s) eqn:P; [|reflexivity]. apply in_prefixes_In in P.
    pose proof prefixes_growable_checked as C. rewrite forallb_forall in C. rewrite (C s P) in G. discriminate.
Qed.

(* ---- theorems over the complete one-step tree ---------------------------- *)
Lemma fc03_point_snoc : forall p b, fc03_point (p ++ [b]) = growable p && (128 <=? b).
Proof. intros. unfold fc03_point. now rewrite removelast_last, last_last. Qed.

Lemma node_growable : forall p, In p tree_nodes -> growable p = nonempty p.
Proof.
  intros p [<-|H]; [reflexivity|]. rewrite <- prefixes_correct.
  apply in_prefixes_In in H. rewrite H. destruct p; [|reflexivity].
  rewrite prefixes_correct in H. discriminate.
Qed.

(* every node: pending bytes p (empty or in KEYMAP_PREFIXES), next byte b *)
Theorem one_step_tree : forall p b enc mode full,
  In p tree_nodes -> b < 256 ->
  shape_of (get_key enc mode full (p ++ [b])) = expected_step enc full p b.
Proof.
  intros p b enc mode full Hp Hb. rewrite shape_bytes.
  pose proof (step_ok_at p b Hp Hb) as S. unfold step_ok in S. apply andb_true_iff in S. destruct S as [_ S].
  rewrite forallb_forall in S. specialize (S enc (In_encs enc)).
  rewrite forallb_forall in S. specialize (S full (In_bools full)).
  apply shape_eqb_eq in S. exact S.
Qed.

Theorem one_step_property : forall p b enc mode full,
  In p tree_nodes -> b < 256 ->
  fc03_family enc (p ++ [b]) = true \/
  prop_ok enc mode full (p ++ [b]) (get_key enc mode full (p ++ [b])) = true.
Proof.
  intros p b enc mode full Hp Hb.
  pose proof (step_ok_at p b Hp Hb) as S. unfold step_ok in S. apply andb_true_iff in S. destruct S as [S _].
  now apply query_ok_spec.
Qed.

Lemma fc03_family_node : forall p b enc, In p tree_nodes ->
  fc03_family enc (p ++ [b]) = nonempty p && (128 <=? b) && negb (encoding_eqb enc Latin1).
Proof.
  intros p b enc Hp. unfold fc03_family. rewrite fc03_point_snoc, (node_growable p Hp).
  destruct (nonempty p), (128 <=? b), (encoding_eqb enc Latin1); reflexivity.
Qed.

(* EXACT failure characterisation on the tree: the decoder raises iff the
   pending bytes are a member of KEYMAP_PREFIXES and the next byte is >= 0x80
   under utf-8 / ascii -- the known finding F-C03 -- and then it is UnicodeDecodeError *)
Theorem one_step_raises_iff : forall p b enc mode full e,
  In p tree_nodes -> b < 256 ->
  (get_key enc mode full (p ++ [b]) = Err e <->
   p <> [] /\ 128 <= b /\ enc <> Latin1 /\ e = UnicodeDecodeError).
Proof.
  intros p b enc mode full e Hp Hb. rewrite <- shape_err, (one_step_tree p b enc mode full Hp Hb).
  unfold expected_step, expected_step_with.
  destruct (nonempty p) eqn:NE, (128 <=? b) eqn:HB, (encoding_eqb enc Latin1) eqn:EL; cbn [andb negb];
    try (split; [intro H; inversion H; repeat split; try lia;
                 [intro; subst; discriminate | intro; subst; discriminate]
                |intros [_ [_ [_ ->]]]; reflexivity]).
  all: split;
    [ destruct (growable (p ++ [b])); [destruct full; discriminate|];
      destruct (encoding_eqb enc Utf8 && is_nil p && in_range 192 253 b && negb full); discriminate
    | intros [H1 [H2 [H3 _]]]; exfalso ].
  all: try (destruct enc; try discriminate; now apply H3).
  all: try lia.
  all: destruct p; [now apply H1 | discriminate].
Qed.

Theorem one_step_more_iff : forall p b enc mode full,
  In p tree_nodes -> b < 256 ->
  (get_key enc mode full (p ++ [b]) = More <->
   fc03_family enc (p ++ [b]) = false /\ full = false /\
   (growable (p ++ [b]) = true \/ (enc = Utf8 /\ p = [] /\ 192 <= b <= 253))).
Proof.
  intros p b enc mode full Hp Hb. rewrite <- shape_more, (one_step_tree p b enc mode full Hp Hb).
  rewrite (fc03_family_node p b enc Hp). unfold expected_step, expected_step_with.
  destruct (nonempty p && (128 <=? b) && negb (encoding_eqb enc Latin1)) eqn:F.
  - split; [discriminate|]. intros [H _]; discriminate.
  - destruct (growable (p ++ [b])) eqn:G.
    + destruct full; (split; [try discriminate; auto | intros [_ [H _]]; try discriminate; reflexivity]).
    + destruct (encoding_eqb enc Utf8 && is_nil p && in_range 192 253 b && negb full) eqn:U.
      * split; [|reflexivity]. intros _.
        apply andb_true_iff in U. destruct U as [U U4]. apply andb_true_iff in U. destruct U as [U U3].
        apply andb_true_iff in U. destruct U as [U1 U2].
        split; [reflexivity|]. split; [now destruct full|]. right.
        split; [now destruct enc|]. split; [now destruct p|]. unfold in_range in U3. lia.
      * split; [discriminate|]. intros [_ [-> [H|[-> [-> H]]]]]; [discriminate|].
        cbn in U. unfold in_range in U. lia.
Qed.

(* the finding is real: the model (= the code, by correspondence) raises on
   ESC followed by the first byte of e-acute, and the whole read is lost *)
Example fc03_refuted :
  get_key Utf8 CURTSIES false [27; 195] = Err UnicodeDecodeError /\
  find_keys Utf8 BYTES [27; 195; 169] = Raise UnicodeDecodeError /\
  find_keys Utf8 BYTES [27] = Ok ([([27], [27])], []) /\
  find_keys Utf8 CURTSIES [195; 169] = Ok ([([233], [195; 169])], []).
Proof. vm_compute. repeat split. Qed.

(* ======================================================================= *)
(* C03 item 4: every table sequence is decoded under its table name          *)

Definition shape_is (sh : shape) (enc : encoding) (full : bool) (lc ls : option str) (ip : bool) (s : list N) : bool :=
  shape_eqb (shape_of (get_key_with lc ls ip enc BYTES full s)) sh.

(* for the table sequence k, in every encoding:
   - every proper prefix yields More while more is buffered (never a key, never an error);
   - k itself: if it can grow into a longer table sequence, More while more is
     buffered and a key when the read ends; otherwise a key at once (under utf-8
     the single bytes >= 0x80 only when the read ends);
   and each of these queries satisfies the property relation [prop_ok] *)
Definition entry_ok (k : list N) : bool :=
  forallb (fun i =>
    let s := firstn i k in
    query_ok s && negb (fc03_point s) &&
    shape_is SMore Utf8 false (lookup curtsies_names s) (lookup curses_names s) (in_prefixes s) s &&
    shape_is SMore Ascii false (lookup curtsies_names s) (lookup curses_names s) (in_prefixes s) s &&
    shape_is SMore Latin1 false (lookup curtsies_names s) (lookup curses_names s) (in_prefixes s) s)
    (seq 1 (length k - 1)) &&
  query_ok k && negb (fc03_point k) &&
  let lc := lookup curtsies_names k in
  let ls := lookup curses_names k in
  let ip := in_prefixes k in
  let g := growable k in
  forallb (fun enc =>
    shape_is SKey enc true lc ls ip k &&
    (if g then shape_is SMore enc false lc ls ip k
     else meta_collision enc k || shape_is SKey enc false lc ls ip k)) encs.

Theorem table_entries_checked : forallb entry_ok table_keys = true.
Proof. vm_cast_no_check (eq_refl true). Qed.

Lemma shape_is_spec : forall sh enc full s,
  shape_is sh enc full (lookup curtsies_names s) (lookup curses_names s) (in_prefixes s) s = true ->
  forall mode, shape_of (get_key enc mode full s) = sh.
Proof. intros sh enc full s H mode. rewrite shape_bytes. apply shape_eqb_eq in H. exact H. Qed.

Lemma key_shape_named : forall enc mode full s,
  shape_of (get_key enc mode full s) = SKey ->
  exists n, get_key enc mode full s = Key n /\ name_ok enc mode s n = true.
Proof.
  intros enc mode full s H. apply shape_key in H. destruct H as [n H]. exists n. split; [assumption|].
  now apply get_key_named in H.
Qed.

(* the explicit reading of [entry_ok], for every sequence of either table,
   every encoding and every naming mode *)
Theorem table_entry_decoding : forall k enc mode, In k table_keys ->
  (forall i, (1 <= i < length k)%nat -> get_key enc mode false (firstn i k) = More) /\
  (exists n, get_key enc mode true k = Key n /\ name_ok enc mode k n = true) /\
  (growable k = true -> get_key enc mode false k = More) /\
  (growable k = false -> meta_collision enc k = false ->
     exists n, get_key enc mode false k = Key n /\ name_ok enc mode k n = true).
Proof.
  intros k enc mode Hk. pose proof table_entries_checked as T. rewrite forallb_forall in T.
  specialize (T k Hk). unfold entry_ok in T.
  apply andb_true_iff in T. destruct T as [T T4]. apply andb_true_iff in T. destruct T as [T _].
  apply andb_true_iff in T. destruct T as [T1 _].
  rewrite forallb_forall in T1, T4. specialize (T4 enc (In_encs enc)).
  apply andb_true_iff in T4. destruct T4 as [Tfull Tnot].
  split; [|split; [|split]].
  - intros i Hi. assert (Hin : In i (seq 1 (length k - 1))) by (apply in_seq; lia).
    specialize (T1 i Hin). cbv zeta in T1.
    apply andb_true_iff in T1. destruct T1 as [T1 C]. apply andb_true_iff in T1. destruct T1 as [T1 B].
    apply andb_true_iff in T1. destruct T1 as [_ A].
    apply shape_more. destruct enc; eapply shape_is_spec; eassumption.
  - apply key_shape_named. eapply shape_is_spec; eassumption.
  - intro G. rewrite G in Tnot. apply shape_more. eapply shape_is_spec; eassumption.
  - intros G M. rewrite G, M in Tnot. cbn [orb] in Tnot. apply key_shape_named. eapply shape_is_spec; eassumption.
Qed.

(* ... and every such query satisfies the property relation *)
Theorem table_entry_property : forall k enc mode full i, In k table_keys -> (1 <= i <= length k)%nat ->
  prop_ok enc mode full (firstn i k) (get_key enc mode full (firstn i k)) = true.
Proof.
  intros k enc mode full i Hk Hi. pose proof table_entries_checked as T. rewrite forallb_forall in T.
  specialize (T k Hk). unfold entry_ok in T.
  apply andb_true_iff in T. destruct T as [T _]. apply andb_true_iff in T. destruct T as [T F2].
  apply andb_true_iff in T. destruct T as [T1 Q2].
  assert (Q : query_ok (firstn i k) = true /\ fc03_point (firstn i k) = false).
  { destruct (Nat.eq_dec i (length k)) as [->|Hne].
    - rewrite firstn_all. split; [assumption|]. now destruct (fc03_point k).
    - rewrite forallb_forall in T1. assert (Hin : In i (seq 1 (length k - 1))) by (apply in_seq; lia).
      specialize (T1 i Hin). cbv zeta in T1.
      apply andb_true_iff in T1. destruct T1 as [T1 _]. apply andb_true_iff in T1. destruct T1 as [T1 _].
      apply andb_true_iff in T1. destruct T1 as [T1 _]. apply andb_true_iff in T1. destruct T1 as [A B].
      split; [assumption|]. now destruct (fc03_point (firstn i k)). }
  destruct Q as [Q P]. destruct (query_ok_spec _ Q enc mode full) as [H|H]; [|assumption].
  unfold fc03_family in H. rewrite P, andb_false_r in H. discriminate.
Qed.

(* the name reported for a table sequence in the mode of that table IS the table's name *)
Lemma name_ok_table : forall enc k n v,
  (lookup curtsies_names k = Some v -> name_ok enc CURTSIES k n = true -> n = v) /\
  (lookup curses_names k = Some v -> name_ok enc CURSES k n = true -> n = v).
Proof.
  intros enc k n v. unfold name_ok. rewrite !assoc_lookup. split; intros L H; rewrite L in H; now apply str_eqb_eq in H.
Qed.

Example table_entries_nonvacuous :
  mem [27; 91; 49; 59; 49; 48; 65] table_keys = true /\ growable [27; 91] = true /\ mem [27; 91] table_keys = true /\
  get_key Utf8 CURSES true [27; 91; 65] = Key [75; 69; 89; 95; 85; 80].
Proof. vm_compute. repeat split. Qed.

(* ======================================================================= *)
(* C03 item 5: every character is reported as itself                         *)

Lemma high_not_prefix : forall s, has_high s = true -> in_prefixes s = false.
Proof.
  intros s H. destruct (in_prefixes s) eqn:P; [|reflexivity]. apply in_prefixes_In in P.
  pose proof table_prefixes_ascii as A. rewrite forallb_forall in A. specialize (A s P).
  rewrite has_high_not_ascii, A in H. discriminate.
Qed.

Lemma high_long_not_table : forall s, has_high s = true -> (2 <= length s)%nat ->
  lookup curtsies_names s = None /\ lookup curses_names s = None.
Proof.
  intros s H L. pose proof table_high_keys_single as F. rewrite forallb_app in F.
  apply andb_true_iff in F. destruct F as [F1 F2]. split.
  - destruct (lookup curtsies_names s) eqn:E; [|reflexivity].
    destruct (high_key_lookup _ _ _ F1 E H) as [b ->]. cbn in L. lia.
  - destruct (lookup curses_names s) eqn:E; [|reflexivity].
    destruct (high_key_lookup _ _ _ F2 E H) as [b ->]. cbn in L. lia.
Qed.

Lemma max_keypress_ge_4 : (4 <= max_keypress_size)%nat.
Proof. vm_compute. lia. Qed.

(* a complete multi-byte character that is decodable: a key at once, named by its decoding *)
Lemma multibyte_char_key : forall enc mode full s u,
  has_high s = true -> (2 <= length s <= 4)%nat -> decode enc s = Some u ->
  get_key enc mode full s = Key (match mode with BYTES => s | _ => u end).
Proof.
  intros enc mode full s u H L D. destruct (high_long_not_table s H) as [Lc Ls]; [lia|].
  unfold get_key, get_key_with. rewrite Lc, Ls, (high_not_prefix s H).
  pose proof max_keypress_ge_4 as M.
  replace (max_keypress_size <? length s)%nat with false by lia.
  unfold could_be_unfinished_char, decodable. rewrite D. cbn [is_some orb andb].
  unfold key_name_with. rewrite D. destruct full, mode; reflexivity.
Qed.

(* an undecodable beginning whose first byte announces (by the masks) more
   bytes than are there: More while more is buffered *)
Lemma lead_wait_more : forall mode s,
  has_high s = true -> (length s <= 4)%nat -> decode Utf8 s = None -> utf8_lead_wait s = true ->
  get_key Utf8 mode false s = More.
Proof.
  intros mode s H L D W. apply get_key_more_iff. pose proof max_keypress_ge_4 as M.
  split; [lia|]. split; [reflexivity|]. right. unfold waiting, decodable. rewrite D, W. reflexivity.
Qed.

(* the five masks of could_be_unfinished_utf8, as byte ranges *)
Lemma lead_masks_checked :
  forallb (fun b => Bool.eqb (N.land b 224 =? 192) (in_range 192 223 b) &&
                    Bool.eqb (N.land b 240 =? 224) (in_range 224 239 b) &&
                    Bool.eqb (N.land b 248 =? 240) (in_range 240 247 b) &&
                    Bool.eqb (N.land b 252 =? 248) (in_range 248 251 b) &&
                    Bool.eqb (N.land b 254 =? 252) (in_range 252 253 b)) all_bytes = true.
Proof. vm_compute. reflexivity. Qed.

Lemma lead_masks : forall b, b < 256 ->
  (N.land b 224 =? 192) = in_range 192 223 b /\ (N.land b 240 =? 224) = in_range 224 239 b /\
  (N.land b 248 =? 240) = in_range 240 247 b.
Proof.
  intros b Hb. pose proof (byte_cases _ lead_masks_checked b Hb) as H. cbv beta in H.
  repeat (apply andb_true_iff in H; destruct H as [H ?]).
  repeat split; now apply eqb_prop.
Qed.

Ltac split_ifs :=
  repeat match goal with
         | |- context [if ?c then _ else _] =>
             let E := fresh "E" in destruct c eqn:E; try (exfalso; lia)
         end.

Ltac crunch := repeat (progress (cbn [urun ustep]; unfold in_range; split_ifs)).

Lemma wf2_decode : forall b0 b1, wf2 b0 b1 = true ->
  urun UGround [b0; b1] = Some [cp2 b0 b1] /\ urun UGround [b0] = None.
Proof.
  intros b0 b1 W. unfold wf2, is_cont, in_range in W. unfold cp2.
  split; crunch; try reflexivity; f_equal; f_equal; lia.
Qed.

Lemma wf3_decode : forall b0 b1 b2, wf3 b0 b1 b2 = true ->
  urun UGround [b0; b1; b2] = Some [cp3 b0 b1 b2] /\ urun UGround [b0] = None /\ urun UGround [b0; b1] = None.
Proof.
  intros b0 b1 b2 W. unfold wf3, is_cont, in_range in W. unfold cp3.
  repeat split; crunch; try reflexivity; f_equal; f_equal; lia.
Qed.

Lemma wf4_decode : forall b0 b1 b2 b3, wf4 b0 b1 b2 b3 = true ->
  urun UGround [b0; b1; b2; b3] = Some [cp4 b0 b1 b2 b3] /\ urun UGround [b0] = None /\
  urun UGround [b0; b1] = None /\ urun UGround [b0; b1; b2] = None.
Proof.
  intros b0 b1 b2 b3 W. unfold wf4, is_cont, in_range in W. unfold cp4.
  repeat split; crunch; try reflexivity; f_equal; f_equal; lia.
Qed.

Lemma has_high_cons : forall b s, 128 <= b -> has_high (b :: s) = true.
Proof. intros b s H. cbn [has_high existsb]. replace (128 <=? b) with true by lia. reflexivity. Qed.

Lemma lead_wait_len : forall b s n,
  b < 256 -> (in_range 192 223 b = true /\ n = 2%nat) \/ (in_range 224 239 b = true /\ n = 3%nat) \/
             (in_range 240 247 b = true /\ n = 4%nat) ->
  (length (b :: s) < n)%nat -> utf8_lead_wait (b :: s) = true.
Proof.
  intros b s n Hb H L. unfold utf8_lead_wait, could_be_unfinished_utf8.
  destruct (lead_masks b Hb) as [M1 [M2 M3]]. rewrite M1, M2, M3.
  destruct H as [[R ->]|[[R ->]|[R ->]]]; rewrite R.
  - replace (length (b :: s) <? 2)%nat with true by lia. reflexivity.
  - replace (length (b :: s) <? 3)%nat with true by lia. cbn [andb]. now rewrite orb_true_r.
  - replace (length (b :: s) <? 4)%nat with true by lia. cbn [andb]. now rewrite !orb_true_r.
Qed.

(* two-byte characters, from the byte ranges alone *)
Theorem utf8_char_2 : forall b0 b1 mode, wf2 b0 b1 = true ->
  get_key Utf8 mode false [b0] = More /\
  forall full, get_key Utf8 mode full [b0; b1] = Key (char_key mode [b0; b1] (cp2 b0 b1)).
Proof.
  intros b0 b1 mode W. destruct (wf2_decode b0 b1 W) as [D2 D1].
  unfold wf2, is_cont, in_range in W.
  assert (H0 : 128 <= b0) by lia. split.
  - apply lead_wait_more; [now apply has_high_cons | cbn; lia | exact D1 |].
    apply (lead_wait_len b0 [] 2); [lia | left; unfold in_range; split; lia | cbn; lia].
  - intro full. rewrite (multibyte_char_key Utf8 mode full _ [cp2 b0 b1]);
      [now destruct mode | now apply has_high_cons | cbn; lia | exact D2].
Qed.

Theorem utf8_char_3 : forall b0 b1 b2 mode, wf3 b0 b1 b2 = true ->
  get_key Utf8 mode false [b0] = More /\ get_key Utf8 mode false [b0; b1] = More /\
  forall full, get_key Utf8 mode full [b0; b1; b2] = Key (char_key mode [b0; b1; b2] (cp3 b0 b1 b2)).
Proof.
  intros b0 b1 b2 mode W. destruct (wf3_decode b0 b1 b2 W) as [D3 [D1 D2]].
  unfold wf3, is_cont, in_range in W.
  assert (H0 : 224 <= b0 <= 239) by lia. split; [|split].
  - apply lead_wait_more; [apply has_high_cons; lia | cbn; lia | exact D1 |].
    apply (lead_wait_len b0 [] 3); [lia | right; left; unfold in_range; split; lia | cbn; lia].
  - apply lead_wait_more; [apply has_high_cons; lia | cbn; lia | exact D2 |].
    apply (lead_wait_len b0 [b1] 3); [lia | right; left; unfold in_range; split; lia | cbn; lia].
  - intro full. rewrite (multibyte_char_key Utf8 mode full _ [cp3 b0 b1 b2]);
      [now destruct mode | apply has_high_cons; lia | cbn; lia | exact D3].
Qed.

Theorem utf8_char_4 : forall b0 b1 b2 b3 mode, wf4 b0 b1 b2 b3 = true ->
  get_key Utf8 mode false [b0] = More /\ get_key Utf8 mode false [b0; b1] = More /\
  get_key Utf8 mode false [b0; b1; b2] = More /\
  forall full, get_key Utf8 mode full [b0; b1; b2; b3] = Key (char_key mode [b0; b1; b2; b3] (cp4 b0 b1 b2 b3)).
Proof.
  intros b0 b1 b2 b3 mode W. destruct (wf4_decode b0 b1 b2 b3 W) as [D4 [D1 [D2 D3]]].
  unfold wf4, is_cont, in_range in W.
  assert (H0 : 240 <= b0 <= 244) by lia. split; [|split; [|split]].
  - apply lead_wait_more; [apply has_high_cons; lia | cbn; lia | exact D1 |].
    apply (lead_wait_len b0 [] 4); [lia | right; right; unfold in_range; split; lia | cbn; lia].
  - apply lead_wait_more; [apply has_high_cons; lia | cbn; lia | exact D2 |].
    apply (lead_wait_len b0 [b1] 4); [lia | right; right; unfold in_range; split; lia | cbn; lia].
  - apply lead_wait_more; [apply has_high_cons; lia | cbn; lia | exact D3 |].
    apply (lead_wait_len b0 [b1; b2] 4); [lia | right; right; unfold in_range; split; lia | cbn; lia].
  - intro full. rewrite (multibyte_char_key Utf8 mode full _ [cp4 b0 b1 b2 b3]);
      [now destruct mode | apply has_high_cons; lia | cbn; lia | exact D4].
Qed.

(* the encoder produces exactly those byte patterns, and they decode back *)
Lemma encode_wf : forall c, is_scalar c = true -> 128 <= c ->
  match utf8_encode c with
  | [b0; b1] => wf2 b0 b1 = true /\ cp2 b0 b1 = c
  | [b0; b1; b2] => wf3 b0 b1 b2 = true /\ cp3 b0 b1 b2 = c
  | [b0; b1; b2; b3] => wf4 b0 b1 b2 b3 = true /\ cp4 b0 b1 b2 b3 = c
  | _ => False
  end.
Proof.
  intros c S L. unfold is_scalar in S. unfold utf8_encode.
  replace (c <? 128) with false by lia.
  destruct (c <? 2048) eqn:E1; [|destruct (c <? 65536) eqn:E2].
  - pose proof (N.div_mod c 64). pose proof (N.mod_lt c 64).
    assert (c / 64 < 32) by (apply N.div_lt_upper_bound; lia).
    assert (2 <= c / 64) by (apply N.div_le_lower_bound; lia).
    unfold wf2, cp2, is_cont, in_range. split; lia.
  - pose proof (N.div_mod c 64). pose proof (N.mod_lt c 64).
    pose proof (N.div_mod (c / 64) 64). pose proof (N.mod_lt (c / 64) 64).
    assert (Q : c / 4096 = c / 64 / 64) by (rewrite N.div_div; [reflexivity|lia|lia]).
    assert (c / 4096 < 16) by (apply N.div_lt_upper_bound; lia).
    unfold wf3, cp3, is_cont, in_range. rewrite Q in *.
    set (q := c / 64 / 64) in *. set (r1 := (c / 64) mod 64) in *. set (r2 := c mod 64) in *.
    set (d := c / 64) in *.
    split; [|lia].
    assert (C : q = 0 \/ (1 <= q <= 12) \/ q = 13 \/ (14 <= q <= 15)) by lia.
    destruct C as [C|[C|[C|C]]].
    + subst q. rewrite C in *. lia.
    + lia.
    + rewrite C in *. lia.
    + lia.
  - pose proof (N.div_mod c 64). pose proof (N.mod_lt c 64).
    pose proof (N.div_mod (c / 64) 64). pose proof (N.mod_lt (c / 64) 64).
    pose proof (N.div_mod (c / 64 / 64) 64). pose proof (N.mod_lt (c / 64 / 64) 64).
    assert (Q1 : c / 4096 = c / 64 / 64) by (rewrite N.div_div; [reflexivity|lia|lia]).
    assert (Q2 : c / 262144 = c / 64 / 64 / 64) by (rewrite !N.div_div; [reflexivity|lia..]).
    assert (c / 262144 < 5) by (apply N.div_lt_upper_bound; lia).
    unfold wf4, cp4, is_cont, in_range. rewrite Q1, Q2 in *.
    set (d1 := c / 64) in *. set (d2 := d1 / 64) in *. set (q := d2 / 64) in *.
    set (r1 := d2 mod 64) in *. set (r2 := d1 mod 64) in *. set (r3 := c mod 64) in *.
    split; [|lia].
    assert (C : q = 0 \/ (1 <= q <= 3) \/ q = 4) by lia.
    destruct C as [C|[C|C]].
    + rewrite C in *. lia.
    + lia.
    + rewrite C in *. lia.
Qed.

Lemma not_table_lookup : forall s, is_table_seq s = false ->
  lookup curtsies_names s = None /\ lookup curses_names s = None.
Proof.
  intros s H. unfold is_table_seq, mem, table_keys in H. rewrite existsb_app in H.
  apply orb_false_iff in H. destruct H as [H1 H2].
  assert (G : forall t, existsb (bytes_eqb s) (map fst t) = false -> lookup t s = None).
  { intros t E. destruct (lookup t s) eqn:L; [|reflexivity]. apply lookup_In in L.
    assert (X : existsb (bytes_eqb s) (map fst t) = true).
    { apply existsb_exists. exists s. split; [|apply bytes_eqb_refl].
      apply in_map_iff. exists (s, s0). split; [reflexivity|assumption]. }
    congruence. }
  split; now apply G.
Qed.

Lemma single_prefixes_in_table :
  forallb (fun p => (1 <? length p)%nat || is_table_seq p) keymap_prefixes = true.
Proof. vm_compute. reflexivity. Qed.

Lemma max_keypress_ge_1 : (1 <= max_keypress_size)%nat.
Proof. pose proof max_keypress_ge_4. lia. Qed.

(* a single byte that is a character and not a table sequence *)
Lemma single_char_key : forall enc mode full b c,
  decode enc [b] = Some [c] -> is_table_seq [b] = false ->
  get_key enc mode full [b] = Key (char_key mode [b] c).
Proof.
  intros enc mode full b c D T. destruct (not_table_lookup _ T) as [Lc Ls].
  assert (P : in_prefixes [b] = false).
  { destruct (in_prefixes [b]) eqn:P; [|reflexivity]. apply in_prefixes_In in P.
    pose proof single_prefixes_in_table as F. rewrite forallb_forall in F. specialize (F _ P).
    cbn [length] in F. rewrite T in F. discriminate. }
  unfold get_key, get_key_with. rewrite Lc, Ls, P. pose proof max_keypress_ge_1.
  replace (max_keypress_size <? length [b])%nat with false by (cbn [length]; lia).
  unfold could_be_unfinished_char, decodable. rewrite D. cbn [is_some orb andb].
  unfold key_name_with. rewrite D. destruct full, mode; reflexivity.
Qed.

(* C03 item 5.  For every encoding, every character c that has an encoding bs
   there (utf-8: every Unicode scalar value) and is not itself a table sequence:
   every proper prefix of bs yields More while more is buffered, and bs yields
   the character itself -- at once, whether or not more is buffered. *)
Theorem chars_as_themselves : forall enc mode c bs,
  encode_char enc c = Some bs -> is_table_seq bs = false ->
  (forall i, (1 <= i < length bs)%nat -> get_key enc mode false (firstn i bs) = More) /\
  (forall full, get_key enc mode full bs = Key (char_key mode bs c)).
Proof.
  intros enc mode c bs E T.
  assert (Single : forall b, decode enc [b] = Some [c] -> is_table_seq [b] = false ->
     (forall i, (1 <= i < length [b])%nat -> get_key enc mode false (firstn i [b]) = More) /\
     (forall full, get_key enc mode full [b] = Key (char_key mode [b] c))).
  { intros b D Tb. split; [cbn [length]; intros; lia|]. intro full. now apply single_char_key. }
  destruct enc; cbn [encode_char] in E.
  - (* utf-8 *)
    destruct (is_scalar c) eqn:S; [|discriminate]. inversion E as [E']; clear E. subst bs.
    destruct (c <? 128) eqn:A.
    + unfold utf8_encode in *. rewrite A in *. apply (Single c); [|assumption].
      cbn [decode]. unfold decode_utf8. cbn [urun ustep]. now rewrite A.
    + pose proof (encode_wf c S ltac:(lia)) as W.
      destruct (utf8_encode c) as [|b0 [|b1 [|b2 [|b3 [|b4 r]]]]]; try contradiction; destruct W as [W <-].
      * destruct (utf8_char_2 b0 b1 mode W) as [P1 K]. split; [|exact K].
        intros i Hi. cbn [length] in Hi. assert (i = 1%nat) as -> by lia. exact P1.
      * destruct (utf8_char_3 b0 b1 b2 mode W) as [P1 [P2 K]]. split; [|exact K].
        intros i Hi. cbn [length] in Hi. assert (i = 1%nat \/ i = 2%nat) as [-> | ->] by lia; assumption.
      * destruct (utf8_char_4 b0 b1 b2 b3 mode W) as [P1 [P2 [P3 K]]]. split; [|exact K].
        intros i Hi. cbn [length] in Hi.
        assert (i = 1%nat \/ i = 2%nat \/ i = 3%nat) as [-> | [-> | ->]] by lia; assumption.
  - (* ascii *)
    destruct (c <? 128) eqn:A; [|discriminate]. inversion E; subst. apply (Single c); [|assumption].
    cbn [decode all_ascii forallb]. unfold is_ascii. now rewrite A.
  - (* latin-1 *)
    destruct (c <? 256) eqn:A; [|discriminate]. inversion E; subst. apply (Single c); [|assumption].
    cbn [decode is_bytes forallb]. unfold is_byte. now rewrite A.
Qed.

Example chars_as_themselves_nonvacuous :
  encode_char Utf8 233 = Some [195; 169] /\ is_table_seq [195; 169] = false /\
  encode_char Utf8 128512 = Some [240; 159; 152; 128] /\ is_table_seq [240; 159; 152; 128] = false /\
  encode_char Utf8 8364 = Some [226; 130; 172] /\ encode_char Ascii 97 = Some [97] /\ is_table_seq [97] = false.
Proof. vm_compute. repeat split. Qed.

(* More is asked for only while the bytes can still grow: a lead byte that is
   answered More on the tree really begins a well-formed character when it is in C2..F4 *)
Definition lead_completion (b : N) : list N :=
  if b <? 224 then [b; 128]
  else if b =? 224 then [b; 160; 128]
  else if b <? 240 then [b; 128; 128]
  else if b =? 240 then [b; 144; 128; 128]
  else [b; 128; 128; 128].
Lemma lead_bytes_growable :
  forallb (fun b => negb (in_range 194 244 b) || decodable Utf8 (lead_completion b)) all_bytes = true.
Proof. vm_compute. reflexivity. Qed.

(* ======================================================================= *)
(* C20: tables and config-file names                                         *)

(* every sequence that has a curses-style name also has a curtsies name *)
Theorem curses_keys_have_curtsies_names :
  forallb (fun k => in_table curtsies_names k) (map fst curses_names) = true.
Proof. vm_compute. reflexivity. Qed.

(* every valid configuration name maps to names carried by table sequences
   (and table_entry_decoding shows those sequences are decoded to these names) *)
Theorem config_names_reachable :
  forallb (fun k => config_ok (keymap_get k)) valid_config_names = true.
Proof. vm_compute. reflexivity. Qed.

Theorem config_unbound : keymap_get [] = Ok [].
Proof. reflexivity. Qed.

(* a reachable name is the CURTSIES name of some table sequence, which the
   decoder reports when the sequence arrives and the read ends *)
Theorem reachable_produced : forall n, reachable n = true ->
  exists k, In k table_keys /\ forall enc, get_key enc CURTSIES true k = Key n.
Proof.
  intros n R. unfold reachable in R. apply existsb_exists in R. destruct R as [[k v] [Hin E]].
  cbn [snd] in E. apply str_eqb_eq in E. subst v.
  assert (Hk : In k table_keys).
  { unfold table_keys. apply in_or_app. left. apply in_map_iff. exists (k, n). auto. }
  exists k. split; [assumption|]. intro enc.
  destruct (table_entry_decoding k enc CURTSIES Hk) as [_ [[m [G Nm]] _]]. rewrite G. f_equal.
  destruct (In_lookup _ _ _ Hin) as [w Lw].
  pose proof (lookup_In _ _ _ Lw) as Hw.
  (* keys are distinct, so the lookup finds this very entry *)
  assert (w = n).
  { pose proof (proj1 table_keys_distinct) as D. clear - Hin Hw D.
    induction curtsies_names as [|[k' v'] t IH]; [contradiction|].
    cbn [map fst keys_distinct] in D. apply andb_true_iff in D. destruct D as [D1 D2].
    assert (NM : forall x, In (k', x) t -> False).
    { intros x Hx. apply negb_true_iff in D1. unfold mem in D1.
      assert (existsb (bytes_eqb k') (map fst t) = true).
      { apply existsb_exists. exists k'. split; [|apply bytes_eqb_refl]. apply in_map_iff. exists (k', x). auto. }
      congruence. }
    destruct Hin as [Hin|Hin], Hw as [Hw|Hw].
    - congruence.
    - inversion Hin; subst. exfalso. eapply NM; eauto.
    - inversion Hw; subst. exfalso. eapply NM; eauto.
    - now apply IH. }
  subst w. now apply (proj1 (name_ok_table enc k m n)).
Qed.

Example config_names_nonvacuous :
  length valid_config_names = 136%nat /\
  keymap_get [67; 45; 105] = Ok [[60; 84; 65; 66; 62]] /\          (* C-i -> <TAB> *)
  keymap_get [70; 49; 50] = Ok [[60; 70; 49; 50; 62]] /\           (* F12 -> <F12> *)
  keymap_get [120] = Raise KeyError.
Proof. vm_compute. repeat split. Qed.

(* ---- hypotheses of the main theorems are inhabited ----------------------- *)
Example lossless_nonvacuous :
  find_keys Utf8 BYTES [27; 91; 65; 195; 169; 97; 27] =
    Ok ([([27; 91; 65], [27; 91; 65]); ([195; 169], [195; 169]); ([97], [97]); ([27], [27])], []) /\
  find_keys Utf8 CURTSIES [27; 91; 65; 195; 169; 97; 27] =
    Ok ([([60; 85; 80; 62], [27; 91; 65]); ([233], [195; 169]); ([97], [97]); ([60; 69; 83; 67; 62], [27])], []) /\
  find_keys_n 1 Latin1 CURSES [27; 91; 65; 233] = Ok ([([75; 69; 89; 95; 85; 80], [27; 91; 65])], [233]).
Proof. vm_compute. repeat split. Qed.

Example raises_nonvacuous :
  get_key Utf8 CURTSIES false [1; 2; 3; 4; 5; 6; 7; 8] = Err ValueError /\
  get_key Ascii CURSES false [27; 200] = Err UnicodeDecodeError /\
  get_key Utf8 BYTES false [195] = More /\ get_key Utf8 BYTES true [195] = Key [195] /\
  get_key Utf8 CURSES true [195] = Key [120; 67; 51] /\
  mem [27; 91; 49] tree_nodes = true.
Proof. vm_compute. repeat split. Qed.

(* ======================================================================= *)
(* C03: recognised sequences and characters are never broken up and never    *)
(* merged with what follows -- for ALL streams of such tokens                *)

(* what the decoder does with the token t when it starts on it *)
Definition tok_ok (enc : encoding) (t : list N) : Prop :=
  t <> [] /\
  (forall i, (1 <= i < length t)%nat -> get_key enc BYTES false (firstn i t) = More) /\
  (forall full, get_key enc BYTES full t = Key t).

Lemma find_key_go_token : forall enc t rest, tok_ok enc t ->
  forall suf cur, cur ++ suf = t -> suf <> [] ->
  find_key_go enc BYTES cur (suf ++ rest) = Ok (Some (t, t, rest)).
Proof.
  intros enc t rest [Hne [Hpre Hfull]]. induction suf as [|b suf IH]; intros cur E Hs; [contradiction|].
  cbn [app find_key_go]. destruct suf as [|b' suf'].
  - cbn [app] in *. rewrite E, Hfull. reflexivity.
  - assert (P : cur ++ [b] = firstn (length (cur ++ [b])) t).
    { rewrite <- E. replace (cur ++ b :: b' :: suf') with ((cur ++ [b]) ++ b' :: suf') by (now rewrite <- app_assoc).
      rewrite firstn_app, Nat.sub_diag, firstn_all. cbn [firstn]. now rewrite app_nil_r. }
    assert (F : is_nil ((b' :: suf') ++ rest) = false) by reflexivity. rewrite F.
    rewrite P, Hpre.
    + rewrite <- P. apply IH; [|discriminate]. now rewrite <- app_assoc.
    + rewrite <- E, !app_length. cbn [length]. lia.
Qed.

Lemma find_keys_tokens : forall enc toks n, Forall (tok_ok enc) toks -> (length toks < n)%nat ->
  find_keys_n n enc BYTES (concat toks) = Ok (map (fun t => (t, t)) toks, []).
Proof.
  intros enc toks. induction toks as [|t toks IH]; intros n H L.
  - destruct n; [lia|]. reflexivity.
  - destruct n; [cbn [length] in L; lia|]. inversion H as [|? ? Ht Hts]; subst.
    cbn [concat find_keys_n]. unfold find_key.
    rewrite (find_key_go_token enc t (concat toks) Ht t []); [|reflexivity|apply Ht].
    rewrite (IH n Hts); [reflexivity|]. cbn [length] in L. lia.
Qed.

(* the tokens of the property: a table sequence that is not the beginning of a
   longer one (and, under utf-8, not one of the 8-bit Meta bytes), or a
   character (any Unicode scalar value under utf-8) that is not a table sequence *)
Inductive token (enc : encoding) : list N -> Prop :=
| tok_table : forall k, In k table_keys -> growable k = false -> meta_collision enc k = false -> token enc k
| tok_char : forall c bs, encode_char enc c = Some bs -> is_table_seq bs = false -> token enc bs.

Lemma table_key_nonempty : forallb (fun k => nonempty k) table_keys = true.
Proof. vm_compute. reflexivity. Qed.

Lemma encode_char_nonempty : forall enc c bs, encode_char enc c = Some bs -> bs <> [].
Proof.
  intros enc c bs E. destruct enc; cbn [encode_char] in E.
  - destruct (is_scalar c); [|discriminate]. inversion E. unfold utf8_encode.
    destruct (c <? 128); [discriminate|]. destruct (c <? 2048); [discriminate|].
    destruct (c <? 65536); discriminate.
  - destruct (c <? 128); [|discriminate]. inversion E. discriminate.
  - destruct (c <? 256); [|discriminate]. inversion E. discriminate.
Qed.

Lemma token_tok_ok : forall enc t, token enc t -> tok_ok enc t.
Proof.
  intros enc t [k Hk G M | c bs E T].
  - destruct (table_entry_decoding k enc BYTES Hk) as [P [[n [K1 N1]] [_ K0]]].
    destruct (K0 G M) as [m [K2 N2]]. cbn [name_ok] in N1, N2. apply str_eqb_eq in N1, N2. subst.
    split; [|split].
    + pose proof table_key_nonempty as NE. rewrite forallb_forall in NE. specialize (NE k Hk).
      destruct k; [discriminate|discriminate].
    + exact P.
    + intros [|]; assumption.
  - destruct (chars_as_themselves enc BYTES c bs E T) as [P K]. split; [|split].
    + eapply encode_char_nonempty; eassumption.
    + exact P.
    + exact K.
Qed.

(* every stream of such tokens, of any length, in every encoding and naming
   mode, is cut exactly at the token boundaries, nothing is left over, and
   (C03_lossless) every key is the name of its token *)
Theorem tokens_decoded_exactly : forall enc mode toks, Forall (token enc) toks ->
  cuts (find_keys enc mode (concat toks)) = Ok (toks, []).
Proof.
  intros enc mode toks H. unfold find_keys. rewrite (cuts_mode_independent enc mode BYTES).
  assert (T : Forall (tok_ok enc) toks) by (eapply Forall_impl; [apply token_tok_ok | exact H]).
  assert (L : (length toks <= length (concat toks))%nat).
  { clear H. induction T as [|t toks [Hne _] _ IH]; [cbn; lia|].
    cbn [concat length]. rewrite app_length. destruct t; [contradiction|]. cbn [length]. lia. }
  rewrite (find_keys_tokens enc toks _ T); [|lia]. cbn [cuts]. rewrite map_map. cbn [snd]. now rewrite map_id.
Qed.

Example tokens_nonvacuous :
  mem [27; 91; 65] table_keys = true /\ growable [27; 91; 65] = false /\
  encode_char Utf8 233 = Some [195; 169] /\ is_table_seq [195; 169] = false /\
  cuts (find_keys Utf8 CURSES (concat [[27; 91; 65]; [195; 169]; [27; 91; 65]; [97]])) =
    Ok ([[27; 91; 65]; [195; 169]; [27; 91; 65]; [97]], []).
Proof. vm_compute. repeat split. Qed.

(* ======================================================================= *)
(* C03 item 2, corollary: on valid input the decoder fails ONLY in F-C03     *)

(* valid input, byte-wise: ASCII bytes (every ESC-initiated table sequence
   consists of them), any byte under latin-1, well-formed multi-byte
   characters under utf-8 *)
Inductive atom (enc : encoding) : list N -> Prop :=
| atom_ascii : forall b, b < 128 -> atom enc [b]
| atom_latin1 : forall b, enc = Latin1 -> b < 256 -> atom enc [b]
| atom_utf8 : forall c, enc = Utf8 -> is_scalar c = true -> 128 <= c -> atom enc (utf8_encode c).

Lemma esc_table_keys_ascii :
  forallb (fun k => negb (starts_esc k) || all_ascii k) table_keys = true.
Proof. vm_compute. reflexivity. Qed.

(* somewhere in the stream a member of KEYMAP_PREFIXES is directly followed by a byte >= 0x80 *)
Definition fc03_in (buf : list N) : Prop :=
  exists pre p b post, buf = pre ++ p ++ b :: post /\ In p keymap_prefixes /\ 128 <= b.

Lemma prefix_nonempty : ~ In [] keymap_prefixes.
Proof.
  intro H. apply in_prefixes_In in H. rewrite prefixes_correct in H. discriminate.
Qed.

Lemma multibyte_not_table : forall s, has_high s = true -> (2 <= length s)%nat -> is_table_seq s = false.
Proof.
  intros s H L. destruct (is_table_seq s) eqn:T; [|reflexivity]. exfalso.
  unfold is_table_seq, mem, table_keys in T. rewrite existsb_app in T.
  destruct (high_long_not_table s H L) as [Lc Ls].
  assert (G : forall t, existsb (bytes_eqb s) (map fst t) = true -> exists v, lookup t s = Some v).
  { intros t E. apply existsb_exists in E. destruct E as [k [Hk E]]. apply bytes_eqb_eq in E. subst k.
    apply in_map_iff in Hk. destruct Hk as [[k v] [E Hin]]. cbn [fst] in E. subst k. eapply In_lookup; eauto. }
  apply orb_true_iff in T. destruct T as [T|T]; apply G in T; destruct T as [v T]; congruence.
Qed.

Lemma utf8_atom_shape : forall c, is_scalar c = true -> 128 <= c ->
  exists b0 tail, utf8_encode c = b0 :: tail /\ 128 <= b0 < 256 /\ tail <> [] /\
                  has_high (utf8_encode c) = true /\ (2 <= length (utf8_encode c) <= 4)%nat.
Proof.
  intros c S L. pose proof (encode_wf c S L) as W.
  destruct (utf8_encode c) as [|b0 [|b1 [|b2 [|b3 [|b4 r]]]]]; try contradiction; destruct W as [W _];
    exists b0; eexists; (split; [reflexivity|]);
    unfold wf2, wf3, wf4, is_cont, in_range in W;
    (split; [lia|]); (split; [discriminate|]); (split; [apply has_high_cons; lia | cbn [length]; lia]).
Qed.

Definition ok_state (cur : list N) (atoms : list (list N)) : Prop :=
  cur = [] \/ (In cur keymap_prefixes /\ atoms <> []).

Definition go_result (enc : encoding) (cur : list N) (atoms : list (list N))
           (r : res (option (str * list N * list N))) : Prop :=
  match r with
  | Raise e => enc <> Latin1 /\ e = UnicodeDecodeError /\
               exists p b post, cur ++ concat atoms = p ++ b :: post /\ In p keymap_prefixes /\ 128 <= b
  | Ok None => atoms = []
  | Ok (Some (_, _, rest)) => exists used' atoms', atoms = used' ++ atoms' /\ rest = concat atoms'
  end.

Lemma concat_nil_atoms : forall enc atoms, Forall (atom enc) atoms -> concat atoms = [] -> atoms = [].
Proof.
  intros enc atoms H E. destruct H as [|a atoms Ha _]; [reflexivity|]. exfalso. cbn [concat] in E.
  destruct Ha; try discriminate.
  destruct (utf8_atom_shape c) as [b0 [tail [E' _]]]; try assumption. rewrite E' in E. discriminate.
Qed.

Lemma find_key_go_valid : forall enc atoms, Forall (atom enc) atoms ->
  forall cur, ok_state cur atoms -> go_result enc cur atoms (find_key_go enc BYTES cur (concat atoms)).
Proof.
  intros enc atoms H. induction H as [|a atoms Ha Hs IH]; intros cur St.
  - destruct St as [->|[_ C]]; [reflexivity|contradiction].
  - assert (Node : In cur tree_nodes) by (destruct St as [->|[P _]]; [now left|now right]).
    (* one single-byte atom [b] on which the tree says: no F-C03, no utf-8 lead wait *)
    assert (Single : forall b, a = [b] -> b < 256 ->
              nonempty cur && (128 <=? b) && negb (encoding_eqb enc Latin1) = false ->
              (forall full, encoding_eqb enc Utf8 && is_nil cur && in_range 192 253 b && negb full = false) ->
              go_result enc cur (a :: atoms) (find_key_go enc BYTES cur (concat (a :: atoms)))).
    { intros b -> Hb C1 C2. cbn [concat app find_key_go].
      pose proof (one_step_tree cur b enc BYTES (is_nil (concat atoms)) Node Hb) as T.
      unfold expected_step, expected_step_with in T. rewrite C1, C2 in T.
      destruct (growable (cur ++ [b])) eqn:G; [destruct (is_nil (concat atoms)) eqn:F|].
      - apply shape_key in T. destruct T as [n ->]. cbn [go_result]. exists [[b]], atoms. auto.
      - apply shape_more in T. rewrite T.
        assert (St' : ok_state (cur ++ [b]) atoms).
        { right. split; [apply in_prefixes_In; now rewrite prefixes_correct|].
          intro; subst atoms. discriminate. }
        specialize (IH (cur ++ [b]) St').
        destruct (find_key_go enc BYTES (cur ++ [b]) (concat atoms)) as [[[[k u] r]|]|e]; cbn [go_result] in *.
        + destruct IH as [used' [atoms' [-> ->]]]. exists ([b] :: used'), atoms'. auto.
        + subst atoms. discriminate.
        + destruct IH as [I1 [I2 [p [b' [post [E I3]]]]]]. split; [assumption|]. split; [assumption|].
          exists p, b', post. rewrite <- app_assoc in E. cbn [app] in E. auto.
      - apply shape_key in T. destruct T as [n ->]. cbn [go_result]. exists [[b]], atoms. auto. }
    destruct Ha as [b Hb | b -> Hb | c -> S L].
    + apply (Single b); [reflexivity | lia | |].
      * replace (128 <=? b) with false by lia. now rewrite andb_false_r.
      * intro full. unfold in_range. replace (192 <=? b) with false by lia. cbn [andb].
        now rewrite andb_false_r.
    + apply (Single b); [reflexivity | assumption | now rewrite andb_false_r | reflexivity].
    + destruct (utf8_atom_shape c S L) as [b0 [tail [E [Hb0 [Ht [Hh Hl]]]]]].
      destruct St as [->|[P _]].
      * cbn [concat].
        assert (Tk : tok_ok Utf8 (utf8_encode c)).
        { apply token_tok_ok. apply (tok_char Utf8 c).
          - cbn [encode_char]. now rewrite S.
          - apply multibyte_not_table; [assumption|lia]. }
        rewrite (find_key_go_token Utf8 _ (concat atoms) Tk (utf8_encode c) []); [|reflexivity|apply Tk].
        cbn [go_result]. exists [utf8_encode c], atoms. auto.
      * cbn [concat]. rewrite E. cbn [app find_key_go].
        assert (R : get_key Utf8 BYTES (is_nil (tail ++ concat atoms)) (cur ++ [b0]) = Err UnicodeDecodeError).
        { apply one_step_raises_iff; [assumption | lia |]. repeat split; try lia; try discriminate.
          intro; subst cur. now apply prefix_nonempty. }
        rewrite R. cbn [go_result]. split; [discriminate|]. split; [reflexivity|].
        exists cur, b0, (tail ++ concat atoms). repeat split; [assumption|lia].
Qed.

(* DESIGN C03 item 2, corollary.  For every stream of valid input (any number
   of ASCII bytes / ESC-initiated table sequences and validly encoded
   characters, the read ending on a character boundary), every encoding and
   naming mode and any number of find_key calls: if decoding fails at all then
   the encoding is utf-8 or ascii, the exception is UnicodeDecodeError, and a
   member of KEYMAP_PREFIXES is directly followed by a byte >= 0x80 in the
   stream -- the known finding F-C03.  (Conversely the decoder does fail whenever
   its pending bytes are in KEYMAP_PREFIXES and the next byte is >= 0x80:
   one_step_raises_iff.) *)
Theorem valid_streams_fail_only_in_FC03 : forall enc mode atoms n e,
  Forall (atom enc) atoms ->
  find_keys_n n enc mode (concat atoms) = Raise e ->
  e = UnicodeDecodeError /\ enc <> Latin1 /\ fc03_in (concat atoms).
Proof.
  intros enc mode atoms n e H R.
  assert (RB : find_keys_n n enc BYTES (concat atoms) = Raise e).
  { pose proof (cuts_mode_independent enc mode BYTES n (concat atoms)) as C. rewrite R in C. cbn [cuts] in C.
    destruct (find_keys_n n enc BYTES (concat atoms)) as [[ks r]|e']; cbn [cuts] in C; [discriminate|].
    now inversion C. }
  clear R. revert atoms H RB. induction n as [|n IH]; intros atoms H R; [discriminate|].
  cbn [find_keys_n] in R. unfold find_key in R.
  pose proof (find_key_go_valid enc atoms H [] (or_introl eq_refl)) as G.
  destruct (find_key_go enc BYTES [] (concat atoms)) as [[[[k u] r]|]|e'] eqn:F; cbn [go_result] in G.
  - destruct G as [used' [atoms' [-> ->]]].
    destruct (find_keys_n n enc BYTES (concat atoms')) as [[ks r']|e''] eqn:R'; [discriminate|].
    inversion R; subst e''. apply Forall_app in H. destruct H as [_ H'].
    destruct (IH atoms' H' R') as [I1 [I2 [pre [p [b [post [E [I3 I4]]]]]]]].
    split; [assumption|]. split; [assumption|].
    exists (concat used' ++ pre), p, b, post. rewrite concat_app, E, <- app_assoc. auto.
  - discriminate.
  - inversion R; subst e'. destruct G as [G1 [G2 [p [b [post [E [G3 G4]]]]]]].
    split; [assumption|]. split; [assumption|]. exists [], p, b, post. cbn [app] in *. auto.
Qed.

Example valid_streams_nonvacuous :
  find_keys Utf8 CURTSIES (concat [[27]; [91]; [49]; utf8_encode 233]) = Raise UnicodeDecodeError /\
  mem [27; 91; 49] keymap_prefixes = true /\
  is_ok (find_keys Utf8 CURTSIES (concat [[27]; [91]; [49]; [120]; utf8_encode 233; [27]])) = true.
Proof. vm_compute. repeat split. Qed.
