(* C06: FmtStr indexing, slicing, +, *, join and len agree with the same
   operations on the per-character cell list.  All statements are for arbitrary
   FmtStrs (any number of runs, empty runs, no runs) and arbitrary bounds.

   INTERFACE for importers (C04, C09, C15, C16) -- characterising lemmas:
     len_cells / len_text / len_nonneg      len f = number of cells = number of characters
     getitem_slice_cells / _text            f[a:b]   = pyslice on cells / text, never raises
     slice_of, getitem_slice_ok,            the value of f[a:b] as a total function and its
       slice_of_cells / _text / _len          cells / text / len
     getitem_int_error / _ok / _cells       f[i]: IndexError iff i < -len or i >= len; else one cell
     add_cells / radd_cells / *_text        f + x, x + f   (x : operand = str or FmtStr)
     mul_cells / mul_text                   f * n
     join_cells / join_text                 sep.join(items)
     cells_app, text_app, text_cells,       bookkeeping: cells/text of ++, text = map fst cells,
       cells_to_fs, op_len_cells ...          cells (to_fs o) = op_cells o
     pyslice_nonneg/_head/_tail/_between/   Python slices with int bounds >= 0 as firstn/skipn,
       _all/_split/_split3/_length/_map       splitting a list at one or two positions
     zslice, zslice_app                     window of a list and its behaviour on ++ (the
                                            induction step of every run-walking loop)       *)
From Curtsies Require Import Model.Base Spec.ListOps Model.Slice.
From Coq Require Import Lia ZifyBool ZifyNat ZifyN.
Local Close Scope N_scope.
Local Open Scope Z_scope.

(* ====================================================================== *)
(* 1. windows of a list: the items at positions  max 0 a <= i < b            *)
Section Window.
Context {A : Type}.

Definition zslice (l : list A) (a b : Z) : list A :=
  firstn (Z.to_nat (b - Z.max 0 a)) (skipn (Z.to_nat (Z.max 0 a)) l).

Lemma zslice_nil a b : zslice [] a b = [].
Proof. unfold zslice. rewrite skipn_nil, firstn_nil. reflexivity. Qed.

Lemma zslice_app (x y : list A) a b :
  zslice (x ++ y) a b =
  zslice x a b ++ zslice y (a - Z.of_nat (length x)) (b - Z.of_nat (length x)).
Proof.
  unfold zslice. rewrite skipn_app, firstn_app, skipn_length.
  f_equal. f_equal; [|f_equal]; lia.
Qed.

Lemma zslice_empty (l : list A) a b :
  Z.of_nat (length l) <= a \/ b <= Z.max 0 a -> zslice l a b = [].
Proof.
  intros [H|H]; unfold zslice.
  - rewrite skipn_all2 by lia. apply firstn_nil.
  - replace (Z.to_nat (b - Z.max 0 a)) with 0%nat by lia. reflexivity.
Qed.

Lemma zslice_all (l : list A) a b :
  a <= 0 -> Z.of_nat (length l) <= b -> zslice l a b = l.
Proof.
  intros Ha Hb. unfold zslice.
  replace (Z.to_nat (Z.max 0 a)) with 0%nat by lia. cbn [skipn].
  apply firstn_all2. lia.
Qed.

Lemma zslice_max (l : list A) a b : zslice l (Z.max 0 a) b = zslice l a b.
Proof. unfold zslice. now replace (Z.max 0 (Z.max 0 a)) with (Z.max 0 a) by lia. Qed.

(* head and tail windows *)
Lemma zslice_firstn (l : list A) b : 0 <= b -> zslice l 0 b = firstn (Z.to_nat b) l.
Proof. intros Hb. unfold zslice. cbn [Z.max Z.to_nat skipn]. f_equal. lia. Qed.

Lemma zslice_skipn (l : list A) a b :
  0 <= a -> Z.of_nat (length l) <= b -> zslice l a b = skipn (Z.to_nat a) l.
Proof.
  intros Ha Hb. unfold zslice. replace (Z.max 0 a) with a by lia.
  apply firstn_all2. rewrite skipn_length. lia.
Qed.

(* Python's slice with two non-negative int bounds is a window *)
Lemma pyslice_nonneg (l : list A) a b :
  0 <= a -> 0 <= b -> pyslice l (Some a) (Some b) = zslice l a b.
Proof.
  intros Ha Hb. unfold pyslice, slice_bound, zslice.
  destruct (a <? 0) eqn:Ea; [lia|]. destruct (b <? 0) eqn:Eb; [lia|].
  replace (Z.max 0 a) with a by lia.
  set (n := Z.of_nat (length l)).
  destruct (Z_le_gt_dec n a) as [Hna|Hna].
  - rewrite !skipn_all2 by lia. rewrite !firstn_nil. reflexivity.
  - replace (Z.min a n) with a by lia.
    destruct (Z_le_gt_dec n b) as [Hnb|Hnb].
    + rewrite !firstn_all2; [reflexivity| |]; rewrite skipn_length; lia.
    + replace (Z.min b n) with b by lia. reflexivity.
Qed.

(* s[:b] and s[a:] with an int bound *)
Lemma pyslice_head (l : list A) b :
  0 <= b -> pyslice l None (Some b) = firstn (Z.to_nat b) l.
Proof.
  intros Hb. unfold pyslice, slice_bound. destruct (b <? 0) eqn:Eb; [lia|].
  cbn [Z.to_nat skipn]. set (n := Z.of_nat (length l)).
  destruct (Z_le_gt_dec n b) as [Hnb|Hnb].
  - rewrite !firstn_all2; [reflexivity| |]; lia.
  - f_equal. lia.
Qed.

Lemma pyslice_tail (l : list A) a :
  0 <= a -> pyslice l (Some a) None = skipn (Z.to_nat a) l.
Proof.
  intros Ha. unfold pyslice, slice_bound. destruct (a <? 0) eqn:Ea; [lia|].
  set (n := Z.of_nat (length l)).
  destruct (Z_le_gt_dec n a) as [Hna|Hna].
  - rewrite !skipn_all2 by lia. apply firstn_nil.
  - replace (Z.min a n) with a by lia. apply firstn_all2. rewrite skipn_length. lia.
Qed.

(* the general slice in terms of the bounds normalize_slice computes *)
Definition norm_start (n : Z) (a : option Z) : Z :=
  let s := match a with None => 0 | Some x => x end in
  if s <? 0 then Z.max 0 (n + s) else s.
Definition norm_stop (n : Z) (b : option Z) : Z :=
  let s := match b with None => n | Some x => x end in
  if s <? 0 then Z.max 0 (n + s) else s.

Lemma slice_bound_nonneg n d s : 0 <= s -> slice_bound n d (Some s) = Z.min s n.
Proof. intros H. unfold slice_bound. destruct (s <? 0) eqn:E; [lia|reflexivity]. Qed.

Lemma pyslice_norm (l : list A) a b :
  let n := Z.of_nat (length l) in
  pyslice l a b = zslice l (norm_start n a) (norm_stop n b).
Proof.
  intros n.
  assert (Hn : 0 <= n) by (unfold n; lia).
  assert (Hs : 0 <= norm_start n a).
  { unfold norm_start. destruct a as [x|]; [destruct (x <? 0) eqn:E|change (0 <? 0) with false; cbv iota]; lia. }
  assert (He : 0 <= norm_stop n b).
  { unfold norm_stop. destruct b as [x|]; [destruct (x <? 0) eqn:E|destruct (n <? 0) eqn:E]; lia. }
  rewrite <- pyslice_nonneg by assumption.
  unfold pyslice. fold n.
  assert (H1 : slice_bound n 0 a = slice_bound n 0 (Some (norm_start n a))).
  { rewrite slice_bound_nonneg by assumption.
    unfold slice_bound, norm_start. destruct a as [x|]; [destruct (x <? 0) eqn:E|change (0 <? 0) with false; cbv iota]; lia. }
  assert (H2 : slice_bound n n b = slice_bound n n (Some (norm_stop n b))).
  { rewrite slice_bound_nonneg by assumption.
    unfold slice_bound, norm_stop. destruct b as [x|]; [destruct (x <? 0) eqn:E|destruct (n <? 0) eqn:E]; lia. }
  rewrite <- H1, <- H2. reflexivity.
Qed.

Lemma firstn1_skipn (l : list A) (k : nat) (x : A) :
  nth_error l k = Some x -> firstn 1 (skipn k l) = [x].
Proof.
  revert k. induction l as [|y l IH]; intros [|k] H; cbn in *; try discriminate.
  - now inversion H.
  - now apply IH.
Qed.

End Window.

Lemma zslice_map {A B} (g : A -> B) l a b : zslice (map g l) a b = map g (zslice l a b).
Proof. unfold zslice. now rewrite skipn_map, firstn_map. Qed.

Lemma pyslice_map {A B} (g : A -> B) l a b : pyslice (map g l) a b = map g (pyslice l a b).
Proof. unfold pyslice. now rewrite map_length, skipn_map, firstn_map. Qed.

(* ====================================================================== *)
(* 2. cells, text, len                                                       *)
Lemma cells_app f g : cells (f ++ g) = cells f ++ cells g.
Proof. apply flat_map_app. Qed.

Lemma text_app f g : text (f ++ g) = text f ++ text g.
Proof. apply flat_map_app. Qed.

Lemma cells_cons c f : cells (c :: f) = chunk_cells c ++ cells f.
Proof. reflexivity. Qed.

Lemma cells_single c : cells [c] = chunk_cells c.
Proof. cbn. apply app_nil_r. Qed.

Lemma chunk_cells_length c : Z.of_nat (length (chunk_cells c)) = chunk_len c.
Proof. unfold chunk_cells, chunk_len. now rewrite map_length. Qed.

Lemma text_cells f : text f = map fst (cells f).
Proof.
  induction f as [|c f IH]; [reflexivity|].
  unfold text, cells in *. cbn [flat_map]. rewrite map_app, IH. f_equal.
  unfold chunk_cells. rewrite map_map. cbn. now rewrite map_id.
Qed.

Lemma cells_length_text f : length (cells f) = length (text f).
Proof. rewrite text_cells. now rewrite map_length. Qed.

Lemma plain_chunk_cells s : chunk_cells (plain_chunk s) = plain_cells s.
Proof. reflexivity. Qed.

Lemma cells_fmtstr_plain s : cells (fmtstr_plain s) = plain_cells s.
Proof. unfold fmtstr_plain. rewrite cells_single. reflexivity. Qed.

Lemma text_fmtstr_plain s : text (fmtstr_plain s) = s.
Proof. cbn. apply app_nil_r. Qed.

Lemma plain_cells_text s : map fst (plain_cells s) = s.
Proof. unfold plain_cells. rewrite map_map. cbn. apply map_id. Qed.

Lemma cells_to_fs o : cells (to_fs o) = op_cells o.
Proof. destruct o; [apply cells_fmtstr_plain|reflexivity]. Qed.

Lemma op_text_cells o : op_text o = map fst (op_cells o).
Proof. destruct o; cbn; [now rewrite plain_cells_text|apply text_cells]. Qed.

Lemma len_from f : forall k,
  fold_left (fun acc c => acc + chunk_len c) f k = k + Z.of_nat (length (cells f)).
Proof.
  induction f as [|c f IH]; intros k; cbn [fold_left].
  - cbn. lia.
  - rewrite IH, cells_cons, app_length. pose proof (chunk_cells_length c). lia.
Qed.

(* len(f) is the number of characters *)
Theorem len_cells f : len f = Z.of_nat (length (cells f)).
Proof. unfold len. rewrite len_from. lia. Qed.

Corollary len_text f : len f = Z.of_nat (length (text f)).
Proof. now rewrite len_cells, cells_length_text. Qed.

Lemma len_nonneg f : 0 <= len f.
Proof. rewrite len_cells. lia. Qed.

Lemma op_len_cells o : op_len o = Z.of_nat (length (op_cells o)).
Proof. destruct o; cbn; [unfold plain_cells; now rewrite map_length|apply len_cells]. Qed.

(* ====================================================================== *)
(* 3. normalize_slice                                                        *)
Lemma normalize_slice_slice n a b :
  normalize_slice n (Slice a b None) = Ok (norm_start n a, norm_stop n b).
Proof. reflexivity. Qed.

Lemma normalize_slice_step n a b st :
  normalize_slice n (Slice a b (Some st)) = Raise NotImplementedError.
Proof. reflexivity. Qed.

Lemma normalize_slice_int_error n i :
  i < - n \/ i >= n -> normalize_slice n (Idx i) = Raise IndexError.
Proof.
  intros H. unfold normalize_slice.
  destruct ((i <? - n) || (i >=? n)) eqn:E; [reflexivity|lia].
Qed.

Lemma normalize_slice_int_ok n i :
  - n <= i < n -> normalize_slice n (Idx i) = Ok (i mod n, i mod n + 1).
Proof.
  intros H. unfold normalize_slice.
  destruct ((i <? - n) || (i >=? n)) eqn:E; [lia|].
  assert (Hm : i mod n = if i <? 0 then i + n else i).
  { destruct (i <? 0) eqn:Ei.
    - symmetry. apply (Z.mod_unique_pos i n (-1) (i + n)); lia.
    - apply Z.mod_small. lia. }
  rewrite <- Hm.
  assert (Hb : 0 <= i mod n < n) by (apply Z.mod_pos_bound; lia).
  cbn [bind].
  destruct (i mod n <? 0) eqn:E1; [lia|]. destruct (i mod n + 1 <? 0) eqn:E2; [lia|]. reflexivity.
Qed.

(* ====================================================================== *)
(* 4. the run walk of __getitem__                                            *)
(* Generalised over the running [counter] and the [parts] collected so far:
   the loop adds exactly the window [start - counter, stop - counter) of the
   remaining runs.  No hypothesis on the bounds is needed. *)
Lemma getitem_loop_cells : forall chunks start stop counter parts,
  cells (getitem_loop start stop counter chunks parts) =
  cells parts ++ zslice (cells chunks) (start - counter) (stop - counter).
Proof.
  induction chunks as [|c rest IH]; intros start stop counter parts.
  - cbn [getitem_loop cells flat_map]. now rewrite zslice_nil, app_nil_r.
  - cbn [getitem_loop]. rewrite cells_cons, zslice_app, chunk_cells_length.
    set (n := chunk_len c).
    assert (Hn : 0 <= n) by (unfold n, chunk_len; lia).
    pose proof (chunk_cells_length c) as Hlen. fold n in Hlen.
    (* what this run contributes *)
    match goal with |- context [if stop <? counter + n then ?p else _] => set (parts' := p) end.
    assert (Hparts : cells parts' =
                     cells parts ++ zslice (chunk_cells c) (start - counter) (stop - counter)).
    { subst parts'.
      destruct ((start <? counter + n) && (stop >? counter)) eqn:Econd.
      - destruct (Z.min (stop - counter) n - Z.max 0 (start - counter) =? n) eqn:Ewhole.
        + rewrite cells_app, cells_single. f_equal. symmetry. apply zslice_all; lia.
        + rewrite cells_app, cells_single. f_equal.
          unfold chunk_cells at 1. cbn [c_s c_a].
          rewrite pyslice_nonneg by lia.
          rewrite <- zslice_map. fold (chunk_cells c). apply zslice_max.
      - rewrite zslice_empty, app_nil_r; [reflexivity|]. lia. }
    destruct (stop <? counter + n) eqn:Ebreak.
    + rewrite Hparts. f_equal.
      rewrite (zslice_empty (cells rest)) by (right; lia). now rewrite app_nil_r.
    + rewrite IH, Hparts, <- app_assoc. f_equal. f_equal. f_equal; lia.
Qed.

Lemma getitem_cells f start stop r :
  (let parts := getitem_loop start stop 0 f [] in
   match parts with [] => fmtstr_plain [] | _ => parts end) = r ->
  cells r = zslice (cells f) start stop.
Proof.
  intros H. cbv zeta in H.
  pose proof (getitem_loop_cells f start stop 0 []) as HL.
  rewrite !Z.sub_0_r in HL. cbn [cells flat_map app] in HL.
  destruct (getitem_loop start stop 0 f []) as [|p ps] eqn:E; subst r.
  - rewrite <- HL. reflexivity.
  - exact HL.
Qed.

(* ---- slicing ------------------------------------------------------------------ *)
Theorem getitem_slice_cells f a b :
  exists r, getitem_slice f a b = Ok r /\ cells r = pyslice (cells f) a b.
Proof.
  unfold getitem_slice, getitem. rewrite normalize_slice_slice. cbn [bind].
  eexists. split; [reflexivity|].
  erewrite getitem_cells by reflexivity.
  rewrite pyslice_norm. now rewrite <- len_cells.
Qed.

Corollary getitem_slice_text f a b :
  exists r, getitem_slice f a b = Ok r /\ text r = pyslice (text f) a b.
Proof.
  destruct (getitem_slice_cells f a b) as [r [H1 H2]]. exists r. split; [exact H1|].
  now rewrite !text_cells, H2, pyslice_map.
Qed.

Theorem getitem_slice_step f a b st : getitem f (Slice a b (Some st)) = Raise NotImplementedError.
Proof. reflexivity. Qed.

(* ---- indexing ------------------------------------------------------------------ *)
Theorem getitem_int_error f i :
  getitem_int f i = Raise IndexError <-> (i < - len f \/ i >= len f).
Proof.
  unfold getitem_int, getitem. split.
  - intros H. destruct (Z_lt_ge_dec i (- len f)) as [|H1]; [now left|].
    destruct (Z_lt_ge_dec i (len f)) as [H2|]; [|now right].
    rewrite normalize_slice_int_ok in H by lia. discriminate.
  - intros H. now rewrite normalize_slice_int_error.
Qed.

Theorem getitem_int_ok f i :
  - len f <= i < len f ->
  exists r c, getitem_int f i = Ok r /\
              nth_error (cells f) (Z.to_nat (i mod len f)) = Some c /\ cells r = [c].
Proof.
  intros H. unfold getitem_int, getitem.
  rewrite normalize_slice_int_ok by exact H. cbn [bind].
  assert (Hm : 0 <= i mod len f < len f) by (apply Z.mod_pos_bound; lia).
  destruct (nth_error (cells f) (Z.to_nat (i mod len f))) as [c|] eqn:En.
  - eexists. exists c. split; [reflexivity|]. split; [reflexivity|].
    erewrite getitem_cells by reflexivity.
    unfold zslice. replace (Z.max 0 (i mod len f)) with (i mod len f) by lia.
    replace (Z.to_nat (i mod len f + 1 - i mod len f)) with 1%nat by lia.
    now apply firstn1_skipn.
  - apply nth_error_None in En. rewrite len_cells in Hm, En. lia.
Qed.

(* both at once, against Python's list indexing *)
Theorem getitem_int_cells f i :
  res_map cells (getitem_int f i) =
  match pyindex (cells f) i with Some c => Ok [c] | None => Raise IndexError end.
Proof.
  unfold pyindex. rewrite <- len_cells.
  destruct ((i <? - len f) || (len f <=? i)) eqn:E.
  - assert (H : i < - len f \/ i >= len f) by lia.
    apply getitem_int_error in H. now rewrite H.
  - destruct (getitem_int_ok f i) as [r [c [H1 [H2 H3]]]]; [lia|].
    rewrite H1, H2. cbn [res_map]. now rewrite H3.
Qed.

Lemma pyindex_map {A B} (g : A -> B) l i : pyindex (map g l) i = option_map g (pyindex l i).
Proof.
  unfold pyindex. rewrite map_length.
  destruct ((i <? - Z.of_nat (length l)) || (Z.of_nat (length l) <=? i)); [reflexivity|].
  apply nth_error_map.
Qed.

Lemma index_result_map {A B} (g : A -> B) (p : option A) (r : res (list A)) :
  r = match p with Some c => Ok [c] | None => Raise IndexError end ->
  res_map (map g) r = match option_map g p with Some c => Ok [c] | None => Raise IndexError end.
Proof. intros ->. destruct p; reflexivity. Qed.

Corollary getitem_int_text f i :
  res_map text (getitem_int f i) =
  match pyindex (text f) i with Some c => Ok [c] | None => Raise IndexError end.
Proof.
  rewrite text_cells, pyindex_map.
  transitivity (res_map (map fst) (res_map cells (getitem_int f i))).
  - destruct (getitem_int f i) as [r|e]; cbn [res_map]; [now rewrite text_cells|reflexivity].
  - exact (index_result_map fst _ _ (getitem_int_cells f i)).
Qed.

(* ====================================================================== *)
(* 5. + on either side, *, join                                              *)
Theorem add_cells f o : cells (add f o) = cells f ++ op_cells o.
Proof. destruct o as [s|g]; cbn [add op_cells]; rewrite cells_app; [now rewrite cells_single|reflexivity]. Qed.

Theorem radd_cells f o : cells (radd f o) = op_cells o ++ cells f.
Proof. destruct o as [s|g]; cbn [radd op_cells]; rewrite cells_app; [now rewrite cells_single|reflexivity]. Qed.

Corollary add_text f o : text (add f o) = text f ++ op_text o.
Proof. now rewrite !text_cells, add_cells, map_app, op_text_cells. Qed.

Corollary radd_text f o : text (radd f o) = op_text o ++ text f.
Proof. now rewrite !text_cells, radd_cells, map_app, op_text_cells. Qed.

Lemma sum_loop_cells f : forall k acc,
  cells (sum_loop f k acc) = cells acc ++ repeat_list (cells f) k.
Proof.
  induction k as [|k IH]; intros acc; cbn [sum_loop].
  - unfold repeat_list. cbn. now rewrite app_nil_r.
  - rewrite IH, add_cells. cbn [op_cells]. unfold repeat_list. cbn [repeat concat].
    now rewrite app_assoc.
Qed.

Theorem mul_cells f n : cells (mul f n) = repeat_list (cells f) (Z.to_nat n).
Proof. unfold mul. now rewrite sum_loop_cells. Qed.

Lemma repeat_list_map {A B} (g : A -> B) l n : map g (repeat_list l n) = repeat_list (map g l) n.
Proof.
  unfold repeat_list. induction n as [|n IH]; [reflexivity|].
  cbn [repeat concat]. now rewrite map_app, IH.
Qed.

Corollary mul_text f n : text (mul f n) = repeat_list (text f) (Z.to_nat n).
Proof. now rewrite !text_cells, mul_cells, repeat_list_map. Qed.

Lemma join_loop_cells sep : forall items chunks,
  cells (join_loop sep items sep chunks) =
  cells chunks ++ flat_map (fun y => cells sep ++ y) (map op_cells items).
Proof.
  induction items as [|x items IH]; intros chunks; cbn [join_loop map flat_map].
  - now rewrite app_nil_r.
  - rewrite IH, !cells_app, cells_to_fs, <- !app_assoc. reflexivity.
Qed.

Theorem join_cells sep items :
  cells (join sep items) = join_lists (cells sep) (map op_cells items).
Proof.
  unfold join. destruct items as [|x items]; [reflexivity|].
  cbn [join_loop map join_lists app]. rewrite join_loop_cells, cells_to_fs. reflexivity.
Qed.

Lemma join_lists_map {A B} (g : A -> B) sep xs :
  map g (join_lists sep xs) = join_lists (map g sep) (map (map g) xs).
Proof.
  destruct xs as [|x xs]; [reflexivity|]. cbn [join_lists map]. rewrite map_app. f_equal.
  induction xs as [|y xs IH]; [reflexivity|].
  cbn [flat_map map]. now rewrite !map_app, IH.
Qed.

Corollary join_text sep items :
  text (join sep items) = join_lists (text sep) (map op_text items).
Proof.
  rewrite !text_cells, join_cells, join_lists_map, map_map. f_equal.
  apply map_ext. intros o. now rewrite op_text_cells.
Qed.

(* ====================================================================== *)
(* 6. interface for the later properties (C04, C15, C16)                     *)
(* f[a:b] never raises; [slice_of] is its value *)
Definition slice_of (f : fmtstr) (a b : option Z) : fmtstr :=
  match getitem_slice f a b with Ok r => r | Raise _ => [] end.

Lemma getitem_slice_ok f a b : getitem_slice f a b = Ok (slice_of f a b).
Proof.
  unfold slice_of. destruct (getitem_slice_cells f a b) as [r [H _]]. now rewrite H.
Qed.

Lemma slice_of_cells f a b : cells (slice_of f a b) = pyslice (cells f) a b.
Proof.
  destruct (getitem_slice_cells f a b) as [r [H1 H2]].
  rewrite getitem_slice_ok in H1. injection H1 as <-. exact H2.
Qed.

Lemma slice_of_text f a b : text (slice_of f a b) = pyslice (text f) a b.
Proof. now rewrite !text_cells, slice_of_cells, pyslice_map. Qed.

Lemma slice_of_len f a b : len (slice_of f a b) = Z.of_nat (length (pyslice (cells f) a b)).
Proof. now rewrite len_cells, slice_of_cells. Qed.

(* Python slices with int bounds >= 0 in terms of firstn / skipn *)
Section PysliceFacts.
Context {A : Type}.

Lemma pyslice_all (l : list A) : pyslice l None None = l.
Proof.
  unfold pyslice, slice_bound. cbn [Z.to_nat skipn]. apply firstn_all2. lia.
Qed.

Lemma pyslice_between (l : list A) a b :
  0 <= a -> 0 <= b ->
  pyslice l (Some a) (Some b) = firstn (Z.to_nat (b - a)) (skipn (Z.to_nat a) l).
Proof.
  intros Ha Hb. rewrite pyslice_nonneg by assumption. unfold zslice.
  now replace (Z.max 0 a) with a by lia.
Qed.

Lemma pyslice_split (l : list A) k :
  0 <= k -> pyslice l None (Some k) ++ pyslice l (Some k) None = l.
Proof. intros Hk. rewrite pyslice_head, pyslice_tail by assumption. apply firstn_skipn. Qed.

Lemma skipn_add (l : list A) : forall m n, skipn m (skipn n l) = skipn (n + m) l.
Proof.
  intros m n. revert l. induction n as [|n IH]; intros l; [reflexivity|].
  destruct l as [|x l]; [now rewrite !skipn_nil|]. cbn [skipn Nat.add]. apply IH.
Qed.

Lemma pyslice_split3 (l : list A) a b :
  0 <= a <= b ->
  pyslice l None (Some a) ++ pyslice l (Some a) (Some b) ++ pyslice l (Some b) None = l.
Proof.
  intros H. rewrite pyslice_head, pyslice_tail, pyslice_between by lia.
  rewrite <- (firstn_skipn (Z.to_nat a) l) at 4. f_equal.
  rewrite <- (firstn_skipn (Z.to_nat (b - a)) (skipn (Z.to_nat a) l)) at 2. f_equal.
  rewrite skipn_add. f_equal. lia.
Qed.

Lemma pyslice_length (l : list A) a b :
  0 <= a -> 0 <= b ->
  Z.of_nat (length (pyslice l (Some a) (Some b))) =
  Z.max 0 (Z.min b (Z.of_nat (length l)) - Z.min a (Z.of_nat (length l))).
Proof.
  intros Ha Hb. rewrite pyslice_between by assumption.
  rewrite firstn_length, skipn_length. lia.
Qed.

End PysliceFacts.
