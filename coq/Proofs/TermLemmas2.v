(* More characterising lemmas for the reference terminal model (Spec/Term.v), for
   the windows that live on the main screen (C07): the scrollback is immutable,
   what a line feed on the bottom row does to the document, save/restore cursor
   around it (scroll_down), and the commands of CursorAwareWindow.__exit__. *)
From Curtsies Require Import Model.Base Spec.Sgr Spec.Term Spec.Doc Proofs.TermLemmas.
From Coq Require Import Arith Lia.
Close Scope N_scope.
Local Open Scope nat_scope.

(* ---- no command ever changes a line that has scrolled off the main screen --------- *)
Definition main_le (t t' : term) : Prop :=
  dbase t <= dbase t' /\ forall L c, L < dbase t -> dline t' L c = dline t L c.

Lemma main_le_refl t : main_le t t.
Proof. split; [lia | reflexivity]. Qed.

Lemma main_le_trans a b c : main_le a b -> main_le b c -> main_le a c.
Proof.
  intros [H1 H2] [H3 H4]. split; [lia|]. intros L x HL. rewrite H4 by lia. now apply H2.
Qed.

Lemma main_le_same_main t t' : t_main t' = t_main t -> main_le t t'.
Proof. intros E. unfold main_le, dbase, dline. rewrite E. split; [lia | reflexivity]. Qed.

Lemma main_le_with_abuf b t :
  b_base (abuf t) <= b_base b ->
  (forall L c, L < b_base (abuf t) -> b_doc b L c = b_doc (abuf t) L c) ->
  main_le t (with_abuf b t).
Proof.
  unfold main_le, dbase, dline, with_abuf, abuf. destruct (t_in_alt t); cbn; intros H1 H2; split; auto.
Qed.

Lemma scroll_main_le t : main_le t (scroll t).
Proof.
  unfold scroll. apply main_le_with_abuf; cbn [b_base b_doc]; [lia|].
  intros L c HL. destruct (Nat.eqb_spec L (b_base (abuf t) + t_h t)); [lia | reflexivity].
Qed.

Lemma index_main_le t : main_le t (index t).
Proof.
  unfold index. destruct (S (t_row t) =? t_h t); [apply scroll_main_le | now apply main_le_same_main].
Qed.

Lemma set_line_main_le t row p v :
  main_le t (with_abuf (set_line_cells (abuf t) (b_base (abuf t) + row) p v) t).
Proof.
  apply main_le_with_abuf; cbn [set_line_cells b_base b_doc]; [lia|].
  intros L c HL. destruct (Nat.eqb_spec L (b_base (abuf t) + row)); [lia | reflexivity].
Qed.

Lemma put_main_le x t : main_le t (put x t).
Proof.
  unfold put.
  set (t1 := if t_pending t then with_cursor (t_row (index t)) 0 false (index t) else t).
  assert (H1 : main_le t t1).
  { unfold t1. destruct (t_pending t); [|apply main_le_refl].
    eapply main_le_trans; [apply index_main_le | now apply main_le_same_main]. }
  cbv zeta.
  assert (H2 : main_le t1 (with_abuf (set_line_cells (abuf t1) (b_base (abuf t1) + t_row t1) (fun c => c =? t_col t1) x) t1))
    by apply set_line_main_le.
  destruct (S (t_col t1) =? t_w t1);
    (eapply main_le_trans; [exact H1|]; eapply main_le_trans; [exact H2|]; now apply main_le_same_main).
Qed.

Lemma puts_main_le : forall xs t, main_le t (puts xs t).
Proof.
  induction xs as [|x xs IH]; intros t; cbn [puts]; [apply main_le_refl|].
  eapply main_le_trans; [apply put_main_le | apply IH].
Qed.

Lemma exec_main_le t k t' : exec t k = Some t' -> main_le t t'.
Proof.
  destruct k; cbn [exec]; intros H.
  - destruct (run (t_sgr t) Ground s) as [[[xs g] ps]|]; [|discriminate]. destruct ps; try discriminate.
    inversion H; subst. eapply main_le_trans; [apply puts_main_le | now apply main_le_same_main].
  - inversion H; subst. now apply main_le_same_main.
  - inversion H; subst. apply set_line_main_le.
  - inversion H; subst. apply set_line_main_le.
  - inversion H; subst. apply main_le_with_abuf; cbn [b_base b_doc]; [lia|].
    intros L c HL.
    destruct (Nat.eqb_spec L (b_base (abuf t) + t_row t)); [lia|].
    destruct (Nat.ltb_spec (b_base (abuf t) + t_row t) L); [lia | reflexivity].
  - inversion H; subst. eapply main_le_trans; [apply index_main_le | now apply main_le_same_main].
  - inversion H; subst. now apply main_le_same_main.
  - inversion H; subst. now apply main_le_same_main.
  - destruct (t_saved t) as [[r c] g]. inversion H; subst. now apply main_le_same_main.
  - inversion H; subst. now apply main_le_same_main.
  - inversion H; subst. now apply main_le_same_main.
  - destruct (t_in_alt t); inversion H; subst; now apply main_le_same_main.
  - destruct (t_in_alt t); [destruct (t_saved_alt t) as [[r c] g]|]; inversion H; subst; now apply main_le_same_main.
  - inversion H; subst. apply main_le_refl.
Qed.

Lemma execs_main_le : forall ks t t', execs t ks = Some t' -> main_le t t'.
Proof.
  induction ks as [|k ks IH]; intros t t' H; cbn [execs] in H.
  - inversion H; subst. apply main_le_refl.
  - destruct (exec t k) as [t1|] eqn:E; [|discriminate].
    eapply main_le_trans; [eapply exec_main_le, E | apply IH, H].
Qed.

(* ---- screen rows are document lines (main screen) ---------------------------------- *)
Lemma scr_dline t r c : t_in_alt t = false -> scr t r c = dline t (dbase t + r) c.
Proof. intros H. unfold scr, dline, dbase, abuf. now rewrite H. Qed.

Lemma dline_scr t L c : t_in_alt t = false -> dbase t <= L -> dline t L c = scr t (L - dbase t) c.
Proof. intros H HL. rewrite scr_dline by exact H. f_equal. lia. Qed.

Lemma same_frame_main t t' :
  same_frame t t' -> t_in_alt t = false -> t_in_alt t' = false /\ dbase t' = dbase t.
Proof.
  intros (_ & _ & Ha & Hb) H. rewrite H in Ha. split; [exact Ha|].
  unfold dbase. unfold abuf in Hb. now rewrite Ha, H in Hb.
Qed.

(* a command sequence that keeps the frame: lines change only where screen rows change *)
Lemma dline_of_scr t t' :
  same_frame t t' -> t_in_alt t = false -> main_le t t' ->
  forall L c, dline t' L c = if L <? dbase t then dline t L c else scr t' (L - dbase t) c.
Proof.
  intros F A [_ M] L c. destruct (same_frame_main t t' F A) as [A' B'].
  destruct (Nat.ltb_spec L (dbase t)) as [H|H]; [now apply M|].
  rewrite <- B'. apply dline_scr; [exact A' | lia].
Qed.

(* ---- scroll_down: save the cursor, go to the bottom row, line feed, restore ---------- *)
Lemma exec_scroll_down far t :
  t_in_alt t = false -> 1 <= t_h t -> t_h t - 1 <= far ->
  exists t', execs t [Sc; Cup far 0; Lf; Rc] = Some t' /\
    t_h t' = t_h t /\ t_w t' = t_w t /\ t_in_alt t' = false /\ t_sgr t' = t_sgr t /\
    t_visible t' = t_visible t /\ t_row t' = t_row t /\ t_col t' = t_col t /\ t_pending t' = false /\
    dbase t' = S (dbase t) /\
    (forall L c, dline t' L c = if L =? dbase t + t_h t then erased (t_sgr t) else dline t L c).
Proof.
  intros A Hh Hfar.
  destruct t as [h w mn al ia row col pe g sv sva vis]. cbn [t_in_alt t_h] in A, Hh, Hfar. subst ia.
  cbn [execs exec t_h t_w t_row t_col t_sgr t_saved t_pending with_cursor].
  assert (Em : Nat.min far (h - 1) = h - 1) by lia. rewrite Em.
  unfold index. cbn [t_row t_h with_cursor].
  assert (Eb : (S (h - 1) =? h) = true) by (apply Nat.eqb_eq; lia). rewrite Eb.
  unfold scroll, with_abuf, abuf. cbn [t_in_alt t_main t_h t_sgr t_row t_col t_saved with_cursor with_sgr t_w t_alt t_pending t_saved_alt t_visible].
  eexists. split; [reflexivity|].
  unfold dbase, dline. cbn [t_h t_w t_in_alt t_sgr t_visible t_row t_col t_pending t_main b_base b_doc].
  repeat split.
Qed.

(* ---- the commands of __exit__ ---------------------------------------------------------- *)
Lemma exec_cha t c :
  exec t (Cha c) = Some (with_cursor (t_row t) (Nat.min c (t_w t - 1)) false t).
Proof. reflexivity. Qed.

(* line feed above the bottom row only moves the cursor; on the bottom row it scrolls *)
Lemma exec_lf_main t :
  t_in_alt t = false ->
  exists t', exec t Lf = Some t' /\
    t_h t' = t_h t /\ t_w t' = t_w t /\ t_in_alt t' = false /\ t_sgr t' = t_sgr t /\ t_visible t' = t_visible t /\
    t_col t' = t_col t /\
    (if S (t_row t) =? t_h t
     then t_row t' = t_row t /\ dbase t' = S (dbase t) /\
          (forall L c, dline t' L c = if L =? dbase t + t_h t then erased (t_sgr t) else dline t L c)
     else t_row t' = S (t_row t) /\ dbase t' = dbase t /\ (forall L c, dline t' L c = dline t L c)).
Proof.
  intros A. destruct t as [h w mn al ia row col pe g sv sva vis]. cbn [t_in_alt] in A. subst ia.
  cbn [exec]. unfold index. cbn [t_row t_h t_col t_pending].
  destruct (S row =? h) eqn:E.
  - unfold scroll, with_abuf, abuf.
    cbn [t_in_alt t_main t_h t_sgr t_row t_col t_saved with_cursor with_sgr t_w t_alt t_pending t_saved_alt t_visible].
    eexists. split; [reflexivity|]. unfold dbase, dline.
    cbn [t_in_alt t_main t_h t_sgr t_row t_col t_w t_visible b_base b_doc]. repeat split.
  - cbn [t_in_alt t_main t_h t_sgr t_row t_col t_saved with_cursor with_sgr t_w t_alt t_pending t_saved_alt t_visible].
    eexists. split; [reflexivity|]. unfold dbase, dline.
    cbn [t_in_alt t_main t_h t_sgr t_row t_col t_w t_visible b_base b_doc]. repeat split.
Qed.

(* Cha 0; Ed0; El0; Show with the default graphic state: everything from the cursor's
   line down becomes blank, nothing else changes *)
Lemma exec_clear_down t :
  t_in_alt t = false -> t_sgr t = sgr_default ->
  exists t', execs t [Cha 0; Ed0; El0; Show] = Some t' /\
    t_h t' = t_h t /\ t_w t' = t_w t /\ t_in_alt t' = false /\ t_visible t' = true /\
    dbase t' = dbase t /\
    (forall L c, dline t' L c = if dbase t + t_row t <=? L then blank else dline t L c).
Proof.
  intros A G. destruct t as [h w mn al ia row col pe g sv sva vis]. cbn [t_in_alt t_sgr] in A, G. subst ia g.
  cbn [execs exec with_cursor with_abuf abuf with_visible t_in_alt t_main t_h t_w t_row t_col t_sgr t_alt
       t_pending t_saved t_saved_alt t_visible set_line_cells b_base b_doc Nat.min].
  eexists. split; [reflexivity|].
  unfold dbase, dline. cbn [with_visible set_line_cells t_h t_w t_in_alt t_visible t_main b_base b_doc t_row].
  repeat split. intros L c. rewrite ?erased_default.
  cbn [Nat.leb].
  destruct (Nat.eqb_spec L (b_base mn + row)), (Nat.ltb_spec (b_base mn + row) L), (Nat.leb_spec (b_base mn + row) L);
    cbn [andb orb]; try reflexivity; try lia.
Qed.
