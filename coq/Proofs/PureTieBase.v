(* Tactics shared by the tie proofs (Proofs/PureTie*.v): the generated syntax trees of the pure
   helpers (Gen/Pure.v, dumped from the Python AST of /repo on every run) compute, under the
   reference semantics Spec/PyMini.v, exactly what the hand-written models compute -- for ALL
   arguments.  One file per function, so that an edit of one function in the repository breaks
   the obligations of that function only.  The proofs run the interpreter symbolically, one
   statement at a time (Proofs/PyStep.v); they do not mention variable names or the shape of
   the generated trees. *)
From Coq Require Import String Lia ZifyBool ZifyNat ZifyN.
From Curtsies Require Import Model.Base Spec.ListOps Spec.PyMini Gen.Pure Proofs.PyStep.
Local Open Scope Z_scope.

(* case analysis on the integer comparisons the evaluation is stuck on *)
Ltac split_ifs :=
  repeat match goal with
         | |- context [(?a <? ?b)%Z] => let E := fresh "E" in destruct (a <? b)%Z eqn:E; cbn beta iota
         | |- context [(?a >? ?b)%Z] => let E := fresh "E" in destruct (a >? b)%Z eqn:E; cbn beta iota
         | |- context [(?a <=? ?b)%Z] => let E := fresh "E" in destruct (a <=? b)%Z eqn:E; cbn beta iota
         | |- context [(?a >=? ?b)%Z] => let E := fresh "E" in destruct (a >=? b)%Z eqn:E; cbn beta iota
         | |- context [(?a =? ?b)%Z] => let E := fresh "E" in destruct (a =? b)%Z eqn:E; cbn beta iota
         end.
Ltac zcbv := cbv - [exec exec_block Z.gtb Z.ltb Z.sub Z.max Z.min Z.add Z.geb Z.leb Z.eqb Z.opp].
Ltac zrun := repeat first [ py_unfold1; zcbv | progress split_ifs ].


Definition embed_bool (r : res bool) : res val :=
  match r with Ok b => Ok (VBool b) | Raise e => Raise e end.
