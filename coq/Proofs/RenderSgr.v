(* C01: the terminal string of a FmtStr displays exactly its cells and resets. *)
From Curtsies Require Import Model.Base Gen.Tables Model.Render Spec.Sgr.
From Coq Require Import Lia.
Local Open Scope N_scope.

(* ---- the interpreter composes ------------------------------------------ *)
Lemma run_app : forall a b st ps,
  run st ps (a ++ b) =
  match run st ps a with
  | None => None
  | Some (o, st', ps') =>
      match run st' ps' b with
      | None => None
      | Some (o', st'', ps'') => Some (o ++ o', st'', ps'')
      end
  end.
Proof.
  induction a as [|c a IH]; intros b st ps; cbn [run app].
  - destruct (run st ps b) as [[[o s] p]|]; reflexivity.
  - destruct (step st ps c) as [[[o st'] ps']|]; [|reflexivity].
    rewrite IH. destruct (run st' ps' a) as [[[o1 st1] ps1]|]; [|reflexivity].
    destruct (run st1 ps1 b) as [[[o2 st2] ps2]|]; [|reflexivity].
    now rewrite app_assoc.
Qed.

(* a string that, from Ground, emits nothing and maps state [st] to [g st] *)
Definition silent (s : str) (g : sgr -> sgr) : Prop :=
  forall st, run st Ground s = Some ([], g st, Ground).

Lemma silent_app s1 g1 s2 g2 :
  silent s1 g1 -> silent s2 g2 -> silent (s1 ++ s2) (fun st => g2 (g1 st)).
Proof. intros H1 H2 st. rewrite run_app, H1, H2. reflexivity. Qed.

Lemma silent_nil : silent [] (fun st => st).
Proof. intro st; reflexivity. Qed.

Lemma run_text : forall t st, clean_str t = true ->
  run st Ground t = Some (map (fun c => (c, st)) t, st, Ground).
Proof.
  induction t as [|c t IH]; intros st H; [reflexivity|].
  cbn [clean_str forallb] in H. apply andb_true_iff in H as [Hc Ht].
  unfold clean_char in Hc. apply andb_true_iff in Hc as [H27 H155].
  apply negb_true_iff in H27, H155.
  cbn [run step map]. rewrite H27, H155. fold (clean_str t) in Ht.
  rewrite (IH st Ht). reflexivity.
Qed.

(* ---- every string the code wraps around the text is a known SGR command:
        these are the obligations that break when a constant changes --------- *)
Lemma fg_open_ok c : silent (fg_open c) (with_fg (Some c)).
Proof. intro st; destruct c; reflexivity. Qed.
Lemma bg_open_ok c : silent (bg_open c) (with_bg (Some c)).
Proof. intro st; destruct c; reflexivity. Qed.
Lemma fg_close_ok : silent fg_close (with_fg None).
Proof. intro st; reflexivity. Qed.
Lemma bg_close_ok : silent bg_close (with_bg None).
Proof. intro st; reflexivity. Qed.
Lemma st_open_ok k : silent (st_open k) (with_style k).
Proof. intro st; destruct k; reflexivity. Qed.
Lemma st_close_ok k : silent (st_close k) (fun _ => sgr_default).
Proof. intro st; destruct k; reflexivity. Qed.

(* ---- a wrapped string = opens ++ text ++ closes --------------------------- *)
Inductive wrapped (s : str) (t : str) (go gc : sgr -> sgr) : Prop :=
| Wrapped (w_open w_close : str)
    (w_eq : s = w_open ++ t ++ w_close)
    (w_so : silent w_open go)
    (w_sc : silent w_close gc).

Lemma wrapped_refl t : wrapped t t (fun s => s) (fun s => s).
Proof. exists [] []; [now rewrite app_nil_r | apply silent_nil | apply silent_nil]. Qed.

Lemma wrapped_wrap s t go gc o c g1 g2 :
  wrapped s t go gc -> silent o g1 -> silent c g2 ->
  wrapped (o ++ s ++ c) t (fun st => go (g1 st)) (fun st => g2 (gc st)).
Proof.
  intros [wo wc E So Sc] Ho Hc. exists (o ++ wo) (wc ++ c).
  - rewrite E. now rewrite !app_assoc.
  - apply (silent_app _ _ _ _ Ho So).
  - apply (silent_app _ _ _ _ Sc Hc).
Qed.

Definition opt_f {X} (v : option X) (g : X -> sgr -> sgr) : sgr -> sgr :=
  match v with Some x => g x | None => fun s => s end.
Definition opt_c {X} (v : option X) (g : sgr -> sgr) : sgr -> sgr :=
  match v with Some _ => g | None => fun s => s end.
Definition sty_f (k : style) (v : option bool) : sgr -> sgr :=
  if on v then with_style k else fun s => s.
Definition sty_c (v : option bool) : sgr -> sgr :=
  if on v then fun _ => sgr_default else fun s => s.

Lemma wrapped_fg s t go gc v : wrapped s t go gc ->
  wrapped (wrap_fg v s) t (fun st => go (opt_f v (fun c => with_fg (Some c)) st))
                          (fun st => opt_c v (with_fg None) (gc st)).
Proof.
  intros W. destruct v as [c|]; cbn [wrap_fg opt_f opt_c].
  - apply (wrapped_wrap _ _ _ _ _ _ _ _ W (fg_open_ok c) fg_close_ok).
  - destruct W as [wo wc E So Sc]. now exists wo wc.
Qed.
Lemma wrapped_bg s t go gc v : wrapped s t go gc ->
  wrapped (wrap_bg v s) t (fun st => go (opt_f v (fun c => with_bg (Some c)) st))
                          (fun st => opt_c v (with_bg None) (gc st)).
Proof.
  intros W. destruct v as [c|]; cbn [wrap_bg opt_f opt_c].
  - apply (wrapped_wrap _ _ _ _ _ _ _ _ W (bg_open_ok c) bg_close_ok).
  - destruct W as [wo wc E So Sc]. now exists wo wc.
Qed.
Lemma wrapped_style k s t go gc v : wrapped s t go gc ->
  wrapped (wrap_style k v s) t (fun st => go (sty_f k v st)) (fun st => sty_c v (gc st)).
Proof.
  intros W. unfold sty_f, sty_c.
  destruct v as [[|]|]; cbn [wrap_style on];
    try (destruct W as [wo wc E So Sc]; now exists wo wc).
  apply (wrapped_wrap _ _ _ _ _ _ _ _ W (st_open_ok k) (st_close_ok k)).
Qed.

Lemma wrapped_run s t go gc st :
  wrapped s t go gc -> clean_str t = true ->
  run st Ground s = Some (map (fun c => (c, go st)) t, gc (go st), Ground).
Proof.
  intros [wo wc E So Sc] Ht. rewrite E, run_app, So, run_app, (run_text _ _ Ht), Sc.
  now rewrite app_nil_r.
Qed.

(* ---- one run -------------------------------------------------------------------- *)
Lemma render_chunk_run c : clean_str (c_s c) = true ->
  run sgr_default Ground (render_chunk c) = Some (chunk_cells c, sgr_default, Ground).
Proof.
  intros Hc. unfold render_chunk.
  pose proof (wrapped_refl (c_s c)) as W.
  apply (wrapped_bg _ _ _ _ (a_bg (c_a c))) in W.
  apply (wrapped_style Blink _ _ _ _ (a_blink (c_a c))) in W.
  apply (wrapped_style Bold _ _ _ _ (a_bold (c_a c))) in W.
  apply (wrapped_style Dark _ _ _ _ (a_dark (c_a c))) in W.
  apply (wrapped_fg _ _ _ _ (a_fg (c_a c))) in W.
  apply (wrapped_style Invert _ _ _ _ (a_invert (c_a c))) in W.
  apply (wrapped_style Italic _ _ _ _ (a_italic (c_a c))) in W.
  apply (wrapped_style Underline _ _ _ _ (a_underline (c_a c))) in W.
  rewrite (wrapped_run _ _ _ _ sgr_default W Hc).
  unfold chunk_cells, eff, sty_f, sty_c, opt_f, opt_c.
  destruct (c_a c) as [fg bg b d i u bl inv]; cbn [a_fg a_bg a_bold a_dark a_italic a_underline a_blink a_invert].
  destruct fg, bg, (on b), (on d), (on i), (on u), (on bl), (on inv); reflexivity.
Qed.

(* ---- whole FmtStr ----------------------------------------------------------------- *)
Theorem render_displays : forall f, clean f = true ->
  display (render f) = Some (cells f, sgr_default, Ground).
Proof.
  unfold display. induction f as [|c f IH]; intros H; [reflexivity|].
  cbn [clean forallb] in H. apply andb_true_iff in H as [Hc Hf]. fold (clean f) in Hf.
  cbn [render cells flat_map]. fold (render f). fold (cells f).
  rewrite run_app, (render_chunk_run c Hc), (IH Hf). reflexivity.
Qed.

Corollary render_displays_exactly f : clean f = true -> exists o st,
  display (render f) = Some (o, st, Ground) /\ o = cells f /\ st = sgr_default.
Proof. intros H. exists (cells f), sgr_default. now rewrite render_displays. Qed.

(* non-vacuity: a three-run value with every kind of attribute, an empty run,
   control characters and an explicit False meets the hypothesis *)
Example render_displays_nonvacuous :
  let f := [C [104; 105; 10] (A 2 5 1 0 2 0 0 1); C [] (A 0 0 1 0 0 0 0 0); C [9; 65279; 120] (A 0 0 0 0 0 1 0 0)] in
  clean f = true /\ length (cells f) = 6%nat /\ display (render f) = Some (cells f, sgr_default, Ground).
Proof. vm_compute. repeat split. Qed.

(* ---- structure of the terminal string ------------------------------------------------- *)
(* rendering is run by run: the string of a concatenation is the concatenation of the strings *)
Theorem render_app f g : render (f ++ g) = render f ++ render g.
Proof. unfold render. now rewrite flat_map_app. Qed.

(* a run on which no attribute is switched on (absent or explicitly False; no colours) is its text,
   with nothing around it: an unformatted FmtStr renders as its plain text *)
Definition unstyled (a : atts) : bool :=
  match a_fg a, a_bg a with
  | None, None => negb (on (a_bold a) || on (a_dark a) || on (a_italic a) || on (a_underline a)
                        || on (a_blink a) || on (a_invert a))
  | _, _ => false
  end.

Lemma wrap_style_off k v s : on v = false -> wrap_style k v s = s.
Proof. destruct v as [[|]|]; cbn; congruence. Qed.

Lemma render_chunk_unstyled c : unstyled (c_a c) = true -> render_chunk c = c_s c.
Proof.
  unfold unstyled, render_chunk. destruct (c_a c) as [fg bg b d i u bl inv]; cbn [a_fg a_bg a_bold a_dark a_italic a_underline a_blink a_invert].
  destruct fg, bg; try discriminate. intro H. apply negb_true_iff in H.
  repeat (apply orb_false_iff in H; destruct H as [H ?]).
  cbn [wrap_fg wrap_bg]. now rewrite !wrap_style_off.
Qed.

Theorem render_unstyled f : forallb (fun c => unstyled (c_a c)) f = true -> render f = text f.
Proof.
  induction f as [|c f IH]; intro H; [reflexivity|].
  cbn [forallb] in H. apply andb_true_iff in H as [Hc Hf].
  cbn [render text flat_map]. fold (render f). fold (text f). now rewrite (render_chunk_unstyled c Hc), (IH Hf).
Qed.

(* two values with the same cells display the same, however the runs are cut *)
Corollary same_cells_same_display f g : clean f = true -> clean g = true -> cells f = cells g ->
  display (render f) = display (render g).
Proof. intros Hf Hg E. now rewrite (render_displays f Hf), (render_displays g Hg), E. Qed.
