(* C05 / C17: proofs about the model of escseqparse.py and FmtStr.from_str. *)
From Curtsies Require Import Model.Base Gen.Tables Model.Render Model.Parse Spec.Sgr Spec.EscScan Proofs.RenderSgr.
From Coq Require Import Lia ZifyBool ZifyNat ZifyN.
Local Open Scope N_scope.

(* ======================================================================== *)
(* 1. Scanners: decomposition and uniqueness of the regex matches           *)
(* ======================================================================== *)

Lemma span_app p s a b : span p s = (a, b) -> s = a ++ b /\ forallb p a = true.
Proof.
  revert a b. induction s as [|c r IH]; intros a b H; cbn [span] in H.
  - inversion H; subst. now split.
  - destruct (p c) eqn:Hc.
    + destruct (span p r) as [a' b'] eqn:E. inversion H; subst.
      destruct (IH a' b eq_refl) as [-> Hall]. split; [reflexivity|]. cbn. now rewrite Hc.
    + inversion H; subst. now split.
Qed.

Lemma span_stop p s a b : span p s = (a, b) -> match b with [] => True | c :: _ => p c = false end.
Proof.
  revert a b. induction s as [|c r IH]; intros a b H; cbn [span] in H.
  - inversion H; subst. exact I.
  - destruct (p c) eqn:Hc.
    + destruct (span p r) as [a' b'] eqn:E. inversion H; subst. apply (IH a' b eq_refl).
    + inversion H; subst. exact Hc.
Qed.

(* [span] is determined by the decomposition: maximal munch is the only possibility *)
Lemma span_unique p a b : forallb p a = true -> match b with [] => True | c :: _ => p c = false end ->
  span p (a ++ b) = (a, b).
Proof.
  intros Ha Hb. induction a as [|c a IH]; cbn [app].
  - destruct b as [|c b]; [reflexivity|]. cbn [span]. now rewrite Hb.
  - cbn [forallb] in Ha. apply andb_true_iff in Ha as [Hc Ha]. cbn [span]. rewrite Hc, (IH Ha). reflexivity.
Qed.

(* the language of the numbers group: (\d+;)*(\d+)?  --  [seen]: the previous character was a digit *)
Fixpoint numbers_lang (seen : bool) (s : str) : bool :=
  match s with
  | [] => true
  | c :: r => if isdigit c then numbers_lang true r
              else if c =? 59 then (if seen then numbers_lang false r else false)
              else false
  end.

Lemma scan_numbers_app seen s a b : scan_numbers seen s = (a, b) -> s = a ++ b /\ numbers_lang seen a = true.
Proof.
  revert seen a b. induction s as [|c r IH]; intros seen a b H; cbn [scan_numbers] in H.
  - inversion H; subst. now split.
  - destruct (isdigit c) eqn:Hd.
    + destruct (scan_numbers true r) as [a' b'] eqn:E. inversion H; subst.
      destruct (IH _ _ _ E) as [-> Hl]. split; [reflexivity|]. cbn [numbers_lang]. now rewrite Hd.
    + destruct ((c =? 59) && seen) eqn:Hs.
      * destruct (scan_numbers false r) as [a' b'] eqn:E. inversion H; subst.
        destruct (IH _ _ _ E) as [-> Hl]. split; [reflexivity|]. cbn [numbers_lang]. rewrite Hd.
        apply andb_true_iff in Hs as [-> ->]. exact Hl.
      * inversion H; subst. now split.
Qed.

Lemma is_inter_not_digit c : is_inter c = true -> isdigit c = false /\ (c =? 59) = false /\ is_final c = false.
Proof. unfold is_inter, isdigit, is_final. lia. Qed.
Lemma is_final_not_digit c : is_final c = true -> isdigit c = false /\ (c =? 59) = false /\ is_inter c = false.
Proof. unfold is_inter, isdigit, is_final. lia. Qed.

(* the scanner consumes exactly a word of the language that is followed by a character
   which cannot extend it *)
Lemma scan_numbers_unique a b seen : numbers_lang seen a = true ->
  match b with [] => True | c :: _ => isdigit c = false /\ (c =? 59) = false end ->
  scan_numbers seen (a ++ b) = (a, b).
Proof.
  revert seen. induction a as [|c a IH]; intros seen Ha Hb; cbn [app].
  - destruct b as [|c b]; [reflexivity|]. destruct Hb as [H1 H2]. cbn [scan_numbers]. now rewrite H1, H2.
  - cbn [numbers_lang] in Ha. cbn [scan_numbers]. destruct (isdigit c) eqn:Hd.
    + now rewrite (IH true Ha Hb).
    + destruct (c =? 59) eqn:H59; [|discriminate]. destruct seen; [|discriminate].
      cbn [andb]. now rewrite (IH false Ha Hb).
Qed.

(* ---- the CSI pattern after the introducer, declaratively: any way of matching
        (\d+;)*(\d+)? [ -/]* [@-~] against a prefix of s is a decomposition of this shape *)
Definition csi_body_match (s nums inter : str) (cmd : char) (rest : str) : Prop :=
  s = nums ++ inter ++ cmd :: rest /\ numbers_lang false nums = true /\
  forallb is_inter inter = true /\ is_final cmd = true.

(* the scanner finds a match iff one exists, and it is that one: the regex engine's
   backtracking cannot produce anything else *)
Lemma match_csi_body_spec s nums inter cmd rest :
  match_csi_body s = Some (nums, inter, cmd, rest) <-> csi_body_match s nums inter cmd rest.
Proof.
  unfold match_csi_body, csi_body_match. split.
  - destruct (scan_numbers false s) as [n r1] eqn:E1. destruct (span is_inter r1) as [i r2] eqn:E2.
    destruct r2 as [|c r3]; [discriminate|]. destruct (is_final c) eqn:Hf; [|discriminate].
    intros H; inversion H; subst. destruct (scan_numbers_app _ _ _ _ E1) as [-> Hl].
    destruct (span_app _ _ _ _ E2) as [-> Hi]. repeat split; auto.
  - intros (-> & Hl & Hi & Hf).
    assert (Hstop : match inter ++ cmd :: rest with [] => True | c :: _ => isdigit c = false /\ (c =? 59) = false end).
    { destruct inter as [|x inter]; cbn [app].
      - destruct (is_final_not_digit _ Hf) as (A & B & _). now split.
      - cbn [forallb] in Hi. apply andb_true_iff in Hi as [Hx _].
        destruct (is_inter_not_digit _ Hx) as (A & B & _). now split. }
    rewrite (scan_numbers_unique _ _ _ Hl Hstop).
    rewrite (span_unique is_inter inter (cmd :: rest) Hi).
    + now rewrite Hf.
    + now destruct (is_final_not_digit _ Hf) as (_ & _ & C).
Qed.

Lemma match_csi_body_unique s n1 i1 c1 r1 n2 i2 c2 r2 :
  csi_body_match s n1 i1 c1 r1 -> csi_body_match s n2 i2 c2 r2 ->
  n1 = n2 /\ i1 = i2 /\ c1 = c2 /\ r1 = r2.
Proof.
  intros H1 H2. apply match_csi_body_spec in H1, H2. rewrite H1 in H2. inversion H2. auto.
Qed.

Lemma match_csi_body_app s n i k rest : match_csi_body s = Some (n, i, k, rest) -> s = n ++ i ++ k :: rest.
Proof. intros H. now apply match_csi_body_spec in H as [-> _]. Qed.

(* ======================================================================== *)
(* 2. peel_off_esc_code: shape of the result                                *)
(* ======================================================================== *)

(* what a pattern matched at the head of a string guarantees *)
Definition head_ok (h : str -> option rmatch) (Q : rmatch -> Prop) : Prop :=
  forall s m, h s = Some m ->
    m_front m = [] /\ (length (m_rest m) < length s)%nat /\ Q m.

Lemma find_first_ok h Q (Hh : head_ok h Q) (HQ : forall c m, Q m -> Q (with_front c m)) :
  forall s m, find_first h s = Some m ->
    (length (m_front m) + length (m_rest m) < length s)%nat /\ Q m.
Proof.
  induction s as [|c r IH]; intros m H; cbn [find_first] in H.
  - destruct (h []) as [m'|] eqn:E; [|discriminate]. inversion H; subst.
    destruct (Hh _ _ E) as (F & L & q). rewrite F. cbn in *. split; [lia|exact q].
  - destruct (h (c :: r)) as [m'|] eqn:E.
    + inversion H; subst. destruct (Hh _ _ E) as (F & L & q). rewrite F. cbn in *. split; [lia|exact q].
    + destruct (find_first h r) as [m'|] eqn:E'; [|discriminate]. inversion H; subst.
      destruct (IH _ eq_refl) as [L q]. cbn [with_front m_front m_rest length]. split; [lia|auto].
Qed.

Definition has_numbers (m : rmatch) : Prop := m_numbers m <> None.
Definition two_byte (m : rmatch) : Prop := m_numbers m = None /\ is_fe (m_command m) = true.

Lemma match_csi_at_ok : head_ok match_csi_at has_numbers.
Proof.
  intros s m H. unfold match_csi_at in H. destruct s as [|c r]; [discriminate|].
  destruct (c =? 155) eqn:H155.
  - destruct (match_csi_body r) as [[[[n i] k] rest]|] eqn:E; [|discriminate].
    inversion H; subst. apply match_csi_body_app in E. subst r. cbn. unfold has_numbers. cbn.
    repeat split; [|discriminate]. rewrite !app_length. cbn. lia.
  - destruct (c =? 27); [|discriminate]. destruct r as [|d r']; [discriminate|].
    destruct (d =? 91); [|discriminate].
    destruct (match_csi_body r') as [[[[n i] k] rest]|] eqn:E; [|discriminate].
    inversion H; subst. apply match_csi_body_app in E. subst r'. cbn. unfold has_numbers. cbn.
    repeat split; [|discriminate]. rewrite !app_length. cbn. lia.
Qed.

Lemma match_two_at_ok : head_ok match_two_at two_byte.
Proof.
  intros s m H. unfold match_two_at in H. destruct s as [|c r]; [discriminate|].
  destruct r as [|d rest]; [discriminate|]. destruct ((c =? 27) && is_fe d) eqn:E; [|discriminate].
  inversion H; subst. cbn. unfold two_byte. cbn. apply andb_true_iff in E as [_ E]. repeat split; auto.
Qed.

(* outcome is a value satisfying P, or ValueError *)
Definition ok_or_ve {X} (r : res X) (P : X -> Prop) : Prop :=
  match r with Ok x => P x | Raise e => e = ValueError end.

Lemma ok_or_ve_bind {X Y} (r : res X) (k : X -> res Y) P Q :
  ok_or_ve r P -> (forall x, P x -> ok_or_ve (k x) Q) -> ok_or_ve (bind r k) Q.
Proof. destruct r as [x|e]; cbn; auto. Qed.

Lemma py_int_ok x : ok_or_ve (py_int x) (fun _ => True).
Proof. unfold py_int. destruct (_ || _); cbn; auto. destruct (_ <? _); cbn; auto. Qed.

Lemma map_res_ok {X Y} (f : X -> res Y) l : (forall x, ok_or_ve (f x) (fun _ => True)) ->
  ok_or_ve (map_res f l) (fun _ => True).
Proof.
  intros Hf. induction l as [|x l IH]; cbn [map_res]; [exact I|].
  eapply ok_or_ve_bind; [apply Hf|]. intros y _. eapply ok_or_ve_bind; [apply IH|]. intros ys _. exact I.
Qed.

Lemma convert_numbers_ok ns : ok_or_ve (convert_numbers ns) (fun _ => True).
Proof.
  unfold convert_numbers. destruct (forallb _ _); [|exact I].
  eapply ok_or_ve_bind; [apply map_res_ok, py_int_ok|]. intros l _. exact I.
Qed.

(* a token the loop can meet: the numbers key is absent only for two-byte sequences,
   whose command byte is in [@-_] (so never 'm') *)
Definition token_ok (tk : token) : Prop := t_numbers tk = None -> is_fe (t_command tk) = true.

Definition peel_post (s : str) (x : str * option token * str) : Prop :=
  let '(front, tok, rest) := x in
  match tok with
  | None => front = s /\ rest = []
  | Some tk => (length front + length rest < length s)%nat /\ token_ok tk
  end.

Lemma peel_ok s : ok_or_ve (peel s) (peel_post s).
Proof.
  unfold peel.
  assert (H1 := find_first_ok _ _ match_csi_at_ok (fun c m q => q) s).
  assert (H2 := find_first_ok _ _ match_two_at_ok (fun c m q => q) s).
  destruct (find_first match_csi_at s) as [a|]; destruct (find_first match_two_at s) as [b|]; cbn [choose].
  - destruct (length (m_front a) <=? length (m_front b))%nat.
    + destruct (H1 _ eq_refl) as [L q]. unfold has_numbers in q.
      destruct (m_numbers a) as [ns|] eqn:E; [|congruence].
      eapply (ok_or_ve_bind _ _ (fun o => o <> None)); [eapply (ok_or_ve_bind _ _ (fun _ => True)); [apply convert_numbers_ok|]; intros x _; cbn; discriminate|].
      intros o Ho; cbn; (split; [exact L|]); unfold token_ok; cbn; intros; congruence.
    + destruct (H2 _ eq_refl) as [L [q1 q2]]. rewrite q1. cbn. split; [exact L|]. unfold token_ok. cbn. auto.
  - destruct (H1 _ eq_refl) as [L q]. unfold has_numbers in q.
    destruct (m_numbers a) as [ns|] eqn:E; [|congruence].
    eapply (ok_or_ve_bind _ _ (fun o => o <> None)); [eapply (ok_or_ve_bind _ _ (fun _ => True)); [apply convert_numbers_ok|]; intros x _; cbn; discriminate|].
    intros o Ho; cbn; (split; [exact L|]); unfold token_ok; cbn; intros; congruence.
  - destruct (H2 _ eq_refl) as [L [q1 q2]]. rewrite q1. cbn. split; [exact L|]. unfold token_ok. cbn. auto.
  - cbn. auto.
Qed.

(* ======================================================================== *)
(* 3. C17: from_str is total                                                *)
(* ======================================================================== *)

Lemma list_eqb_N_eq : forall a b : str, str_eqb a b = true -> a = b.
Proof.
  unfold str_eqb. induction a as [|x a IH]; destruct b as [|y b]; cbn; intros H; try discriminate; auto.
  apply andb_true_iff in H as [H1 H2]. apply N.eqb_eq in H1. subst. f_equal. auto.
Qed.
Lemma str_eqb_refl : forall a : str, str_eqb a a = true.
Proof. unfold str_eqb. induction a as [|x a IH]; cbn; auto. now rewrite N.eqb_refl. Qed.

Definition is_some {X} (o : option X) : bool := match o with Some _ => true | None => false end.

(* a binding that parse_args accepts: names only under 'fg' / 'bg' and resolvable through
   the tables, True only under a style name (which is none of 'fg', 'bg', 'style') *)
Definition entry_ok (kv : str * fval) : bool :=
  let (k, v) := kv in
  match v with
  | VNone => true
  | VName nm =>
      (str_eqb k key_fg && is_some (match lookupS nm fg_colors with Some n => color_at fg_colors n | None => None end)) ||
      (str_eqb k key_bg && is_some (match lookupS nm bg_colors with Some n => color_at bg_colors n | None => None end))
  | VTrue => in_keys k styles && negb (str_eqb k key_fg) && negb (str_eqb k key_bg) && negb (str_eqb k key_style)
  end.
Definition good_dict (d : dict) : bool := forallb entry_ok d.

Lemma lookupS_in {V} k (d : list (str * V)) v : lookupS k d = Some v -> In (k, v) d.
Proof.
  induction d as [|[k' v'] d IH]; cbn [lookupS]; [discriminate|].
  destruct (str_eqb k' k) eqn:E.
  - intros H; inversion H; subst. apply list_eqb_N_eq in E. subst. now left.
  - intros H. right. auto.
Qed.
Lemma lookupN_in {V} n (t : list (N * V)) v : lookupN n t = Some v -> In (n, v) t.
Proof.
  induction t as [|[k' v'] t IH]; cbn [lookupN]; [discriminate|].
  destruct (k' =? n) eqn:E.
  - intros H; inversion H; subst. apply N.eqb_eq in E. subst. now left.
  - intros H. right. auto.
Qed.

Lemma kw_get_entry d k v : good_dict d = true -> kw_get d k = Some v -> entry_ok (k, v) = true /\ v <> VNone.
Proof.
  intros G H. unfold kw_get in H. destruct (lookupS k d) as [v'|] eqn:E; [|discriminate].
  apply lookupS_in in E. unfold good_dict in G. rewrite forallb_forall in G. specialize (G _ E).
  destruct v'; inversion H; subst; split; auto; discriminate.
Qed.

(* the tables are consistent with one another: every name a number maps to is known to parse_args *)
Lemma fg_table_ok : forallb (fun e => entry_ok (key_fg, VName (snd e))) fg_number_to_color = true.
Proof. vm_compute. reflexivity. Qed.
Lemma bg_table_ok : forallb (fun e => entry_ok (key_bg, VName (snd e))) bg_number_to_color = true.
Proof. vm_compute. reflexivity. Qed.
Lemma style_table_ok : forallb (fun e => entry_ok (snd e, VTrue)) number_to_style = true.
Proof. vm_compute. reflexivity. Qed.
Lemma reset_all_dict_ok : good_dict reset_all_dict = true.
Proof. vm_compute. reflexivity. Qed.

Lemma tokens_of_value_ok v : forallb good_dict (tokens_of_value v) = true.
Proof.
  destruct v as [n|c]; [|reflexivity]. unfold tokens_of_value.
  rewrite !forallb_app. repeat (apply andb_true_iff; split).
  - destruct (lookupN n fg_number_to_color) as [nm|] eqn:E; [|reflexivity].
    apply lookupN_in in E. pose proof fg_table_ok as T. rewrite forallb_forall in T. specialize (T _ E).
    cbn [snd] in T. cbn [forallb good_dict]. now rewrite T.
  - destruct (lookupN n bg_number_to_color) as [nm|] eqn:E; [|reflexivity].
    apply lookupN_in in E. pose proof bg_table_ok as T. rewrite forallb_forall in T. specialize (T _ E).
    cbn [snd] in T. cbn [forallb good_dict]. now rewrite T.
  - destruct (lookupN n number_to_style) as [nm|] eqn:E; [|reflexivity].
    apply lookupN_in in E. pose proof style_table_ok as T. rewrite forallb_forall in T. specialize (T _ E).
    cbn [snd] in T. cbn [forallb good_dict]. now rewrite T.
  - destruct (n =? reset_all); [|reflexivity]. cbn [forallb]. now rewrite reset_all_dict_ok.
  - destruct (n =? reset_fg); reflexivity.
  - destruct (n =? reset_bg); reflexivity.
Qed.

Lemma forallb_flat_map {X Y} (p : Y -> bool) (f : X -> list Y) l :
  (forall x, forallb p (f x) = true) -> forallb p (flat_map f l) = true.
Proof. intros H. induction l as [|x l IH]; cbn; [reflexivity|]. now rewrite forallb_app, H, IH. Qed.

Definition tok_post (o : option (list dict)) : Prop :=
  match o with Some l => forallb good_dict l = true | None => True end.

Lemma is_fe_not_m c : is_fe c = true -> (c =? 109) = false.
Proof. unfold is_fe. lia. Qed.

Lemma token_type_ok tk : token_ok tk -> ok_or_ve (token_type tk) tok_post.
Proof.
  intros Htk. unfold token_type. destruct (t_command tk =? 109) eqn:Hm.
  - destruct (t_numbers tk) as [nums|] eqn:E.
    + pose proof (forallb_flat_map good_dict tokens_of_value (values_of nums) tokens_of_value_ok) as G.
      destruct (flat_map tokens_of_value (values_of nums)); [reflexivity|exact G].
    + specialize (Htk E). apply is_fe_not_m in Htk. congruence.
  - destruct (t_command tk =? 72); cbn; auto.
Qed.

Definition item_ok (i : item) : bool := match i with IStr _ => true | IDict d => good_dict d end.

Lemma forallb_map_IDict l : forallb good_dict l = true -> forallb item_ok (map IDict l) = true.
Proof. induction l as [|d l IH]; cbn; [reflexivity|]. intros H. apply andb_true_iff in H as [A B]. now rewrite A, IH. Qed.

(* with enough fuel the loop never runs dry, raises nothing but ValueError, and yields
   only dictionaries parse_args accepts *)
Lemma parse_loop_ok : forall fuel rest, (length rest < fuel)%nat ->
  ok_or_ve (parse_loop fuel rest) (fun l => forallb item_ok l = true).
Proof.
  induction fuel as [|fuel IH]; intros rest Hf; [lia|]. cbn [parse_loop].
  eapply ok_or_ve_bind; [apply peel_ok|]. intros [[front tok] rest'] Hp. cbn [peel_post] in Hp.
  eapply (ok_or_ve_bind _ _ (fun l => forallb item_ok l = true)).
  { destruct tok as [tk|]; [|reflexivity]. destruct Hp as [_ Htk].
    eapply ok_or_ve_bind; [apply (token_type_ok _ Htk)|]. intros [l|] Hl; cbn; [|reflexivity].
    now apply forallb_map_IDict. }
  intros toks Htoks.
  eapply (ok_or_ve_bind _ _ (fun l => forallb item_ok l = true)).
  { destruct rest' as [|c r']; [reflexivity|]. apply IH.
    destruct tok as [tk|]; [destruct Hp as [L _]; lia|destruct Hp as [_ Hr]; discriminate]. }
  intros later Hlater. cbn. rewrite !forallb_app, Htoks, Hlater. now destruct (is_nil front).
Qed.

Lemma parse_ok s : ok_or_ve (parse s) (fun l => forallb item_ok l = true).
Proof. apply parse_loop_ok. lia. Qed.

Lemma conv_color_fg_ok d : good_dict d = true -> exists c, conv_color fg_colors (kw_get d key_fg) = Ok c.
Proof.
  intros G. destruct (kw_get d key_fg) as [v|] eqn:E; [|now eexists].
  destruct (kw_get_entry _ _ _ G E) as [H Hn]. destruct v as [nm| |]; [| |congruence].
  - cbn [entry_ok] in H. change (str_eqb key_fg key_fg) with true in H. change (str_eqb key_fg key_bg) with false in H.
    cbn [andb orb] in H. rewrite orb_false_r in H. cbn [conv_color].
    destruct (lookupS nm fg_colors) as [n|]; [|discriminate]. destruct (color_at fg_colors n); [now eexists|discriminate].
  - discriminate H.
Qed.
Lemma conv_color_bg_ok d : good_dict d = true -> exists c, conv_color bg_colors (kw_get d key_bg) = Ok c.
Proof.
  intros G. destruct (kw_get d key_bg) as [v|] eqn:E; [|now eexists].
  destruct (kw_get_entry _ _ _ G E) as [H Hn]. destruct v as [nm| |]; [| |congruence].
  - cbn [entry_ok] in H. change (str_eqb key_bg key_bg) with true in H. change (str_eqb key_bg key_fg) with false in H.
    cbn [andb orb] in H. cbn [conv_color].
    destruct (lookupS nm bg_colors) as [n|]; [|discriminate]. destruct (color_at bg_colors n); [now eexists|discriminate].
  - discriminate H.
Qed.
Lemma conv_style_ok d k : good_dict d = true -> exists b, conv_style (kw_get d (style_name k)) = Ok b.
Proof.
  intros G. destruct (kw_get d (style_name k)) as [v|] eqn:E; [|now eexists].
  destruct (kw_get_entry _ _ _ G E) as [H Hn]. destruct v as [nm| |]; [| |congruence].
  - exfalso. destruct k; vm_compute in H; discriminate.
  - now eexists.
Qed.

Lemma parse_args_kw_ok d : good_dict d = true -> exists a, parse_args_kw d = Ok a.
Proof.
  intros G. unfold parse_args_kw.
  destruct (kw_get d key_style) as [v|] eqn:Es.
  { exfalso. destruct (kw_get_entry _ _ _ G Es) as [H Hn]. destruct v; [| |congruence]; vm_compute in H; discriminate. }
  assert (Hk : forallb (fun k => match kw_get d k with
                                 | Some _ => str_eqb k key_fg || str_eqb k key_bg || in_keys k styles
                                 | None => true end) (map fst d) = true).
  { apply forallb_forall. intros k _. destruct (kw_get d k) as [v|] eqn:E; [|reflexivity].
    destruct (kw_get_entry _ _ _ G E) as [H Hn]. destruct v as [nm| |]; [| |congruence]; cbn [entry_ok] in H.
    - apply orb_true_iff in H as [H|H]; apply andb_true_iff in H as [-> _]; [reflexivity|apply orb_true_iff; left; apply orb_true_r].
    - apply andb_true_iff in H as [H _]. apply andb_true_iff in H as [H _]. apply andb_true_iff in H as [-> _]. apply orb_true_r. }
  rewrite Hk. cbn [negb].
  destruct (conv_color_fg_ok d G) as [fg ->]. destruct (conv_color_bg_ok d G) as [bg ->].
  destruct (conv_style_ok d Bold G) as [b ->]. destruct (conv_style_ok d Dark G) as [dk ->].
  destruct (conv_style_ok d Italic G) as [i ->]. destruct (conv_style_ok d Underline G) as [u ->].
  destruct (conv_style_ok d Blink G) as [bl ->]. destruct (conv_style_ok d Invert G) as [inv ->].
  cbn [bind]. now eexists.
Qed.

Lemma build_chunks_ok : forall l cur, good_dict cur = true -> forallb item_ok l = true ->
  exists f, build_chunks cur l = Ok f.
Proof.
  induction l as [|[x|x] l IH]; intros cur G H; cbn [build_chunks].
  - now eexists.
  - cbn [forallb item_ok] in H. destruct (parse_args_kw_ok cur G) as [a ->]. cbn [bind].
    destruct (IH cur G H) as [f ->]. cbn [bind]. now eexists.
  - cbn [forallb item_ok] in H. apply andb_true_iff in H as [Hx H]. apply IH; [|exact H].
    unfold dict_update, good_dict in *. rewrite forallb_app. now rewrite Hx, G.
Qed.

(* C17, first clause: FmtStr.from_str accepts every string *)
Theorem from_str_total : forall s : str, exists f, from_str s = Ok f.
Proof.
  intros s. unfold from_str. destruct (needs_parse s); [|now eexists].
  pose proof (parse_ok s) as P. destruct (parse s) as [l|e]; cbn [ok_or_ve] in P.
  - apply build_chunks_ok; [reflexivity|exact P].
  - subst e. now eexists.
Qed.

Theorem fmtstr0_total : forall s : str, exists f, fmtstr0 s = Ok f.
Proof. intros s. unfold fmtstr0. destruct (from_str_total s) as [f ->]. cbn. now eexists. Qed.

Lemma atts_extend_no_atts a : atts_extend a no_atts = a.
Proof. now destruct a. Qed.
Lemma copy_with_no_atts f : copy_with_new_atts f no_atts = f.
Proof.
  unfold copy_with_new_atts. induction f as [|c f IH]; cbn [map]; [reflexivity|].
  rewrite IH, atts_extend_no_atts. now destruct c.
Qed.
(* fmtstr(s) with no formatting arguments is from_str(s) *)
Theorem fmtstr0_from_str s : fmtstr0 s = from_str s.
Proof. unfold fmtstr0. destruct (from_str s) as [f|e]; cbn; [now rewrite copy_with_no_atts|reflexivity]. Qed.

Theorem fmtstr0_total_same : forall s : str, exists f, fmtstr0 s = Ok f /\ from_str s = Ok f.
Proof. intros s. rewrite fmtstr0_from_str. destruct (from_str_total s) as [f E]. exists f. now rewrite E. Qed.

(* C17, second clause: without ESC [ the string comes back verbatim as one unformatted run *)
Theorem from_str_plain s : needs_parse s = false -> from_str s = Ok [mkChunk s no_atts].
Proof. intros H. unfold from_str. now rewrite H. Qed.

(* ======================================================================== *)
(* 4. C05: parsing strings of the grammar (text | ESC [ p1;...;pn m)*        *)
(* ======================================================================== *)

Lemma supported_code_cases p : supported_code p = true -> In p supported_codes.
Proof.
  unfold supported_code. intros H. apply existsb_exists in H as (x & Hin & E).
  apply N.eqb_eq in E. now subst.
Qed.

(* turn [H : supported_code p = true] into the 25 concrete cases *)
Ltac sup_cases H :=
  apply supported_code_cases in H; unfold supported_codes in H; cbn [In] in H;
  repeat (destruct H as [H|H]; [subst|]); [..|contradiction].

Lemma dec_digits p : supported_code p = true -> forallb isdigit (dec p) = true /\ dec p <> [].
Proof. intros H. sup_cases H; (split; [reflexivity|discriminate]). Qed.

Lemma py_int_dec p : supported_code p = true -> py_int (dec p) = Ok p.
Proof. intros H. sup_cases H; reflexivity. Qed.

Lemma clean_char_not_intro c : clean_char c = true -> (c =? 27) = false /\ (c =? 155) = false.
Proof. unfold clean_char. lia. Qed.

Lemma match_csi_at_clean c r : clean_char c = true -> match_csi_at (c :: r) = None.
Proof. intros H. destruct (clean_char_not_intro _ H) as [A B]. cbn [match_csi_at]. now rewrite A, B. Qed.
Lemma match_two_at_clean c r : clean_char c = true -> match_two_at (c :: r) = None.
Proof.
  intros H. destruct (clean_char_not_intro _ H) as [A B]. cbn [match_two_at].
  destruct r; [reflexivity|]. now rewrite A.
Qed.

Lemma find_first_clean_prefix h t s m :
  (forall c r, clean_char c = true -> h (c :: r) = None) -> clean_str t = true ->
  h s = Some m -> m_front m = [] ->
  find_first h (t ++ s) = Some (mkMatch t (m_csi m) (m_numbers m) (m_intermed m) (m_command m) (m_rest m)).
Proof.
  intros Hh Ht Hs Hf. induction t as [|c t IH]; cbn [app].
  - destruct s as [|x s]; cbn [find_first]; rewrite Hs; destruct m; cbn in *; now subst.
  - cbn [clean_str forallb] in Ht. apply andb_true_iff in Ht as [Hc Ht]. cbn [find_first].
    rewrite (Hh _ _ Hc), (IH Ht). reflexivity.
Qed.

Lemma find_first_clean_none h t :
  (forall c r, clean_char c = true -> h (c :: r) = None) -> h [] = None -> clean_str t = true ->
  find_first h t = None.
Proof.
  intros Hh Hn Ht. induction t as [|c t IH]; cbn [find_first]; [now rewrite Hn|].
  cbn [clean_str forallb] in Ht. apply andb_true_iff in Ht as [Hc Ht]. now rewrite (Hh _ _ Hc), (IH Ht).
Qed.

(* a string without escape introducers is peeled off whole *)
Lemma peel_clean t : clean_str t = true -> peel t = Ok (t, None, []).
Proof.
  intros Ht. unfold peel.
  rewrite (find_first_clean_none match_csi_at t match_csi_at_clean eq_refl Ht).
  rewrite (find_first_clean_none match_two_at t match_two_at_clean eq_refl Ht). reflexivity.
Qed.

Lemma numbers_lang_digits d rest seen : forallb isdigit d = true -> d <> [] ->
  numbers_lang seen (d ++ rest) = numbers_lang true rest.
Proof.
  revert seen. induction d as [|c d IH]; intros seen Hd Hn; [congruence|].
  cbn [forallb] in Hd. apply andb_true_iff in Hd as [Hc Hd]. cbn [app numbers_lang]. rewrite Hc.
  destruct d as [|c' d]; [reflexivity|]. apply IH; [exact Hd|discriminate].
Qed.

Lemma numbers_lang_join ps : forallb supported_code ps = true -> numbers_lang false (join_params ps) = true.
Proof.
  intros H. destruct ps as [|p ps]; [reflexivity|].
  assert (G : forall seen, numbers_lang seen (join_params (p :: ps)) = true).
  { revert p H. induction ps as [|q ps IH]; intros p H seen; cbn [forallb] in H; apply andb_true_iff in H as [Hp H].
    - cbn [join_params]. destruct (dec_digits p Hp) as [A B].
      rewrite <- (app_nil_r (dec p)). now rewrite (numbers_lang_digits _ _ _ A B).
    - change (join_params (p :: q :: ps)) with (dec p ++ 59 :: join_params (q :: ps)).
      destruct (dec_digits p Hp) as [A B]. rewrite (numbers_lang_digits _ _ _ A B).
      cbn [numbers_lang]. change (isdigit 59) with false. cbn. apply (IH q H). }
  apply G.
Qed.

Lemma split_on_no_sep d rest : forallb isdigit d = true ->
  split_on 59 (d ++ 59 :: rest) = d :: split_on 59 rest.
Proof.
  intros Hd. induction d as [|c d IH]; cbn [app split_on].
  - reflexivity.
  - cbn [forallb] in Hd. apply andb_true_iff in Hd as [Hc Hd]. rewrite (IH Hd).
    assert (c =? 59 = false) as -> by (unfold isdigit in Hc; lia). reflexivity.
Qed.
Lemma split_on_digits d : forallb isdigit d = true -> split_on 59 d = [d].
Proof.
  intros Hd. induction d as [|c d IH]; cbn [split_on]; [reflexivity|].
  cbn [forallb] in Hd. apply andb_true_iff in Hd as [Hc Hd]. rewrite (IH Hd).
  assert (c =? 59 = false) as -> by (unfold isdigit in Hc; lia). reflexivity.
Qed.

Lemma split_join p ps : forallb supported_code (p :: ps) = true ->
  split_on 59 (join_params (p :: ps)) = map dec (p :: ps).
Proof.
  revert p. induction ps as [|q ps IH]; intros p H; cbn [forallb] in H; apply andb_true_iff in H as [Hp H].
  - cbn [join_params map]. now rewrite (split_on_digits _ (proj1 (dec_digits p Hp))).
  - change (join_params (p :: q :: ps)) with (dec p ++ 59 :: join_params (q :: ps)).
    rewrite (split_on_no_sep _ _ (proj1 (dec_digits p Hp))), (IH q H). reflexivity.
Qed.

Lemma map_res_py_int ps : forallb supported_code ps = true -> map_res py_int (map dec ps) = Ok ps.
Proof.
  induction ps as [|p ps IH]; intros H; [reflexivity|]. cbn [forallb] in H. apply andb_true_iff in H as [Hp H].
  cbn [map map_res]. now rewrite (py_int_dec p Hp), (IH H).
Qed.

Definition sgr_numbers (ps : list N) : numbers := if is_nil ps then NumStr [] else NumInts ps.

Lemma convert_numbers_join ps : forallb supported_code ps = true ->
  convert_numbers (join_params ps) = Ok (sgr_numbers ps).
Proof.
  intros H. destruct ps as [|p ps]; [reflexivity|]. unfold convert_numbers.
  rewrite (split_join p ps H).
  match goal with |- context [forallb ?f (map dec ?l)] => assert (forallb f (map dec l) = true) as -> end.
  { clear -H. induction (p :: ps) as [|q l IH]; [reflexivity|]. cbn [forallb] in H. apply andb_true_iff in H as [Hq H].
    cbn [map forallb]. rewrite (IH H). destruct (dec_digits q Hq) as [_ B]. destruct (dec q); [congruence|reflexivity]. }
  now rewrite (map_res_py_int _ H).
Qed.

(* one step of the loop on  clean text ++ SGR sequence ++ anything *)
Lemma peel_sgr t ps r : clean_str t = true -> forallb supported_code ps = true ->
  peel (t ++ sgr_seq ps ++ r) = Ok (t, Some (mkToken [27; 91] (Some (sgr_numbers ps)) [] 109), r).
Proof.
  intros Ht Hps. unfold peel.
  assert (B : match_csi_body (join_params ps ++ 109 :: r) = Some (join_params ps, [], 109, r)).
  { apply match_csi_body_spec. unfold csi_body_match. repeat split. now apply numbers_lang_join. }
  assert (M1 : match_csi_at (sgr_seq ps ++ r) = Some (mkMatch [] [27; 91] (Some (join_params ps)) [] 109 r)).
  { unfold sgr_seq. cbn [app match_csi_at]. change (27 =? 155) with false. change (27 =? 27) with true.
    change (91 =? 91) with true. cbn match. rewrite <- app_assoc. cbn [app]. 
    match goal with |- match ?x with _ => _ end = _ =>
      replace x with (Some (join_params ps, @nil char, 109, r)) by (symmetry; exact B) end. reflexivity. }
  assert (M2 : match_two_at (sgr_seq ps ++ r) = Some (mkMatch [] [27] None [] 91 (join_params ps ++ [109] ++ r))).
  { unfold sgr_seq. cbn [app match_two_at]. rewrite <- app_assoc. reflexivity. }
  rewrite (find_first_clean_prefix _ t _ _ match_csi_at_clean Ht M1 eq_refl).
  rewrite (find_first_clean_prefix _ t _ _ match_two_at_clean Ht M2 eq_refl).
  cbn [choose m_front m_csi m_numbers m_intermed m_command m_rest]. rewrite Nat.leb_refl.
  cbn [m_front m_csi m_numbers m_intermed m_command m_rest]. rewrite (convert_numbers_join ps Hps). reflexivity.
Qed.

(* the dictionaries token_type returns for ESC [ ps m *)
Definition sgr_values (ps : list N) : list N := if is_nil ps then [0] else ps.
Definition sgr_dicts (ps : list N) : list dict := flat_map tokens_of_value (map PInt (sgr_values ps)).

Lemma values_of_sgr ps : values_of (sgr_numbers ps) = map PInt (sgr_values ps).
Proof. destruct ps; reflexivity. Qed.

Lemma tokens_of_supported p : supported_code p = true -> tokens_of_value (PInt p) <> [].
Proof. intros H. sup_cases H; vm_compute; discriminate. Qed.

Lemma sgr_dicts_nonempty ps : forallb supported_code ps = true -> sgr_dicts ps <> [].
Proof.
  intros H. unfold sgr_dicts, sgr_values. destruct ps as [|p ps]; cbn [is_nil].
  - vm_compute. discriminate.
  - cbn [forallb] in H. apply andb_true_iff in H as [Hp _]. cbn [map flat_map].
    pose proof (tokens_of_supported p Hp). destruct (tokens_of_value (PInt p)); [congruence|discriminate].
Qed.

Lemma token_type_sgr ps : forallb supported_code ps = true ->
  token_type (mkToken [27; 91] (Some (sgr_numbers ps)) [] 109) = Ok (Some (sgr_dicts ps)).
Proof.
  intros H. unfold token_type. cbn [t_command t_numbers]. change (109 =? 109) with true. cbn match.
  rewrite values_of_sgr. fold (sgr_dicts ps). pose proof (sgr_dicts_nonempty ps H).
  destruct (sgr_dicts ps); [congruence|reflexivity].
Qed.

Definition text_item (t : str) : list item := if is_nil t then [] else [IStr t].

(* what parse returns on pending clean text t0 followed by the tokens *)
Fixpoint items (t0 : str) (toks : list gtok) : list item :=
  match toks with
  | [] => text_item t0
  | GText t :: r => items (t0 ++ t) r
  | GSgr ps :: r => text_item t0 ++ map IDict (sgr_dicts ps) ++ items [] r
  end.

Lemma items_flatten_nil toks : flatten toks = [] -> items [] toks = [].
Proof.
  induction toks as [|[t|ps] r IH]; cbn [flatten flat_map flatten_tok items]; intros H; [reflexivity| |].
  - apply app_eq_nil in H as [-> H]. apply IH, H.
  - discriminate.
Qed.

Lemma clean_str_app a b : clean_str (a ++ b) = clean_str a && clean_str b.
Proof. unfold clean_str. apply forallb_app. Qed.

Lemma parse_loop_grammar : forall toks t0 fuel, clean_str t0 = true -> supported toks = true ->
  (length (t0 ++ flatten toks) < fuel)%nat ->
  parse_loop fuel (t0 ++ flatten toks) = Ok (items t0 toks).
Proof.
  induction toks as [|[t|ps] r IH]; intros t0 fuel Ht0 Hs Hf; (destruct fuel as [|fuel]; [lia|]).
  - cbn [flatten flat_map items] in *. rewrite app_nil_r in *. cbn [parse_loop]. rewrite (peel_clean _ Ht0).
    cbn. unfold text_item. now rewrite app_nil_r.
  - cbn [supported forallb supported_tok] in Hs. apply andb_true_iff in Hs as [Ht Hs].
    cbn [flatten flat_map flatten_tok items] in *. fold (flatten r) in *. rewrite app_assoc in *.
    apply IH; auto. rewrite clean_str_app. now rewrite Ht0, Ht.
  - cbn [supported forallb supported_tok] in Hs. apply andb_true_iff in Hs as [Hps Hs].
    cbn [flatten flat_map flatten_tok items] in *. fold (flatten r) in *.
    cbn [parse_loop]. rewrite (peel_sgr t0 ps (flatten r) Ht0 Hps). cbn [bind].
    rewrite (token_type_sgr ps Hps). cbn [bind].
    assert (L : match flatten r with [] => Ok [] | _ :: _ => parse_loop fuel (flatten r) end = Ok (items [] r)).
    { pose proof (IH [] fuel eq_refl Hs) as IH0. cbn [app] in IH0.
      pose proof (items_flatten_nil r) as IN.
      destruct (flatten r) as [|c fr].
      - now rewrite (IN eq_refl).
      - apply IH0. rewrite !app_length in Hf. unfold sgr_seq in Hf. cbn [length] in Hf. cbn [length]. lia. }
    rewrite L. reflexivity.
Qed.

Lemma parse_grammar toks : supported toks = true -> parse (flatten toks) = Ok (items [] toks).
Proof. intros H. apply (parse_loop_grammar toks [] _ eq_refl H). cbn [app]. lia. Qed.

(* ---- the running format dictionary and the reference graphic state ---- *)
Definition sty_of (v : option fval) : option bool :=
  match conv_style v with Ok b => Some (on b) | Raise _ => None end.
Definition col_of (tbl : list (str * N)) (v : option fval) : option (option color) :=
  match conv_color tbl v with Ok c => Some c | Raise _ => None end.

(* the graphic state a running format dictionary stands for *)
Definition abs_sgr (d : dict) : option sgr :=
  match col_of fg_colors (kw_get d key_fg), col_of bg_colors (kw_get d key_bg),
        sty_of (kw_get d (style_name Bold)), sty_of (kw_get d (style_name Dark)),
        sty_of (kw_get d (style_name Italic)), sty_of (kw_get d (style_name Underline)),
        sty_of (kw_get d (style_name Blink)), sty_of (kw_get d (style_name Invert)) with
  | Some fg, Some bg, Some b, Some dk, Some i, Some u, Some bl, Some inv => Some (mkSgr fg bg b dk i u bl inv)
  | _, _, _, _, _, _, _, _ => None
  end.

Lemma kw_get_cons k' v d k :
  kw_get ((k', v) :: d) k = if str_eqb k' k then (match v with VNone => None | _ => Some v end) else kw_get d k.
Proof. unfold kw_get. cbn [lookupS]. destruct (str_eqb k' k); [now destruct v|reflexivity]. Qed.

Ltac eval_str_eqb :=
  repeat match goal with
         | |- context [str_eqb ?a ?b] => let v := eval vm_compute in (str_eqb a b) in change (str_eqb a b) with v
         end; cbv iota.

Lemma abs_step cur st p : abs_sgr cur = Some st -> supported_code p = true ->
  abs_sgr (fold_left dict_update (tokens_of_value (PInt p)) cur) = apply_param p st.
Proof.
  intros H Hp. sup_cases Hp.
  all: match goal with |- context [tokens_of_value ?v] =>
         let t := eval vm_compute in (tokens_of_value v) in change (tokens_of_value v) with t end.
  all: cbn [fold_left dict_update app].
  all: unfold abs_sgr in *.
  all: rewrite !kw_get_cons; eval_str_eqb.
  all: destruct (col_of fg_colors (kw_get cur key_fg)) as [fg|]; [|discriminate].
  all: destruct (col_of bg_colors (kw_get cur key_bg)) as [bg|]; [|discriminate].
  all: destruct (sty_of (kw_get cur (style_name Bold))) as [b|]; [|discriminate].
  all: destruct (sty_of (kw_get cur (style_name Dark))) as [dk|]; [|discriminate].
  all: destruct (sty_of (kw_get cur (style_name Italic))) as [i|]; [|discriminate].
  all: destruct (sty_of (kw_get cur (style_name Underline))) as [u|]; [|discriminate].
  all: destruct (sty_of (kw_get cur (style_name Blink))) as [bl|]; [|discriminate].
  all: destruct (sty_of (kw_get cur (style_name Invert))) as [inv|]; [|discriminate].
  all: inversion H; subst st; reflexivity.
Qed.

Lemma abs_steps : forall l cur st, abs_sgr cur = Some st -> forallb supported_code l = true ->
  match apply_params l st with
  | Some st' => abs_sgr (fold_left dict_update (flat_map tokens_of_value (map PInt l)) cur) = Some st'
  | None => False
  end.
Proof.
  induction l as [|p l IH]; intros cur st H Hl; cbn [apply_params map flat_map fold_left]; [exact H|].
  cbn [forallb] in Hl. apply andb_true_iff in Hl as [Hp Hl].
  rewrite fold_left_app. pose proof (abs_step cur st p H Hp) as E.
  destruct (apply_param p st) as [st1|] eqn:E1.
  - apply (IH _ _ E Hl).
  - exfalso. clear -E1 Hp. sup_cases Hp; discriminate.
Qed.

Lemma abs_sgr_nil : abs_sgr [] = Some sgr_default.
Proof. reflexivity. Qed.

(* parse_args on a good running format: the checks pass *)
Lemma parse_args_kw_good d : good_dict d = true ->
  parse_args_kw d =
    bind (conv_color fg_colors (kw_get d key_fg)) (fun fg =>
    bind (conv_color bg_colors (kw_get d key_bg)) (fun bg =>
    bind (conv_style (kw_get d (style_name Bold))) (fun b =>
    bind (conv_style (kw_get d (style_name Dark))) (fun dk =>
    bind (conv_style (kw_get d (style_name Italic))) (fun i =>
    bind (conv_style (kw_get d (style_name Underline))) (fun u =>
    bind (conv_style (kw_get d (style_name Blink))) (fun bl =>
    bind (conv_style (kw_get d (style_name Invert))) (fun inv =>
    Ok (mkAtts fg bg b dk i u bl inv))))))))).
Proof.
  intros G. unfold parse_args_kw.
  destruct (kw_get d key_style) as [v|] eqn:Es.
  { exfalso. destruct (kw_get_entry _ _ _ G Es) as [H Hn]. destruct v; [| |congruence]; vm_compute in H; discriminate. }
  assert (Hk : forallb (fun k => match kw_get d k with
                                 | Some _ => str_eqb k key_fg || str_eqb k key_bg || in_keys k styles
                                 | None => true end) (map fst d) = true).
  { apply forallb_forall. intros k _. destruct (kw_get d k) as [v|] eqn:E; [|reflexivity].
    destruct (kw_get_entry _ _ _ G E) as [H Hn]. destruct v as [nm| |]; [| |congruence]; cbn [entry_ok] in H.
    - apply orb_true_iff in H as [H|H]; apply andb_true_iff in H as [-> _]; [reflexivity|apply orb_true_iff; left; apply orb_true_r].
    - apply andb_true_iff in H as [H _]. apply andb_true_iff in H as [H _]. apply andb_true_iff in H as [-> _]. apply orb_true_r. }
  rewrite Hk. reflexivity.
Qed.

Lemma parse_args_kw_abs d st : good_dict d = true -> abs_sgr d = Some st ->
  exists a, parse_args_kw d = Ok a /\ eff a = st.
Proof.
  intros G H. rewrite (parse_args_kw_good d G). unfold abs_sgr, col_of, sty_of in H.
  destruct (conv_color fg_colors (kw_get d key_fg)) as [fg|]; [|discriminate].
  destruct (conv_color bg_colors (kw_get d key_bg)) as [bg|]; [|discriminate].
  destruct (conv_style (kw_get d (style_name Bold))) as [b|]; [|discriminate].
  destruct (conv_style (kw_get d (style_name Dark))) as [dk|]; [|discriminate].
  destruct (conv_style (kw_get d (style_name Italic))) as [i|]; [|discriminate].
  destruct (conv_style (kw_get d (style_name Underline))) as [u|]; [|discriminate].
  destruct (conv_style (kw_get d (style_name Blink))) as [bl|]; [|discriminate].
  destruct (conv_style (kw_get d (style_name Invert))) as [inv|]; [|discriminate].
  cbn [bind]. eexists. split; [reflexivity|]. inversion H. reflexivity.
Qed.

(* ---- the reference interpreter on an SGR sequence of the grammar ---- *)
Lemma run_param_semi p done st rest : supported_code p = true ->
  run st (Csi done None) (dec p ++ 59 :: rest) = run st (Csi (p :: done) None) rest.
Proof.
  intros H. sup_cases H; cbn [app dec]; cbn; destruct (run st _ rest) as [[[o s] q]|]; reflexivity.
Qed.

Lemma run_param_m p done st : supported_code p = true ->
  run st (Csi done None) (dec p ++ [109]) =
  match apply_params (rev (p :: done)) st with Some st' => Some ([], st', Ground) | None => None end.
Proof.
  intros H. sup_cases H; cbn [app dec]; cbn; destruct (apply_params _ st); reflexivity.
Qed.

Lemma run_join : forall ps p done st, forallb supported_code (p :: ps) = true ->
  run st (Csi done None) (join_params (p :: ps) ++ [109]) =
  match apply_params (rev done ++ p :: ps) st with Some st' => Some ([], st', Ground) | None => None end.
Proof.
  induction ps as [|q ps IH]; intros p done st H; cbn [forallb] in H; apply andb_true_iff in H as [Hp H].
  - cbn [join_params]. rewrite (run_param_m p done st Hp). reflexivity.
  - change (join_params (p :: q :: ps)) with (dec p ++ 59 :: join_params (q :: ps)).
    rewrite <- app_assoc. cbn [app]. rewrite (run_param_semi p done st _ Hp), (IH q (p :: done) st H).
    cbn [rev]. now rewrite <- app_assoc.
Qed.

Lemma run_sgr_seq ps st : forallb supported_code ps = true ->
  run st Ground (sgr_seq ps) =
  match apply_params (sgr_values ps) st with Some st' => Some ([], st', Ground) | None => None end.
Proof.
  intros H. unfold sgr_seq. destruct ps as [|p ps].
  - cbn. destruct (apply_param 0 st); reflexivity.
  - cbn [run step]. change (27 =? 27) with true. cbn match.
    change (step st Esc 91) with (Some (@nil cell, st, Csi [] None)). cbn match.
    match goal with |- context [run st (Csi [] None) ?x] =>
      replace (run st (Csi [] None) x) with
        (match apply_params (rev [] ++ p :: ps) st with Some st' => Some (@nil cell, st', Ground) | None => None end)
        by (symmetry; exact (run_join ps p [] st H)) end.
    cbn [rev app sgr_values is_nil].
    destruct (apply_params (p :: ps) st); reflexivity.
Qed.

Lemma build_chunks_dicts : forall ds cur rest,
  build_chunks cur (map IDict ds ++ rest) = build_chunks (fold_left dict_update ds cur) rest.
Proof. induction ds as [|d ds IH]; intros cur rest; cbn [map app build_chunks fold_left]; [reflexivity|apply IH]. Qed.

Lemma good_fold : forall ds cur, forallb good_dict ds = true -> good_dict cur = true ->
  good_dict (fold_left dict_update ds cur) = true.
Proof.
  induction ds as [|d ds IH]; intros cur H G; cbn [fold_left]; [exact G|].
  cbn [forallb] in H. apply andb_true_iff in H as [Hd H]. apply IH; [exact H|].
  unfold dict_update, good_dict in *. now rewrite forallb_app, Hd, G.
Qed.

Lemma sgr_values_supported ps : forallb supported_code ps = true -> forallb supported_code (sgr_values ps) = true.
Proof. destruct ps; [reflexivity|auto]. Qed.

(* the running format and the reference terminal move in step *)
Lemma grammar_sim : forall toks t0 cur st, clean_str t0 = true -> supported toks = true ->
  good_dict cur = true -> abs_sgr cur = Some st ->
  exists f st', build_chunks cur (items t0 toks) = Ok f /\
                run st Ground (t0 ++ flatten toks) = Some (cells f, st', Ground).
Proof.
  induction toks as [|[t|ps] r IH]; intros t0 cur st Ht0 Hs G A.
  - cbn [flatten flat_map items]. rewrite app_nil_r. unfold text_item.
    destruct (parse_args_kw_abs cur st G A) as (a & Ea & Eff).
    destruct t0 as [|c t0]; cbn [is_nil build_chunks].
    + exists [], st. split; reflexivity.
    + rewrite Ea. cbn [bind]. eexists _, st. split; [reflexivity|].
      rewrite (run_text _ st Ht0). subst st. unfold cells, chunk_cells. cbn. now rewrite app_nil_r.
  - cbn [supported forallb supported_tok] in Hs. apply andb_true_iff in Hs as [Ht Hs].
    cbn [flatten flat_map flatten_tok items]. fold (flatten r). rewrite app_assoc.
    apply IH; auto. rewrite clean_str_app. now rewrite Ht0, Ht.
  - cbn [supported forallb supported_tok] in Hs. apply andb_true_iff in Hs as [Hps Hs].
    cbn [flatten flat_map flatten_tok items]. fold (flatten r).
    pose proof (abs_steps (sgr_values ps) cur st A (sgr_values_supported ps Hps)) as A'.
    fold (sgr_dicts ps) in A'.
    destruct (apply_params (sgr_values ps) st) as [st1|] eqn:E1; [|contradiction].
    assert (G' : good_dict (fold_left dict_update (sgr_dicts ps) cur) = true).
    { apply good_fold; [|exact G]. apply forallb_flat_map, tokens_of_value_ok. }
    destruct (IH [] _ st1 eq_refl Hs G' A') as (f' & st2 & Ef' & Er'). cbn [app] in Er'.
    destruct (parse_args_kw_abs cur st G A) as (a & Ea & Eff).
    rewrite run_app, (run_text _ st Ht0). cbv iota beta.
    rewrite run_app, (run_sgr_seq ps st Hps), E1. cbv iota beta. rewrite Er'.
    unfold text_item. destruct t0 as [|c t0]; cbn [is_nil app build_chunks].
    + rewrite build_chunks_dicts, Ef'. exists f', st2. split; reflexivity.
    + rewrite Ea. cbn [bind]. rewrite build_chunks_dicts, Ef'. cbn [bind]. eexists _, st2. split; [reflexivity|].
      subst st. reflexivity.
Qed.

Lemma contains_esc_lb_app_r t x : contains_esc_lb x = true -> contains_esc_lb (t ++ x) = true.
Proof.
  intros H. induction t as [|c t IH]; [exact H|]. cbn [app contains_esc_lb].
  destruct (t ++ x) as [|d y]; [discriminate|]. rewrite IH. apply orb_true_r.
Qed.

Lemma grammar_no_esc_clean toks : supported toks = true -> contains_esc_lb (flatten toks) = false ->
  clean_str (flatten toks) = true.
Proof.
  induction toks as [|[t|ps] r IH]; intros Hs H; [reflexivity| |].
  - cbn [supported forallb supported_tok] in Hs. apply andb_true_iff in Hs as [Ht Hs].
    cbn [flatten flat_map flatten_tok] in *. fold (flatten r) in *. rewrite clean_str_app, Ht.
    apply IH; [exact Hs|]. destruct (contains_esc_lb (flatten r)) eqn:E; [|reflexivity].
    now rewrite (contains_esc_lb_app_r t _ E) in H.
  - cbn [flatten flat_map flatten_tok] in H. unfold sgr_seq in H. cbn in H. discriminate.
Qed.

(* C05, general clause: on every string of the grammar from_str yields, character by
   character, what the reference ANSI interpreter displays *)
Theorem from_str_grammar toks : supported toks = true ->
  exists f st, from_str (flatten toks) = Ok f /\ display (flatten toks) = Some (cells f, st, Ground).
Proof.
  intros Hs. unfold from_str, display. destruct (needs_parse (flatten toks)) eqn:E.
  - rewrite (parse_grammar toks Hs).
    destruct (grammar_sim toks [] [] sgr_default eq_refl Hs eq_refl abs_sgr_nil) as (f & st' & Ef & Er).
    exists f, st'. split; [exact Ef|exact Er].
  - exists [mkChunk (flatten toks) no_atts], sgr_default. split; [reflexivity|].
    unfold needs_parse in E. apply orb_false_iff in E as [E _].
    rewrite (run_text _ _ (grammar_no_esc_clean toks Hs E)). cbn. now rewrite app_nil_r.
Qed.

(* ---- the round trip: str(f) is a string of the grammar ---- *)
Definition in_grammar (s : str) : Prop := exists toks, supported toks = true /\ flatten toks = s.

Lemma in_grammar_app a b : in_grammar a -> in_grammar b -> in_grammar (a ++ b).
Proof.
  intros (ta & Sa & Fa) (tb & Sb & Fb). exists (ta ++ tb). split.
  - unfold supported in *. now rewrite forallb_app, Sa, Sb.
  - unfold flatten in *. now rewrite flat_map_app, Fa, Fb.
Qed.
Lemma in_grammar_text t : clean_str t = true -> in_grammar t.
Proof. intros H. exists [GText t]. split; cbn; [now rewrite H|apply app_nil_r]. Qed.

(* every string the code wraps around a run is one supported SGR sequence:
   obligations on the generated tables *)
Lemma in_grammar_fg_open c : in_grammar (fg_open c).
Proof. destruct c; [exists [GSgr [30]]|exists [GSgr [31]]|exists [GSgr [32]]|exists [GSgr [33]]|exists [GSgr [34]]|exists [GSgr [35]]|exists [GSgr [36]]|exists [GSgr [37]]]; split; reflexivity. Qed.
Lemma in_grammar_bg_open c : in_grammar (bg_open c).
Proof. destruct c; [exists [GSgr [40]]|exists [GSgr [41]]|exists [GSgr [42]]|exists [GSgr [43]]|exists [GSgr [44]]|exists [GSgr [45]]|exists [GSgr [46]]|exists [GSgr [47]]]; split; reflexivity. Qed.
Lemma in_grammar_fg_close : in_grammar fg_close.
Proof. exists [GSgr [39]]; split; reflexivity. Qed.
Lemma in_grammar_bg_close : in_grammar bg_close.
Proof. exists [GSgr [49]]; split; reflexivity. Qed.
Lemma in_grammar_st_open k : in_grammar (st_open k).
Proof. destruct k; [exists [GSgr [1]]|exists [GSgr [2]]|exists [GSgr [3]]|exists [GSgr [4]]|exists [GSgr [5]]|exists [GSgr [7]]]; split; reflexivity. Qed.
Lemma in_grammar_st_close k : in_grammar (st_close k).
Proof. destruct k; exists [GSgr [0]]; split; reflexivity. Qed.

Lemma in_grammar_wrap_fg v s : in_grammar s -> in_grammar (wrap_fg v s).
Proof.
  intros H. destruct v as [c|]; cbn [wrap_fg]; [|exact H].
  apply in_grammar_app; [apply in_grammar_fg_open|]. apply in_grammar_app; [exact H|apply in_grammar_fg_close].
Qed.
Lemma in_grammar_wrap_bg v s : in_grammar s -> in_grammar (wrap_bg v s).
Proof.
  intros H. destruct v as [c|]; cbn [wrap_bg]; [|exact H].
  apply in_grammar_app; [apply in_grammar_bg_open|]. apply in_grammar_app; [exact H|apply in_grammar_bg_close].
Qed.
Lemma in_grammar_wrap_style k v s : in_grammar s -> in_grammar (wrap_style k v s).
Proof.
  intros H. destruct v as [[|]|]; cbn [wrap_style]; try exact H.
  apply in_grammar_app; [apply in_grammar_st_open|]. apply in_grammar_app; [exact H|apply in_grammar_st_close].
Qed.

Lemma in_grammar_render_chunk c : clean_str (c_s c) = true -> in_grammar (render_chunk c).
Proof.
  intros H. unfold render_chunk.
  repeat first [apply in_grammar_wrap_style | apply in_grammar_wrap_fg | apply in_grammar_wrap_bg].
  now apply in_grammar_text.
Qed.

Lemma in_grammar_render f : clean f = true -> in_grammar (render f).
Proof.
  induction f as [|c f IH]; intros H.
  - exists []. split; reflexivity.
  - cbn [clean forallb] in H. apply andb_true_iff in H as [Hc Hf]. cbn [render flat_map].
    apply in_grammar_app; [now apply in_grammar_render_chunk|apply IH, Hf].
Qed.

(* C05, first clause: FmtStr.from_str(str(f)) has the characters and the formatting of f *)
Theorem from_str_render f : clean f = true ->
  exists f', from_str (render f) = Ok f' /\ cells f' = cells f.
Proof.
  intros H. destruct (in_grammar_render f H) as (toks & Hs & Hf).
  destruct (from_str_grammar toks Hs) as (f' & st & E & D). rewrite Hf in *.
  exists f'. split; [exact E|]. rewrite (render_displays f H) in D. now inversion D.
Qed.

(* ======================================================================== *)
(* 5. C17: only characters inside escape sequences are removed              *)
(* ======================================================================== *)

(* the two ECMA-48 scanners agree: the model's remove_ansi matcher (greedy classes)
   and the reference state machine *)
Lemma csi_end_true r :
  csi_end true r =
  (let (i, r2) := span is_inter r in
   match r2 with c :: _ => if is_final c then Some (length i + 1)%nat else None | [] => None end).
Proof.
  induction r as [|c r IH]; [reflexivity|]. cbn [csi_end span].
  change (is_inter c) with (in_rng 32 47 c).
  destruct (in_rng 48 63 c) eqn:Hp.
  - assert (in_rng 32 47 c = false) as -> by (unfold in_rng in *; lia).
    assert (is_final c = false) as -> by (unfold in_rng, is_final in *; lia). reflexivity.
  - destruct (in_rng 32 47 c) eqn:Hi.
    + rewrite IH. destruct (span is_inter r) as [a b]. destruct b as [|x b]; [reflexivity|].
      destruct (is_final x); reflexivity.
    + change (is_final c) with (in_rng 64 126 c). destruct (in_rng 64 126 c); reflexivity.
Qed.

Lemma csi_end_false r : csi_end false r = ansi_body_len r.
Proof.
  unfold ansi_body_len. induction r as [|c r IH]; [reflexivity|]. cbn [csi_end span].
  change (is_param c) with (in_rng 48 63 c). destruct (in_rng 48 63 c) eqn:Hp.
  - rewrite IH. destruct (span is_param r) as [p r1]. destruct (span is_inter r1) as [i r2].
    destruct r2 as [|x r2]; [reflexivity|]. destruct (is_final x); reflexivity.
  - destruct (in_rng 32 47 c) eqn:Hi.
    + rewrite csi_end_true. cbn [span]. change (is_inter c) with (in_rng 32 47 c). rewrite Hi.
      destruct (span is_inter r) as [a b]. destruct b as [|x b]; [reflexivity|]. destruct (is_final x); reflexivity.
    + cbn [span]. change (is_inter c) with (in_rng 32 47 c). rewrite Hi.
      change (is_final c) with (in_rng 64 126 c). destruct (in_rng 64 126 c); reflexivity.
Qed.

(* the interior of an escape sequence holds no escape introducer *)
Lemma csi_end_interior : forall r inter n, csi_end inter r = Some n ->
  (1 <= n <= length r)%nat /\ forallb clean_char (firstn n r) = true.
Proof.
  induction r as [|c r IH]; intros inter n H; [discriminate|]. cbn [csi_end] in H.
  destruct (in_rng 48 63 c) eqn:Hp.
  - destruct inter; [discriminate|]. destruct (csi_end false r) as [k|] eqn:E; [|discriminate].
    inversion H; subst. destruct (IH _ _ E) as [L F]. cbn [length firstn forallb]. rewrite F.
    split; [lia|]. unfold clean_char, in_rng in *. lia.
  - destruct (in_rng 32 47 c) eqn:Hi.
    + destruct (csi_end true r) as [k|] eqn:E; [|discriminate].
      inversion H; subst. destruct (IH _ _ E) as [L F]. cbn [length firstn forallb]. rewrite F.
      split; [lia|]. unfold clean_char, in_rng in *. lia.
    + destruct (in_rng 64 126 c) eqn:Hf; [|discriminate]. inversion H; subst.
      cbn [length firstn forallb]. split; [lia|]. unfold clean_char, in_rng in *. lia.
Qed.

Lemma span_len_interior c r j : span_len (c :: r) = S j ->
  (j <= length r)%nat /\ forallb clean_char (firstn j r) = true.
Proof.
  unfold span_len. destruct (c =? 155).
  - destruct (csi_end false r) as [n|] eqn:E; [|discriminate]. intros H; inversion H; subst.
    destruct (csi_end_interior _ _ _ E) as [L F]. split; [lia|exact F].
  - destruct (c =? 27); [|discriminate]. destruct r as [|d r']; [discriminate|].
    destruct (d =? 91) eqn:H91.
    + destruct (csi_end false r') as [n|] eqn:E.
      * intros H; inversion H; subst. destruct (csi_end_interior _ _ _ E) as [L F].
        cbn [length firstn forallb]. rewrite F. split; [lia|]. unfold clean_char. lia.
      * intros H; inversion H; subst. cbn [length firstn forallb]. split; [lia|]. unfold clean_char. lia.
    + destruct (in_rng 64 95 d) eqn:Hfe; [|discriminate]. intros H; inversion H; subst.
      cbn [length firstn forallb]. split; [lia|]. unfold clean_char, in_rng in *. lia.
Qed.

(* a generic "delete the leftmost non-overlapping matches" scanner; [mlen s] = length of the
   match at the head of s (0 = none) *)
Fixpoint strip_from (mlen : str -> nat) (skip : nat) (s : str) : str :=
  match s with
  | [] => []
  | c :: r =>
      match skip with
      | S k => strip_from mlen k r
      | O => match mlen s with S k => strip_from mlen k r | O => c :: strip_from mlen O r end
      end
  end.

(* matches start at an introducer and lie inside the escape sequence that starts there *)
Definition mlen_ok (mlen : str -> nat) : Prop :=
  (forall c r, clean_char c = true -> mlen (c :: r) = O) /\
  (forall s k, mlen s = S k -> exists j, span_len s = S j /\ (k <= j)%nat).

Lemma forallb_firstn_sub {X} (p : X -> bool) : forall (l : list X) j k, (k <= j)%nat ->
  forallb p (firstn j l) = true -> forallb p (firstn (j - k) (skipn k l)) = true.
Proof.
  induction l as [|x l IH]; intros j k Hk H.
  - now rewrite skipn_nil, firstn_nil.
  - destruct k as [|k]; [now rewrite Nat.sub_0_r|]. destruct j as [|j]; [lia|].
    cbn [firstn forallb] in H. apply andb_true_iff in H as [_ H]. cbn [skipn].
    change (S j - S k)%nat with (j - k)%nat. apply IH; [lia|exact H].
Qed.

Lemma lockstep mlen (OK : mlen_ok mlen) : forall s p m, (p <= m)%nat ->
  forallb clean_char (firstn (m - p) (skipn p s)) = true ->
  exists keep, length keep = length s /\ strip_from mlen p s = select keep s /\
               mask_le (map negb (esc_mask_from m s)) keep = true.
Proof.
  destruct OK as [OK1 OK2].
  induction s as [|c r IH]; intros p m Hpm Hc.
  - exists []. repeat split.
  - destruct p as [|p]; destruct m as [|m]; try lia.
    + (* both scanners in ground state *)
      cbn [strip_from esc_mask_from]. destruct (mlen (c :: r)) as [|k] eqn:Em.
      * destruct (span_len (c :: r)) as [|j] eqn:Es.
        -- destruct (IH O O (le_n _) eq_refl) as (keep & L & E & M).
           exists (true :: keep). cbn [length select map mask_le negb orb andb]. now rewrite L, E, M.
        -- destruct (span_len_interior _ _ _ Es) as [Lj Fj].
           destruct (IH O j (Nat.le_0_l _)) as (keep & L & E & M); [now rewrite Nat.sub_0_r|].
           exists (true :: keep). cbn [length select map mask_le negb orb andb]. now rewrite L, E, M.
      * destruct (OK2 _ _ Em) as (j & Es & Hkj). rewrite Es.
        destruct (span_len_interior _ _ _ Es) as [Lj Fj].
        destruct (IH k j Hkj (forallb_firstn_sub _ _ _ _ Hkj Fj)) as (keep & L & E & M).
        exists (false :: keep). cbn [length select map mask_le negb orb andb]. now rewrite L, E, M.
    + (* the reference is still inside a sequence the code has stopped skipping *)
      rewrite Nat.sub_0_r in Hc. cbn [skipn firstn forallb] in Hc. apply andb_true_iff in Hc as [Hc Hr].
      cbn [strip_from esc_mask_from]. rewrite (OK1 _ _ Hc).
      destruct (IH O m (Nat.le_0_l _)) as (keep & L & E & M); [now rewrite Nat.sub_0_r|].
      exists (true :: keep). cbn [length select map mask_le negb orb andb]. now rewrite L, E, M.
    + cbn [strip_from esc_mask_from]. cbn [skipn] in Hc.
      destruct (IH p m ltac:(lia) Hc) as (keep & L & E & M).
      exists (false :: keep). cbn [length select map mask_le negb orb andb]. now rewrite L, E, M.
Qed.

(* ---- instance 1: remove_ansi ---- *)
Definition ansi_mlen (s : str) : nat := match ansi_len s with Some n => n | None => O end.

Lemma remove_ansi_strip : forall s skip, remove_ansi_from skip s = strip_from ansi_mlen skip s.
Proof.
  induction s as [|c r IH]; intros skip; [reflexivity|]. cbn [remove_ansi_from strip_from].
  destruct skip as [|k]; [|apply IH]. unfold ansi_mlen.
  destruct (ansi_len (c :: r)) as [[|k]|]; now rewrite IH.
Qed.

Lemma ansi_mlen_ok : mlen_ok ansi_mlen.
Proof.
  split.
  - intros c r Hc. unfold ansi_mlen, ansi_len. destruct (clean_char_not_intro _ Hc) as [A B]. now rewrite A, B.
  - intros s k H. exists k. split; [|lia]. unfold ansi_mlen, ansi_len in H. unfold span_len.
    destruct s as [|c r]; [discriminate|]. destruct (c =? 155).
    + rewrite csi_end_false. destruct (ansi_body_len r) as [n|]; [|discriminate]. cbn in H. now rewrite H.
    + destruct (c =? 27); [|discriminate]. destruct r as [|d r']; [discriminate|].
      destruct (d =? 91); [|discriminate]. rewrite csi_end_false.
      destruct (ansi_body_len r') as [n|]; [|discriminate]. cbn in H. now rewrite H.
Qed.

Definition removal_ok (s t : str) : Prop :=
  exists keep, length keep = length s /\ t = select keep s /\
               mask_le (map negb (esc_mask s)) keep = true.

Lemma remove_ansi_removal s : removal_ok s (remove_ansi s).
Proof.
  unfold remove_ansi. rewrite remove_ansi_strip.
  apply (lockstep _ ansi_mlen_ok s O O (le_n _) eq_refl).
Qed.

(* ---- instance 2: the parse loop ---- *)
Definition nums_of (m : rmatch) : str := match m_numbers m with Some n => n | None => [] end.
Definition seq_of (m : rmatch) : str := m_csi m ++ nums_of m ++ m_intermed m ++ [m_command m].
Definition parse_mlen (s : str) : nat :=
  match match_csi_at s with
  | Some m => length (seq_of m)
  | None => match match_two_at s with Some m => length (seq_of m) | None => O end
  end.

Lemma numbers_lang_params : forall n seen, numbers_lang seen n = true -> forallb is_param n = true.
Proof.
  induction n as [|c n IH]; intros seen H; [reflexivity|]. cbn [numbers_lang] in H. cbn [forallb].
  destruct (isdigit c) eqn:Hd.
  - rewrite (IH _ H). unfold isdigit, is_param in *. lia.
  - destruct (c =? 59) eqn:H59; [|discriminate]. destruct seen; [|discriminate].
    rewrite (IH _ H). unfold is_param. lia.
Qed.

Lemma csi_body_is_span n i k rest : csi_body_match (n ++ i ++ k :: rest) n i k rest ->
  csi_end false (n ++ i ++ k :: rest) = Some (length n + length i + 1)%nat.
Proof.
  intros (_ & Hl & Hi & Hf). rewrite csi_end_false. unfold ansi_body_len.
  assert (S1 : span is_param (n ++ i ++ k :: rest) = (n, i ++ k :: rest)).
  { apply span_unique; [eapply numbers_lang_params, Hl|].
    destruct i as [|x i]; cbn [app].
    - unfold is_final, is_param in *. lia.
    - cbn [forallb] in Hi. apply andb_true_iff in Hi as [Hx _]. unfold is_inter, is_param in *. lia. }
  rewrite S1.
  assert (S2 : span is_inter (i ++ k :: rest) = (i, k :: rest)).
  { apply span_unique; [exact Hi|]. unfold is_final, is_inter in *. lia. }
  rewrite S2, Hf. reflexivity.
Qed.

(* what the two head patterns match: a decomposition of the string, and a sub-span of the
   escape sequence the reference scanner sees at this position *)
Lemma match_csi_at_span s m : match_csi_at s = Some m ->
  m_front m = [] /\ s = seq_of m ++ m_rest m /\ span_len s = length (seq_of m).
Proof.
  unfold match_csi_at. destruct s as [|c r]; [discriminate|]. destruct (c =? 155) eqn:H155.
  - destruct (match_csi_body r) as [[[[n i] k] rest]|] eqn:E; [|discriminate]. intros H; inversion H; subst.
    apply match_csi_body_spec in E. pose proof E as (-> & _). apply N.eqb_eq in H155. subst c.
    unfold seq_of, nums_of. cbn [m_front m_csi m_numbers m_intermed m_command m_rest].
    split; [reflexivity|]. split; [now rewrite <- !app_assoc|].
    cbn [app span_len]. change (155 =? 155) with true. cbv iota. rewrite (csi_body_is_span _ _ _ _ E).
    cbn [length]. rewrite ?app_length. cbn [length]. lia.
  - destruct (c =? 27) eqn:H27; [|discriminate]. destruct r as [|d r']; [discriminate|].
    destruct (d =? 91) eqn:H91; [|discriminate].
    destruct (match_csi_body r') as [[[[n i] k] rest]|] eqn:E; [|discriminate]. intros H; inversion H; subst.
    apply match_csi_body_spec in E. pose proof E as (-> & _). apply N.eqb_eq in H27, H91. subst c d.
    unfold seq_of, nums_of. cbn [m_front m_csi m_numbers m_intermed m_command m_rest].
    split; [reflexivity|]. split; [now rewrite <- !app_assoc|].
    cbn [app span_len]. change (27 =? 155) with false. change (27 =? 27) with true. change (91 =? 91) with true.
    cbv iota. rewrite (csi_body_is_span _ _ _ _ E). cbn [length]. rewrite ?app_length. cbn [length]. lia.
Qed.

Lemma match_two_at_span s m : match_two_at s = Some m ->
  m_front m = [] /\ s = seq_of m ++ m_rest m /\ length (seq_of m) = 2%nat /\ exists j, span_len s = S (S j).
Proof.
  unfold match_two_at. destruct s as [|c r]; [discriminate|]. destruct r as [|d rest]; [discriminate|].
  destruct ((c =? 27) && is_fe d) eqn:E; [|discriminate]. intros H; inversion H; subst.
  apply andb_true_iff in E as [H27 Hfe]. apply N.eqb_eq in H27. subst c.
  unfold seq_of, nums_of. cbn [m_front m_csi m_numbers m_intermed m_command m_rest app length].
  repeat split. cbn [span_len]. change (27 =? 155) with false. change (27 =? 27) with true. cbv iota.
  destruct (d =? 91).
  - destruct (csi_end false rest) as [n|]; [exists n|exists O]; reflexivity.
  - change (in_rng 64 95 d) with (is_fe d). rewrite Hfe. now exists O.
Qed.

Lemma parse_mlen_ok : mlen_ok parse_mlen.
Proof.
  split.
  - intros c r Hc. unfold parse_mlen. now rewrite (match_csi_at_clean _ _ Hc), (match_two_at_clean _ _ Hc).
  - intros s k H. unfold parse_mlen in H. destruct (match_csi_at s) as [m|] eqn:E1.
    + destruct (match_csi_at_span _ _ E1) as (_ & _ & Sp). exists k. split; [congruence|lia].
    + destruct (match_two_at s) as [m|] eqn:E2; [|discriminate].
      destruct (match_two_at_span _ _ E2) as (_ & _ & L & j & Sp). exists (S j). split; [exact Sp|lia].
Qed.

(* leftmost: find_first returns the first position at which the head pattern matches *)
Definition same_groups (m m0 : rmatch) : Prop :=
  m_csi m = m_csi m0 /\ m_numbers m = m_numbers m0 /\ m_intermed m = m_intermed m0 /\
  m_command m = m_command m0 /\ m_rest m = m_rest m0.

Lemma find_first_pos h (Hh : forall x m0, h x = Some m0 -> m_front m0 = []) :
  forall s m, find_first h s = Some m ->
    m_front m = firstn (length (m_front m)) s /\
    (forall i, (i < length (m_front m))%nat -> h (skipn i s) = None) /\
    exists m0, h (skipn (length (m_front m)) s) = Some m0 /\ same_groups m m0.
Proof.
  induction s as [|c r IH]; intros m H; cbn [find_first] in H.
  - destruct (h []) as [m'|] eqn:E; [|discriminate]. inversion H; subst. rewrite (Hh _ _ E). cbn.
    split; [reflexivity|]. split; [intros; lia|]. exists m. repeat split; auto.
  - destruct (h (c :: r)) as [m'|] eqn:E.
    + inversion H; subst. rewrite (Hh _ _ E). cbn. split; [reflexivity|]. split; [intros; lia|].
      exists m. repeat split; auto.
    + destruct (find_first h r) as [m'|] eqn:E'; [|discriminate]. inversion H; subst.
      destruct (IH _ eq_refl) as (F & N & m0 & H0 & G). cbn [with_front m_front length firstn skipn].
      split; [now rewrite <- F|]. split.
      * intros [|i] Hi; [exact E|]. cbn [skipn]. apply N. lia.
      * exists m0. split; [exact H0|]. exact G.
Qed.

Lemma find_first_none h : forall s, find_first h s = None -> forall i, h (skipn i s) = None.
Proof.
  induction s as [|c r IH]; intros H i; cbn [find_first] in H.
  - destruct (h []) eqn:E; [discriminate|]. now rewrite skipn_nil.
  - destruct (h (c :: r)) eqn:E; [discriminate|]. destruct (find_first h r) eqn:E'; [discriminate|].
    destruct i as [|i]; [exact E|]. cbn [skipn]. now apply IH.
Qed.

Lemma skipn_seq_rest (a b : str) : skipn (length a) (a ++ b) = b.
Proof. induction a; cbn; auto. Qed.

(* position and extent of what one iteration of the loop consumes *)
Definition peel_pos (s : str) (x : str * option token * str) : Prop :=
  let '(front, tok, rest) := x in
  match tok with
  | None => front = s /\ rest = [] /\ forall i, parse_mlen (skipn i s) = O
  | Some _ =>
      front = firstn (length front) s /\
      (forall i, (i < length front)%nat -> parse_mlen (skipn i s) = O) /\
      exists k, parse_mlen (skipn (length front) s) = S k /\ rest = skipn (S k) (skipn (length front) s)
  end.

Lemma head_front_csi x m0 : match_csi_at x = Some m0 -> m_front m0 = [].
Proof. intros H. now destruct (match_csi_at_span _ _ H). Qed.
Lemma head_front_two x m0 : match_two_at x = Some m0 -> m_front m0 = [].
Proof. intros H. now destruct (match_two_at_span _ _ H). Qed.

Lemma seq_of_groups m m0 : same_groups m m0 -> seq_of m = seq_of m0 /\ m_rest m = m_rest m0.
Proof. intros (A & B & C & D & E). unfold seq_of, nums_of. now rewrite A, B, C, D. Qed.

Lemma seq_of_nonempty m : exists k, length (seq_of m) = S k.
Proof. unfold seq_of. rewrite !app_length. cbn [length]. eexists. rewrite !Nat.add_succ_r. reflexivity. Qed.

Lemma peel_position s x : peel s = Ok x -> peel_pos s x.
Proof.
  unfold peel.
  pose proof (find_first_pos _ head_front_csi s) as P1. pose proof (find_first_pos _ head_front_two s) as P2.
  pose proof (find_first_none match_csi_at s) as N1. pose proof (find_first_none match_two_at s) as N2.
  destruct (find_first match_csi_at s) as [a|]; destruct (find_first match_two_at s) as [b|]; cbn [choose].
  - destruct (P1 _ eq_refl) as (Fa & Na & a0 & Ha & Ga). destruct (P2 _ eq_refl) as (Fb & Nb & b0 & Hb & Gb).
    destruct (length (m_front a) <=? length (m_front b))%nat eqn:Hle.
    + apply Nat.leb_le in Hle.
      assert (R : forall nums, peel_pos s (m_front a, Some (mkToken (m_csi a) nums (m_intermed a) (m_command a)), m_rest a)).
      { intros nums. cbv beta iota delta [peel_pos]. split; [exact Fa|]. split.
        { intros i Hi. unfold parse_mlen. rewrite (Na i Hi), (Nb i ltac:(lia)). reflexivity. }
        destruct (seq_of_groups _ _ Ga) as [Sq Rs]. destruct (match_csi_at_span _ _ Ha) as (_ & Dec & _).
        destruct (seq_of_nonempty a0) as [k Hk]. exists k. unfold parse_mlen. rewrite Ha. split; [exact Hk|].
        rewrite <- Hk, Rs. rewrite Dec at 1. apply eq_sym, skipn_seq_rest. }
      destruct (m_numbers a) as [ns|]; cbn [bind].
      * destruct (convert_numbers ns) as [cv|]; cbn; [|discriminate]. intros H; inversion H; subst. apply R.
      * intros H; inversion H; subst. apply R.
    + apply Nat.leb_gt in Hle.
      assert (R : forall nums, peel_pos s (m_front b, Some (mkToken (m_csi b) nums (m_intermed b) (m_command b)), m_rest b)).
      { intros nums. cbv beta iota delta [peel_pos]. split; [exact Fb|]. split.
        { intros i Hi. unfold parse_mlen. rewrite (Na i ltac:(lia)), (Nb i Hi). reflexivity. }
        destruct (seq_of_groups _ _ Gb) as [Sq Rs]. destruct (match_two_at_span _ _ Hb) as (_ & Dec & _).
        destruct (seq_of_nonempty b0) as [k Hk]. exists k. unfold parse_mlen. rewrite (Na _ Hle), Hb. split; [exact Hk|].
        rewrite <- Hk, Rs. rewrite Dec at 1. apply eq_sym, skipn_seq_rest. }
      destruct (m_numbers b) as [ns|]; cbn [bind].
      * destruct (convert_numbers ns) as [cv|]; cbn; [|discriminate]. intros H; inversion H; subst. apply R.
      * intros H; inversion H; subst. apply R.
  - destruct (P1 _ eq_refl) as (Fa & Na & a0 & Ha & Ga).
    assert (R : forall nums, peel_pos s (m_front a, Some (mkToken (m_csi a) nums (m_intermed a) (m_command a)), m_rest a)).
    { intros nums. cbv beta iota delta [peel_pos]. split; [exact Fa|]. split.
      { intros i Hi. unfold parse_mlen. rewrite (Na i Hi), (N2 eq_refl i). reflexivity. }
      destruct (seq_of_groups _ _ Ga) as [Sq Rs]. destruct (match_csi_at_span _ _ Ha) as (_ & Dec & _).
      destruct (seq_of_nonempty a0) as [k Hk]. exists k. unfold parse_mlen. rewrite Ha. split; [exact Hk|].
      rewrite <- Hk, Rs. rewrite Dec at 1. apply eq_sym, skipn_seq_rest. }
    destruct (m_numbers a) as [ns|]; cbn [bind].
    * destruct (convert_numbers ns) as [cv|]; cbn; [|discriminate]. intros H; inversion H; subst. apply R.
    * intros H; inversion H; subst. apply R.
  - destruct (P2 _ eq_refl) as (Fb & Nb & b0 & Hb & Gb).
    assert (R : forall nums, peel_pos s (m_front b, Some (mkToken (m_csi b) nums (m_intermed b) (m_command b)), m_rest b)).
    { intros nums. cbv beta iota delta [peel_pos]. split; [exact Fb|]. split.
      { intros i Hi. unfold parse_mlen. rewrite (N1 eq_refl i), (Nb i Hi). reflexivity. }
      destruct (seq_of_groups _ _ Gb) as [Sq Rs]. destruct (match_two_at_span _ _ Hb) as (_ & Dec & _).
      destruct (seq_of_nonempty b0) as [k Hk]. exists k. unfold parse_mlen. rewrite (N1 eq_refl _), Hb. split; [exact Hk|].
      rewrite <- Hk, Rs. rewrite Dec at 1. apply eq_sym, skipn_seq_rest. }
    destruct (m_numbers b) as [ns|]; cbn [bind].
    * destruct (convert_numbers ns) as [cv|]; cbn; [|discriminate]. intros H; inversion H; subst. apply R.
    * intros H; inversion H; subst. apply R.
  - intros H; inversion H; subst. cbn. repeat split. intros i. unfold parse_mlen.
    now rewrite (N1 eq_refl i), (N2 eq_refl i).
Qed.

Lemma strip_skip mlen : forall s k, strip_from mlen k s = strip_from mlen O (skipn k s).
Proof.
  induction s as [|c r IH]; intros k; [now rewrite skipn_nil|].
  destruct k as [|k]; [reflexivity|]. cbn [strip_from skipn]. apply IH.
Qed.

Lemma strip_prefix mlen : forall n s, (forall i, (i < n)%nat -> mlen (skipn i s) = O) ->
  strip_from mlen O s = firstn n s ++ strip_from mlen O (skipn n s).
Proof.
  induction n as [|n IH]; intros s H; [reflexivity|]. destruct s as [|c r]; [reflexivity|].
  cbn [strip_from firstn skipn app]. assert (H0 : mlen (c :: r) = O) by (apply (H O); lia). rewrite H0.
  f_equal. apply IH. intros i Hi. apply (H (S i)). lia.
Qed.

Definition texts (l : list item) : str :=
  flat_map (fun i => match i with IStr t => t | IDict _ => [] end) l.

Lemma texts_app a b : texts (a ++ b) = texts a ++ texts b.
Proof. unfold texts. apply flat_map_app. Qed.
Lemma texts_dicts l : texts (map IDict l) = [].
Proof. induction l; cbn; auto. Qed.

(* the text the loop collects is the input with the leftmost matches deleted *)
Lemma parse_loop_text : forall fuel s l, parse_loop fuel s = Ok l -> texts l = strip_from parse_mlen O s.
Proof.
  induction fuel as [|fuel IH]; intros s l H; [discriminate|]. cbn [parse_loop] in H.
  destruct (peel s) as [[[front tok] rest]|e] eqn:Ep; [|discriminate]. cbn [bind] in H.
  pose proof (peel_position _ _ Ep) as P. cbv beta iota delta [peel_pos] in P.
  set (tk_items := match tok with
                   | Some tk => bind (token_type tk) (fun t => match t with Some l0 => Ok (map IDict l0) | None => Ok [] end)
                   | None => Ok [] end) in H.
  destruct tk_items as [toks|e] eqn:Et; [|discriminate]. cbn [bind] in H.
  assert (Tt : texts toks = []).
  { subst tk_items. destruct tok as [tk|]; [|now inversion Et].
    destruct (token_type tk) as [[l0|]|]; cbn in Et; inversion Et; [apply texts_dicts|reflexivity]. }
  destruct (match rest with [] => Ok [] | _ :: _ => parse_loop fuel rest end) as [later|e] eqn:El; [|discriminate].
  cbn [bind] in H. inversion H; subst l. clear H.
  assert (Tl : texts later = strip_from parse_mlen O rest).
  { destruct rest as [|c r]; [now inversion El|]. now apply IH. }
  rewrite !texts_app, Tt, Tl. cbn [app].
  assert (Tf : texts (if is_nil front then [] else [IStr front]) = front).
  { destruct front; cbn; [reflexivity|now rewrite app_nil_r]. }
  rewrite Tf. destruct tok as [tk|].
  - destruct P as (Ff & Nf & k & Hk & Hr).
    rewrite (strip_prefix parse_mlen (length front) s Nf), <- Ff. f_equal.
    destruct (skipn (length front) s) as [|c r] eqn:Es; [discriminate|].
    cbn [strip_from]. rewrite Hk. cbn [skipn] in Hr. rewrite Hr. symmetry. apply strip_skip.
  - destruct P as (-> & -> & Nf). cbn [strip_from]. rewrite app_nil_r.
    rewrite (strip_prefix parse_mlen (length s) s (fun i _ => Nf i)), firstn_all, skipn_all. cbn. now rewrite app_nil_r.
Qed.

Lemma build_chunks_text : forall l cur f, build_chunks cur l = Ok f -> text f = texts l.
Proof.
  induction l as [|[x|x] l IH]; intros cur f H; cbn [build_chunks] in H.
  - now inversion H.
  - destruct (parse_args_kw cur) as [a|]; [|discriminate]. cbn [bind] in H.
    destruct (build_chunks cur l) as [cs|] eqn:E; [|discriminate]. inversion H; subst.
    cbn [text flat_map c_s texts]. f_equal. apply (IH _ _ E).
  - apply (IH _ _ H).
Qed.

Lemma zero_mlen_ok : mlen_ok (fun _ => O).
Proof. split; [reflexivity|intros s k H; discriminate]. Qed.

Lemma strip_zero : forall s, strip_from (fun _ => O) O s = s.
Proof. induction s as [|c r IH]; cbn [strip_from]; [reflexivity|now rewrite IH]. Qed.

Lemma removal_refl s : removal_ok s s.
Proof.
  destruct (lockstep _ zero_mlen_ok s O O (le_n _) eq_refl) as (keep & L & E & M).
  exists keep. repeat split; auto. now rewrite <- E, strip_zero.
Qed.

(* C17, third clause: the text of the result is s with characters removed -- never added or
   reordered -- and every removed character lies inside an escape sequence of the
   independent scanner *)
Theorem from_str_keeps s f : from_str s = Ok f -> removal_ok s (text f).
Proof.
  unfold from_str. destruct (needs_parse s).
  - destruct (parse s) as [l|e] eqn:Ep.
    + intros H. rewrite (build_chunks_text _ _ _ H). unfold parse in Ep. rewrite (parse_loop_text _ _ _ Ep).
      apply (lockstep _ parse_mlen_ok s O O (le_n _) eq_refl).
    + destruct e; try discriminate. intros H; inversion H; subst. cbn [text flat_map c_s].
      rewrite app_nil_r. apply remove_ansi_removal.
  - intros H; inversion H; subst. cbn [text flat_map c_s]. rewrite app_nil_r. apply removal_refl.
Qed.

(* ======================================================================== *)
(* 6. Tie of the hand-translated scanners to the regex sources              *)
(* ======================================================================== *)
(* SHA-1 of the regular expressions (function name, flags, pattern string) that
   peel_off_esc_code / remove_ansi hand to the re module, observed at run time by the
   translator (gen/gen_tables.py) in the tree the scanners match_csi_at / match_two_at /
   ansi_len were written for, regenerated into Gen/Tables.v on every run.  An edited
   pattern or flag breaks this obligation: the scanners then have to be re-validated
   against the new patterns and the literals updated.  Comments, formatting and rewrites of
   the statements around the patterns do not change it (those are covered by the
   correspondence check). *)
Lemma regex_sources_tie :
  peel_src_hash = [57; 49; 53; 48; 49; 50; 52; 50; 57; 102; 55; 49; 57; 49; 97; 54; 100; 102; 50; 56; 57; 102; 98; 51; 97; 55; 56; 55; 51; 55; 101; 97; 55; 101; 51; 52; 51; 57; 57; 53] /\
  remove_ansi_src_hash = [97; 53; 100; 100; 56; 50; 97; 53; 101; 51; 50; 52; 50; 102; 48; 97; 100; 50; 50; 57; 97; 53; 48; 50; 56; 99; 57; 55; 101; 57; 102; 99; 100; 56; 50; 97; 54; 101; 98; 100].
Proof. split; reflexivity. Qed.
