(* curtsies.formatstring.FmtStr.__getitem__: repository text = model, for all FmtStrs and indices *)
From Coq Require Import String Lia ZifyBool ZifyNat ZifyN.
From Curtsies Require Import Model.Base Spec.ListOps Spec.PyMini Gen.Pure Gen.PureFmt Spec.PyEnvFmt
  Model.Slice Proofs.PyStep Proofs.PureTieBase Proofs.PureTieSlice Proofs.PureTieFmtBase.
Local Open Scope Z_scope.

(* ---- the loop of the model as a step function ---------------------------------------------- *)
Definition gi_step (start stop : Z) (st : Z * list chunk) (ch : chunk) : lres (Z * list chunk) :=
  let counter := fst st in
  let parts := snd st in
  let n := chunk_len ch in
  let parts' :=
    if (start <? counter + n) && (stop >? counter) then
      let s := Z.max 0 (start - counter) in
      let e := Z.min (stop - counter) n in
      if e - s =? n then parts ++ [ch]
      else parts ++ [mkChunk (pyslice (c_s ch) (Some (Z.max 0 (start - counter))) (Some (stop - counter))) (c_a ch)]
    else parts in
  if stop <? counter + n then LBreak (counter + n, parts') else LNext (counter + n, parts').

Lemma getitem_loop_model : forall start stop chunks counter parts,
  exists c', loop_model (gi_step start stop) (counter, parts) chunks
             = Ok (c', getitem_loop start stop counter chunks parts).
Proof.
  intros start stop chunks. induction chunks as [|ch chunks IH]; intros counter parts.
  - exists counter. reflexivity.
  - cbn [loop_model getitem_loop]. unfold gi_step at 1. cbn [fst snd].
    destruct (stop <? counter + chunk_len ch).
    + eexists. reflexivity.
    + apply IH.
Qed.

Ltac getitem_resolve := idtac; decide_cmp.

Theorem getitem_tie : forall f ix,
  call_in ctxF0 py_FmtStr_getitem [embed_fmtstr f; embed_index ix] = embed_fs_res (getitem f ix).
Proof.
  not_a_stub py_FmtStr_getitem.
  intros f ix. unfold call_in. pcbv.
  frun ltac:(idtac).
  unfold getitem.
  destruct (normalize_slice (len f) ix) as [[start stop]|e]; fcbv; [|reflexivity].
  frun ltac:(idtac).
  (* the loop: the invariant is about the variables the generated tree increments / appends to *)
  match goal with
  | |- context [for_loop ?c ?t ?body _ ?r0] =>
      let cns := eval cbv in (carried body r0) in
      let pn := eval cbv in (first_mutated body) in
      let ixn := eval cbv in (name_of is_vslice r0) in
      pose (R := fun (st : Z * list chunk) (r : env) =>
                   holds cns (VInt (fst st)) r
                   /\ lookup pn r = Some (VList (map embed_chunk (snd st)))
                   /\ lookup ixn r = Some (VSlice (VInt start) (VInt stop) VNone))
  end.
  loop_with (gi_step start stop) R.
  - (* one round of the body *)
    intros [counter parts] ch r (Hc & Hp & Hi). cbn [fst snd] in Hc, Hp. fcbv_in Hp. split_holds Hc.
    fcbv.
    match goal with |- round_post ?R' ?m ?o => remember (round_post R' m) as K eqn:HK end.
    frun ltac:(getitem_resolve).
    all: subst K; unfold gi_step; cbn [fst snd].
    all: first [ close_round
               | fail 1 "TIE BROKEN: the repository's curtsies.formatstring.FmtStr.__getitem__ no longer computes what the model computes (loop body)" ].
  - after_loop HL (0, @nil chunk).
    all: try contradiction.
    all: destruct (getitem_loop_model start stop f 0 []) as [c' Hm]; rewrite Hm in HL0; try discriminate.
    destruct HL0 as [s [Hs (Hc & Hp & Hi)]]. injection Hs as <-. cbn [fst snd] in Hc, Hp. fcbv_in Hp. split_holds Hc.
    frun ltac:(idtac; match goal with
                      | |- context [is_nil (getitem_loop ?a ?b ?c ?d ?e)] =>
                          destruct (getitem_loop a b c d e)
                      end).
    all: first [ same_result
               | fail 1 "TIE BROKEN: the repository's curtsies.formatstring.FmtStr.__getitem__ no longer computes what the model computes" ].
Qed.
