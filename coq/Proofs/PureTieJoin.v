(* curtsies.formatstring.FmtStr.join: repository text = model (Model/Slice.v [join]), for all FmtStrs and
   all LISTS of operands, each a FmtStr or a str without an escape introducer (a str item goes through
   fmtstr(s): the same scope condition as the replacement of splice / setslice_with_length / setitem).
   An item that is neither (an int, None, a list, ...): the text raises TypeError when it reaches it, whatever
   came before and whatever follows -- [join_tie_bad_item].

   The loop carries two locals: the list that grows and the separator to put in front of the next item
   (empty in the first round).  Their names, and the names the body only reads (self, and the globals
   isinstance / FmtStr / bytes / str / fmtstr, which no local may hide), are read off the generated tree. *)
From Coq Require Import String Lia ZifyBool ZifyNat ZifyN.
From Curtsies Require Import Model.Base Model.Splice Spec.ListOps Spec.PyMini Gen.Pure Gen.PureFmt Spec.PyEnvFmt
  Model.Slice Proofs.PyStep Proofs.PureTieBase Proofs.PureTieFmtBase.
Local Open Scope Z_scope.

(* ---- the names an expression reads or calls ----------------------------------------------------------- *)
Fixpoint names_e (e : expr) {struct e} : list string :=
  let opt := fun (o : option expr) => match o with None => [] | Some x => names_e x end in
  let all := fix all (l : list expr) : list string := match l with [] => [] | e' :: l' => names_e e' ++ all l' end in
  match e with
  | EVar x => [x]
  | EInt _ | EBoolC _ | ENoneC | EStr _ | EBytes _ => []
  | EBin _ a b | ECmp _ a b | EAnd a b | EOr a b => names_e a ++ names_e b
  | ENeg a | ENot a | EAttr a _ => names_e a
  | ECall1 f a => f :: names_e a
  | ECall2 f a b => f :: names_e a ++ names_e b
  | ECall3 f a b d => f :: names_e a ++ names_e b ++ names_e d
  | ESub a lo hi => names_e a ++ opt lo ++ opt hi
  | EIndex a i => names_e a ++ names_e i
  | EMeth1 a _ arg => names_e a ++ names_e arg
  | EGenExp elt _ it => names_e elt ++ names_e it
  | EList es | ETuple es => all es
  | ECond t a b => names_e t ++ names_e a ++ names_e b
  | ECallStar f a => f :: names_e a
  | ECallN f es => f :: all es
  | ECmpChain a rest =>
      names_e a ++ (fix allp (l : list (cmpop * expr)) : list string :=
                      match l with [] => [] | (_, e') :: l' => names_e e' ++ allp l' end) rest
  | ECallKw f es kws =>
      f :: all es ++ (fix allk (l : list (string * expr)) : list string :=
                        match l with [] => [] | (_, e') :: l' => names_e e' ++ allk l' end) kws
  | EGenIf elt _ it cond => names_e elt ++ names_e it ++ names_e cond
  | EMethN a _ es => names_e a ++ all es
  end.

(* the names a loop reads or calls and leaves alone: not its target, not assigned in its body, not a list
   that grows there.  An invariant says that they still hold what they held when the loop was entered
   ([keeps]); for a global that is called or tested against, that no local hides it. *)
Definition untouched (t : target) (body : list stmt) : list string :=
  let tn := match t with TName x => [x] | TTuple xs => xs end in
  filter (fun x => negb (mem_string x tn) && negb (mem_string x (assigned_block body))
                   && negb (mem_string x (flat_map mutated body)))
         (dedup (flat_map names_e (flat_map exprs_of body))).

(* ---- the loop of the model as a step function: the state is (before, chunks) ----------------------------- *)
Definition jn_step (self : fmtstr) (st : list chunk * list chunk) (s : operand) : lres (list chunk * list chunk) :=
  LNext (self, (snd st ++ fst st) ++ to_fs s).

Lemma join_loop_model : forall self items before chunks,
  exists before', loop_model (jn_step self) (before, chunks) items = Ok (before', join_loop self items before chunks).
Proof.
  intros self items. induction items as [|s items IH]; intros before chunks.
  - exists before. reflexivity.
  - cbn [loop_model jn_step join_loop fst snd]. apply IH.
Qed.

Definition item_plain (o : operand) : Prop := operand_plain o = true.

Lemma items_plain : forall items, forallb operand_plain items = true -> Forall item_plain items.
Proof.
  induction items as [|o items IH]; intro H; [constructor|].
  cbn [forallb] in H. apply andb_prop in H. destruct H as [H1 H2].
  constructor; [exact H1 | exact (IH H2)].
Qed.

(* the invariant, and one round of the body against [step], for the loop the execution has arrived at *)
Ltac join_loop_with f step :=
  match goal with
  | |- context [for_loop ?c ?t ?body (map Ok (map ?emb ?xs)) ?r0] =>
      let cns := eval cbv in (carried body r0) in
      let pn := eval cbv in (first_mutated body) in
      let kept := eval cbv in (untouched t body) in
      pose (R := fun (st : list chunk * list chunk) (r : env) =>
                   holds cns (VList (map embed_chunk (fst st))) r
                   /\ lookup pn r = Some (VList (map embed_chunk (snd st)))
                   /\ keeps kept r0 r);
      rewrite (map_map emb Ok xs); cbv beta;
      assert (HL : forall st0, R st0 r0 ->
                     loop_post R (loop_model step st0 xs) (for_loop c t body (map (fun x => Ok (emb x)) xs) r0));
      [ let st0 := fresh "st0" in let HR0 := fresh "HR0" in
        intros st0 HR0; apply (for_loop_model_on c t body emb step R item_plain);
        [ clear st0 HR0 | apply items_plain; assumption | exact HR0 ] | ]
  end.

Theorem join_tie : forall f items,
  forallb operand_plain items = true ->
  call_in ctxF3 py_FmtStr_join [embed_fmtstr f; VList (map embed_operand items)]
  = Ok (embed_fmtstr (Slice.join f items)).
Proof.
  not_a_stub py_FmtStr_join.
  intros f items Hplain. unfold call_in. pcbv.
  frun ltac:(idtac).
  join_loop_with f (jn_step f).
  - (* one round of the body *)
    intros [before chunks] o r Ho (Hb & Hc & Hk). cbn [fst snd] in Hb, Hc. fcbv_in Hc. split_holds Hb. split_keeps Hk.
    assert (Hp : match o with OStr s => has_esc_intro s = false | OFmt _ => True end).
    { destruct o as [s|g]; [|exact I]. cbv [item_plain operand_plain] in Ho. destruct (has_esc_intro s); [discriminate | reflexivity]. }
    clear Ho.
    destruct o as [s|g]; cbn [embed_operand]; fcbv.
    all: match goal with |- round_post ?R' ?m ?o => remember (round_post R' m) as K eqn:HK end.
    all: frun ltac:(idtac).
    all: subst K; cbn [fst snd].
    all: first [ close_round
               | fail 1 "TIE BROKEN: the repository's curtsies.formatstring.FmtStr.join no longer computes what the model computes (loop body)" ].
  - after_loop HL (@nil chunk, @nil chunk).
    all: try contradiction.
    all: destruct (join_loop_model f items [] []) as [before' Hm]; rewrite Hm in HL0; try discriminate.
    destruct HL0 as [st [Hs (Hb & Hc & Hk)]]. injection Hs as <-. cbn [fst snd] in Hb, Hc. fcbv_in Hc.
    split_holds Hb. split_keeps Hk.
    frun ltac:(idtac).
    unfold Slice.join.
    first [ same_result
          | fail 1 "TIE BROKEN: the repository's curtsies.formatstring.FmtStr.join no longer computes what the model computes" ].
Qed.

(* ---- an item that is neither a FmtStr nor a str ----------------------------------------------------------- *)
(* values that are certainly neither (an object of another class, and bytes -- which the text passes on to
   fmtstr() -- are not covered) *)
Definition bad_item (v : val) : bool :=
  match v with
  | VInt _ | VBool _ | VNone | VList _ | VTuple _ | VDict _ | VSet _ | VSlice _ _ _ => true
  | _ => false
  end.

(* a loop that raises in one of its first rounds raises, whatever items follow *)
Lemma for_loop_raised_app : forall c t body l1 l2 r e,
  for_loop c t body l1 r = Raised e -> for_loop c t body (l1 ++ l2) r = Raised e.
Proof.
  intros c t body l1 l2. induction l1 as [|[v|ex] l1 IH]; intros r e H; cbn [for_loop app] in *.
  - discriminate.
  - destruct (bind_target t v r) as [r1|]; [|exact H].
    destruct (exec_block c body r1) as [r2|w|e'|r2|r2]; try exact H; try discriminate; apply IH, H.
  - exact H.
Qed.

(* the items up to the bad one: [Some o] an operand, [None] the bad item *)
Definition jn_step_bad (self : fmtstr) (st : list chunk * list chunk) (x : option operand) : lres (list chunk * list chunk) :=
  match x with Some o => jn_step self st o | None => LRaise TypeError end.

Lemma join_loop_model_bad : forall self items st,
  loop_model (jn_step_bad self) st (map Some items ++ [None]) = Raise TypeError.
Proof.
  intros self items. induction items as [|o items IH]; intro st; [reflexivity|].
  cbn [map app loop_model jn_step_bad jn_step]. apply IH.
Qed.

Definition item_plain_opt (x : option operand) : Prop := match x with Some o => item_plain o | None => True end.

Lemma items_plain_opt : forall items, forallb operand_plain items = true -> Forall item_plain_opt (map Some items ++ [None]).
Proof.
  intros items H. apply Forall_app. split.
  - apply Forall_map. exact (items_plain items H).
  - constructor; [exact I | constructor].
Qed.

Theorem join_tie_bad_item : forall f items v rest,
  forallb operand_plain items = true -> bad_item v = true ->
  call_in ctxF3 py_FmtStr_join [embed_fmtstr f; VList (map embed_operand items ++ v :: rest)] = Raise TypeError.
Proof.
  not_a_stub py_FmtStr_join.
  intros f items v rest Hplain Hbad. unfold call_in. pcbv.
  frun ltac:(idtac).
  pose (emb := fun x : option operand => match x with Some o => embed_operand o | None => v end).
  match goal with
  | |- context [for_loop ?c ?t ?body (map Ok ?l) ?r0] =>
      replace (map Ok l) with (map (fun x => Ok (emb x)) (map Some items ++ [None]) ++ map Ok rest)
        by (rewrite !map_app, !map_map, <- app_assoc; reflexivity);
      let cns := eval cbv in (carried body r0) in
      let pn := eval cbv in (first_mutated body) in
      let kept := eval cbv in (untouched t body) in
      pose (R := fun (st : list chunk * list chunk) (r : env) =>
                   holds cns (VList (map embed_chunk (fst st))) r
                   /\ lookup pn r = Some (VList (map embed_chunk (snd st)))
                   /\ keeps kept r0 r);
      assert (HL : forall st0, R st0 r0 ->
                     loop_post R (loop_model (jn_step_bad f) st0 (map Some items ++ [None]))
                               (for_loop c t body (map (fun x => Ok (emb x)) (map Some items ++ [None])) r0));
      [ let st0 := fresh "st0" in let HR0 := fresh "HR0" in
        intros st0 HR0; apply (for_loop_model_on c t body emb (jn_step_bad f) R item_plain_opt);
        [ clear st0 HR0 | apply items_plain_opt; assumption | exact HR0 ] | ]
  end.
  - (* one round of the body *)
    intros [before chunks] x r Ho (Hb & Hc & Hk). cbn [fst snd] in Hb, Hc. fcbv_in Hc. split_holds Hb. split_keeps Hk.
    destruct x as [o|]; unfold emb; cbv beta iota.
    + assert (Hp : match o with OStr s => has_esc_intro s = false | OFmt _ => True end).
      { destruct o as [s|g]; [|exact I]. cbv [item_plain_opt item_plain operand_plain] in Ho.
        destruct (has_esc_intro s); [discriminate | reflexivity]. }
      clear Ho.
      destruct o as [s|g]; cbn [embed_operand]; fcbv.
      all: match goal with |- round_post ?R' ?m ?o => remember (round_post R' m) as K eqn:HK end.
      all: frun ltac:(idtac).
      all: subst K; cbn [fst snd].
      all: first [ close_round
                 | fail 1 "TIE BROKEN: the repository's curtsies.formatstring.FmtStr.join no longer computes what the model computes (loop body)" ].
    + fcbv. clear R emb. destruct v; try discriminate Hbad; clear Hbad; fcbv.
      all: match goal with |- round_post ?R' ?m ?o => remember (round_post R' m) as K eqn:HK end.
      all: frun ltac:(idtac).
      all: subst K; cbn [fst snd].
      all: first [ close_round
                 | fail 1 "TIE BROKEN: the repository's curtsies.formatstring.FmtStr.join no longer raises TypeError for an item that is neither a str nor a FmtStr" ].
  - assert (HL0 := HL (@nil chunk, @nil chunk)); clear HL.
    rewrite join_loop_model_bad in HL0.
    match type of HL0 with
    | _ -> loop_post _ _ (for_loop ?a1 ?a2 ?a3 ?a4 ?a5) =>
        specialize (HL0 ltac:(prove_inv0));
        destruct (for_loop a1 a2 a3 a4 a5) as [rr|vv|ee|rr|rr] eqn:Hfor; cbn [loop_post] in HL0
    end.
    all: try contradiction.
    + destruct HL0 as [s [Hs _]]. discriminate Hs.
    + injection HL0 as <-.
      rewrite (for_loop_raised_app _ _ _ _ (map Ok rest) _ _ Hfor).
      first [ reflexivity
            | fail 1 "TIE BROKEN: the repository's curtsies.formatstring.FmtStr.join no longer raises TypeError for an item that is neither a str nor a FmtStr" ].
Qed.
