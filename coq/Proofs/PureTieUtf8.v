(* curtsies.events.could_be_unfinished_utf8: repository text = model, for all byte strings *)
From Coq Require Import String Lia ZifyBool ZifyNat ZifyN.
From Curtsies Require Import Model.Base Spec.ListOps Spec.PyMini Gen.Pure Proofs.PyStep.
From Curtsies Require Import Model.Utf8 Model.Keys Proofs.PureTieBase.
From Curtsies Require Proofs.Keys.
Local Open Scope Z_scope.

(* ---- could_be_unfinished_utf8 --------------------------------------------------- *)
Lemma slice_first : forall (o : N) rest, slice_list (o :: rest) (Some 0) (Some 1) = [o].
Proof.
  intros o rest. unfold slice_list, clip. cbn [List.length].
  replace (0 <? 0) with false by reflexivity. replace (1 <? 0) with false by reflexivity.
  replace (Z.min 0 (Z.of_nat (S (Datatypes.length rest)))) with 0 by lia.
  replace (Z.min 1 (Z.of_nat (S (Datatypes.length rest)))) with 1 by lia.
  reflexivity.
Qed.

Lemma land_eqb : forall o k m : N, (Z.land (Z.of_N o) (Z.of_N k) =? Z.of_N m) = (N.land o k =? m)%N.
Proof.
  intros o k m. assert (H0 : Z.land (Z.of_N o) (Z.of_N k) = Z.of_N (N.land o k)) by (destruct o, k; reflexivity).
  rewrite H0.
  destruct (N.eqb_spec (N.land o k) m) as [->|Hne]; [apply Z.eqb_refl|].
  apply Z.eqb_neq. intro H. apply Hne. now apply N2Z.inj.
Qed.

(* the five lead-byte tests are mutually exclusive, whatever the code point: a rewrite of the
   function that relies on this (one test per early return instead of one big `or`) is the same
   function.  The masks are below 256, so only the low byte matters: 256 cases, by computation. *)
Definition mask_tests (o : N) : list bool :=
  [(N.land o 224 =? 192)%N; (N.land o 240 =? 224)%N; (N.land o 248 =? 240)%N;
   (N.land o 252 =? 248)%N; (N.land o 254 =? 252)%N].
Definition at_most_one (l : list bool) : bool :=
  (List.length (List.filter (fun b => b) l) <=? 1)%nat.

Lemma land_low_byte : forall o k, (k < 256)%N -> N.land o k = N.land (o mod 256) k.
Proof.
  intros o k Hk. change 256%N with (2 ^ 8)%N. rewrite <- N.land_ones.
  rewrite <- N.land_assoc. f_equal. rewrite N.land_comm, N.land_ones. symmetry. apply N.mod_small. exact Hk.
Qed.

Lemma masks_exclusive : forall o, at_most_one (mask_tests o) = true.
Proof.
  intro o. unfold mask_tests.
  rewrite (land_low_byte o 224), (land_low_byte o 240), (land_low_byte o 248), (land_low_byte o 252),
          (land_low_byte o 254) by reflexivity.
  assert (Hm : (o mod 256 < 256)%N) by (apply N.mod_lt; discriminate).
  revert Hm. generalize (o mod 256)%N. intros m Hm.
  apply (Proofs.Keys.byte_cases (fun m => at_most_one
           [(N.land m 224 =? 192)%N; (N.land m 240 =? 224)%N; (N.land m 248 =? 240)%N;
            (N.land m 252 =? 248)%N; (N.land m 254 =? 252)%N])); [vm_compute; reflexivity | exact Hm].
Qed.

(* the proof script, used with the empty context here and with the context of the events
   module in Proofs/PureTieKeys.v; [ucbv] = evaluation that leaves the evaluator of
   statements, the arithmetic and the context's tables folded *)
Ltac ucbv := cbv - [exec exec_block slice_list Z.land Z.eqb Z.ltb Z.of_N Z.of_nat List.length N.land N.eqb Nat.ltb].
Ltac utf8_tie_proof_with ucbv o rest :=
  unfold could_be_unfinished_utf8;
  pose proof (land_eqb o 224 192) as H1; pose proof (land_eqb o 240 224) as H2;
  pose proof (land_eqb o 248 240) as H3; pose proof (land_eqb o 252 248) as H4;
  pose proof (land_eqb o 254 252) as H5; cbn [Z.of_N] in H1, H2, H3, H4, H5;
  assert (L : forall k : nat, (Z.of_nat (Datatypes.length (o :: rest)) <? Z.of_nat k) = (Datatypes.length (o :: rest) <? k)%nat)
    by (intro k; lia);
  pose proof (L 2%nat) as L2; pose proof (L 3%nat) as L3; pose proof (L 4%nat) as L4;
  pose proof (L 5%nat) as L5; pose proof (L 6%nat) as L6; cbn [Z.of_nat Pos.of_succ_nat Pos.succ] in L2, L3, L4, L5, L6;
  clear L;
  pose proof (masks_exclusive o) as EX; unfold mask_tests in EX;
  ucbv;
  (* run the function text as far as it goes; where it is stuck on one of the five lead-byte tests or on a
     length test, split on the answer and go on -- whatever the order and nesting of the tests in the text *)
  repeat first
    [ py_unfold1; ucbv
    | rewrite slice_first; ucbv
    | progress (rewrite ?H1, ?H2, ?H3, ?H4, ?H5, ?L2, ?L3, ?L4, ?L5, ?L6)
    | match goal with
      | |- context [(N.land o ?k =? ?m)%N] =>
          let E := fresh "E" in destruct (N.land o k =? m)%N eqn:E; rewrite ?E in EX; cbn [andb orb]; ucbv
      end
    | match goal with
      | |- context [(?a <? ?b)%nat] => destruct (a <? b)%nat; cbn [andb orb]; ucbv
      end ];
  first [ reflexivity
        | exfalso; vm_compute in EX; discriminate EX       (* a combination of answers that no byte gives *)
        | fail 2 "TIE BROKEN: the repository's curtsies.events.could_be_unfinished_utf8 no longer computes what the model computes" ].

Theorem could_be_unfinished_utf8_tie : forall seq,
  call py_could_be_unfinished_utf8 [VBytes seq] = embed_bool (could_be_unfinished_utf8 seq).
Proof.
  intros [|o rest].
  - reflexivity.
  - unfold call. utf8_tie_proof_with ltac:(ucbv) o rest.
Qed.
