(* Characterising lemmas for the reference terminal model (Spec/Term.v):
   what each command does to the observable screen, cursor and graphic state. *)
From Curtsies Require Import Model.Base Spec.Sgr Spec.Term.
From Coq Require Import Arith Lia.
Close Scope N_scope.
Local Open Scope nat_scope.

(* the parts of a terminal a command sequence of a window never changes *)
Definition same_frame (t t' : term) : Prop :=
  t_h t' = t_h t /\ t_w t' = t_w t /\ t_in_alt t' = t_in_alt t /\
  b_base (abuf t') = b_base (abuf t).

Lemma same_frame_refl t : same_frame t t.
Proof. repeat split. Qed.

Lemma same_frame_trans a b c : same_frame a b -> same_frame b c -> same_frame a c.
Proof. unfold same_frame; intuition congruence. Qed.

Lemma abuf_with_abuf b t : abuf (with_abuf b t) = b.
Proof. unfold abuf, with_abuf. destruct (t_in_alt t) eqn:E; cbn; rewrite ?E; reflexivity. Qed.

Lemma with_abuf_fields b t :
  let t' := with_abuf b t in
  t_h t' = t_h t /\ t_w t' = t_w t /\ t_in_alt t' = t_in_alt t /\ t_row t' = t_row t /\
  t_col t' = t_col t /\ t_pending t' = t_pending t /\ t_sgr t' = t_sgr t /\ t_visible t' = t_visible t.
Proof. unfold with_abuf. destruct (t_in_alt t) eqn:E; cbn; rewrite ?E; repeat split. Qed.

Lemma abuf_with_cursor r c p t : abuf (with_cursor r c p t) = abuf t.
Proof. reflexivity. Qed.
Lemma abuf_with_sgr g t : abuf (with_sgr g t) = abuf t.
Proof. reflexivity. Qed.
Lemma abuf_with_visible v t : abuf (with_visible v t) = abuf t.
Proof. reflexivity. Qed.

Lemma scr_with_cursor r c p t x y : scr (with_cursor r c p t) x y = scr t x y.
Proof. reflexivity. Qed.
Lemma scr_with_sgr g t x y : scr (with_sgr g t) x y = scr t x y.
Proof. reflexivity. Qed.
Lemma scr_with_visible v t x y : scr (with_visible v t) x y = scr t x y.
Proof. reflexivity. Qed.

Lemma erased_default : erased sgr_default = blank.
Proof. reflexivity. Qed.

(* ---- writing one cell without a pending wrap ------------------------------- *)
Lemma put_nowrap x t :
  t_pending t = false ->
  let t' := put x t in
  same_frame t t' /\ t_sgr t' = t_sgr t /\ t_visible t' = t_visible t /\ t_row t' = t_row t /\
  (forall r c, scr t' r c = if (r =? t_row t) && (c =? t_col t) then x else scr t r c) /\
  (if S (t_col t) =? t_w t then t_pending t' = true /\ t_col t' = t_col t
   else t_pending t' = false /\ t_col t' = S (t_col t)).
Proof.
  intros Hp. unfold put. rewrite Hp. cbv zeta.
  set (b := abuf t).
  set (t2 := with_abuf (set_line_cells b (b_base b + t_row t) (fun c => c =? t_col t) x) t).
  assert (F := with_abuf_fields (set_line_cells b (b_base b + t_row t) (fun c => c =? t_col t) x) t).
  cbv zeta in F. fold t2 in F. destruct F as (Fh & Fw & Fa & Fr & Fc & Fp & Fs & Fv).
  assert (A2 : abuf t2 = set_line_cells b (b_base b + t_row t) (fun c => c =? t_col t) x)
    by apply abuf_with_abuf.
  assert (S2 : forall r c, scr t2 r c = if (r =? t_row t) && (c =? t_col t) then x else scr t r c).
  { intros r c. unfold scr. rewrite A2. cbn [set_line_cells b_doc b_base]. fold b.
    replace (b_base b + r =? b_base b + t_row t) with (r =? t_row t); [reflexivity|].
    destruct (Nat.eqb_spec r (t_row t)), (Nat.eqb_spec (b_base b + r) (b_base b + t_row t)); try reflexivity; lia. }
  assert (B2 : b_base (abuf t2) = b_base (abuf t)) by (rewrite A2; reflexivity).
  destruct (S (t_col t) =? t_w t) eqn:E.
  - repeat split; cbn; try assumption; try reflexivity.
  - repeat split; cbn; try assumption; try reflexivity.
Qed.

(* ---- writing a list of cells that fits on the rest of the line ---------------- *)
Lemma puts_fits : forall xs t,
  t_pending t = false -> t_col t + length xs <= t_w t -> t_col t < t_w t ->
  let t' := puts xs t in
  same_frame t t' /\ t_sgr t' = t_sgr t /\ t_visible t' = t_visible t /\ t_row t' = t_row t /\
  (forall r c, scr t' r c =
     if (r =? t_row t) && (t_col t <=? c) && (c <? t_col t + length xs) then nth (c - t_col t) xs blank
     else scr t r c) /\
  (xs <> [] ->
   if t_col t + length xs =? t_w t then t_pending t' = true /\ t_col t' = t_w t - 1
   else t_pending t' = false /\ t_col t' = t_col t + length xs).
Proof.
  induction xs as [|x xs IH]; intros t Hp Hfit Hcol; cbn [puts length].
  - repeat split; try reflexivity.
    + intros r c. destruct ((r =? t_row t) && (t_col t <=? c) && (c <? t_col t + 0)) eqn:E; [|reflexivity].
      apply andb_true_iff in E as [E1 E2]. apply andb_true_iff in E1 as [_ E1].
      apply Nat.leb_le in E1. apply Nat.ltb_lt in E2. lia.
    + intros H; congruence.
  - cbn [length] in Hfit.
    destruct (put_nowrap x t Hp) as (F1 & G1 & V1 & R1 & S1 & C1). cbv zeta in *.
    destruct (S (t_col t) =? t_w t) eqn:E.
    + (* last column: nothing can follow *)
      apply Nat.eqb_eq in E. assert (xs = []) by (destruct xs; [reflexivity | cbn in Hfit; lia]). subst xs.
      cbn [puts length]. destruct C1 as [C1p C1c].
      repeat split; try (apply F1); try assumption.
      * intros r c. rewrite S1.
        destruct (Nat.eqb_spec r (t_row t)), (Nat.eqb_spec c (t_col t)); cbn [andb].
        -- subst c. rewrite Nat.leb_refl. replace (t_col t <? t_col t + 1) with true by (symmetry; apply Nat.ltb_lt; lia).
           rewrite Nat.sub_diag. reflexivity.
        -- destruct (t_col t <=? c) eqn:L; [|reflexivity]. destruct (c <? t_col t + 1) eqn:L2; [|reflexivity].
           apply Nat.leb_le in L. apply Nat.ltb_lt in L2. lia.
        -- reflexivity.
        -- reflexivity.
      * intros _. replace (t_col t + 1 =? t_w t) with true by (symmetry; apply Nat.eqb_eq; lia).
        split; [assumption | lia].
    + apply Nat.eqb_neq in E. destruct C1 as [C1p C1c].
      destruct F1 as (Fh & Fw & Fa & Fb).
      assert (Hfit' : t_col (put x t) + length xs <= t_w (put x t)) by (rewrite C1c, Fw; lia).
      assert (Hcol' : t_col (put x t) < t_w (put x t)) by (rewrite C1c, Fw; lia).
      destruct (IH (put x t) C1p Hfit' Hcol') as (F2 & G2 & V2 & R2 & S2 & C2). cbv zeta in *.
      repeat split.
      * destruct F2 as (A & B & C & D). congruence.
      * destruct F2 as (A & B & C & D). congruence.
      * destruct F2 as (A & B & C & D). congruence.
      * destruct F2 as (A & B & C & D). congruence.
      * congruence.
      * congruence.
      * congruence.
      * intros r c. rewrite S2, S1, R1, C1c.
        destruct (Nat.eqb_spec r (t_row t)); cbn [andb]; [|reflexivity].
        destruct (Nat.eqb_spec c (t_col t)).
        -- subst c. replace (S (t_col t) <=? t_col t) with false by (symmetry; apply Nat.leb_gt; lia).
           cbn [andb]. rewrite Nat.leb_refl.
           replace (t_col t <? t_col t + S (length xs)) with true by (symmetry; apply Nat.ltb_lt; lia).
           rewrite Nat.sub_diag. reflexivity.
        -- destruct (Nat.leb_spec (S (t_col t)) c), (Nat.leb_spec (t_col t) c); try lia; cbn [andb]; try reflexivity.
           replace (c <? t_col t + S (length xs)) with (c <? S (t_col t) + length xs)
             by (f_equal; lia).
           destruct (c <? S (t_col t) + length xs); [|reflexivity].
           replace (c - t_col t) with (S (c - S (t_col t))) by lia. reflexivity.
      * intros _. destruct xs as [|y ys].
        -- cbn [puts length]. replace (t_col t + 1 =? t_w t) with false by (symmetry; apply Nat.eqb_neq; lia).
           split; [assumption | lia].
        -- assert (Hne : y :: ys <> []) by congruence. specialize (C2 Hne).
           rewrite C1c, Fw in C2.
           replace (t_col t + S (length (y :: ys)) =? t_w t) with (S (t_col t) + length (y :: ys) =? t_w t)
             by (f_equal; lia).
           destruct (S (t_col t) + length (y :: ys) =? t_w t); destruct C2 as [P Q]; split; try assumption; lia.
Qed.

(* ---- the other commands ------------------------------------------------------------ *)
Lemma exec_cup t r c :
  exists t', exec t (Cup r c) = Some t' /\ same_frame t t' /\ t_sgr t' = t_sgr t /\ t_visible t' = t_visible t /\
    (forall x y, scr t' x y = scr t x y) /\
    t_row t' = Nat.min r (t_h t - 1) /\ t_col t' = Nat.min c (t_w t - 1) /\ t_pending t' = false.
Proof. eexists; split; [reflexivity|]. repeat split. Qed.

Lemma exec_el0 t :
  exists t', exec t El0 = Some t' /\ same_frame t t' /\ t_sgr t' = t_sgr t /\ t_visible t' = t_visible t /\
    t_row t' = t_row t /\ t_col t' = t_col t /\ t_pending t' = t_pending t /\
    (forall x y, scr t' x y = if (x =? t_row t) && (t_col t <=? y) then erased (t_sgr t) else scr t x y).
Proof.
  eexists; split; [reflexivity|].
  set (b := abuf t).
  pose proof (with_abuf_fields (set_line_cells b (b_base b + t_row t) (fun c => t_col t <=? c) (erased (t_sgr t))) t) as F.
  cbv zeta in F. destruct F as (Fh & Fw & Fa & Fr & Fc & Fp & Fs & Fv).
  repeat split; try assumption.
  - rewrite abuf_with_abuf. reflexivity.
  - intros x y. unfold scr. rewrite abuf_with_abuf. cbn [set_line_cells b_doc b_base]. fold b.
    replace (b_base b + x =? b_base b + t_row t) with (x =? t_row t); [reflexivity|].
    destruct (Nat.eqb_spec x (t_row t)), (Nat.eqb_spec (b_base b + x) (b_base b + t_row t)); try reflexivity; lia.
Qed.

Lemma exec_el1 t :
  exists t', exec t El1 = Some t' /\ same_frame t t' /\ t_sgr t' = t_sgr t /\ t_visible t' = t_visible t /\
    t_row t' = t_row t /\ t_col t' = t_col t /\ t_pending t' = t_pending t /\
    (forall x y, scr t' x y = if (x =? t_row t) && (y <=? t_col t) then erased (t_sgr t) else scr t x y).
Proof.
  eexists; split; [reflexivity|].
  set (b := abuf t).
  pose proof (with_abuf_fields (set_line_cells b (b_base b + t_row t) (fun c => c <=? t_col t) (erased (t_sgr t))) t) as F.
  cbv zeta in F. destruct F as (Fh & Fw & Fa & Fr & Fc & Fp & Fs & Fv).
  repeat split; try assumption.
  - rewrite abuf_with_abuf. reflexivity.
  - intros x y. unfold scr. rewrite abuf_with_abuf. cbn [set_line_cells b_doc b_base]. fold b.
    replace (b_base b + x =? b_base b + t_row t) with (x =? t_row t); [reflexivity|].
    destruct (Nat.eqb_spec x (t_row t)), (Nat.eqb_spec (b_base b + x) (b_base b + t_row t)); try reflexivity; lia.
Qed.

Lemma exec_hide t : exec t Hide = Some (with_visible false t).
Proof. reflexivity. Qed.
Lemma exec_show t : exec t Show = Some (with_visible true t).
Proof. reflexivity. Qed.

Lemma execs_app : forall a b t,
  execs t (a ++ b) = match execs t a with Some t' => execs t' b | None => None end.
Proof.
  induction a as [|k a IH]; intros b t; cbn [execs app]; [reflexivity|].
  destruct (exec t k); [apply IH | reflexivity].
Qed.
