(* C16: linesplit is the greedy first-fit wrap of the maximal non-whitespace blocks
   of the per-character list.
   Part A: facts about the reference functions of Spec/StrSpec.v (what the greedy
           wrap guarantees: wrap_items_lines_ok, wrap_items_filter; blocks_ok,
           gaps_go_spaces, gaps_blocks_length) and their commutation with a map over
           the items (greedy_wrap_map, blocks_map, inner_gaps_map).
   Part B: the whitespace scanner of the model against blocks / inner_gaps.
   Part C: word_to_lines = chop, the first-fit loop (loop_wrap), the joiner
           (meet_sgr_uniform, meet_sgr_le), the partition theorem
           (blocks_gaps_partition) and the main theorems, all for EVERY operand and
           EVERY columns >= 1:
             linesplit_greedy        no exception; cells of the lines = greedy_wrap with meet_joiner
             linesplit_text_greedy   the same on the text alone
             linesplit_lines_ok      <= columns cells, begins/ends with a non-space
             linesplit_len_le        1 <= len(line) <= columns
             linesplit_conserves     non-space cells conserved in order (is_space 32)
             linesplit_no_words / linesplit_empty_iff   no lines iff no words
             linesplit_gaps          the gaps: non-empty, all whitespace, between consecutive words *)
From Curtsies Require Import Model.Base Spec.ListOps Model.Slice Spec.StrSpec Model.StrMeth Model.LineSplit
                             Proofs.Slice Proofs.StrMeth.
From Curtsies Require Model.Atts.
From Coq Require Import Lia ZifyBool ZifyNat ZifyN.
Local Close Scope N_scope.

(* ====================================================================== *)
(* A. the reference: chop, wrap_go, blocks, inner_gaps                       *)
Section Reference.
Context {A : Type}.
Variable sp : A -> bool.
Definition nsp (x : A) : bool := negb (sp x).

(* ---- chop ---- *)
Lemma chop_fuel_nonempty fuel n (w : list A) : chop_fuel fuel n w <> [].
Proof. destruct fuel; cbn; [discriminate|]. destruct (Nat.leb (length w) n); discriminate. Qed.

Lemma chop_fuel_concat : forall fuel n (w : list A), concat (chop_fuel fuel n w) = w.
Proof.
  induction fuel as [|k IH]; intros n w; cbn [chop_fuel].
  - cbn. apply app_nil_r.
  - destruct (Nat.leb (length w) n); cbn [concat]; [apply app_nil_r|].
    rewrite IH. apply firstn_skipn.
Qed.

Lemma chop_fuel_le n : 1 <= n -> forall fuel (w : list A), length w <= fuel ->
  Forall (fun p => length p <= n) (chop_fuel fuel n w).
Proof.
  intros Hn. induction fuel as [|k IH]; intros w H; cbn [chop_fuel].
  - constructor; [lia|constructor].
  - destruct (Nat.leb (length w) n) eqn:E.
    + constructor; [lia|constructor].
    + constructor; [rewrite firstn_length; lia|]. apply IH. rewrite skipn_length. lia.
Qed.

(* the pieces of a non-empty list are non-empty sub-lists *)
Lemma chop_fuel_pieces n : 1 <= n -> forall fuel (w : list A), w <> [] ->
  Forall (fun p => p <> [] /\ forall x, In x p -> In x w) (chop_fuel fuel n w).
Proof.
  intros Hn. induction fuel as [|k IH]; intros w H; cbn [chop_fuel].
  - constructor; [tauto|constructor].
  - destruct (Nat.leb (length w) n) eqn:E.
    + constructor; [tauto|constructor].
    + assert (n < length w) by lia.
      constructor.
      * split.
        -- intros E0. apply (f_equal (@length A)) in E0. rewrite firstn_length in E0. cbn in E0. lia.
        -- intros x Hx. rewrite <- (firstn_skipn n w). apply in_or_app. now left.
      * assert (NE : skipn n w <> []).
        { intros E0. apply (f_equal (@length A)) in E0. rewrite skipn_length in E0. cbn in E0. lia. }
        eapply Forall_impl; [|apply (IH _ NE)]. cbn. intros p [P1 P2]. split; [exact P1|].
        intros x Hx. rewrite <- (firstn_skipn n w). apply in_or_app. right. now apply P2.
Qed.

Lemma removelast_last_split (l : list (list A)) : l <> [] -> l = removelast l ++ [last l []].
Proof. intros H. now apply app_removelast_last. Qed.

Lemma Forall_removelast {X} (P : X -> Prop) (l : list X) : Forall P l -> Forall P (removelast l).
Proof.
  induction 1 as [|x l Hx Hl IH]; [constructor|]. destruct l as [|y l]; [constructor|].
  cbn [removelast] in *. constructor; assumption.
Qed.

Lemma Forall_last {X} (P : X -> Prop) (l : list X) d : l <> [] -> Forall P l -> P (last l d).
Proof.
  intros H F. induction F as [|x l Hx Hl IH]; [congruence|]. destruct l as [|y l]; [exact Hx|].
  apply IH. discriminate.
Qed.

(* ---- what every line of the wrap satisfies ---- *)
(* a "good word": non-empty, no space item *)
Definition word_ok (w : list A) : Prop := w <> [] /\ forall x, In x w -> sp x = false.
(* a "good line": at most n items, non-empty, begins and ends with a non-space item *)
Definition line_ok (n : nat) (ln : list A) : Prop :=
  length ln <= n /\ exists x y, hd_error ln = Some x /\ last ln x = y /\ sp x = false /\ sp y = false.

Lemma word_line_ok n (w : list A) : word_ok w -> length w <= n -> line_ok n w.
Proof.
  intros [NE NS] L. split; [exact L|]. destruct w as [|x w]; [congruence|].
  exists x, (last (x :: w) x). repeat split.
  - apply NS. now left.
  - apply NS. destruct (rev_cons_case (x :: w)) as [E|(init & z & E)]; [discriminate|].
    rewrite E, last_last. apply in_or_app. right. now left.
Qed.

Lemma chop_lines_ok n (w : list A) : 1 <= n -> word_ok w -> Forall (line_ok n) (chop n w).
Proof.
  intros Hn [NE NS]. unfold chop.
  pose proof (chop_fuel_le n Hn (length w) w (le_n _)) as F1.
  pose proof (chop_fuel_pieces n Hn (length w) w NE) as F2.
  rewrite Forall_forall in *. intros p Hp. apply word_line_ok; [|now apply F1].
  destruct (F2 p Hp) as [P1 P2]. split; [exact P1|]. intros x Hx. apply NS. now apply P2.
Qed.

Lemma join_line_ok n (cur w : list A) j : line_ok n cur -> word_ok w -> length cur + 1 + length w <= n ->
  line_ok n (cur ++ j :: w).
Proof.
  intros (L & x & y & H1 & H2 & H3 & H4) [NE NS] Hfit. split.
  - rewrite app_length. cbn [length]. lia.
  - destruct cur as [|c cur]; [discriminate|]. cbn in H1. injection H1 as <-.
    destruct (rev_cons_case w) as [E|(init & z & E)]; [congruence|].
    exists c, z. repeat split.
    + subst w. change (c :: cur) with ([c] ++ cur).
      replace (([c] ++ cur) ++ j :: init ++ [z]) with ((([c] ++ cur) ++ j :: init) ++ [z])
        by (rewrite <- !app_assoc; reflexivity).
      apply last_last.
    + exact H3.
    + apply NS. subst w. apply in_or_app. right. now left.
Qed.

Lemma wrap_go_lines_ok n : 1 <= n -> forall rest (cur : list A),
  line_ok n cur -> Forall (fun jw => word_ok (snd jw)) rest ->
  Forall (line_ok n) (wrap_go n cur rest).
Proof.
  intros Hn. induction rest as [|[j w] r IH]; intros cur Hc F; cbn [wrap_go].
  - constructor; [exact Hc|constructor].
  - inversion F as [|? ? Hw Fr]; subst. cbn [snd] in Hw.
    destruct (Nat.leb (length cur + 1 + length w) n) eqn:E.
    + apply IH; [|exact Fr]. apply join_line_ok; [assumption|assumption|lia].
    + pose proof (chop_lines_ok n w Hn Hw) as FC.
      assert (NE : chop n w <> []) by apply chop_fuel_nonempty.
      constructor; [exact Hc|]. apply Forall_app. split.
      * now apply Forall_removelast.
      * apply IH; [|exact Fr]. now apply Forall_last.
Qed.

(* every line of the wrap: at most n items, begins and ends with a non-space item *)
Theorem wrap_items_lines_ok n words joiners : 1 <= n -> Forall word_ok words ->
  Forall (line_ok n) (wrap_items n words joiners).
Proof.
  intros Hn F. unfold wrap_items. destruct words as [|w ws]; [constructor|].
  inversion F as [|? ? Hw Fr]; subst.
  pose proof (chop_lines_ok n w Hn Hw) as FC.
  assert (NE : chop n w <> []) by apply chop_fuel_nonempty.
  apply Forall_app. split; [now apply Forall_removelast|].
  apply wrap_go_lines_ok; [exact Hn|now apply Forall_last|].
  apply Forall_forall. intros [j x] Hin. cbn [snd]. apply in_combine_r in Hin.
  rewrite Forall_forall in Fr. now apply Fr.
Qed.

(* ---- conservation of the non-space items ---- *)
Lemma filter_nsp_word (w : list A) : (forall x, In x w -> sp x = false) -> filter nsp w = w.
Proof.
  induction w as [|x w IH]; intros H; [reflexivity|]. cbn [filter]. unfold nsp at 1.
  rewrite (H x) by now left. cbn. f_equal. apply IH. intros y Hy. apply H. now right.
Qed.

Lemma concat_chop n (w : list A) : concat (removelast (chop n w)) ++ last (chop n w) [] = w.
Proof.
  pose proof (chop_fuel_concat (length w) n w) as C. fold (chop n w) in C.
  rewrite (removelast_last_split (chop n w)) in C at 1 by apply chop_fuel_nonempty.
  rewrite concat_app in C. cbn [concat] in C. now rewrite app_nil_r in C.
Qed.

Lemma wrap_go_filter n : forall rest (cur : list A),
  Forall (fun jw => sp (fst jw) = true) rest ->
  filter nsp (concat (wrap_go n cur rest)) = filter nsp cur ++ filter nsp (flat_map snd rest).
Proof.
  induction rest as [|[j w] r IH]; intros cur F; cbn [wrap_go flat_map snd].
  - cbn. now rewrite !app_nil_r.
  - inversion F as [|? ? Hj Fr]; subst. cbn [fst] in Hj.
    destruct (Nat.leb (length cur + 1 + length w) n).
    + rewrite IH by exact Fr. rewrite !filter_app. cbn [filter]. unfold nsp at 2. rewrite Hj. cbn [negb].
      now rewrite app_assoc.
    + cbn [concat]. rewrite concat_app, !filter_app, IH by exact Fr.
      f_equal. rewrite app_assoc, <- filter_app, concat_chop. reflexivity.
Qed.

Theorem wrap_items_filter n words joiners :
  Forall (fun j => sp j = true) joiners -> Forall word_ok words -> length words <= S (length joiners) ->
  filter nsp (concat (wrap_items n words joiners)) = concat words.
Proof.
  intros Fj Fw L. unfold wrap_items. destruct words as [|w ws]; [reflexivity|].
  inversion Fw as [|? ? Hw Fr]; subst. cbn [length] in L.
  rewrite concat_app, filter_app, wrap_go_filter.
  - rewrite app_assoc, <- filter_app, concat_chop. cbn [concat].
    rewrite filter_nsp_word by apply Hw. f_equal.
    assert (E : flat_map snd (combine joiners ws) = concat ws).
    { clear - L. revert joiners L. induction ws as [|x ws IH]; intros [|j js] L; cbn in *; try reflexivity; try lia.
      f_equal. apply IH. lia. }
    rewrite E. clear - Fr. induction Fr as [|x ws Hx _ IH]; [reflexivity|].
    cbn [concat]. rewrite filter_app, IH. f_equal. apply filter_nsp_word, Hx.
  - apply Forall_forall. intros [j x] Hin. cbn [fst]. apply in_combine_l in Hin.
    rewrite Forall_forall in Fj. now apply Fj.
Qed.

(* ---- blocks and gaps ---- *)
Lemma blocks_go_ok : forall (l cur : list A), (forall x, In x cur -> sp x = false) ->
  Forall word_ok (blocks_go sp l cur) /\ concat (blocks_go sp l cur) = rev cur ++ filter nsp l.
Proof.
  induction l as [|x r IH]; intros cur Hc; cbn [blocks_go filter].
  - destruct cur as [|c cur]; cbn.
    + split; [constructor|reflexivity].
    + split; [|now rewrite !app_nil_r].
      constructor; [|constructor]. split.
      * intros E. apply (f_equal (@length A)) in E. rewrite app_length in E. cbn in E. lia.
      * intros y Hy. apply Hc. apply in_rev. exact Hy.
  - unfold nsp at 1. destruct (sp x) eqn:E; cbn [negb].
    + destruct (IH [] ltac:(intros ? [])) as [I1 I2]. cbn [rev app] in I2.
      destruct cur as [|c cur]; [split; [exact I1|exact I2]|].
      split.
      * constructor; [|exact I1]. split.
        -- intros E0. apply (f_equal (@length A)) in E0. rewrite rev_length in E0. discriminate.
        -- intros y Hy. apply Hc. now apply in_rev.
      * cbn [concat]. now rewrite I2.
    + destruct (IH (x :: cur)) as [I1 I2].
      { intros y [<-|Hy]; [exact E|now apply Hc]. }
      split; [exact I1|]. rewrite I2. cbn [rev]. now rewrite <- app_assoc.
Qed.

Theorem blocks_ok (l : list A) : Forall word_ok (blocks sp l) /\ concat (blocks sp l) = filter nsp l.
Proof. apply (blocks_go_ok l []). intros ? []. Qed.

Lemma gaps_go_spaces : forall (l : list A) seen cur, (forall x, In x cur -> sp x = true) ->
  Forall (fun g => g <> [] /\ forall x, In x g -> sp x = true) (gaps_go sp l seen cur).
Proof.
  induction l as [|x r IH]; intros seen cur Hc; cbn [gaps_go]; [constructor|].
  destruct (sp x) eqn:E.
  - apply IH. intros y [<-|Hy]; [exact E|now apply Hc].
  - destruct cur as [|c cur]; [apply IH; intros ? []|].
    destruct seen; [|apply IH; intros ? []].
    constructor; [|apply IH; intros ? []]. split.
    + intros E0. apply (f_equal (@length A)) in E0. rewrite rev_length in E0. discriminate.
    + intros y Hy. apply Hc. now apply in_rev.
Qed.

(* one gap between two consecutive words *)
Lemma gaps_count : forall (l : list A),
  (forall bc, bc <> [] -> length (blocks_go sp l bc) = S (length (gaps_go sp l true []))) /\
  (forall gc, gc <> [] -> length (blocks_go sp l []) = length (gaps_go sp l true gc)) /\
  (forall gc, length (gaps_go sp l false gc) = pred (length (blocks_go sp l []))).
Proof.
  induction l as [|x r (IH1 & IH2 & IH4)]; cbn [blocks_go gaps_go].
  - repeat split; intros; try reflexivity. destruct bc; [congruence|reflexivity].
  - destruct (sp x) eqn:E.
    + repeat split.
      * intros bc H. destruct bc as [|b bc]; [congruence|]. cbn [length]. f_equal.
        rewrite (IH2 [x]) by discriminate. reflexivity.
      * intros gc H. apply IH2. discriminate.
      * intros gc. apply IH4.
    + repeat split.
      * intros bc H. apply IH1. discriminate.
      * intros gc H. destruct gc as [|g gc]; [congruence|]. cbn [length].
        apply IH1. discriminate.
      * intros gc. rewrite (IH1 [x]) by discriminate. cbn [pred].
        destruct gc; reflexivity.
Qed.

Theorem gaps_blocks_length (l : list A) : length (inner_gaps sp l) = pred (length (blocks sp l)).
Proof. apply gaps_count. Qed.
End Reference.

(* ---- the reference functions commute with a map over the items ---- *)
Section MapRef.
Context {A B : Type}.
Variable f : A -> B.

Lemma map_removelast {X Y} (g : X -> Y) (l : list X) : map g (removelast l) = removelast (map g l).
Proof.
  induction l as [|x l IH]; [reflexivity|]. destruct l as [|y l]; [reflexivity|].
  cbn [removelast map] in *. now rewrite IH.
Qed.

Lemma map_last_nil (l : list (list A)) : map f (last l []) = last (map (map f) l) [].
Proof.
  induction l as [|x l IH]; [reflexivity|]. destruct l as [|y l]; [reflexivity|].
  cbn [last map] in *. exact IH.
Qed.

Lemma chop_fuel_map : forall fuel n (w : list A),
  chop_fuel fuel n (map f w) = map (map f) (chop_fuel fuel n w).
Proof.
  induction fuel as [|k IH]; intros n w; cbn [chop_fuel map]; [reflexivity|].
  rewrite map_length. destruct (Nat.leb (length w) n); [reflexivity|].
  cbn [map]. rewrite firstn_map, <- IH, skipn_map. reflexivity.
Qed.

Lemma chop_map n (w : list A) : chop n (map f w) = map (map f) (chop n w).
Proof. unfold chop. rewrite map_length. apply chop_fuel_map. Qed.

Lemma wrap_go_map n : forall (rest : list (A * list A)) (cur : list A),
  wrap_go n (map f cur) (map (fun jw => (f (fst jw), map f (snd jw))) rest) =
  map (map f) (wrap_go n cur rest).
Proof.
  induction rest as [|[j w] r IH]; intros cur; cbn [wrap_go map fst snd]; [reflexivity|].
  rewrite !map_length. destruct (Nat.leb (length cur + 1 + length w) n).
  - rewrite <- IH. f_equal. rewrite map_app. reflexivity.
  - cbn [map]. f_equal. rewrite map_app, chop_map. f_equal.
    + apply eq_sym, map_removelast.
    + rewrite <- IH. f_equal. apply eq_sym, map_last_nil.
Qed.

Lemma combine_map_both {X Y X' Y'} (g : X -> X') (h : Y -> Y') (a : list X) (b : list Y) :
  combine (map g a) (map h b) = map (fun p => (g (fst p), h (snd p))) (combine a b).
Proof.
  revert b. induction a as [|x a IH]; intros [|y b]; cbn; try reflexivity. now rewrite IH.
Qed.

Lemma greedy_wrap_map n (mk : list A -> A) (mk' : list B -> B) words gaps :
  (forall g, f (mk g) = mk' (map f g)) ->
  map (map f) (greedy_wrap n mk words gaps) =
  greedy_wrap n mk' (map (map f) words) (map (map f) gaps).
Proof.
  intros Hmk. unfold greedy_wrap, wrap_items. destruct words as [|w ws]; [reflexivity|].
  cbn [map]. rewrite map_app, chop_map, <- (map_removelast (map f)). f_equal.
  rewrite <- map_last_nil, <- wrap_go_map. f_equal.
  rewrite (map_map (map f) mk').
  rewrite (map_ext (fun g => mk' (map f g)) (fun g => f (mk g))) by (intros g; now rewrite Hmk).
  rewrite <- (map_map mk f). now rewrite combine_map_both.
Qed.

Variable sp : B -> bool.
Definition spf (x : A) : bool := sp (f x).

Lemma blocks_go_map : forall (l cur : list A),
  blocks_go sp (map f l) (map f cur) = map (map f) (blocks_go spf l cur).
Proof.
  induction l as [|x r IH]; intros cur; cbn [blocks_go map].
  - destruct cur as [|c cur]; [reflexivity|]. cbn [map]. now rewrite map_rev.
  - unfold spf at 1. destruct (sp (f x)).
    + specialize (IH []). cbn [map] in IH. destruct cur as [|c cur]; cbn [map]; [exact IH|].
      rewrite IH. now rewrite map_rev.
    + apply (IH (x :: cur)).
Qed.

Lemma gaps_go_map : forall (l : list A) seen (cur : list A),
  gaps_go sp (map f l) seen (map f cur) = map (map f) (gaps_go spf l seen cur).
Proof.
  induction l as [|x r IH]; intros seen cur; cbn [gaps_go map]; [reflexivity|].
  unfold spf at 1. destruct (sp (f x)).
  - apply (IH seen (x :: cur)).
  - pose proof (IH true []) as IH0. cbn [map] in IH0.
    destruct cur as [|c cur]; cbn [map]; [exact IH0|].
    destruct seen; [|exact IH0]. cbn [map]. rewrite IH0. now rewrite map_rev.
Qed.

Lemma blocks_map (l : list A) : blocks sp (map f l) = map (map f) (blocks spf l).
Proof. apply (blocks_go_map l []). Qed.
Lemma inner_gaps_map (l : list A) : inner_gaps sp (map f l) = map (map f) (inner_gaps spf l).
Proof. apply (gaps_go_map l false []). Qed.
End MapRef.

(* ====================================================================== *)
(* B. the whitespace scanner of the model against blocks / inner_gaps         *)
Section Scanner.
Context {A : Type}.
Variable is_space : char -> bool.
Variable ch : A -> char.
Definition spc (x : A) : bool := is_space (ch x).

(* the non-empty pieces outside the spans / the spans touching neither end *)
Fixpoint wf (L : list A) (start : nat) (spans : list (nat * nat)) : list (list A) :=
  match spans with
  | [] => if Nat.eqb start (length L) then [] else [sub L start (length L)]
  | (a, b) :: r => (if Nat.eqb start a then [] else [sub L start a]) ++ wf L b r
  end.
Definition sf (L : list A) (spans : list (nat * nat)) : list (list A) :=
  map (fun s => sub L (fst s) (snd s))
      (filter (fun s => negb (Nat.eqb (fst s) 0) && negb (Nat.eqb (snd s) (length L))) spans).

Lemma sub_nil_iff (L : list A) a b : a <= b -> b <= length L -> (sub L a b = [] <-> a = b).
Proof.
  intros H1 H2. split.
  - intros E. apply (f_equal (@length A)) in E. rewrite sub_length in E. cbn in E. lia.
  - intros ->. apply sub_empty. lia.
Qed.

Lemma sub_one (pre r : list A) c : sub (pre ++ c :: r) (length pre) (S (length pre)) = [c].
Proof. rewrite sub_snoc by lia. now rewrite sub_empty by lia. Qed.

Lemma nat_spans_cons a b ms : nat_spans ((a, b) :: ms) = (Z.to_nat a, Z.to_nat b) :: nat_spans ms.
Proof. reflexivity. Qed.

Lemma scan_blocks : forall (s pre : list A),
  let L := pre ++ s in
  let p := length pre in
  (forall start, start <= p ->
     wf L start (nat_spans (ws_scan is_space (map ch s) (Z.of_nat p) None)) =
     blocks_go spc s (rev (sub L start p))) /\
  (forall start a, start <= a -> a <= p ->
     wf L start (nat_spans (ws_scan is_space (map ch s) (Z.of_nat p) (Some (Z.of_nat a)))) =
     (if Nat.eqb start a then [] else [sub L start a]) ++ blocks_go spc s []).
Proof.
  induction s as [|c r IH]; intros pre L p.
  - subst L p. rewrite app_nil_r. split.
    + intros start Hs. cbn [map ws_scan nat_spans wf blocks_go].
      destruct (Nat.eqb start (length pre)) eqn:E.
      * apply Nat.eqb_eq in E. subst start. now rewrite sub_empty by lia.
      * destruct (rev (sub pre start (length pre))) as [|x xs] eqn:ER.
        -- apply (f_equal (@rev A)) in ER. rewrite rev_involutive in ER. cbn in ER.
           apply sub_nil_iff in ER; lia.
        -- rewrite <- ER, rev_involutive. reflexivity.
    + intros start a H1 H2. cbn [map ws_scan blocks_go]. rewrite nat_spans_cons. cbn [nat_spans map wf].
      rewrite !Nat2Z.id, Nat.eqb_refl. reflexivity.
  - assert (EL : L = (pre ++ [c]) ++ r) by (subst L; now rewrite <- app_assoc).
    assert (EP : length (pre ++ [c]) = S p) by (rewrite app_length; cbn; lia).
    assert (EZ : (Z.of_nat p + 1)%Z = Z.of_nat (S p)) by lia.
    destruct (IH (pre ++ [c])) as [IHN IHS]. rewrite <- EL, EP in IHN, IHS. clear IH.
    split.
    + intros start Hs. cbn [map ws_scan blocks_go]. fold (spc c). destruct (spc c) eqn:E.
      * rewrite EZ, (IHS start p) by lia.
        destruct (Nat.eqb start p) eqn:E2.
        -- apply Nat.eqb_eq in E2. subst start. now rewrite sub_empty by lia.
        -- destruct (rev (sub L start p)) as [|x xs] eqn:ER.
           ++ apply (f_equal (@rev A)) in ER. rewrite rev_involutive in ER. cbn in ER.
              apply sub_nil_iff in ER; [lia|lia|]. subst L p. rewrite app_length. lia.
           ++ rewrite <- ER, rev_involutive. reflexivity.
      * rewrite EZ. rewrite (IHN start) by lia. f_equal.
        subst L p. rewrite sub_snoc by exact Hs. rewrite rev_app_distr. reflexivity.
    + intros start a H1 H2. cbn [map ws_scan blocks_go]. fold (spc c). destruct (spc c) eqn:E.
      * rewrite EZ. apply IHS; lia.
      * rewrite nat_spans_cons. cbn [wf]. rewrite !Nat2Z.id. f_equal.
        rewrite EZ. rewrite (IHN p) by lia. f_equal. subst L p. now rewrite sub_one.
Qed.

Lemma sf_cons (L : list A) a b r :
  sf L ((a, b) :: r) =
  (if negb (Nat.eqb a 0) && negb (Nat.eqb b (length L)) then [sub L a b] else []) ++ sf L r.
Proof. unfold sf. cbn [filter fst snd]. destruct (negb (Nat.eqb a 0) && negb (Nat.eqb b (length L))); reflexivity. Qed.

Lemma scan_gaps : forall (s pre : list A),
  let L := pre ++ s in
  let p := length pre in
  (sf L (nat_spans (ws_scan is_space (map ch s) (Z.of_nat p) None)) =
     gaps_go spc s (negb (Nat.eqb p 0)) []) /\
  (forall a, a < p ->
     sf L (nat_spans (ws_scan is_space (map ch s) (Z.of_nat p) (Some (Z.of_nat a)))) =
     gaps_go spc s (negb (Nat.eqb a 0)) (rev (sub L a p))).
Proof.
  induction s as [|c r IH]; intros pre L p.
  - subst L p. rewrite app_nil_r. split; [reflexivity|].
    intros a Ha. cbn [map ws_scan gaps_go]. rewrite nat_spans_cons. unfold sf. cbn [nat_spans map filter fst snd].
    rewrite !Nat2Z.id, Nat.eqb_refl, andb_false_r. reflexivity.
  - assert (EL : L = (pre ++ [c]) ++ r) by (subst L; now rewrite <- app_assoc).
    assert (EP : length (pre ++ [c]) = S p) by (rewrite app_length; cbn; lia).
    assert (EZ : (Z.of_nat p + 1)%Z = Z.of_nat (S p)) by lia.
    assert (LL : length L = S p + length r) by (subst L p; rewrite app_length; cbn; lia).
    destruct (IH (pre ++ [c])) as [IHN IHS]. rewrite <- EL, EP in IHN, IHS. clear IH.
    split.
    + cbn [map ws_scan gaps_go]. fold (spc c). destruct (spc c) eqn:E.
      * rewrite EZ, (IHS p) by lia. f_equal. subst L p. now rewrite sub_one.
      * rewrite EZ, IHN. reflexivity.
    + intros a Ha. cbn [map ws_scan gaps_go]. fold (spc c). destruct (spc c) eqn:E.
      * rewrite EZ, (IHS a) by lia. f_equal.
        subst L p. rewrite sub_snoc by lia. rewrite rev_app_distr. reflexivity.
      * rewrite nat_spans_cons, sf_cons. rewrite !Nat2Z.id.
        replace (Nat.eqb p (length L)) with false by (symmetry; apply Nat.eqb_neq; lia).
        rewrite andb_true_r. rewrite EZ, IHN. cbn [Nat.eqb negb].
        destruct (rev (sub L a p)) as [|x xs] eqn:ER.
        -- apply (f_equal (@rev A)) in ER. rewrite rev_involutive in ER. cbn in ER.
           apply sub_nil_iff in ER; lia.
        -- rewrite <- ER, rev_involutive. destruct (negb (Nat.eqb a 0)); reflexivity.
Qed.

Lemma ws_scan_nonneg : forall (s : str) pos cur, (0 <= pos)%Z ->
  match cur with Some a => (0 <= a)%Z | None => True end ->
  nonneg_spans (ws_scan is_space s pos cur).
Proof.
  induction s as [|c r IH]; intros pos cur Hp Hc; cbn [ws_scan].
  - destruct cur; repeat constructor; cbn; lia.
  - destruct (is_space c).
    + apply IH; [lia|]. destruct cur; lia.
    + destruct cur; [constructor; [cbn; lia|]|]; apply IH; (lia || exact I).
Qed.

(* the model's two comprehensions, on any list that has the text's characters *)
Lemma zwords (L : list A) : forall ms start, (0 <= start)%Z -> nonneg_spans ms ->
  zslices L (filter (fun '(a, b) => negb (a =? b)%Z)
                    (combine (start :: map snd ms) (map fst ms ++ [Z.of_nat (length L)]))) =
  wf L (Z.to_nat start) (nat_spans ms).
Proof.
  induction ms as [|[a b] ms IH]; intros start Hs Hn.
  - cbn [map app combine filter nat_spans wf].
    destruct (Z.eqb_spec start (Z.of_nat (length L))) as [E|E]; cbn [negb].
    + replace (Nat.eqb (Z.to_nat start) (length L)) with true by (symmetry; apply Nat.eqb_eq; lia). reflexivity.
    + replace (Nat.eqb (Z.to_nat start) (length L)) with false by (symmetry; apply Nat.eqb_neq; lia).
      cbn [zslices map fst snd]. rewrite sub_as_pyslice by lia. now rewrite Nat2Z.id.
  - inversion Hn as [|? ? [Ha Hb] Hn']; subst. cbn [fst snd] in *.
    rewrite nat_spans_cons. cbn [map app combine filter wf fst snd].
    specialize (IH b Hb Hn'). cbn [map] in IH.
    destruct (Z.eqb_spec start a) as [E|E]; cbn [negb].
    + replace (Nat.eqb (Z.to_nat start) (Z.to_nat a)) with true by (symmetry; apply Nat.eqb_eq; lia).
      exact IH.
    + replace (Nat.eqb (Z.to_nat start) (Z.to_nat a)) with false by (symmetry; apply Nat.eqb_neq; lia).
      cbn [zslices map fst snd app]. rewrite sub_as_pyslice by lia. f_equal. exact IH.
Qed.

Lemma zspaces (L : list A) : forall ms, nonneg_spans ms ->
  zslices L (filter (fun '(a, b) => negb (a =? 0)%Z && negb (b =? Z.of_nat (length L))%Z) ms) =
  sf L (nat_spans ms).
Proof.
  induction ms as [|[a b] ms IH]; intros Hn; [reflexivity|].
  inversion Hn as [|? ? [Ha Hb] Hn']; subst. cbn [fst snd] in *.
  rewrite nat_spans_cons, sf_cons. cbn [filter].
  replace (Nat.eqb (Z.to_nat a) 0) with (a =? 0)%Z
    by (destruct (Z.eqb_spec a 0); symmetry; [apply Nat.eqb_eq|apply Nat.eqb_neq]; lia).
  replace (Nat.eqb (Z.to_nat b) (length L)) with (b =? Z.of_nat (length L))%Z
    by (destruct (Z.eqb_spec b (Z.of_nat (length L))); symmetry; [apply Nat.eqb_eq|apply Nat.eqb_neq]; lia).
  destruct (negb (a =? 0)%Z && negb (b =? Z.of_nat (length L))%Z).
  - cbn [zslices map fst snd app]. rewrite sub_as_pyslice by lia. f_equal. apply (IH Hn').
  - apply (IH Hn').
Qed.
End Scanner.

(* ====================================================================== *)
(* C. word_to_lines, the first-fit loop, linesplit                           *)
Lemma slice_of_ne f a b : slice_of f a b <> [].
Proof.
  unfold slice_of, getitem_slice, getitem. rewrite normalize_slice_slice. cbn [bind].
  destruct (getitem_loop (norm_start (len f) a) (norm_stop (len f) b) 0 f []); discriminate.
Qed.

Lemma sl_ok f a b : sl f a b = Ok (slice_of f (Some a) (Some b)).
Proof. apply getitem_slice_ok. Qed.

Section ChopSeq.
Context {A : Type}.
Lemma sub_skipn_shift (W : list A) n a b : sub (skipn n W) a b = sub W (n + a) (n + b).
Proof. unfold sub. rewrite skipn_skipn. f_equal. lia. Qed.

Lemma chop_seq n : 1 <= n -> forall k fuel (W : list A),
  n * k < length W -> length W <= n * S k -> k <= fuel ->
  chop_fuel fuel n W = map (fun i => sub W (n * i) (n * (i + 1))) (seq 0 (S k)).
Proof.
  intros Hn. induction k as [|k IH]; intros fuel W H1 H2 H3.
  - assert (E : chop_fuel fuel n W = [W]).
    { destruct fuel; [reflexivity|]. cbn [chop_fuel].
      replace (Nat.leb (length W) n) with true by (symmetry; apply Nat.leb_le; lia). reflexivity. }
    rewrite E. cbn [seq map]. f_equal. unfold sub. rewrite Nat.mul_0_r. cbn [skipn].
    symmetry. apply firstn_all2. lia.
  - destruct fuel as [|fuel]; [lia|]. cbn [chop_fuel].
    replace (Nat.leb (length W) n) with false by (symmetry; apply Nat.leb_gt; lia).
    rewrite (IH fuel (skipn n W)); try (rewrite skipn_length); try lia.
    change (seq 0 (S (S k))) with (0 :: seq 1 (S k)). rewrite <- seq_shift, map_cons, map_map.
    f_equal.
    + unfold sub. rewrite Nat.mul_0_r. cbn [skipn]. f_equal. lia.
    + apply map_ext. intros i. rewrite sub_skipn_shift. f_equal; lia.
Qed.
End ChopSeq.

Lemma word_to_lines_chop columns word : (1 <= columns)%Z -> cells word <> [] ->
  exists ps, word_to_lines columns word = Ok ps /\
             map cells ps = chop (Z.to_nat columns) (cells word).
Proof.
  intros Hc Hw. unfold word_to_lines.
  replace (columns =? 0)%Z with false by lia.
  rewrite (map_res_ok _ (fun i => slice_of word (Some (columns * i)%Z) (Some (columns * (i + 1))%Z)))
    by (intros i _; apply sl_ok).
  eexists. split; [reflexivity|].
  set (W := cells word) in *. set (n := Z.to_nat columns).
  assert (HL : len word = Z.of_nat (length W)) by apply len_cells.
  assert (Hpos : 1 <= length W) by (destruct W; [congruence|cbn; lia]).
  set (q := ((len word - 1) / columns)%Z).
  assert (Hq : (columns * q <= len word - 1 < columns * q + columns)%Z).
  { pose proof (Z.div_mod (len word - 1) columns ltac:(lia)) as DM.
    pose proof (Z.mod_pos_bound (len word - 1) columns ltac:(lia)) as MB. subst q. lia. }
  assert (Hq0 : (0 <= q)%Z) by (subst q; apply Z.div_pos; lia).
  unfold zrange. replace (Z.to_nat (q + 1)) with (S (Z.to_nat q)) by lia.
  unfold chop. rewrite (chop_seq n ltac:(lia) (Z.to_nat q)).
  - rewrite !map_map. apply map_ext. intros i. rewrite slice_of_cells. fold W.
    rewrite sub_as_pyslice by lia. f_equal; subst n; lia.
  - subst n. nia.
  - subst n. nia.
  - subst n. nia.
Qed.

Definition meet_joiner (gap : list cell) : cell := (32%N, meet_sgr (map snd gap)).

Lemma map_cells_snoc (more : list fmtstr) (X : list (list cell)) : map cells more = X -> X <> [] ->
  exists minit mlast, more = minit ++ [mlast] /\ map cells minit = removelast X /\ cells mlast = last X [].
Proof.
  intros E NE. destruct (rev_cons_case more) as [->|(minit & mlast & ->)].
  - cbn in E. congruence.
  - exists minit, mlast. split; [reflexivity|]. rewrite <- E, map_app. cbn [map].
    now rewrite removelast_last, last_last.
Qed.

Lemma loop_wrap columns : (1 <= columns)%Z -> forall pairs init l,
  Forall (fun ws => cells (fst ws) <> [] /\ cells (snd ws) <> []) pairs ->
  exists out, loop columns (init ++ [l]) pairs = Ok out /\
    map cells out = map cells init ++
      wrap_go (Z.to_nat columns) (cells l)
              (map (fun ws => (meet_joiner (cells (snd ws)), cells (fst ws))) pairs).
Proof.
  intros Hc. induction pairs as [|[word space] r IH]; intros init l F.
  - exists (init ++ [l]). split; [reflexivity|]. cbn [map wrap_go]. now rewrite map_app.
  - inversion F as [|? ? [Hw Hs] Fr]; subst. cbn [fst snd] in Hw, Hs.
    cbn [loop step map fst snd wrap_go]. rewrite last_item_snoc. cbn [bind].
    rewrite !len_cells.
    destruct (Z.of_nat (length (cells l)) + Z.of_nat (length (cells word)) <? columns)%Z eqn:E.
    + replace (Nat.leb (length (cells l) + 1 + length (cells word)) (Z.to_nat columns)) with true
        by (symmetry; apply Nat.leb_le; lia).
      destruct (shared_atts_meet space Hs) as (sh & S1 & S2). rewrite S1. cbn [bind].
      rewrite removelast_last.
      destruct (IH init (add (add l (OFmt (fmtstr_with [space_char] sh))) (OFmt word)) Fr) as (out & O1 & O2).
      exists out. split; [exact O1|]. rewrite O2. f_equal. f_equal.
      rewrite !add_cells. cbn [op_cells]. rewrite fmtstr_with_cells. cbn [map].
      rewrite <- app_assoc. cbn [app]. unfold meet_joiner, space_char. now rewrite S2.
    + replace (Nat.leb (length (cells l) + 1 + length (cells word)) (Z.to_nat columns)) with false
        by (symmetry; apply Nat.leb_gt; lia).
      destruct (word_to_lines_chop columns word Hc Hw) as (more & M1 & M2). rewrite M1. cbn [bind].
      destruct (map_cells_snoc more _ M2 (chop_fuel_nonempty _ _ _)) as (minit & mlast & -> & M3 & M4).
      destruct (IH (init ++ [l] ++ minit) mlast Fr) as (out & O1 & O2).
      exists out. split.
      * rewrite <- O1. f_equal. now rewrite <- !app_assoc.
      * rewrite O2, !map_app. cbn [map]. rewrite M3, M4. rewrite <- !app_assoc. reflexivity.
Qed.

Lemma combine_map2 {X Y X' Y'} (g : X -> X') (h : Y -> Y') (a : list X) (b : list Y) :
  combine (map g a) (map h b) = map (fun p => (g (fst p), h (snd p))) (combine a b).
Proof.
  revert b. induction a as [|x a IH]; intros [|y b]; cbn; try reflexivity. now rewrite IH.
Qed.

Lemma combine_map2_swap {X Y X' Y'} (g : X -> X') (h : Y -> Y') (a : list X) (b : list Y) :
  combine (map h b) (map g a) = map (fun p => (h (snd p), g (fst p))) (combine a b).
Proof.
  revert b. induction a as [|x a IH]; intros [|y b]; cbn; try reflexivity. now rewrite IH.
Qed.

(* ---- the formatting of the joining space: what all cells of the gap share ---- *)
Lemma all_color_uniform (get : sgr -> option color) (l : list sgr) s0 :
  l <> [] -> (forall s, In s l -> s = s0) -> all_color get l = get s0.
Proof.
  intros NE H. destruct l as [|s r]; [congruence|]. cbn [all_color].
  rewrite (H s) by now left. destruct (get s0) as [c|] eqn:E; [|reflexivity].
  replace (forallb (fun t => opt_eqb color_eqb (get t) (Some c)) r) with true; [reflexivity|].
  symmetry. apply forallb_forall. intros t Ht. rewrite (H t) by now right. rewrite E. cbn.
  apply color_eqb_refl.
Qed.

Lemma forallb_uniform (get : sgr -> bool) (l : list sgr) s0 :
  l <> [] -> (forall s, In s l -> s = s0) -> forallb get l = get s0.
Proof.
  intros NE H. destruct (get s0) eqn:E.
  - apply forallb_forall. intros t Ht. now rewrite (H t Ht).
  - destruct l as [|s r]; [congruence|]. cbn [forallb]. rewrite (H s) by now left. now rewrite E.
Qed.

(* a uniformly formatted gap: the joining space has exactly that formatting *)
Theorem meet_sgr_uniform (l : list sgr) s0 : l <> [] -> (forall s, In s l -> s = s0) -> meet_sgr l = s0.
Proof.
  intros NE H. unfold meet_sgr.
  rewrite !(all_color_uniform _ l s0 NE H), !(forallb_uniform _ l s0 NE H). now destruct s0.
Qed.

Lemma all_color_le (get : sgr -> option color) (l : list sgr) s :
  In s l -> color_le (all_color get l) (get s) = true.
Proof.
  intros Hin. destruct l as [|s1 r]; [destruct Hin|]. cbn [all_color].
  destruct (get s1) as [c|] eqn:E; [|reflexivity].
  destruct (forallb (fun t => opt_eqb color_eqb (get t) (Some c)) r) eqn:F; [|reflexivity].
  cbn [color_le]. destruct Hin as [<-|Hin].
  - rewrite E. cbn. apply color_eqb_refl.
  - rewrite forallb_forall in F. now apply F.
Qed.

Lemma forallb_le (get : sgr -> bool) (l : list sgr) s : In s l -> implb (forallb get l) (get s) = true.
Proof.
  intros Hin. destruct (forallb get l) eqn:F; [|reflexivity]. cbn.
  rewrite forallb_forall in F. now apply F.
Qed.

(* in general: the joining space shows nothing that some cell of the gap does not show *)
Theorem meet_sgr_le (l : list sgr) s : In s l -> sgr_le (meet_sgr l) s = true.
Proof.
  intros Hin. unfold sgr_le, meet_sgr.
  cbn [s_fg s_bg s_bold s_dark s_italic s_underline s_blink s_invert].
  rewrite !(all_color_le _ l s Hin), !(forallb_le _ l s Hin). reflexivity.
Qed.

Theorem meet_joiner_uniform (gap : list cell) st : gap <> [] -> (forall c, In c gap -> snd c = st) ->
  meet_joiner gap = (32%N, st).
Proof.
  intros NE H. unfold meet_joiner. f_equal. apply meet_sgr_uniform.
  - destruct gap; [congruence|discriminate].
  - intros s Hs. apply in_map_iff in Hs. destruct Hs as (c & <- & Hc). now apply H.
Qed.

Theorem meet_joiner_le (gap : list cell) c : In c gap ->
  fst (meet_joiner gap) = 32%N /\ sgr_le (snd (meet_joiner gap)) (snd c) = true.
Proof. intros H. split; [reflexivity|]. apply meet_sgr_le. now apply in_map. Qed.

(* ---- blocks and inner_gaps cut the list up: leading spaces, word, gap, word, ..., trailing spaces ---- *)
Section Partition.
Context {A : Type}.
Variable sp : A -> bool.
Definition all_sp (l : list A) : Prop := forall x, In x l -> sp x = true.

(* g0 ++ w0 ++ g1 ++ w1 ++ ... *)
Fixpoint weave2 (gaps words : list (list A)) : list A :=
  match gaps, words with
  | g :: gs, w :: ws => g ++ w ++ weave2 gs ws
  | _, _ => []
  end.

Lemma interleave_weave2 : forall (B G : list (list A)) p, length B = length G ->
  interleave (p :: B) G = p ++ weave2 G B.
Proof.
  induction B as [|b B IH]; intros [|g G] p L; cbn in L; try discriminate.
  - cbn. now rewrite app_nil_r.
  - change (interleave (p :: b :: B) (g :: G)) with (p ++ g ++ interleave (b :: B) G).
    rewrite IH by (injection L; auto). reflexivity.
Qed.

Lemma all_sp_rev_cons x cur : sp x = true -> all_sp cur -> all_sp (x :: cur).
Proof. intros E H y [<-|Hy]; [exact E|now apply H]. Qed.

Lemma partition_go : forall (l : list A),
  (forall bc, bc <> [] -> exists trail, all_sp trail /\
      rev bc ++ l = interleave (blocks_go sp l bc) (gaps_go sp l true []) ++ trail) /\
  (forall gc, gc <> [] -> all_sp gc -> exists trail, all_sp trail /\
      rev gc ++ l = weave2 (gaps_go sp l true gc) (blocks_go sp l []) ++ trail) /\
  (forall gc, all_sp gc -> exists lead trail, all_sp lead /\ all_sp trail /\
      rev gc ++ l = lead ++ interleave (blocks_go sp l []) (gaps_go sp l false gc) ++ trail).
Proof.
  induction l as [|x r (IH1 & IH2 & IH3)]; cbn [blocks_go gaps_go].
  - repeat split.
    + intros bc H. exists []. split; [intros ? []|]. destruct bc as [|b bc]; [congruence|]. reflexivity.
    + intros gc H S. exists (rev gc). split; [|now rewrite app_nil_r].
      intros y Hy. apply S. now apply in_rev.
    + intros gc S. exists (rev gc), []. split; [|split; [intros ? []|now rewrite !app_nil_r]].
      intros y Hy. apply S. now apply in_rev.
  - destruct (gaps_count sp r) as (C1 & C2 & C3).
    destruct (sp x) eqn:E.
    + repeat split.
      * intros bc H. destruct bc as [|b bc]; [congruence|].
        destruct (IH2 [x] ltac:(discriminate)) as (trail & T1 & T2).
        { intros y [<-|[]]. exact E. }
        exists trail. split; [exact T1|].
        rewrite interleave_weave2 by (apply C2; discriminate).
        rewrite <- app_assoc, <- T2. reflexivity.
      * intros gc H S. destruct (IH2 (x :: gc) ltac:(discriminate)) as (trail & T1 & T2).
        { now apply all_sp_rev_cons. }
        exists trail. split; [exact T1|]. rewrite <- T2. cbn [rev]. now rewrite <- app_assoc.
      * intros gc S. destruct (IH3 (x :: gc)) as (lead & trail & T0 & T1 & T2).
        { now apply all_sp_rev_cons. }
        exists lead, trail. split; [exact T0|split; [exact T1|]]. rewrite <- T2. cbn [rev]. now rewrite <- app_assoc.
    + repeat split.
      * intros bc H. destruct (IH1 (x :: bc) ltac:(discriminate)) as (trail & T1 & T2).
        exists trail. split; [exact T1|]. rewrite <- T2. cbn [rev]. now rewrite <- app_assoc.
      * intros gc H S. destruct gc as [|g gc]; [congruence|].
        destruct (IH1 [x] ltac:(discriminate)) as (trail & T1 & T2). cbn [rev app] in T2.
        exists trail. split; [exact T1|].
        pose proof (C1 [x] ltac:(discriminate)) as L1.
        destruct (blocks_go sp r [x]) as [|w ws] eqn:EB; [discriminate|].
        cbn [weave2]. rewrite <- interleave_weave2 by (cbn in L1; lia).
        rewrite <- !app_assoc. f_equal. rewrite <- T2. reflexivity.
      * intros gc S.
        destruct (IH1 [x] ltac:(discriminate)) as (trail & T1 & T2). cbn [rev app] in T2.
        exists (rev gc), trail. split; [|split; [exact T1|]].
        -- intros y Hy. apply S. now apply in_rev.
        -- f_equal. rewrite T2. destruct gc; reflexivity.
Qed.

(* the list is: leading spaces, then words and inner gaps alternating, then trailing spaces *)
Theorem blocks_gaps_partition (l : list A) : exists lead trail, all_sp lead /\ all_sp trail /\
  l = lead ++ interleave (blocks sp l) (inner_gaps sp l) ++ trail.
Proof.
  destruct (partition_go l) as (_ & _ & P). destruct (P [] ltac:(intros ? [])) as (lead & trail & H).
  exists lead, trail. exact H.
Qed.
End Partition.

Section Main.
Variable is_space : char -> bool.
Definition cell_space (cl : cell) : bool := is_space (fst cl).

Lemma linesplit_words_spaces (string : fmtstr) :
  let L := cells string in
  let n := Z.of_nat (length (text string)) in
  let matches := ws_spans is_space (text string) in
  exists spaces words,
    map_res (fun '(a, b) => sl string a b)
            (filter (fun '(a, b) => negb (a =? 0)%Z && negb (b =? n)%Z) matches) = Ok spaces /\
    map_res (fun '(a, b) => sl string a b)
            (filter (fun '(a, b) => negb (a =? b)%Z) (cut_points matches n)) = Ok words /\
    map cells spaces = inner_gaps cell_space L /\
    map cells words = blocks cell_space L.
Proof.
  intros L n matches.
  assert (NN : nonneg_spans matches) by (apply ws_scan_nonneg; [lia|exact I]).
  assert (EN : n = Z.of_nat (length L)) by (subst n L; now rewrite cells_length_text).
  assert (ET : text string = map fst L) by apply text_cells.
  eexists. eexists. split; [|split; [|split]].
  - apply (map_res_ok _ (fun p => slice_of string (Some (fst p)) (Some (snd p)))).
    intros [a b] _. apply sl_ok.
  - apply (map_res_ok _ (fun p => slice_of string (Some (fst p)) (Some (snd p)))).
    intros [a b] _. apply sl_ok.
  - rewrite map_map.
    transitivity (zslices L (filter (fun '(a, b) => negb (a =? 0)%Z && negb (b =? n)%Z) matches)).
    { unfold zslices. apply map_ext. intros [a b]. apply slice_of_cells. }
    rewrite EN, zspaces by exact NN.
    subst matches. unfold ws_spans. rewrite ET.
    destruct (scan_gaps is_space fst L []) as [G _]. cbn [app length] in G. exact G.
  - rewrite map_map.
    transitivity (zslices L (filter (fun '(a, b) => negb (a =? b)%Z) (cut_points matches n))).
    { unfold zslices. apply map_ext. intros [a b]. apply slice_of_cells. }
    unfold cut_points. rewrite EN, zwords by (lia || exact NN).
    subst matches. unfold ws_spans. rewrite ET.
    destruct (scan_blocks is_space fst L []) as [B _]. cbn [app length] in B.
    specialize (B 0 (le_n 0)). rewrite sub_empty in B by lia. exact B.
Qed.

(* linesplit(string, columns) for columns >= 1: the greedy wrap of the words of the
   per-character list, the joining space formatted with what the whole gap shares *)
Theorem linesplit_greedy inp columns : (1 <= columns)%Z ->
  let L := op_cells inp in
  exists lines, linesplit is_space inp columns = Ok lines /\
    map cells lines =
    greedy_wrap (Z.to_nat columns) meet_joiner (blocks cell_space L) (inner_gaps cell_space L).
Proof.
  intros Hc L. unfold linesplit.
  destruct (linesplit_words_spaces (to_fs inp)) as (spaces & words & E1 & E2 & E3 & E4).
  rewrite cells_to_fs in E3, E4. fold L in E3, E4.
  rewrite E1. cbn [bind]. rewrite E2. cbn [bind].
  destruct (blocks_ok cell_space L) as [BW _].
  pose proof (gaps_go_spaces cell_space L false [] ltac:(intros ? [])) as GS.
  fold (inner_gaps cell_space L) in GS.
  rewrite <- E3 in GS. rewrite <- E4 in BW. rewrite <- E3, <- E4. clear E1 E2 E3 E4.
  destruct words as [|w0 ws].
  - exists []. split; reflexivity.
  - inversion BW as [|? ? [Hw0 _] BWs]; subst.
    destruct (word_to_lines_chop columns w0 Hc Hw0) as (ps & P1 & P2). rewrite P1. cbn [bind].
    destruct (map_cells_snoc ps _ P2 (chop_fuel_nonempty _ _ _)) as (pinit & plast & -> & P3 & P4).
    destruct (loop_wrap columns Hc (combine ws spaces) pinit plast) as (out & O1 & O2).
    { apply Forall_forall. intros [w s] Hin. cbn [fst snd]. split.
      - apply in_combine_l in Hin. rewrite Forall_forall in BWs.
        apply (BWs (cells w)). now apply in_map.
      - apply in_combine_r in Hin. rewrite Forall_forall in GS.
        apply (GS (cells s)). now apply in_map. }
    exists out. split; [exact O1|]. rewrite O2.
    unfold greedy_wrap, wrap_items. cbn [map]. rewrite P3, P4. f_equal. f_equal.
    rewrite map_map, combine_map2_swap. apply map_ext. intros [w s]. reflexivity.
Qed.

(* ---- consequences, each stated on its own ---- *)
Definition cell_nsp (cl : cell) : bool := negb (cell_space cl).

Lemma cell_space_spf : forall cl, cell_space cl = spf fst is_space cl.
Proof. reflexivity. Qed.

Lemma cell_blocks_ok inp : Forall (word_ok cell_space) (blocks cell_space (op_cells inp)).
Proof. apply blocks_ok. Qed.

(* (f)+(a): no exception; every line has between 1 and [columns] cells and neither
   begins nor ends with a whitespace character *)
Theorem linesplit_lines_ok inp columns : (1 <= columns)%Z ->
  exists lines, linesplit is_space inp columns = Ok lines /\
    Forall (line_ok cell_space (Z.to_nat columns)) (map cells lines).
Proof.
  intros Hc. destruct (linesplit_greedy inp columns Hc) as (lines & E & G).
  exists lines. split; [exact E|]. rewrite G. unfold greedy_wrap.
  apply wrap_items_lines_ok; [lia|apply cell_blocks_ok].
Qed.

(* the same in the code's own terms: 1 <= len(line) <= columns *)
Theorem linesplit_len_le inp columns : (1 <= columns)%Z ->
  exists lines, linesplit is_space inp columns = Ok lines /\
    Forall (fun ln => (1 <= len ln <= columns)%Z) lines.
Proof.
  intros Hc. destruct (linesplit_lines_ok inp columns Hc) as (lines & E & F).
  exists lines. split; [exact E|]. rewrite Forall_map in F.
  eapply Forall_impl; [|exact F]. cbn. intros ln (L & x & y & H1 & _).
  rewrite len_cells. destruct (cells ln); [discriminate|]. cbn [length] in *. lia.
Qed.

(* (b): on the text alone the lines are the greedy first-fit wrap of the maximal
   non-whitespace blocks, joined by U+0020 *)
Theorem linesplit_text_greedy inp columns : (1 <= columns)%Z ->
  exists lines, linesplit is_space inp columns = Ok lines /\
    map text lines =
    greedy_wrap (Z.to_nat columns) (fun _ => 32%N)
                (blocks is_space (op_text inp)) (inner_gaps is_space (op_text inp)).
Proof.
  intros Hc. destruct (linesplit_greedy inp columns Hc) as (lines & E & G).
  exists lines. split; [exact E|].
  rewrite (map_ext text (fun f => map fst (cells f))) by apply text_cells.
  rewrite <- (map_map cells (map fst)), G.
  rewrite (greedy_wrap_map fst _ meet_joiner (fun _ => 32%N)) by reflexivity.
  rewrite op_text_cells, blocks_map, inner_gaps_map. reflexivity.
Qed.

(* (c): the non-whitespace cells of all lines, concatenated, are the non-whitespace
   cells of the input, in order, each with its formatting (is_space 32: the joining
   spaces are whitespace) *)
Theorem linesplit_conserves inp columns : (1 <= columns)%Z -> is_space 32%N = true ->
  exists lines, linesplit is_space inp columns = Ok lines /\
    filter cell_nsp (concat (map cells lines)) = filter cell_nsp (op_cells inp).
Proof.
  intros Hc H32. destruct (linesplit_greedy inp columns Hc) as (lines & E & G).
  exists lines. split; [exact E|]. rewrite G. unfold greedy_wrap.
  change cell_nsp with (nsp cell_space).
  rewrite wrap_items_filter.
  - apply blocks_ok.
  - apply Forall_forall. intros j Hj. apply in_map_iff in Hj. destruct Hj as (g & <- & _). exact H32.
  - apply cell_blocks_ok.
  - rewrite map_length, gaps_blocks_length. lia.
Qed.

Lemma filter_nsp_nil (l : list cell) :
  (forall c, In c (map fst l) -> is_space c = true) -> filter (nsp cell_space) l = [].
Proof.
  induction l as [|cl l IH]; intros H; [reflexivity|].
  cbn [filter]. unfold nsp at 1, cell_space at 1. rewrite (H (fst cl)) by now left. cbn [negb].
  apply IH. intros c Hc. apply H. now right.
Qed.

(* (e): a text without any word gives no line -- for every [columns], even 0 or negative *)
Theorem linesplit_no_words inp columns :
  (forall c, In c (op_text inp) -> is_space c = true) ->
  linesplit is_space inp columns = Ok [].
Proof.
  intros H. unfold linesplit.
  destruct (linesplit_words_spaces (to_fs inp)) as (spaces & words & E1 & E2 & E3 & E4).
  rewrite cells_to_fs in E4. rewrite E1. cbn [bind]. rewrite E2. cbn [bind].
  destruct (blocks_ok cell_space (op_cells inp)) as [BW BC].
  assert (F : filter (nsp cell_space) (op_cells inp) = []).
  { apply filter_nsp_nil. now rewrite <- op_text_cells. }
  rewrite F in BC. destruct words as [|w0 ws]; [reflexivity|].
  rewrite <- E4 in BW, BC. cbn [map concat] in BW, BC. inversion BW as [|? ? [NE _] _]; subst.
  destruct (cells w0); [congruence|discriminate].
Qed.

(* ... and only then (columns >= 1) *)
Lemma wrap_go_nonempty {A} n (rest : list (A * list A)) cur : wrap_go n cur rest <> [].
Proof.
  revert cur. induction rest as [|[j w] r IH]; intros cur; cbn [wrap_go]; [discriminate|].
  destruct (Nat.leb (length cur + 1 + length w) n); [apply IH|discriminate].
Qed.

Theorem linesplit_empty_iff inp columns : (1 <= columns)%Z ->
  exists lines, linesplit is_space inp columns = Ok lines /\
    (lines = [] <-> forall c, In c (op_text inp) -> is_space c = true).
Proof.
  intros Hc. destruct (linesplit_greedy inp columns Hc) as (lines & E & G).
  exists lines. split; [exact E|]. split.
  - intros ->. cbn [map] in G. unfold greedy_wrap, wrap_items in G.
    destruct (blocks cell_space (op_cells inp)) as [|w ws] eqn:EB.
    + destruct (blocks_ok cell_space (op_cells inp)) as [_ BC]. rewrite EB in BC. cbn [concat] in BC.
      rewrite op_text_cells. intros c Hc'. apply in_map_iff in Hc'. destruct Hc' as (cl & <- & Hcl).
      destruct (is_space (fst cl)) eqn:Es; [reflexivity|].
      assert (Hin : In cl (filter (nsp cell_space) (op_cells inp))).
      { apply filter_In. split; [exact Hcl|]. unfold nsp, cell_space. now rewrite Es. }
      rewrite <- BC in Hin. destruct Hin.
    + symmetry in G. apply app_eq_nil in G. destruct G as [_ G]. now apply wrap_go_nonempty in G.
  - intros H. rewrite (linesplit_no_words inp columns H) in E. now injection E as <-.
Qed.

(* (d): the gaps handed to the joiner are non-empty blocks of whitespace cells, one
   between each two consecutive words (blocks_gaps_partition says where they lie);
   meet_joiner_uniform / meet_joiner_le say what the joining space then looks like *)
Theorem linesplit_gaps inp :
  let L := op_cells inp in
  Forall (fun g => g <> [] /\ forall c, In c g -> cell_space c = true) (inner_gaps cell_space L) /\
  length (inner_gaps cell_space L) = pred (length (blocks cell_space L)) /\
  exists lead trail, all_sp cell_space lead /\ all_sp cell_space trail /\
    L = lead ++ interleave (blocks cell_space L) (inner_gaps cell_space L) ++ trail.
Proof.
  intros L. split; [|split].
  - apply gaps_go_spaces. intros ? [].
  - apply gaps_blocks_length.
  - apply blocks_gaps_partition.
Qed.
End Main.
