(* The generated syntax trees of the pure helpers (Gen/Pure.v, dumped from the Python AST of
   /repo on every run) compute, under the reference semantics Spec/PyMini.v, exactly what
   the hand-written models compute -- for ALL arguments.
   (The key-decoding cascade get_key / _key_name / decodable / could_be_unfinished_char is in
   Proofs/PureTieKeys.v.)
   The proofs run the interpreter symbolically, one statement at a time (Proofs/PyStep.v);
   they do not mention variable names or the shape of the generated trees. *)
From Coq Require Import String Lia ZifyBool ZifyNat ZifyN.
From Curtsies Require Import Model.Base Spec.ListOps Spec.PyMini Gen.Pure Model.Width Model.Keys Model.Slice Proofs.PyStep.
Local Open Scope Z_scope.

(* case analysis on the integer comparisons the evaluation is stuck on *)
Ltac split_ifs :=
  repeat match goal with
         | |- context [(?a <? ?b)%Z] => let E := fresh "E" in destruct (a <? b)%Z eqn:E; cbn beta iota
         | |- context [(?a >? ?b)%Z] => let E := fresh "E" in destruct (a >? b)%Z eqn:E; cbn beta iota
         | |- context [(?a <=? ?b)%Z] => let E := fresh "E" in destruct (a <=? b)%Z eqn:E; cbn beta iota
         | |- context [(?a >=? ?b)%Z] => let E := fresh "E" in destruct (a >=? b)%Z eqn:E; cbn beta iota
         | |- context [(?a =? ?b)%Z] => let E := fresh "E" in destruct (a =? b)%Z eqn:E; cbn beta iota
         end.
Ltac zcbv := cbv - [exec exec_block Z.gtb Z.ltb Z.sub Z.max Z.min Z.add Z.geb Z.leb Z.eqb Z.opp].
Ltac zrun := repeat first [ py_unfold1; zcbv | progress split_ifs ].

(* ---- interval_overlap -------------------------------------------------------- *)
Theorem interval_overlap_tie : forall a b x y,
  call py_interval_overlap [VInt a; VInt b; VInt x; VInt y] = Ok (VInt (interval_overlap a b x y)).
Proof.
  intros a b x y. unfold interval_overlap, call.
  zcbv. zrun.
  all: first [ f_equal; f_equal; lia
             | fail 2 "TIE BROKEN: the repository's curtsies.formatstring.interval_overlap no longer computes what the model computes" ].
Qed.

(* ---- normalize_slice ----------------------------------------------------------- *)
Definition ov (o : option Z) : val := match o with None => VNone | Some z => VInt z end.
Definition embed_index (ix : index) : val :=
  match ix with
  | Idx i => VInt i
  | Slice a b st => VSlice (ov a) (ov b) (ov st)
  end.
Definition embed_bounds (r : res (Z * Z)) : res val :=
  match r with
  | Ok (a, b) => Ok (VSlice (VInt a) (VInt b) VNone)
  | Raise e => Raise e
  end.

Theorem normalize_slice_tie : forall length ix,
  call py_normalize_slice [VInt length; embed_index ix] = embed_bounds (normalize_slice length ix).
Proof.
  intros length ix. unfold normalize_slice, call.
  destruct ix as [i | [a|] [b|] [st|]]; zcbv.
  all: zrun.
  all: try reflexivity; try (repeat f_equal; lia); try lia.
  all: first [ solve [repeat (f_equal; try lia)]
             | fail 2 "TIE BROKEN: the repository's curtsies.formatstring.normalize_slice no longer computes what the model computes" ].
Qed.

(* ---- could_be_unfinished_utf8 --------------------------------------------------- *)
Definition embed_bool (r : res bool) : res val :=
  match r with Ok b => Ok (VBool b) | Raise e => Raise e end.

Lemma slice_first : forall (o : N) rest, slice_list (o :: rest) (Some 0) (Some 1) = [o].
Proof.
  intros o rest. unfold slice_list, clip. cbn [List.length].
  replace (0 <? 0) with false by reflexivity. replace (1 <? 0) with false by reflexivity.
  replace (Z.min 0 (Z.of_nat (S (Datatypes.length rest)))) with 0 by lia.
  replace (Z.min 1 (Z.of_nat (S (Datatypes.length rest)))) with 1 by lia.
  reflexivity.
Qed.

Lemma land_eqb : forall o k m : N, (Z.land (Z.of_N o) (Z.of_N k) =? Z.of_N m) = (N.land o k =? m)%N.
Proof.
  intros o k m. assert (H0 : Z.land (Z.of_N o) (Z.of_N k) = Z.of_N (N.land o k)) by (destruct o, k; reflexivity).
  rewrite H0.
  destruct (N.eqb_spec (N.land o k) m) as [->|Hne]; [apply Z.eqb_refl|].
  apply Z.eqb_neq. intro H. apply Hne. now apply N2Z.inj.
Qed.

(* the proof script, used with the empty context here and with the context of the events
   module in Proofs/PureTieKeys.v; [ucbv] = evaluation that leaves the evaluator of
   statements, the arithmetic and the context's tables folded *)
Ltac ucbv := cbv - [exec exec_block slice_list Z.land Z.eqb Z.ltb Z.of_N Z.of_nat List.length N.land N.eqb Nat.ltb].
Ltac utf8_tie_proof_with ucbv o rest :=
  unfold could_be_unfinished_utf8;
  ucbv; repeat first [ py_unfold1; ucbv | rewrite slice_first; ucbv ];
  pose proof (land_eqb o 224 192) as H1; pose proof (land_eqb o 240 224) as H2;
  pose proof (land_eqb o 248 240) as H3; pose proof (land_eqb o 252 248) as H4;
  pose proof (land_eqb o 254 252) as H5; cbn [Z.of_N] in H1, H2, H3, H4, H5;
  rewrite ?H1, ?H2, ?H3, ?H4, ?H5; clear H1 H2 H3 H4 H5;
  assert (L : forall k : nat, (Z.of_nat (Datatypes.length (o :: rest)) <? Z.of_nat k) = (Datatypes.length (o :: rest) <? k)%nat)
    by (intro k; lia);
  pose proof (L 2%nat) as L2; pose proof (L 3%nat) as L3; pose proof (L 4%nat) as L4;
  pose proof (L 5%nat) as L5; pose proof (L 6%nat) as L6; cbn [Z.of_nat Pos.of_succ_nat Pos.succ] in L2, L3, L4, L5, L6;
  rewrite ?L2, ?L3, ?L4, ?L5, ?L6; clear L L2 L3 L4 L5 L6;
  destruct (N.land o 224 =? 192)%N, (N.land o 240 =? 224)%N, (N.land o 248 =? 240)%N,
           (N.land o 252 =? 248)%N, (N.land o 254 =? 252)%N;
    cbn [andb orb];
    repeat match goal with
           | |- context [(?a <? ?b)%nat] => destruct (a <? b)%nat; cbn [andb orb]
           end; first [ reflexivity | fail 2 "TIE BROKEN: the repository's curtsies.events.could_be_unfinished_utf8 no longer computes what the model computes" ].

Theorem could_be_unfinished_utf8_tie : forall seq,
  call py_could_be_unfinished_utf8 [VBytes seq] = embed_bool (could_be_unfinished_utf8 seq).
Proof.
  intros [|o rest].
  - reflexivity.
  - unfold call. utf8_tie_proof_with ltac:(ucbv) o rest.
Qed.
