(* C12: proofs about the context-manager model (Model/Ctx.v) against Spec/CtxSpec.v. *)
From Curtsies Require Import Model.Base Spec.Sgr Spec.Term Model.Ctx Spec.CtxSpec.
From Coq Require Import Arith Lia.
Close Scope N_scope.
Local Open Scope nat_scope.

(* ---- induction over programs (nested lists) --------------------------------------- *)
Section ProgInd.
  Variable P : prog -> Prop.
  Hypothesis Hs : forall a, P (Step a).
  Hypothesis Hw : forall m body, Forall P body -> P (With m body).
  Fixpoint prog_ind' (p : prog) : P p :=
    match p with
    | Step a => Hs a
    | With m body =>
        Hw m body ((fix go (l : list prog) : Forall P l :=
                      match l with
                      | [] => Forall_nil P
                      | x :: r => Forall_cons x (prog_ind' x) (go r)
                      end) body)
    end.
End ProgInd.

(* ---- descriptor table --------------------------------------------------------------- *)
Definition keys (t : fdtable) : list nat := map fst t.

Lemma fd_open_In n t : fd_open n t = true <-> In n (keys t).
Proof.
  unfold fd_open, keys. rewrite existsb_exists, in_map_iff. split.
  - intros (p & Hin & He). apply Nat.eqb_eq in He. exists p. split; assumption.
  - intros (p & He & Hin). exists p. split; [assumption|]. apply Nat.eqb_eq. assumption.
Qed.

Lemma lowest_free_spec : forall f c t,
  c <= lowest_free f c t <= c + f /\
  (forall x, c <= x < lowest_free f c t -> In x (keys t)) /\
  (lowest_free f c t < c + f -> ~ In (lowest_free f c t) (keys t)).
Proof.
  induction f as [|f IH]; intros c t; cbn [lowest_free].
  - repeat split; try lia.
  - destruct (fd_open c t) eqn:E.
    + destruct (IH (S c) t) as (Hr & Hall & Hfree). repeat split; try lia.
      * intros x Hx. destruct (Nat.eq_dec x c) as [->|Hne].
        -- apply fd_open_In. assumption.
        -- apply Hall. lia.
      * intros Hlt. apply Hfree. lia.
    + repeat split; try lia. intros _ Hin. apply fd_open_In in Hin. congruence.
Qed.

Lemma alloc_fresh t : ~ In (alloc t) (keys t).
Proof.
  unfold alloc. destruct (lowest_free_spec (length t) 0 t) as (Hr & Hall & Hfree).
  set (r := lowest_free (length t) 0 t) in *.
  destruct (Nat.lt_ge_cases r (0 + length t)) as [Hlt|Hge]; [apply Hfree; assumption|].
  intros Hin.
  assert (Hincl : incl (seq 0 (S (length t))) (keys t)).
  { intros x Hx. apply in_seq in Hx. destruct (Nat.eq_dec x r) as [->|Hne]; [assumption|].
    apply Hall. lia. }
  apply NoDup_incl_length in Hincl; [|apply seq_NoDup].
  rewrite seq_length in Hincl. unfold keys in Hincl. rewrite map_length in Hincl. lia.
Qed.

Lemma close_notin fd t : ~ In fd (keys t) -> close fd t = t.
Proof.
  induction t as [|[k o] t IH]; intros Hn; [reflexivity|].
  cbn in *. destruct (Nat.eqb_spec k fd) as [->|Hne].
  - exfalso. apply Hn. left. reflexivity.
  - cbn. f_equal. apply IH. intros H. apply Hn. right. assumption.
Qed.

Lemma close_app fd a b : close fd (a ++ b) = close fd a ++ close fd b.
Proof. unfold close. apply filter_app. Qed.

Lemma close_head fd o t : close fd ((fd, o) :: t) = close fd t.
Proof. unfold close. cbn. rewrite Nat.eqb_refl. reflexivity. Qed.

Lemma close_other fd k o t : k <> fd -> close fd ((k, o) :: t) = (k, o) :: close fd t.
Proof. intros H. unfold close. cbn. destruct (Nat.eqb_spec k fd); [contradiction|reflexivity]. Qed.

Lemma pipe_spec o t :
  exists r w, pipe o t = ((w, o) :: (r, o) :: t, r, w) /\ ~ In r (keys t) /\ ~ In w (keys t) /\ w <> r.
Proof.
  unfold pipe. exists (alloc t), (alloc ((alloc t, o) :: t)). split; [reflexivity|].
  assert (H1 := alloc_fresh t). assert (H2 := alloc_fresh ((alloc t, o) :: t)). cbn in H2.
  repeat split; try assumption; intros H; apply H2; [right|left]; auto.
Qed.

(* closing both ends of a pipe that sits under later-opened descriptors *)
Lemma close_pipe_under pipes r w o1 o2 t :
  NoDup (keys (pipes ++ (w, o1) :: (r, o2) :: t)) ->
  close w (close r (pipes ++ (w, o1) :: (r, o2) :: t)) = pipes ++ t /\ NoDup (keys (pipes ++ t)).
Proof.
  unfold keys. rewrite !map_app. cbn [map fst]. intros Hnd.
  assert (Hw := NoDup_remove_2 _ _ _ Hnd). assert (Hnd1 := NoDup_remove_1 _ _ _ Hnd).
  assert (Hr := NoDup_remove_2 _ _ _ Hnd1). assert (Hnd2 := NoDup_remove_1 _ _ _ Hnd1).
  rewrite in_app_iff in Hw, Hr. cbn [In] in Hw.
  assert (Hwr : w <> r) by (intros ->; apply Hw; right; left; reflexivity).
  split; [|exact Hnd2].
  rewrite close_app, (close_notin r pipes) by (intros H; apply Hr; left; exact H).
  rewrite close_other by exact Hwr. rewrite close_head.
  rewrite (close_notin r t) by (intros H; apply Hr; right; exact H).
  rewrite close_app, (close_notin w pipes) by (intros H; apply Hw; left; exact H).
  rewrite close_head. rewrite (close_notin w t) by (intros H; apply Hw; right; right; exact H).
  reflexivity.
Qed.

Local Arguments pipe : simpl never.
Local Arguments alloc : simpl never.
Local Arguments close : simpl never.
Local Arguments texecs : simpl never.

(* ---- the invariant and the relation proved for every program ---------------------- *)
Definition core (e : env) := (e_tty e, e_flags e, e_handler e, e_wakeup e).

(* descriptor numbers are distinct; the SIGINT handler is one Python can see *)
Definition wf (e : env) : Prop := NoDup (keys (e_fds e)) /\ e_handler e <> HNone.

Definition post (e e' : env) : Prop :=
  wf e' /\ core e' = core e /\
  exists pipes, e_fds e' = pipes ++ e_fds e /\ Forall trigger_owned pipes.

Lemma post_refl e : wf e -> post e e.
Proof. intros H. split; [assumption|]. split; [reflexivity|]. exists []. split; [reflexivity|constructor]. Qed.

Lemma post_trans a b c : post a b -> post b c -> post a c.
Proof.
  intros (_ & Hc1 & p1 & Hf1 & Ht1) (Hw & Hc2 & p2 & Hf2 & Ht2).
  split; [assumption|]. split; [congruence|].
  exists (p2 ++ p1). split; [rewrite Hf2, Hf1, app_assoc; reflexivity|].
  apply Forall_app. split; assumption.
Qed.

Lemma post_restore e e' : post e e' -> restore_eq e e'.
Proof.
  intros (_ & Hc & Hp). unfold core in Hc. inversion Hc. repeat split; assumption.
Qed.

Lemma wr_post ks e : wf e -> post e (wr ks e).
Proof. intros H. split; [exact H|]. split; [reflexivity|]. exists []. split; [reflexivity|constructor]. Qed.

Lemma wr_if_post b ks e : wf e -> post e (wr_if b ks e).
Proof. destruct b; [apply wr_post|apply post_refl]. Qed.

Lemma do_atom_post a e : wf e -> post e (do_atom a e).
Proof.
  intros [Hnd Hh]. destruct a as [n id sub|ks|obj]; cbn [do_atom].
  - apply post_refl. split; assumption.
  - apply wr_post. split; assumption.
  - destruct (pipe_spec (OTrig obj) (e_fds e)) as (r & w & Hp & Hr & Hw & Hwr). rewrite Hp.
    split; [|split; [reflexivity|]].
    + split; [|exact Hh]. cbn. constructor; [|constructor; assumption].
      intros [H|H]; [congruence|contradiction].
    + exists [(w, OTrig obj); (r, OTrig obj)]. split; [reflexivity|].
      repeat constructor; exists obj; reflexivity.
Qed.

(* a manager whose __enter__ returned: the environment is still well formed, and whatever
   balanced thing happens in between, __exit__ brings everything back *)
Lemma with_post main m e e1 sv :
  enter_mgr main m e = (e1, Some sv) -> wf e ->
  wf e1 /\ forall e2, post e1 e2 -> post e (exit_mgr main m sv e2).
Proof.
  intros He [Hnd Hh].
  destruct m as [c| |attrs| |h|hide|hide|hide keep ok]; cbn [enter_mgr] in He.
  - (* Input *)
    assert (En : is_HNone (e_handler e) = false) by (destruct (e_handler e); try reflexivity; congruence).
    destruct main.
    + destruct (i_sigint_event c) eqn:Es; destruct (i_start_stop c) eqn:Ess; cbn in He.
      all: match type of He with context [pipe ?o ?t] =>
             destruct (pipe_spec o t) as (r & w & Hp & Hr & Hw & Hwr); rewrite Hp in He; clear Hp end.
      all: injection He as <- <-.
      all: cbn in *; rewrite ?Es, ?En; cbn.
      all: split; [split; cbn; [constructor; [intros [H|H]; [congruence|contradiction]|constructor; assumption]
                               |first [assumption|discriminate]]|].
      all: intros e2 ((Hnd2 & Hh2) & Hc & pipes & Hf & Ht); unfold core in Hc; cbn in Hc, Hf; inversion Hc.
      all: rewrite Hf in Hnd2; destruct (close_pipe_under pipes r w _ _ (e_fds e) Hnd2) as (Hcl & Hnd3).
      all: unfold post, wf, core; cbn; rewrite Hf, Hcl.
      all: (split; [split; [assumption|congruence]|split; [congruence|exists pipes; split; [reflexivity|assumption]]]).
    + destruct (i_sigint_event c) eqn:Es; destruct (i_start_stop c) eqn:Ess; cbn in He.
      all: injection He as <- <-.
      all: cbn in *; rewrite ?Es; cbn.
      all: split; [split; assumption|].
      all: intros e2 ((Hnd2 & Hh2) & Hc & pipes & Hf & Ht); unfold core in Hc; cbn in Hc, Hf; inversion Hc.
      all: unfold post, wf, core; cbn.
      all: (split; [split; [assumption|congruence]|split; [congruence|exists pipes; split; assumption]]).
  - (* Cbreak *)
    injection He as <- <-. split; [split; assumption|].
    intros e2 ((Hnd2 & Hh2) & Hc & pipes & Hf & Ht). unfold core in Hc. cbn in *. inversion Hc.
    split; [split; assumption|split; [unfold core; cbn; congruence|exists pipes; split; assumption]].
  - (* Termmode *)
    injection He as <- <-. split; [split; assumption|].
    intros e2 ((Hnd2 & Hh2) & Hc & pipes & Hf & Ht). unfold core in Hc. cbn in *. inversion Hc.
    split; [split; assumption|split; [unfold core; cbn; congruence|exists pipes; split; assumption]].
  - (* Nonblocking *)
    injection He as <- <-. split; [split; assumption|].
    intros e2 ((Hnd2 & Hh2) & Hc & pipes & Hf & Ht). unfold core in Hc. cbn in *. inversion Hc.
    split; [split; assumption|split; [unfold core; cbn; congruence|exists pipes; split; assumption]].
  - (* ReplacedSigIntHandler *)
    destruct (main && negb (is_HNone h)) eqn:E; [|discriminate]. injection He as <- <-.
    apply Bool.andb_true_iff in E. destruct E as [_ E].
    split; [split; [assumption|cbn; intros ->; discriminate]|].
    intros e2 ((Hnd2 & Hh2) & Hc & pipes & Hf & Ht). unfold core in Hc. cbn in *. inversion Hc.
    destruct (is_HNone (e_handler e)) eqn:En; [destruct (e_handler e); cbn in En; congruence|].
    split; [split; assumption|split; [unfold core; cbn; congruence|exists pipes; split; assumption]].
  - (* BaseWindow *)
    injection He as <- <-. split; [destruct hide; split; assumption|].
    intros e2 H2. eapply post_trans; [|apply wr_post; apply H2].
    eapply post_trans; [apply wr_if_post; split; assumption|exact H2].
  - (* FullscreenWindow *)
    injection He as <- <-. split; [destruct hide; split; assumption|].
    intros e2 H2. cbn [exit_mgr].
    assert (H3 : post e e2).
    { eapply post_trans; [|exact H2]. eapply post_trans; [apply (wr_post [AltOn]); split; assumption|].
      apply wr_if_post. split; assumption. }
    eapply post_trans; [exact H3|]. eapply post_trans; [apply (wr_post [AltOff]); apply H3|].
    apply wr_post. apply wr_post. apply H3.
  - (* CursorAwareWindow *)
    destruct ok; [|discriminate]. injection He as <- <-. split; [destruct hide; split; assumption|].
    intros e2 ((Hnd2 & Hh2) & Hc & pipes & Hf & Ht). unfold core in Hc.
    unfold post, wf, core. destruct hide, keep; cbn in *; inversion Hc;
      (split; [split; assumption|split; [congruence|exists pipes; split; assumption]]).
Qed.

(* __enter__ raised: with a well-answered cursor query the only such case is signal.signal
   refusing (ReplacedSigIntHandler off the main thread), before anything was changed *)
Lemma enter_raised main m e e1 :
  enter_mgr main m e = (e1, None) ->
  (match m with MCursorAware _ _ ok => ok | _ => true end) = true -> e1 = e.
Proof.
  intros He Hok. destruct m as [c| |attrs| |h|hide|hide|hide keep ok]; cbn [enter_mgr] in He; try discriminate.
  - destruct main; [destruct (pipe (OWake (i_obj c)) _) as [[t r] w]|]; discriminate.
  - destruct (main && negb (is_HNone h)); [discriminate|]. injection He as <-. reflexivity.
  - subst ok. discriminate.
Qed.

Lemma prun_list_post main d body :
  Forall (fun p => enters_ok p = true -> forall main d b e, wf e -> post e (r_env (prun main d p b e))) body ->
  forallb enters_ok body = true ->
  forall b e, wf e -> post e (r_env (prun_list_with (prun main d) body b e)).
Proof.
  induction 1 as [|p rest Hp _ IH]; intros Hok b e Hwf; cbn [prun_list_with].
  - apply post_refl. assumption.
  - cbn [forallb] in Hok. apply Bool.andb_true_iff in Hok. destruct Hok as [Hok1 Hok2].
    specialize (Hp Hok1 main d b e Hwf).
    destruct (prun main d p b e) as [[e1 o] t1]. cbn [r_env fst] in Hp.
    destruct o as [b1|]; [|exact Hp].
    specialize (IH Hok2 b1 e1 (proj1 Hp)).
    destruct (prun_list_with (prun main d) rest b1 e1) as [[e2 o2] t2]. cbn [r_env fst] in *.
    eapply post_trans; eassumption.
Qed.

(* MAIN STRUCTURAL THEOREM: every program (any nesting of managers around any steps),
   cut by an exception after any number of ticks or not at all, from any well-formed
   environment, on either kind of thread *)
Theorem prun_post : forall p,
  enters_ok p = true -> forall main d b e, wf e -> post e (r_env (prun main d p b e)).
Proof.
  induction p as [a|m body IH] using prog_ind'; intros Hok main d b e Hwf; cbn [prun].
  - destruct (tick b); cbn [r_env fst]; [apply do_atom_post|apply post_refl]; assumption.
  - destruct (tick b) as [b1|]; [|apply post_refl; assumption].
    unfold enters_ok in Hok. cbn [prog_all] in Hok. apply Bool.andb_true_iff in Hok. destruct Hok as [Hm Hb].
    destruct (enter_mgr main m e) as [e1 [sv|]] eqn:He.
    + destruct (with_post main m e e1 sv He Hwf) as [Hwf1 Hex].
      assert (Hl := prun_list_post main (if is_nonblocking m then S d else d) body IH Hb b1 e1 Hwf1).
      destruct (prun_list_with _ body b1 e1) as [[e2 o] t]. cbn [r_env fst] in *.
      apply Hex. exact Hl.
    + cbn [r_env fst]. rewrite (enter_raised main m e e1 He Hm). apply post_refl. assumption.
Qed.

Theorem prun_list_post' main d ps :
  forallb enters_ok ps = true -> forall b e, wf e -> post e (r_env (prun_list main d ps b e)).
Proof.
  intros Hok. apply prun_list_post; [|exact Hok].
  apply Forall_forall. intros p _ Hp. apply prun_post. exact Hp.
Qed.

(* ---- between requests the stream is never left non-blocking -------------------------- *)
Lemma enter_flags main m e e1 x :
  enter_mgr main m e = (e1, x) -> is_nonblocking m = false -> e_flags e1 = e_flags e.
Proof.
  intros He Hm. destruct m as [c| |attrs| |h|hide|hide|hide keep ok]; cbn [enter_mgr] in He; try discriminate.
  - destruct main; destruct (i_sigint_event c); destruct (i_start_stop c); cbn in He;
      try (destruct (pipe (OWake (i_obj c)) (e_fds e)) as [[t r] w]); injection He as <- _; reflexivity.
  - injection He as <- _. reflexivity.
  - injection He as <- _. reflexivity.
  - destruct (main && negb (is_HNone h)); injection He as <- _; reflexivity.
  - injection He as <- _. destruct hide; reflexivity.
  - injection He as <- _. destruct hide; reflexivity.
  - destruct ok; injection He as <- _; destruct hide; reflexivity.
Qed.

Definition trace_ok (d : nat) (e : env) (tr : list entry) : Prop :=
  forall d' l e', In (d', l, e') tr -> d <= d' /\ (d' = d -> e_flags e' = e_flags e).

Lemma prun_list_trace main d body :
  Forall (fun p => enters_ok p = true -> forall main d b e, wf e -> trace_ok d e (r_trace (prun main d p b e))) body ->
  forallb enters_ok body = true ->
  forall b e, wf e -> trace_ok d e (r_trace (prun_list_with (prun main d) body b e)).
Proof.
  induction 1 as [|p rest Hp _ IH]; intros Hok b e Hwf; cbn [prun_list_with].
  - intros d' l e' [].
  - cbn [forallb] in Hok. apply Bool.andb_true_iff in Hok. destruct Hok as [Hok1 Hok2].
    specialize (Hp Hok1 main d b e Hwf). assert (Hpost := prun_post p Hok1 main d b e Hwf).
    destruct (prun main d p b e) as [[e1 o] t1]. cbn [r_env r_trace fst snd] in *.
    destruct o as [b1|]; [|exact Hp].
    specialize (IH Hok2 b1 e1 (proj1 Hpost)).
    destruct (prun_list_with (prun main d) rest b1 e1) as [[e2 o2] t2]. cbn [r_trace snd] in *.
    intros d' l e' Hin. apply in_app_or in Hin. destruct Hin as [Hin|Hin]; [apply (Hp d' l e' Hin)|].
    destruct (IH d' l e' Hin) as [Hle Hfl]. split; [exact Hle|]. intros Hd. rewrite (Hfl Hd).
    destruct Hpost as (_ & Hc & _). unfold core in Hc. congruence.
Qed.

Theorem prun_trace : forall p,
  enters_ok p = true -> forall main d b e, wf e -> trace_ok d e (r_trace (prun main d p b e)).
Proof.
  induction p as [a|m body IH] using prog_ind'; intros Hok main d b e Hwf; cbn [prun].
  - destruct (tick b); cbn [r_trace snd]; intros d' l e' [H|[]]; injection H as Hd Hl He; subst; split; auto.
  - assert (Hself : forall d' l e', (d, LEnter m, e) = (d', l, e') -> d <= d' /\ (d' = d -> e_flags e' = e_flags e))
      by (intros d' l e' H; injection H as Hd Hl He; subst; split; auto).
    destruct (tick b) as [b1|]; [|intros d' l e' [H|[]]; apply (Hself d' l e' H)].
    unfold enters_ok in Hok. cbn [prog_all] in Hok. apply Bool.andb_true_iff in Hok. destruct Hok as [Hm Hb].
    destruct (enter_mgr main m e) as [e1 [sv|]] eqn:He; [|intros d' l e' [H|[]]; apply (Hself d' l e' H)].
    destruct (with_post main m e e1 sv He Hwf) as [Hwf1 _].
    assert (Hl := prun_list_trace main (if is_nonblocking m then S d else d) body IH Hb b1 e1 Hwf1).
    destruct (prun_list_with _ body b1 e1) as [[e2 o] t]. cbn [r_trace snd] in *.
    intros d' l e' [H|Hin]; [apply (Hself d' l e' H)|].
    destruct (Hl d' l e' Hin) as [Hle Hfl]. destruct (is_nonblocking m) eqn:Enb.
    + split; [lia|]. intros ->. lia.
    + split; [exact Hle|]. intros Hd. rewrite (Hfl Hd). eapply enter_flags; eassumption.
Qed.

Theorem flags_outside_nonblocking_holds p main b e :
  enters_ok p = true -> wf e -> flags_outside_nonblocking (e_flags e) (r_trace (prun main 0 p b e)).
Proof.
  intros Hok Hwf l e' Hin. apply (prun_trace p Hok main 0 b e Hwf 0 l e' Hin). reflexivity.
Qed.

(* ---- terminal: cursor visible, alternate screen left, main screen untouched ----------- *)
(* same active buffer, and while on the alternate screen the main buffer is not touched *)
Definition alt_same (t t' : term) : Prop :=
  t_in_alt t' = t_in_alt t /\ (t_in_alt t = true -> t_main t' = t_main t).

Lemma alt_same_refl t : alt_same t t.
Proof. split; auto. Qed.

Lemma alt_same_trans a b c : alt_same a b -> alt_same b c -> alt_same a c.
Proof.
  intros [H1 H2] [H3 H4]. split; [congruence|]. intros H. rewrite H4, H2; congruence.
Qed.

Lemma with_abuf_alt_same b t : alt_same t (with_abuf b t).
Proof. unfold alt_same, with_abuf. destruct (t_in_alt t); cbn; split; auto; discriminate. Qed.

Lemma scroll_alt_same t : alt_same t (scroll t).
Proof. unfold scroll. apply with_abuf_alt_same. Qed.

Lemma index_alt_same t : alt_same t (index t).
Proof. unfold index. destruct (S (t_row t) =? t_h t); [apply scroll_alt_same|split; reflexivity]. Qed.

Lemma put_alt_same x t : alt_same t (put x t).
Proof.
  unfold put.
  set (t1 := if t_pending t then with_cursor (t_row (index t)) 0 false (index t) else t).
  assert (H1 : alt_same t t1).
  { unfold t1. destruct (t_pending t); [|apply alt_same_refl].
    eapply alt_same_trans; [apply index_alt_same|]. split; reflexivity. }
  set (t2 := with_abuf _ t1).
  assert (H2 : alt_same t t2) by (eapply alt_same_trans; [exact H1|apply with_abuf_alt_same]).
  destruct (S (t_col t1) =? t_w t1); (eapply alt_same_trans; [exact H2|split; reflexivity]).
Qed.

Lemma puts_alt_same : forall xs t, alt_same t (puts xs t).
Proof.
  induction xs as [|x xs IH]; intros t; cbn [puts]; [apply alt_same_refl|].
  eapply alt_same_trans; [apply put_alt_same|apply IH].
Qed.

Lemma texec_alt_same t k : alt_cmd k = false -> alt_same t (texec t k).
Proof.
  intros Hk. unfold texec. destruct k; cbn [exec]; try discriminate; try apply alt_same_refl;
    try (split; reflexivity); try apply with_abuf_alt_same.
  - destruct (run (t_sgr t) Ground s) as [[[xs g] [| |? ?]]|]; try apply alt_same_refl.
    eapply alt_same_trans; [apply puts_alt_same|split; reflexivity].
  - eapply alt_same_trans; [apply index_alt_same|split; reflexivity].
  - destruct (t_saved t) as [[r c] g]. split; reflexivity.
Qed.

Lemma texecs_alt_same : forall ks t, existsb alt_cmd ks = false -> alt_same t (texecs t ks).
Proof.
  unfold texecs. induction ks as [|k ks IH]; intros t H; cbn [fold_left]; [apply alt_same_refl|].
  cbn [existsb] in H. apply Bool.orb_false_iff in H. destruct H as [H1 H2].
  eapply alt_same_trans; [apply texec_alt_same; exact H1|apply IH; exact H2].
Qed.

Ltac alt_chain :=
  repeat first [ apply alt_same_refl
               | eapply alt_same_trans; [|apply texecs_alt_same; reflexivity] ].

Definition not_fullscreen (m : mgr) : bool := match m with MFullscreen _ => false | _ => true end.

Lemma enter_alt_same main m e e1 x :
  enter_mgr main m e = (e1, x) -> not_fullscreen m = true -> alt_same (e_term e) (e_term e1).
Proof.
  intros He Hm. destruct m as [c| |attrs| |h|hide|hide|hide keep ok]; cbn [enter_mgr] in He; try discriminate.
  - destruct main; destruct (i_sigint_event c); destruct (i_start_stop c); cbn in He;
      try (destruct (pipe (OWake (i_obj c)) (e_fds e)) as [[t r] w]); injection He as <- _; apply alt_same_refl.
  - injection He as <- _. apply alt_same_refl.
  - injection He as <- _. apply alt_same_refl.
  - injection He as <- _. apply alt_same_refl.
  - destruct (main && negb (is_HNone h)); injection He as <- _; apply alt_same_refl.
  - injection He as <- _. destruct hide; cbn; alt_chain.
  - destruct ok; injection He as <- _; destruct hide; cbn; alt_chain.
Qed.

Lemma exit_alt_same main m sv e :
  not_fullscreen m = true -> alt_same (e_term e) (e_term (exit_mgr main m sv e)).
Proof.
  intros Hm. destruct m as [c| |attrs| |h|hide|hide|hide keep ok]; cbn [exit_mgr]; try discriminate.
  - destruct (sv_handler sv) as [h|]; destruct main; destruct (i_sigint_event c); try destruct (is_HNone h);
      unfold restore_tty; destruct (sv_tty sv); cbn; apply alt_same_refl.
  - unfold restore_tty; destruct (sv_tty sv); apply alt_same_refl.
  - unfold restore_tty; destruct (sv_tty sv); apply alt_same_refl.
  - destruct (sv_flags sv); apply alt_same_refl.
  - destruct (sv_handler sv) as [h0|]; [destruct (is_HNone h0)|]; apply alt_same_refl.
  - cbn. alt_chain.
  - unfold restore_tty; destruct (sv_tty sv); destruct keep; cbn; alt_chain.
Qed.

Lemma do_atom_alt_same a e :
  (match a with Write ks => negb (existsb alt_cmd ks) | _ => true end) = true ->
  alt_same (e_term e) (e_term (do_atom a e)).
Proof.
  intros H. destruct a as [n id sub|ks|obj]; cbn [do_atom]; try apply alt_same_refl.
  cbn. apply texecs_alt_same. apply Bool.negb_true_iff. exact H.
Qed.

Lemma prun_list_alt main d body :
  Forall (fun p => alt_free p = true -> forall main d b e, alt_same (e_term e) (e_term (r_env (prun main d p b e)))) body ->
  forallb alt_free body = true ->
  forall b e, alt_same (e_term e) (e_term (r_env (prun_list_with (prun main d) body b e))).
Proof.
  induction 1 as [|p rest Hp _ IH]; intros Hok b e; cbn [prun_list_with]; [apply alt_same_refl|].
  cbn [forallb] in Hok. apply Bool.andb_true_iff in Hok. destruct Hok as [Hok1 Hok2].
  specialize (Hp Hok1 main d b e). destruct (prun main d p b e) as [[e1 o] t1]. cbn [r_env fst] in *.
  destruct o as [b1|]; [|exact Hp]. specialize (IH Hok2 b1 e1).
  destruct (prun_list_with (prun main d) rest b1 e1) as [[e2 o2] t2]. cbn [r_env fst] in *.
  eapply alt_same_trans; eassumption.
Qed.

(* a program without FullscreenWindow and without direct screen switching keeps the
   active buffer and, on the alternate screen, leaves the main buffer alone *)
Theorem prun_alt : forall p,
  alt_free p = true -> forall main d b e, alt_same (e_term e) (e_term (r_env (prun main d p b e))).
Proof.
  induction p as [a|m body IH] using prog_ind'; intros Hok main d b e; cbn [prun].
  - destruct (tick b); cbn [r_env fst]; [|apply alt_same_refl]. apply do_atom_alt_same. exact Hok.
  - destruct (tick b) as [b1|]; [|apply alt_same_refl].
    unfold alt_free in Hok. cbn [prog_all] in Hok. apply Bool.andb_true_iff in Hok. destruct Hok as [Hm Hb].
    destruct (enter_mgr main m e) as [e1 [sv|]] eqn:He.
    + assert (Hl := prun_list_alt main (if is_nonblocking m then S d else d) body IH Hb b1 e1).
      destruct (prun_list_with _ body b1 e1) as [[e2 o] t]. cbn [r_env fst] in *.
      eapply alt_same_trans; [eapply enter_alt_same; [exact He|destruct m; auto]|].
      eapply alt_same_trans; [exact Hl|]. apply exit_alt_same. destruct m; auto.
    + cbn [r_env fst]. eapply enter_alt_same; [exact He|destruct m; auto].
Qed.

Definition is_fullscreen (m : mgr) : bool := match m with MFullscreen _ => true | _ => false end.

Lemma texec_show t : texec t Show = with_visible true t.
Proof. reflexivity. Qed.

Lemma alt_on t : t_in_alt (texec t AltOn) = true /\ t_main (texec t AltOn) = t_main t.
Proof. unfold texec. cbn [exec]. destruct (t_in_alt t) eqn:E; cbn; auto. Qed.

Lemma alt_off t : t_in_alt (texec t AltOff) = false /\ (t_main (texec t AltOff) = t_main t).
Proof.
  unfold texec. cbn [exec]. destruct (t_in_alt t) eqn:E; [destruct (t_saved_alt t) as [[r c] g]|]; cbn; auto.
Qed.

(* THE WINDOW THEOREM: a window context that was entered, around any body that does not
   itself switch screens, cut anywhere or not at all *)
Theorem window_term_restored m body main d b e :
  is_window m = true -> b <> Some 0 ->
  (match m with MCursorAware _ _ ok => ok | _ => true end) = true ->
  forallb alt_free body = true ->
  (is_fullscreen m = true \/ t_in_alt (e_term e) = false) ->
  term_restored (is_fullscreen m) (e_term e) (e_term (r_env (prun main d (With m body) b e))).
Proof.
  intros Hw Hb Hok Hbody Hstart. cbn [prun].
  destruct (tick b) as [b1|] eqn:Etick; [|destruct b as [[|k]|]; cbn in Etick; congruence].
  assert (Hl : forall e1, alt_same (e_term e1) (e_term (r_env (prun_list_with (prun main d) body b1 e1)))).
  { intros e1. apply prun_list_alt; [|exact Hbody]. apply Forall_forall. intros p _ Hp. apply prun_alt. exact Hp. }
  destruct m as [c| |attrs| |h|hide|hide|hide keep ok]; try discriminate; cbn [enter_mgr is_nonblocking is_fullscreen].
  - (* BaseWindow *)
    destruct Hstart as [Hstart|Hstart]; [discriminate|].
    specialize (Hl (wr_if hide [Hide] e)).
    destruct (prun_list_with _ body b1 _) as [[e2 o] t]. cbn [r_env fst exit_mgr] in *.
    assert (H0 : alt_same (e_term e) (e_term e2)).
    { eapply alt_same_trans; [|exact Hl]. destruct hide; cbn; alt_chain. }
    destruct H0 as [Ha _]. cbn. unfold term_restored, texecs. cbn. repeat split; [congruence|discriminate].
  - (* FullscreenWindow *)
    specialize (Hl (wr_if hide [Hide] (wr [AltOn] e))).
    destruct (prun_list_with _ body b1 _) as [[e2 o] t]. cbn [r_env fst exit_mgr] in *.
    destruct (alt_on (e_term e)) as [Hon Hmain].
    assert (H1 : t_in_alt (e_term (wr_if hide [Hide] (wr [AltOn] e))) = true
                 /\ t_main (e_term (wr_if hide [Hide] (wr [AltOn] e))) = t_main (e_term e)).
    { destruct hide; cbn; split; assumption. }
    destruct H1 as [H1a H1m]. destruct Hl as [Hla Hlm]. rewrite H1a in Hla. specialize (Hlm H1a).
    destruct (alt_off (e_term e2)) as [Hoff Hoffm].
    cbn in *. unfold term_restored, texecs in *. cbn in *. repeat split; [exact Hoff|]. intros _. rewrite Hoffm, Hlm, H1m. reflexivity.
  - (* CursorAwareWindow *)
    subst ok. destruct Hstart as [Hstart|Hstart]; [discriminate|].
    specialize (Hl (wr_if hide [Hide] (wr [Dsr] (set_tty (setcbreak (e_tty e)) e)))).
    destruct (prun_list_with _ body b1 _) as [[e2 o] t]. cbn [r_env fst exit_mgr] in *.
    assert (H0 : alt_same (e_term e) (e_term e2)).
    { eapply alt_same_trans; [|exact Hl]. destruct hide; cbn; alt_chain. }
    assert (H2 : alt_same (e_term e2) (e_term (wr [El0] (wr [Ed0] (wr [Cha 0] (wr_if keep [Lf] e2)))))).
    { destruct keep; cbn; alt_chain. }
    destruct (alt_same_trans _ _ _ H0 H2) as [Ha _].
    unfold restore_tty in *. cbn in *. unfold term_restored, texecs in *. cbn in *. repeat split; [|discriminate]. congruence.
Qed.

(* ---- repeated use leaks no descriptors ------------------------------------------------ *)
Lemma with_fds main m e e1 sv :
  enter_mgr main m e = (e1, Some sv) -> wf e ->
  forall e2, wf e2 -> e_fds e2 = e_fds e1 -> e_fds (exit_mgr main m sv e2) = e_fds e.
Proof.
  intros He [Hnd Hh].
  destruct m as [c| |attrs| |h|hide|hide|hide keep ok]; cbn [enter_mgr] in He.
  - destruct main.
    + destruct (i_sigint_event c) eqn:Es; destruct (i_start_stop c) eqn:Ess; cbn in He.
      all: match type of He with context [pipe ?o ?t] =>
             destruct (pipe_spec o t) as (r & w & Hp & Hr & Hw & Hwr); rewrite Hp in He; clear Hp end.
      all: injection He as <- <-.
      all: intros e2 [Hnd2 _] Hf; cbn in Hf; rewrite Hf in Hnd2.
      all: destruct (close_pipe_under [] r w _ _ (e_fds e) Hnd2) as (Hcl & _); cbn [app] in Hcl.
      all: cbn; rewrite ?Es; destruct (negb (is_HNone (e_handler e))); cbn; rewrite Hf; exact Hcl.
    + destruct (i_sigint_event c) eqn:Es; destruct (i_start_stop c) eqn:Ess; cbn in He.
      all: injection He as <- <-; intros e2 _ Hf; cbn in *; rewrite ?Es; cbn; exact Hf.
  - injection He as <- <-. intros e2 _ Hf. exact Hf.
  - injection He as <- <-. intros e2 _ Hf. exact Hf.
  - injection He as <- <-. intros e2 _ Hf. exact Hf.
  - destruct (main && negb (is_HNone h)); [|discriminate]. injection He as <- <-. intros e2 _ Hf. cbn.
    destruct (is_HNone (e_handler e)); exact Hf.
  - injection He as <- <-. intros e2 _ Hf. cbn. rewrite Hf. destruct hide; reflexivity.
  - injection He as <- <-. intros e2 _ Hf. cbn. rewrite Hf. destruct hide; reflexivity.
  - destruct ok; [|discriminate]. injection He as <- <-. intros e2 _ Hf. unfold restore_tty. cbn.
    destruct keep; cbn; rewrite Hf; destruct hide; reflexivity.
Qed.

Lemma prun_list_no_leak main d body :
  Forall (fun p => enters_ok p = true -> no_triggers p = true ->
                   forall main d b e, wf e -> e_fds (r_env (prun main d p b e)) = e_fds e) body ->
  forallb enters_ok body = true -> forallb no_triggers body = true ->
  forall b e, wf e -> e_fds (r_env (prun_list_with (prun main d) body b e)) = e_fds e.
Proof.
  induction 1 as [|p rest Hp _ IH]; intros Hok Hnt b e Hwf; cbn [prun_list_with]; [reflexivity|].
  cbn [forallb] in Hok, Hnt. apply Bool.andb_true_iff in Hok, Hnt. destruct Hok as [Hok1 Hok2], Hnt as [Hnt1 Hnt2].
  specialize (Hp Hok1 Hnt1 main d b e Hwf). assert (Hpost := prun_post p Hok1 main d b e Hwf).
  destruct (prun main d p b e) as [[e1 o] t1]. cbn [r_env fst] in *.
  destruct o as [b1|]; [|exact Hp]. specialize (IH Hok2 Hnt2 b1 e1 (proj1 Hpost)).
  destruct (prun_list_with (prun main d) rest b1 e1) as [[e2 o2] t2]. cbn [r_env fst] in *. congruence.
Qed.

Theorem prun_no_leak : forall p,
  enters_ok p = true -> no_triggers p = true ->
  forall main d b e, wf e -> e_fds (r_env (prun main d p b e)) = e_fds e.
Proof.
  induction p as [a|m body IH] using prog_ind'; intros Hok Hnt main d b e Hwf; cbn [prun].
  - destruct (tick b); cbn [r_env fst]; [|reflexivity].
    destruct a as [n id sub|ks|obj]; [reflexivity|reflexivity|discriminate].
  - destruct (tick b) as [b1|]; [|reflexivity].
    unfold enters_ok in Hok. unfold no_triggers in Hnt. cbn [prog_all] in Hok, Hnt.
    apply Bool.andb_true_iff in Hok, Hnt. destruct Hok as [Hm Hb], Hnt as [_ Hnb].
    destruct (enter_mgr main m e) as [e1 [sv|]] eqn:He.
    + destruct (with_post main m e e1 sv He Hwf) as [Hwf1 _].
      assert (Hl := prun_list_no_leak main (if is_nonblocking m then S d else d) body IH Hb Hnb b1 e1 Hwf1).
      assert (Hp := prun_list_post main (if is_nonblocking m then S d else d) body
                      (proj2 (Forall_forall _ _) (fun p _ Hp => prun_post p Hp)) Hb b1 e1 Hwf1).
      destruct (prun_list_with _ body b1 e1) as [[e2 o] t]. cbn [r_env fst] in *.
      apply (with_fds main m e e1 sv He Hwf e2 (proj1 Hp) Hl).
    + cbn [r_env fst]. rewrite (enter_raised main m e e1 He Hm). reflexivity.
Qed.

Theorem prun_list_no_leak' main d ps :
  forallb enters_ok ps = true -> forallb no_triggers ps = true ->
  forall b e, wf e -> e_fds (r_env (prun_list main d ps b e)) = e_fds e.
Proof.
  intros Hok Hnt. apply prun_list_no_leak; [|exact Hok|exact Hnt].
  apply Forall_forall. intros p _ Hp Hn. apply prun_no_leak; assumption.
Qed.

(* ---- the operations of a body are programs the theorems apply to ----------------------- *)
Lemma reads_prog_ok : forall reads id j,
  forallb enters_ok (reads_prog id j reads) = true /\ forallb no_triggers (reads_prog id j reads) = true
  /\ forallb alt_free (reads_prog id j reads) = true.
Proof.
  induction reads as [|k IH]; intros id j; cbn; [auto|]. destruct (IH id (S j)) as (H1 & H2 & H3).
  rewrite H1, H2, H3. auto.
Qed.

Lemma request_prog_ok main c id early reads :
  forallb enters_ok (request_prog main c id early reads) = true
  /\ forallb no_triggers (request_prog main c id early reads) = true
  /\ forallb alt_free (request_prog main c id early reads) = true.
Proof.
  destruct (reads_prog_ok reads id 0) as (H1 & H2 & H3).
  unfold request_prog, send_body. destruct (i_sigint_event c && main), early; cbn; rewrite ?H1, ?H2, ?H3; auto.
Qed.

Lemma render_prog_ok hide body :
  forallb enters_ok (render_prog hide body) = true /\ forallb no_triggers (render_prog hide body) = true.
Proof.
  unfold render_prog. split; apply forallb_forall; intros p Hp; apply in_map_iff in Hp;
    destruct Hp as (ks & <- & _); reflexivity.
Qed.

Lemma forallb_concat_repeat {A} (f : A -> bool) (l : list A) : forall k,
  forallb f l = true -> forallb f (concat (repeat l k)) = true.
Proof.
  induction k as [|k IH]; intros H; cbn; [reflexivity|]. rewrite forallb_app, H, (IH H). reflexivity.
Qed.

(* a request, however it ends, leaves everything as it was *)
Theorem request_restores main c id early reads b e :
  wf e ->
  restore_eq e (r_env (prun_list main 0 (request_prog main c id early reads) b e))
  /\ no_leak e (r_env (prun_list main 0 (request_prog main c id early reads) b e)).
Proof.
  intros Hwf. destruct (request_prog_ok main c id early reads) as (H1 & H2 & _). split.
  - apply post_restore. apply prun_list_post'; assumption.
  - apply prun_list_no_leak'; assumption.
Qed.

(* any number of repetitions of any body *)
Theorem repetition_restores main body k b e :
  forallb enters_ok body = true -> wf e ->
  restore_eq e (r_env (prun_list main 0 (concat (repeat body k)) b e))
  /\ (forallb no_triggers body = true -> no_leak e (r_env (prun_list main 0 (concat (repeat body k)) b e))).
Proof.
  intros Hok Hwf. split.
  - apply post_restore. apply prun_list_post'; [apply forallb_concat_repeat; exact Hok|exact Hwf].
  - intros Hnt. apply prun_list_no_leak'; [apply forallb_concat_repeat; exact Hok|apply forallb_concat_repeat; exact Hnt|exact Hwf].
Qed.

(* ---- a concrete scenario (non-vacuity) and the configurations in which restoration fails -- *)
Definition sample_tty : tty := mkTty true true true 1%N 0%N 17%N 19%N [1280%N; 5%N; 191%N].
Definition sample_term : term :=
  mkTerm 3 4 (mkBuf (fun _ _ => (120%N, sgr_default)) 2) (mkBuf (fun _ _ => blank) 0) false
         1 0 false sgr_default (0, 0, sgr_default) (0, 0, sgr_default) true.
Definition sample_env : env :=
  mkEnv sample_tty (mkFl false 2%N) HPyDefault (Some 9) [(0, OEnv); (1, OEnv); (2, OEnv); (9, OEnv)] sample_term [].

Definition outer_input : icfg := mkIcfg 1 true true.
Definition inner_input : icfg := mkIcfg 2 false false.
(* FullscreenWindow(hide_cursor=True) around Input(sigint_event, no start/stop) around: a request that
   reads twice, a trigger, a render, a nested Input with a request, a user-level Cbreak *)
Definition sample_prog : prog :=
  With (MFullscreen true)
    [With (MInput outer_input)
       (request_prog true outer_input 1 false 2 ++ trigger_create outer_input
        ++ render_prog true [[Cup 0 0]; [Str [97%N; 98%N]]; [El0]]
        ++ [With (MInput inner_input) (request_prog true inner_input 2 false 1);
            With MCbreak [Step (Pure NUser 3 0)]])].

Lemma sample_wf : wf sample_env.
Proof.
  split; [|discriminate]. cbn. repeat constructor; cbn; intuition discriminate.
Qed.

Lemma sample_ok : enters_ok sample_prog = true /\ alt_free (With (MInput outer_input) []) = true.
Proof. split; reflexivity. Qed.

(* an Input that finds a SIGINT handler Python cannot see (getsignal() is None) never puts it back *)
Lemma none_handler_not_restored :
  exists e, NoDup (keys (e_fds e)) /\
    e_handler (r_env (prun true 0 (With (MInput (mkIcfg 1 true false)) []) None e)) <> e_handler e.
Proof.
  exists (set_handler HNone sample_env). split; [apply sample_wf|]. vm_compute. discriminate.
Qed.

(* CursorAwareWindow.__enter__ raising in the cursor query (typed-ahead bytes, no callback) leaves cbreak on *)
Lemma cursor_query_failure_leaves_cbreak :
  exists e hide keep, wf e /\
    e_tty (r_env (prun true 0 (With (MCursorAware hide keep false) []) None e)) <> e_tty e.
Proof.
  exists sample_env, true, false. split; [apply sample_wf|]. vm_compute. discriminate.
Qed.

(* a FullscreenWindow used inside the body of another one on the same terminal: leaving the inner one
   leaves the alternate screen, and the outer window's next render draws over the main screen *)
Lemma nested_fullscreen_touches_main :
  exists e body, wf e /\ forallb enters_ok body = true /\
    t_main (e_term (r_env (prun true 0 (With (MFullscreen true) body) None e))) <> t_main (e_term e).
Proof.
  exists sample_env, [With (MFullscreen true) []; Step (Write [Str [90%N]])].
  split; [apply sample_wf|]. split; [reflexivity|].
  intros H. apply (f_equal (fun b => b_doc b 3 0)) in H. vm_compute in H. discriminate.
Qed.

(* ---- the executable form of the spec (used on observed values by the correspondence
        check) is implied by the relation the theorems establish ----------------------- *)
Lemma list_eqb_refl {A} (eqb : A -> A -> bool) (l : list A) :
  (forall x, eqb x x = true) -> list_eqb eqb l l = true.
Proof. intros H. induction l as [|x l IH]; cbn; [reflexivity|]. rewrite H, IH. reflexivity. Qed.

Lemma tty_eqb_refl a : tty_eqb a a = true.
Proof.
  unfold tty_eqb. rewrite !Bool.eqb_reflx, !N.eqb_refl, (list_eqb_refl N.eqb _ N.eqb_refl). reflexivity.
Qed.

Lemma flags_eqb_refl f : flags_eqb f f = true.
Proof. unfold flags_eqb. rewrite Bool.eqb_reflx, N.eqb_refl. reflexivity. Qed.

Lemma handler_eqb_refl h : handler_eqb h h = true.
Proof. destruct h; cbn; try reflexivity; apply Nat.eqb_refl. Qed.

Lemma mem_in n l : In n l -> mem n l = true.
Proof. intros H. unfold mem. apply existsb_exists. exists n. split; [exact H|apply Nat.eqb_refl]. Qed.

Theorem restore_eq_sound ntrig e e' :
  restore_eq e e' -> length (e_fds e') = length (e_fds e) + 2 * ntrig ->
  restore_eqb ntrig (observe e) (observe e') = true.
Proof.
  intros (Ht & Hf & Hh & Hw & pipes & Hp & _) Hlen.
  unfold restore_eqb, core_eqb, observe. cbn.
  rewrite Ht, Hf, Hh, Hw, tty_eqb_refl, flags_eqb_refl, handler_eqb_refl. cbn.
  assert (Hwk : opt_eqb Nat.eqb (e_wakeup e) (e_wakeup e) = true)
    by (destruct (e_wakeup e); cbn; [apply Nat.eqb_refl|reflexivity]).
  rewrite Hwk. cbn. rewrite !map_length, Hlen, Nat.eqb_refl, Bool.andb_true_r.
  unfold subset. apply forallb_forall. intros x Hx. apply mem_in. rewrite Hp, map_app. apply in_or_app. right. exact Hx.
Qed.

Theorem term_restored_sound fs t t' : term_restored fs t t' -> t_h t' = t_h t -> t_w t' = t_w t -> term_restoredb fs t t' = true.
Proof.
  intros (Hv & Ha & Hm) Hh Hw. unfold term_restoredb. rewrite Hv, Ha. cbn. destruct fs; [|reflexivity].
  specialize (Hm eq_refl). unfold main_eqb, main_rows. rewrite Hm, Hh, Hw, !Nat.eqb_refl. cbn.
  unfold rows_eqb. apply list_eqb_refl. intros r. unfold cells_eqb. apply list_eqb_refl.
  intros [c g]. unfold cell_eqb. cbn. rewrite N.eqb_refl. cbn.
  destruct g as [fg bg b1 b2 b3 b4 b5 b6]. unfold sgr_eqb. cbn.
  rewrite !Bool.eqb_reflx. destruct fg as [[]|], bg as [[]|]; reflexivity.
Qed.
