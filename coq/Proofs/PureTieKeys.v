(* The decision cascade of key decoding -- events.get_key, _key_name, decodable,
   could_be_unfinished_char (and could_be_unfinished_utf8 again, in the module's context) --
   as it is written in the repository NOW (syntax trees Gen/Pure.v, regenerated from the
   Python AST on every run), run by the reference interpreter Spec/PyMini.v in the context
   Spec/PyEnv.v, computes exactly what the hand-written model Model/Keys.v computes:
   for ALL byte strings, every encoding name of the alias table, all naming modes, both
   values of [full].

   Generated and proved here (nothing assumed): get_key, _key_name, decodable,
   could_be_unfinished_char, could_be_unfinished_utf8, including the calls between them.
   Assumed (oracles of Spec/PyEnv.v, models of the standard library): bytes.decode =
   Model/Utf8.decode; codecs.getdecoder(a) is codecs.getdecoder(b) iff a, b name the same codec.
   Tables: CURTSIES_NAMES / CURSES_NAMES / KEYMAP_PREFIXES / MAX_KEYPRESS_SIZE are the
   generated ones (Gen/Tables.v); the proofs do not look inside them.

   The proofs run the interpreter symbolically one statement at a time (Proofs/PyStep.v) and
   never mention a variable name or the shape of a generated tree. *)
From Coq Require Import String Lia ZifyBool ZifyNat ZifyN.
From Curtsies Require Import Model.Base Gen.Tables Gen.Pure Spec.PyMini Spec.PyEnv Model.Utf8 Model.Keys
  Proofs.PyStep Proofs.PureTieBase Proofs.PureTieUtf8.
Local Open Scope Z_scope.

(* ---- embeddings of the model's values ------------------------------------------------ *)
Definition mode_name (m : keynames) : string :=
  match m with CURTSIES => "CURTSIES" | CURSES => "CURSES" | BYTES => "BYTES" end.
Definition embed_mode (m : keynames) : val := VEnum "Keynames" (mode_name m).
(* a key is a str, or the bytes themselves under BYTES naming *)
Definition embed_key (m : keynames) (k : list N) : val :=
  match m with BYTES => VBytes k | _ => VStr k end.
Definition embed_name (m : keynames) (r : res str) : res val :=
  match r with Ok n => Ok (embed_key m n) | Raise e => Raise e end.
Definition embed_outcome (m : keynames) (o : Keys.outcome) : res val :=
  match o with
  | Key n => Ok (embed_key m n)
  | More => Ok VNone
  | Err e => Raise e
  end.
(* a list of bytes objects *)
Definition bytes_list (chunks : list (list N)) : val := VList (map VBytes chunks).
Definition is_vbytes (v : val) : bool := match v with VBytes _ => true | _ => false end.

(* ---- tables ---------------------------------------------------------------------------- *)
Lemma list_eqb_bytes_eqb : forall a b, list_eqb N.eqb a b = bytes_eqb b a.
Proof.
  induction a as [|x a IH]; intros [|y b]; try reflexivity.
  cbn [list_eqb bytes_eqb]. rewrite (N.eqb_sym y x). destruct (x =? y)%N; [apply IH | reflexivity].
Qed.

Lemma dict_get_table : forall t s,
  dict_get (VBytes s) (embed_table t) = option_map VStr (Keys.lookup t s).
Proof.
  intros t s. unfold dict_get. induction t as [|[k v] t IH]; [reflexivity|].
  cbn [embed_table map find fst snd Keys.lookup val_eqb]. fold (embed_table t).
  rewrite list_eqb_bytes_eqb. destruct (bytes_eqb k s); [reflexivity | apply IH].
Qed.

Lemma dict_mem_table : forall t s,
  dict_mem (VBytes s) (embed_table t) = in_table t s.
Proof.
  intros t s. unfold dict_mem, in_table. rewrite dict_get_table. destruct (Keys.lookup t s); reflexivity.
Qed.

Lemma set_mem_bytes : forall ps s,
  set_mem (VBytes s) (map VBytes ps) = existsb (fun p => bytes_eqb p s) ps.
Proof.
  intros ps s. unfold set_mem. induction ps as [|p ps IH]; [reflexivity|].
  cbn [map existsb]. rewrite IH. f_equal. cbn [val_eqb]. apply list_eqb_bytes_eqb.
Qed.

Lemma set_mem_prefixes : forall s,
  set_mem (VBytes s) (embed_set keymap_prefixes) = in_prefixes s.
Proof. intro s. apply set_mem_bytes. Qed.

(* ---- oracles ------------------------------------------------------------------------------ *)
Lemma bytes_decode_eq : forall name enc s, codec_of_name name = Some enc ->
  bytes_decode s name = match decode enc s with Some u => Ok (VStr u) | None => Raise UnicodeDecodeError end.
Proof. intros name enc s H. unfold bytes_decode. rewrite H. reflexivity. Qed.

Lemma getdecoder_eq : forall name enc, codec_of_name name = Some enc ->
  codecs_getdecoder name = Ok (VObj "codecs.getdecoder" (codec_id enc)).
Proof. intros name enc H. unfold codecs_getdecoder. rewrite H. reflexivity. Qed.

(* ---- the prologue of get_key: all(isinstance(c, bytes) for c in bytes_), b"".join(bytes_) ---- *)
Lemma all_items_map : forall (F : res val -> res val) (g : val -> bool) l,
  (forall v, F (Ok v) = Ok (VBool (g v))) ->
  all_items (map F (map Ok l)) = Ok (VBool (forallb g l)).
Proof.
  intros F g l HF. induction l as [|v l IH]; [reflexivity|].
  cbn [map all_items forallb]. rewrite HF. cbn [truthy]. destruct (g v); [exact IH | reflexivity].
Qed.

Lemma forallb_is_vbytes : forall chunks, forallb is_vbytes (map VBytes chunks) = true.
Proof. induction chunks as [|c l IH]; [reflexivity | exact IH]. Qed.

Lemma sequence_map_ok : forall l, sequence (map Ok l) = Ok l.
Proof. induction l as [|v l IH]; [reflexivity|]. cbn [map sequence]. rewrite IH. reflexivity. Qed.

Lemma pieces_bytes : forall chunks, pieces false (map VBytes chunks) = Some chunks.
Proof. induction chunks as [|c l IH]; [reflexivity|]. cbn [map pieces]. rewrite IH. reflexivity. Qed.

Lemma intercalate_nil : forall ps, intercalate [] ps = concat ps.
Proof.
  intros [|p ps]; [reflexivity|]. cbn [intercalate concat].
  assert (H : flat_map (fun q : list N => [] ++ q) ps = concat ps).
  { induction ps as [|q ps IH]; [reflexivity|]. cbn [flat_map concat]. rewrite IH. reflexivity. }
  rewrite H. reflexivity.
Qed.

Lemma join_bytes_list : forall chunks,
  join false [] (VList (map VBytes chunks)) = Ok (VBytes (concat chunks)).
Proof.
  intro chunks. unfold join. cbn [iter_items]. rewrite sequence_map_ok, pieces_bytes, intercalate_nil. reflexivity.
Qed.

(* a list with an element that is not a bytes object *)
Lemma pieces_not_bytes : forall l, forallb is_vbytes l = false -> pieces false l = None.
Proof.
  induction l as [|v l IH]; [discriminate|]. cbn [forallb pieces]. intro H.
  destruct v; try reflexivity. cbn [is_vbytes andb] in H. rewrite (IH H). reflexivity.
Qed.

(* ---- "x%02X" % ord(seq) ---------------------------------------------------------------------- *)
Lemma format_hexname_all :
  forallb (fun b => res_val_eqb (format_percent [120; 37; 48; 50; 88]%N (VInt (Z.of_N b))) (Ok (VStr (hexname b))))
          all_bytes = true.
Proof. vm_compute. reflexivity. Qed.

Lemma format_hexname : forall b, (b <? 256)%N = true ->
  format_percent [120; 37; 48; 50; 88]%N (VInt (Z.of_N b)) = Ok (VStr (hexname b)).
Proof.
  intros b Hb.
  assert (Hin : In b all_bytes).
  { unfold all_bytes. replace b with (N.of_nat (N.to_nat b)) by apply N2Nat.id.
    apply in_map, in_seq. lia. }
  pose proof format_hexname_all as Hall. rewrite forallb_forall in Hall. specialize (Hall b Hin).
  destruct (format_percent _ _) as [v|e]; cbn [res_val_eqb] in Hall; [|discriminate].
  destruct v; cbn [val_eqb as_int] in Hall; try discriminate.
  f_equal. f_equal. clear - Hall. revert Hall. generalize (hexname b) as h.
  induction l as [|x l IH]; intros [|y h] H; try discriminate; [reflexivity|].
  cbn [list_eqb] in H. apply andb_prop in H. destruct H as [H1 H2].
  apply N.eqb_eq in H1. subst y. f_equal. apply IH, H2.
Qed.

(* ---- symbolic evaluation in the context of the events module --------------------------------- *)
(* everything is computed, except: the statement evaluator (unfolded one statement at a time),
   the generated tables and what is looked up in them, the oracles, the semantics of the callees
   (replaced by their tie theorems), list/arithmetic functions applied to variables, and the
   model's functions *)
Ltac kcbv :=
  cbv - [exec exec_block
         embed_table embed_set curtsies_names curses_names keymap_prefixes max_keypress_size
         dict_mem dict_get set_mem repo_method bytes_decode codecs_getdecoder format_percent
         sem_decodable sem_could_be_unfinished_utf8 sem_key_name sem_could_be_unfinished_char
         all_items join List.map List.length Z.of_nat Z.of_N Z.gtb Z.eqb concat
         decode decodable in_table Keys.lookup in_prefixes hexname Nat.ltb
         Keys.could_be_unfinished_utf8 Keys.could_be_unfinished_char key_name embed_mode].
(* a method call that is library behaviour: which oracle it is *)
Ltac method_step :=
  match goal with
  | |- context [repo_method ?o ?m ?a] =>
      let v := eval cbv [repo_method String.eqb Ascii.eqb Bool.eqb andb] in (repo_method o m a) in
      change (repo_method o m a) with v
  end.
Ltac krun resolve := repeat first [ py_unfold1; kcbv | method_step; kcbv | progress resolve; kcbv ].

(* ---- could_be_unfinished_utf8, in the module's context ---------------------------------------- *)
Ltac ucbv0 :=
  cbv - [exec exec_block slice_list Z.land Z.eqb Z.ltb Z.of_N Z.of_nat List.length N.land N.eqb Nat.ltb
         embed_table embed_set curtsies_names curses_names keymap_prefixes max_keypress_size repo_method].

Theorem could_be_unfinished_utf8_tie0 : forall seq,
  sem_could_be_unfinished_utf8 [VBytes seq] = embed_bool (Keys.could_be_unfinished_utf8 seq).
Proof.
  intros [|o rest]; unfold sem_could_be_unfinished_utf8.
  - reflexivity.
  - utf8_tie_proof_with ltac:(ucbv0) o rest.
Qed.

(* ---- decodable --------------------------------------------------------------------------------- *)
Theorem decodable_tie : forall name enc seq, codec_of_name name = Some enc ->
  sem_decodable [VBytes seq; VStr name] = Ok (VBool (decodable enc seq)).
Proof.
  intros name enc seq Hname. unfold sem_decodable, decodable. kcbv.
  krun ltac:(first [ rewrite (bytes_decode_eq name enc _ Hname)
                   | match goal with |- context [decode enc seq] => destruct (decode enc seq) end ]).
  all: first [ reflexivity | fail 2 "TIE BROKEN: the repository's curtsies.events.decodable no longer computes what the model computes" ].
Qed.

(* a call of codecs.getdecoder with a constant name: computed *)
Ltac const_getdecoder :=
  match goal with
  | |- context [codecs_getdecoder ?n] =>
      tryif is_var n then fail else
      let v := eval vm_compute in (codecs_getdecoder n) in change (codecs_getdecoder n) with v
  end.

(* what was already learnt about a model-level quantity *)
Ltac use_known :=
  match goal with
  | H : Keys.lookup ?t ?s = _ |- context [Keys.lookup ?t ?s] => rewrite H
  | H : in_table ?t ?s = _ |- context [in_table ?t ?s] => rewrite H
  | H : in_prefixes ?s = _ |- context [in_prefixes ?s] => rewrite H
  | H : decode ?e ?s = _ |- context [decode ?e ?s] => rewrite H
  | H : decodable ?e ?s = _ |- context [decodable ?e ?s] => rewrite H
  | H : Keys.could_be_unfinished_char ?e ?s = _ |- context [Keys.could_be_unfinished_char ?e ?s] => rewrite H
  | H : key_name ?e ?m ?s = _ |- context [key_name ?e ?m ?s] => rewrite H
  end.

Lemma len_eq_1 : forall (s : list N), (Z.of_nat (List.length s) =? 1) = match s with [_] => true | _ => false end.
Proof. intros [|a [|b s]]; try reflexivity. cbn [List.length]. lia. Qed.

Lemma is_bytes_single : forall b, is_bytes [b] = true -> (b <? 256)%N = true.
Proof. intros b H. unfold is_bytes, is_byte in H. cbn [forallb] in H. apply andb_prop in H. tauto. Qed.

Theorem could_be_unfinished_char_tie : forall name enc seq, codec_of_name name = Some enc ->
  sem_could_be_unfinished_char [VBytes seq; VStr name] = embed_bool (Keys.could_be_unfinished_char enc seq).
Proof.
  intros name enc seq Hname. unfold sem_could_be_unfinished_char, Keys.could_be_unfinished_char. kcbv.
  krun ltac:(idtac;
             first [ match goal with |- context [sem_decodable _] => rewrite (decodable_tie name _ _ Hname) end
                   | match goal with |- context [codecs_getdecoder name] => rewrite (getdecoder_eq name _ Hname) end
                   | const_getdecoder
                   | match goal with |- context [sem_could_be_unfinished_utf8 _] => rewrite could_be_unfinished_utf8_tie0 end
                   | match goal with |- context [decodable ?e seq] => destruct (decodable e seq) end
                   | match goal with |- context [match enc with Utf8 => _ | Ascii => _ | Latin1 => _ end] => destruct enc end
                   | match goal with |- context [Keys.could_be_unfinished_utf8 seq] => destruct (Keys.could_be_unfinished_utf8 seq) end ]).
  all: first [ reflexivity | fail 2 "TIE BROKEN: the repository's curtsies.events.could_be_unfinished_char no longer computes what the model computes" ].
Qed.

Theorem key_name_tie : forall name enc mode seq, codec_of_name name = Some enc -> is_bytes seq = true ->
  sem_key_name [VBytes seq; VStr name; embed_mode mode] = embed_name mode (key_name enc mode seq).
Proof.
  intros name enc mode seq Hname Hbytes. unfold sem_key_name, key_name, key_name_with.
  destruct mode; unfold embed_mode, mode_name; kcbv;
  krun ltac:(idtac;
             first [ use_known
                   | rewrite dict_mem_table; unfold in_table
                   | rewrite dict_get_table
                   | rewrite (bytes_decode_eq name _ _ Hname)
                   | rewrite len_eq_1
                   | rewrite format_hexname by (apply is_bytes_single; assumption)
                   | match goal with |- context [Keys.lookup ?t seq] => let E := fresh "E" in destruct (Keys.lookup t seq) eqn:E end
                   | match goal with |- context [decode ?e seq] => let E := fresh "E" in destruct (decode e seq) eqn:E end
                   | match goal with |- context [match seq with [] => _ | _ :: _ => _ end] => destruct seq as [|? [|? ?]] end ]).
  all: first [ reflexivity | fail 2 "TIE BROKEN: the repository's curtsies.events._key_name no longer computes what the model computes" ].
Qed.

(* ---- get_key --------------------------------------------------------------------------------- *)
Lemma get_key_unfold : forall enc mode full seq,
  get_key enc mode full seq =
  if (max_keypress_size <? List.length seq)%nat then Err ValueError
  else
    let known := in_table curtsies_names seq || in_table curses_names seq || decodable enc seq in
    if full && known then of_res (key_name enc mode seq)
    else
      match (if in_prefixes seq then Ok true else Keys.could_be_unfinished_char enc seq) with
      | Raise e => Err e
      | Ok true => More
      | Ok false =>
          if known then of_res (key_name enc mode seq)
          else match decode enc seq with
               | None => Err UnicodeDecodeError
               | Some _ => Err AssertionError
               end
      end.
Proof. reflexivity. Qed.

Lemma len_gt : forall a b : nat, (Z.of_nat a >? Z.of_nat b) = (b <? a)%nat.
Proof. intros a b. lia. Qed.

(* case analysis on a model-level quantity the evaluation of the generated tree is stuck on *)
Ltac destruct_atom :=
  match goal with
  | |- ?lhs = _ =>
      match lhs with
      | context [in_table ?t ?s] => let E := fresh "E" in destruct (in_table t s) eqn:E
      | context [in_prefixes ?s] => let E := fresh "E" in destruct (in_prefixes s) eqn:E
      | context [decodable ?e ?s] => let E := fresh "E" in destruct (decodable e s) eqn:E
      | context [Keys.could_be_unfinished_char ?e ?s] =>
          let E := fresh "E" in destruct (Keys.could_be_unfinished_char e s) as [[|]|?] eqn:E
      | context [key_name ?e ?m ?s] => let E := fresh "E" in destruct (key_name e m s) eqn:E
      | context [decode ?e ?s] => let E := fresh "E" in destruct (decode e s) eqn:E
      | context [(?a <? ?b)%nat] => let E := fresh "E" in destruct (a <? b)%nat eqn:E
      end
  end.

Theorem get_key_tie : forall name enc mode full chunks,
  codec_of_name name = Some enc -> is_bytes (concat chunks) = true ->
  sem_get_key [bytes_list chunks; VStr name; embed_mode mode; VBool full]
  = embed_outcome mode (get_key enc mode full (concat chunks)).
Proof.
  intros name enc mode full chunks Hname Hbytes.
  rewrite get_key_unfold. unfold sem_get_key, bytes_list. kcbv.
  krun ltac:(idtac;
    first [ use_known
          | match goal with |- context [all_items (map ?F (map Ok (map VBytes ?ch)))] =>
              rewrite (all_items_map F is_vbytes (map VBytes ch)) by (intro; reflexivity);
              rewrite forallb_is_vbytes end
          | match goal with |- context [join false [] (VList (map VBytes _))] => rewrite join_bytes_list end
          | match goal with |- context [Z.of_nat ?a >? Z.of_nat ?b] => rewrite (len_gt a b) end
          | match goal with |- context [dict_mem (VBytes ?s) (embed_table ?t)] => rewrite (dict_mem_table t s) end
          | match goal with |- context [set_mem (VBytes ?s) (embed_set keymap_prefixes)] => rewrite (set_mem_prefixes s) end
          | match goal with |- context [sem_decodable _] => rewrite (decodable_tie name _ _ Hname) end
          | match goal with |- context [sem_could_be_unfinished_char _] => rewrite (could_be_unfinished_char_tie name _ _ Hname) end
          | match goal with |- context [sem_key_name _] => rewrite (key_name_tie name _ _ _ Hname Hbytes) end
          | match goal with |- context [bytes_decode _ name] => rewrite (bytes_decode_eq name _ _ Hname) end
          | match goal with |- context [if full then _ else _] => destruct full end
          | destruct_atom ]).
  all: first [ reflexivity | fail 2 "TIE BROKEN: the repository's curtsies.events.get_key no longer computes what the model computes" ].
Qed.

(* the usual form of the argument: a list of one-byte bytes objects *)
Definition one_byte_chunks (seq : list N) : list (list N) := map (fun b => [b]) seq.

Lemma concat_one_byte_chunks : forall seq, concat (one_byte_chunks seq) = seq.
Proof. induction seq as [|b s IH]; [reflexivity|]. cbn [one_byte_chunks map concat app]. f_equal. exact IH. Qed.

Theorem get_key_tie_bytes : forall name enc mode full seq,
  codec_of_name name = Some enc -> is_bytes seq = true ->
  sem_get_key [bytes_list (one_byte_chunks seq); VStr name; embed_mode mode; VBool full]
  = embed_outcome mode (get_key enc mode full seq).
Proof.
  intros name enc mode full seq Hname Hbytes.
  rewrite <- (concat_one_byte_chunks seq) at 2. apply get_key_tie; [exact Hname|].
  rewrite concat_one_byte_chunks. exact Hbytes.
Qed.

Theorem get_key_tie_list : forall name enc mode full seq,
  codec_of_name name = Some enc -> is_bytes seq = true ->
  sem_get_key [VList (map (fun b => VBytes [b]) seq); VStr name; embed_mode mode; VBool full]
  = embed_outcome mode (get_key enc mode full seq).
Proof.
  intros name enc mode full seq.
  replace (map (fun b => VBytes [b]) seq) with (map VBytes (one_byte_chunks seq))
    by (unfold one_byte_chunks; apply map_map).
  exact (get_key_tie_bytes name enc mode full seq).
Qed.

(* the default values of the parameters: keynames=Keynames.CURTSIES, full=False *)
Theorem get_key_defaults : forall a b,
  sem_get_key [a; b] = sem_get_key [a; b; embed_mode CURTSIES; VBool false].
Proof. intros a b. unfold sem_get_key. kcbv. first [ reflexivity | fail 2 "TIE BROKEN: the repository's curtsies.events.get_key (default values) no longer computes what the model computes" ]. Qed.

Theorem get_key_full_default : forall a b m,
  sem_get_key [a; b; m] = sem_get_key [a; b; m; VBool false].
Proof. intros a b m. unfold sem_get_key. kcbv. first [ reflexivity | fail 2 "TIE BROKEN: the repository's curtsies.events.get_key (default values) no longer computes what the model computes" ]. Qed.

(* the prologue: a list with an element that is not a bytes object is refused, whatever
   the other arguments are *)
Theorem get_key_type_error : forall l a2 a3 a4,
  forallb is_vbytes l = false ->
  sem_get_key [VList l; a2; a3; a4] = Raise TypeError.
Proof.
  intros l a2 a3 a4 Hl. unfold sem_get_key. kcbv.
  krun ltac:(idtac;
    match goal with |- context [all_items (map ?F (map Ok ?l0))] =>
      rewrite (all_items_map F is_vbytes l0) by (intro; reflexivity); rewrite Hl end).
  first [ reflexivity | fail 2 "TIE BROKEN: the repository's curtsies.events.get_key (prologue) no longer computes what the model computes" ].
Qed.

(* ---- the statements are not vacuous ---------------------------------------------------------------- *)
Definition name_utf8 : list N := codes "utf-8".
Definition name_ascii : list N := codes "ascii".
Definition name_latin1 : list N := codes "latin-1".
Lemma codec_names_spelled :
  codec_of_name name_utf8 = Some Utf8 /\ name_utf8 = [117; 116; 102; 45; 56]%N /\
  codec_of_name name_ascii = Some Ascii /\ name_ascii = [97; 115; 99; 105; 105]%N /\
  codec_of_name name_latin1 = Some Latin1 /\ name_latin1 = [108; 97; 116; 105; 110; 45; 49]%N.
Proof. vm_compute. repeat split. Qed.
Example codec_names_nonvacuous :
  codec_of_name name_utf8 = Some Utf8 /\ codec_of_name name_ascii = Some Ascii /\
  codec_of_name name_latin1 = Some Latin1.
Proof. vm_compute. repeat split. Qed.

Example get_key_tie_nonvacuous :        (* ESC [ A, utf-8: <UP> / KEY_UP / the bytes; ESC alone: more input / <ESC> *)
  sem_get_key [bytes_list [[27%N]; [91%N]; [65%N]]; VStr (codes "utf-8"); embed_mode CURTSIES; VBool false]
    = Ok (VStr (codes "<UP>")) /\
  sem_get_key [bytes_list [[27%N; 91%N]; [65%N]]; VStr (codes "utf-8"); embed_mode CURSES; VBool false]
    = Ok (VStr (codes "KEY_UP")) /\
  sem_get_key [bytes_list [[27%N]; [91%N]; [65%N]]; VStr (codes "utf-8"); embed_mode BYTES; VBool false]
    = Ok (VBytes [27%N; 91%N; 65%N]) /\
  sem_get_key [bytes_list [[27%N]]; VStr (codes "utf-8")] = Ok VNone /\
  sem_get_key [bytes_list [[27%N]]; VStr (codes "utf-8"); embed_mode CURTSIES; VBool true] = Ok (VStr (codes "<ESC>")) /\
  sem_get_key [bytes_list [[27%N]; [195%N]]; VStr (codes "utf-8")] = Raise UnicodeDecodeError /\
  sem_get_key [VList [VInt 27]; VStr (codes "utf-8")] = Raise TypeError /\
  sem_key_name [VBytes [255%N]; VStr (codes "ascii"); embed_mode CURSES] = Ok (VStr (codes "xFF")).
Proof. vm_compute. repeat split. Qed.
