(* Proofs for C13: the frame theorem of the heap model (Model/Heap.v) and the
   kernel-evaluated acceptance of the generated effect summary (Gen/Effects.v). *)
From Coq Require Import Lia ZifyBool ZifyNat ZifyN String.
From Curtsies Require Import Model.Base Gen.Tables Model.Render Model.Heap Gen.Effects Spec.HeapSpec.
Local Open Scope nat_scope.

(* ---------------------------------------------------------------------------------- *)
(* list helpers *)
Lemma length_upd {A} (n : nat) (f : A -> A) (l : list A) : length (upd n f l) = length l.
Proof. revert n; induction l as [|x r IH]; intros [|n]; cbn; auto. Qed.

Lemma nth_error_upd {A} (n m : nat) (f : A -> A) (l : list A) :
  nth_error (upd n f l) m = if m =? n then option_map f (nth_error l m) else nth_error l m.
Proof.
  revert n m; induction l as [|x r IH]; intros [|n] [|m]; cbn; auto;
    try (destruct (_ =? _); reflexivity).
Qed.

Lemma nth_error_snoc_old {A} (l : list A) (x : A) (i : nat) (y : A) :
  nth_error l i = Some y -> nth_error (l ++ [x]) i = Some y.
Proof. intros H. rewrite nth_error_app1; auto. apply nth_error_Some. congruence. Qed.

Lemma nth_error_snoc_inv {A} (l : list A) (x : A) (i : nat) (y : A) :
  nth_error (l ++ [x]) i = Some y -> nth_error l i = Some y \/ (i = length l /\ y = x).
Proof.
  intros H. destruct (Nat.ltb_spec i (length l)) as [Hlt|Hge].
  - rewrite nth_error_app1 in H by assumption. auto.
  - rewrite nth_error_app2 in H by assumption.
    destruct (i - length l) as [|k] eqn:E; cbn in H.
    + right. split; [lia | congruence].
    + destruct k; discriminate.
Qed.

Lemma nth_error_lt {A} (l : list A) (i : nat) (y : A) : nth_error l i = Some y -> i < length l.
Proof. intros H. apply nth_error_Some. congruence. Qed.

Lemma nth_error_ex {A} (l : list A) (i : nat) : i < length l -> exists y, nth_error l i = Some y.
Proof. intros H. destruct (nth_error l i) eqn:E; eauto. apply nth_error_None in E. lia. Qed.

Section WithWidth.
Variable wc : char -> Z.

(* ---------------------------------------------------------------------------------- *)
(* invariant: wf, inv, chunks_kept, ext are defined in Spec/HeapSpec.v *)
Local Notation inv := (HeapSpec.inv wc).

Lemma ext_refl b h : ext b h h.
Proof.
  unfold ext, chunks_kept. repeat split; auto; intros; eauto.
  apply nth_error_lt in H. lia.
Qed.

Lemma ext_trans b h1 h2 h3 : ext b h1 h2 -> ext b h2 h3 -> ext b h1 h3.
Proof.
  intros (A1 & A2 & A3 & A4 & A5 & A6 & A7) (B1 & B2 & B3 & B4 & B5 & B6 & B7).
  unfold ext, chunks_kept in *. repeat split; try lia.
  - intros l Hl. rewrite B4, A4; auto.
  - intros c k Hk. destruct (A5 _ _ Hk) as (k' & Hk' & E). destruct (B5 _ _ Hk') as (k'' & Hk'' & E').
    exists k''. split; congruence.
  - intros o f Hf. destruct (A6 _ _ Hf) as (f' & Hf' & E). destruct (B6 _ _ Hf') as (f'' & Hf'' & E').
    exists f''. split; congruence.
  - intros o f' Hf' Hlen.
    destruct (Nat.ltb_spec o (length (h_fs h2))) as [Hlt|Hge].
    + destruct (nth_error_ex _ _ Hlt) as (f2 & Hf2).
      destruct (B6 _ _ Hf2) as (f3 & Hf3 & E). rewrite Hf' in Hf3. inversion Hf3; subst f3.
      rewrite E. eapply A7; eauto.
    + specialize (B7 _ _ Hf' Hge). lia.
Qed.

Lemma value_unfold h o f xs :
  nth_error (h_fs h) o = Some f -> nth_error (h_ls h) (f_list f) = Some xs ->
  value h o = map (fun c => k_c (nth c (h_ck h) dummy_ck)) xs.
Proof. intros Hf Hl. unfold value. rewrite Hf. erewrite nth_error_nth; eauto. Qed.

Lemma value_stable h h' o f f' :
  wf h -> chunks_kept h h' ->
  nth_error (h_fs h) o = Some f -> nth_error (h_fs h') o = Some f' -> f_list f' = f_list f ->
  nth_error (h_ls h') (f_list f) = nth_error (h_ls h) (f_list f) ->
  value h' o = value h o.
Proof.
  intros (W1 & W2) K Hf Hf' El Ell.
  destruct (nth_error_ex _ _ (W2 _ _ Hf)) as (xs & Hxs).
  rewrite (value_unfold h o f xs) by assumption.
  rewrite (value_unfold h' o f' xs) by (rewrite ?El; congruence).
  apply map_ext_in. intros c Hc.
  specialize (W1 _ _ Hxs). rewrite Forall_forall in W1. specialize (W1 _ Hc).
  destruct (nth_error_ex _ _ W1) as (k & Hk). destruct (K _ _ Hk) as (k' & Hk' & E).
  rewrite (nth_error_nth _ _ _ Hk), (nth_error_nth _ _ _ Hk'). assumption.
Qed.

(* the FRAME property of one step, as used in the theorems: objects that existed keep their value *)
Lemma ext_value h h' o :
  wf h -> ext (length (h_ls h)) h h' -> o < length (h_fs h) -> value h' o = value h o.
Proof.
  intros W (A1 & A2 & A3 & A4 & A5 & A6 & A7) Ho.
  destruct (nth_error_ex _ _ Ho) as (f & Hf). destruct (A6 _ _ Hf) as (f' & Hf' & E).
  eapply value_stable; eauto. apply A4. destruct W as (_ & W2). eauto.
Qed.

(* how memo_ok is re-established after a step *)
Definition ck_cond (h h' : heap) : Prop :=
  forall c k', nth_error (h_ck h') c = Some k' ->
    k_str k' = None \/
    exists k, nth_error (h_ck h) c = Some k /\ k_c k' = k_c k /\
              forall u, k_str k' = Some u -> k_str k = Some u \/ u = render_chunk (k_c k).

Definition fs_cond (h h' : heap) : Prop :=
  forall o f', nth_error (h_fs h') o = Some f' ->
    (f_unicode f' = None /\ f_len f' = None /\ f_s f' = None /\ f_width f' = None) \/
    exists f, nth_error (h_fs h) o = Some f /\ f_list f' = f_list f /\
              nth_error (h_ls h') (f_list f) = nth_error (h_ls h) (f_list f) /\
              (forall u, f_unicode f' = Some u -> f_unicode f = Some u \/ u = render (value h o)) /\
              (forall n, f_len f' = Some n -> f_len f = Some n \/ n = flen (value h o)) /\
              (forall s, f_s f' = Some s -> f_s f = Some s \/ s = text (value h o)) /\
              (forall w, f_width f' = Some w -> f_width f = Some w \/ spec_width wc (value h o) = Ok w).

Lemma inv_step h h' : inv h -> wf h' -> chunks_kept h h' -> ck_cond h h' -> fs_cond h h' -> inv h'.
Proof.
  intros (W & MC & MF) W' K CC FC. split; [assumption|]. split.
  - intros c k' u Hk' Hu. destruct (CC _ _ Hk') as [E | (k & Hk & Ec & Hm)]; [congruence|].
    rewrite Ec. destruct (Hm _ Hu) as [Hold | ->]; [eapply MC; eauto | reflexivity].
  - intros o f' Hf'. destruct (FC _ _ Hf') as [(E1 & E2 & E3 & E4) | (f & Hf & El & Ell & H1 & H2 & H3 & H4)].
    + repeat split; intros; congruence.
    + assert (V : value h' o = value h o) by (eapply value_stable; eauto).
      rewrite V. destruct (MF _ _ Hf) as (M1 & M2 & M3 & M4).
      repeat split.
      * intros u Hu. destruct (H1 _ Hu); auto.
      * intros n Hn. destruct (H2 _ Hn); auto.
      * intros s Hs. destruct (H3 _ Hs); auto.
      * intros w Hw. destruct (H4 _ Hw); auto.
Qed.

(* ---------------------------------------------------------------------------------- *)
(* [pres b m]: from every heap satisfying the invariant (with at least b lists), m leads to a
   heap satisfying the invariant that extends it, whatever m returns or raises *)
Definition pres {A} (b : nat) (m : M A) : Prop :=
  forall h, b <= length (h_ls h) -> inv h -> inv (snd (m h)) /\ ext b h (snd (m h)).

Lemma pres_ret {A} b (x : A) : pres b (ret x).
Proof. intros h _ I. cbn. split; [assumption | apply ext_refl]. Qed.
Lemma pres_raise {A} b e : pres b (@raise A e).
Proof. intros h _ I. cbn. split; [assumption | apply ext_refl]. Qed.
Lemma pres_lift {A} b (r : res A) : pres b (lift r).
Proof. intros h _ I. cbn. split; [assumption | apply ext_refl]. Qed.

Lemma pres_bind {A B} b (m : M A) (k : A -> M B) :
  pres b m -> (forall x, pres b (k x)) -> pres b (mbind m k).
Proof.
  intros Hm Hk h Hb I. unfold mbind. specialize (Hm h Hb I).
  destruct (m h) as [[x|e] h1]; cbn in Hm; destruct Hm as (I1 & E1).
  - assert (Hb1 : b <= length (h_ls h1)) by (destruct E1 as (_ & ? & _); lia).
    destruct (Hk x h1 Hb1 I1) as (I2 & E2). split; [assumption | eapply ext_trans; eauto].
  - cbn. auto.
Qed.

Lemma pres_mapM {A B} b (f : A -> M B) (l : list A) : (forall x, pres b (f x)) -> pres b (mapM f l).
Proof.
  intros Hf. induction l as [|x r IH]; cbn [mapM].
  - apply pres_ret.
  - apply pres_bind; [apply Hf|]. intros y. apply pres_bind; [apply IH|]. intros ys. apply pres_ret.
Qed.

Lemma pres_foldM {A S} b (f : S -> A -> M S) (l : list A) (s : S) :
  (forall s x, pres b (f s x)) -> pres b (foldM f l s).
Proof.
  intros Hf. revert s. induction l as [|x r IH]; intros s; cbn [foldM].
  - apply pres_ret.
  - apply pres_bind; [apply Hf|]. intros s'. apply IH.
Qed.

(* computations that do not touch the heap *)
Lemma pres_readonly {A} b (m : M A) : (forall h, snd (m h) = h) -> pres b m.
Proof. intros R h _ I. rewrite R. split; [assumption | apply ext_refl]. Qed.

Lemma pres_list_get b l : pres b (list_get l).
Proof. apply pres_readonly. intros h. unfold list_get. destruct (nth_error _ _); reflexivity. Qed.
Lemma pres_fs_obj b o : pres b (fs_obj o).
Proof. apply pres_readonly. intros h. unfold fs_obj. destruct (nth_error _ _); reflexivity. Qed.
Lemma pres_ck_get b c : pres b (ck_get c).
Proof. apply pres_readonly. intros h. unfold ck_get. destruct (nth_error _ _); reflexivity. Qed.

Lemma valid_cks_spec h xs : valid_cks h xs = true -> Forall (fun c => c < length (h_ck h)) xs.
Proof.
  unfold valid_cks. rewrite forallb_forall, Forall_forall. intros H c Hc. specialize (H c Hc). lia.
Qed.

Lemma Forall_lt_mono (xs : list nat) n m : n <= m -> Forall (fun c => c < n) xs -> Forall (fun c => c < m) xs.
Proof. intros Hle. apply Forall_impl. intros; lia. Qed.

Lemma ck_cond_same h h' : h_ck h' = h_ck h -> ck_cond h h'.
Proof.
  intros E c k' Hk'. right. exists k'. rewrite <- E. repeat split; auto.
Qed.
Lemma chunks_kept_same h h' : h_ck h' = h_ck h -> chunks_kept h h'.
Proof. intros E c k Hk. exists k. rewrite E. auto. Qed.

(* Chunk(...) *)
Lemma pres_new_chunk b s a : pres b (new_chunk s a).
Proof.
  intros h Hb I. cbn.
  set (h' := mkHeap _ _ _).
  assert (K : chunks_kept h h').
  { intros c k Hk. exists k. split; [|reflexivity]. cbn. apply nth_error_snoc_old; assumption. }
  split.
  - apply (inv_step h h' I); auto.
    + destruct I as ((W1 & W2) & _). split; cbn.
      * intros l xs Hl. rewrite app_length. cbn. eapply Forall_lt_mono; [|eauto]. lia.
      * assumption.
    + intros c k' Hk'. cbn in Hk'. apply nth_error_snoc_inv in Hk'. destruct Hk' as [Hk' | (_ & ->)].
      * right. exists k'. repeat split; auto.
      * left. reflexivity.
    + intros o f' Hf'. cbn in Hf'. right. exists f'. repeat split; auto.
  - unfold ext. cbn. rewrite app_length. cbn. repeat split; auto; try lia.
    + intros o f Hf. eauto.
    + intros o f' Hf' Hlen. apply nth_error_lt in Hf'. lia.
Qed.

(* a new list *)
Lemma pres_new_list b xs : pres b (new_list xs).
Proof.
  intros h Hb I. unfold new_list. destruct (valid_cks h xs) eqn:V; cbn; [|split; [assumption | apply ext_refl]].
  set (h' := mkHeap _ _ _).
  split.
  - apply (inv_step h h' I).
    + destruct I as ((W1 & W2) & _). split; cbn.
      * intros l ys Hl. apply nth_error_snoc_inv in Hl. destruct Hl as [Hl | (_ & ->)]; eauto.
        apply valid_cks_spec. assumption.
      * intros o f Hf. rewrite app_length. cbn. specialize (W2 _ _ Hf). lia.
    + apply chunks_kept_same. reflexivity.
    + apply ck_cond_same. reflexivity.
    + intros o f' Hf'. cbn in Hf'. right. exists f'. repeat split; auto.
      cbn. destruct I as ((_ & W2) & _). specialize (W2 _ _ Hf').
      rewrite nth_error_app1 by assumption. reflexivity.
  - unfold ext. cbn. rewrite app_length. cbn. repeat split; auto; try lia.
    + intros l Hl. rewrite nth_error_app1 by lia. reflexivity.
    + apply chunks_kept_same. reflexivity.
    + intros o f Hf. eauto.
    + intros o f' Hf' Hlen. apply nth_error_lt in Hf'. lia.
Qed.

(* FmtStr( *components ): a new list AND a new object that owns it *)
Lemma pres_new_fs b comps : pres b (new_fs comps).
Proof.
  intros h Hb I. unfold new_fs, mbind, new_list.
  destruct (valid_cks h comps) eqn:V; cbn; [|split; [assumption | apply ext_refl]].
  set (h' := mkHeap _ _ _).
  split.
  - apply (inv_step h h' I).
    + destruct I as ((W1 & W2) & _). split; cbn.
      * intros l ys Hl. apply nth_error_snoc_inv in Hl. destruct Hl as [Hl | (_ & ->)]; eauto.
        apply valid_cks_spec. assumption.
      * intros o f Hf. rewrite app_length. cbn. apply nth_error_snoc_inv in Hf.
        destruct Hf as [Hf | (_ & ->)]; [specialize (W2 _ _ Hf); lia | cbn; lia].
    + apply chunks_kept_same. reflexivity.
    + apply ck_cond_same. reflexivity.
    + intros o f' Hf'. cbn in Hf'. apply nth_error_snoc_inv in Hf'. destruct Hf' as [Hf' | (_ & ->)].
      * right. exists f'. repeat split; auto.
        cbn. destruct I as ((_ & W2) & _). specialize (W2 _ _ Hf').
        rewrite nth_error_app1 by assumption. reflexivity.
      * left. cbn. auto.
  - unfold ext. cbn. rewrite !app_length. cbn. repeat split; auto; try lia.
    + intros l Hl. rewrite nth_error_app1 by lia. reflexivity.
    + apply chunks_kept_same. reflexivity.
    + intros o f Hf. exists f. split; [apply nth_error_snoc_old; assumption | reflexivity].
    + intros o f' Hf' Hlen. apply nth_error_snoc_inv in Hf'. destruct Hf' as [Hf' | (_ & ->)].
      * apply nth_error_lt in Hf'. lia.
      * cbn. lia.
Qed.

(* Chunk.color_str: fills the chunk's memo with the rendering of its own run *)
Lemma pres_ck_color_str b c : pres b (ck_color_str c).
Proof.
  intros h Hb I. unfold ck_color_str.
  destruct (nth_error (h_ck h) c) as [k|] eqn:Hk; [|split; [assumption | apply ext_refl]].
  destruct (k_str k) as [u|] eqn:Hu; [split; [assumption | apply ext_refl]|].
  cbn. set (h' := mkHeap _ _ _).
  assert (K : chunks_kept h h').
  { intros c0 k0 Hk0. cbn. rewrite nth_error_upd. destruct (c0 =? c) eqn:E.
    - rewrite Hk0. cbn. eauto.
    - eauto. }
  split.
  - apply (inv_step h h' I); auto.
    + destruct I as ((W1 & W2) & _). split; cbn; [|assumption].
      intros l xs Hl. rewrite length_upd. eauto.
    + intros c0 k' Hk'. cbn in Hk'. rewrite nth_error_upd in Hk'. destruct (c0 =? c) eqn:E.
      * assert (c0 = c) by lia. subst c0. rewrite Hk in Hk'. cbn in Hk'. inversion Hk'; subst k'. cbn.
        right. exists k. repeat split; auto. intros u0 Hu0. right. congruence.
      * right. exists k'. repeat split; auto.
    + intros o f' Hf'. cbn in Hf'. right. exists f'. repeat split; auto.
  - unfold ext. cbn. rewrite length_upd. repeat split; auto.
    + intros o f Hf. eauto.
    + intros o f' Hf' Hlen. apply nth_error_lt in Hf'. lia.
Qed.

(* ---------------------------------------------------------------------------------- *)
(* reading the runs of an object *)
Lemma mapM_ck_get_run h refs r h1 :
  mapM (fun c => k <- ck_get c ;; ret (c, k)) refs h = (r, h1) ->
  h1 = h /\ forall cs, r = Ok cs -> cs = map (fun c => (c, k_c (nth c (h_ck h) dummy_ck))) refs.
Proof.
  revert r h1. induction refs as [|c rest IH]; intros r h1; cbn [mapM].
  - unfold ret. intros E. inversion E; subst. split; auto. intros cs Hcs. inversion Hcs. reflexivity.
  - unfold mbind at 1. unfold mbind at 1. unfold ck_get at 1.
    destruct (nth_error (h_ck h) c) as [k|] eqn:Hk.
    + cbn [ret]. unfold mbind at 1.
      destruct (mapM _ rest h) as [[ys|e] h2] eqn:Hrest.
      * destruct (IH _ _ eq_refl) as (-> & Hys). unfold ret. intros E. inversion E; subst. split; auto.
        intros cs Hcs. inversion Hcs; subst cs. cbn [map]. rewrite (Hys _ eq_refl).
        rewrite (nth_error_nth _ _ _ Hk). reflexivity.
      * destruct (IH _ _ eq_refl) as (-> & _). intros E. inversion E; subst. split; auto. intros; discriminate.
    + intros E. inversion E; subst. split; auto. intros; discriminate.
Qed.

Lemma fs_chunks_run h o r h1 :
  fs_chunks o h = (r, h1) -> h1 = h /\ forall cs, r = Ok cs -> map snd cs = value h o.
Proof.
  unfold fs_chunks, fs_refs, fs_list, mbind, fs_obj, list_get, ret.
  destruct (nth_error (h_fs h) o) as [f|] eqn:Hf.
  - destruct (nth_error (h_ls h) (f_list f)) as [refs|] eqn:Hl.
    + intros E. destruct (mapM_ck_get_run _ _ _ _ E) as (-> & Hcs). split; auto.
      intros cs Hr. rewrite (Hcs _ Hr). rewrite (value_unfold h o f refs) by assumption.
      rewrite map_map. reflexivity.
    + intros E. inversion E; subst. split; auto. intros; discriminate.
  - intros E. inversion E; subst. split; auto. intros; discriminate.
Qed.

Lemma pres_fs_chunks b o : pres b (fs_chunks o).
Proof.
  apply pres_readonly. intros h. destruct (fs_chunks o h) as [r h1] eqn:E.
  destruct (fs_chunks_run _ _ _ _ E) as (-> & _). reflexivity.
Qed.
Lemma pres_fs_list b o : pres b (fs_list o).
Proof. unfold fs_list. apply pres_bind; [apply pres_fs_obj | intros; apply pres_ret]. Qed.
Lemma pres_fs_refs b o : pres b (fs_refs o).
Proof. unfold fs_refs. apply pres_bind; [apply pres_fs_list | intros; apply pres_list_get]. Qed.

(* filling memo slots of object o with correct values *)
Lemma set_slot_ok b h o f g :
  inv h -> nth_error (h_fs h) o = Some f -> f_list (g f) = f_list f ->
  (forall u, f_unicode (g f) = Some u -> f_unicode f = Some u \/ u = render (value h o)) ->
  (forall n, f_len (g f) = Some n -> f_len f = Some n \/ n = flen (value h o)) ->
  (forall s, f_s (g f) = Some s -> f_s f = Some s \/ s = text (value h o)) ->
  (forall w, f_width (g f) = Some w -> f_width f = Some w \/ spec_width wc (value h o) = Ok w) ->
  let h' := mkHeap (h_ck h) (h_ls h) (upd o g (h_fs h)) in inv h' /\ ext b h h'.
Proof.
  intros I Hf El H1 H2 H3 H4 h'. split.
  - apply (inv_step h h' I).
    + destruct I as ((W1 & W2) & _). split; cbn; [assumption|].
      intros o0 f0 Hf0. rewrite nth_error_upd in Hf0. destruct (o0 =? o) eqn:E.
      * assert (o0 = o) by lia. subst o0. rewrite Hf in Hf0. cbn in Hf0. inversion Hf0. rewrite El. eauto.
      * eauto.
    + apply chunks_kept_same. reflexivity.
    + apply ck_cond_same. reflexivity.
    + intros o0 f' Hf'. cbn in Hf'. rewrite nth_error_upd in Hf'. right. destruct (o0 =? o) eqn:E.
      * assert (o0 = o) by lia. subst o0. rewrite Hf in Hf'. cbn in Hf'. inversion Hf'; subst f'.
        exists f. repeat split; auto.
      * exists f'. repeat split; auto.
  - unfold ext. cbn. rewrite length_upd. repeat split; auto.
    + apply chunks_kept_same. reflexivity.
    + intros o0 f0 Hf0. rewrite nth_error_upd. destruct (o0 =? o) eqn:E.
      * assert (o0 = o) by lia. subst o0. rewrite Hf0. cbn. rewrite Hf in Hf0. inversion Hf0; subst f0. eauto.
      * eauto.
    + intros o0 f' Hf' Hlen. apply nth_error_lt in Hf'. rewrite length_upd in Hf'. lia.
Qed.

(* the model's own computations agree with the reference functions *)
Lemma fold_len_flen (cs : list (nat * chunk)) acc :
  fold_left (fun a ck => a + length (c_s (snd ck))) cs acc = acc + flen (map snd cs).
Proof.
  revert acc. induction cs as [|x r IH]; intros acc; cbn [fold_left map].
  - unfold flen. cbn. lia.
  - rewrite IH. unfold flen, text. cbn [flat_map]. rewrite app_length. lia.
Qed.

Lemma concat_text (cs : list (nat * chunk)) : concat (map (fun ck => c_s (snd ck)) cs) = text (map snd cs).
Proof. unfold text. rewrite flat_map_concat_map, map_map. reflexivity. Qed.

Lemma wcswidth_spec s :
  wcswidth wc s = if existsb (fun x => (wc x <? 0)%Z) s then (-1)%Z else fold_right Z.add 0%Z (map wc s).
Proof.
  induction s as [|c r IH]; cbn [wcswidth existsb map fold_right]; [reflexivity|].
  destruct (wc c <? 0)%Z eqn:E; cbn [orb]; [reflexivity|].
  rewrite IH. destruct (existsb _ r) eqn:Ex; [reflexivity|].
  assert (Hnn : (0 <= fold_right Z.add 0 (map wc r))%Z).
  { clear IH. induction r as [|x r' IHr]; cbn in *; [lia|].
    apply orb_false_iff in Ex. destruct Ex as (Ex1 & Ex2). specialize (IHr Ex2). lia. }
  destruct (fold_right Z.add 0%Z (map wc r) <? 0)%Z eqn:E2; [lia | reflexivity].
Qed.

Lemma chunk_width_spec c : chunk_width wc c = spec_chunk_width wc c.
Proof.
  unfold chunk_width, spec_chunk_width. rewrite wcswidth_spec.
  destruct (c_s c) as [|x r] eqn:Es; [reflexivity|].
  destruct (existsb _ (x :: r)) eqn:Ex; [reflexivity|].
  assert (Hnn : forall l, existsb (fun x => (wc x <? 0)%Z) l = false -> (0 <= fold_right Z.add 0 (map wc l))%Z).
  { induction l as [|y l' IHl]; cbn; [lia|]. intros H. apply orb_false_iff in H. destruct H as (H1 & H2).
    specialize (IHl H2). lia. }
  specialize (Hnn _ Ex). destruct (_ <? 0)%Z eqn:E2; [lia | reflexivity].
Qed.

Lemma sum_widths_spec cs acc w :
  sum_widths wc cs acc = Ok w -> exists t, spec_width wc cs = Ok t /\ w = (acc + t)%Z.
Proof.
  revert acc. induction cs as [|c r IH]; intros acc; cbn [sum_widths spec_width].
  - intros E. inversion E. exists 0%Z. split; [reflexivity | lia].
  - rewrite chunk_width_spec. destruct (spec_chunk_width wc c) as [wd|e]; [|discriminate].
    intros E. destruct (IH _ E) as (t & Ht & ->). cbn [bind]. rewrite Ht. cbn [bind].
    eexists. split; [reflexivity | lia].
Qed.

Ltac getter_tac I Hb :=
  split; [exact I | apply ext_refl].

Lemma pres_fs_len b o : pres b (fs_len o).
Proof.
  intros h Hb I. unfold fs_len, mbind, fs_obj, set_fs, ret. cbv beta.
  destruct (nth_error (h_fs h) o) as [f|] eqn:Hf; [|split; [exact I | apply ext_refl]].
  destruct (f_len f) as [n|] eqn:Hn; [split; [exact I | apply ext_refl]|].
  destruct (fs_chunks o h) as [r h1] eqn:E.
  destruct (fs_chunks_run _ _ _ _ E) as (-> & Hcs).
  destruct r as [cs|e]; [|split; [exact I | apply ext_refl]].
  cbn [snd].
  eapply (set_slot_ok b h o f); auto; cbn; intros ? H; auto.
  right. inversion H. rewrite fold_len_flen, (Hcs _ eq_refl). reflexivity.
Qed.

Lemma pres_fs_s b o : pres b (fs_s o).
Proof.
  intros h Hb I. unfold fs_s, mbind, fs_obj, set_fs, ret. cbv beta.
  destruct (nth_error (h_fs h) o) as [f|] eqn:Hf; [|split; [exact I | apply ext_refl]].
  destruct (f_s f) as [n|] eqn:Hn; [split; [exact I | apply ext_refl]|].
  destruct (fs_chunks o h) as [r h1] eqn:E.
  destruct (fs_chunks_run _ _ _ _ E) as (-> & Hcs).
  destruct r as [cs|e]; [|split; [exact I | apply ext_refl]].
  cbn [snd].
  eapply (set_slot_ok b h o f); auto; cbn; intros ? H; auto.
  right. inversion H. rewrite concat_text, (Hcs _ eq_refl). reflexivity.
Qed.

Lemma pres_fs_width b o : pres b (fs_width wc o).
Proof.
  intros h Hb I. unfold fs_width, mbind, fs_obj, set_fs, ret, lift. cbv beta.
  destruct (nth_error (h_fs h) o) as [f|] eqn:Hf; [|split; [exact I | apply ext_refl]].
  destruct (f_width f) as [n|] eqn:Hn; [split; [exact I | apply ext_refl]|].
  destruct (fs_chunks o h) as [r h1] eqn:E.
  destruct (fs_chunks_run _ _ _ _ E) as (-> & Hcs).
  destruct r as [cs|e]; [|split; [exact I | apply ext_refl]].
  destruct (sum_widths wc (map snd cs) 0%Z) as [w|e] eqn:Ew; [|split; [exact I | apply ext_refl]].
  cbn [snd].
  eapply (set_slot_ok b h o f); auto; cbn; intros ? H; auto.
  right. inversion H; subst. destruct (sum_widths_spec _ _ _ Ew) as (t & Ht & ->).
  rewrite <- (Hcs _ eq_refl). rewrite Ht. reflexivity.
Qed.

(* str(): the chunk memos are filled first, then _unicode *)
Lemma color_strs_run refs : forall h r h1,
  inv h -> mapM ck_color_str refs h = (r, h1) ->
  h_ls h1 = h_ls h /\ h_fs h1 = h_fs h /\ chunks_kept h h1 /\
  forall parts, r = Ok parts -> parts = map (fun c => render_chunk (k_c (nth c (h_ck h) dummy_ck))) refs.
Proof.
  induction refs as [|c rest IH]; intros h r h1 I; cbn [mapM].
  - unfold ret. intros E. inversion E; subst. repeat split; auto.
    + apply chunks_kept_same; reflexivity.
    + intros parts Hp. inversion Hp. reflexivity.
  - unfold mbind at 1.
    destruct (ck_color_str c h) as [r0 h0] eqn:E0.
    assert (I0 : inv h0).
    { pose proof (pres_ck_color_str 0 c h (Nat.le_0_l _) I) as P. rewrite E0 in P. apply P. }
    assert (F0 : h_ls h0 = h_ls h /\ h_fs h0 = h_fs h /\ chunks_kept h h0 /\
                 forall u, r0 = Ok u -> u = render_chunk (k_c (nth c (h_ck h) dummy_ck))).
    { unfold ck_color_str in E0. destruct (nth_error (h_ck h) c) as [k|] eqn:Hk.
      - destruct (k_str k) as [u|] eqn:Hu.
        + inversion E0; subst. repeat split; auto; [apply chunks_kept_same; reflexivity|].
          intros u0 Hu0. inversion Hu0; subst u0. rewrite (nth_error_nth _ _ _ Hk).
          destruct I as (_ & MC & _). eapply MC; eauto.
        + inversion E0; subst. cbn. repeat split; auto.
          * intros c0 k0 Hk0. cbn. rewrite nth_error_upd. destruct (c0 =? c); [rewrite Hk0; cbn|]; eauto.
          * intros u0 Hu0. inversion Hu0. rewrite (nth_error_nth _ _ _ Hk). reflexivity.
      - inversion E0; subst. repeat split; auto; [apply chunks_kept_same; reflexivity | intros; discriminate]. }
    destruct F0 as (L0 & S0 & K0 & R0).
    destruct r0 as [u|e].
    + unfold mbind at 1. destruct (mapM ck_color_str rest h0) as [r1 h2] eqn:E1.
      destruct (IH _ _ _ I0 E1) as (L1 & S1 & K1 & R1).
      assert (K : chunks_kept h h2).
      { intros c0 k0 Hk0. destruct (K0 _ _ Hk0) as (k1 & Hk1 & Ek1). destruct (K1 _ _ Hk1) as (k2 & Hk2 & Ek2).
        exists k2. split; congruence. }
      destruct r1 as [us|e]; unfold ret; intros E; inversion E; subst; repeat split; try congruence; auto.
      intros parts Hp. inversion Hp; subst parts. cbn [map]. rewrite (R0 _ eq_refl), (R1 _ eq_refl).
      f_equal. apply map_ext_in. intros c0 Hc0.
      destruct (nth_error (h_ck h) c0) as [k0|] eqn:Hk0.
      * destruct (K0 _ _ Hk0) as (k1 & Hk1 & Ek1).
        rewrite (nth_error_nth _ _ _ Hk0), (nth_error_nth _ _ _ Hk1). congruence.
      * (* a dangling reference: both heaps have the same number of chunks *)
        assert (Hlen : length (h_ck h0) = length (h_ck h)).
        { unfold ck_color_str in E0. destruct (nth_error (h_ck h) c) as [k|]; [destruct (k_str k)|];
            inversion E0; subst; cbn; rewrite ?length_upd; reflexivity. }
        apply nth_error_None in Hk0.
        rewrite !nth_overflow by lia. reflexivity.
    + intros E. inversion E; subst. repeat split; auto. intros; discriminate.
Qed.

Lemma pres_fs_str b o : pres b (fs_str o).
Proof.
  intros h Hb I. unfold fs_str, fs_refs, fs_list, mbind, fs_obj, list_get, set_fs, ret. cbv beta.
  destruct (nth_error (h_fs h) o) as [f|] eqn:Hf; [|split; [exact I | apply ext_refl]].
  destruct (f_unicode f) as [u|] eqn:Hu; [split; [exact I | apply ext_refl]|].
  rewrite Hf.
  destruct (nth_error (h_ls h) (f_list f)) as [refs|] eqn:Hl; [|split; [exact I | apply ext_refl]].
  destruct (mapM ck_color_str refs h) as [r h1] eqn:E.
  pose proof (pres_mapM b ck_color_str refs (pres_ck_color_str b) h Hb I) as P. rewrite E in P. cbn [snd] in P.
  destruct P as (I1 & X1).
  destruct (color_strs_run refs _ _ _ I E) as (L1 & S1 & K1 & R1).
  destruct r as [parts|e]; [|split; assumption].
  cbn [snd].
  assert (Hf1 : nth_error (h_fs h1) o = Some f) by congruence.
  assert (V : value h1 o = value h o).
  { eapply value_stable; eauto; [apply I | congruence]. }
  destruct (set_slot_ok b h1 o f (fun f => mkFs (f_list f) (Some (concat parts)) (f_len f) (f_s f) (f_width f))
              I1 Hf1 eq_refl) as (I2 & X2); cbn; intros; auto.
  - right. inversion H; subst. rewrite V, (R1 _ eq_refl). rewrite (value_unfold h o f refs) by assumption.
    unfold render. rewrite flat_map_concat_map, map_map. reflexivity.
  - split; [exact I2 | eapply ext_trans; eauto].
Qed.

(* ---------------------------------------------------------------------------------- *)
(* local lists: a list allocated by the running operation (index >= b) that no FmtStr owns
   may be mutated in place *)
Definition unowned (h : heap) (l : nat) : Prop := forall o f, nth_error (h_fs h) o = Some f -> f_list f <> l.
Definition local (b l : nat) (h : heap) : Prop := b <= l /\ l < length (h_ls h) /\ unowned h l.
Definition presL {A} (b l : nat) (m : M A) : Prop :=
  forall h, b <= length (h_ls h) -> inv h -> local b l h ->
    inv (snd (m h)) /\ ext b h (snd (m h)) /\ local b l (snd (m h)).

Lemma local_ext b l h h' : ext b h h' -> local b l h -> local b l h'.
Proof.
  intros (A1 & A2 & A3 & A4 & A5 & A6 & A7) (L1 & L2 & L3). split; [assumption|]. split; [lia|].
  intros o f' Hf'. destruct (Nat.ltb_spec o (length (h_fs h))) as [Hlt|Hge].
  - destruct (nth_error_ex _ _ Hlt) as (f & Hf). destruct (A6 _ _ Hf) as (f2 & Hf2 & E).
    rewrite Hf' in Hf2. inversion Hf2; subst f2. rewrite E. eauto.
  - specialize (A7 _ _ Hf' Hge). lia.
Qed.

Lemma pres_presL {A} b l (m : M A) : pres b m -> presL b l m.
Proof.
  intros P h Hb I L. destruct (P h Hb I) as (I1 & E1). split; [assumption|]. split; [assumption|]. eapply local_ext; eauto.
Qed.

Lemma presL_bind {A B} b l (m : M A) (k : A -> M B) :
  presL b l m -> (forall x, presL b l (k x)) -> presL b l (mbind m k).
Proof.
  intros Hm Hk h Hb I L. unfold mbind. specialize (Hm h Hb I L).
  destruct (m h) as [[x|e] h1]; cbn in Hm; destruct Hm as (I1 & E1 & L1).
  - assert (Hb1 : b <= length (h_ls h1)) by (destruct E1 as (_ & ? & _); lia).
    destruct (Hk x h1 Hb1 I1 L1) as (I2 & E2 & L2). split; [assumption|]. split; [eapply ext_trans; eauto | assumption].
  - cbn. auto.
Qed.

Lemma presL_mapM {A B} b l (f : A -> M B) (xs : list A) : (forall x, presL b l (f x)) -> presL b l (mapM f xs).
Proof.
  intros Hf. induction xs as [|x r IH]; cbn [mapM].
  - apply pres_presL, pres_ret.
  - apply presL_bind; [apply Hf|]. intros y. apply presL_bind; [apply IH|]. intros ys. apply pres_presL, pres_ret.
Qed.

Lemma presL_foldM {A S} b l (f : S -> A -> M S) (xs : list A) (s : S) :
  (forall s x, presL b l (f s x)) -> presL b l (foldM f xs s).
Proof.
  intros Hf. revert s. induction xs as [|x r IH]; intros s; cbn [foldM].
  - apply pres_presL, pres_ret.
  - apply presL_bind; [apply Hf|]. intros s'. apply IH.
Qed.

(* the in-place mutation of a local list by a function g that only puts valid references in it *)
Lemma local_update b l (g : list nat -> list nat) h :
  b <= length (h_ls h) -> inv h -> local b l h ->
  (forall old, Forall (fun c => c < length (h_ck h)) old -> Forall (fun c => c < length (h_ck h)) (g old)) ->
  let h' := mkHeap (h_ck h) (upd l g (h_ls h)) (h_fs h) in
  inv h' /\ ext b h h' /\ local b l h'.
Proof.
  intros Hb I (L1 & L2 & L3) Hg h'.
  assert (X : ext b h h').
  { unfold ext. cbn. rewrite length_upd. repeat split; auto.
    - intros l0 Hl0. rewrite nth_error_upd. destruct (l0 =? l) eqn:E; [lia | reflexivity].
    - apply chunks_kept_same. reflexivity.
    - intros o f Hf. eauto.
    - intros o f' Hf' Hlen. apply nth_error_lt in Hf'. lia. }
  split; [|split; [assumption|]].
  - apply (inv_step h h' I).
    + destruct I as ((W1 & W2) & _). split; cbn.
      * intros l0 xs Hl0. rewrite nth_error_upd in Hl0. destruct (l0 =? l) eqn:E; eauto.
        destruct (nth_error (h_ls h) l0) as [old|] eqn:Hold; cbn in Hl0; [|discriminate].
        inversion Hl0; subst xs. eauto.
      * intros o f Hf. rewrite length_upd. eauto.
    + apply chunks_kept_same. reflexivity.
    + apply ck_cond_same. reflexivity.
    + intros o f' Hf'. cbn in Hf'. right. exists f'. repeat split; auto.
      cbn. rewrite nth_error_upd. specialize (L3 _ _ Hf').
      destruct (f_list f' =? l) eqn:E; [lia | reflexivity].
  - split; [assumption|]. split; [cbn; rewrite length_upd; assumption|]. exact L3.
Qed.

Lemma presL_list_extend b l xs : presL b l (list_extend l xs).
Proof.
  intros h Hb I L. unfold list_extend.
  destruct (valid_cks h xs && (l <? length (h_ls h))) eqn:V; cbn [snd].
  - apply local_update; auto. intros old Hold. apply Forall_app. split; [assumption|].
    apply valid_cks_spec. apply andb_true_iff in V. apply V.
  - split; [assumption|]. split; [apply ext_refl | assumption].
Qed.

Lemma presL_list_clear b l : presL b l (list_clear l).
Proof.
  intros h Hb I L. unfold list_clear.
  destruct (l <? length (h_ls h)) eqn:V; cbn [snd].
  - apply local_update; auto.
  - split; [assumption|]. split; [apply ext_refl | assumption].
Qed.

(* allocating the local list *)
Lemma pres_local {A} b xs (k : nat -> M A) : (forall l, presL b l (k l)) -> pres b (mbind (new_list xs) k).
Proof.
  intros Hk h Hb I. unfold mbind.
  pose proof (pres_new_list b xs h Hb I) as P.
  unfold new_list in *. destruct (valid_cks h xs) eqn:V; cbn [snd] in *; [|assumption].
  destruct P as (I1 & E1). set (h1 := mkHeap _ _ _) in *.
  assert (L : local b (length (h_ls h)) h1).
  { split; [assumption|]. split; [cbn; rewrite app_length; cbn; lia|].
    intros o f Hf. cbn in Hf. destruct I as ((_ & W2) & _). specialize (W2 _ _ Hf). lia. }
  assert (Hb1 : b <= length (h_ls h1)) by (cbn; rewrite app_length; lia).
  destruct (Hk _ h1 Hb1 I1 L) as (I2 & E2 & _). split; [assumption | eapply ext_trans; eauto].
Qed.

(* ---------------------------------------------------------------------------------- *)
(* the operations: structural descent through bind / mapM / foldM / case analysis *)
Create HintDb pres.
Hint Resolve pres_ret pres_raise pres_lift pres_list_get pres_fs_obj pres_ck_get pres_new_chunk pres_new_list
     pres_new_fs pres_ck_color_str pres_fs_chunks pres_fs_list pres_fs_refs pres_fs_len pres_fs_s pres_fs_width
     pres_fs_str : pres.

Ltac pres_step :=
  match goal with
  | |- pres _ (mbind _ _) => apply pres_bind; [| intros ?]
  | |- pres _ (mapM _ _) => apply pres_mapM; intros ?
  | |- pres _ (foldM _ _ _) => apply pres_foldM; intros ? ?
  | |- pres _ (match ?x with _ => _ end) => destruct x
  | |- pres _ _ => solve [auto with pres]
  end.
Ltac pres_tac := repeat pres_step.

Ltac presL_step :=
  match goal with
  | |- presL _ ?l (list_extend ?l _) => apply presL_list_extend
  | |- presL _ ?l (list_clear ?l) => apply presL_list_clear
  | |- presL _ _ (mbind _ _) => apply presL_bind; [| intros ?]
  | |- presL _ _ (mapM _ _) => apply presL_mapM; intros ?
  | |- presL _ _ (foldM _ _ _) => apply presL_foldM; intros ? ?
  | |- presL _ _ (match ?x with _ => _ end) => destruct x
  | |- presL _ _ _ => apply pres_presL; solve [pres_tac]
  end.
Ltac presL_tac := repeat presL_step.

Lemma pres_alloc_elems b es : pres b (alloc_elems es).
Proof. unfold alloc_elems. pres_tac. Qed.
Hint Resolve pres_alloc_elems : pres.
Lemma pres_build b es : pres b (build es).
Proof. unfold build. pres_tac. Qed.
Hint Resolve pres_build : pres.
Lemma pres_copy_with_new_atts b o d : pres b (copy_with_new_atts o d).
Proof. unfold copy_with_new_atts. pres_tac. Qed.
Hint Resolve pres_copy_with_new_atts : pres.
Lemma pres_fmtstr_plain b s d : pres b (fmtstr_plain s d).
Proof. unfold fmtstr_plain. pres_tac. Qed.
Hint Resolve pres_fmtstr_plain : pres.
Lemma pres_new_with_atts_removed b o m : pres b (new_with_atts_removed o m).
Proof. unfold new_with_atts_removed. pres_tac. Qed.
Hint Resolve pres_new_with_atts_removed : pres.
Lemma pres_copy_with_new_str b o s : pres b (copy_with_new_str o s).
Proof. unfold copy_with_new_str. pres_tac. Qed.
Hint Resolve pres_copy_with_new_str : pres.
Lemma pres_add b x y : pres b (add x y).
Proof. unfold add. pres_tac. Qed.
Hint Resolve pres_add : pres.
Lemma pres_add_str b x s : pres b (add_str x s).
Proof. unfold add_str. pres_tac. Qed.
Lemma pres_radd_str b x s : pres b (radd_str s x).
Proof. unfold radd_str. pres_tac. Qed.
Lemma pres_mul b x n : pres b (mul x n).
Proof. unfold mul. pres_tac. Qed.
Lemma pres_copy b x : pres b (copy x).
Proof. unfold copy. pres_tac. Qed.
Hint Resolve pres_add_str pres_radd_str pres_mul pres_copy : pres.
Lemma pres_getitem b o ix : pres b (getitem o ix).
Proof. unfold getitem. pres_tac. Qed.
Hint Resolve pres_getitem : pres.
Lemma pres_shared_atts b o : pres b (shared_atts o).
Proof. unfold shared_atts. pres_tac. Qed.
Hint Resolve pres_shared_atts : pres.

(* splice: new_components is a local list, extended in place *)
Lemma presL_splice_step b nc nf start end_ inserted it : presL b nc (splice_step nc nf start end_ inserted it).
Proof. unfold splice_step. presL_tac. Qed.

Lemma pres_splice b o new start end_ : pres b (splice o new start end_).
Proof.
  unfold splice.
  apply pres_bind; [pres_tac|]. intros ln.
  destruct ((ln =? 0) && _); [apply pres_ret|].
  apply pres_bind; [pres_tac|]. intros nf.
  apply pres_local. intros nc.
  apply presL_bind; [apply pres_presL; pres_tac|]. intros cs.
  apply presL_bind; [apply presL_foldM; intros; apply presL_splice_step|]. intros inserted.
  presL_tac.
Qed.
Hint Resolve pres_splice : pres.
Lemma pres_append b o new : pres b (append o new).
Proof. unfold append. pres_tac. Qed.
Hint Resolve pres_append : pres.

(* join: `chunks` is a local list; `before` (first a fresh list, then the separator's own list) is only read *)
Lemma pres_join b sep items : pres b (join sep items).
Proof.
  unfold join.
  apply pres_bind; [pres_tac|]. intros before0.
  apply pres_local. intros chunks.
  presL_tac.
Qed.
Hint Resolve pres_join : pres.

Lemma pres_split b o bounds : pres b (split o bounds).
Proof. unfold split. pres_tac. Qed.
Hint Resolve pres_split : pres.
Lemma pres_splitlines b o k : pres b (splitlines o k).
Proof. unfold splitlines. pres_tac. Qed.
Lemma pres_just b lf o w fc : pres b (just lf o w fc).
Proof. unfold just. pres_tac. Qed.
Lemma pres_strmeth b o r : pres b (strmeth o r).
Proof. unfold strmeth. pres_tac. Qed.
Lemma pres_wa_slice b o ix : pres b (wa_slice wc o ix).
Proof. unfold wa_slice. pres_tac. Qed.
Hint Resolve pres_splitlines pres_just pres_strmeth pres_wa_slice : pres.

Lemma pres_pool_get b pool p : pres b (pool_get pool p).
Proof. unfold pool_get. pres_tac. Qed.
Hint Resolve pres_pool_get : pres.
Lemma pres_sarg_of b pool x : pres b (sarg_of pool x).
Proof. unfold sarg_of. pres_tac. Qed.
Lemma pres_fill b o sl : pres b (fill wc o sl).
Proof. unfold fill. pres_tac. Qed.
Lemma pres_gelem_resolve b pool g : pres b (gelem_resolve pool g).
Proof. unfold gelem_resolve. pres_tac. Qed.
Hint Resolve pres_sarg_of pres_fill pres_gelem_resolve : pres.
Lemma pres_one b m : pres b m -> pres b (one m).
Proof. intros P. unfold one. pres_tac. Qed.
Hint Resolve pres_one : pres.

(* EVERY operation of the model, on every pool, with every argument *)
Lemma pres_exec b pool x : pres b (exec wc pool x).
Proof. destruct x; cbn [exec]; pres_tac. Qed.

(* ---------------------------------------------------------------------------------- *)
(* FRAME THEOREM, one step: whatever the operation, the pool, the arguments and the outcome
   (a result or an exception), every FmtStr object that existed before the step has the same
   value after it, and the invariant -- in particular memo_ok -- holds again *)
Theorem step_frame pool x h :
  inv h ->
  let h' := snd (exec wc pool x h) in
  inv h' /\ forall o, o < length (h_fs h) -> value h' o = value h o.
Proof.
  intros I h'. destruct (pres_exec (length (h_ls h)) pool x h (le_n _) I) as (I' & X).
  split; [assumption|]. intros o Ho. apply ext_value; [apply I | assumption | assumption].
Qed.

(* the model's own effects are confined the way [safe] demands of the source: relative to the heap
   the operation started from, no list object is touched, no run object changes its text or
   attributes, no FmtStr changes its list reference -- only memo slots and new objects *)
Theorem exec_effects_confined pool x h :
  inv h -> ext (length (h_ls h)) h (snd (exec wc pool x h)).
Proof. intros I. apply (pres_exec (length (h_ls h)) pool x h (le_n _) I). Qed.

Lemma run_app p1 p2 pool h :
  run wc (p1 ++ p2) pool h = let '(pool1, h1) := run wc p1 pool h in run wc p2 pool1 h1.
Proof.
  revert pool h. induction p1 as [|x r IH]; intros pool h; cbn [run app]; [reflexivity|].
  destruct (exec wc pool x h) as [res h1]. apply IH.
Qed.

Lemma fs_count_mono pool x h : inv h -> length (h_fs h) <= length (h_fs (snd (exec wc pool x h))).
Proof.
  intros I. destruct (pres_exec (length (h_ls h)) pool x h (le_n _) I) as (_ & X). apply X.
Qed.

(* ... and any straight-line program: any length, any interleaving of operations and observations *)
Theorem run_frame prog : forall pool h,
  inv h ->
  let h' := snd (run wc prog pool h) in
  inv h' /\ forall o, o < length (h_fs h) -> value h' o = value h o.
Proof.
  induction prog as [|x rest IH]; intros pool h I; cbn [run].
  - cbn. auto.
  - destruct (exec wc pool x h) as [r h1] eqn:E.
    pose proof (step_frame pool x h I) as S. pose proof (fs_count_mono pool x h I) as Mo.
    rewrite E in S, Mo. cbn [snd] in S, Mo. destruct S as (I1 & V1).
    destruct (IH (pool_after pool r) h1 I1) as (I2 & V2). split; [assumption|].
    intros o Ho. rewrite V2 by lia. apply V1. assumption.
Qed.

(* the property as stated: at EVERY position of a program the objects that exist there keep
   their value to the end, and the memo slots are right at that position and at the end *)
Theorem program_frame p1 p2 pool h :
  inv h ->
  let '(pool1, h1) := run wc p1 pool h in
  let h2 := snd (run wc p2 pool1 h1) in
  memo_ok wc h1 /\ memo_ok wc h2 /\ forall o, o < length (h_fs h1) -> value h2 o = value h1 o.
Proof.
  intros I. destruct (run wc p1 pool h) as [pool1 h1] eqn:E1.
  pose proof (run_frame p1 pool h I) as F1. rewrite E1 in F1. cbn [snd] in F1. destruct F1 as (I1 & _).
  destruct (run_frame p2 pool1 h1 I1) as (I2 & V2).
  split; [apply I1|]. split; [apply I2 | assumption].
Qed.

Lemma inv_empty : inv empty_heap.
Proof.
  split; [split|split]; cbn; intros; try (destruct l; discriminate); try (destruct o; discriminate);
    destruct c; discriminate.
Qed.

(* from the empty heap: no hypothesis left *)
Corollary program_frame_from_empty p1 p2 :
  let '(pool1, h1) := run wc p1 [] empty_heap in
  let h2 := snd (run wc p2 pool1 h1) in
  memo_ok wc h1 /\ memo_ok wc h2 /\ forall o, o < length (h_fs h1) -> value h2 o = value h1 o.
Proof. apply program_frame. apply inv_empty. Qed.

Corollary program_memo_ok prog : memo_ok wc (snd (run wc prog [] empty_heap)).
Proof. apply (run_frame prog [] empty_heap inv_empty). Qed.

(* item assignment and every mutating dict method on a run's attributes raise, and change nothing *)
Theorem setitem_raises pool p h : exec wc pool (OSetitem p) h = (Raise OtherError, h).
Proof. reflexivity. Qed.
Theorem atts_mutation_raises pool p i how h : exec wc pool (OAttsMutate p i how) h = (Raise OtherError, h).
Proof. reflexivity. Qed.

End WithWidth.

(* ---------------------------------------------------------------------------------- *)
(* the tie to the source: the effect summary regenerated from curtsies/formatstring.py on
   every run is accepted by the policy (kernel evaluation over the whole table) *)
Theorem effects_safe : forallb safe Effects.table = true.
Proof. vm_compute. reflexivity. Qed.

Theorem effects_frozen_attributes_block_every_dict_mutator : frozen_blocks_mutators = true.
Proof. vm_compute. reflexivity. Qed.

Theorem effects_init_copies_and_resets : init_present = true.
Proof. vm_compute. reflexivity. Qed.

(* ---------------------------------------------------------------------------------- *)
(* non-vacuity: a program in which results share runs with their operands, caches are filled
   before and after, a join reuses the separator's list, a splice returns self *)
Definition demo_wc (c : char) : Z := 1%Z.
Definition demo_prog : list op :=
  [ ONew [C [97; 98]%N (A 2 0 0 0 0 0 0 0); C [99]%N (A 0 0 1 0 0 0 0 0)];   (* 0 *)
    OFmtstr [44]%N (A 0 3 0 0 0 0 0 0);                                       (* 1 *)
    OStr 0; OLen 1;
    OJoin 1 [inl 0; inr [120]%N; inl 0];                                       (* 2 *)
    OGetitem 0 (IxSlice (Some 1%Z) None);                                      (* 3 *)
    OS 2; OWidth 3;
    OAdd 0 3;                                                                  (* 4 *)
    OSplice 4 (inr []) 1 None;                                                 (* 5 = 4 itself *)
    OSetitem 0;
    OStr 4; OStr 2 ].

Example frame_nonvacuous :
  let '(pool, h) := run demo_wc demo_prog [] empty_heap in
  (length pool =? 6) && (nth 5 pool 0 =? nth 4 pool 1)                  (* splice returned self *)
  && fmtstr_eqb (value h (nth 0 pool 0)) [C [97; 98]%N (A 2 0 0 0 0 0 0 0); C [99]%N (A 0 0 1 0 0 0 0 0)]
  && (flen (value h (nth 2 pool 0)) =? 9) && (flen (value h (nth 4 pool 0)) =? 5)
  (* the join result holds the SAME chunk objects as its operand (0, 1) and its separator (3, twice) *)
  && list_eqb Nat.eqb (nth 4 (h_ls h) []) [0; 1; 3; 5; 3; 0; 1]
  && match nth_error (h_fs h) (nth 0 pool 0) with
     | Some f => match f_unicode f, f_len f with Some _, Some 3 => true | _, _ => false end
     | None => false
     end = true.
Proof. vm_compute. reflexivity. Qed.
