(* C14 (and the attribute half of C19): proofs about Model/Atts.v against Spec/AttSpec.v.
   Structure: strings and dictionaries; the generated tables against the reference
   names (these lemmas are the ones that break when a table entry changes); the loop
   of parse_args characterised completely (accepted <-> declaratively good); valid
   specifications parse to exactly the named attributes; the invalid catalogue raises
   ValueError; fmtstr / fmtfuncs / copy_with_new_atts / new_with_atts_removed /
   copy_with_new_str / shared_atts on the displayed cells. *)
From Curtsies Require Import Model.Base Gen.Tables Model.Render Model.Atts Spec.Sgr Spec.AttSpec.
From Curtsies Require Import Proofs.RenderSgr.
From Coq Require Import Lia ZifyBool ZifyNat ZifyN Permutation.
Local Open Scope N_scope.

(* ---- strings ---------------------------------------------------------------------- *)
Lemma list_eqb_eq {X} (eqb : X -> X -> bool) (H : forall a b, eqb a b = true <-> a = b) :
  forall a b, list_eqb eqb a b = true <-> a = b.
Proof.
  induction a as [|x a IH]; destruct b as [|y b]; cbn [list_eqb]; split; intro E; try easy.
  - apply andb_true_iff in E as [E1 E2]. apply H in E1. apply IH in E2. now subst.
  - inversion E; subst. apply andb_true_iff; split; [now apply H | now apply IH].
Qed.
Lemma str_eqb_eq a b : str_eqb a b = true <-> a = b.
Proof. apply list_eqb_eq. intros; apply N.eqb_eq. Qed.
Lemma str_eqb_refl a : str_eqb a a = true.
Proof. now apply str_eqb_eq. Qed.
Lemma str_eqb_neq a b : str_eqb a b = false <-> a <> b.
Proof.
  split; intro E.
  - intro F. apply str_eqb_eq in F. congruence.
  - destruct (str_eqb a b) eqn:F; [apply str_eqb_eq in F; contradiction | reflexivity].
Qed.
Lemma str_eqb_sym a b : str_eqb a b = str_eqb b a.
Proof.
  destruct (str_eqb a b) eqn:E.
  - apply str_eqb_eq in E. subst. symmetry. apply str_eqb_refl.
  - apply str_eqb_neq in E. symmetry. apply str_eqb_neq. congruence.
Qed.

(* ---- dictionaries ------------------------------------------------------------------- *)
Lemma dict_get_set k v d k' :
  dict_get k' (dict_set k v d) = if str_eqb k k' then Some v else dict_get k' d.
Proof.
  induction d as [|[k0 v0] d IH]; cbn [dict_set dict_get].
  - reflexivity.
  - destruct (str_eqb k0 k) eqn:E0; cbn [dict_get].
    + apply str_eqb_eq in E0. subst k0. destruct (str_eqb k k'); reflexivity.
    + destruct (str_eqb k0 k') eqn:E1.
      * apply str_eqb_eq in E1. subst k0. rewrite str_eqb_sym, E0. reflexivity.
      * exact IH.
Qed.
Lemma dict_get_none k d : dict_get k d = None <-> ~ In k (map fst d).
Proof.
  induction d as [|[k0 v0] d IH]; cbn [dict_get map fst In]; [tauto|].
  destruct (str_eqb k0 k) eqn:E.
  - apply str_eqb_eq in E. subst. split; [discriminate | intros H; exfalso; apply H; now left].
  - apply str_eqb_neq in E. rewrite IH. tauto.
Qed.
Lemma dict_get_in k d v : dict_get k d = Some v -> In (k, v) d.
Proof.
  induction d as [|[k0 v0] d IH]; cbn [dict_get In]; [discriminate|].
  destruct (str_eqb k0 k) eqn:E.
  - apply str_eqb_eq in E. intros [= <-]. subst. now left.
  - intros H. right. now apply IH.
Qed.
Lemma dict_in_get k v d : NoDup (map fst d) -> In (k, v) d -> dict_get k d = Some v.
Proof.
  induction d as [|[k0 v0] d IH]; cbn [map fst In dict_get]; [tauto|].
  intros ND [E|I].
  - inversion E; subst. now rewrite str_eqb_refl.
  - inversion ND as [|? ? N1 N2]; subst.
    destruct (str_eqb k0 k) eqn:E.
    + apply str_eqb_eq in E. subst. exfalso. apply N1. now apply (in_map fst) in I.
    + now apply IH.
Qed.
Lemma dict_mem_true k d : dict_mem k d = true <-> In k (map fst d).
Proof.
  unfold dict_mem. destruct (dict_get k d) eqn:E.
  - split; [intros _|reflexivity]. apply dict_get_in in E. now apply (in_map fst) in E.
  - apply dict_get_none in E. split; [discriminate | contradiction].
Qed.

(* deleting the (unique) entry of a key *)
Lemma dict_del_split k v d : NoDup (map fst d) -> dict_get k d = Some v ->
  exists l1 l2, d = l1 ++ (k, v) :: l2 /\ dict_del k d = l1 ++ l2 /\ ~ In k (map fst (l1 ++ l2)).
Proof.
  induction d as [|[k0 v0] d IH]; cbn [dict_get dict_del map fst]; [discriminate|].
  intros ND G. inversion ND as [|? ? N1 N2]; subst.
  destruct (str_eqb k0 k) eqn:E.
  - apply str_eqb_eq in E. subst. inversion G; subst. exists [], d. repeat split; auto.
  - destruct (IH N2 G) as (l1 & l2 & E1 & E2 & E3).
    exists ((k0, v0) :: l1), l2. rewrite E2. repeat split.
    + now rewrite E1.
    + cbn [app map fst In]. apply str_eqb_neq in E. intros [F|F]; [congruence | contradiction].
Qed.

(* ---- nodupb / NoDup -------------------------------------------------------------------- *)
Lemma existsb_eqb_in {X} (eqb : X -> X -> bool) (H : forall a b, eqb a b = true <-> a = b) x l :
  existsb (eqb x) l = true <-> In x l.
Proof.
  rewrite existsb_exists. split.
  - intros (y & I & E). apply H in E. now subst.
  - intros I. exists x. split; [assumption | now apply H].
Qed.
Lemma nodupb_NoDup {X} (eqb : X -> X -> bool) (H : forall a b, eqb a b = true <-> a = b) l :
  nodupb eqb l = true <-> NoDup l.
Proof.
  induction l as [|x l IH]; cbn [nodupb].
  - split; [constructor | reflexivity].
  - rewrite andb_true_iff, negb_true_iff, IH. split.
    + intros [E N]. constructor; [|assumption]. intro I. apply (existsb_eqb_in eqb H) in I. congruence.
    + intros N. inversion N as [|? ? N1 N2]; subst. split; [|assumption].
      destruct (existsb (eqb x) l) eqn:E; [|reflexivity]. apply (existsb_eqb_in eqb H) in E. contradiction.
Qed.
Lemma style_eqb_eq a b : style_eqb a b = true <-> a = b.
Proof. destruct a, b; cbn; split; congruence. Qed.
Lemma color_eqb_eq a b : color_eqb a b = true <-> a = b.
Proof. destruct a, b; cbn; split; congruence. Qed.
Lemma akey_eqb_eq a b : akey_eqb a b = true <-> a = b.
Proof.
  destruct a as [| |x], b as [| |y]; cbn; try (split; congruence).
  rewrite style_eqb_eq. split; congruence.
Qed.

(* ---- the generated tables against the reference names ---------------------------------- *)
Lemma style_key_name k : style_key k = style_name k.
Proof. destruct k; reflexivity. Qed.
Lemma keys_names : k_fg = n_fg /\ k_bg = n_bg /\ k_style = n_style /\ on_prefix = n_on.
Proof. repeat split. Qed.

Ltac table_cases x :=
  rewrite ?(str_eqb_sym x);
  repeat match goal with |- context [str_eqb ?a x] => destruct (str_eqb a x) end; reflexivity.

(* FG_COLORS / BG_COLORS map exactly the eight reference names, to 30+i / 40+i *)
Lemma fg_table x : tab_get x fg_colors = option_map fg_value (color_named x).
Proof. cbv [tab_get fg_colors color_named find all_colors color_name]. table_cases x. Qed.
Lemma bg_table x : tab_get x bg_colors = option_map bg_value (color_named x).
Proof. cbv [tab_get bg_colors color_named find all_colors color_name]. table_cases x. Qed.
(* STYLES has exactly the six reference names as keys *)
Lemma styles_table x : tab_mem x styles = match style_named x with Some _ => true | None => false end.
Proof. cbv [tab_mem tab_get styles style_named find all_styles style_name]. table_cases x. Qed.

Lemma color_named_name c : color_named (color_name c) = Some c.
Proof. destruct c; reflexivity. Qed.
Lemma color_named_some s c : color_named s = Some c -> s = color_name c.
Proof.
  unfold color_named. intros H. apply find_some in H as [_ H]. now apply str_eqb_eq in H.
Qed.
Lemma style_named_name k : style_named (style_name k) = Some k.
Proof. destruct k; reflexivity. Qed.
Lemma style_named_some s k : style_named s = Some k -> s = style_name k.
Proof.
  unfold style_named. intros H. apply find_some in H as [_ H]. now apply str_eqb_eq in H.
Qed.

(* ---- case-insensitive matching = comparing after lower() ----------------------------- *)
Definition lc_name (name : str) : bool := forallb (fun n => lower_char n =? n) name.
Lemma ci_char_lower c n : lower_char n = n -> ci_char c n = (lower_char c =? n).
Proof.
  unfold ci_char, lower_char. intros H.
  destruct (65 <=? n) eqn:A1; destruct (n <=? 90) eqn:A2; cbn [andb] in H;
  destruct (n =? 8490) eqn:A3; try lia;
  destruct (65 <=? c) eqn:B1; destruct (c <=? 90) eqn:B2; cbn [andb];
  destruct (c =? 8490) eqn:B3; lia.
Qed.
Lemma ci_eqb_lower name : lc_name name = true -> forall s, ci_eqb s name = str_eqb (lower s) name.
Proof.
  unfold ci_eqb, str_eqb, lower.
  induction name as [|n name IH]; intros L s; destruct s as [|c s]; cbn [list_eqb map]; try reflexivity.
  cbn [lc_name forallb] in L. apply andb_true_iff in L as [L1 L2]. apply N.eqb_eq in L1.
  rewrite (ci_char_lower c n L1), (IH L2 s). reflexivity.
Qed.
Lemma color_name_lc c : lc_name (color_name c) = true.
Proof. destruct c; reflexivity. Qed.
Lemma color_named_ci_lower s : color_named_ci s = color_named (lower s).
Proof.
  unfold color_named_ci, color_named, all_colors. cbn [find].
  rewrite !ci_eqb_lower by apply color_name_lc. reflexivity.
Qed.
Lemma on_prefix_ci s : starts_with on_prefix (lower s) = ci_eqb (firstn 3 s) n_on.
Proof.
  rewrite ci_eqb_lower by reflexivity.
  destruct s as [|a [|b [|c t]]];
    cbn [firstn lower map starts_with on_prefix str_eqb list_eqb n_on];
    rewrite ?andb_true_r, ?andb_false_r, ?(N.eqb_sym 111), ?(N.eqb_sym 110), ?(N.eqb_sym 95); reflexivity.
Qed.
Lemma lower_skipn n s : lower (skipn n s) = skipn n (lower s).
Proof. unfold lower. now rewrite skipn_map. Qed.

(* ---- what one positional argument does, as the model sees it ---------------------------- *)
Inductive pk := PFg (n : N) | PBg (n : N) | PSt (a : str).
Definition pclass (v : value) : option pk :=
  match v with
  | VStr a =>
      match tab_get (lower a) fg_colors with
      | Some n => Some (PFg n)
      | None =>
          match (if starts_with on_prefix (lower a) then tab_get (lower (skipn 3 a)) bg_colors else None) with
          | Some n => Some (PBg n)
          | None => if tab_mem (lower a) styles then Some (PSt a) else None
          end
      end
  | _ => None
  end.
Lemma arg_step_pclass v kw :
  arg_step v kw =
  match pclass v with
  | None => Raise ValueError
  | Some (PFg n) => if dict_mem k_fg kw then Raise ValueError else Ok (dict_set k_fg (VInt (Z.of_N n)) kw)
  | Some (PBg n) => if dict_mem k_bg kw then Raise ValueError else Ok (dict_set k_bg (VInt (Z.of_N n)) kw)
  | Some (PSt a) => Ok (dict_set a (VBool true) kw)
  end.
Proof.
  destruct v as [z|b|a|]; try reflexivity.
  cbn [arg_step pclass].
  destruct (tab_get (lower a) fg_colors); [reflexivity|].
  destruct (if starts_with on_prefix (lower a) then tab_get (lower (skipn 3 a)) bg_colors else None); [reflexivity|].
  destruct (tab_mem (lower a) styles); reflexivity.
Qed.

(* a style name is neither "fg" nor "bg", in any case *)
Lemma style_not_color_key a : tab_mem (lower a) styles = true -> a <> k_fg /\ a <> k_bg.
Proof.
  intros H. split; intro E; subst a; vm_compute in H; discriminate.
Qed.

(* the model's view of a positional argument against the reference classification *)
Lemma pclass_pos_cls v :
  match pclass v with
  | None => pos_cls v = Bad
  | Some (PFg n) => exists c, pos_cls v = Good (AFg c) /\ n = fg_value c
  | Some (PBg n) => exists c, pos_cls v = Good (ABg c) /\ n = bg_value c
  | Some (PSt a) =>
      v = VStr a /\ a <> k_fg /\ a <> k_bg /\
      match style_named a with
      | Some k => pos_cls v = Good (ASt k true) /\ a = style_key k
      | None => pos_cls v = Bad /\ known_key a = false
      end
  end.
Proof.
  destruct v as [z|b|a|]; try reflexivity.
  cbn [pclass pos_cls].
  rewrite fg_table, color_named_ci_lower.
  destruct (color_named (lower a)) as [c|] eqn:Efg; cbn [option_map].
  { exists c. split; reflexivity. }
  rewrite on_prefix_ci, lower_skipn, <- lower_skipn, bg_table, (color_named_ci_lower (skipn 3 a)).
  destruct (ci_eqb (firstn 3 a) n_on) eqn:Eon.
  - destruct (color_named (lower (skipn 3 a))) as [c|] eqn:Ebg; cbn [option_map].
    { exists c. split; reflexivity. }
    destruct (tab_mem (lower a) styles) eqn:Est.
    + destruct (style_not_color_key a Est) as [N1 N2].
      split; [reflexivity|]. split; [assumption|]. split; [assumption|].
      destruct (style_named a) as [k|] eqn:Ek.
      * split; [reflexivity|]. rewrite style_key_name. now apply style_named_some.
      * split; [reflexivity|]. unfold known_key. rewrite styles_table, Ek.
        apply str_eqb_neq in N1, N2. now rewrite N1, N2.
    + destruct (style_named a) as [k|] eqn:Ek; [|reflexivity].
      apply style_named_some in Ek. subst a. destruct k; vm_compute in Est; discriminate.
  - destruct (tab_mem (lower a) styles) eqn:Est.
    + destruct (style_not_color_key a Est) as [N1 N2].
      split; [reflexivity|]. split; [assumption|]. split; [assumption|].
      destruct (style_named a) as [k|] eqn:Ek.
      * split; [reflexivity|]. rewrite style_key_name. now apply style_named_some.
      * split; [reflexivity|]. unfold known_key. rewrite styles_table, Ek.
        apply str_eqb_neq in N1, N2. now rewrite N1, N2.
    + destruct (style_named a) as [k|] eqn:Ek; [|reflexivity].
      apply style_named_some in Ek. subst a. destruct k; vm_compute in Est; discriminate.
Qed.

(* ---- fg= / bg= values ---------------------------------------------------------------------- *)
Definition norm_val (t : list (str * N)) (v : value) : value :=
  match val_tab_get v t with Some n => VInt (Z.of_N n) | None => v end.

Lemma color_of_value_fg c : color_of_value 30 (VInt (Z.of_N (fg_value c))) = Some c.
Proof. destruct c; reflexivity. Qed.
Lemma color_of_value_bg c : color_of_value 40 (VInt (Z.of_N (bg_value c))) = Some c.
Proof. destruct c; reflexivity. Qed.
Lemma fg_value_in c : val_in_values (VInt (Z.of_N (fg_value c))) fg_colors = true.
Proof. destruct c; reflexivity. Qed.
Lemma bg_value_in c : val_in_values (VInt (Z.of_N (bg_value c))) bg_colors = true.
Proof. destruct c; reflexivity. Qed.

Lemma fg_value_facts v :
  if val_in_values (norm_val fg_colors v) fg_colors
  then exists c, color_value_cls AFg 30 v = Good (AFg c) /\ color_of_value 30 (norm_val fg_colors v) = Some c
  else color_value_cls AFg 30 v = Bad.
Proof.
  destruct v as [z|b|s|]; unfold norm_val; cbn [val_tab_get color_value_cls].
  - cbv [val_in_values existsb fg_colors snd val_eq_num]. rewrite !orb_false_r.
    repeat match goal with |- context [Z.eqb z ?k] => destruct (Z.eqb_spec z k); [subst z; cbn [orb]; eexists; split; reflexivity|] end.
    cbn [orb]. unfold color_numbered.
    destruct ((30 <=? z)%Z && (z <=? 30 + 7)%Z)%bool eqn:E; [|reflexivity]. exfalso. lia.
  - destruct b; reflexivity.
  - rewrite fg_table. destruct (color_named s) as [c|]; cbn [option_map].
    + rewrite fg_value_in. exists c. split; [reflexivity | apply color_of_value_fg].
    + reflexivity.
  - reflexivity.
Qed.
Lemma bg_value_facts v :
  if val_in_values (norm_val bg_colors v) bg_colors
  then exists c, color_value_cls ABg 40 v = Good (ABg c) /\ color_of_value 40 (norm_val bg_colors v) = Some c
  else color_value_cls ABg 40 v = Bad.
Proof.
  destruct v as [z|b|s|]; unfold norm_val; cbn [val_tab_get color_value_cls].
  - cbv [val_in_values existsb bg_colors snd val_eq_num]. rewrite !orb_false_r.
    repeat match goal with |- context [Z.eqb z ?k] => destruct (Z.eqb_spec z k); [subst z; cbn [orb]; eexists; split; reflexivity|] end.
    cbn [orb]. unfold color_numbered.
    destruct ((40 <=? z)%Z && (z <=? 40 + 7)%Z)%bool eqn:E; [|reflexivity]. exfalso. lia.
  - destruct b; reflexivity.
  - rewrite bg_table. destruct (color_named s) as [c|]; cbn [option_map].
    + rewrite bg_value_in. exists c. split; [reflexivity | apply color_of_value_bg].
    + reflexivity.
  - reflexivity.
Qed.

(* ---- the loop over the positional arguments ------------------------------------------------ *)
Definition sets (v : value) : option (str * value) :=
  match pclass v with
  | Some (PFg n) => Some (k_fg, VInt (Z.of_N n))
  | Some (PBg n) => Some (k_bg, VInt (Z.of_N n))
  | Some (PSt a) => Some (a, VBool true)
  | None => None
  end.
(* the value the loop leaves under key k, if it writes it at all: the last writer wins *)
Fixpoint last_set (k : str) (P : list value) : option value :=
  match P with
  | [] => None
  | v :: r =>
      match last_set k r with
      | Some x => Some x
      | None => match sets v with
                | Some (k', x) => if str_eqb k' k then Some x else None
                | None => None
                end
      end
  end.
Definition is_pfg (v : value) : bool := match pclass v with Some (PFg _) => true | _ => false end.
Definition is_pbg (v : value) : bool := match pclass v with Some (PBg _) => true | _ => false end.
Definition b2n (b : bool) : nat := if b then 1%nat else 0%nat.
Definition loop_good (P : list value) (K : dict) : Prop :=
  Forall (fun v => pclass v <> None) P /\
  (length (filter is_pfg P) + b2n (dict_mem k_fg K) <= 1)%nat /\
  (length (filter is_pbg P) + b2n (dict_mem k_bg K) <= 1)%nat.
Definition loop_get (P : list value) (K : dict) (k : str) : option value :=
  match last_set k P with Some x => Some x | None => dict_get k K end.

Lemma dict_mem_set k v d k' : dict_mem k' (dict_set k v d) = str_eqb k k' || dict_mem k' d.
Proof. unfold dict_mem. rewrite dict_get_set. destruct (str_eqb k k'); reflexivity. Qed.

Lemma k_fg_bg : str_eqb k_fg k_bg = false /\ str_eqb k_bg k_fg = false.
Proof. split; reflexivity. Qed.

Lemma args_loop_char : forall P K,
  (exists d, args_loop P K = Ok d /\ loop_good P K /\ forall k, dict_get k d = loop_get P K k) \/
  (args_loop P K = Raise ValueError /\ ~ loop_good P K).
Proof.
  induction P as [|v P IH]; intros K.
  - left. exists K. split; [reflexivity|]. split.
    + split; [constructor|]. cbn [filter length]. destruct (dict_mem k_fg K), (dict_mem k_bg K); cbn; lia.
    + reflexivity.
  - cbn [args_loop]. rewrite arg_step_pclass.
    pose proof (pclass_pos_cls v) as L.
    unfold loop_good, loop_get. cbn [last_set filter].
    assert (Ifg : is_pfg v = match pclass v with Some (PFg _) => true | _ => false end) by reflexivity.
    assert (Ibg : is_pbg v = match pclass v with Some (PBg _) => true | _ => false end) by reflexivity.
    unfold sets.
    destruct (pclass v) as [[n|n|a]|] eqn:Ev; rewrite Ifg, Ibg; clear Ifg Ibg.
    + (* names fg *)
      destruct (dict_mem k_fg K) eqn:Em; cbn [bind].
      * right. split; [reflexivity|]. intros (_ & H & _). cbn [length b2n] in H. lia.
      * destruct (IH (dict_set k_fg (VInt (Z.of_N n)) K)) as [(d & E & (G1 & G2 & G3) & G)|(E & G)].
        -- left. exists d. split; [assumption|].
           rewrite dict_mem_set, str_eqb_refl in G2. rewrite dict_mem_set in G3.
           destruct k_fg_bg as [Efb _]. rewrite Efb in G3. cbn [orb b2n length] in *.
           split; [split; [constructor; [congruence|assumption]| split; lia]|].
           intros k. rewrite G. unfold loop_get. rewrite dict_get_set.
           destruct (last_set k P); [reflexivity|]. destruct (str_eqb _ k); reflexivity.
        -- right. split; [assumption|]. intros (F1 & F2 & F3). apply G.
           unfold loop_good. rewrite !dict_mem_set, str_eqb_refl. destruct k_fg_bg as [Efb _]. rewrite Efb.
           cbn [orb b2n length] in *. inversion F1; subst. repeat split; [assumption|lia|lia].
    + (* names bg *)
      destruct (dict_mem k_bg K) eqn:Em; cbn [bind].
      * right. split; [reflexivity|]. intros (_ & _ & H). cbn [length b2n] in H. lia.
      * destruct (IH (dict_set k_bg (VInt (Z.of_N n)) K)) as [(d & E & (G1 & G2 & G3) & G)|(E & G)].
        -- left. exists d. split; [assumption|].
           rewrite dict_mem_set, str_eqb_refl in G3. rewrite dict_mem_set in G2.
           destruct k_fg_bg as [_ Ebf]. rewrite Ebf in G2. cbn [orb b2n length] in *.
           split; [split; [constructor; [congruence|assumption]| split; lia]|].
           intros k. rewrite G. unfold loop_get. rewrite dict_get_set.
           destruct (last_set k P); [reflexivity|]. destruct (str_eqb _ k); reflexivity.
        -- right. split; [assumption|]. intros (F1 & F2 & F3). apply G.
           unfold loop_good. rewrite !dict_mem_set, str_eqb_refl. destruct k_fg_bg as [_ Ebf]. rewrite Ebf.
           cbn [orb b2n length] in *. inversion F1; subst. repeat split; [assumption|lia|lia].
    + (* a style name *)
      destruct L as (_ & N1 & N2 & _). cbn [bind].
      assert (M1 : str_eqb a k_fg = false) by now apply str_eqb_neq.
      assert (M2 : str_eqb a k_bg = false) by now apply str_eqb_neq.
      destruct (IH (dict_set a (VBool true) K)) as [(d & E & (G1 & G2 & G3) & G)|(E & G)].
      * left. exists d. split; [assumption|].
        rewrite dict_mem_set, M1 in G2. rewrite dict_mem_set, M2 in G3. cbn [orb] in *.
        split; [split; [constructor; [congruence|assumption]| split; assumption]|].
        intros k. rewrite G. unfold loop_get. rewrite dict_get_set.
        destruct (last_set k P); [reflexivity|]. destruct (str_eqb _ k); reflexivity.
      * right. split; [assumption|]. intros (F1 & F2 & F3). apply G.
        unfold loop_good. rewrite !dict_mem_set, M1, M2. cbn [orb].
        inversion F1; subst. repeat split; assumption.
    + right. cbn [bind]. split; [reflexivity|]. intros (F1 & _). inversion F1; subst. congruence.
Qed.

(* ---- after the loop: the key check and the colour normalisation ------------------------------- *)
Definition finish (d : dict) : res dict :=
  if forallb (fun kv => known_key (fst kv)) d then
    bind (norm_color k_fg fg_colors d) (norm_color k_bg bg_colors)
  else Raise ValueError.
Definition color_okb (t : list (str * N)) (o : option value) : bool :=
  match o with None => true | Some v => val_in_values (norm_val t v) t end.
Definition fin_get (g : str -> option value) (k : str) : option value :=
  if str_eqb k_fg k then option_map (norm_val fg_colors) (g k)
  else if str_eqb k_bg k then option_map (norm_val bg_colors) (g k)
  else g k.
Definition fin_good (g : str -> option value) : Prop :=
  (forall k, g k <> None -> known_key k = true) /\
  color_okb fg_colors (g k_fg) = true /\ color_okb bg_colors (g k_bg) = true.

Lemma norm_color_char key t d :
  match dict_get key d with
  | None => norm_color key t d = Ok d
  | Some v =>
      if val_in_values (norm_val t v) t
      then exists d', norm_color key t d = Ok d' /\
             forall k, dict_get k d' = if str_eqb key k then Some (norm_val t v) else dict_get k d
      else norm_color key t d = Raise ValueError
  end.
Proof.
  unfold norm_color, norm_val. destruct (dict_get key d) as [v|] eqn:E; [|reflexivity].
  destruct (val_tab_get v t) as [n|] eqn:En.
  - rewrite dict_get_set, str_eqb_refl.
    destruct (val_in_values (VInt (Z.of_N n)) t); [|reflexivity].
    eexists. split; [reflexivity|]. intros k. apply dict_get_set.
  - rewrite E. destruct (val_in_values v t); [|reflexivity].
    exists d. split; [reflexivity|]. intros k.
    destruct (str_eqb key k) eqn:Ek; [|reflexivity]. apply str_eqb_eq in Ek. now subst.
Qed.

Lemma forallb_known d :
  forallb (fun kv => known_key (fst kv)) d = true <-> (forall k, dict_get k d <> None -> known_key k = true).
Proof.
  rewrite forallb_forall. split.
  - intros H k G. destruct (dict_get k d) as [v|] eqn:E; [|congruence].
    apply dict_get_in in E. apply (H _ E).
  - intros H [k v] I. cbn [fst]. apply H. intro E. apply dict_get_none in E. apply E.
    now apply (in_map fst) in I.
Qed.

Lemma finish_char d :
  (exists d', finish d = Ok d' /\ fin_good (fun k => dict_get k d) /\
              forall k, dict_get k d' = fin_get (fun k => dict_get k d) k) \/
  (finish d = Raise ValueError /\ ~ fin_good (fun k => dict_get k d)).
Proof.
  unfold finish, fin_good.
  destruct (forallb (fun kv => known_key (fst kv)) d) eqn:Ek.
  2:{ right. split; [reflexivity|]. intros (H & _). apply forallb_known in H. congruence. }
  pose proof (proj1 (forallb_known d) Ek) as Hk.
  pose proof (norm_color_char k_fg fg_colors d) as F.
  unfold color_okb.
  destruct (dict_get k_fg d) as [v|] eqn:Efg.
  - destruct (val_in_values (norm_val fg_colors v) fg_colors) eqn:Ev.
    2:{ right. rewrite F. split; [reflexivity|]. intros (_ & H & _). discriminate. }
    destruct F as (d1 & E1 & G1). rewrite E1. cbn [bind].
    pose proof (norm_color_char k_bg bg_colors d1) as B.
    rewrite G1 in B. destruct k_fg_bg as [Efb Ebf]. rewrite Efb in B.
    destruct (dict_get k_bg d) as [w|] eqn:Ebg.
    + destruct (val_in_values (norm_val bg_colors w) bg_colors) eqn:Ew.
      2:{ right. split; [assumption|]. intros (_ & _ & H). discriminate. }
      destruct B as (d2 & E2 & G2). left. exists d2. split; [assumption|].
      split; [repeat split; assumption|].
      intros k. rewrite G2, G1. unfold fin_get.
      destruct (str_eqb k_bg k) eqn:E3.
      * apply str_eqb_eq in E3. subst k. rewrite Efb, Ebg. reflexivity.
      * destruct (str_eqb k_fg k) eqn:E4; [|reflexivity].
        apply str_eqb_eq in E4. subst k. now rewrite Efg.
    + left. exists d1. split; [assumption|]. split; [repeat split; assumption|].
      intros k. rewrite G1. unfold fin_get.
      destruct (str_eqb k_fg k) eqn:E4.
      * apply str_eqb_eq in E4. subst k. now rewrite Efg.
      * destruct (str_eqb k_bg k) eqn:E3; [|reflexivity].
        apply str_eqb_eq in E3. subst k. now rewrite Ebg.
  - rewrite F. cbn [bind].
    pose proof (norm_color_char k_bg bg_colors d) as B.
    destruct (dict_get k_bg d) as [w|] eqn:Ebg.
    + destruct (val_in_values (norm_val bg_colors w) bg_colors) eqn:Ew.
      2:{ right. split; [assumption|]. intros (_ & _ & H). discriminate. }
      destruct B as (d2 & E2 & G2). left. exists d2. split; [assumption|].
      split; [repeat split; assumption|].
      intros k. rewrite G2. unfold fin_get.
      destruct (str_eqb k_fg k) eqn:E4.
      * apply str_eqb_eq in E4. subst k. destruct k_fg_bg as [_ ->]. now rewrite Efg.
      * destruct (str_eqb k_bg k) eqn:E3; [|reflexivity].
        apply str_eqb_eq in E3. subst k. now rewrite Ebg.
    + left. exists d. split; [assumption|]. split; [repeat split; assumption|].
      intros k. unfold fin_get.
      destruct (str_eqb k_fg k) eqn:E4.
      * apply str_eqb_eq in E4. subst k. now rewrite Efg.
      * destruct (str_eqb k_bg k) eqn:E3; [|reflexivity].
        apply str_eqb_eq in E3. subst k. now rewrite Ebg.
Qed.

(* ---- parse_args as a whole, after the style= folding ------------------------------------------ *)
Definition parse_core (P : list value) (K : dict) : res dict := bind (args_loop P K) finish.
Lemma parse_args_core args kw :
  parse_args args kw = parse_core (fst (fold_style args kw)) (snd (fold_style args kw)).
Proof. unfold parse_args. destruct (fold_style args kw) as [P K]. reflexivity. Qed.

Definition core_good (P : list value) (K : dict) : Prop := loop_good P K /\ fin_good (loop_get P K).

Lemma fin_good_ext g g' : (forall k, g k = g' k) -> fin_good g -> fin_good g'.
Proof.
  intros E (H1 & H2 & H3). unfold fin_good. rewrite <- !E. split; [|tauto].
  intros k. rewrite <- E. apply H1.
Qed.

Theorem parse_core_char P K :
  (exists d, parse_core P K = Ok d /\ core_good P K /\
             forall k, dict_get k d = fin_get (loop_get P K) k) \/
  (parse_core P K = Raise ValueError /\ ~ core_good P K).
Proof.
  unfold parse_core, core_good.
  destruct (args_loop_char P K) as [(d & E & LG & G)|(E & NG)]; rewrite E; cbn [bind].
  2:{ right. split; [reflexivity | tauto]. }
  destruct (finish_char d) as [(d' & E' & FG & G')|(E' & NF)].
  - left. exists d'. split; [assumption|]. split.
    + split; [assumption|]. apply (fin_good_ext (fun k => dict_get k d)); assumption.
    + intros k. rewrite G'. unfold fin_get. rewrite !G. reflexivity.
  - right. split; [assumption|]. intros (_ & F). apply NF.
    apply (fin_good_ext (loop_get P K)); [intros; symmetry; apply G | assumption].
Qed.

(* ---- the style= keyword joins the positional arguments ------------------------------------------ *)
Lemma distinct_keywords_NoDup kw : distinct_keywords kw = true <-> NoDup (map fst kw).
Proof. apply nodupb_NoDup. apply str_eqb_eq. Qed.

Lemma NoDup_app_remove_mid {X} (l1 l2 : list X) x : NoDup (l1 ++ x :: l2) -> NoDup (l1 ++ l2).
Proof. apply NoDup_remove_1. Qed.

Lemma kw_cls_style v : kw_cls (k_style, v) = pos_cls v.
Proof. reflexivity. Qed.

Lemma fold_style_perm args kw : NoDup (map fst kw) ->
  let P := fst (fold_style args kw) in
  let K := snd (fold_style args kw) in
  NoDup (map fst K) /\ ~ In k_style (map fst K) /\
  Permutation (map pos_cls P ++ map kw_cls K) (classes args kw).
Proof.
  intros ND. unfold fold_style, classes.
  destruct (dict_get k_style kw) as [v|] eqn:E; cbn [fst snd].
  - destruct (dict_del_split k_style v kw ND E) as (l1 & l2 & E1 & E2 & E3).
    rewrite E2. split; [|split].
    + rewrite E1, map_app in ND. cbn [map] in ND. rewrite map_app. now apply NoDup_remove_1 in ND.
    + assumption.
    + rewrite E1, !map_app. cbn [map]. rewrite kw_cls_style, <- !app_assoc. cbn [app].
      apply Permutation_app_head. apply Permutation_middle.
  - split; [assumption|]. split; [now apply dict_get_none in E | apply Permutation_refl].
Qed.

(* ---- counting ---------------------------------------------------------------------------------- *)
Lemma goods_app a b : goods (a ++ b) = goods a ++ goods b.
Proof. unfold goods. apply flat_map_app. Qed.
Lemma count_key_app k a b : count_key k (a ++ b) = (count_key k a + count_key k b)%nat.
Proof. unfold count_key. now rewrite filter_app, app_length. Qed.
Lemma goods_perm a b : Permutation a b -> Permutation (goods a) (goods b).
Proof.
  induction 1 as [|x a b H IH|x y a|a b c H1 IH1 H2 IH2]; cbn [goods flat_map].
  - constructor.
  - apply Permutation_app_head. exact IH.
  - rewrite !app_assoc. apply Permutation_app_tail. apply Permutation_app_comm.
  - eapply Permutation_trans; eassumption.
Qed.
Lemma count_key_perm k a b : Permutation a b -> count_key k a = count_key k b.
Proof.
  induction 1 as [|x a b H IH|x y a|a b c H1 IH1 H2 IH2]; unfold count_key in *; cbn [filter].
  - reflexivity.
  - destruct (akey_eqb k (akey_of x)); cbn [length]; now rewrite IH.
  - destruct (akey_eqb k (akey_of x)), (akey_eqb k (akey_of y)); reflexivity.
  - congruence.
Qed.
Lemma count_key_zero k ms : ~ In k (map akey_of ms) -> count_key k ms = 0%nat.
Proof.
  induction ms as [|m ms IH]; [reflexivity|]. cbn [map In]. intros H. unfold count_key in *. cbn [filter].
  destruct (akey_eqb k (akey_of m)) eqn:E.
  - apply akey_eqb_eq in E. exfalso. apply H. now left.
  - apply IH. tauto.
Qed.
Lemma nodup_count k ms : NoDup (map akey_of ms) -> (count_key k ms <= 1)%nat.
Proof.
  induction ms as [|m ms IH]; cbn [map]; intros ND; [unfold count_key; cbn; lia|].
  inversion ND as [|? ? N1 N2]; subst. unfold count_key in *. cbn [filter].
  destruct (akey_eqb k (akey_of m)) eqn:E.
  - apply akey_eqb_eq in E. subst k. cbn [length].
    pose proof (count_key_zero _ _ N1) as Z. unfold count_key in Z. rewrite Z. lia.
  - now apply IH.
Qed.
Lemma count_key_in k m ms : In m ms -> akey_of m = k -> (1 <= count_key k ms)%nat.
Proof.
  induction ms as [|m' ms IH]; cbn [In]; [tauto|]. unfold count_key in *. cbn [filter].
  intros [->|I] E.
  - subst k. replace (akey_eqb (akey_of m) (akey_of m)) with true by (symmetry; now apply akey_eqb_eq).
    cbn [length]. lia.
  - specialize (IH I E). destruct (akey_eqb k (akey_of m')); cbn [length]; lia.
Qed.

(* positional arguments: the model's count of fg names = the reference count *)
Lemma count_pos_fg P : count_key KFg (goods (map pos_cls P)) = length (filter is_pfg P).
Proof.
  induction P as [|v P IH]; [reflexivity|]. cbn [map goods flat_map filter].
  fold (goods (map pos_cls P)). rewrite count_key_app, IH.
  assert (I : is_pfg v = match pclass v with Some (PFg _) => true | _ => false end) by reflexivity.
  pose proof (pclass_pos_cls v) as L.
  destruct (pclass v) as [[n|n|a]|]; rewrite I; clear I.
  - destruct L as (c & -> & _). reflexivity.
  - destruct L as (c & -> & _). reflexivity.
  - destruct L as (_ & _ & _ & L). destruct (style_named a); destruct L as [-> _]; reflexivity.
  - rewrite L. reflexivity.
Qed.
Lemma count_pos_bg P : count_key KBg (goods (map pos_cls P)) = length (filter is_pbg P).
Proof.
  induction P as [|v P IH]; [reflexivity|]. cbn [map goods flat_map filter].
  fold (goods (map pos_cls P)). rewrite count_key_app, IH.
  assert (I : is_pbg v = match pclass v with Some (PBg _) => true | _ => false end) by reflexivity.
  pose proof (pclass_pos_cls v) as L.
  destruct (pclass v) as [[n|n|a]|]; rewrite I; clear I.
  - destruct L as (c & -> & _). reflexivity.
  - destruct L as (c & -> & _). reflexivity.
  - destruct L as (_ & _ & _ & L). destruct (style_named a); destruct L as [-> _]; reflexivity.
  - rewrite L. reflexivity.
Qed.

(* keywords other than style= : which attribute a keyword can name *)
Lemma kw_cls_cases k v : k <> k_style ->
  (k = k_fg /\ kw_cls (k, v) = color_value_cls AFg 30 v) \/
  (k = k_bg /\ kw_cls (k, v) = color_value_cls ABg 40 v) \/
  (k <> k_fg /\ k <> k_bg /\
   kw_cls (k, v) = match style_named k with
                   | Some st => match v with VBool b => Good (ASt st b) | _ => Outside end
                   | None => Bad
                   end).
Proof.
  intros Ns. unfold kw_cls.
  destruct (str_eqb k n_fg) eqn:E1; [apply str_eqb_eq in E1; left; now split|].
  destruct (str_eqb k n_bg) eqn:E2; [apply str_eqb_eq in E2; right; left; now split|].
  destruct (str_eqb k n_style) eqn:E3; [apply str_eqb_eq in E3; contradiction|].
  right. right. apply str_eqb_neq in E1, E2. repeat split; assumption.
Qed.
Lemma color_value_cls_key mk base v m : color_value_cls mk base v = Good m -> exists c, m = mk c.
Proof.
  unfold color_value_cls. destruct v as [z|b|s|]; try discriminate.
  - destruct (color_numbered base z); [|discriminate]. intros [= <-]. eauto.
  - destruct (color_named s); [|discriminate]. intros [= <-]. eauto.
Qed.
Lemma kw_good_key k v m : k <> k_style -> kw_cls (k, v) = Good m ->
  match akey_of m with KFg => k = k_fg | KBg => k = k_bg | KSt st => k = style_key st end.
Proof.
  intros Ns E. destruct (kw_cls_cases k v Ns) as [(-> & F)|[(-> & F)|(N1 & N2 & F)]]; rewrite F in E.
  - apply color_value_cls_key in E as (c & ->). reflexivity.
  - apply color_value_cls_key in E as (c & ->). reflexivity.
  - destruct (style_named k) as [st|] eqn:Es; [|discriminate]. destruct v; try discriminate.
    injection E as <-. cbn [akey_of]. rewrite style_key_name. now apply style_named_some.
Qed.
Lemma count_kw_le key (kk : str) K : NoDup (map fst K) -> ~ In k_style (map fst K) ->
  (forall k v m, k <> k_style -> kw_cls (k, v) = Good m -> akey_of m = key -> k = kk) ->
  (count_key key (goods (map kw_cls K)) <= b2n (dict_mem kk K))%nat.
Proof.
  intros ND NS H. induction K as [|[k v] K IH]; [cbn; lia|].
  cbn [map fst] in ND, NS. inversion ND as [|? ? N1 N2]; subst.
  cbn [map goods flat_map]. fold (goods (map kw_cls K)). rewrite count_key_app.
  assert (Nk : k <> k_style) by (intro; subst; apply NS; now left).
  assert (NS' : ~ In k_style (map fst K)) by (intro; apply NS; now right).
  specialize (IH N2 NS').
  unfold dict_mem. cbn [dict_get]. destruct (str_eqb k kk) eqn:E.
  - apply str_eqb_eq in E. subst kk.
    assert (Z : dict_mem k K = false).
    { destruct (dict_mem k K) eqn:F; [|reflexivity]. apply dict_mem_true in F. contradiction. }
    rewrite Z in IH. cbn [b2n] in *.
    destruct (kw_cls (k, v)) as [m| |]; unfold count_key at 1; cbn [filter length];
      try destruct (akey_eqb key (akey_of m)); cbn [length]; lia.
  - fold (dict_mem kk K).
    destruct (kw_cls (k, v)) as [m| |] eqn:Ec; unfold count_key at 1; cbn [filter length]; try lia.
    destruct (akey_eqb key (akey_of m)) eqn:Ea; cbn [length]; [|lia].
    apply akey_eqb_eq in Ea. symmetry in Ea. specialize (H k v m Nk Ec Ea). subst kk.
    rewrite str_eqb_refl in E. discriminate.
Qed.

(* ---- membership in the named attributes ------------------------------------------------------------ *)
Lemma in_goods m cs : In m (goods cs) <-> In (Good m) cs.
Proof.
  unfold goods. rewrite in_flat_map. split.
  - intros (c & I & H). destruct c; cbn in H; try tauto. destruct H as [->|[]]. assumption.
  - intros I. exists (Good m). split; [assumption | now left].
Qed.

(* ---- what the loop writes --------------------------------------------------------------------------- *)
Lemma last_set_some k P x : last_set k P = Some x -> exists v, In v P /\ sets v = Some (k, x).
Proof.
  induction P as [|v P IH]; cbn [last_set]; [discriminate|].
  destruct (last_set k P) as [y|].
  - intros [= <-]. destruct (IH eq_refl) as (w & I & S). exists w. split; [now right | assumption].
  - destruct (sets v) as [[k' y]|] eqn:S; [|discriminate].
    destruct (str_eqb k' k) eqn:E; [|discriminate]. apply str_eqb_eq in E. subst k'.
    intros [= <-]. exists v. split; [now left | assumption].
Qed.
Lemma last_set_none k P v x : last_set k P = None -> In v P -> sets v <> Some (k, x).
Proof.
  induction P as [|w P IH]; cbn [last_set In]; [tauto|].
  destruct (last_set k P) as [y|]; [discriminate|].
  intros H [->|I].
  - intros S. rewrite S, str_eqb_refl in H. discriminate.
  - now apply IH.
Qed.
Lemma sets_cases v k x : sets v = Some (k, x) ->
  (is_pfg v = true /\ k = k_fg /\ exists c, pos_cls v = Good (AFg c) /\ x = VInt (Z.of_N (fg_value c))) \/
  (is_pbg v = true /\ k = k_bg /\ exists c, pos_cls v = Good (ABg c) /\ x = VInt (Z.of_N (bg_value c))) \/
  (v = VStr k /\ x = VBool true /\ k <> k_fg /\ k <> k_bg /\
   match style_named k with
   | Some st => pos_cls v = Good (ASt st true) /\ k = style_key st
   | None => pos_cls v = Bad /\ known_key k = false
   end).
Proof.
  unfold sets, is_pfg, is_pbg. pose proof (pclass_pos_cls v) as L.
  destruct (pclass v) as [[n|n|a]|]; intros [= <- <-].
  - left. destruct L as (c & L1 & ->). repeat split. eauto.
  - right. left. destruct L as (c & L1 & ->). repeat split. eauto.
  - right. right. tauto.
Qed.

Definition core_classes (P : list value) (K : dict) : list cls := map pos_cls P ++ map kw_cls K.

Lemma in_keys_get k K : In k (map fst K) -> dict_get k K <> None.
Proof. intros I E. now apply dict_get_none in E. Qed.
Lemma loop_get_kw P K k : In k (map fst K) -> loop_get P K k <> None.
Proof.
  intros I. unfold loop_get. destruct (last_set k P); [discriminate | now apply in_keys_get].
Qed.
Lemma loop_get_pos P K v k x : In v P -> sets v = Some (k, x) -> loop_get P K k <> None.
Proof.
  intros I S. unfold loop_get. destruct (last_set k P) eqn:E; [discriminate|].
  exfalso. exact (last_set_none k P v x E I S).
Qed.
Lemma filter_in_length {X} (f : X -> bool) l x : In x l -> f x = true -> (1 <= length (filter f l))%nat.
Proof.
  intros I F. assert (J : In x (filter f l)) by (apply filter_In; now split).
  destruct (filter f l); [destruct J | cbn; lia].
Qed.
Lemma known_key_cases k : known_key k = true -> k = k_fg \/ k = k_bg \/ exists st, style_named k = Some st.
Proof.
  unfold known_key. rewrite styles_table.
  destruct (str_eqb k k_fg) eqn:E1; [apply str_eqb_eq in E1; now left|].
  destruct (str_eqb k k_bg) eqn:E2; [apply str_eqb_eq in E2; right; now left|].
  destruct (style_named k) as [st|]; [|discriminate]. intros _. right. right. eauto.
Qed.
Lemma known_style_key st : known_key (style_key st) = true.
Proof. destruct st; reflexivity. Qed.

(* ---- accepted by the model  ==>  nothing Bad, fg and bg named at most once ----------------------- *)
Lemma core_good_sound P K : NoDup (map fst K) -> ~ In k_style (map fst K) -> core_good P K ->
  ~ In Bad (core_classes P K) /\
  (count_key KFg (goods (core_classes P K)) <= 1)%nat /\
  (count_key KBg (goods (core_classes P K)) <= 1)%nat.
Proof.
  intros ND NS ((LF & Lfg & Lbg) & (Fk & Ffg & Fbg)). unfold core_classes. split; [|split].
  - intros I. apply in_app_or in I as [I|I]; apply in_map_iff in I as (x & E & I).
    + (* a positional argument *)
      rewrite Forall_forall in LF. specialize (LF x I).
      destruct (sets x) as [[k y]|] eqn:S.
      * destruct (sets_cases x k y S) as [(_ & _ & c & F & _)|[(_ & _ & c & F & _)|(_ & _ & _ & _ & F)]];
          try congruence.
        destruct (style_named k); [destruct F; congruence|]. destruct F as [_ F].
        pose proof (Fk k (loop_get_pos P K x k y I S)). congruence.
      * unfold sets in S. destruct (pclass x) as [[n|n|a]|]; try discriminate. congruence.
    + (* a keyword *)
      destruct x as [k v].
      assert (Ik : In k (map fst K)) by (apply (in_map fst) in I; exact I).
      assert (Nk : k <> k_style) by (intro; subst; contradiction).
      pose proof (Fk k (loop_get_kw P K k Ik)) as Kn.
      destruct (kw_cls_cases k v Nk) as [(-> & F)|[(-> & F)|(N1 & N2 & F)]]; rewrite F in E.
      * (* fg= : no positional argument may have written it, so its value was checked *)
        assert (M : dict_mem k_fg K = true) by now apply dict_mem_true.
        rewrite M in Lfg. cbn [b2n] in Lfg.
        unfold loop_get in Ffg. destruct (last_set k_fg P) as [y|] eqn:El.
        -- apply last_set_some in El as (w & Iw & Sw).
           destruct (sets_cases w _ _ Sw) as [(Hw & _)|[(_ & Hw & _)|(_ & _ & Hw & _)]];
             [|discriminate|congruence].
           pose proof (filter_in_length is_pfg P w Iw Hw). lia.
        -- rewrite (dict_in_get _ _ _ ND I) in Ffg. cbn [color_okb] in Ffg.
           pose proof (fg_value_facts v) as Fv. rewrite Ffg in Fv. destruct Fv as (c & Fv & _). congruence.
      * assert (M : dict_mem k_bg K = true) by now apply dict_mem_true.
        rewrite M in Lbg. cbn [b2n] in Lbg.
        unfold loop_get in Fbg. destruct (last_set k_bg P) as [y|] eqn:El.
        -- apply last_set_some in El as (w & Iw & Sw).
           destruct (sets_cases w _ _ Sw) as [(_ & Hw & _)|[(Hw & _)|(_ & _ & _ & Hw & _)]];
             [discriminate| |congruence].
           pose proof (filter_in_length is_pbg P w Iw Hw). lia.
        -- rewrite (dict_in_get _ _ _ ND I) in Fbg. cbn [color_okb] in Fbg.
           pose proof (bg_value_facts v) as Fv. rewrite Fbg in Fv. destruct Fv as (c & Fv & _). congruence.
      * destruct (known_key_cases k Kn) as [->|[->|(st & Es)]]; try congruence.
        rewrite Es in E. destruct v; discriminate.
  - rewrite goods_app, count_key_app, count_pos_fg.
    pose proof (count_kw_le KFg k_fg K ND NS) as H.
    assert (count_key KFg (goods (map kw_cls K)) <= b2n (dict_mem k_fg K))%nat; [|lia].
    apply H. intros k v m Nk E Ea. pose proof (kw_good_key k v m Nk E) as G. now rewrite Ea in G.
  - rewrite goods_app, count_key_app, count_pos_bg.
    pose proof (count_kw_le KBg k_bg K ND NS) as H.
    assert (count_key KBg (goods (map kw_cls K)) <= b2n (dict_mem k_bg K))%nat; [|lia].
    apply H. intros k v m Nk E Ea. pose proof (kw_good_key k v m Nk E) as G. now rewrite Ea in G.
Qed.

(* ---- a valid specification is accepted ------------------------------------------------------------ *)
Lemma norm_val_int t z : norm_val t (VInt z) = VInt z.
Proof. reflexivity. Qed.

Lemma core_good_complete P K : NoDup (map fst K) -> ~ In k_style (map fst K) ->
  Forall (fun c => is_good c = true) (core_classes P K) ->
  NoDup (map akey_of (goods (core_classes P K))) ->
  core_good P K.
Proof.
  intros ND NS FG NA. unfold core_classes in *. rewrite Forall_forall in FG.
  assert (GP : forall v, In v P -> exists m, pos_cls v = Good m).
  { intros v I. destruct (pos_cls v) as [m| |] eqn:E; [eauto| |];
      (assert (H : is_good (pos_cls v) = true) by (apply FG; apply in_or_app; left; now apply in_map);
       rewrite E in H; discriminate). }
  assert (GK : forall k v, In (k, v) K -> exists m, kw_cls (k, v) = Good m).
  { intros k v I. destruct (kw_cls (k, v)) as [m| |] eqn:E; [eauto| |];
      (assert (H : is_good (kw_cls (k, v)) = true)
         by (apply FG; apply in_or_app; right; now apply (in_map kw_cls) in I);
       rewrite E in H; discriminate). }
  assert (CF := nodup_count KFg _ NA). assert (CB := nodup_count KBg _ NA).
  rewrite goods_app, count_key_app, count_pos_fg in CF.
  rewrite goods_app, count_key_app, count_pos_bg in CB.
  split; [split; [|split]|split; [|split]].
  - apply Forall_forall. intros v I E. destruct (GP v I) as (m & G).
    pose proof (pclass_pos_cls v) as L. rewrite E in L. congruence.
  - destruct (dict_mem k_fg K) eqn:M; cbn [b2n]; [|lia].
    apply dict_mem_true in M. apply in_map_iff in M as ([k v] & Ek & I). cbn [fst] in Ek. subst k.
    destruct (GK _ _ I) as (m & G).
    assert (Nk : k_fg <> k_style) by discriminate.
    destruct (kw_cls_cases k_fg v Nk) as [(_ & F)|[(F & _)|(F & _)]]; try congruence; try discriminate.
    rewrite F in G. pose proof (color_value_cls_key _ _ _ _ G) as (c & ->).
    assert (1 <= count_key KFg (goods (map kw_cls K)))%nat; [|lia].
    apply (count_key_in KFg (AFg c)); [|reflexivity]. apply in_goods. rewrite <- G, <- F.
    now apply (in_map kw_cls) in I.
  - destruct (dict_mem k_bg K) eqn:M; cbn [b2n]; [|lia].
    apply dict_mem_true in M. apply in_map_iff in M as ([k v] & Ek & I). cbn [fst] in Ek. subst k.
    destruct (GK _ _ I) as (m & G).
    assert (Nk : k_bg <> k_style) by discriminate.
    destruct (kw_cls_cases k_bg v Nk) as [(F & _)|[(_ & F)|(_ & F & _)]]; try congruence; try discriminate.
    rewrite F in G. pose proof (color_value_cls_key _ _ _ _ G) as (c & ->).
    assert (1 <= count_key KBg (goods (map kw_cls K)))%nat; [|lia].
    apply (count_key_in KBg (ABg c)); [|reflexivity]. apply in_goods. rewrite <- G, <- F.
    now apply (in_map kw_cls) in I.
  - (* every key of the final dict is known *)
    intros k H. unfold loop_get in H. destruct (last_set k P) as [y|] eqn:El.
    + apply last_set_some in El as (w & Iw & Sw). destruct (GP w Iw) as (m & G).
      destruct (sets_cases w _ _ Sw) as [(_ & -> & _)|[(_ & -> & _)|(_ & _ & _ & _ & F)]]; try reflexivity.
      destruct (style_named k) as [st|]; destruct F as [F1 F2]; [|congruence].
      subst k. apply known_style_key.
    + destruct (dict_get k K) as [v|] eqn:Eg; [|congruence]. apply dict_get_in in Eg.
      destruct (GK _ _ Eg) as (m & G).
      assert (Nk : k <> k_style) by (intro; subst; apply NS; now apply (in_map fst) in Eg).
      destruct (kw_cls_cases k v Nk) as [(-> & F)|[(-> & F)|(N1 & N2 & F)]]; try reflexivity.
      rewrite F in G. destruct (style_named k) as [st|] eqn:Es; [|discriminate].
      apply style_named_some in Es. subst k. rewrite <- style_key_name. apply known_style_key.
  - (* the fg value is a colour number *)
    unfold loop_get. destruct (last_set k_fg P) as [y|] eqn:El.
    + apply last_set_some in El as (w & Iw & Sw).
      destruct (sets_cases w _ _ Sw) as [(_ & _ & c & _ & ->)|[(_ & F & _)|(_ & _ & F & _)]];
        [|discriminate|congruence].
      cbn [color_okb]. rewrite norm_val_int. apply fg_value_in.
    + destruct (dict_get k_fg K) as [v|] eqn:Eg; [|reflexivity]. apply dict_get_in in Eg.
      destruct (GK _ _ Eg) as (m & G). cbn [color_okb].
      pose proof (fg_value_facts v) as Fv.
      destruct (val_in_values (norm_val fg_colors v) fg_colors); [reflexivity|].
      change (kw_cls (k_fg, v)) with (color_value_cls AFg 30 v) in G. congruence.
  - unfold loop_get. destruct (last_set k_bg P) as [y|] eqn:El.
    + apply last_set_some in El as (w & Iw & Sw).
      destruct (sets_cases w _ _ Sw) as [(_ & F & _)|[(_ & _ & c & _ & ->)|(_ & _ & _ & F & _)]];
        [discriminate| |congruence].
      cbn [color_okb]. rewrite norm_val_int. apply bg_value_in.
    + destruct (dict_get k_bg K) as [v|] eqn:Eg; [|reflexivity]. apply dict_get_in in Eg.
      destruct (GK _ _ Eg) as (m & G). cbn [color_okb].
      pose proof (bg_value_facts v) as Fv.
      destruct (val_in_values (norm_val bg_colors v) bg_colors); [reflexivity|].
      change (kw_cls (k_bg, v)) with (color_value_cls ABg 40 v) in G. congruence.
Qed.

Definition key_str (m : assign) : str :=
  match m with AFg _ => k_fg | ABg _ => k_bg | ASt st _ => style_key st end.

Lemma pos_good_sets w m : pos_cls w = Good m -> exists x, sets w = Some (key_str m, x).
Proof.
  intros E. unfold sets. pose proof (pclass_pos_cls w) as L.
  destruct (pclass w) as [[n|n|a]|].
  - destruct L as (c & L & _). rewrite L in E. injection E as <-. eauto.
  - destruct L as (c & L & _). rewrite L in E. injection E as <-. eauto.
  - destruct L as (_ & _ & _ & L). destruct (style_named a) as [st|]; destruct L as [L1 L2]; [|congruence].
    rewrite L1 in E. injection E as <-. subst a. eauto.
  - congruence.
Qed.
Lemma kw_good_key_str k v m : k <> k_style -> kw_cls (k, v) = Good m -> k = key_str m.
Proof. intros Nk E. pose proof (kw_good_key k v m Nk E) as H. destruct m; exact H. Qed.

Lemma has_fg a c : has a (AFg c) = true <-> a_fg a = Some c.
Proof. cbn [has]. destruct (a_fg a) as [x|]; cbn [opt_eqb]; [rewrite color_eqb_eq|]; split; congruence. Qed.
Lemma has_bg a c : has a (ABg c) = true <-> a_bg a = Some c.
Proof. cbn [has]. destruct (a_bg a) as [x|]; cbn [opt_eqb]; [rewrite color_eqb_eq|]; split; congruence. Qed.
Lemma has_st a st b : has a (ASt st b) = true <-> get_style st a = Some b.
Proof.
  cbn [has]. destruct (get_style st a) as [x|]; cbn [opt_eqb]; [|split; congruence].
  destruct x, b; cbn; split; congruence.
Qed.

Lemma style_key_not_color st : str_eqb k_fg (style_key st) = false /\ str_eqb k_bg (style_key st) = false.
Proof. destruct st; split; reflexivity. Qed.
Lemma style_key_not_style st : style_key st <> k_style.
Proof. destruct st; discriminate. Qed.

Section Fields.
  Variables (P : list value) (K : dict) (a : atts) (d : dict).
  Hypothesis ND : NoDup (map fst K).
  Hypothesis NS : ~ In k_style (map fst K).
  Hypothesis GK : forall k v, In (k, v) K -> exists m, kw_cls (k, v) = Good m.
  Hypothesis EX : forall m, In (Good m) (core_classes P K) <-> has a m = true.
  Hypothesis G : forall k, dict_get k d = fin_get (loop_get P K) k.

  Lemma in_pos w m : In w P -> pos_cls w = Good m -> has a m = true.
  Proof.
    intros I E. apply EX. unfold core_classes. apply in_or_app. left. rewrite <- E. now apply in_map.
  Qed.
  Lemma in_kw k v m : In (k, v) K -> kw_cls (k, v) = Good m -> has a m = true.
  Proof.
    intros I E. apply EX. unfold core_classes. apply in_or_app. right. rewrite <- E.
    now apply (in_map kw_cls) in I.
  Qed.
  (* an attribute that [a] sets was written by the loop or given as a keyword *)
  Lemma has_source m : has a m = true -> loop_get P K (key_str m) <> None.
  Proof.
    intros H. apply EX in H. unfold core_classes in H. apply in_app_or in H as [H|H];
      apply in_map_iff in H as (x & E & I).
    - destruct (pos_good_sets x m E) as (y & S). exact (loop_get_pos P K x _ y I S).
    - destruct x as [k v].
      assert (Nk : k <> k_style) by (intro; subst; apply NS; now apply (in_map fst) in I).
      rewrite <- (kw_good_key_str k v m Nk E). apply loop_get_kw. now apply (in_map fst) in I.
  Qed.

  Lemma fg_field : color_field k_fg 30 d = Some (a_fg a).
  Proof.
    unfold color_field. rewrite G. unfold fin_get. rewrite str_eqb_refl.
    destruct (loop_get P K k_fg) as [y|] eqn:E; cbn [option_map].
    - unfold loop_get in E. destruct (last_set k_fg P) as [y'|] eqn:El.
      + injection E as ->. apply last_set_some in El as (w & Iw & Sw).
        destruct (sets_cases w _ _ Sw) as [(_ & _ & c & F & ->)|[(_ & F & _)|(_ & _ & F & _)]];
          [|discriminate|congruence].
        rewrite norm_val_int, color_of_value_fg. apply (in_pos w _ Iw), has_fg in F. now rewrite F.
      + apply dict_get_in in E. destruct (GK _ _ E) as (m & Gm).
        change (kw_cls (k_fg, y)) with (color_value_cls AFg 30 y) in Gm.
        pose proof (fg_value_facts y) as Fv.
        destruct (val_in_values (norm_val fg_colors y) fg_colors); [|congruence].
        destruct Fv as (c & F1 & F2). rewrite F2.
        change (color_value_cls AFg 30 y) with (kw_cls (k_fg, y)) in F1.
        apply (in_kw _ _ _ E), has_fg in F1. now rewrite F1.
    - destruct (a_fg a) as [c|] eqn:Ea; [|reflexivity].
      apply has_fg, has_source in Ea. cbn [key_str] in Ea. congruence.
  Qed.
  Lemma bg_field : color_field k_bg 40 d = Some (a_bg a).
  Proof.
    unfold color_field. rewrite G. unfold fin_get. destruct k_fg_bg as [-> _]. rewrite str_eqb_refl.
    destruct (loop_get P K k_bg) as [y|] eqn:E; cbn [option_map].
    - unfold loop_get in E. destruct (last_set k_bg P) as [y'|] eqn:El.
      + injection E as ->. apply last_set_some in El as (w & Iw & Sw).
        destruct (sets_cases w _ _ Sw) as [(_ & F & _)|[(_ & _ & c & F & ->)|(_ & _ & _ & F & _)]];
          [discriminate| |congruence].
        rewrite norm_val_int, color_of_value_bg. apply (in_pos w _ Iw), has_bg in F. now rewrite F.
      + apply dict_get_in in E. destruct (GK _ _ E) as (m & Gm).
        change (kw_cls (k_bg, y)) with (color_value_cls ABg 40 y) in Gm.
        pose proof (bg_value_facts y) as Fv.
        destruct (val_in_values (norm_val bg_colors y) bg_colors); [|congruence].
        destruct Fv as (c & F1 & F2). rewrite F2.
        change (color_value_cls ABg 40 y) with (kw_cls (k_bg, y)) in F1.
        apply (in_kw _ _ _ E), has_bg in F1. now rewrite F1.
    - destruct (a_bg a) as [c|] eqn:Ea; [|reflexivity].
      apply has_bg, has_source in Ea. cbn [key_str] in Ea. congruence.
  Qed.
  Lemma st_field st : style_field st d = Some (get_style st a).
  Proof.
    unfold style_field. rewrite G. unfold fin_get.
    destruct (style_key_not_color st) as [-> ->].
    destruct (loop_get P K (style_key st)) as [y|] eqn:E.
    - unfold loop_get in E. destruct (last_set (style_key st) P) as [y'|] eqn:El.
      + injection E as ->. apply last_set_some in El as (w & Iw & Sw).
        destruct (style_key_not_color st) as [N1 N2].
        destruct (sets_cases w _ _ Sw) as [(_ & F & _)|[(_ & F & _)|(_ & -> & _ & _ & F)]].
        * rewrite <- F, str_eqb_refl in N1. discriminate.
        * rewrite <- F, str_eqb_refl in N2. discriminate.
        * rewrite style_key_name, style_named_name in F. destruct F as [F _].
          apply (in_pos w _ Iw), has_st in F. now rewrite F.
      + apply dict_get_in in E. destruct (GK _ _ E) as (m & Gm).
        destruct (kw_cls_cases _ y (style_key_not_style st)) as [(F & _)|[(F & _)|(_ & _ & F)]].
        * destruct (style_key_not_color st) as [N1 _]. rewrite F, str_eqb_refl in N1. discriminate.
        * destruct (style_key_not_color st) as [_ N2]. rewrite F, str_eqb_refl in N2. discriminate.
        * rewrite style_key_name, style_named_name, <- style_key_name in F. rewrite F in Gm.
          destruct y as [z|b|s|]; try discriminate.
          apply (in_kw _ _ _ E), has_st in F. now rewrite F.
    - destruct (get_style st a) as [b|] eqn:Ea; [|reflexivity].
      apply has_st, has_source in Ea. cbn [key_str] in Ea. congruence.
  Qed.
  Lemma fields_atts : atts_of_dict d = Some a.
  Proof.
    unfold atts_of_dict. rewrite fg_field, bg_field, !st_field. destruct a; reflexivity.
  Qed.
End Fields.

(* [a] sets exactly the attributes the specification names *)
Definition exactly (args : list value) (kw : dict) (a : atts) : Prop :=
  forall m, In m (goods (classes args kw)) <-> has a m = true.

Lemma valid_unpack args kw : valid args kw = true ->
  NoDup (map fst kw) /\ Forall (fun c => is_good c = true) (classes args kw) /\
  NoDup (map akey_of (goods (classes args kw))).
Proof.
  unfold valid. rewrite !andb_true_iff. intros [[H1 H2] H3]. split; [|split].
  - now apply distinct_keywords_NoDup.
  - apply Forall_forall. now apply forallb_forall.
  - apply (nodupb_NoDup akey_eqb akey_eqb_eq). exact H3.
Qed.

(* ---- parse_args never raises anything but ValueError ------------------------------------------ *)
Theorem parse_args_total args kw :
  (exists d, parse_args args kw = Ok d) \/ parse_args args kw = Raise ValueError.
Proof.
  rewrite parse_args_core.
  destruct (parse_core_char (fst (fold_style args kw)) (snd (fold_style args kw))) as [(d & E & _)|(E & _)];
    [left; eauto | right; assumption].
Qed.

(* ---- a valid specification parses to exactly the named attributes -------------------------------- *)
Theorem parse_args_valid args kw a :
  valid args kw = true -> exactly args kw a ->
  exists d, parse_args args kw = Ok d /\ atts_of_dict d = Some a.
Proof.
  intros V EX. destruct (valid_unpack args kw V) as (ND & FG & NA).
  rewrite parse_args_core.
  destruct (fold_style_perm args kw ND) as (NDK & NS & PM).
  set (P := fst (fold_style args kw)) in *. set (K := snd (fold_style args kw)) in *.
  fold (core_classes P K) in PM.
  assert (FG' : Forall (fun c => is_good c = true) (core_classes P K)).
  { apply Forall_forall. intros c I. rewrite Forall_forall in FG. apply FG.
    now apply (Permutation_in _ PM). }
  assert (NA' : NoDup (map akey_of (goods (core_classes P K)))).
  { apply (Permutation_NoDup (l := map akey_of (goods (classes args kw)))); [|assumption].
    apply Permutation_map. apply goods_perm. now apply Permutation_sym. }
  pose proof (core_good_complete P K NDK NS FG' NA') as CG.
  destruct (parse_core_char P K) as [(d & E & _ & G)|(_ & N)]; [|contradiction].
  exists d. split; [assumption|].
  apply (fields_atts P K a d NS); [| |assumption].
  - intros k v I. rewrite Forall_forall in FG'.
    assert (H : is_good (kw_cls (k, v)) = true).
    { apply FG'. unfold core_classes. apply in_or_app. right. now apply (in_map kw_cls) in I. }
    destruct (kw_cls (k, v)) as [m| |]; [eauto|discriminate|discriminate].
  - intros m. split; intro I.
    + apply (proj1 (EX m)), in_goods. now apply (Permutation_in _ PM).
    + apply (proj2 (EX m)), in_goods in I. now apply (Permutation_in _ (Permutation_sym PM)).
Qed.

(* ---- every member of the invalid catalogue raises ValueError -------------------------------------- *)
Theorem parse_args_invalid args kw :
  distinct_keywords kw = true -> invalid args kw -> parse_args args kw = Raise ValueError.
Proof.
  intros DK INV. apply distinct_keywords_NoDup in DK.
  rewrite parse_args_core.
  destruct (fold_style_perm args kw DK) as (NDK & NS & PM).
  set (P := fst (fold_style args kw)) in *. set (K := snd (fold_style args kw)) in *.
  fold (core_classes P K) in PM.
  destruct (parse_core_char P K) as [(d & _ & CG & _)|(E & _)]; [exfalso|assumption].
  destruct (core_good_sound P K NDK NS CG) as (B & CF & CB).
  destruct INV as [I|C|C].
  - apply B. now apply (Permutation_in _ (Permutation_sym PM)).
  - rewrite <- (count_key_perm KFg _ _ (goods_perm _ _ PM)) in C. lia.
  - rewrite <- (count_key_perm KBg _ _ (goods_perm _ _ PM)) in C. lia.
Qed.
Lemma invalidb_invalid args kw : invalidb args kw = true -> invalid args kw.
Proof.
  unfold invalidb. rewrite !orb_true_iff. intros [[H|H]|H].
  - apply existsb_exists in H as (c & I & B). destruct c; try discriminate. now apply Inv_bad.
  - apply Inv_fg_twice. now apply Nat.leb_le.
  - apply Inv_bg_twice. now apply Nat.leb_le.
Qed.

(* ---- the named attributes of a valid specification (reference side only) ------------------------- *)
Lemma get_set_style k k' v a : get_style k' (set_style k v a) = if style_eqb k k' then v else get_style k' a.
Proof. destruct k, k'; reflexivity. Qed.
Lemma get_style_set_fg k v a : get_style k (set_fg v a) = get_style k a.
Proof. destruct k; reflexivity. Qed.
Lemma get_style_set_bg k v a : get_style k (set_bg v a) = get_style k a.
Proof. destruct k; reflexivity. Qed.
Lemma a_fg_set_style k v a : a_fg (set_style k v a) = a_fg a.
Proof. destruct k; reflexivity. Qed.
Lemma a_bg_set_style k v a : a_bg (set_style k v a) = a_bg a.
Proof. destruct k; reflexivity. Qed.

Lemma has_apply m1 a m :
  has (apply_assign m1 a) m = true <-> m = m1 \/ (akey_of m <> akey_of m1 /\ has a m = true).
Proof.
  destruct m1 as [c1|c1|k1 b1], m as [c|c|k b]; cbn [apply_assign akey_of];
    rewrite ?has_fg, ?has_bg, ?has_st, ?get_style_set_fg, ?get_style_set_bg, ?a_fg_set_style, ?a_bg_set_style;
    cbn [set_fg set_bg a_fg a_bg];
    try (split; [intros H; right; split; [discriminate | exact H] | intros [H|[_ H]]; [discriminate | exact H]]).
  - split; [intros [= ->]; now left | intros [[= ->]|[N _]]; [reflexivity | congruence]].
  - split; [intros [= ->]; now left | intros [[= ->]|[N _]]; [reflexivity | congruence]].
  - rewrite get_set_style. destruct (style_eqb k1 k) eqn:E.
    + apply style_eqb_eq in E. subst k1.
      split; [intros [= ->]; now left | intros [[= ->]|[N _]]; [reflexivity | congruence]].
    + split; [intros H; right; split; [|exact H] | intros [[= -> ->]|[_ H]]; [|exact H]].
      * intros [= ->]. rewrite (proj2 (style_eqb_eq k1 k1) eq_refl) in E. discriminate.
      * rewrite (proj2 (style_eqb_eq k1 k1) eq_refl) in E. discriminate.
Qed.
Lemma has_no_atts m : has no_atts m = false.
Proof. destruct m as [c|c|k b]; try reflexivity. destruct k; reflexivity. Qed.

Lemma fold_apply_has ms : NoDup (map akey_of ms) -> forall a0 m,
  has (fold_left (fun a m => apply_assign m a) ms a0) m = true <->
  In m ms \/ (~ In (akey_of m) (map akey_of ms) /\ has a0 m = true).
Proof.
  induction ms as [|m1 ms IH]; intros ND a0 m; cbn [fold_left map In].
  - tauto.
  - inversion ND as [|? ? N1 N2]; subst. rewrite (IH N2), has_apply. split.
    + intros [I|(N & [->|(Nk & H)])]; [left; now right | left; now left | right].
      split; [|assumption]. intros [E|I]; [congruence | contradiction].
    + intros [[->|I]|(N & H)].
      * right. split; [assumption | now left].
      * now left.
      * right. split; [tauto|]. right. split; [|assumption]. intro E. apply N. left. congruence.
Qed.
Theorem named_exactly args kw : valid args kw = true -> exactly args kw (named args kw).
Proof.
  intros V. destruct (valid_unpack args kw V) as (_ & _ & NA). intros m.
  unfold named. rewrite (fold_apply_has _ NA), has_no_atts. split; [tauto | intros [H|[_ H]]; [assumption|discriminate]].
Qed.

(* [has] determines the record *)
Lemma has_ext a b : (forall m, has a m = true <-> has b m = true) -> a = b.
Proof.
  intros H.
  assert (Ffg : a_fg a = a_fg b).
  { destruct (a_fg a) as [c|] eqn:E.
    - apply has_fg, H, has_fg in E. congruence.
    - destruct (a_fg b) as [c|] eqn:F; [|reflexivity]. apply has_fg, H, has_fg in F. congruence. }
  assert (Fbg : a_bg a = a_bg b).
  { destruct (a_bg a) as [c|] eqn:E.
    - apply has_bg, H, has_bg in E. congruence.
    - destruct (a_bg b) as [c|] eqn:F; [|reflexivity]. apply has_bg, H, has_bg in F. congruence. }
  assert (Fst : forall k, get_style k a = get_style k b).
  { intros k. destruct (get_style k a) as [x|] eqn:E.
    - apply has_st, H, has_st in E. congruence.
    - destruct (get_style k b) as [x|] eqn:F; [|reflexivity]. apply has_st, H, has_st in F. congruence. }
  pose proof (Fst Bold). pose proof (Fst Dark). pose proof (Fst Italic).
  pose proof (Fst Underline). pose proof (Fst Blink). pose proof (Fst Invert).
  destruct a, b; cbn in *; congruence.
Qed.

(* ---- all spellings of the same attribute set agree ------------------------------------------------- *)
Theorem spellings_agree args1 kw1 args2 kw2 :
  valid args1 kw1 = true -> valid args2 kw2 = true ->
  (forall m, In m (goods (classes args1 kw1)) <-> In m (goods (classes args2 kw2))) ->
  exists d1 d2 a, parse_args args1 kw1 = Ok d1 /\ parse_args args2 kw2 = Ok d2 /\
                  atts_of_dict d1 = Some a /\ atts_of_dict d2 = Some a /\
                  a = named args1 kw1 /\ a = named args2 kw2.
Proof.
  intros V1 V2 S.
  pose proof (named_exactly _ _ V1) as E1. pose proof (named_exactly _ _ V2) as E2.
  assert (EQ : named args1 kw1 = named args2 kw2).
  { apply has_ext. intros m. rewrite <- (E1 m), <- (E2 m). apply S. }
  destruct (parse_args_valid _ _ _ V1 E1) as (d1 & P1 & A1).
  destruct (parse_args_valid _ _ _ V2 E2) as (d2 & P2 & A2).
  exists d1, d2, (named args1 kw1). rewrite <- EQ in A2. repeat split; assumption.
Qed.

(* ---- copy_with_new_atts on the displayed cells ------------------------------------------------------ *)
Lemma on_later old new : on (later old new) = pick_flag new (on old).
Proof. destruct new as [[|]|]; reflexivity. Qed.
Lemma eff_extend old a : eff (att_extend old a) = override a (eff old).
Proof.
  unfold eff, att_extend, override. cbn [a_fg a_bg a_bold a_dark a_italic a_underline a_blink a_invert
    s_fg s_bg s_bold s_dark s_italic s_underline s_blink s_invert].
  rewrite !on_later. destruct (a_fg a), (a_bg a); reflexivity.
Qed.
Lemma cells_map_chunks (g : atts -> atts) (h : sgr -> sgr) :
  (forall a, eff (g a) = h (eff a)) ->
  forall f, cells (map (fun c => mkChunk (c_s c) (g (c_a c))) f) = map (fun cl => (fst cl, h (snd cl))) (cells f).
Proof.
  intros H. induction f as [|c f IH]; [reflexivity|].
  cbn [map cells flat_map]. fold (cells f). fold (cells (map (fun c => mkChunk (c_s c) (g (c_a c))) f)).
  rewrite IH, map_app. f_equal.
  unfold chunk_cells. cbn [c_s c_a]. rewrite map_map. apply map_ext. intros x. cbn [fst snd]. now rewrite H.
Qed.
Theorem copy_with_new_atts_cells f a : cells (copy_with_new_atts f a) = override_cells a (cells f).
Proof. apply (cells_map_chunks (fun old => att_extend old a) (override a)). intros old. apply eff_extend. Qed.
Lemma text_map_chunks (g : atts -> atts) f : text (map (fun c => mkChunk (c_s c) (g (c_a c))) f) = text f.
Proof. induction f as [|c f IH]; [reflexivity|]. cbn [map text flat_map c_s]. f_equal. exact IH. Qed.
Theorem copy_with_new_atts_text f a : text (copy_with_new_atts f a) = text f.
Proof. apply (text_map_chunks (fun old => att_extend old a)). Qed.
Lemma override_cells_text a cs : map fst (override_cells a cs) = map fst cs.
Proof. unfold override_cells. rewrite map_map. reflexivity. Qed.

(* ---- fmtstr() ------------------------------------------------------------------------------------------ *)
Lemma copy_with_dict_some f d a : atts_of_dict d = Some a -> copy_with_dict f d = Some (copy_with_new_atts f a).
Proof. intros E. unfold copy_with_dict. rewrite E. destruct f; reflexivity. Qed.

Theorem fmtstr_valid_fmt f args kw a : valid args kw = true -> exactly args kw a ->
  fmtstr_fn (SFmt f) args kw = Some (Ok (copy_with_new_atts f a)).
Proof.
  intros V EX. destruct (parse_args_valid args kw a V EX) as (d & E & A).
  unfold fmtstr_fn. rewrite E, (copy_with_dict_some f d a A). reflexivity.
Qed.
Theorem fmtstr_valid_str s args kw a : valid args kw = true -> exactly args kw a -> has_esc_csi s = false ->
  fmtstr_fn (SStr s) args kw = Some (Ok (copy_with_new_atts [mkChunk s no_atts] a)).
Proof.
  intros V EX NE. destruct (parse_args_valid args kw a V EX) as (d & E & A).
  unfold fmtstr_fn, from_str. rewrite E, NE, (copy_with_dict_some _ d a A). reflexivity.
Qed.
Lemma cells_plain s : cells [mkChunk s no_atts] = plain_cells s.
Proof. cbn [cells flat_map]. rewrite app_nil_r. reflexivity. Qed.

(* the main statement, on cells: every character keeps its place, the named attributes are set, the others stay *)
Theorem fmtstr_cells x args kw a : valid args kw = true -> exactly args kw a ->
  match x with
  | SFmt f => exists g, fmtstr_fn x args kw = Some (Ok g) /\ cells g = override_cells a (cells f)
  | SStr s => has_esc_csi s = false ->
              exists g, fmtstr_fn x args kw = Some (Ok g) /\ cells g = override_cells a (plain_cells s)
  | SOther => fmtstr_fn x args kw = Some (Raise ValueError)
  end.
Proof.
  intros V EX. destruct x as [s|f|].
  - intros NE. eexists. split; [apply (fmtstr_valid_str s args kw a V EX NE)|].
    rewrite copy_with_new_atts_cells, cells_plain. reflexivity.
  - eexists. split; [apply (fmtstr_valid_fmt f args kw a V EX)|]. apply copy_with_new_atts_cells.
  - destruct (parse_args_valid args kw a V EX) as (d & E & _). unfold fmtstr_fn. now rewrite E.
Qed.
Theorem fmtstr_invalid x args kw : distinct_keywords kw = true -> invalid args kw ->
  fmtstr_fn x args kw = Some (Raise ValueError).
Proof. intros DK I. unfold fmtstr_fn. now rewrite (parse_args_invalid args kw DK I). Qed.
(* a first argument that is neither str nor FmtStr: ValueError, whatever the specification *)
Theorem fmtstr_mistyped args kw : fmtstr_fn SOther args kw = Some (Raise ValueError).
Proof.
  unfold fmtstr_fn. destruct (parse_args_total args kw) as [(d & E)|E]; rewrite E; reflexivity.
Qed.

(* ---- the fmtfuncs helpers ------------------------------------------------------------------------------- *)
Ltac table_cases2 x :=
  rewrite ?(str_eqb_sym x);
  repeat match goal with
         | |- context [str_eqb ?a x] =>
             let E := fresh "E" in
             destruct (str_eqb a x) eqn:E;
             [apply str_eqb_eq in E; subst x;
              solve [vm_compute; reflexivity
                    | exfalso; repeat match goal with
                                      | H : str_eqb _ _ = false |- _ => vm_compute in H; try discriminate H; clear H
                                      end]|]
         end; reflexivity.
Lemma fmtfuncs_table_ok name :
  ff_get name fmtfuncs_table =
  match func_args name with
  | Some [] => Some None
  | Some (VStr s :: _) => Some (Some s)
  | _ => None
  end.
Proof.
  cbv [ff_get fmtfuncs_table func_args mem_str existsb positional_names map app all_colors all_styles
       color_name style_name n_on n_plain n_on_dark].
  table_cases2 name.
Qed.

Lemma dict_set_fresh k v d : ~ In k (map fst d) -> dict_set k v d = d ++ [(k, v)].
Proof.
  induction d as [|[k0 v0] d IH]; cbn [map fst In dict_set app]; [reflexivity|].
  intros N. destruct (str_eqb k0 k) eqn:E.
  - apply str_eqb_eq in E. exfalso. apply N. now left.
  - rewrite IH; [reflexivity | tauto].
Qed.
Lemma fold_dict_set_fresh kw : NoDup (map fst kw) -> forall d0,
  (forall k, In k (map fst kw) -> ~ In k (map fst d0)) ->
  fold_left (fun d kv => dict_set (fst kv) (snd kv) d) kw d0 = d0 ++ kw.
Proof.
  induction kw as [|[k v] kw IH]; intros ND d0 H; cbn [fold_left map fst]; [now rewrite app_nil_r|].
  cbn [map fst] in ND. inversion ND as [|? ? N1 N2]; subst. cbn [fst snd].
  rewrite dict_set_fresh by (apply H; now left).
  rewrite IH; [now rewrite <- app_assoc | assumption |].
  intros k' I. rewrite map_app, in_app_iff. cbn [map fst In]. intros [J|[J|[]]].
  - apply (H k'); [now right | assumption].
  - subst k'. contradiction.
Qed.

(* ---- a helper is fmtstr with one more positional name ----------------------------------------------- *)
Lemma parse_args_style_head args s kw : ~ In k_style (map fst kw) ->
  parse_args args ((k_style, VStr s) :: kw) = parse_args (args ++ [VStr s]) kw.
Proof.
  intros N. unfold parse_args, fold_style. cbn [dict_get dict_del]. rewrite str_eqb_refl.
  apply dict_get_none in N. rewrite N. reflexivity.
Qed.
Theorem fmtfunc_is_fmtstr name pa x args kw :
  func_args name = Some pa -> NoDup (map fst kw) -> ~ In k_style (map fst kw) ->
  fmtfunc name x args kw = fmtstr_fn x (args ++ pa) kw.
Proof.
  intros F ND NS. unfold fmtfunc. rewrite fmtfuncs_table_ok, F.
  assert (FA : func_args name = Some pa) by assumption.
  unfold func_args in F.
  destruct (str_eqb name n_plain).
  { injection F as <-. unfold partial_kw. rewrite fold_dict_set_fresh by (auto; intros ? ? []).
    now rewrite app_nil_r. }
  assert (S : forall s, pa = [VStr s] ->
              fmtstr_fn x args (partial_kw (Some s) kw) = fmtstr_fn x (args ++ pa) kw).
  { intros s ->. unfold partial_kw. rewrite fold_dict_set_fresh; [|assumption|].
    - cbn [app]. unfold fmtstr_fn. now rewrite parse_args_style_head.
    - intros k I. cbn [map fst In]. intros [<-|[]]. contradiction. }
  destruct (str_eqb name n_on_dark).
  { injection F as <-. now apply S. }
  destruct (mem_str name positional_names); [|discriminate].
  injection F as <-. now apply S.
Qed.

(* ---- nesting: distinct attributes commute, the later call wins on the same attribute ------------ *)
Lemma later_assoc {X} (a b c : option X) : later (later a b) c = later a (later b c).
Proof. destruct c, b; reflexivity. Qed.
Lemma att_extend_assoc a b c : att_extend (att_extend a b) c = att_extend a (att_extend b c).
Proof. unfold att_extend. cbn [a_fg a_bg a_bold a_dark a_italic a_underline a_blink a_invert]. now rewrite !later_assoc. Qed.
Theorem copy_twice f a b :
  copy_with_new_atts (copy_with_new_atts f a) b = copy_with_new_atts f (att_extend a b).
Proof.
  unfold copy_with_new_atts. rewrite map_map. apply map_ext. intros c. cbn [c_s c_a].
  now rewrite att_extend_assoc.
Qed.
(* the two records set no attribute in common *)
Definition unset {X} (v : option X) : bool := match v with None => true | Some _ => false end.
Definition disjoint_atts (a b : atts) : bool :=
  (unset (a_fg a) || unset (a_fg b)) && (unset (a_bg a) || unset (a_bg b)) &&
  (unset (a_bold a) || unset (a_bold b)) && (unset (a_dark a) || unset (a_dark b)) &&
  (unset (a_italic a) || unset (a_italic b)) && (unset (a_underline a) || unset (a_underline b)) &&
  (unset (a_blink a) || unset (a_blink b)) && (unset (a_invert a) || unset (a_invert b)).
(* [b] sets every attribute that [a] sets *)
Definition covers (b a : atts) : bool :=
  (unset (a_fg a) || negb (unset (a_fg b))) && (unset (a_bg a) || negb (unset (a_bg b))) &&
  (unset (a_bold a) || negb (unset (a_bold b))) && (unset (a_dark a) || negb (unset (a_dark b))) &&
  (unset (a_italic a) || negb (unset (a_italic b))) && (unset (a_underline a) || negb (unset (a_underline b))) &&
  (unset (a_blink a) || negb (unset (a_blink b))) && (unset (a_invert a) || negb (unset (a_invert b))).
Lemma later_comm {X} (o a b : option X) : (unset a || unset b = true)%bool -> later (later o a) b = later (later o b) a.
Proof. destruct a, b; cbn; intros; congruence. Qed.
Lemma later_cover {X} (o a b : option X) : (unset a || negb (unset b) = true)%bool -> later (later o a) b = later o b.
Proof. destruct a, b; cbn; intros; congruence. Qed.
Theorem copy_commute f a b : disjoint_atts a b = true ->
  copy_with_new_atts (copy_with_new_atts f a) b = copy_with_new_atts (copy_with_new_atts f b) a.
Proof.
  unfold disjoint_atts. rewrite !andb_true_iff. intros [[[[[[[H1 H2] H3] H4] H5] H6] H7] H8].
  unfold copy_with_new_atts. rewrite !map_map. apply map_ext. intros c. cbn [c_s c_a]. f_equal.
  unfold att_extend. cbn [a_fg a_bg a_bold a_dark a_italic a_underline a_blink a_invert].
  f_equal; now apply later_comm.
Qed.
Theorem copy_later_wins f a b : covers b a = true ->
  copy_with_new_atts (copy_with_new_atts f a) b = copy_with_new_atts f b.
Proof.
  unfold covers. rewrite !andb_true_iff. intros [[[[[[[H1 H2] H3] H4] H5] H6] H7] H8].
  unfold copy_with_new_atts. rewrite !map_map. apply map_ext. intros c. cbn [c_s c_a]. f_equal.
  unfold att_extend. cbn [a_fg a_bg a_bold a_dark a_italic a_underline a_blink a_invert].
  f_equal; now apply later_cover.
Qed.
(* the same at the level of two fmtstr() calls in either order *)
Theorem nesting_order_independent f args1 kw1 args2 kw2 :
  valid args1 kw1 = true -> valid args2 kw2 = true ->
  disjoint_atts (named args1 kw1) (named args2 kw2) = true ->
  exists g1 g2 h,
    fmtstr_fn (SFmt f) args1 kw1 = Some (Ok g1) /\ fmtstr_fn (SFmt g1) args2 kw2 = Some (Ok h) /\
    fmtstr_fn (SFmt f) args2 kw2 = Some (Ok g2) /\ fmtstr_fn (SFmt g2) args1 kw1 = Some (Ok h) /\
    cells h = override_cells (named args2 kw2) (override_cells (named args1 kw1) (cells f)).
Proof.
  intros V1 V2 D.
  pose proof (named_exactly _ _ V1) as E1. pose proof (named_exactly _ _ V2) as E2.
  exists (copy_with_new_atts f (named args1 kw1)), (copy_with_new_atts f (named args2 kw2)),
         (copy_with_new_atts (copy_with_new_atts f (named args1 kw1)) (named args2 kw2)).
  repeat split.
  - now apply fmtstr_valid_fmt.
  - now apply fmtstr_valid_fmt.
  - now apply fmtstr_valid_fmt.
  - rewrite (copy_commute f _ _ D). now apply fmtstr_valid_fmt.
  - now rewrite !copy_with_new_atts_cells.
Qed.
Theorem nesting_later_wins f args1 kw1 args2 kw2 :
  valid args1 kw1 = true -> valid args2 kw2 = true ->
  covers (named args2 kw2) (named args1 kw1) = true ->
  exists g1 h,
    fmtstr_fn (SFmt f) args1 kw1 = Some (Ok g1) /\ fmtstr_fn (SFmt g1) args2 kw2 = Some (Ok h) /\
    fmtstr_fn (SFmt f) args2 kw2 = Some (Ok h).
Proof.
  intros V1 V2 D.
  pose proof (named_exactly _ _ V1) as E1. pose proof (named_exactly _ _ V2) as E2.
  exists (copy_with_new_atts f (named args1 kw1)), (copy_with_new_atts f (named args2 kw2)).
  repeat split.
  - now apply fmtstr_valid_fmt.
  - rewrite <- (copy_later_wins f _ _ D). now apply fmtstr_valid_fmt.
  - now apply fmtstr_valid_fmt.
Qed.

(* ---- new_with_atts_removed clears exactly the named keys --------------------------------------------- *)
Lemma eff_remove ks a : eff (att_remove ks a) = clear ks (eff a).
Proof.
  unfold eff, att_remove, clear, drop, mem_str.
  cbn [a_fg a_bg a_bold a_dark a_italic a_underline a_blink a_invert
       s_fg s_bg s_bold s_dark s_italic s_underline s_blink s_invert].
  cbv [style_key style_name k_fg k_bg n_fg n_bg].
  repeat match goal with |- context [existsb ?p ks] => destruct (existsb p ks) end; reflexivity.
Qed.
Theorem new_with_atts_removed_cells f ks : cells (new_with_atts_removed f ks) = clear_cells ks (cells f).
Proof. apply (cells_map_chunks (att_remove ks) (clear ks)). intros a. apply eff_remove. Qed.
Theorem new_with_atts_removed_text f ks : text (new_with_atts_removed f ks) = text f.
Proof. apply (text_map_chunks (att_remove ks)). Qed.
(* and at the level of the dictionaries: a key named is gone, a key not named is untouched *)
Theorem att_remove_exact ks a m :
  has (att_remove ks a) m = (negb (mem_str (key_str m) ks) && has a m)%bool.
Proof.
  unfold mem_str. destruct m as [c|c|k b]; cbn [has key_str att_remove a_fg a_bg]; unfold drop.
  - destruct (existsb (str_eqb k_fg) ks); reflexivity.
  - destruct (existsb (str_eqb k_bg) ks); reflexivity.
  - destruct k; unfold att_remove, drop; cbn [get_style a_bold a_dark a_italic a_underline a_blink a_invert];
      match goal with |- context [existsb ?p ks] => destruct (existsb p ks) end; reflexivity.
Qed.

(* ---- copy_with_new_str keeps a uniformly formatted string's formatting --------------------------------- *)
Lemma sgr_eqb_eq a b : sgr_eqb a b = true <-> a = b.
Proof.
  destruct a as [f1 g1 b1 d1 i1 u1 l1 v1], b as [f2 g2 b2 d2 i2 u2 l2 v2]. unfold sgr_eqb.
  cbn [s_fg s_bg s_bold s_dark s_italic s_underline s_blink s_invert].
  rewrite !andb_true_iff, !Bool.eqb_true_iff. split.
  - intros [[[[[[[H1 H2] -> ] -> ] -> ] -> ] -> ] -> ].
    destruct f1 as [x|], f2 as [y|]; try discriminate; destruct g1 as [z|], g2 as [w|]; try discriminate;
      cbn [opt_eqb] in *; rewrite ?color_eqb_eq in *; subst; reflexivity.
  - intros [= -> -> -> -> -> -> -> ->]. repeat split.
    + destruct f2; cbn; [now apply color_eqb_eq | reflexivity].
    + destruct g2; cbn; [now apply color_eqb_eq | reflexivity].
Qed.
(* [acc] sets nothing that a string displayed as [st] would not show *)
Definition below (acc : atts) (st : sgr) : Prop := override acc st = st.
Lemma extend_uniform acc x st : below acc st -> eff x = st -> eff (att_extend acc x) = st.
Proof.
  unfold below. intros B E. subst st. rewrite eff_extend. revert B.
  unfold override, eff.
  cbn [a_fg a_bg a_bold a_dark a_italic a_underline a_blink a_invert
       s_fg s_bg s_bold s_dark s_italic s_underline s_blink s_invert].
  intros [= H1 H2 H3 H4 H5 H6 H7 H8]. f_equal.
  - destruct (a_fg x); cbn in *; [reflexivity|]. destruct (a_fg acc); cbn in *; congruence.
  - destruct (a_bg x); cbn in *; [reflexivity|]. destruct (a_bg acc); cbn in *; congruence.
  - destruct (a_bold x) as [[|]|]; cbn in *; try reflexivity. destruct (a_bold acc) as [[|]|]; cbn in *; congruence.
  - destruct (a_dark x) as [[|]|]; cbn in *; try reflexivity. destruct (a_dark acc) as [[|]|]; cbn in *; congruence.
  - destruct (a_italic x) as [[|]|]; cbn in *; try reflexivity. destruct (a_italic acc) as [[|]|]; cbn in *; congruence.
  - destruct (a_underline x) as [[|]|]; cbn in *; try reflexivity. destruct (a_underline acc) as [[|]|]; cbn in *; congruence.
  - destruct (a_blink x) as [[|]|]; cbn in *; try reflexivity. destruct (a_blink acc) as [[|]|]; cbn in *; congruence.
  - destruct (a_invert x) as [[|]|]; cbn in *; try reflexivity. destruct (a_invert acc) as [[|]|]; cbn in *; congruence.
Qed.
Lemma eff_below a : below a (eff a).
Proof.
  unfold below, override, eff.
  cbn [a_fg a_bg a_bold a_dark a_italic a_underline a_blink a_invert
       s_fg s_bg s_bold s_dark s_italic s_underline s_blink s_invert].
  destruct a as [f g [[|]|] [[|]|] [[|]|] [[|]|] [[|]|] [[|]|]]; destruct f, g; reflexivity.
Qed.
Lemma fold_uniform st : forall l acc, below acc st -> Forall (fun a => eff a = st) l -> l <> [] ->
  eff (fold_left att_extend l acc) = st.
Proof.
  induction l as [|x l IH]; intros acc B F N; [congruence|].
  inversion F as [|? ? F1 F2]; subst. cbn [fold_left].
  pose proof (extend_uniform acc x _ B eq_refl) as E.
  destruct l as [|y l]; [exact E|].
  apply IH; [|assumption|discriminate]. rewrite <- E. apply eff_below.
Qed.
Theorem copy_with_new_str_uniform f s st : uniform f st = true -> f <> [] ->
  cells (copy_with_new_str f s) = map (fun x => (x, st)) s.
Proof.
  intros U N. unfold copy_with_new_str. cbn [cells flat_map]. rewrite app_nil_r.
  unfold chunk_cells. cbn [c_s c_a].
  rewrite (fold_uniform st (map c_a f) no_atts).
  - reflexivity.
  - unfold below, override. destruct st; reflexivity.
  - apply Forall_forall. intros a I. apply in_map_iff in I as (c & <- & I).
    unfold uniform in U. rewrite forallb_forall in U. now apply sgr_eqb_eq, U.
  - destruct f; [congruence | discriminate].
Qed.
Theorem copy_with_new_str_text f s : text (copy_with_new_str f s) = s.
Proof. unfold copy_with_new_str. cbn [text flat_map c_s]. apply app_nil_r. Qed.

(* ---- shared_atts only reports what every character has ---------------------------------------------------- *)
Lemma shared_field_cells {X} (eqb : X -> X -> bool) (get : atts -> option X) (mk : X -> assign)
  (Heq : forall a b, eqb a b = true -> a = b)
  (Hmk : forall a v, get a = Some v -> cell_has (mk v) (eff a) = true) first f v :
  shared_field eqb get first f = Some v ->
  forallb (fun cl => cell_has (mk v) (snd cl)) (cells f) = true.
Proof.
  unfold shared_field. destruct (get (c_a first)) as [v0|]; [|discriminate].
  destruct (nonempty_agree eqb get f v0) eqn:A; [|discriminate]. intros [= ->].
  unfold nonempty_agree in A. induction f as [|c f IH]; [reflexivity|].
  cbn [forallb] in A. apply andb_true_iff in A as [A1 A2].
  change (cells (c :: f)) with (chunk_cells c ++ cells f). rewrite forallb_app. apply andb_true_iff. split; [|exact (IH A2)].
  unfold chunk_cells. destruct (c_s c) as [|x r]; [reflexivity|].
  destruct (get (c_a c)) as [w|] eqn:G; [|discriminate]. cbn [opt_eqb] in A1. apply Heq in A1. subst w.
  apply forallb_forall. intros cl I. apply in_map_iff in I as (y & <- & _). cbn [snd]. now apply Hmk.
Qed.
Theorem shared_atts_sound f a : shared_atts f = Ok a -> all_cells_have a (cells f) = true.
Proof.
  unfold shared_atts. destruct (first_run f) as [first|e]; [|discriminate]. cbn [bind]. intros [= <-].
  assert (HB : forall a b, Bool.eqb a b = true -> a = b) by (intros; now apply Bool.eqb_prop).
  assert (HC : forall a b, color_eqb a b = true -> a = b) by (intros; now apply color_eqb_eq).
  unfold all_cells_have, assigns_of.
  cbn [a_fg a_bg get_style a_bold a_dark a_italic a_underline a_blink a_invert all_styles flat_map].
  rewrite !forallb_app.
  repeat (apply andb_true_iff; split);
    match goal with
    | |- forallb _ match ?sf with Some _ => _ | None => _ end = true =>
        let v := fresh "v" in destruct sf as [v|] eqn:E; [|reflexivity]; cbn [forallb app]; rewrite andb_true_r
    | |- forallb _ [] = true => reflexivity
    end.
  - apply (shared_field_cells color_eqb a_fg AFg HC) with (first := first); [|exact E].
    intros a0 w H. cbn [cell_has eff s_fg]. rewrite H. cbn. now apply color_eqb_eq.
  - apply (shared_field_cells color_eqb a_bg ABg HC) with (first := first); [|exact E].
    intros a0 w H. cbn [cell_has eff s_bg]. rewrite H. cbn. now apply color_eqb_eq.
  - apply (shared_field_cells Bool.eqb a_bold (ASt Bold) HB) with (first := first); [|exact E].
    intros a0 w H. cbn [cell_has eff s_bold]. rewrite H. destruct w; reflexivity.
  - apply (shared_field_cells Bool.eqb a_dark (ASt Dark) HB) with (first := first); [|exact E].
    intros a0 w H. cbn [cell_has eff s_dark]. rewrite H. destruct w; reflexivity.
  - apply (shared_field_cells Bool.eqb a_italic (ASt Italic) HB) with (first := first); [|exact E].
    intros a0 w H. cbn [cell_has eff s_italic]. rewrite H. destruct w; reflexivity.
  - apply (shared_field_cells Bool.eqb a_underline (ASt Underline) HB) with (first := first); [|exact E].
    intros a0 w H. cbn [cell_has eff s_underline]. rewrite H. destruct w; reflexivity.
  - apply (shared_field_cells Bool.eqb a_blink (ASt Blink) HB) with (first := first); [|exact E].
    intros a0 w H. cbn [cell_has eff s_blink]. rewrite H. destruct w; reflexivity.
  - apply (shared_field_cells Bool.eqb a_invert (ASt Invert) HB) with (first := first); [|exact E].
    intros a0 w H. cbn [cell_has eff s_invert]. rewrite H. destruct w; reflexivity.
Qed.

(* ---- members of the invalid catalogue ------------------------------------------------------------------- *)
(* one Bad element anywhere makes the specification invalid, whatever else it contains *)
Lemma invalid_bad_positional args kw v : In v args -> pos_cls v = Bad -> invalid args kw.
Proof.
  intros I B. apply Inv_bad. unfold classes. apply in_or_app. left. rewrite <- B. now apply in_map.
Qed.
Lemma invalid_bad_keyword args kw k v : In (k, v) kw -> kw_cls (k, v) = Bad -> invalid args kw.
Proof.
  intros I B. apply Inv_bad. unfold classes. apply in_or_app. right. rewrite <- B.
  now apply (in_map kw_cls) in I.
Qed.
(* non-string positional arguments *)
Lemma cat_positional_not_str v : (forall s, v <> VStr s) -> pos_cls v = Bad.
Proof. destruct v as [z|b|s|]; try reflexivity. intros H. now destruct (H s). Qed.
(* style= holding a non-string *)
Lemma cat_style_not_str v : (forall s, v <> VStr s) -> kw_cls (n_style, v) = Bad.
Proof. intros H. change (kw_cls (n_style, v)) with (pos_cls v). now apply cat_positional_not_str. Qed.
(* style names must be spelt exactly: 'Bold', 'BOLD' ... *)
Lemma cat_style_wrong_case k s : ci_eqb s (style_name k) = true -> s <> style_name k -> pos_cls (VStr s) = Bad.
Proof.
  intros C N. cbn [pos_cls].
  assert (L : lower s = style_name k).
  { rewrite ci_eqb_lower in C by (destruct k; reflexivity). now apply str_eqb_eq. }
  rewrite !color_named_ci_lower, L.
  replace (color_named (style_name k)) with (@None color) by (destruct k; reflexivity).
  assert (E : (if ci_eqb (firstn 3 s) n_on then color_named (lower (skipn 3 s)) else None) = None).
  { rewrite <- on_prefix_ci, L. destruct k; reflexivity. }
  rewrite E. destruct (style_named s) as [k'|] eqn:Es; [|reflexivity].
  apply style_named_some in Es. subst s.
  rewrite ci_eqb_lower in C by (destruct k; reflexivity).
  destruct k, k'; try discriminate; congruence.
Qed.
(* fg= / bg= : None, a bool, an 'on_' name, a number out of range, a name in the wrong case *)
Lemma cat_fg_none : kw_cls (n_fg, VNone) = Bad. Proof. reflexivity. Qed.
Lemma cat_bg_none : kw_cls (n_bg, VNone) = Bad. Proof. reflexivity. Qed.
Lemma cat_fg_bool b : kw_cls (n_fg, VBool b) = Bad. Proof. reflexivity. Qed.
Lemma cat_bg_bool b : kw_cls (n_bg, VBool b) = Bad. Proof. reflexivity. Qed.
Lemma cat_fg_on_name c : kw_cls (n_fg, VStr (n_on ++ color_name c)) = Bad.
Proof. destruct c; reflexivity. Qed.
Lemma cat_bg_on_name c : kw_cls (n_bg, VStr (n_on ++ color_name c)) = Bad.
Proof. destruct c; reflexivity. Qed.
Lemma cat_fg_out_of_range z : (z < 30 \/ 37 < z)%Z -> kw_cls (n_fg, VInt z) = Bad.
Proof.
  intros H. cbn [kw_cls]. change (str_eqb n_fg n_fg) with true. cbn [color_value_cls]. unfold color_numbered.
  destruct ((30 <=? z)%Z && (z <=? 30 + 7)%Z)%bool eqn:E; [exfalso; lia | reflexivity].
Qed.
Lemma cat_bg_out_of_range z : (z < 40 \/ 47 < z)%Z -> kw_cls (n_bg, VInt z) = Bad.
Proof.
  intros H. cbn [kw_cls]. change (str_eqb n_bg n_fg) with false. change (str_eqb n_bg n_bg) with true.
  cbn [color_value_cls]. unfold color_numbered.
  destruct ((40 <=? z)%Z && (z <=? 40 + 7)%Z)%bool eqn:E; [exfalso; lia | reflexivity].
Qed.
Lemma cat_fg_unknown_name s : color_named s = None -> kw_cls (n_fg, VStr s) = Bad.
Proof. intros H. cbn [kw_cls]. change (str_eqb n_fg n_fg) with true. cbn [color_value_cls]. now rewrite H. Qed.
Lemma cat_bg_unknown_name s : color_named s = None -> kw_cls (n_bg, VStr s) = Bad.
Proof.
  intros H. cbn [kw_cls]. change (str_eqb n_bg n_fg) with false. change (str_eqb n_bg n_bg) with true.
  cbn [color_value_cls]. now rewrite H.
Qed.
(* unknown keywords *)
Lemma cat_unknown_keyword k v :
  k <> n_fg -> k <> n_bg -> k <> n_style -> style_named k = None -> kw_cls (k, v) = Bad.
Proof.
  intros N1 N2 N3 H. unfold kw_cls.
  apply str_eqb_neq in N1, N2, N3. now rewrite N1, N2, N3, H.
Qed.
(* fg (or bg) named twice by any two elements *)
Lemma count_two k (ms : list assign) m1 m2 l1 l2 l3 :
  ms = l1 ++ m1 :: l2 ++ m2 :: l3 -> akey_of m1 = k -> akey_of m2 = k -> (2 <= count_key k ms)%nat.
Proof.
  intros -> E1 E2. rewrite count_key_app. change (m1 :: l2 ++ m2 :: l3) with ([m1] ++ l2 ++ [m2] ++ l3).
  rewrite !count_key_app. unfold count_key at 2 4. cbn [filter].
  rewrite E1, E2, (proj2 (akey_eqb_eq k k) eq_refl). cbn [length]. lia.
Qed.
Lemma invalid_twice_positional args kw a1 v1 a2 v2 a3 m1 m2 :
  args = a1 ++ v1 :: a2 ++ v2 :: a3 -> pos_cls v1 = Good m1 -> pos_cls v2 = Good m2 ->
  akey_of m1 = akey_of m2 -> (akey_of m1 = KFg \/ akey_of m1 = KBg) -> invalid args kw.
Proof.
  intros -> G1 G2 E H.
  assert (C : (2 <= count_key (akey_of m1) (goods (classes (a1 ++ v1 :: a2 ++ v2 :: a3) kw)))%nat).
  { unfold classes. rewrite goods_app, count_key_app.
    assert (2 <= count_key (akey_of m1) (goods (map pos_cls (a1 ++ v1 :: a2 ++ v2 :: a3))))%nat; [|lia].
    apply (count_two _ _ m1 m2 (goods (map pos_cls a1)) (goods (map pos_cls a2)) (goods (map pos_cls a3)));
      [|reflexivity|now symmetry].
    rewrite map_app, goods_app. cbn [map goods flat_map]. rewrite G1. cbn [app].
    fold (goods (map pos_cls (a2 ++ v2 :: a3))). rewrite map_app, goods_app. cbn [map goods flat_map].
    rewrite G2. reflexivity. }
  destruct H as [H|H]; rewrite H in C; [now apply Inv_fg_twice | now apply Inv_bg_twice].
Qed.
Lemma invalid_positional_and_keyword args kw v m k w m' :
  In v args -> pos_cls v = Good m -> In (k, w) kw -> kw_cls (k, w) = Good m' ->
  akey_of m = akey_of m' -> (akey_of m = KFg \/ akey_of m = KBg) -> invalid args kw.
Proof.
  intros I1 G1 I2 G2 E H.
  assert (C : (2 <= count_key (akey_of m) (goods (classes args kw)))%nat).
  { unfold classes. rewrite goods_app, count_key_app.
    assert (1 <= count_key (akey_of m) (goods (map pos_cls args)))%nat.
    { apply (count_key_in _ m); [|reflexivity]. apply in_goods. rewrite <- G1. now apply in_map. }
    assert (1 <= count_key (akey_of m) (goods (map kw_cls kw)))%nat; [|lia].
    apply (count_key_in _ m'); [|now symmetry]. apply in_goods. rewrite <- G2. now apply (in_map kw_cls) in I2. }
  destruct H as [H|H]; rewrite H in C; [now apply Inv_fg_twice | now apply Inv_bg_twice].
Qed.

(* ---- concrete instances (non-vacuity) ---------------------------------------------------------------- *)
(* fmtstr(f, 'RED', 'on_blue', style='bold', dark=False) on a three-run FmtStr with an empty run *)
Definition ex_args : list value := [VStr [82; 69; 68]; VStr [111; 110; 95; 98; 108; 117; 101]].
Definition ex_kw : dict := [(n_style, VStr [98; 111; 108; 100]); ([100; 97; 114; 107], VBool false)].
Definition ex_f : fmtstr := [C [104; 105] (A 3 0 2 1 0 0 0 0); C [] (A 0 0 1 0 0 0 0 0); C [10; 120] (A 0 7 0 0 1 0 0 0)].
Example valid_nonvacuous :
  valid ex_args ex_kw = true /\ named ex_args ex_kw = A 2 5 1 2 0 0 0 0 /\
  fmtstr_fn (SFmt ex_f) ex_args ex_kw = Some (Ok (copy_with_new_atts ex_f (A 2 5 1 2 0 0 0 0))) /\
  length (cells ex_f) = 4%nat.
Proof. vm_compute. repeat split. Qed.
(* the same attributes spelt fg=31, bg='blue', 'bold', dark=False *)
Definition ex_args2 : list value := [VStr [98; 111; 108; 100]].
Definition ex_kw2 : dict := [([100; 97; 114; 107], VBool false); (n_bg, VStr [98; 108; 117; 101]); (n_fg, VInt 31)].
Example spellings_nonvacuous :
  valid ex_args2 ex_kw2 = true /\ named ex_args2 ex_kw2 = named ex_args ex_kw /\
  parse_args ex_args2 ex_kw2 <> parse_args ex_args ex_kw.
Proof. vm_compute. repeat split. discriminate. Qed.
Example invalid_nonvacuous :
  invalidb [VStr [66; 111; 108; 100]] [] = true /\                        (* 'Bold' *)
  invalidb [] [(n_fg, VStr [111; 110; 95; 114; 101; 100])] = true /\    (* fg='on_red' *)
  invalidb [VStr [114; 101; 100]] [(n_fg, VInt 34)] = true /\           (* 'red', fg=34 *)
  invalidb [] [(n_bg, VBool true)] = true /\                              (* bg=True *)
  invalidb [VInt 31] [] = true /\                                         (* 31 *)
  invalidb [] [([99; 111; 108; 111; 114], VStr [114; 101; 100])] = true /\  (* color='red' *)
  parse_args [VStr [114; 101; 100]] [(n_fg, VInt 34)] = Raise ValueError.
Proof. vm_compute. repeat split. Qed.
Example removed_nonvacuous :
  new_with_atts_removed ex_f [n_fg; style_name Bold; n_style] =
  [C [104; 105] (A 0 0 0 1 0 0 0 0); C [] (A 0 0 0 0 0 0 0 0); C [10; 120] (A 0 7 0 0 1 0 0 0)].
Proof. vm_compute. reflexivity. Qed.
Example new_str_nonvacuous :
  let f := [C [97] (A 2 0 1 2 0 0 0 0); C [] (A 2 0 1 0 0 0 0 0); C [98] (A 2 0 1 0 2 0 0 0)] in
  uniform f (Sg 2 0 1 0 0 0 0 0) = true /\ f <> [] /\
  cells (copy_with_new_str f [120; 121]) = [(120, Sg 2 0 1 0 0 0 0 0); (121, Sg 2 0 1 0 0 0 0 0)].
Proof. vm_compute. repeat split. discriminate. Qed.
Example shared_nonvacuous :
  shared_atts [C [] (A 1 0 0 1 0 0 0 0); C [97] (A 2 4 1 0 0 0 0 0); C [98] (A 2 5 1 2 0 0 0 0)] = Ok (A 2 0 1 0 0 0 0 0).
Proof. vm_compute. reflexivity. Qed.
Example nesting_nonvacuous :
  disjoint_atts (named [VStr [114; 101; 100]] []) (named [] [(style_name Bold, VBool true)]) = true /\
  covers (named [] [(n_fg, VInt 34); (style_name Bold, VBool false)]) (named [VStr [114; 101; 100]] []) = true.
Proof. vm_compute. split; reflexivity. Qed.
Example fmtfunc_nonvacuous :
  func_args n_on_dark = Some [VStr [111; 110; 95; 98; 108; 97; 99; 107]] /\
  fmtfunc n_on_dark (SStr [120]) [VStr [98; 111; 108; 100]] [] = Some (Ok [C [120] (A 0 1 1 0 0 0 0 0)]) /\
  length all_func_names = 24%nat /\
  forallb (fun n => match func_args n with Some _ => true | None => false end) all_func_names = true /\
  length fmtfuncs_table = 24%nat.
Proof. vm_compute. repeat split. Qed.

(* ================= C19: equality, hashing, repr ============================================= *)
Theorem py_eq_iff f g : py_eq f g = true <-> render f = render g.
Proof. apply str_eqb_eq. Qed.
Theorem py_eq_str_iff f s : py_eq_str f s = true <-> render f = s.
Proof. apply str_eqb_eq. Qed.
Theorem py_str_eq_sym s f : py_str_eq s f = py_eq_str f s.
Proof. reflexivity. Qed.
Theorem py_eq_refl f : py_eq f f = true.
Proof. now apply py_eq_iff. Qed.
Theorem py_eq_sym f g : py_eq f g = py_eq g f.
Proof. apply str_eqb_sym. Qed.
Theorem py_eq_trans f g h : py_eq f g = true -> py_eq g h = true -> py_eq f h = true.
Proof. rewrite !py_eq_iff. congruence. Qed.

(* equal values show the same characters with the same formatting (what the windows' row cache needs) *)
Theorem py_eq_same_cells f g : py_eq f g = true -> clean f = true -> clean g = true -> cells f = cells g.
Proof.
  intros E Cf Cg. apply py_eq_iff in E.
  pose proof (render_displays f Cf) as Df. pose proof (render_displays g Cg) as Dg.
  rewrite E in Df. rewrite Df in Dg. now injection Dg.
Qed.
(* a FmtStr equal to a plain (escape-free) str shows that str unformatted *)
Theorem py_eq_str_cells f s : py_eq_str f s = true -> clean f = true -> clean_str s = true ->
  cells f = plain_cells s.
Proof.
  intros E Cf Cs. apply py_eq_str_iff in E.
  pose proof (render_displays f Cf) as Df. rewrite E in Df.
  unfold display in Df. rewrite (run_text s sgr_default Cs) in Df. now injection Df.
Qed.
(* and conversely an unformatted FmtStr equals its text *)
Lemma render_plain s : render [mkChunk s no_atts] = s.
Proof. cbn. apply app_nil_r. Qed.

Section Hash.
  Context {H : Type} (hash_str : str -> H).
  Theorem py_eq_hash f g : py_eq f g = true -> py_hash hash_str f = py_hash hash_str g.
  Proof. intros E. apply py_eq_iff in E. unfold py_hash. now rewrite E. Qed.
  Theorem py_hash_is_hash_of_str f : py_hash hash_str f = hash_str (render f).
  Proof. reflexivity. Qed.
  Theorem py_eq_str_hash f s : py_eq_str f s = true -> py_hash hash_str f = hash_str s.
  Proof. intros E. apply py_eq_str_iff in E. unfold py_hash. now rewrite E. Qed.
End Hash.

(* ---- repr ---------------------------------------------------------------------------------------- *)
(* FG_NUMBER_TO_COLOR / BG_NUMBER_TO_COLOR give back the reference names *)
Lemma fg_pp_name c : fg_pp (Some c) = Ok (Some (color_name c)).
Proof. destruct c; reflexivity. Qed.
Lemma bg_pp_name c : bg_pp (Some c) = Ok (Some (n_on ++ color_name c)).
Proof. destruct c; reflexivity. Qed.

Definition one (m : assign) : atts := apply_assign m no_atts.
Definition fs_of (v : pyval) : fmtstr := match v with PStr s => [mkChunk s no_atts] | PFmt f => f end.
Definition good_val (v : pyval) : Prop := match v with PStr s => has_esc_csi s = false | PFmt _ => True end.
Lemma cells_fs_of v : cells (fs_of v) = val_cells v.
Proof. destruct v; [apply cells_plain | reflexivity]. Qed.

(* calling the helper named [n] *)
Lemma call_helper n m v : func_args n = Some [VStr n] -> pos_cls (VStr n) = Good m -> good_val v ->
  fmtfunc n (strarg_of v) [] [] = Some (Ok (copy_with_new_atts (fs_of v) (one m))).
Proof.
  intros F G GV.
  rewrite (fmtfunc_is_fmtstr n [VStr n] _ [] [] F) by (cbn; auto using NoDup_nil).
  cbn [app].
  assert (V : valid [VStr n] [] = true).
  { unfold valid, classes. cbn [map app]. rewrite G. destruct m as [c|c|k b]; reflexivity. }
  assert (EX : exactly [VStr n] [] (one m)).
  { replace (one m) with (named [VStr n] []); [now apply named_exactly|].
    unfold named, classes. cbn [map app]. rewrite G. reflexivity. }
  destruct v as [s|f]; cbn [strarg_of fs_of].
  - now apply fmtstr_valid_str.
  - now apply fmtstr_valid_fmt.
Qed.

Definition ovo (o : option assign) (st : sgr) : sgr :=
  match o with Some m => override (one m) st | None => st end.
Definition shows (s : str) (v : pyval) (st : sgr) : Prop :=
  good_val v /\ val_cells v = map (fun x => (x, st)) s.

Lemma eval_wrap s name o e v st :
  eval_expr e = Some (Ok v) -> shows s v st ->
  match name, o with
  | Some n, Some m => func_args n = Some [VStr n] /\ pos_cls (VStr n) = Good m
  | None, None => True
  | _, _ => False
  end ->
  exists v', eval_expr (wrap_call name e) = Some (Ok v') /\ shows s v' (ovo o st).
Proof.
  intros E [GV SC] H. destruct name as [n|], o as [m|]; try contradiction.
  - destruct H as [F G]. cbn [wrap_call eval_expr]. rewrite E, (call_helper n m v F G GV).
    eexists. split; [reflexivity|]. split; [exact I|].
    cbn [val_cells ovo]. rewrite copy_with_new_atts_cells, cells_fs_of, SC.
    unfold override_cells. rewrite map_map. reflexivity.
  - exists v. split; [exact E|]. split; assumption.
Qed.

Definition st_o (k : style) (a : atts) : option assign := if on (get_style k a) then Some (ASt k true) else None.
Lemma st_wrap_ok k a :
  match st_pp k a, st_o k a with
  | Some n, Some m => func_args n = Some [VStr n] /\ pos_cls (VStr n) = Good m
  | None, None => True
  | _, _ => False
  end.
Proof. unfold st_pp, st_o. destruct (on (get_style k a)); [|exact I]. destruct k; split; reflexivity. Qed.
Lemma fg_wrap_ok c : func_args (color_name c) = Some [VStr (color_name c)] /\ pos_cls (VStr (color_name c)) = Good (AFg c).
Proof. destruct c; split; reflexivity. Qed.
Lemma bg_wrap_ok c : func_args (n_on ++ color_name c) = Some [VStr (n_on ++ color_name c)] /\
                     pos_cls (VStr (n_on ++ color_name c)) = Good (ABg c).
Proof. destruct c; split; reflexivity. Qed.

Lemma ovo_chain a :
  ovo (option_map ABg (a_bg a)) (ovo (st_o Blink a) (ovo (st_o Bold a) (ovo (st_o Dark a)
    (ovo (option_map AFg (a_fg a)) (ovo (st_o Invert a) (ovo (st_o Italic a) (ovo (st_o Underline a) sgr_default)))))))
  = eff a.
Proof.
  unfold st_o, eff. destruct a as [fg bg b d i u bl inv].
  cbn [get_style a_fg a_bg a_bold a_dark a_italic a_underline a_blink a_invert].
  destruct fg, bg, (on b), (on d), (on i), (on u), (on bl), (on inv); reflexivity.
Qed.

(* one run: its repr evaluates to a value showing exactly the run's cells *)
Lemma repr_part_eval c : has_esc_csi (c_s c) = false ->
  exists e v, repr_part c = Ok e /\ eval_expr e = Some (Ok v) /\ val_cells v = chunk_cells c.
Proof.
  intros NE. unfold repr_part.
  set (a := c_a c). set (s := c_s c).
  assert (Hbg : exists nb, bg_pp (a_bg a) = Ok nb /\
            match nb, option_map ABg (a_bg a) with
            | Some n, Some m => func_args n = Some [VStr n] /\ pos_cls (VStr n) = Good m
            | None, None => True | _, _ => False end).
  { destruct (a_bg a) as [cb|]; [|exists None; split; [reflexivity|exact I]].
    exists (Some (n_on ++ color_name cb)). split; [apply bg_pp_name | apply bg_wrap_ok]. }
  assert (Hfg : exists nf, fg_pp (a_fg a) = Ok nf /\
            match nf, option_map AFg (a_fg a) with
            | Some n, Some m => func_args n = Some [VStr n] /\ pos_cls (VStr n) = Good m
            | None, None => True | _, _ => False end).
  { destruct (a_fg a) as [cf|]; [|exists None; split; [reflexivity|exact I]].
    exists (Some (color_name cf)). split; [apply fg_pp_name | apply fg_wrap_ok]. }
  destruct Hbg as (nb & Ebg & Wbg). destruct Hfg as (nf & Efg & Wfg).
  rewrite Ebg, Efg. cbn [bind].
  assert (S0 : shows s (PStr s) sgr_default) by (split; [exact NE | reflexivity]).
  destruct (eval_wrap s _ _ _ _ _ (eq_refl : eval_expr (Lit s) = Some (Ok (PStr s))) S0 (st_wrap_ok Underline a)) as (v1 & E1 & S1).
  destruct (eval_wrap s _ _ _ _ _ E1 S1 (st_wrap_ok Italic a)) as (v2 & E2 & S2).
  destruct (eval_wrap s _ _ _ _ _ E2 S2 (st_wrap_ok Invert a)) as (v3 & E3 & S3).
  destruct (eval_wrap s _ _ _ _ _ E3 S3 Wfg) as (v4 & E4 & S4).
  destruct (eval_wrap s _ _ _ _ _ E4 S4 (st_wrap_ok Dark a)) as (v5 & E5 & S5).
  destruct (eval_wrap s _ _ _ _ _ E5 S5 (st_wrap_ok Bold a)) as (v6 & E6 & S6).
  destruct (eval_wrap s _ _ _ _ _ E6 S6 (st_wrap_ok Blink a)) as (v7 & E7 & S7).
  destruct (eval_wrap s _ _ _ _ _ E7 S7 Wbg) as (v8 & E8 & S8).
  eexists. exists v8. split; [reflexivity|]. split; [exact E8|].
  destruct S8 as [_ S8]. rewrite S8, ovo_chain. reflexivity.
Qed.

Lemma val_cells_add a b : val_cells (py_add a b) = val_cells a ++ val_cells b.
Proof.
  destruct a as [x|f], b as [y|g]; cbn [py_add val_cells].
  - unfold plain_cells. apply map_app.
  - change (mkChunk x no_atts :: g) with ([mkChunk x no_atts] ++ g). unfold cells. rewrite flat_map_app.
    fold (cells [mkChunk x no_atts]). now rewrite cells_plain.
  - unfold cells. rewrite flat_map_app. fold (cells [mkChunk y no_atts]). now rewrite cells_plain.
  - unfold cells. apply flat_map_app.
Qed.
Definition no_esc (f : fmtstr) : bool := forallb (fun c => negb (has_esc_csi (c_s c))) f.
Lemma repr_sum_from f : no_esc f = true -> forall acc,
  exists es v, py_repr f = Ok es /\ eval_sum_from acc es = Some (Ok v) /\ val_cells v = val_cells acc ++ cells f.
Proof.
  induction f as [|c f IH]; intros NE acc.
  - exists [], acc. split; [reflexivity|]. split; [reflexivity|]. cbn [cells flat_map]. now rewrite app_nil_r.
  - cbn [no_esc forallb] in NE. apply andb_true_iff in NE as [N1 N2]. apply negb_true_iff in N1.
    destruct (repr_part_eval c N1) as (e & v & R & E & Cv).
    destruct (IH N2 (py_add acc v)) as (es & w & Rs & Es & Cw).
    exists (e :: es), w. cbn [py_repr]. rewrite R, Rs. cbn [bind eval_sum_from]. rewrite E.
    repeat split; [exact Es|]. rewrite Cw, val_cells_add, Cv, <- app_assoc. reflexivity.
Qed.
(* repr(f) evaluates, in the fmtfuncs namespace, to a value with the characters and formatting of f *)
Theorem repr_eval f : f <> [] -> no_esc f = true ->
  exists es v, py_repr f = Ok es /\ eval_sum es = Some (Ok v) /\ val_cells v = cells f.
Proof.
  intros N NE. destruct f as [|c f]; [congruence|].
  cbn [no_esc forallb] in NE. apply andb_true_iff in NE as [N1 N2]. apply negb_true_iff in N1.
  destruct (repr_part_eval c N1) as (e & v & R & E & Cv).
  destruct (repr_sum_from f N2 v) as (es & w & Rs & Es & Cw).
  exists (e :: es), w. cbn [py_repr]. rewrite R, Rs. cbn [bind eval_sum]. rewrite E.
  repeat split; [exact Es|]. rewrite Cw, Cv. reflexivity.
Qed.
Lemma clean_no_esc f : clean f = true -> no_esc f = true.
Proof.
  unfold clean, no_esc. rewrite !forallb_forall. intros H c I. specialize (H c I).
  apply negb_true_iff. induction (c_s c) as [|x r IH]; [reflexivity|].
  cbn [clean_str forallb] in H. apply andb_true_iff in H as [H1 H2]. cbn [has_esc_csi].
  rewrite (IH H2), orb_false_r. unfold clean_char in H1. apply andb_true_iff in H1 as [H1 _].
  apply negb_true_iff in H1. now rewrite H1.
Qed.

Example eq_nonvacuous :
  let f := [C [97] (A 2 0 0 0 0 0 0 0); C [98] (A 2 0 0 0 0 0 0 0)] in
  let g := [C [97; 98] (A 2 0 0 0 0 0 0 0)] in
  let h := [C [97] (A 2 0 2 0 0 0 0 0); C [] (A 0 0 0 2 0 0 0 0); C [98] (A 2 0 0 0 0 0 0 0)] in
  py_eq f g = false /\ cells f = cells g /\ py_eq f h = true /\ f <> h /\ clean f = true /\ clean h = true /\
  py_eq [C [97; 98] (A 3 0 0 0 0 0 0 0)] g = false /\ py_eq_str [C [97] (A 0 0 2 0 0 0 0 0)] [97] = true.
Proof. vm_compute. repeat split; try reflexivity; discriminate. Qed.
Example repr_nonvacuous :
  let f := [C [104; 105] (A 2 5 1 2 0 0 0 0); C [] (A 0 0 0 0 0 0 0 0); C [33] (A 0 0 0 0 0 0 0 1)] in
  no_esc f = true /\
  option_map (print_sum (fun s => [39] ++ s ++ [39])) (match py_repr f with Ok es => Some es | Raise _ => None end) =
    Some [111;110;95;98;108;117;101;40;98;111;108;100;40;114;101;100;40;39;104;105;39;41;41;41;43;39;39;43;
          105;110;118;101;114;116;40;39;33;39;41].
Proof. vm_compute. split; reflexivity. Qed.

(* ---- every helper of curtsies.fmtfuncs, on the displayed cells ------------------------------------------ *)
Theorem fmtfunc_cells name pa x args kw a :
  func_args name = Some pa -> ~ In k_style (map fst kw) ->
  valid (args ++ pa) kw = true -> exactly (args ++ pa) kw a ->
  match x with
  | SFmt f => exists g, fmtfunc name x args kw = Some (Ok g) /\ cells g = override_cells a (cells f)
  | SStr s => has_esc_csi s = false ->
              exists g, fmtfunc name x args kw = Some (Ok g) /\ cells g = override_cells a (plain_cells s)
  | SOther => fmtfunc name x args kw = Some (Raise ValueError)
  end.
Proof.
  intros F NS V EX. destruct (valid_unpack _ _ V) as (ND & _ & _).
  rewrite (fmtfunc_is_fmtstr name pa x args kw F ND NS). now apply fmtstr_cells.
Qed.
(* the 24 helpers called on their own: each is a valid one-attribute (or, for plain, empty) specification *)
Theorem helpers_alone_valid name : In name all_func_names ->
  exists pa, func_args name = Some pa /\ valid pa [] = true /\
             match pa with
             | [] => named pa [] = no_atts
             | v :: _ => exists m, pos_cls v = Good m /\ named pa [] = one m
             end.
Proof.
  intros I.
  assert (H : forallb (fun n => match func_args n with
                                | Some [] => true
                                | Some [v] => valid [v] [] && match pos_cls v with
                                                              | Good m => atts_eqb (named [v] []) (one m)
                                                              | _ => false end
                                | _ => false end) all_func_names = true) by (vm_compute; reflexivity).
  rewrite forallb_forall in H. specialize (H name I).
  destruct (func_args name) as [[|v [|w r]]|]; try discriminate.
  - exists []. repeat split.
  - exists [v]. apply andb_true_iff in H as [H1 H2]. split; [reflexivity|]. split; [assumption|].
    destruct (pos_cls v) as [m| |] eqn:E; try discriminate. exists m. split; [reflexivity|].
    unfold named, classes. cbn [map app]. rewrite E. reflexivity.
Qed.
