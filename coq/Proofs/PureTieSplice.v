(* curtsies.formatstring.FmtStr.splice: repository text = model, for all FmtStrs, all operands
   (a str without an escape introducer, or a FmtStr), all starts and all ends (None included).

   The variable names are read off the generated tree -- the list that grows, the flag, and
   the variables that hold the replacement, start and end are found by RUNNING the statements in
   front of the loop on sample arguments with distinctive values ([sample_env]) -- so nothing
   here mentions a name.  The loop invariant compares the list the text builds with the
   model's UP TO RUNS WITH AN EMPTY TEXT (the last statement filters them out), so a variant of
   the text that appends an empty run where the model appends nothing is still the model. *)
From Coq Require Import String Lia ZifyBool ZifyNat ZifyN.
From Curtsies Require Import Model.Base Model.Splice Spec.ListOps Spec.PyMini Gen.Pure Gen.PureFmt Spec.PyEnvFmt
  Model.Slice Proofs.PyStep Proofs.PureTieBase Proofs.PureTieFmtBase Proofs.PureTieDivides.
Local Open Scope Z_scope.

(* ---- the items of the loop: zip(self.chunks, self.divides[:-1], self.divides[1:]) ---------------- *)
Definition embed_item (x : chunk * Z * Z) : val :=
  VTuple [embed_chunk (fst (fst x)); VInt (snd (fst x)); VInt (snd x)].

Lemma divides_from_cons : forall pos f, exists l, divides_from pos f = pos :: l.
Proof. intros pos [|c f]; eexists; reflexivity. Qed.

Lemma zip3_items_from : forall f pos,
  PyMini.zip3 (map embed_chunk f) (removelast (map VInt (divides_from pos f))) (tl (map VInt (divides_from pos f)))
  = map embed_item (Splice.zip3 f (removelast (divides_from pos f)) (tl (divides_from pos f))).
Proof.
  induction f as [|c f IH]; intro pos; [reflexivity|].
  cbn [divides_from]. specialize (IH (pos + chunk_len c)).
  destruct (divides_from_cons (pos + chunk_len c) f) as [l Hl]. rewrite Hl in *.
  cbn [map tl] in *.
  change (removelast (VInt pos :: VInt (pos + chunk_len c) :: map VInt l))
    with (VInt pos :: removelast (VInt (pos + chunk_len c) :: map VInt l)).
  change (removelast (pos :: (pos + chunk_len c) :: l)) with (pos :: removelast ((pos + chunk_len c) :: l)).
  cbn [PyMini.zip3 Splice.zip3 map]. rewrite IH. reflexivity.
Qed.

Lemma zip3_items : forall f,
  PyMini.zip3 (map embed_chunk f) (removelast (map VInt (divides f))) (tl (map VInt (divides f)))
  = map embed_item (splice_items f).
Proof. intro f. unfold divides, splice_items. apply zip3_items_from. Qed.

(* what the zip guarantees about an item (run, where it starts, where it ends) *)
Definition item_ok (x : chunk * Z * Z) : Prop := snd x = snd (fst x) + chunk_len (fst (fst x)).

Lemma items_ok_from : forall f pos,
  Forall item_ok (Splice.zip3 f (removelast (divides_from pos f)) (tl (divides_from pos f))).
Proof.
  induction f as [|c f IH]; intro pos; [constructor|].
  cbn [divides_from]. specialize (IH (pos + chunk_len c)).
  destruct (divides_from_cons (pos + chunk_len c) f) as [l Hl]. rewrite Hl in *.
  cbn [tl] in *.
  change (removelast (pos :: (pos + chunk_len c) :: l)) with (pos :: removelast ((pos + chunk_len c) :: l)).
  cbn [Splice.zip3]. constructor; [reflexivity | exact IH].
Qed.

Lemma splice_items_ok : forall f, Forall item_ok (splice_items f).
Proof. intro f. apply items_ok_from. Qed.

(* ---- the loop of the model as a step function (it never breaks, never raises) -------------------- *)
Definition sp_step (new_fs : fmtstr) (start end_ : Z) (st : list chunk * bool) (it : chunk * Z * Z)
  : lres (list chunk * bool) := LNext (splice_step new_fs start end_ st it).

Lemma loop_model_total : forall {St X} (g : St -> X -> St) xs st,
  loop_model (fun s x => LNext (g s x)) st xs = Ok (fold_left g xs st).
Proof. intros St X g xs. induction xs as [|x xs IH]; intro st; [reflexivity|]. cbn [loop_model fold_left]. apply IH. Qed.

(* ---- runs with an empty text --------------------------------------------------------------------------- *)
Lemma nonempty_app : forall a b, nonempty_chunks (a ++ b) = nonempty_chunks a ++ nonempty_chunks b.
Proof. intros a b. apply filter_app. Qed.

(* s[k:] is empty from the length on *)
Lemma pyslice_past : forall (s : str) k, Z.of_nat (List.length s) <= k -> pyslice s (Some k) None = [].
Proof.
  intros s k H. unfold pyslice, slice_bound.
  replace (k <? 0) with false by lia.
  replace (Z.to_nat (Z.of_nat (Datatypes.length s) - Z.min k (Z.of_nat (Datatypes.length s)))) with 0%nat by lia.
  reflexivity.
Qed.

(* (c for c in comps if c.s), consumed *)
Lemma gen_filter_chunks : forall (cond elt : val -> res val) comps,
  (forall ch, cond (embed_chunk ch) = Ok (VStr (c_s ch))) ->
  (forall ch, elt (embed_chunk ch) = Ok (embed_chunk ch)) ->
  sequence (gen_filter (map Ok (map embed_chunk comps)) cond elt) = Ok (map embed_chunk (nonempty_chunks comps)).
Proof.
  intros cond elt comps Hc He. unfold gen_filter, nonempty_chunks.
  induction comps as [|ch comps IH]; [reflexivity|].
  cbn [map flat_map filter]. rewrite Hc. cbn [testable truthy].
  destruct (c_s ch) as [|x l]; cbn [is_nil is_empty negb app].
  - exact IH.
  - rewrite He. cbn [sequence map]. rewrite IH. reflexivity.
Qed.

(* ---- the names, found by running the statements in front of the loop on sample arguments ------------- *)
(* the context [call_in] runs the body in *)
Definition callee_ctx (c : ctx) (f : fundef) : ctx :=
  let locals := (f_params f ++ assigned_block (f_body f))%list in
  mkCtx (filter (fun kv => negb (mem_string (fst kv) locals)) (c_globals c))
        (filter (fun kv => negb (mem_string (fst kv) locals)) (c_funs c))
        (c_method c) (c_classes c) (c_sigs c).

Fixpoint env_at_for (c : ctx) (l : list stmt) (r : env) : option env :=
  match l with
  | [] => None
  | SFor _ _ _ :: _ => Some r
  | s :: l' => match exec c s r with Next r' => env_at_for c l' r' | _ => None end
  end.

Definition sample_start : Z := 7.
Definition sample_end : Z := 9.
Definition sample_env : env :=
  match env_at_for (callee_ctx ctxF3 py_FmtStr_splice) (f_body py_FmtStr_splice)
          (List.combine (f_params py_FmtStr_splice)
             [embed_fmtstr []; embed_fmtstr [mkChunk [120%N] no_atts]; VInt sample_start; VInt sample_end]) with
  | Some r => r
  | None => []
  end.

Definition is_vbool (v : val) : bool := match v with VBool _ => true | _ => false end.
Definition is_fmtstr (v : val) : bool := match v with VRec cls _ => String.eqb cls "FmtStr" | _ => false end.
Definition is_int (z : Z) (v : val) : bool := match v with VInt y => y =? z | _ => false end.

Definition sp_loop : target * expr * list stmt :=
  match first_for (f_body py_FmtStr_splice) with Some x => x | None => (TName EmptyString, ENoneC, []) end.
Definition sp_target : target := fst (fst sp_loop).
Definition sp_body : list stmt := snd sp_loop.
Definition n_comps : string := first_mutated sp_body.            (* the list that grows *)
Definition n_flag : string := name_of is_vbool sample_env.        (* the flag *)
Definition n_new : string := name_of is_fmtstr sample_env.        (* the replacement, as a FmtStr *)
Definition n_start : string := name_of (is_int sample_start) sample_env.
Definition n_end : string := name_of (is_int sample_end) sample_env.

(* ---- the invariant --------------------------------------------------------------------------------------- *)
Definition sp_inv (nf : fmtstr) (start en : Z) (st : list chunk * bool) (r : env) : Prop :=
  (exists l, lookup n_comps r = Some (VList (map embed_chunk l))
             /\ nonempty_chunks l = nonempty_chunks (fst st))
  /\ lookup n_flag r = Some (VBool (snd st))
  /\ lookup n_new r = Some (embed_fmtstr nf)
  /\ lookup n_start r = Some (VInt start)
  /\ lookup n_end r = Some (VInt en).

(* self.divides is the generated getter, tied in Proofs/PureTieDivides.v *)
Ltac divides_step :=
  match goal with
  | |- context [sem_FmtStr_divides (cons (VRec ?c (cons (?n, VList (map ?e ?f)) nil)) nil)] =>
      change (sem_FmtStr_divides [VRec c [(n, VList (map e f))]])
        with (call_in ctxF0 py_FmtStr_divides [embed_fmtstr f]);
      rewrite (divides_tie f)
  end.

(* l[:-1], l[1:] and the zip of the three lists *)
Ltac items_step :=
  match goal with
  | |- context [slice_list ?l None (Some (- (1)))] =>
      change (slice_list l None (Some (- (1)))) with (slice_list l None (Some (-1))); rewrite (slice_list_removelast l)
  | |- context [slice_list ?l (Some 1) None] => rewrite (slice_list_tl l)
  | |- context [PyMini.zip3 (map _ ?f) (removelast (map VInt (divides ?f))) (tl (map VInt (divides ?f)))] =>
      rew_norm (zip3_items f)
  end.

(* the comparison the evaluation is stuck on: the first `if` (outermost, then leftmost: the scrutinee
   of a match comes before its branches) whose condition is a comparison of integers *)
Ltac decide_head :=
  match goal with
  | |- context [if ?c then _ else _] =>
      lazymatch c with
      | (_ <? _)%Z => decide_atom c
      | (_ >? _)%Z => decide_atom c
      | (_ <=? _)%Z => decide_atom c
      | (_ >=? _)%Z => decide_atom c
      | (_ =? _)%Z => decide_atom c
      end
  end.

Ltac splice_resolve := first [ divides_step | items_step | decide_head ].

(* the equations the path has left, used in a hypothesis *)
Ltac use_eqns_in H :=
  repeat match goal with
         | E : ?t = true |- _ => match type of H with context [t] => rewrite E in H end
         | E : ?t = false |- _ => match type of H with context [t] => rewrite E in H end
         end.

(* a list of embedded runs, read back as the list of runs *)
Ltac reify_chunks t :=
  lazymatch t with
  | map _ ?l => constr:(l)
  | ?a ++ ?b => let a' := reify_chunks a in let b' := reify_chunks b in constr:((a' ++ b')%list)
  | @nil _ => constr:(@nil chunk)
  | cons (VRec _ (cons (_, VStr ?s) (cons (_, VDict (embed_atts ?a)) nil))) ?rest =>
      let r' := reify_chunks rest in constr:(mkChunk s a :: r')
  end.

(* two lists of runs that are the same up to runs with an empty text, given that of their common
   beginning ([Hl : nonempty_chunks l = nonempty_chunks comps]) *)
Lemma chunk_eta : forall ch, {| c_s := c_s ch; c_a := c_a ch |} = ch.
Proof. intros [s a]. reflexivity. Qed.

Ltac same_nonempty Hl :=
  cbn [c_s c_a]; rewrite ?chunk_eta, ?slice_list_pyslice, <- ?app_assoc; cbn [app];
  first [ exact Hl
        | rewrite !nonempty_app, Hl; f_equal;
          first [ reflexivity
                | unfold nonempty_chunks; cbn [filter c_s c_a]; rewrite ?filter_app; cbn [filter c_s c_a];
                  unfold chunk_len in *; cbn [c_s c_a fst snd] in *;
                  rewrite ?pyslice_past by lia; cbn [is_empty negb app]; rewrite ?app_nil_r; reflexivity ] ].

(* the invariant of the environment the round (or the prelude) has ended in *)
Ltac names_goal :=
  let a := eval vm_compute in n_comps in change n_comps with a;
  let b := eval vm_compute in n_flag in change n_flag with b;
  let c := eval vm_compute in n_new in change n_new with c;
  let d := eval vm_compute in n_start in change n_start with d;
  let e := eval vm_compute in n_end in change n_end with e.

Ltac prove_sp_inv Hl :=
  unfold sp_inv; names_goal; cbn [fst snd];
  split;
  [ lk;
    match goal with
    | |- exists l, Some (VList ?V) = Some (VList (map embed_chunk l)) /\ _ =>
        let l' := reify_chunks V in
        exists l'; split;
        [ rewrite ?map_app; cbn [map c_s c_a]; rewrite ?slice_list_pyslice; reflexivity
        | same_nonempty Hl ]
    end
  | repeat match goal with |- _ /\ _ => split end; lk; reflexivity ].

Ltac sp_close Hl :=
  use_eqns; cbv beta iota delta [andb orb negb];
  repeat (decide_head; cbv beta iota delta [andb orb negb]);
  cbv [round_post];
  first [ solve [eexists; split; [reflexivity | prove_sp_inv Hl]]
        | solve [exfalso; lia] ].

Ltac name_in H :=
  match type of H with lookup ?n _ = _ => let n' := eval vm_compute in n in change n with n' in H end.

(* ---- one round of the body, once for all the ways the loop is reached --------------------------------- *)
Lemma splice_round : forall (nf : fmtstr) (start en : Z) st x r,
  item_ok x -> sp_inv nf start en st r ->
  match bind_target sp_target (embed_item x) r with
  | None => False
  | Some r1 => round_post (sp_inv nf start en) (sp_step nf start en st x)
                          (exec_block (callee_ctx ctxF3 py_FmtStr_splice) sp_body r1)
  end.
Proof.
  not_a_stub py_FmtStr_splice.
  intros nf start en [comps ins] [[ch a] b] r Hok ([l [Hc Hl]] & Hf & Hn & Hs & He).
  cbv [item_ok] in Hok. cbn [fst snd] in Hok, Hl, Hf.
  name_in Hc; name_in Hf; name_in Hn; name_in Hs; name_in He.
  fcbv_in Hn.
  destruct (bind_target sp_target (embed_item (ch, a, b)) r) as [r1|] eqn:Hb; fcbv_in Hb; [|discriminate].
  injection Hb as <-.
  match goal with |- round_post ?R' ?m ?o => remember (round_post R' m) as K eqn:HK end.
  pcbv. destruct ins.
  all: frun ltac:(idtac; decide_head).
  all: subst K; unfold sp_step, splice_step; cbn [fst snd c_s c_a].
  all: first [ sp_close Hl
             | fail 1 "TIE BROKEN: the repository's curtsies.formatstring.FmtStr.splice no longer computes what the model computes (loop body)" ].
Qed.

(* the consumed generator of the last statement *)
Ltac filter_step :=
  match goal with
  | |- context [sequence (gen_filter (map Ok (map ?e ?l ++ map ?e ?l')) _ _)] => rewrite <- (map_app e l l')
  | |- context [sequence (gen_filter (map Ok (map ?emb ?l)) ?cnd ?el)] =>
      let H := fresh "Hgen" in
      assert (H : sequence (gen_filter (map Ok (map emb l)) cnd el) = Ok (map emb (nonempty_chunks l)));
      [ apply (gen_filter_chunks cnd el l);
        (let ch := fresh "ch" in intro ch; cbv beta; fcbv; lk; fcbv; repeat (object_step; fcbv); reflexivity)
      | rewrite H; clear H ]
  end.

Theorem splice_tie : forall f new start end_,
  operand_plain new = true ->
  call_in ctxF3 py_FmtStr_splice [embed_fmtstr f; embed_operand new; VInt start; embed_optZ end_]
  = Ok (embed_fmtstr (splice f new start end_)).
Proof.
  not_a_stub py_FmtStr_splice.
  intros f new start end_ Hplain.
  assert (Hp : match new with OStr s => has_esc_intro s = false | OFmt _ => True end).
  { destruct new as [s|g]; [|exact I]. cbn [operand_plain] in Hplain. destruct (has_esc_intro s); [discriminate | reflexivity]. }
  clear Hplain.
  set (en := match end_ with None => start | Some e => e end).
  unfold call_in.
  remember (Ok (embed_fmtstr (splice f new start end_))) as rhs eqn:Hrhs.
  destruct new as [s|g]; destruct end_ as [e|]; cbn [embed_operand embed_optZ] in *; pcbv.
  all: frun ltac:(idtac; splice_resolve).
  (* the early exit: return self *)
  all: try solve [ subst rhs; unfold splice; cbn [op_len]; unfold char; use_eqns; cbn [andb];
                   repeat (decide_cmp; cbn [andb]); reflexivity ].
  (* the loop: its rounds are [splice_round] *)
  all: match type of Hrhs with
       | context [Splice.splice _ ?new' _ _] =>
           match goal with
           | |- context [for_loop ?c ?t ?body (map Ok (map ?emb ?xs)) ?r0] =>
               rewrite (map_map emb Ok xs);
               assert (HL : forall st0, sp_inv (to_fs new') start en st0 r0 ->
                              loop_post (sp_inv (to_fs new') start en)
                                        (loop_model (sp_step (to_fs new') start en) st0 xs)
                                        (for_loop c t body (map (fun x => Ok (emb x)) xs) r0));
               [ let st0 := fresh "st0" in let HR0 := fresh "HR0" in
                 intros st0 HR0;
                 apply (for_loop_model_on c t body emb (sp_step (to_fs new') start en)
                                          (sp_inv (to_fs new') start en) item_ok);
                 [ first [ exact (splice_round (to_fs new') start en)
                         | fail 1 "TIE BROKEN: the loop of curtsies.formatstring.FmtStr.splice is not where the proof expects it" ]
                 | apply splice_items_ok
                 | exact HR0 ]
               | ]
           end
       end.
  (* after the loop *)
  all: assert (HL0 := HL (@nil chunk, false)); clear HL;
       match type of HL0 with
       | _ -> loop_post _ _ (for_loop ?a1 ?a2 ?a3 ?a4 ?a5) =>
           set (o := for_loop a1 a2 a3 a4 a5) in *;
           specialize (HL0 ltac:(assert (Hnil : nonempty_chunks (@nil chunk) = nonempty_chunks (@nil chunk)) by reflexivity;
                                 prove_sp_inv Hnil));
           destruct o as [rr|vv|ee|rr|rr]; cbn [loop_post] in HL0
       end.
  all: try contradiction.
  all: unfold sp_step in HL0; rewrite (loop_model_total (splice_step _ _ _)) in HL0; try discriminate.
  all: destruct HL0 as [st [Hs ([l [Hc Hl]] & Hf & Hn & _ & _)]]; injection Hs as <-.
  all: unfold splice in Hrhs; cbn [op_len] in Hrhs; unfold char in Hrhs; use_eqns_in Hrhs; cbn [andb] in Hrhs;
       cbv beta iota in Hrhs; unfold en in *; clear en; cbv [to_fs fmtstr_plain plain_chunk] in Hrhs, Hl, Hf, Hn.
  all: match type of Hl with
       | context [fold_left ?g ?xs ?st0] => set (F := fold_left g xs st0) in *; clearbody F; destruct F as [comps ins]
       end; cbn [fst snd] in Hl, Hf; cbv beta iota in Hrhs;
       match type of Hrhs with context [filter ?p ?x] => change (filter p x) with (nonempty_chunks x) in Hrhs end.
  all: name_in Hc; name_in Hf; name_in Hn; fcbv_in Hn.
  all: destruct ins.
  all: frun ltac:(idtac; filter_step).
  all: subst rhs; cbv [to_fs fmtstr_plain plain_chunk] in *.
  all: match goal with
       | |- Ok (VRec _ (cons (_, VList (map _ (nonempty_chunks ?l'))) nil)) = Ok (embed_fmtstr (nonempty_chunks ?m)) =>
           let Hq := fresh "Hq" in
           assert (Hq : nonempty_chunks l' = nonempty_chunks m)
             by (first [ exact Hl | rewrite !nonempty_app, Hl; reflexivity ]);
           rewrite <- Hq; reflexivity
       | _ => fail 1 "TIE BROKEN: the repository's curtsies.formatstring.FmtStr.splice no longer computes what the model computes"
       end.
Qed.

(* the last parameter left to its default value: the same run as with None given explicitly
   (the default expression is read off the generated tree and evaluated) *)
Theorem splice_tie_default : forall f new start,
  operand_plain new = true ->
  call_in ctxF3 py_FmtStr_splice [embed_fmtstr f; embed_operand new; VInt start]
  = Ok (embed_fmtstr (splice f new start None)).
Proof.
  intros f new start H. rewrite <- (splice_tie f new start None H).
  unfold call_in. cbn [embed_optZ].
  first [ pcbv; reflexivity
        | fail 1 "TIE BROKEN: the default value of the last parameter of curtsies.formatstring.FmtStr.splice is no longer None" ].
Qed.
