(* curtsies.formatstring.width_aware_slice (the module-level function): repository text =
   model, for all strings and bounds and EVERY width function wc (the oracle for cwcwidth.wcwidth) *)
From Coq Require Import String Lia ZifyBool ZifyNat ZifyN.
From Curtsies Require Import Model.Base Spec.ListOps Spec.PyMini Gen.Pure Gen.PureFmt Spec.PyEnvFmt
  Model.Slice Model.Width Proofs.PyStep Proofs.PureTieBase Proofs.PureTieFmtBase.
Local Open Scope Z_scope.

Section Was.
Variable wc : char -> Z.

(* ---- first loop: divides = [0]; for c in s: divides.append(divides[-1] + wcwidth(c)) ---------- *)
Definition ps_step (st : list Z * Z) (ch : char) : lres (list Z * Z) :=
  LNext (fst st ++ [snd st], snd st + wc ch).

Lemma ps_loop_model : forall s pre lst,
  exists pre' lst', loop_model ps_step (pre, lst) s = Ok (pre', lst')
                    /\ pre' ++ [lst'] = pre ++ psums wc lst s.
Proof.
  induction s as [|ch s IH]; intros pre lst.
  - exists pre, lst. split; reflexivity.
  - cbn [loop_model ps_step fst snd psums].
    destruct (IH (pre ++ [lst]) (lst + wc ch)) as [pre' [lst' [H1 H2]]].
    exists pre', lst'. split; [exact H1|]. rewrite H2, <- app_assoc. reflexivity.
Qed.

(* ---- second loop: over zip(s, divides[:-1], divides[1:]) ------------------------------------------ *)
Definition wa_step (start end_ : Z) (acc : str) (x : char * Z * Z) : lres str :=
  LNext (acc ++ was_char (fst (fst x)) (snd (fst x)) (snd x) start end_).

Lemma wa_loop_model : forall start end_ s pos acc,
  loop_model (wa_step start end_) acc (triples wc pos s) = Ok (acc ++ was_chars wc s pos start end_).
Proof.
  induction s as [|ch s IH]; intros pos acc.
  - cbn [triples loop_model was_chars]. rewrite app_nil_r. reflexivity.
  - cbn [triples loop_model wa_step fst snd was_chars]. rewrite IH, <- app_assoc. reflexivity.
Qed.

Theorem width_aware_slice_tie : forall s start end_,
  call_in (ctxF1 wc) py_width_aware_slice [VStr s; VInt start; VInt end_] = Ok (VStr (was_str wc s start end_)).
Proof.
  not_a_stub py_width_aware_slice.
  intros s start end_. unfold call_in. pcbv.
  frun ltac:(idtac).
  (* first loop *)
  match goal with
  | |- context [for_loop ?c ?t ?body _ ?r0] =>
      let dn := eval cbv in (first_mutated body) in
      let ps := eval cbv in (f_params py_width_aware_slice) in
      let cns := eval cbv in (carried body r0) in      (* a running total kept beside divides[-1], if any *)
      pose (R1 := fun (st : list Z * Z) (r : env) =>
                    lookup dn r = Some (VList (map VInt (fst st ++ [snd st])))
                    /\ holds cns (VInt (snd st)) r /\ keeps ps r0 r)
  end.
  loop_with ps_step R1.
  - intros [pre lst] ch r (Hd & Hc & Hkeep). cbn [fst snd] in Hd, Hc. split_holds Hc. split_keeps Hkeep.
    fcbv.
    match goal with |- round_post ?R' ?m ?o => remember (round_post R' m) as K eqn:HK end.
    frun ltac:(idtac).
    all: subst K; unfold ps_step; cbn [fst snd].
    all: first [ close_round
               | fail 1 "TIE BROKEN: the repository's curtsies.formatstring.width_aware_slice no longer computes what the model computes (first loop)" ].
  - after_loop HL (@nil Z, 0).
    all: try contradiction.
    all: destruct (ps_loop_model s [] 0) as [pre' [lst' [Hm Hp]]]; rewrite Hm in HL0; try discriminate.
    destruct HL0 as [st [Hs (Hd & Hc & Hk)]]. injection Hs as <-. cbn [fst snd] in Hd, Hc. split_holds Hc. split_keeps Hk.
    rewrite Hp in Hd. cbn [app] in Hd.
    frun ltac:(idtac).
    change (- (1)) with (-1). rewrite slice_list_removelast, slice_list_tl, zip3_triples.
    (* second loop *)
    match goal with
    | |- context [for_loop ?c ?t ?body _ ?r0] =>
        let nn := eval cbv in (first_mutated body) in
        let ps := eval cbv in (f_params py_width_aware_slice) in
        pose (R2 := fun (st : str) (r : env) =>
                      lookup nn r = Some (VList (map (fun ch => VStr [ch]) st)) /\ keeps ps r0 r)
    end.
    loop_with (wa_step start end_) R2.
    + intros acc [[ch a] b] r (Hn & Hkeep2). split_keeps Hkeep2.
      fcbv.
      match goal with |- round_post ?R' ?m ?o => remember (round_post R' m) as K eqn:HK end.
      frun ltac:(idtac; decide_cmp).
      all: subst K; unfold wa_step, was_char; cbn [fst snd].
      all: first [ close_round
                 | fail 1 "TIE BROKEN: the repository's curtsies.formatstring.width_aware_slice no longer computes what the model computes (second loop)" ].
    + after_loop HL (@nil char).
      all: try contradiction.
      all: rewrite wa_loop_model in HL0; try discriminate.
      destruct HL0 as [st [Hs (Hn & Hkeep2)]]. injection Hs as <-. cbn [app] in Hn.
      frun ltac:(idtac).
      unfold was_str.
      first [ same_result
            | fail 1 "TIE BROKEN: the repository's curtsies.formatstring.width_aware_slice no longer computes what the model computes" ].
Qed.
End Was.
