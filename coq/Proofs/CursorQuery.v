(* Proofs for C18: the cursor position query parses the report exactly;
   vertical movement is conserved. *)
From Coq Require Import Lia ZifyBool ZifyNat ZifyN.
From Curtsies Require Import Model.Base Model.CursorQuery Spec.CursorSpec.
Local Open Scope N_scope.

(* ------------------------------------------------------------------------- *)
(* digits                                                                    *)

Lemma digit_is_digit : forall c, digit c = is_digit c.
Proof.
  intro c. unfold digit, is_digit. cbn [existsb]. lia.
Qed.

Lemma forallb_digit : forall s, forallb digit s = forallb is_digit s.
Proof.
  induction s as [|c s IH]; cbn [forallb]; [reflexivity|].
  now rewrite digit_is_digit, IH.
Qed.

Lemma digits_inv : forall s, digits s = true -> s <> [] /\ forallb is_digit s = true.
Proof.
  intros [|c s] H; [discriminate|]. split; [discriminate|].
  unfold digits in H. now rewrite forallb_digit in H.
Qed.

Lemma digits_intro : forall s, s <> [] -> forallb is_digit s = true -> digits s = true.
Proof.
  intros [|c s] Hn H; [congruence|]. unfold digits. now rewrite forallb_digit.
Qed.

Lemma span_digits_app : forall ds c r,
  forallb is_digit ds = true -> is_digit c = false ->
  span_digits (ds ++ c :: r) = (ds, c :: r).
Proof.
  induction ds as [|d ds IH]; intros c r Hd Hc.
  - cbn [app span_digits]. now rewrite Hc.
  - cbn [forallb] in Hd. apply andb_prop in Hd as [Hd1 Hd2].
    cbn [app span_digits]. rewrite Hd1, (IH c r Hd2 Hc). reflexivity.
Qed.

Lemma span_digits_spec : forall s d t,
  span_digits s = (d, t) ->
  s = d ++ t /\ forallb is_digit d = true.
Proof.
  induction s as [|c s IH]; intros d t H.
  - cbn in H. inversion H. now split.
  - cbn [span_digits] in H. destruct (is_digit c) eqn:Hc.
    + destruct (span_digits s) as [d' t'] eqn:Hs. inversion H; subst.
      destruct (IH d' t eq_refl) as [E F]. split.
      * cbn [app]. now rewrite <- E.
      * cbn [forallb]. now rewrite Hc, F.
    + inversion H; subst. now split.
Qed.

Lemma int_acc_value : forall ds acc,
  int_acc acc ds = fold_left (fun a d => 10 * a + (d - 48)) ds acc.
Proof.
  induction ds as [|d ds IH]; intro acc; cbn [int_acc fold_left]; [reflexivity|apply IH].
Qed.

Lemma py_int_value : forall ds, py_int ds = value ds.
Proof. intro ds. apply int_acc_value. Qed.

(* ------------------------------------------------------------------------- *)
(* the report matcher                                                        *)

Lemma report_app : forall csi rs cs a,
  report csi rs cs ++ a = csi ++ rs ++ 59 :: cs ++ 82 :: a.
Proof.
  intros. unfold report. rewrite <- ?app_assoc. cbn [app].
  rewrite <- ?app_assoc. reflexivity.
Qed.

Lemma match_report_complete : forall csi rs cs a,
  is_csi csi -> digits rs = true -> digits cs = true ->
  match_report (report csi rs cs ++ a) = Some (rs, cs, a).
Proof.
  intros csi rs cs a Hcsi Hrs Hcs.
  apply digits_inv in Hrs as [Hrn Hrd]. apply digits_inv in Hcs as [Hcn Hcd].
  assert (Hm : match_csi (report csi rs cs ++ a) = Some (rs ++ 59 :: cs ++ 82 :: a)).
  { rewrite report_app. destruct Hcsi as [-> | ->]; reflexivity. }
  unfold match_report. rewrite Hm. cbv beta iota.
  pose proof (span_digits_app rs 59 (cs ++ 82 :: a) Hrd eq_refl) as X1.
  pose proof (span_digits_app cs 82 a Hcd eq_refl) as X2.
  unfold str, char in *. rewrite X1.
  destruct rs as [|r0 rs']; [congruence|]. cbn [expect N.eqb Pos.eqb].
  rewrite X2. cbn [expect N.eqb Pos.eqb].
  destruct cs as [|c0 cs']; [congruence|]. reflexivity.
Qed.

Lemma match_csi_sound : forall s r,
  match_csi s = Some r -> exists csi, is_csi csi /\ s = csi ++ r.
Proof.
  intros s r H. unfold match_csi in H.
  destruct s as [|c s]; [discriminate|].
  destruct (c =? 27) eqn:E27.
  - destruct s as [|c2 s]; [discriminate|].
    destruct (c2 =? 91) eqn:E91; [|discriminate].
    apply N.eqb_eq in E27, E91. subst. inversion H; subst.
    exists csi7. split; [now left|reflexivity].
  - destruct (c =? 155) eqn:E155; [|discriminate].
    apply N.eqb_eq in E155. subst. inversion H; subst.
    exists csi8. split; [now right|reflexivity].
Qed.

Lemma expect_sound : forall x s r, expect x s = Some r -> s = x :: r.
Proof.
  intros x [|c s] r H; [discriminate|]. cbn [expect] in H.
  destruct (c =? x) eqn:E; [|discriminate]. apply N.eqb_eq in E. now inversion H; subst.
Qed.

Lemma match_report_sound : forall s rs cs a,
  match_report s = Some (rs, cs, a) ->
  exists csi, is_csi csi /\ digits rs = true /\ digits cs = true /\
              s = report csi rs cs ++ a.
Proof.
  intros s rs cs a H. unfold match_report in H.
  destruct (match_csi s) as [r|] eqn:Hm; [|discriminate].
  destruct (match_csi_sound _ _ Hm) as [csi [Hcsi Es]].
  destruct (span_digits r) as [rdg r1] eqn:H1.
  destruct rdg as [|d0 rdg]; [discriminate|].
  destruct (expect 59 r1) as [r2|] eqn:X1; [|discriminate].
  destruct (span_digits r2) as [cdg r3] eqn:H2.
  destruct cdg as [|e0 cdg]; [discriminate|].
  destruct (expect 82 r3) as [r4|] eqn:X2; [|discriminate].
  inversion H; subst.
  apply expect_sound in X1, X2. subst.
  destruct (span_digits_spec _ _ _ H1) as [E1 D1].
  destruct (span_digits_spec _ _ _ H2) as [E2 D2].
  exists csi. split; [assumption|]. split; [|split].
  - apply digits_intro; [discriminate|assumption].
  - apply digits_intro; [discriminate|assumption].
  - rewrite report_app, E1, E2. reflexivity.
Qed.

Lemma match_report_nil : match_report [] = None.
Proof. reflexivity. Qed.

Lemma match_report_no_csi : forall c s,
  c <> 27 -> c <> 155 -> match_report (c :: s) = None.
Proof.
  intros c s N27 N155. unfold match_report.
  destruct (match_csi (c :: s)) as [r|] eqn:Hm; [|reflexivity].
  destruct (match_csi_sound _ _ Hm) as [csi [[-> | ->] E]]; inversion E; congruence.
Qed.

(* ------------------------------------------------------------------------- *)
(* re.search with the greedy, DOTALL `.*` in front                           *)

Lemma search_none : forall s,
  search s = None -> forall u v, s = u ++ v -> match_report v = None.
Proof.
  induction s as [|c s IH]; intros H u v E.
  - destruct u; [|discriminate]. cbn in E. subst v. reflexivity.
  - cbn [search] in H.
    destruct (search s) as [[[[e rdg] cdg] a]|] eqn:Hs; [discriminate|].
    destruct (match_report (c :: s)) as [[[rdg cdg] a]|] eqn:Hm; [discriminate|].
    destruct u as [|x u].
    + cbn in E. now subst v.
    + cbn in E. inversion E; subst. now apply (IH eq_refl u v).
Qed.

Lemma search_none_intro : forall s,
  (forall u v, s = u ++ v -> match_report v = None) -> search s = None.
Proof.
  induction s as [|c s IH]; intro H; [reflexivity|].
  cbn [search]. rewrite IH.
  - now rewrite (H [] (c :: s) eq_refl).
  - intros u v E. apply (H (c :: u) v). cbn. now rewrite E.
Qed.

Lemma search_some : forall s e rs cs a,
  search s = Some (e, rs, cs, a) ->
  exists t, s = e ++ t /\ match_report t = Some (rs, cs, a) /\
            (forall u v, t = u ++ v -> u <> [] -> match_report v = None).
Proof.
  induction s as [|c s IH]; intros e rs cs a H; [discriminate|].
  cbn [search] in H.
  destruct (search s) as [[[[e' rdg] cdg] a']|] eqn:Hs.
  - inversion H; subst. destruct (IH _ _ _ _ eq_refl) as [t [E [M L]]].
    exists t. split; [cbn; now rewrite E|]. now split.
  - destruct (match_report (c :: s)) as [[[rdg cdg] a']|] eqn:Hm; [|discriminate].
    inversion H; subst. exists (c :: s). split; [reflexivity|]. split; [assumption|].
    intros u v E Hu. destruct u as [|x u]; [congruence|].
    cbn in E. inversion E; subst. now apply (search_none _ Hs u v).
Qed.

(* the LAST start wins *)
Lemma search_last : forall u v rs cs a,
  match_report v = Some (rs, cs, a) ->
  (forall u' v', v = u' ++ v' -> u' <> [] -> match_report v' = None) ->
  search (u ++ v) = Some (u, rs, cs, a).
Proof.
  induction u as [|c u IH]; intros v rs cs a M L.
  - cbn [app]. destruct v as [|x v]; [discriminate|].
    cbn [search]. rewrite search_none_intro.
    + now rewrite M.
    + intros u' v' E. apply (L (x :: u') v'); [cbn; now rewrite E|discriminate].
  - cbn [app search]. now rewrite (IH v rs cs a M L).
Qed.

(* The search runs after every character.  At the first success the match
   ends exactly at the last character read. *)
Lemma first_match_ends_at_end : forall resp c e rs cs a,
  search resp = None ->
  search (resp ++ [c]) = Some (e, rs, cs, a) ->
  a = [].
Proof.
  intros resp c e rs cs a Hn Hs.
  destruct (search_some _ _ _ _ _ Hs) as [t [E [M _]]].
  destruct (match_report_sound _ _ _ _ M) as [csi [Hcsi [Hrs [Hcs Et]]]].
  destruct a as [|a0 a']; [reflexivity|exfalso].
  assert (Ha : a0 :: a' <> []) by discriminate.
  rewrite (app_removelast_last 0 Ha) in Et.
  set (a1 := removelast (a0 :: a')) in *. set (z := List.last (a0 :: a') 0) in *.
  assert (E' : resp ++ [c] = (e ++ report csi rs cs ++ a1) ++ [z]).
  { rewrite E, Et. now rewrite <- !app_assoc. }
  apply app_inj_tail in E' as [E' _].
  pose proof (search_none _ Hn e (report csi rs cs ++ a1) E') as Hnone.
  rewrite (match_report_complete csi rs cs a1 Hcsi Hrs Hcs) in Hnone. discriminate.
Qed.

(* ------------------------------------------------------------------------- *)
(* no report is complete before the true one                                 *)

Lemma in_last : forall {A} (l : list A) d, l <> [] -> In (List.last l d) l.
Proof.
  intros A l d H. rewrite (app_removelast_last d H) at 2.
  apply in_or_app. right. now left.
Qed.

Lemma last_app_r : forall {A} (l1 l2 : list A) d, l2 <> [] -> List.last (l1 ++ l2) d = List.last l2 d.
Proof.
  intros A l1 l2 d H. rewrite (app_removelast_last d H), app_assoc. now rewrite !last_last.
Qed.

Lemma digit_not_R : forall s, forallb is_digit s = true -> ~ In 82 s.
Proof.
  intros s H I. rewrite forallb_forall in H. specialize (H 82 I). discriminate.
Qed.

Lemma report_last : forall csi rs cs d, List.last (report csi rs cs) d = 82.
Proof.
  intros. unfold report. rewrite !app_assoc. apply last_last.
Qed.

Lemma report_removelast : forall csi rs cs,
  removelast (report csi rs cs) = csi ++ rs ++ [59] ++ cs.
Proof.
  intros. unfold report. rewrite !app_assoc. rewrite removelast_last. now rewrite <- !app_assoc.
Qed.

Lemma no_R_inside : forall csi rs cs,
  is_csi csi -> digits rs = true -> digits cs = true ->
  ~ In 82 (removelast (report csi rs cs)).
Proof.
  intros csi rs cs Hcsi Hrs Hcs I. rewrite report_removelast in I.
  apply digits_inv in Hrs as [_ Hrs]. apply digits_inv in Hcs as [_ Hcs].
  apply in_app_or in I as [I|I].
  { destruct Hcsi as [-> | ->]; cbn in I; intuition discriminate. }
  apply in_app_or in I as [I|I]; [now apply (digit_not_R rs)|].
  apply in_app_or in I as [I|I]; [cbn in I; intuition discriminate|].
  now apply (digit_not_R cs).
Qed.

(* a report cannot end strictly inside extra ++ report when extra holds none *)
Lemma no_early_report : forall extra csi rs cs u csi' rs' cs' y,
  no_report extra ->
  is_csi csi -> digits rs = true -> digits cs = true ->
  is_csi csi' -> digits rs' = true -> digits cs' = true ->
  extra ++ report csi rs cs = (u ++ report csi' rs' cs') ++ y ->
  y <> [] -> False.
Proof.
  intros extra csi rs cs u csi' rs' cs' y Hno Hcsi Hrs Hcs Hcsi' Hrs' Hcs' E Hy.
  apply app_eq_app in E as [l [[E1 E2]|[E1 E2]]].
  - apply (Hno u csi' rs' cs' l Hcsi' Hrs' Hcs'). now rewrite E1, <- app_assoc.
  - destruct l as [|l0 l'].
    + apply (Hno u csi' rs' cs' [] Hcsi' Hrs' Hcs'). rewrite app_nil_r in *. now symmetry.
    + assert (Hl : l0 :: l' <> []) by discriminate.
      assert (L : List.last (l0 :: l') 0 = 82).
      { rewrite <- (last_app_r extra (l0 :: l') 0 Hl), <- E1.
        assert (Hr : report csi' rs' cs' <> []).
        { unfold report. destruct Hcsi' as [-> | ->]; discriminate. }
        rewrite (last_app_r u _ 0 Hr). apply report_last. }
      apply (no_R_inside csi rs cs Hcsi Hrs Hcs).
      rewrite E2, (removelast_app _ Hy). apply in_or_app. left.
      rewrite <- L. now apply in_last.
Qed.

(* P1: no proper prefix of extra ++ report matches *)
Lemma search_proper_prefix : forall extra csi rs cs q z,
  no_report extra -> is_csi csi -> digits rs = true -> digits cs = true ->
  extra ++ report csi rs cs = q ++ z -> z <> [] ->
  search q = None.
Proof.
  intros extra csi rs cs q z Hno Hcsi Hrs Hcs E Hz.
  apply search_none_intro. intros u v Eq.
  destruct (match_report v) as [[[rs' cs'] a']|] eqn:M; [exfalso|reflexivity].
  destruct (match_report_sound _ _ _ _ M) as [csi' [Hcsi' [Hrs' [Hcs' Ev]]]].
  apply (no_early_report extra csi rs cs u csi' rs' cs' (a' ++ z) Hno Hcsi Hrs Hcs Hcsi' Hrs' Hcs').
  - rewrite E, Eq, Ev. now rewrite <- !app_assoc.
  - destruct a'; [now cbn|discriminate].
Qed.

Lemma tail_incl : forall {A} (u v w : list A), w = u ++ v -> u <> [] -> incl v (tl w).
Proof.
  intros A [|x u] v w E Hu; [congruence|]. subst w. cbn. intros y Hy. apply in_or_app. now right.
Qed.

(* P2: on the whole of extra ++ report the search finds exactly extra *)
Lemma search_whole : forall extra csi rs cs,
  is_csi csi -> digits rs = true -> digits cs = true ->
  search (extra ++ report csi rs cs) = Some (extra, rs, cs, []).
Proof.
  intros extra csi rs cs Hcsi Hrs Hcs. apply search_last.
  - rewrite <- (app_nil_r (report csi rs cs)). now apply match_report_complete.
  - intros u' v' E Hu. destruct v' as [|x v']; [reflexivity|].
    pose proof (tail_incl u' (x :: v') _ E Hu x (or_introl eq_refl)) as I.
    assert (B : forall y, In y (tl (report csi rs cs)) -> y <> 27 /\ y <> 155).
    { intros y Iy. apply digits_inv in Hrs as [_ Hrs]. apply digits_inv in Hcs as [_ Hcs].
      rewrite forallb_forall in Hrs, Hcs.
      assert (Bd : forall s, (forall c, In c s -> is_digit c = true) -> In y s -> y <> 27 /\ y <> 155).
      { intros s Hs Is. specialize (Hs y Is). unfold is_digit in Hs. lia. }
      unfold report in Iy.
      assert (Iy' : In y ([91] ++ rs ++ [59] ++ cs ++ [82])).
      { destruct Hcsi as [-> | ->]; cbn [csi7 csi8 app tl] in Iy; [exact Iy|now right]. }
      apply in_app_or in Iy' as [J|J]; [cbn in J; destruct J as [<-|[]]; lia|].
      apply in_app_or in J as [J|J]; [now apply (Bd rs)|].
      apply in_app_or in J as [J|J]; [cbn in J; destruct J as [<-|[]]; lia|].
      apply in_app_or in J as [J|J]; [now apply (Bd cs)|].
      cbn in J; destruct J as [<-|[]]; lia. }
    destruct (B x I) as [N27 N155]. now apply match_report_no_csi.
Qed.

(* ------------------------------------------------------------------------- *)
(* get_cursor_position                                                       *)

Lemma no_eof_cons : forall i s, no_eof (i :: s) -> is_eof i = false /\ no_eof s.
Proof.
  intros i s H. split; [apply H; now left|]. intros j Hj. apply H. now right.
Qed.

Lemma gcp_loop_parse : forall cb extra csi rs cs trail,
  no_report extra -> is_csi csi -> digits rs = true -> digits cs = true ->
  forall pre resp nests,
    no_eof pre ->
    resp ++ chars_of pre ++ [82] = extra ++ report csi rs cs ->
    gcp_loop cb resp nests (pre ++ Rd (Char 82) :: trail) =
    expected_outcome cb extra rs cs trail (nests + count_nests pre).
Proof.
  intros cb extra csi rs cs trail Hno Hcsi Hrs Hcs.
  induction pre as [|i pre IH]; intros resp nests Hne E.
  - cbn [app chars_of] in *. cbn [gcp_loop].
    pose proof (search_whole extra csi rs cs Hcsi Hrs Hcs) as SW.
    unfold str, char in *. rewrite E, SW.
    rewrite !py_int_value. unfold expected_outcome, count_nests. cbn [filter length].
    rewrite Nat.add_0_r. destruct extra; [reflexivity|]. destruct cb; reflexivity.
  - apply no_eof_cons in Hne as [Hi Hne].
    destruct i as [[c| |]|]; cbn [app gcp_loop chars_of] in *.
    + (* a character that is not the last one *)
      assert (Hs : search (resp ++ [c]) = None).
      { apply (search_proper_prefix extra csi rs cs (resp ++ [c]) (chars_of pre ++ [82]) Hno Hcsi Hrs Hcs).
        - rewrite <- E. now rewrite <- app_assoc.
        - destruct (chars_of pre); discriminate. }
      rewrite Hs. rewrite (IH (resp ++ [c]) nests Hne).
      * reflexivity.
      * rewrite <- E. now rewrite <- app_assoc.
    + (* OSError: retry *)
      now rewrite (IH resp nests Hne E).
    + discriminate.
    + (* nested call point *)
      rewrite (IH resp (S nests) Hne E). unfold count_nests. cbn [filter is_nest length].
      now rewrite Nat.add_succ_r.
Qed.

(* MAIN THEOREM (parse).  The stream delivers, through any interleaving of
   failing reads (and nested-call points), the characters of
   extra ++ CSI rs ; cs R, then anything at all. *)
Theorem get_cursor_position_parse : forall cb extra csi rs cs pre trail,
  no_report extra -> is_csi csi -> digits rs = true -> digits cs = true ->
  no_eof pre ->
  chars_of pre = extra ++ csi ++ rs ++ [59] ++ cs ->
  get_cursor_position cb (pre ++ Rd (Char 82) :: trail) =
  expected_outcome cb extra rs cs trail (count_nests pre).
Proof.
  intros cb extra csi rs cs pre trail Hno Hcsi Hrs Hcs Hne E.
  unfold get_cursor_position.
  rewrite (gcp_loop_parse cb extra csi rs cs trail Hno Hcsi Hrs Hcs pre [] 0%nat Hne); [reflexivity|].
  cbn [app]. rewrite E. unfold report. now rewrite <- !app_assoc.
Qed.

(* no report at all: every read is consumed up to the first '' and ValueError is raised *)
Lemma gcp_loop_no_report : forall cb pre trail resp nests,
  no_eof pre ->
  (forall u v, resp ++ chars_of pre = u ++ v -> match_report v = None) ->
  gcp_loop cb resp nests (pre ++ Rd Eof :: trail) =
  mkOut (Raise ValueError) [] trail (nests + count_nests pre).
Proof.
  intros cb pre trail. induction pre as [|i pre IH]; intros resp nests Hne Hno.
  - cbn. now rewrite Nat.add_0_r.
  - apply no_eof_cons in Hne as [Hi Hne].
    destruct i as [[c| |]|]; cbn [app gcp_loop chars_of] in *.
    + rewrite search_none_intro.
      * apply IH; [assumption|]. intros u v E. apply (Hno u v). rewrite <- E. now rewrite <- app_assoc.
      * intros u v E. destruct (match_report v) as [[[rs cs] a]|] eqn:M; [|reflexivity].
        destruct (match_report_sound _ _ _ _ M) as [csi [Hcsi [Hrs [Hcs Ev]]]].
        specialize (Hno u (report csi rs cs ++ a ++ chars_of pre)).
        rewrite match_report_complete in Hno by assumption.
        assert (X : Some (rs, cs, a ++ chars_of pre) = None); [|discriminate].
        apply Hno. change (c :: chars_of pre) with ([c] ++ chars_of pre).
        rewrite app_assoc, E, Ev. now rewrite <- !app_assoc.
    + now apply IH.
    + discriminate.
    + rewrite (IH resp (S nests) Hne Hno). unfold count_nests. cbn [filter is_nest length].
      now rewrite Nat.add_succ_r.
Qed.

Definition no_report_b (s : str) : Prop := forall u v, s = u ++ v -> match_report v = None.

Lemma no_report_matcher : forall s, no_report s -> no_report_b s.
Proof.
  intros s H u v E. destruct (match_report v) as [[[rs cs] a]|] eqn:M; [exfalso|reflexivity].
  destruct (match_report_sound _ _ _ _ M) as [csi [Hcsi [Hrs [Hcs Ev]]]].
  apply (H u csi rs cs a Hcsi Hrs Hcs). now rewrite E, Ev.
Qed.

Theorem get_cursor_position_eof : forall cb pre trail,
  no_eof pre -> no_report (chars_of pre) ->
  get_cursor_position cb (pre ++ Rd Eof :: trail) =
  mkOut (Raise ValueError) [] trail (count_nests pre).
Proof.
  intros cb pre trail Hne Hno. unfold get_cursor_position.
  rewrite (gcp_loop_no_report cb pre trail [] 0%nat Hne); [reflexivity|].
  cbn [app]. now apply no_report_matcher.
Qed.

(* ------------------------------------------------------------------------- *)
(* the two clamped loops                                                     *)
Local Open Scope Z_scope.

Lemma loop_down_closed : forall fuel t dy,
  dy <= Z.of_nat fuel ->
  loop_down fuel t dy = if (t >? -1) && (dy >? 0) then (t + dy, 0) else (t, dy).
Proof.
  induction fuel as [|f IH]; intros t dy H.
  - cbn [loop_down]. destruct ((t >? -1) && (dy >? 0)) eqn:C; [lia|reflexivity].
  - cbn [loop_down]. destruct ((t >? -1) && (dy >? 0)) eqn:C; [|reflexivity].
    rewrite IH by lia.
    destruct ((t + 1 >? -1) && (dy - 1 >? 0)) eqn:C2; f_equal; lia.
Qed.

Lemma loop_up_closed : forall fuel t dy,
  - dy <= Z.of_nat fuel ->
  loop_up fuel t dy =
  if (t >? 1) && (dy <? 0) then (Z.max 1 (t + dy), dy + (t - Z.max 1 (t + dy))) else (t, dy).
Proof.
  induction fuel as [|f IH]; intros t dy H.
  - cbn [loop_up]. destruct ((t >? 1) && (dy <? 0)) eqn:C; [lia|reflexivity].
  - cbn [loop_up]. destruct ((t >? 1) && (dy <? 0)) eqn:C; [|reflexivity].
    rewrite IH by lia.
    destruct ((t - 1 >? 1) && (dy + 1 <? 0)) eqn:C2; f_equal; lia.
Qed.

(* closed form of the two loops: the supplied fuel is never what stops them *)
Definition move_closed (t dy : Z) : Z * Z :=
  if dy >? 0 then (if t >? -1 then (t + dy, 0) else (t, dy))
  else if dy <? 0 then (if t >? 1 then (Z.max 1 (t + dy), dy + (t - Z.max 1 (t + dy))) else (t, dy))
  else (t, 0).

Lemma move_loops_closed : forall t dy, move_loops t dy = move_closed t dy.
Proof.
  intros t dy. unfold move_loops, move_closed.
  rewrite loop_down_closed by lia.
  destruct (dy >? 0) eqn:P; destruct (t >? -1) eqn:T; cbn [andb].
  - rewrite loop_up_closed by (cbn; lia). cbn. rewrite andb_false_r. reflexivity.
  - rewrite loop_up_closed by lia.
    destruct ((t >? 1) && (dy <? 0)) eqn:C; [lia|reflexivity].
  - rewrite loop_up_closed by lia.
    destruct (dy <? 0) eqn:Ng; destruct (t >? 1) eqn:T1; cbn [andb]; try reflexivity.
    + f_equal; lia.
    + f_equal; lia.
  - rewrite loop_up_closed by lia.
    destruct (dy <? 0) eqn:Ng; destruct (t >? 1) eqn:T1; cbn [andb]; try reflexivity; try lia.
    f_equal; lia.
Qed.

(* the fuel lemma in the form: on exit neither loop condition holds *)
Lemma loops_fuel_enough : forall t dy t' dy',
  move_loops t dy = (t', dy') ->
  ((t' >? -1) && (dy' >? 0) = false) /\ ((t' >? 1) && (dy' <? 0) = false).
Proof.
  intros t dy t' dy' H. rewrite move_loops_closed in H. unfold move_closed in H.
  destruct (dy >? 0) eqn:P; [destruct (t >? -1) eqn:T|destruct (dy <? 0) eqn:Ng; [destruct (t >? 1) eqn:T1|]];
    inversion H; subst; lia.
Qed.

(* every iteration moves one row from cursor_dy into top_usable_row or back *)
Lemma move_loops_conserve : forall t dy t' dy',
  move_loops t dy = (t', dy') -> (t' - t) + dy' = dy.
Proof.
  intros t dy t' dy' H. rewrite move_loops_closed in H. unfold move_closed in H.
  destruct (dy >? 0) eqn:P; [destruct (t >? -1) eqn:T|destruct (dy <? 0) eqn:Ng; [destruct (t >? 1) eqn:T1|]];
    inversion H; subst; lia.
Qed.

Lemma move_loops_zero : forall t, move_loops t 0 = (t, 0).
Proof. intro t. rewrite move_loops_closed. reflexivity. Qed.

(* ------------------------------------------------------------------------- *)
(* get_cursor_position: bookkeeping facts used by the diff proofs            *)

Lemma gcp_loop_facts : forall cb s resp n,
  let o := gcp_loop cb resp n s in
  (n <= o_nests o)%nat /\
  (length (o_rest o) + (o_nests o - n) <= length s)%nat /\
  (forall e, o_res o = Raise e -> e = ValueError).
Proof.
  intros cb. induction s as [|i s IH]; intros resp n; cbn zeta.
  - cbn. repeat split; try lia. intros e H. now inversion H.
  - destruct i as [[c| |]|]; cbn [gcp_loop].
    + destruct (search (resp ++ [c])) as [[[[e rdg] cdg] a]|].
      * destruct e; [|destruct cb]; cbn; repeat split; try lia; intros e' H; now inversion H.
      * specialize (IH (resp ++ [c])%list n). cbn zeta in IH. cbn [length]. intuition lia.
    + specialize (IH resp n). cbn zeta in IH. cbn [length]. intuition lia.
    + cbn. repeat split; try lia. intros e H. now inversion H.
    + specialize (IH resp (S n)). cbn zeta in IH. cbn [length]. intuition lia.
Qed.

(* ------------------------------------------------------------------------- *)
(* _get_cursor_vertical_diff_once                                            *)

Definition ref_row (w : wstate) (row : Z) : Z := match last w with Some l => l | None => row end.

Lemma move_loops_facts : forall t dy t' dy',
  move_loops t dy = (t', dy') ->
  (t' - t) + dy' = dy /\ (dy = 0 -> dy' = 0 /\ t' = t).
Proof.
  intros t dy t' dy' M. split; [now apply move_loops_conserve|].
  intro Z0. subst dy. rewrite move_loops_zero in M. inversion M. now split.
Qed.

Lemma once_ok : forall cb w s dy,
  d_ret (once cb w s) = Ok dy ->
  exists row,
    d_rows (once cb w s) = [row] /\
    last (d_w (once cb w s)) = Some row /\
    in_diff (d_w (once cb w s)) = in_diff w /\
    (top (d_w (once cb w s)) - top w) + dy = row - ref_row w row /\
    (ref_row w row = row -> dy = 0 /\ top (d_w (once cb w s)) = top w) /\
    (another w = false -> another (d_w (once cb w s)) = true -> (length (d_rest (once cb w s)) < length s)%nat).
Proof.
  intros cb w s dy H. unfold once in *.
  pose proof (gcp_loop_facts cb s [] 0%nat) as F. cbn zeta in F.
  fold (get_cursor_position cb s) in F. destruct F as [_ [Flen _]].
  set (o := get_cursor_position cb s) in *.
  destruct (o_res o) as [[row col]|e] eqn:R; [|cbn in H; discriminate].
  exists row. unfold ref_row.
  destruct (o_nests o) as [|k] eqn:Nn; cbn [last top in_diff another] in *;
    (destruct (last w) as [l|] eqn:L;
     [ destruct (move_loops (top w) (row - l)) as [t' dy'] eqn:M; cbn in H; inversion H; subst dy';
       destruct (move_loops_facts _ _ _ _ M) as [HM1 HM2]; cbn
     | cbn in H; inversion H; subst dy; cbn ]);
    (split; [reflexivity|]); (split; [reflexivity|]); (split; [reflexivity|]);
    (split; [lia|]); (split; [intros; lia|]); intros A1 A2; try congruence; lia.
Qed.

Lemma once_raise : forall cb w s e,
  d_ret (once cb w s) = Raise e -> e = ValueError.
Proof.
  intros cb w s e H. unfold once in H.
  pose proof (gcp_loop_facts cb s [] 0%nat) as F. cbn zeta in F.
  fold (get_cursor_position cb s) in F. destruct F as [_ [_ Fe]].
  destruct (o_res (get_cursor_position cb s)) as [[row col]|e'] eqn:R.
  - destruct (o_nests (get_cursor_position cb s)); cbn [last] in H;
      destruct (last w); try destruct (move_loops _ _); cbn in H; discriminate.
  - cbn in H. inversion H; subst. now apply Fe.
Qed.

(* ------------------------------------------------------------------------- *)
(* get_cursor_vertical_diff                                                  *)

Lemma last_cons_ne : forall (x : Z) l d, l <> [] -> List.last (x :: l) d = List.last l d.
Proof. intros x [|y l] d H; [congruence|reflexivity]. Qed.

(* what one outer call achieves, stated for the loop with its accumulators *)
Definition diff_post (w : wstate) (acc : Z) (rows : list Z) (r : dres) : Prop :=
  match d_ret r with
  | Raise e => e = ValueError
  | Ok ret =>
      exists rows',
        rows' <> [] /\ d_rows r = (rows ++ rows')%list /\
        last (d_w r) = Some (List.last rows' 0) /\
        in_diff (d_w r) = false /\
        (top (d_w r) - top w) + (ret - acc) = List.last rows' 0 - ref_row w (hd 0 rows') /\
        (Forall (fun x => x = ref_row w (hd 0 rows')) rows' -> ret = acc /\ top (d_w r) = top w)
  end.

Lemma diff_loop_post : forall fuel cb w s acc cbs rows,
  (length s < fuel)%nat ->
  diff_post w acc rows (diff_loop fuel cb w s acc cbs rows).
Proof.
  induction fuel as [|f IH]; intros cb w s acc cbs rows Hf; [lia|].
  cbn [diff_loop].
  set (w0 := mkW (top w) (last w) true false).
  destruct (d_ret (once cb w0 s)) as [dy|e] eqn:R.
  2:{ unfold diff_post. cbn [d_ret]. now apply (once_raise cb w0 s). }
  destruct (once_ok cb w0 s dy R) as [row [Hrows [Hlast [_ [Hcons [Hzero Hlen]]]]]].
  assert (Href : ref_row w0 row = ref_row w row) by reflexivity.
  assert (Ht : top w0 = top w) by reflexivity.
  rewrite Href, Ht in *.
  cbn [another].
  destruct (another (d_w (once cb w0 s))) eqn:A.
  - (* a nested call arrived: query again *)
    set (w2 := mkW (top (d_w (once cb w0 s))) (last (d_w (once cb w0 s))) false true).
    assert (Hf' : (length (d_rest (once cb w0 s)) < f)%nat).
    { specialize (Hlen eq_refl eq_refl). lia. }
    specialize (IH cb w2 (d_rest (once cb w0 s)) (acc + dy) (cbs ++ d_cb (once cb w0 s))%list
                   (rows ++ d_rows (once cb w0 s))%list Hf').
    unfold diff_post in *.
    destruct (d_ret (diff_loop f cb w2 _ _ _ _)) as [ret|e]; [|exact IH].
    destruct IH as [rows2 [Hne [Hr [Hl [Hi [Hc Hz]]]]]].
    assert (Hw2 : forall x, ref_row w2 x = row).
    { intro x. unfold ref_row, w2. cbn [last]. now rewrite Hlast. }
    rewrite Hw2 in Hc, Hz. cbn [top w2] in Hc, Hz.
    exists (row :: rows2). cbn [hd].
    rewrite (last_cons_ne row rows2 0 Hne).
    split; [discriminate|]. split; [rewrite Hr, Hrows, <- app_assoc; reflexivity|].
    split; [assumption|]. split; [assumption|]. split; [lia|].
    intro Fa. pose proof (Forall_inv Fa) as Hx. pose proof (Forall_inv_tail Fa) as Hl'.
    cbn beta in Hx. specialize (Hzero (eq_sym Hx)). rewrite <- Hx in Hl'. specialize (Hz Hl'). lia.
  - unfold diff_post. cbn [d_ret d_rows d_w last in_diff top].
    exists [row]. cbn [hd List.last].
    split; [discriminate|]. split; [now rewrite Hrows|].
    split; [assumption|]. split; [reflexivity|]. split; [lia|].
    intro Fa. pose proof (Forall_inv Fa) as Hx. cbn beta in Hx. specialize (Hzero (eq_sym Hx)). lia.
Qed.

Lemma forallb_Zeqb : forall ref rows,
  forallb (Z.eqb ref) rows = true -> Forall (fun x => x = ref) rows.
Proof.
  intros ref rows H. apply Forall_forall. intros x I.
  rewrite forallb_forall in H. specialize (H x I). lia.
Qed.

(* the relation of Spec/CursorSpec.v holds of every call, nested or not *)
Theorem diff_relation_holds : forall cb w s,
  match d_ret (get_cursor_vertical_diff cb w s) with
  | Ok ret => diff_relation w ret (d_w (get_cursor_vertical_diff cb w s))
                            (d_rows (get_cursor_vertical_diff cb w s)) = true
  | Raise e => e = ValueError
  end.
Proof.
  intros cb w s. unfold get_cursor_vertical_diff.
  destruct (in_diff w) eqn:I.
  - cbn [d_ret d_w d_rows]. unfold diff_relation. rewrite I.
    unfold wstate_eqb, optZ_eqb. cbn [top last in_diff another].
    rewrite Z.eqb_refl, Bool.eqb_reflx. cbn.
    destruct (last w); cbn; rewrite ?Z.eqb_refl; reflexivity.
  - pose proof (diff_loop_post (S (length s)) cb w s 0 [] [] (Nat.lt_succ_diag_r _)) as P.
    unfold diff_post in P.
    destruct (d_ret (diff_loop (S (length s)) cb w s 0 [] [])) as [ret|e]; [|exact P].
    destruct P as [rows' [Hne [Hr [Hl [Hi [Hc Hz]]]]]].
    cbn [app] in Hr. unfold diff_relation. rewrite I, Hr.
    destruct rows' as [|r0 rest]; [congruence|]. cbn [hd] in *.
    rewrite Hl, Hi. unfold optZ_eqb. cbn [opt_eqb negb]. rewrite Z.eqb_refl.
    assert (Href : ref_row w r0 = match last w with Some l => l | None => r0 end) by reflexivity.
    rewrite <- Href.
    replace (top (d_w (diff_loop (S (length s)) cb w s 0 [] [])) - top w + ret =?
             List.last (r0 :: rest) 0 - ref_row w r0) with true by lia.
    cbn [andb].
    destruct (forallb (Z.eqb (ref_row w r0)) (r0 :: rest)) eqn:Fb; [|reflexivity].
    apply forallb_Zeqb in Fb. specialize (Hz Fb). lia.
Qed.

(* the fuel given by get_cursor_vertical_diff is never exhausted *)
Corollary diff_fuel_enough : forall cb w s,
  d_ret (get_cursor_vertical_diff cb w s) <> Raise OtherError.
Proof.
  intros cb w s H. pose proof (diff_relation_holds cb w s) as P. rewrite H in P. discriminate.
Qed.

(* a nested call (in_get_cursor_diff already True) returns 0, reads nothing,
   calls nothing, changes nothing but another_sigwinch *)
Theorem nested_call_inert : forall cb w s,
  in_diff w = true ->
  get_cursor_vertical_diff cb w s = mkD (Ok 0) (mkW (top w) (last w) true true) s [] [].
Proof.
  intros cb w s H. unfold get_cursor_vertical_diff. now rewrite H.
Qed.

(* readable form of the conservation law *)
Theorem diff_conserves : forall cb w s ret,
  in_diff w = false ->
  d_ret (get_cursor_vertical_diff cb w s) = Ok ret ->
  let r := get_cursor_vertical_diff cb w s in
  exists first now,
    hd_error (d_rows r) = Some first /\ List.last (d_rows r) 0 = now /\
    last (d_w r) = Some now /\ in_diff (d_w r) = false /\
    (top (d_w r) - top w) + ret = now - ref_row w first /\
    (Forall (fun x => x = ref_row w first) (d_rows r) -> ret = 0 /\ top (d_w r) = top w).
Proof.
  intros cb w s ret I H r. subst r. revert H. unfold get_cursor_vertical_diff. rewrite I.
  intro H.
  pose proof (diff_loop_post (S (length s)) cb w s 0 [] [] (Nat.lt_succ_diag_r _)) as P.
  unfold diff_post in P. rewrite H in P.
  destruct P as [rows' [Hne [Hr [Hl [Hi [Hc Hz]]]]]]. cbn [app] in Hr. rewrite Hr.
  destruct rows' as [|r0 rest]; [congruence|]. cbn [hd] in *.
  exists r0, (List.last (r0 :: rest) 0). cbn [hd_error].
  repeat split; try assumption; try lia; intro Fa; specialize (Hz Fa); lia.
Qed.

(* ------------------------------------------------------------------------- *)
(* histories                                                                 *)

Lemma optZ_eqb_refl : forall o, optZ_eqb o o = true.
Proof. intros [z|]; cbn; [apply Z.eqb_refl|reflexivity]. Qed.

Lemma wstate_eqb_refl : forall w, wstate_eqb w w = true.
Proof.
  intro w. unfold wstate_eqb. now rewrite Z.eqb_refl, optZ_eqb_refl, !Bool.eqb_reflx.
Qed.

Lemma step_rel_holds : forall w pending o,
  step_rel w o (fst (step w pending o)) = true.
Proof.
  intros w pending o. destruct o as [t l|n c h|cb s|cb s]; cbn [step].
  - cbn. apply wstate_eqb_refl.
  - unfold render_book.
    destruct (scroll_loop _ _ _) as [t' off]. cbn.
    now rewrite Z.eqb_refl, !Bool.eqb_reflx.
  - cbn [fst step_rel ob_ret ob_w ob_rows].
    pose proof (diff_relation_holds cb w (pending ++ s)) as P.
    destruct (d_ret (get_cursor_vertical_diff cb w (pending ++ s))) as [dy|e].
    + exact P.
    + subst e. reflexivity.
  - cbn. apply wstate_eqb_refl.
Qed.

(* MAIN THEOREM (diff): every step of every history, from any state and with
   any pending input, satisfies the movement relation of Spec/CursorSpec.v *)
Theorem history_conserves : forall ops w pending,
  hist_rel w ops (run_ops w pending ops) = true.
Proof.
  induction ops as [|o ops IH]; intros w pending; [reflexivity|].
  cbn [run_ops]. pose proof (step_rel_holds w pending o) as S1.
  destruct (step w pending o) as [ob p'] eqn:St. cbn [fst] in S1.
  cbn [hist_rel]. now rewrite S1, IH.
Qed.

(* in_get_cursor_diff is False after every operation unless a query raised *)
Lemma step_keeps_flag : forall w pending o,
  in_diff w = false ->
  (forall e, ob_ret (fst (step w pending o)) <> Raise e) ->
  in_diff (ob_w (fst (step w pending o))) = false.
Proof.
  intros w pending o I Hok. destruct o as [t l|n c h|cb s|cb s]; cbn [step] in *.
  - exact I.
  - unfold render_book. destruct (scroll_loop _ _ _) as [t' off]. exact I.
  - cbn [fst ob_ret ob_w] in *.
    pose proof (diff_relation_holds cb w (pending ++ s)) as P.
    destruct (d_ret (get_cursor_vertical_diff cb w (pending ++ s))) as [dy|e].
    + unfold diff_relation in P. rewrite I in P.
      destruct (d_rows _); [discriminate|]. lia.
    + exfalso. now apply (Hok e).
  - exact I.
Qed.

(* ------------------------------------------------------------------------- *)
(* deciding the hypothesis "no complete report in extra"                     *)

Lemma no_report_by_search : forall extra, search extra = None -> no_report extra.
Proof.
  intros extra H pre csi rs cs post Hcsi Hrs Hcs E.
  pose proof (search_none _ H pre (report csi rs cs ++ post) E) as X.
  rewrite match_report_complete in X by assumption. discriminate.
Qed.

Lemma no_report_search : forall extra, no_report extra -> search extra = None.
Proof.
  intros extra H. apply search_none_intro. now apply no_report_matcher.
Qed.


Lemma no_report_iff_search : forall extra, no_report extra <-> search extra = None.
Proof. intro extra. split; [apply no_report_search|apply no_report_by_search]. Qed.

(* ------------------------------------------------------------------------- *)
(* every number is denoted by a digit string                                 *)
Local Close Scope Z_scope.
Local Open Scope N_scope.

Lemma value_snoc : forall ds d, value (ds ++ [d]) = 10 * value ds + (d - 48).
Proof. intros ds d. unfold value. now rewrite fold_left_app. Qed.

Lemma digits_snoc : forall ds d, digits ds = true -> digit d = true -> digits (ds ++ [d]) = true.
Proof.
  intros ds d H Hd. destruct ds as [|x ds]; [discriminate|].
  unfold digits in *. cbn [app].
  change (x :: ds ++ [d]) with ((x :: ds) ++ [d]). rewrite forallb_app, H. cbn [forallb andb]. now rewrite Hd.
Qed.

Lemma every_number_has_digits : forall n, exists ds, digits ds = true /\ value ds = n.
Proof.
  intro n. induction n as [n IH] using (well_founded_induction N.lt_wf_0).
  destruct (N.ltb n 10) eqn:L.
  - exists [48 + n]. split.
    + unfold digits, digit. cbn [forallb existsb]. lia.
    + unfold value. cbn [fold_left]. lia.
  - assert (Hlt : n / 10 < n) by (apply N.div_lt; lia).
    destruct (IH (n / 10) Hlt) as [ds [Hd Hv]].
    exists (ds ++ [48 + n mod 10]). split.
    + apply digits_snoc; [assumption|]. unfold digit. cbn [existsb].
      pose proof (N.mod_lt n 10). lia.
    + rewrite value_snoc, Hv. pose proof (N.div_mod n 10). lia.
Qed.

(* "every reported position": for every row, col >= 1 there are digit strings
   denoting them, and for ALL digit strings denoting them the result is
   (row-1, col-1) *)
Theorem parse_every_position : forall row col,
  (exists rs cs, digits rs = true /\ digits cs = true /\ value rs = row /\ value cs = col) /\
  forall cb extra csi rs cs pre trail,
    no_report extra -> is_csi csi -> digits rs = true -> digits cs = true ->
    value rs = row -> value cs = col ->
    no_eof pre -> chars_of pre = extra ++ csi ++ rs ++ [59] ++ cs ->
    (extra = [] \/ cb = true) ->
    let o := get_cursor_position cb (pre ++ Rd (Char 82) :: trail) in
    o_res o = Ok (Z.of_N row - 1, Z.of_N col - 1)%Z /\
    o_cb o = match extra with [] => [] | _ => [extra] end /\
    o_rest o = trail.
Proof.
  intros row col. split.
  - destruct (every_number_has_digits row) as [rs [H1 H2]].
    destruct (every_number_has_digits col) as [cs [H3 H4]].
    exists rs, cs. auto.
  - intros cb extra csi rs cs pre trail Hno Hcsi Hrs Hcs Vr Vc Hne E Hcb. cbv zeta.
    rewrite (get_cursor_position_parse cb extra csi rs cs pre trail Hno Hcsi Hrs Hcs Hne E).
    unfold expected_outcome. rewrite Vr, Vc.
    destruct extra as [|x extra]; [now repeat split|].
    destruct Hcb as [Hcb|Hcb]; [discriminate|]. subst cb. now repeat split.
Qed.

(* ------------------------------------------------------------------------- *)
(* explicit rounds                                                           *)
Local Open Scope Z_scope.

Definition cbs_of (extra : str) : list str := match extra with [] => [] | _ => [extra] end.

Lemma expected_outcome_ok : forall cb extra rs cs trail nests,
  extra = [] \/ cb = true ->
  expected_outcome cb extra rs cs trail nests =
  mkOut (Ok (Z.of_N (value rs) - 1, Z.of_N (value cs) - 1)) (cbs_of extra) trail nests.
Proof.
  intros cb extra rs cs trail nests [-> | ->]; [reflexivity|]. destruct extra; reflexivity.
Qed.

(* one round of the outer loop on a well-formed query answer *)
Lemma diff_loop_round : forall f cb w acc cbs rows extra csi rs cs pre trail,
  no_report extra -> is_csi csi -> digits rs = true -> digits cs = true ->
  no_eof pre -> chars_of pre = (extra ++ csi ++ rs ++ [59%N] ++ cs)%list ->
  (extra = [] \/ cb = true) ->
  let row := Z.of_N (value rs) - 1 in
  diff_loop (S f) cb w (pre ++ Rd (Char 82%N) :: trail) acc cbs rows =
  let (t', dy') := match last w with
                   | Some l => move_loops (top w) (row - l)
                   | None => (top w, 0)
                   end in
  match count_nests pre with
  | O => mkD (Ok (acc + dy')) (mkW t' (Some row) false false) trail
             (cbs ++ cbs_of extra) (rows ++ [row])
  | S _ => diff_loop f cb (mkW t' (Some row) false true) trail (acc + dy')
                     (cbs ++ cbs_of extra) (rows ++ [row])
  end.
Proof.
  intros f cb w acc cbs rows extra csi rs cs pre trail Hno Hcsi Hrs Hcs Hne E Hcb row.
  cbn [diff_loop]. unfold once.
  rewrite (get_cursor_position_parse cb extra csi rs cs pre trail Hno Hcsi Hrs Hcs Hne E).
  rewrite (expected_outcome_ok cb extra rs cs trail _ Hcb).
  cbn [o_res o_nests o_rest o_cb]. fold row.
  destruct (count_nests pre) as [|k]; cbn [top last in_diff another];
    (destruct (last w) as [l|]; [destruct (move_loops (top w) (row - l)) as [t' dy']|]);
    cbn; reflexivity.
Qed.

(* a call during which no nested call arrives: one query *)
Theorem diff_one_round : forall cb w extra csi rs cs pre trail,
  in_diff w = false ->
  no_report extra -> is_csi csi -> digits rs = true -> digits cs = true ->
  no_eof pre -> chars_of pre = (extra ++ csi ++ rs ++ [59%N] ++ cs)%list ->
  count_nests pre = 0%nat -> (extra = [] \/ cb = true) ->
  let row := Z.of_N (value rs) - 1 in
  get_cursor_vertical_diff cb w (pre ++ Rd (Char 82%N) :: trail) =
  let (t', dy') := match last w with
                   | Some l => move_loops (top w) (row - l)
                   | None => (top w, 0)
                   end in
  mkD (Ok dy') (mkW t' (Some row) false false) trail (cbs_of extra) [row].
Proof.
  intros cb w extra csi rs cs pre trail I Hno Hcsi Hrs Hcs Hne E Hn Hcb row.
  unfold get_cursor_vertical_diff. rewrite I.
  rewrite (diff_loop_round _ cb w 0 [] [] extra csi rs cs pre trail Hno Hcsi Hrs Hcs Hne E Hcb).
  fold row. rewrite Hn.
  destruct (match last w with Some l => move_loops (top w) (row - l) | None => (top w, 0) end) as [t' dy'].
  reflexivity.
Qed.

(* a second call without movement returns 0 and changes nothing *)
Theorem diff_no_movement : forall cb w extra csi rs cs pre trail,
  in_diff w = false -> another w = false ->
  no_report extra -> is_csi csi -> digits rs = true -> digits cs = true ->
  no_eof pre -> chars_of pre = (extra ++ csi ++ rs ++ [59%N] ++ cs)%list ->
  count_nests pre = 0%nat -> (extra = [] \/ cb = true) ->
  last w = Some (Z.of_N (value rs) - 1) ->
  get_cursor_vertical_diff cb w (pre ++ Rd (Char 82%N) :: trail) =
  mkD (Ok 0) w trail (cbs_of extra) [Z.of_N (value rs) - 1].
Proof.
  intros cb w extra csi rs cs pre trail I A Hno Hcsi Hrs Hcs Hne E Hn Hcb L.
  rewrite (diff_one_round cb w extra csi rs cs pre trail I Hno Hcsi Hrs Hcs Hne E Hn Hcb).
  cbv zeta. rewrite L, Z.sub_diag, move_loops_zero.
  destruct w as [t l i a]. cbn in *. subst. reflexivity.
Qed.

(* a nested call arrives during the first query: the outer loop asks again, and
   the total balances over both queries *)
Theorem diff_two_rounds : forall w extra1 csi1 rs1 cs1 pre1 extra2 csi2 rs2 cs2 pre2 trail,
  in_diff w = false ->
  no_report extra1 -> is_csi csi1 -> digits rs1 = true -> digits cs1 = true ->
  no_eof pre1 -> chars_of pre1 = (extra1 ++ csi1 ++ rs1 ++ [59%N] ++ cs1)%list ->
  no_report extra2 -> is_csi csi2 -> digits rs2 = true -> digits cs2 = true ->
  no_eof pre2 -> chars_of pre2 = (extra2 ++ csi2 ++ rs2 ++ [59%N] ++ cs2)%list ->
  (0 < count_nests pre1)%nat -> count_nests pre2 = 0%nat ->
  let row1 := Z.of_N (value rs1) - 1 in
  let row2 := Z.of_N (value rs2) - 1 in
  let r := get_cursor_vertical_diff true w
             (pre1 ++ Rd (Char 82%N) :: pre2 ++ Rd (Char 82%N) :: trail) in
  exists ret,
    d_ret r = Ok ret /\ d_rows r = [row1; row2] /\ d_rest r = trail /\
    d_cb r = (cbs_of extra1 ++ cbs_of extra2)%list /\
    last (d_w r) = Some row2 /\ in_diff (d_w r) = false /\ another (d_w r) = false /\
    (top (d_w r) - top w) + ret = row2 - ref_row w row1.
Proof.
  intros w extra1 csi1 rs1 cs1 pre1 extra2 csi2 rs2 cs2 pre2 trail I
         Hno1 Hcsi1 Hrs1 Hcs1 Hne1 E1 Hno2 Hcsi2 Hrs2 Hcs2 Hne2 E2 Hn1 Hn2 row1 row2 r.
  subst r. unfold get_cursor_vertical_diff. rewrite I.
  set (s2 := (pre2 ++ Rd (Char 82%N) :: trail)%list).
  assert (Hlen : exists f, length (pre1 ++ Rd (Char 82%N) :: s2) = S f).
  { unfold s2. rewrite !app_length. cbn [length]. rewrite !Nat.add_succ_r. eauto. }
  destruct Hlen as [f ->].
  rewrite (diff_loop_round _ true w 0 [] [] extra1 csi1 rs1 cs1 pre1 s2 Hno1 Hcsi1 Hrs1 Hcs1 Hne1 E1
                           (or_intror eq_refl)).
  fold row1.
  destruct (count_nests pre1) as [|k] eqn:Nk; [lia|].
  assert (R1 : exists t1 dy1, (match last w with
                               | Some l => move_loops (top w) (row1 - l)
                               | None => (top w, 0) end) = (t1, dy1) /\
                              (t1 - top w) + dy1 = row1 - ref_row w row1).
  { unfold ref_row. destruct (last w) as [l|].
    - destruct (move_loops (top w) (row1 - l)) as [t1 dy1] eqn:M. exists t1, dy1.
      split; [reflexivity|]. now apply move_loops_conserve.
    - exists (top w), 0. split; [reflexivity|lia]. }
  destruct R1 as [t1 [dy1 [M1 C1]]]. rewrite M1. unfold s2.
  rewrite (diff_loop_round _ true _ _ _ _ extra2 csi2 rs2 cs2 pre2 trail Hno2 Hcsi2 Hrs2 Hcs2 Hne2 E2
                           (or_intror eq_refl)).
  fold row2. rewrite Hn2. cbn [last top].
  destruct (move_loops t1 (row2 - row1)) as [t2 dy2] eqn:M2.
  pose proof (move_loops_conserve _ _ _ _ M2) as C2.
  cbn. exists (0 + dy1 + dy2). repeat split; lia.
Qed.
