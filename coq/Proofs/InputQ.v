(* Proofs for C08: invariants of the model of Input (Model/InputQ.v) over all
   histories, with the key decoder as a Section variable. *)
From Coq Require Import Lia ZifyBool ZifyNat ZifyN Permutation.
From Curtsies Require Import Model.Base Gen.Tables Model.InputQ Spec.QueueSpec.
Close Scope N_scope.
Local Open Scope Z_scope.

(* ---- small list facts ------------------------------------------------------ *)
Lemma pop_last_spec : forall {A} (l : list A),
  match pop_last l with
  | None => l = []
  | Some (x, r) => l = r ++ [x]
  end.
Proof.
  induction l as [|a l IH]; cbn; [reflexivity|].
  destruct (pop_last l) as [[y r']|]; subst; reflexivity.
Qed.

Lemma flat_map_snoc : forall {A B} (f : A -> list B) l x, flat_map f (l ++ [x]) = flat_map f l ++ f x.
Proof. intros. rewrite flat_map_app. cbn. now rewrite app_nil_r. Qed.

Lemma filter_ins_sched : forall w x l,
  filter (has_when w) (ins_sched x l) = filter (has_when w) (x :: l).
Proof.
  intros w x l. induction l as [|y r IH]; [reflexivity|].
  cbn [ins_sched]. destruct (fst x <=? fst y) eqn:E; [reflexivity|].
  cbn [filter] in *. rewrite IH. unfold has_when.
  destruct (fst y =? w) eqn:Ey; destruct (fst x =? w) eqn:Ex; try reflexivity. lia.
Qed.

(* the sort is stable: per `when`, the order of the events is untouched *)
Lemma filter_sort_sched : forall w l, filter (has_when w) (sort_sched l) = filter (has_when w) l.
Proof.
  intros w l. induction l as [|x r IH]; [reflexivity|].
  cbn [sort_sched fold_right]. fold (sort_sched r). rewrite filter_ins_sched. cbn [filter]. now rewrite IH.
Qed.

Lemma ins_sched_perm : forall x l, Permutation (ins_sched x l) (x :: l).
Proof.
  intros x l. induction l as [|y r IH]; [reflexivity|].
  cbn [ins_sched]. destruct (fst x <=? fst y); [reflexivity|].
  rewrite IH. apply perm_swap.
Qed.

Lemma sort_sched_perm : forall l, Permutation (sort_sched l) l.
Proof.
  induction l as [|x r IH]; [reflexivity|].
  cbn [sort_sched fold_right]. fold (sort_sched r). rewrite ins_sched_perm. now rewrite IH.
Qed.

(* head of the sorted list is a minimum *)
Definition head_min (l : list (Z * N)) : Prop :=
  match l with [] => True | p :: r => forall q, In q r -> fst p <= fst q end.

Inductive sorted_w : list (Z * N) -> Prop :=
| sw_nil : sorted_w []
| sw_cons : forall p r, (forall q, In q r -> fst p <= fst q) -> sorted_w r -> sorted_w (p :: r).

Lemma ins_sched_sorted : forall x l, sorted_w l -> sorted_w (ins_sched x l).
Proof.
  intros x l H. induction H as [|p r Hp Hr IH]; cbn [ins_sched].
  - constructor; [intros q []|constructor].
  - destruct (fst x <=? fst p) eqn:E.
    + constructor; [|now constructor].
      intros q [<-|Hq]; [lia|]. specialize (Hp q Hq). lia.
    + constructor; [|exact IH].
      intros q Hq. apply (Permutation_in _ (ins_sched_perm x r)) in Hq.
      destruct Hq as [<-|Hq]; [lia|auto].
Qed.

Lemma sort_sched_sorted : forall l, sorted_w (sort_sched l).
Proof.
  induction l as [|x r IH]; [constructor|].
  cbn [sort_sched fold_right]. fold (sort_sched r). now apply ins_sched_sorted.
Qed.

Lemma firstn_skipn_len : forall {A} (a b : list A), firstn (length (a ++ b) - length b) (a ++ b) = a /\
                                                  skipn (length (a ++ b) - length b) (a ++ b) = b.
Proof.
  intros. rewrite app_length. replace (length a + length b - length b)%nat with (length a + 0)%nat by lia.
  rewrite firstn_app_2, skipn_app. cbn. rewrite app_nil_r.
  replace (length a + 0 - length a)%nat with O by lia. rewrite skipn_all2 by lia. now cbn.
Qed.

Lemma perm_pop : forall {A} (a rest : list A) k g,
  Permutation (a ++ rest ++ [k]) g -> Permutation ((a ++ [k]) ++ rest) g.
Proof.
  intros A a rest k g H. rewrite <- H, <- app_assoc. apply Permutation_app_head, Permutation_app_comm.
Qed.

(* ---- the invariant ----------------------------------------------------------- *)
Definition inv_sig (s : st) (D : list outcome) : Prop :=
  Permutation (flat_map d_sig D ++ sigints s) (g_sig s).

Definition Inv (s : st) (D : list outcome) : Prop :=
  inv_bytes s D /\ inv_ev s D /\ inv_int s D /\ inv_sched s D /\ inv_sig s D.

(* the part of the state the invariant talks about *)
Definition view (s : st) :=
  (unproc s, qev s, qint s, qsched s, sigints s, kq s, (g_bytes s, g_ev s, g_int s, g_sched s, g_sig s)).

Lemma Inv_view : forall s s' D, view s = view s' -> Inv s D -> Inv s' D.
Proof.
  intros s s' D Hv. unfold view in Hv. injection Hv as H1 H2 H3 H4 H5 H6 H7 H8 H9 H10 H11.
  unfold Inv, inv_bytes, inv_ev, inv_int, inv_sched, inv_sig.
  now rewrite H1, H2, H3, H4, H5, H6, H7, H8, H9, H10, H11.
Qed.

Lemma Inv_init : forall n, Inv (init n) [].
Proof. intro n. unfold Inv, inv_bytes, inv_ev, inv_int, inv_sched, inv_sig. cbn. repeat split; auto. Qed.

Ltac inv_split H := destruct H as (Hb & He & Hi & Hs & Hg);
  unfold inv_bytes, inv_ev, inv_int, inv_sched, inv_sig in *.

Lemma apply_env_inv : forall e s D, Inv s D -> Inv (apply_env e s) D.
Proof.
  intros e s D H. inv_split H.
  destruct e; cbn; unfold Inv, inv_bytes, inv_ev, inv_int, inv_sched, inv_sig; cbn;
    repeat split; auto.
  - rewrite <- Hb. now rewrite !app_assoc.
  - rewrite <- Hb. unfold ins_before_last.
    replace (flat_map d_consumed D ++ unproc s ++ kq s)
      with ((flat_map d_consumed D ++ unproc s) ++ kq s) by now rewrite app_assoc.
    destruct (firstn_skipn_len (flat_map d_consumed D ++ unproc s) (kq s)) as [-> ->].
    now rewrite <- !app_assoc.
  - rewrite map_app, <- He. now rewrite app_assoc.
  - intro w1. rewrite !filter_app, <- Hs. now rewrite app_assoc.
  - rewrite map_app, <- Hi. now rewrite app_assoc.
  - rewrite map_app, <- Hi. now rewrite app_assoc.
  - rewrite app_assoc. now apply Permutation_app_tail.
Qed.

Lemma apply_envs_inv : forall es s D, Inv s D -> Inv (apply_envs es s) D.
Proof.
  induction es as [|e es IH]; intros s D H; [exact H|]. cbn. apply IH. now apply apply_env_inv.
Qed.

Lemma select_run_inv : forall sc rem tc s D s' sc' r,
  Inv s D -> select_run rem tc s sc = (s', sc', r) -> Inv s' D.
Proof.
  induction sc as [|e sc IH]; intros rem tc s D s' sc' r H E; cbn [select_run] in E.
  - destruct (first_ready s); [injection E as <- _ _; exact H|].
    destruct rem; injection E as <- _ _; [|exact H].
    eapply Inv_view; [|exact H]. reflexivity.
  - destruct (first_ready s); [injection E as <- _ _; exact H|].
    assert (Hgen : forall e', select_run rem tc (apply_env e' s) sc = (s', sc', r) -> Inv s' D).
    { intros e' E'. eapply IH; [|exact E']. now apply apply_env_inv. }
    destruct e; try (now apply (Hgen _ E)).
    + destruct rem as [r0|].
      * destruct (tc + r0 <=? now s + Z.max 0 d).
        -- injection E as <- _ _. eapply Inv_view; [|exact H]. reflexivity.
        -- eapply IH; [|exact E]. eapply Inv_view; [|exact H]. reflexivity.
      * eapply IH; [|exact E]. eapply Inv_view; [|exact H]. reflexivity.
    + (* Late *)
      destruct rem as [r0|].
      * injection E as <- _ _. eapply Inv_view; [|exact H]. reflexivity.
      * eapply IH; [|exact E]. exact H.
Qed.

Lemma wait_loop_inv : forall old fuel t0 tmo rem s sc D s' sc' w,
  Inv s D -> wait_loop old fuel t0 tmo rem s sc = (s', sc', w) ->
  match w with WEvent o => Inv s' (D ++ [o]) | _ => Inv s' D end.
Proof.
  induction fuel as [|fuel IH]; intros t0 tmo rem s sc D s' sc' w H E; cbn [wait_loop] in E.
  - injection E as <- _ <-. exact H.
  - destruct (select_run rem (now s) s sc) as [[s1 sc1] r] eqn:ES.
    pose proof (select_run_inv _ _ _ _ _ _ _ _ H ES) as H1.
    destruct r as [[[| |i]|]|].
    + injection E as <- _ <-. exact H1.
    + destruct (wake s1) as [|b w'] eqn:EW; [injection E as <- _ <-; exact H1|].
      assert (H2 : Inv (set_wake w' s1) D) by (eapply Inv_view; [|exact H1]; reflexivity).
      destruct (b =? sigint_no)%N.
      * pose proof (pop_last_spec (sigints (set_wake w' s1))) as HP.
        destruct (pop_last (sigints (set_wake w' s1))) as [[k rest]|].
        -- injection E as <- _ <-. inv_split H2. cbn in *.
           unfold Inv, inv_bytes, inv_ev, inv_int, inv_sched, inv_sig; cbn.
           rewrite !flat_map_snoc; cbn; rewrite ?app_nil_r. repeat split; auto.
           rewrite HP in Hg. now apply perm_pop.
        -- eapply IH; [|exact E]. exact H2.
      * eapply IH; [|exact E]. exact H2.
    + set (s2 := set_pipes (drain i (pipes s1)) s1) in *.
      assert (H2 : Inv s2 D) by (eapply Inv_view; [|exact H1]; reflexivity).
      destruct (qint s2) as [|e q'] eqn:EQ.
      * eapply IH; [|exact E]. exact H2.
      * injection E as <- _ <-. inv_split H2.
        unfold Inv, inv_bytes, inv_ev, inv_int, inv_sched, inv_sig; cbn.
        rewrite !flat_map_snoc; cbn; rewrite ?app_nil_r. repeat split; auto.
        rewrite EQ in Hi. rewrite <- app_assoc. exact Hi.
    + injection E as <- _ <-. exact H1.
    + injection E as <- _ <-. exact H1.
Qed.

(* ---- the clock ------------------------------------------------------------------ *)
Lemma apply_env_clock : forall e s, now s <= now (apply_env e s).
Proof. intros e s. destruct e; cbn; lia. Qed.

Lemma select_run_clock : forall sc rem tc s s' sc' r,
  select_run rem tc s sc = (s', sc', r) ->
  now s <= now s' /\ (r = Some None -> exists r0, rem = Some r0 /\ tc + r0 <= now s').
Proof.
  induction sc as [|e sc IH]; intros rem tc s s' sc' r E; cbn [select_run] in E.
  - destruct (first_ready s); [injection E as <- _ <-; split; [lia|discriminate]|].
    destruct rem as [r0|]; injection E as <- _ <-; cbn; split; try lia; try discriminate.
    intros _. exists r0. split; [reflexivity|lia].
  - destruct (first_ready s); [injection E as <- _ <-; split; [lia|discriminate]|].
    assert (Hgen : forall e', select_run rem tc (apply_env e' s) sc = (s', sc', r) ->
              now s <= now s' /\ (r = Some None -> exists r0, rem = Some r0 /\ tc + r0 <= now s')).
    { intros e' E'. apply IH in E'. pose proof (apply_env_clock e' s). split; [lia|tauto]. }
    destruct e; try (now apply (Hgen _ E)).
    + destruct rem as [r0|].
      * destruct (tc + r0 <=? now s + Z.max 0 d) eqn:EC.
        -- injection E as <- _ <-. cbn. split; [lia|]. intros _. exists r0. split; [reflexivity|lia].
        -- apply IH in E. cbn in E. split; [lia|tauto].
      * apply IH in E. cbn in E. split; [lia|tauto].
    + (* Late: late is never early *)
      destruct rem as [r0|].
      * injection E as <- _ <-. cbn. split; [lia|]. intros _. exists r0. split; [reflexivity|lia].
      * now apply IH in E.
Qed.

Lemma select_run_ready : forall sc rem tc s s' sc' f,
  select_run rem tc s sc = (s', sc', Some (Some f)) -> first_ready s' = Some f.
Proof.
  induction sc as [|e sc IH]; intros rem tc s s' sc' f E; cbn [select_run] in E.
  - destruct (first_ready s) eqn:EF; [injection E as <- _ <-; exact EF|].
    destruct rem; discriminate.
  - destruct (first_ready s) eqn:EF; [injection E as <- _ <-; exact EF|].
    destruct e; try (now apply IH in E).
    + destruct rem as [r0|]; [destruct (tc + r0 <=? now s + Z.max 0 d); [discriminate|]|]; now apply IH in E.
    + destruct rem as [r0|]; [discriminate|now apply IH in E].
Qed.

(* what the wait can return as an event *)
Lemma wait_loop_event : forall old fuel t0 tmo rem s sc s' sc' o,
  wait_loop old fuel t0 tmo rem s sc = (s', sc', WEvent o) ->
  (exists k, o = OSigint k) \/ (exists e, o = OEvent SrcInt e).
Proof.
  induction fuel as [|fuel IH]; intros t0 tmo rem s sc s' sc' o E; cbn [wait_loop] in E; [discriminate|].
  destruct (select_run rem (now s) s sc) as [[s1 sc1] r].
  destruct r as [[[| |i]|]|]; try discriminate.
  - destruct (wake s1) as [|b w']; [discriminate|].
    destruct (b =? sigint_no)%N; [|now apply IH in E].
    destruct (pop_last (sigints (set_wake w' s1))) as [[k rest]|]; [|now apply IH in E].
    injection E as _ _ <-. left. now exists k.
  - destruct (qint (set_pipes (drain i (pipes s1)) s1)) as [|e q']; [now apply IH in E|].
    injection E as _ _ <-. right. now exists e.
Qed.

Lemma wait_loop_ready : forall old fuel t0 tmo rem s sc s' sc',
  wait_loop old fuel t0 tmo rem s sc = (s', sc', WReady true) -> kq s' <> [].
Proof.
  induction fuel as [|fuel IH]; intros t0 tmo rem s sc s' sc' E; cbn [wait_loop] in E; [discriminate|].
  destruct (select_run rem (now s) s sc) as [[s1 sc1] r] eqn:ES.
  destruct r as [[[| |i]|]|]; try discriminate.
  - injection E as <- _. apply select_run_ready in ES. unfold first_ready in ES.
    destruct (kq s1); [|discriminate]. destruct (wake s1); [|discriminate].
    exfalso. clear -ES. generalize dependent O. induction (pipes s1) as [|c r IH]; intros n ES; cbn in ES; [discriminate|].
    destruct (0 <? c)%N; [discriminate|]. now apply IH in ES.
  - destruct (wake s1) as [|b w']; [discriminate|].
    destruct (b =? sigint_no)%N; [|now apply IH in E].
    destruct (pop_last (sigints (set_wake w' s1))) as [[k rest]|]; [discriminate|now apply IH in E].
  - destruct (qint (set_pipes (drain i (pipes s1)) s1)) as [|e q']; [now apply IH in E|discriminate].
Qed.

(* With the recomputation as it is now (from the original timeout), the wait
   never reports a timeout before t0 + timeout, whatever wakes it up in between. *)
Lemma wait_loop_not_early : forall fuel t0 t r s sc s' sc',
  t0 + t <= now s + r ->
  wait_loop false fuel t0 (Some t) (Some r) s sc = (s', sc', WReady false) -> t0 + t <= now s'.
Proof.
  induction fuel as [|fuel IH]; intros t0 t r s sc s' sc' Hr E; cbn [wait_loop] in E; [discriminate|].
  destruct (select_run (Some r) (now s) s sc) as [[s1 sc1] res] eqn:ES.
  apply select_run_clock in ES. destruct ES as [Hmono Hto].
  destruct res as [[[| |i]|]|]; try discriminate.
  - destruct (wake s1) as [|b w']; [discriminate|].
    destruct (b =? sigint_no)%N.
    + destruct (pop_last (sigints (set_wake w' s1))) as [[k rest]|]; [discriminate|].
      eapply IH; [|exact E]. cbn. unfold recompute_oserror. lia.
    + eapply IH; [|exact E]. cbn. lia.
  - destruct (qint (set_pipes (drain i (pipes s1)) s1)) as [|e q']; [|discriminate].
    eapply IH; [|exact E]. cbn. unfold recompute_pipe. lia.
  - injection E as <- _. destruct (Hto eq_refl) as (r0 & Er & Hle). injection Er as <-. lia.
Qed.

Section Decoder.
Variable find_key : list N -> fk.

(* what C03 proves of the decoder: the bytes it pops are a prefix of the buffer *)
Definition fk_lossless : Prop := forall buf,
  match find_key buf with
  | FkNone => True
  | FkKey _ used rest => used ++ rest = buf
  | FkRaise _ used rest => used ++ rest = buf
  end.
(* it returns None only on an empty buffer, and a key pops at least one byte *)
Definition fk_progress : Prop := forall buf,
  match find_key buf with
  | FkNone => buf = []
  | FkKey _ used _ => used <> []
  | FkRaise _ _ _ => True
  end.

Hypothesis Hloss : fk_lossless.

Lemma nb_read_view : forall s,
  unproc (snd (nb_read s)) ++ kq (snd (nb_read s)) = unproc s ++ kq s.
Proof.
  intro s. cbn. rewrite <- app_assoc. now rewrite firstn_skipn.
Qed.

(* the paste loop: bytes already put into the paste event + buffers = stream *)
Lemma paste_loop_bytes : forall fuel acc s s' o,
  paste_loop find_key fuel acc s = (s', o) ->
  (o = OFuel \/
   d_consumed o ++ unproc s' ++ kq s' = concat (map snd (rev acc)) ++ unproc s ++ kq s) /\
  (qev s', qint s', qsched s', sigints s', (g_bytes s', g_ev s', g_int s', g_sched s', g_sig s'), now s')
  = (qev s, qint s, qsched s, sigints s, (g_bytes s, g_ev s, g_int s, g_sched s, g_sig s), now s) /\
  d_ev o = [] /\ d_int o = [] /\ d_sched o = [] /\ d_sig o = [].
Proof.
  induction fuel as [|fuel IH]; intros acc s s' o E; cbn [paste_loop] in E.
  - injection E as <- <-. repeat split; auto.
  - set (s1 := if len_lt (unproc s) max_keypress_size then snd (nb_read s) else s) in *.
    assert (H1 : unproc s1 ++ kq s1 = unproc s ++ kq s).
    { subst s1. destruct (len_lt (unproc s) max_keypress_size); [apply nb_read_view|reflexivity]. }
    assert (H2 : (qev s1, qint s1, qsched s1, sigints s1, (g_bytes s1, g_ev s1, g_int s1, g_sched s1, g_sig s1), now s1)
                 = (qev s, qint s, qsched s, sigints s, (g_bytes s, g_ev s, g_int s, g_sched s, g_sig s), now s)).
    { subst s1. destruct (len_lt (unproc s) max_keypress_size); reflexivity. }
    pose proof (Hloss (unproc s1)) as HL.
    destruct (find_key (unproc s1)) as [|k used rest|e used rest].
    + injection E as <- <-. repeat split; auto. right.
      unfold d_consumed; cbn. rewrite app_nil_r. now rewrite H1.
    + apply IH in E. destruct E as (Ea & Eb & Ec). cbn in Eb. rewrite Eb. repeat split; auto; try tauto.
      destruct Ea as [Ea|Ea]; [now left|right]. rewrite Ea. cbn.
      rewrite map_app, concat_app. cbn. rewrite app_nil_r, <- !app_assoc.
      f_equal. rewrite <- H1, <- HL. now rewrite <- app_assoc.
    + injection E as <- <-. cbn. repeat split; auto. right.
      unfold d_consumed; cbn. rewrite <- !app_assoc. f_equal. rewrite <- H1, <- HL. now rewrite <- app_assoc.
Qed.

Hypothesis Hprog : fk_progress.

(* the fuel given to the paste loop is never used up: every key pops a byte *)
Lemma paste_loop_fuel : forall fuel acc s,
  (length (unproc s) + length (kq s) < fuel)%nat -> snd (paste_loop find_key fuel acc s) <> OFuel.
Proof.
  induction fuel as [|fuel IH]; intros acc s Hlt; [lia|]. cbn [paste_loop].
  set (s1 := if len_lt (unproc s) max_keypress_size then snd (nb_read s) else s) in *.
  assert (H1 : unproc s1 ++ kq s1 = unproc s ++ kq s).
  { subst s1. destruct (len_lt (unproc s) max_keypress_size); [apply nb_read_view|reflexivity]. }
  apply (f_equal (@length N)) in H1. rewrite !app_length in H1.
  pose proof (Hloss (unproc s1)) as HL. pose proof (Hprog (unproc s1)) as HP.
  destruct (find_key (unproc s1)) as [|k used rest|e used rest]; cbn; try discriminate.
  apply IH. cbn. apply (f_equal (@length N)) in HL. rewrite app_length in HL.
  destruct used; [congruence|]. cbn in HL. lia.
Qed.

Lemma Inv_step_bytes : forall s D s' o,
  Inv s D ->
  d_consumed o ++ unproc s' ++ kq s' = unproc s ++ kq s ->
  (qev s', qint s', qsched s', sigints s', (g_bytes s', g_ev s', g_int s', g_sched s', g_sig s'))
  = (qev s, qint s, qsched s, sigints s, (g_bytes s, g_ev s, g_int s, g_sched s, g_sig s)) ->
  d_ev o = [] -> d_int o = [] -> d_sched o = [] -> d_sig o = [] ->
  Inv s' (D ++ [o]).
Proof.
  intros s D s' o H Hbytes Hrest E1 E2 E3 E4. inv_split H.
  injection Hrest as R1 R2 R3 R4 R5 R6 R7 R8 R9.
  unfold Inv, inv_bytes, inv_ev, inv_int, inv_sched, inv_sig.
  rewrite !flat_map_snoc, E1, E2, E3, E4, !app_nil_r, R1, R2, R3, R4, R5, R6, R7, R8, R9.
  repeat split; auto. rewrite <- Hb, <- app_assoc. now rewrite Hbytes.
Qed.

Lemma after_wait_inv : forall th whn ready s D s' o,
  Inv s D -> after_wait find_key th whn ready s = (s', o) -> Inv s' (D ++ [o]).
Proof.
  intros th whn ready s D s' o H E. unfold after_wait in E.
  assert (Hnone : forall s0, Inv s0 D -> Inv s0 (D ++ [ONone])).
  { intros s0 H0. eapply Inv_step_bytes; eauto. }
  assert (Hmain : (if negb ready then (s, ONone)
      else let '(n, s1) := nb_read s in
        if Nat.eqb n 0 then (s1, ONone)
        else if match th with Some t => t <? Z.of_nat n | None => false end
             then paste_loop find_key (S (length (unproc s1) + length (kq s1))) [] s1
             else match find_key (unproc s1) with
                  | FkKey k used rest => (set_unproc rest s1, OKey k used)
                  | FkNone => (s1, ORaise AssertionError [])
                  | FkRaise e used rest => (set_unproc rest s1, ORaise e used)
                  end) = (s', o) -> Inv s' (D ++ [o])).
  { clear E. intro E. destruct (negb ready); [injection E as <- <-; now apply Hnone|].
    destruct (nb_read s) as [n s1] eqn:ER.
    assert (Hs1 : s1 = snd (nb_read s)) by now rewrite ER.
    assert (HV : unproc s1 ++ kq s1 = unproc s ++ kq s) by (rewrite Hs1; apply nb_read_view).
    assert (HR : (qev s1, qint s1, qsched s1, sigints s1, (g_bytes s1, g_ev s1, g_int s1, g_sched s1, g_sig s1))
                 = (qev s, qint s, qsched s, sigints s, (g_bytes s, g_ev s, g_int s, g_sched s, g_sig s)))
      by (rewrite Hs1; reflexivity).
    assert (H1 : Inv s1 D).
    { inv_split H. injection HR as R1 R2 R3 R4 R5 R6 R7 R8 R9.
      unfold Inv, inv_bytes, inv_ev, inv_int, inv_sched, inv_sig.
      rewrite R1, R2, R3, R4, R5, R6, R7, R8, R9, HV. repeat split; auto. }
    destruct (Nat.eqb n 0); [injection E as <- <-; now apply Hnone|].
    destruct (match th with Some t => t <? Z.of_nat n | None => false end).
    - pose proof (paste_loop_fuel (S (length (unproc s1) + length (kq s1))) [] s1 ltac:(lia)) as HF.
      rewrite E in HF. cbn in HF.
      apply paste_loop_bytes in E. destruct E as ([Ea|Ea] & Eb & E1 & E2 & E3 & E4); [contradiction|].
      cbn in Ea. eapply Inv_step_bytes; eauto.
      injection Eb as R1 R2 R3 R4 R5 R6 R7 R8 R9 _. now rewrite R1, R2, R3, R4, R5, R6, R7, R8, R9.
    - pose proof (Hloss (unproc s1)) as HL.
      destruct (find_key (unproc s1)) as [|k used rest|e used rest]; injection E as <- <-.
      + eapply Inv_step_bytes; eauto.
      + eapply Inv_step_bytes; eauto. unfold d_consumed; cbn. rewrite app_nil_r, app_assoc, HL. reflexivity.
      + eapply Inv_step_bytes; eauto. unfold d_consumed; cbn. rewrite app_assoc, HL. reflexivity. }
  destruct (qsched s) as [|[w0 e0] q'] eqn:EQ; [now apply Hmain|].
  destruct whn as [w|].
  - destruct (w <? now s); [|now apply Hmain].
    injection E as <- <-. inv_split H.
    unfold Inv, inv_bytes, inv_ev, inv_int, inv_sched, inv_sig; cbn.
    rewrite !flat_map_snoc; cbn; rewrite ?app_nil_r. repeat split; auto.
    intro w1. rewrite <- Hs, EQ, filter_app. cbn [filter].
    destruct (has_when w1 (w0, e0)); cbn; now rewrite <- ?app_assoc.
  - injection E as <- <-. eapply Inv_step_bytes; eauto.
Qed.

Lemma send_inv : forall old th tmo s sc D s' sc' o,
  Inv s D -> send_gen find_key old th tmo s sc = (s', sc', o) -> Inv s' (D ++ [o]).
Proof.
  intros old th tmo s sc D s' sc' o H E. unfold send_gen in E.
  pose proof (pop_last_spec (sigints s)) as HP.
  destruct (pop_last (sigints s)) as [[k rest]|].
  { injection E as <- _ <-. inv_split H.
    unfold Inv, inv_bytes, inv_ev, inv_int, inv_sched, inv_sig; cbn.
    rewrite !flat_map_snoc; cbn; rewrite ?app_nil_r. repeat split; auto.
    rewrite HP in Hg. now apply perm_pop. }
  destruct (qev s) as [|e q'] eqn:EQ1.
  2:{ injection E as <- _ <-. inv_split H.
      unfold Inv, inv_bytes, inv_ev, inv_int, inv_sched, inv_sig; cbn.
      rewrite !flat_map_snoc; cbn; rewrite ?app_nil_r. repeat split; auto.
      rewrite <- He, EQ1. now rewrite <- app_assoc. }
  destruct (qint s) as [|e q'] eqn:EQ2.
  2:{ injection E as <- _ <-. inv_split H.
      unfold Inv, inv_bytes, inv_ev, inv_int, inv_sched, inv_sig; cbn.
      rewrite !flat_map_snoc; cbn; rewrite ?app_nil_r. repeat split; auto.
      rewrite <- Hi, EQ2. now rewrite <- app_assoc. }
  set (s0 := match qsched s with [] => s | _ => set_qsched (sort_sched (qsched s)) s end) in *.
  assert (H0 : Inv s0 D).
  { subst s0. destruct (qsched s) eqn:EQ3; [exact H|]. rewrite <- EQ3. inv_split H.
    unfold Inv, inv_bytes, inv_ev, inv_int, inv_sched, inv_sig; cbn -[sort_sched]. repeat split; auto.
    intro w. rewrite filter_sort_sched. apply Hs. }
  clearbody s0.
  destruct (qsched s0) as [|[w e] q'] eqn:EQ4.
  - pose proof (Hloss (unproc s0)) as HL.
    destruct (find_key (unproc s0)) as [|k used rest|e used rest].
    + destruct (wait_loop old (wait_fuel s0 sc) (now s0) tmo tmo s0 sc) as [[s1 sc1] w] eqn:EW.
      pose proof (wait_loop_inv _ _ _ _ _ _ _ _ _ _ _ H0 EW) as H1.
      destruct w as [o'|b| |].
      * injection E as <- _ <-. exact H1.
      * destruct (after_wait find_key th None b s1) as [s2 o2] eqn:EA. injection E as <- _ <-.
        apply after_wait_inv with (D := D) in EA; [exact EA|exact H1].
      * injection E as <- _ <-. eapply Inv_step_bytes; eauto.
      * injection E as <- _ <-. eapply Inv_step_bytes; eauto.
    + injection E as <- _ <-. eapply Inv_step_bytes; eauto.
      unfold d_consumed; cbn. rewrite app_nil_r, app_assoc, HL. reflexivity.
    + injection E as <- _ <-. eapply Inv_step_bytes; eauto.
      unfold d_consumed; cbn. rewrite app_assoc, HL. reflexivity.
  - destruct (w <? now s0).
    + injection E as <- _ <-. inv_split H0.
      unfold Inv, inv_bytes, inv_ev, inv_int, inv_sched, inv_sig; cbn.
      rewrite !flat_map_snoc; cbn; rewrite ?app_nil_r. repeat split; auto.
      intro w1. rewrite <- Hs, EQ4, filter_app. cbn [filter].
      destruct (has_when w1 (w, e)); cbn; now rewrite <- ?app_assoc.
    + pose proof (Hloss (unproc s0)) as HL.
      destruct (find_key (unproc s0)) as [|k used rest|e' used rest].
      * destruct (wait_loop _ _ _ _ _ _ _) as [[s1 sc1] w'] eqn:EW.
        pose proof (wait_loop_inv _ _ _ _ _ _ _ _ _ _ _ H0 EW) as H1.
        destruct w' as [o'|b| |].
        -- injection E as <- _ <-. exact H1.
        -- destruct (after_wait find_key th (Some w) b s1) as [s2 o2] eqn:EA. injection E as <- _ <-.
           apply after_wait_inv with (D := D) in EA; [exact EA|exact H1].
        -- injection E as <- _ <-. eapply Inv_step_bytes; eauto.
        -- injection E as <- _ <-. eapply Inv_step_bytes; eauto.
      * injection E as <- _ <-. eapply Inv_step_bytes; eauto.
        unfold d_consumed; cbn. rewrite app_nil_r, app_assoc, HL. reflexivity.
      * injection E as <- _ <-. eapply Inv_step_bytes; eauto.
        unfold d_consumed; cbn. rewrite app_assoc, HL. reflexivity.
Qed.


Lemma paste_loop_kind : forall fuel acc s,
  match snd (paste_loop find_key fuel acc s) with OPaste _ | ORaise _ _ | OFuel => True | _ => False end.
Proof.
  induction fuel as [|fuel IH]; intros acc s; cbn [paste_loop]; [exact I|].
  destruct (find_key _) as [|k used rest|e used rest]; [exact I|apply IH|exact I].
Qed.

(* "with nothing scheduled, None is returned no earlier than the timeout" *)
Theorem none_not_early : forall th t s sc s' sc',
  qsched s = [] -> 0 <= t ->
  send find_key th (Some t) s sc = (s', sc', ONone) -> now s + t <= now s'.
Proof.
  intros th t s sc s' sc' HQ Ht E. unfold send, send_gen in E.
  destruct (pop_last (sigints s)) as [[k rest]|]; [discriminate|].
  destruct (qev s); [|discriminate]. destruct (qint s); [|discriminate].
  rewrite HQ in E. rewrite HQ in E.
  destruct (find_key (unproc s)); try discriminate.
  destruct (wait_loop false (wait_fuel s sc) (now s) (Some t) (Some t) s sc) as [[s1 sc1] w] eqn:EW.
  destruct w as [o|b| |]; try discriminate.
  - injection E as _ _ ->. apply wait_loop_event in EW. destruct EW as [[k Ek]|[e Ee]]; discriminate.
  - destruct (after_wait find_key th None b s1) as [s2 o2] eqn:EA. injection E as <- _ ->.
    unfold after_wait in EA.
    destruct (qsched s1) as [|[w0 e0] q']; [|discriminate].
    destruct b; cbn [negb] in EA.
    + apply wait_loop_ready in EW. destruct (nb_read s1) as [n s1'] eqn:ER.
      assert (Hn : n <> O).
      { assert (Hn : n = fst (nb_read s1)) by now rewrite ER. rewrite Hn. cbn [nb_read fst].
        destruct (kq s1); [contradiction|]. unfold read_size_nat. cbn. discriminate. }
      destruct (Nat.eqb n 0) eqn:En; [apply Nat.eqb_eq in En; contradiction|].
      destruct (match th with Some t0 => t0 <? Z.of_nat n | None => false end).
      * pose proof (paste_loop_kind (S (length (unproc s1') + length (kq s1'))) [] s1') as HK.
        rewrite EA in HK. exact (False_ind _ HK).
      * destruct (find_key (unproc s1')); discriminate.
    + injection EA as <-. eapply wait_loop_not_early; [|exact EW]. lia.
Qed.

(* ---- the main invariant theorem: all histories --------------------------------- *)
Definition outcomes (tr : list (outcome * Z * Z)) : list outcome := map (fun e => fst (fst e)) tr.

Theorem run_inv : forall h th s D tr s',
  Inv s D -> run find_key th s h = (tr, s') -> Inv s' (D ++ outcomes tr).
Proof.
  induction h as [|it h IH]; intros th s D tr s' H E; cbn [run] in E.
  - injection E as <- <-. cbn. now rewrite app_nil_r.
  - destruct it as [e|t sc].
    + eapply IH; [|exact E]. now apply apply_env_inv.
    + destruct (send find_key th t s sc) as [[s1 lft] o] eqn:ES.
      apply send_inv with (D := D) in ES; [|exact H].
      assert (Hgo : (let '(tr0, s2) := run find_key th (apply_envs lft s1) h in ((o, now s, now s1) :: tr0, s2)) = (tr, s')
                    -> Inv s' (D ++ outcomes tr)).
      { intro E'. destruct (run find_key th (apply_envs lft s1) h) as [tr0 s2] eqn:ER. injection E' as <- <-.
        replace (D ++ outcomes ((o, now s, now s1) :: tr0)) with ((D ++ [o]) ++ outcomes tr0)
          by (cbn; now rewrite <- app_assoc).
        eapply IH; [|exact ER]. now apply apply_envs_inv. }
      destruct o; try (now apply Hgo).
      injection E as <- <-. exact ES.
Qed.

End Decoder.

(* ---- corollaries in the property's words ------------------------------------------ *)
Lemma flat_map_consumed_no_raise : forall D,
  no_raise D -> flat_map d_consumed D = flat_map d_bytes D.
Proof.
  induction D as [|o D IH]; intro H; [reflexivity|]. cbn. unfold d_consumed at 1.
  rewrite (H o (or_introl eq_refl)), app_nil_r, IH; [reflexivity|].
  intros o' Ho'. apply H. now right.
Qed.

(* events of ONE trigger come out in the order its callback was called: what was
   delivered is, trigger by trigger, a prefix of what was injected, and the rest
   is still queued *)
Lemma per_trigger_prefix : forall {K} (G : list (K * N)) (delivered pending : list N),
  delivered ++ pending = map snd G ->
  exists Gd Gp, G = Gd ++ Gp /\ map snd Gd = delivered /\ map snd Gp = pending /\
    forall (sel : K * N -> bool), filter sel G = filter sel Gd ++ filter sel Gp.
Proof.
  intros K G d p H. symmetry in H. apply map_eq_app in H. destruct H as (Gd & Gp & -> & <- & <-).
  exists Gd, Gp. repeat split. intro sel. apply filter_app.
Qed.

(* ---- a toy decoder: the hypotheses are satisfiable; witnesses ------------------------ *)
Definition toy_fk (buf : list N) : fk :=
  match buf with [] => FkNone | b :: r => FkKey [b] [b] r end.

Example decoder_hypotheses_nonvacuous : fk_lossless toy_fk /\ fk_progress toy_fk.
Proof. split; intros [|b r]; cbn; auto. discriminate. Qed.

Example run_inv_nonvacuous :
  outcomes (fst (run toy_fk (Some 1) (init 1)
    [Env (Arrive [97; 98; 99]%N); Env (Trigger 0 7); Env (Sched 5 8); Env (Sched 5 9); Env (Sigint 1);
     Req (Some 0) []; Req (Some 0) []; Req (Some 0) []; Env (Tick 6); Req (Some 0) []; Req (Some 0) [];
     Req None [TsTrigger 0 3]; Req (Some 2) []]))
  = [OSigint 1; OEvent SrcEv 7; OPaste [([97], [97]); ([98], [98]); ([99], [99])]%N; OSched 5 8; OSched 5 9;
     OEvent SrcInt 3; ONone].
Proof. vm_compute. reflexivity. Qed.

(* The recomputation of remaining_timeout BEFORE commit 4c90127 (old = true)
   returned None early: two threadsafe callbacks whose appends happened before
   two requests took the events, and whose os.write lands while a third request
   (timeout 10, called at clock 0, nothing scheduled) is blocked: the writes at
   clock 4 and 5 are stale wake-ups; the old formula leaves 0 + 6 - 5 = 1 and the
   request returns None at clock 6 < 0 + 10.  The code as it is now waits until 10. *)
Definition early_none_witness_state : st :=
  let s := apply_envs [TsAppend 0 1; TsAppend 1 2] (init 2) in
  let s := fst (fst (send toy_fk None (Some 0) s [])) in
  fst (fst (send toy_fk None (Some 0) s [])).
Definition early_none_witness_script : list estep := [Tick 4; TsWrite 0; Tick 1; TsWrite 1].

Example old_recompute_refuted :
  qsched early_none_witness_state = [] /\ now early_none_witness_state = 0 /\
  let '(s', _, o) := send_gen toy_fk true None (Some 10) early_none_witness_state early_none_witness_script in
  o = ONone /\ now s' = 6.
Proof. vm_compute. auto. Qed.

Example new_recompute_on_the_same_witness :
  let '(s', _, o) := send toy_fk None (Some 10) early_none_witness_state early_none_witness_script in
  o = ONone /\ now s' = 10.
Proof. vm_compute. auto. Qed.

(* ---- the statements exported to Props/C08.v ----------------------------------------- *)
Theorem exactly_once_all_histories :
  forall find_key, fk_lossless find_key -> fk_progress find_key ->
  forall (h : list item) (th : option Z) (ntrig : nat) tr s',
    run find_key th (init ntrig) h = (tr, s') ->
    let D := outcomes tr in
    (* bytes: consumed (delivered in a key / paste event, or popped by a raising decoder) ++ pending = stream *)
    flat_map d_consumed D ++ unproc s' ++ kq s' = g_bytes s' /\
    (* event_trigger events, threadsafe events: delivered ++ queued = injected, in call order *)
    flat_map d_ev D ++ qev s' = map snd (g_ev s') /\
    flat_map d_int D ++ qint s' = map snd (g_int s') /\
    (* scheduled events, per scheduled time: delivered ++ queued = injected, in call order *)
    (forall w, filter (has_when w) (flat_map d_sched D) ++ filter (has_when w) (qsched s')
               = filter (has_when w) (g_sched s')) /\
    (* SIGINTs: delivered + pending = handled (sigints.pop() takes the newest: no order claim) *)
    Permutation (flat_map d_sig D ++ sigints s') (g_sig s').
Proof.
  intros fk HL HP h th n tr s' E.
  pose proof (run_inv fk HL HP h th (init n) [] tr s' (Inv_init n) E) as H. exact H.
Qed.

Theorem bytes_exactly_once_in_order :
  forall find_key, fk_lossless find_key -> fk_progress find_key ->
  forall h th ntrig tr s',
    run find_key th (init ntrig) h = (tr, s') -> no_raise (outcomes tr) ->
    flat_map d_bytes (outcomes tr) ++ unproc s' ++ kq s' = g_bytes s'.
Proof.
  intros fk HL HP h th n tr s' E HN.
  destruct (exactly_once_all_histories fk HL HP h th n tr s' E) as [Hb _].
  now rewrite flat_map_consumed_no_raise in Hb.
Qed.

Theorem events_in_trigger_order :
  forall find_key, fk_lossless find_key -> fk_progress find_key ->
  forall h th ntrig tr s',
    run find_key th (init ntrig) h = (tr, s') ->
    (exists Gd Gp, g_ev s' = Gd ++ Gp /\ map snd Gd = flat_map d_ev (outcomes tr) /\ map snd Gp = qev s' /\
       forall i, filter (fun p => N.eqb (fst p) i) (g_ev s')
                 = filter (fun p => N.eqb (fst p) i) Gd ++ filter (fun p => N.eqb (fst p) i) Gp) /\
    (exists Gd Gp, g_int s' = Gd ++ Gp /\ map snd Gd = flat_map d_int (outcomes tr) /\ map snd Gp = qint s' /\
       forall i, filter (fun p => Nat.eqb (fst p) i) (g_int s')
                 = filter (fun p => Nat.eqb (fst p) i) Gd ++ filter (fun p => Nat.eqb (fst p) i) Gp).
Proof.
  intros fk HL HP h th n tr s' E.
  destruct (exactly_once_all_histories fk HL HP h th n tr s' E) as (_ & He & Hi & _).
  split.
  - destruct (per_trigger_prefix _ _ _ He) as (Gd & Gp & H1 & H2 & H3 & H4).
    exists Gd, Gp. repeat split; auto.
  - destruct (per_trigger_prefix _ _ _ Hi) as (Gd & Gp & H1 & H2 & H3 & H4).
    exists Gd, Gp. repeat split; auto.
Qed.

Theorem none_only_after_timeout :
  forall find_key th t s sc s' sc',
    qsched s = [] -> 0 <= t ->
    send find_key th (Some t) s sc = (s', sc', ONone) -> now s + t <= now s'.
Proof. exact none_not_early. Qed.

(* ========================================================================== *)
(* Further theorems over ALL states of the model (hence after all histories).   *)
(* ========================================================================== *)

(* ---- the scheduled events an environment step / a script adds ---------------- *)
Definition sched_of (e : estep) : list (Z * N) := match e with Sched w id => [(w, id)] | _ => [] end.
(* (w, id) is scheduled by a step of the script *)
Definition sched_in (sc : list estep) (q : Z * N) : Prop := In (Sched (fst q) (snd q)) sc.

Lemma apply_env_qsched : forall e s, qsched (apply_env e s) = qsched s ++ sched_of e.
Proof. intros e s. destruct e; cbn; now rewrite ?app_nil_r. Qed.

Lemma select_run_qsched : forall sc rem tc s s' sc' r,
  select_run rem tc s sc = (s', sc', r) ->
  exists extra, qsched s' = qsched s ++ extra /\ (forall q, In q extra -> sched_in sc q) /\
                (forall q, sched_in sc' q -> sched_in sc q).
Proof.
  induction sc as [|e sc IH]; intros rem tc s s' sc' r E; cbn [select_run] in E.
  - exists []. rewrite app_nil_r.
    destruct (first_ready s); [|destruct rem]; injection E as <- <- _; repeat split; auto; intros q [].
  - destruct (first_ready s).
    { injection E as <- <- _. exists []. rewrite app_nil_r. repeat split; auto. intros q []. }
    assert (Hgen : forall s0, qsched s0 = qsched s ++ sched_of e ->
              select_run rem tc s0 sc = (s', sc', r) ->
              exists extra, qsched s' = qsched s ++ extra /\ (forall q, In q extra -> sched_in (e :: sc) q) /\
                            (forall q, sched_in sc' q -> sched_in (e :: sc) q)).
    { intros s0 Hq E'. apply IH in E'. destruct E' as (extra & H1 & H2 & H3).
      exists (sched_of e ++ extra). rewrite H1, Hq, app_assoc. split; [reflexivity|]. split.
      - intros q Hin. apply in_app_or in Hin. destruct Hin as [Hin|Hin].
        + destruct e; cbn in Hin; try contradiction. destruct Hin as [<-|[]]. left. reflexivity.
        + right. now apply H2.
      - intros q Hin. right. now apply H3. }
    destruct e; try (now apply (Hgen _ (apply_env_qsched _ s) E)).
    + destruct rem as [r0|].
      * destruct (tc + r0 <=? now s + Z.max 0 d).
        -- injection E as <- <- _. exists []. cbn. rewrite app_nil_r. split; [reflexivity|]. split; [intros q []|].
           intros q [Hq|Hq]; [discriminate|right; exact Hq].
        -- apply (Hgen (set_now (now s + Z.max 0 d) s)); [cbn; now rewrite app_nil_r|exact E].
      * apply (Hgen (set_now (now s + Z.max 0 d) s)); [cbn; now rewrite app_nil_r|exact E].
    + (* Late *)
      destruct rem as [r0|].
      * injection E as <- <- _. exists []. cbn. rewrite app_nil_r. split; [reflexivity|]. split; [intros q []|].
        intros q Hq. right. exact Hq.
      * apply (Hgen s); [cbn; now rewrite app_nil_r|exact E].
Qed.

Lemma wait_loop_qsched : forall old fuel t0 tmo rem s sc s' sc' w,
  wait_loop old fuel t0 tmo rem s sc = (s', sc', w) ->
  exists extra, qsched s' = qsched s ++ extra /\ (forall q, In q extra -> sched_in sc q).
Proof.
  induction fuel as [|fuel IH]; intros t0 tmo rem s sc s' sc' w E; cbn [wait_loop] in E.
  - injection E as <- _ _. exists []. rewrite app_nil_r. split; [reflexivity|intros q []].
  - destruct (select_run rem (now s) s sc) as [[s1 sc1] r] eqn:ES.
    apply select_run_qsched in ES. destruct ES as (ex1 & H1 & H2 & H3).
    assert (Hdone : s' = s1 \/ (exists v, s' = set_sigints v (set_wake (tl (wake s1)) s1)) \/
                    (exists v i, s' = set_qint v (set_pipes (drain i (pipes s1)) s1)) ->
              exists extra, qsched s' = qsched s ++ extra /\ (forall q, In q extra -> sched_in sc q)).
    { intros [->|[[v ->]|[v [i ->]]]]; exists ex1; (split; [exact H1|exact H2]). }
    assert (Hrec : forall t0' tmo' rem' s2, qsched s2 = qsched s1 ->
              wait_loop old fuel t0' tmo' rem' s2 sc1 = (s', sc', w) ->
              exists extra, qsched s' = qsched s ++ extra /\ (forall q, In q extra -> sched_in sc q)).
    { intros t0' tmo' rem' s2 Hq E'. apply IH in E'. destruct E' as (ex2 & G1 & G2).
      exists (ex1 ++ ex2). rewrite G1, Hq, H1, app_assoc. split; [reflexivity|].
      intros q Hin. apply in_app_or in Hin. destruct Hin as [Hin|Hin]; [now apply H2|]. apply H3. now apply G2. }
    destruct r as [[[| |i]|]|].
    + injection E as <- _ _. apply Hdone. now left.
    + destruct (wake s1) as [|b w'] eqn:EW; [injection E as <- _ _; apply Hdone; now left|].
      destruct (b =? sigint_no)%N.
      * destruct (pop_last (sigints (set_wake w' s1))) as [[k rest]|].
        -- injection E as <- _ _. apply Hdone. right. left. exists rest. reflexivity.
        -- eapply Hrec; [|exact E]. reflexivity.
      * eapply Hrec; [|exact E]. reflexivity.
    + destruct (qint (set_pipes (drain i (pipes s1)) s1)) as [|e q'] eqn:EQ.
      * eapply Hrec; [|exact E]. reflexivity.
      * injection E as <- _ _. apply Hdone. right. right. exists q', i. reflexivity.
    + injection E as <- _ _. apply Hdone. now left.
    + injection E as <- _ _. apply Hdone. now left.
Qed.

(* a select that finds stdin readable returns at once: no step of the script is
   consumed, no clock time passes *)
Lemma wait_loop_stdin : forall old fuel t0 tmo rem s sc,
  kq s <> [] -> wait_loop old (S fuel) t0 tmo rem s sc = (s, sc, WReady true).
Proof.
  intros old fuel t0 tmo rem s sc Hk. cbn [wait_loop].
  assert (ES : select_run rem (now s) s sc = (s, sc, Some (Some FdStdin))).
  { assert (HF : first_ready s = Some FdStdin) by (unfold first_ready; destruct (kq s); [contradiction|reflexivity]).
    destruct sc; cbn [select_run]; now rewrite HF. }
  now rewrite ES.
Qed.

Lemma read_size_pos : (0 < read_size_nat)%nat.
Proof. unfold read_size_nat. assert (H : read_size <> 0%N) by (vm_compute; discriminate). lia. Qed.

Lemma max_keypress_pos : (0 < max_keypress_size)%nat.
Proof. vm_compute. lia. Qed.

Lemma len_lt_nil : forall {A} n, (0 < n)%nat -> @len_lt A [] n = true.
Proof. intros A [|n] H; [lia|reflexivity]. Qed.

Section Decoder2.
Variable find_key : list N -> fk.

(* ---- _send and the tail of after_wait, cut into named pieces ------------------ *)
Definition presort (s : st) : st :=
  match qsched s with [] => s | _ => set_qsched (sort_sched (qsched s)) s end.

Definition send_tail (old : bool) (th tuc whn : option Z) (s : st) (script : list estep)
  : st * list estep * outcome :=
  match find_key (unproc s) with
  | FkKey k used rest => (set_unproc rest s, script, OKey k used)
  | FkRaise e used rest => (set_unproc rest s, script, ORaise e used)
  | FkNone =>
      let '(s1, sc1, w) := wait_loop old (wait_fuel s script) (now s) tuc tuc s script in
      match w with
      | WEvent o => (s1, sc1, o)
      | WBlocked => (s1, sc1, OBlocked)
      | WFuel => (s1, sc1, OFuel)
      | WReady b => let '(s2, o) := after_wait find_key th whn b s1 in (s2, sc1, o)
      end
  end.

Definition tuc_of (timeout : option Z) (w nw : Z) : option Z :=
  Some (Z.min (Z.max 0 (w - nw)) (match timeout with Some t => t | None => sys_maxsize end)).

Lemma send_gen_eq : forall old th timeout s script,
  send_gen find_key old th timeout s script =
  match pop_last (sigints s) with
  | Some (k, rest) => (set_sigints rest s, script, OSigint k)
  | None =>
  match qev s with
  | e :: q' => (set_qev q' s, script, OEvent SrcEv e)
  | [] =>
  match qint s with
  | e :: q' => (set_qint q' s, script, OEvent SrcInt e)
  | [] =>
  match qsched (presort s) with
  | [] => send_tail old th timeout None (presort s) script
  | (w, e) :: q' =>
      if w <? now (presort s) then (set_qsched q' (presort s), script, OSched w e)
      else send_tail old th (tuc_of timeout w (now (presort s))) (Some w) (presort s) script
  end end end end.
Proof.
  intros old th timeout s script. unfold send_gen, send_tail, presort, tuc_of.
  destruct (pop_last (sigints s)) as [[k rest]|]; [reflexivity|].
  destruct (qev s); [|reflexivity]. destruct (qint s); [|reflexivity].
  cbv zeta.
  destruct (qsched (match qsched s with [] => s | _ :: _ => set_qsched (sort_sched (qsched s)) s end)) as [|[w e] q'];
    [reflexivity|].
  destruct (w <? _); reflexivity.
Qed.

Definition after_wait_main (th : option Z) (ready : bool) (s : st) : st * outcome :=
  if negb ready then (s, ONone)
  else
    let '(n, s1) := nb_read s in
    if Nat.eqb n 0 then (s1, ONone)
    else
      if match th with Some t => t <? Z.of_nat n | None => false end
      then paste_loop find_key (S (length (unproc s1) + length (kq s1))) [] s1
      else match find_key (unproc s1) with
           | FkKey k used rest => (set_unproc rest s1, OKey k used)
           | FkNone => (s1, ORaise AssertionError [])
           | FkRaise e used rest => (set_unproc rest s1, ORaise e used)
           end.

Lemma after_wait_eq : forall th whn ready s,
  after_wait find_key th whn ready s =
  match qsched s with
  | [] => after_wait_main th ready s
  | (w0, e0) :: q' =>
      match whn with
      | None => (s, ORaise OtherError [])
      | Some w => if w <? now s then (set_qsched q' s, OSched w0 e0) else after_wait_main th ready s
      end
  end.
Proof.
  intros th whn ready s. unfold after_wait, after_wait_main.
  destruct (qsched s) as [|[w0 e0] q']; [reflexivity|]. destruct whn as [w|]; [|reflexivity].
  destruct (w <? now s); reflexivity.
Qed.

Lemma presort_fields : forall s,
  (unproc (presort s), qev (presort s), qint (presort s), sigints (presort s), wake (presort s),
   pipes (presort s), kq (presort s), now (presort s))
  = (unproc s, qev s, qint s, sigints s, wake s, pipes s, kq s, now s) /\
  qsched (presort s) = sort_sched (qsched s).
Proof. intro s. unfold presort. destruct (qsched s) eqn:E; [rewrite E|]; split; reflexivity. Qed.

(* what the tail of after_wait can return: never an event *)
Lemma after_wait_main_kind : forall th ready s,
  match snd (after_wait_main th ready s) with
  | ONone | OPaste _ | OKey _ _ | ORaise _ _ | OFuel => True
  | _ => False
  end.
Proof.
  intros th ready s. unfold after_wait_main. destruct (negb ready); [exact I|].
  destruct (nb_read s) as [n s1]. destruct (Nat.eqb n 0); [exact I|].
  destruct (match th with Some t => t <? Z.of_nat n | None => false end).
  - pose proof (paste_loop_kind find_key (S (length (unproc s1) + length (kq s1))) [] s1) as HK.
    destruct (snd (paste_loop find_key _ [] s1)); auto.
  - destruct (find_key (unproc s1)); exact I.
Qed.

(* ---- (a) scheduled events: never before their time, earliest first ------------- *)
Lemma after_wait_sched : forall th whn ready s s' w id,
  after_wait find_key th whn ready s = (s', OSched w id) ->
  exists w1 q', whn = Some w1 /\ w1 < now s /\ qsched s = (w, id) :: q' /\ s' = set_qsched q' s.
Proof.
  intros th whn ready s s' w id E. rewrite after_wait_eq in E.
  pose proof (after_wait_main_kind th ready s) as HK.
  destruct (qsched s) as [|[w0 e0] q'].
  - rewrite E in HK. contradiction.
  - destruct whn as [w1|]; [|discriminate].
    destruct (w1 <? now s) eqn:EW.
    + injection E as <- <- <-. exists w1, q'. repeat split; auto. lia.
    + rewrite E in HK. contradiction.
Qed.

Lemma send_tail_sched : forall old th tuc whn s sc s' sc' w id,
  send_tail old th tuc whn s sc = (s', sc', OSched w id) ->
  exists w1 extra, whn = Some w1 /\ w1 < now s' /\ qsched s ++ extra = (w, id) :: qsched s' /\
                   (forall q, In q extra -> sched_in sc q).
Proof.
  intros old th tuc whn s sc s' sc' w id E. unfold send_tail in E.
  destruct (find_key (unproc s)); try discriminate.
  destruct (wait_loop old (wait_fuel s sc) (now s) tuc tuc s sc) as [[s1 sc1] wr] eqn:EW.
  destruct wr as [o|b| |]; try discriminate.
  - injection E as _ _ ->. apply wait_loop_event in EW. destruct EW as [[k Ek]|[e Ee]]; discriminate.
  - destruct (after_wait find_key th whn b s1) as [s2 o2] eqn:EA. injection E as <- _ ->.
    apply after_wait_sched in EA. destruct EA as (w1 & q' & -> & Hlt & Hq & ->).
    apply wait_loop_qsched in EW. destruct EW as (extra & H1 & H2).
    exists w1, extra. cbn. repeat split; auto. now rewrite <- H1.
Qed.

(* Whenever a request returns a scheduled event (w, id) -- from ANY state:
   - its time has passed: w < clock at the return;
   - every scheduled event still queued has a `when` >= w, except those that were
     scheduled by the request's own script, i.e. while this request was blocked
     ([extra]; empty when the script schedules nothing);
   - among the events with the same `when` it is the one scheduled first
     (per `when`, queue-before = (w, id) :: queue-after, in call order). *)
Theorem sched_delivery : forall old th tmo s sc s' sc' w id,
  send_gen find_key old th tmo s sc = (s', sc', OSched w id) ->
  w < now s' /\
  exists extra,
    (forall q, In q extra -> sched_in sc q) /\
    (forall q, In q (qsched s') -> w <= fst q \/ In q extra) /\
    (forall w', filter (has_when w') (qsched s ++ extra) = filter (has_when w') ((w, id) :: qsched s')).
Proof.
  intros old th tmo s sc s' sc' w id E. rewrite send_gen_eq in E.
  destruct (pop_last (sigints s)) as [[k rest]|]; [discriminate|].
  destruct (qev s); [|discriminate]. destruct (qint s); [|discriminate].
  destruct (presort_fields s) as [HF HQ]. injection HF as _ _ _ _ _ _ _ Hnow.
  pose proof (sort_sched_sorted (qsched s)) as HS. rewrite <- HQ in HS.
  assert (Hfil : forall w', filter (has_when w') (qsched s) = filter (has_when w') (qsched (presort s)))
    by (intro w'; now rewrite HQ, filter_sort_sched).
  destruct (qsched (presort s)) as [|[w1 e1] q'] eqn:EQ.
  - apply send_tail_sched in E. destruct E as (w1 & extra & Hw & _). discriminate.
  - inversion HS as [|p r Hmin Hr]; subst p r. cbn [fst] in Hmin.
    destruct (w1 <? now (presort s)) eqn:ED.
    + injection E as <- _ <- <-. split; [cbn; lia|]. exists []. split; [intros q []|]. split.
      * intros q Hq. left. now apply Hmin.
      * intro w'. rewrite app_nil_r. apply Hfil.
    + apply send_tail_sched in E. destruct E as (w2 & extra & Hw & Hlt & Happ & Hin).
      injection Hw as <-. rewrite EQ in Happ. cbn [app] in Happ. injection Happ as <- <- Hq'.
      split; [exact Hlt|]. exists extra. split; [exact Hin|]. split.
      * intros q Hq. rewrite <- Hq' in Hq. apply in_app_or in Hq. destruct Hq as [Hq|Hq]; [left; now apply Hmin|now right].
      * intro w'. rewrite filter_app, Hfil, <- Hq'. cbn [filter]. destruct (has_when w' (w1, e1)); cbn [app]; now rewrite filter_app.
Qed.

(* the same when the script schedules nothing: everything still queued is later or equal *)
Corollary sched_delivery_earliest : forall old th tmo s sc s' sc' w id,
  (forall w0 id0, ~ In (Sched w0 id0) sc) ->
  send_gen find_key old th tmo s sc = (s', sc', OSched w id) ->
  w < now s' /\ (forall q, In q (qsched s') -> w <= fst q) /\
  (forall w', filter (has_when w') (qsched s) = filter (has_when w') ((w, id) :: qsched s')).
Proof.
  intros old th tmo s sc s' sc' w id Hno E. apply sched_delivery in E.
  destruct E as (Hlt & extra & H1 & H2 & H3).
  assert (Hex : extra = []).
  { destruct extra as [|q r]; [reflexivity|]. exfalso. apply (Hno (fst q) (snd q)). apply H1. now left. }
  subst extra. split; [exact Hlt|]. split.
  - intros q Hq. destruct (H2 q Hq) as [H|[]]. exact H.
  - intro w'. specialize (H3 w'). now rewrite app_nil_r in H3.
Qed.

(* over ALL histories, from any state: in the trace, every scheduled event is
   returned by a request that returns strictly after the event's time *)
Theorem sched_never_early : forall h th s tr s',
  run find_key th s h = (tr, s') ->
  forall w id t0 t1, In (OSched w id, t0, t1) tr -> w < t1.
Proof.
  induction h as [|it h IH]; intros th s tr s' E w id t0 t1 Hin; cbn [run] in E.
  - injection E as <- _. contradiction.
  - destruct it as [e|t sc]; [eapply IH; eauto|].
    destruct (send find_key th t s sc) as [[s1 lft] o] eqn:ES.
    assert (Hhere : (o, now s, now s1) = (OSched w id, t0, t1) -> w < t1).
    { intro Heq. injection Heq as -> _ <-. unfold send in ES. now apply sched_delivery in ES. }
    assert (Hgo : (let '(tr0, s2) := run find_key th (apply_envs lft s1) h in ((o, now s, now s1) :: tr0, s2)) = (tr, s')
                  -> w < t1).
    { intro E'. destruct (run find_key th (apply_envs lft s1) h) as [tr0 s2] eqn:ER. injection E' as <- _.
      destruct Hin as [Hin|Hin]; [now apply Hhere|]. eapply IH; eauto. }
    destruct o; try (now apply Hgo).
    injection E as <- _. destruct Hin as [Hin|[]]. discriminate.
Qed.

Hypothesis Hloss : fk_lossless find_key.
Hypothesis Hprog : fk_progress find_key.

(* ---- (b) something deliverable at the call: returned at once --------------------- *)
Lemma nb_read_facts : forall s n s1, nb_read s = (n, s1) ->
  n = Nat.min read_size_nat (length (kq s)) /\ unproc s1 = unproc s ++ firstn read_size_nat (kq s) /\
  kq s1 = skipn read_size_nat (kq s) /\ now s1 = now s /\ qsched s1 = qsched s /\
  (kq s <> [] -> n <> O).
Proof.
  intros s n s1 E.
  assert (Hn : n = fst (nb_read s)) by now rewrite E.
  assert (Hs : s1 = snd (nb_read s)) by now rewrite E.
  clear E. subst n s1. unfold nb_read. cbn [fst snd]. rewrite firstn_length.
  repeat split; try reflexivity. intro Hk. pose proof read_size_pos. destruct (kq s); [contradiction|]. cbn [length]. lia.
Qed.

Lemma after_wait_main_ready : forall th s s' o,
  kq s <> [] -> after_wait_main th true s = (s', o) ->
  now s' = now s /\ o <> ONone /\ o <> OBlocked /\ o <> OFuel.
Proof.
  intros th s s' o Hk E. unfold after_wait_main in E. cbn [negb] in E.
  destruct (nb_read s) as [n s1] eqn:ER. apply nb_read_facts in ER.
  destruct ER as (_ & _ & _ & Hnow & _ & Hn). specialize (Hn Hk).
  destruct (Nat.eqb n 0) eqn:En; [apply Nat.eqb_eq in En; contradiction|].
  destruct (match th with Some t => t <? Z.of_nat n | None => false end).
  - pose proof (paste_loop_fuel find_key Hloss Hprog (S (length (unproc s1) + length (kq s1))) [] s1 ltac:(lia)) as HF.
    pose proof (paste_loop_kind find_key (S (length (unproc s1) + length (kq s1))) [] s1) as HK.
    rewrite E in HF, HK. cbn [snd] in HF, HK.
    apply (paste_loop_bytes find_key Hloss) in E. destruct E as (_ & Eb & _).
    injection Eb as _ _ _ _ _ _ _ _ _ Hn'. split; [lia|]. destruct o; try contradiction; repeat split; discriminate.
  - destruct (find_key (unproc s1)); injection E as <- <-; cbn; repeat split; auto; discriminate.
Qed.

Lemma send_tail_at_once : forall old th tuc whn s sc s' sc' o,
  unproc s <> [] \/ kq s <> [] ->
  send_tail old th tuc whn s sc = (s', sc', o) ->
  now s' = now s /\ sc' = sc /\ o <> ONone /\ o <> OBlocked /\ o <> OFuel.
Proof.
  intros old th tuc whn s sc s' sc' o Hd E. unfold send_tail in E.
  pose proof (Hprog (unproc s)) as HP.
  destruct (find_key (unproc s)) as [|k used rest|e used rest].
  - destruct Hd as [Hd|Hk]; [contradiction|].
    unfold wait_fuel in E. rewrite wait_loop_stdin in E by exact Hk.
    destruct (after_wait find_key th whn true s) as [s2 o2] eqn:EA. injection E as <- <- <-.
    rewrite after_wait_eq in EA.
    assert (Hm : after_wait_main th true s = (s2, o2) ->
                 now s2 = now s /\ sc = sc /\ o2 <> ONone /\ o2 <> OBlocked /\ o2 <> OFuel).
    { intro Em. apply after_wait_main_ready in Em; [|exact Hk]. tauto. }
    destruct (qsched s) as [|[w0 e0] q']; [now apply Hm|].
    destruct whn as [w|].
    + destruct (w <? now s); [|now apply Hm]. injection EA as <- <-. cbn. repeat split; discriminate.
    + injection EA as <- <-. repeat split; discriminate.
  - injection E as <- <- <-. cbn. repeat split; discriminate.
  - injection E as <- <- <-. cbn. repeat split; discriminate.
Qed.

(* something is deliverable at the call: a SIGINT, a queued event, a queued
   interrupting event, a scheduled event whose time has passed, buffered bytes
   (the decoder never answers None on a non-empty buffer), bytes waiting in the kernel *)
Definition deliverable_at_call (s : st) : Prop :=
  sigints s <> [] \/ qev s <> [] \/ qint s <> [] \/
  (exists q, In q (qsched s) /\ fst q < now s) \/ unproc s <> [] \/ kq s <> [].

(* ... then the request returns something (not None, not blocked), the clock has
   not moved, and not a single step of the environment script has been consumed *)
Theorem deliverable_at_once : forall old th tmo s sc s' sc' o,
  deliverable_at_call s -> send_gen find_key old th tmo s sc = (s', sc', o) ->
  now s' = now s /\ sc' = sc /\ o <> ONone /\ o <> OBlocked /\ o <> OFuel.
Proof.
  intros old th tmo s sc s' sc' o Hd E. rewrite send_gen_eq in E.
  pose proof (pop_last_spec (sigints s)) as HP.
  destruct (pop_last (sigints s)) as [[k rest]|].
  { injection E as <- <- <-. cbn. repeat split; discriminate. }
  destruct (qev s) as [|e q1] eqn:EQ1. 2:{ injection E as <- <- <-. cbn. repeat split; discriminate. }
  destruct (qint s) as [|e q1] eqn:EQ2. 2:{ injection E as <- <- <-. cbn. repeat split; discriminate. }
  destruct Hd as [Hd|[Hd|[Hd|Hd]]]; [contradiction|contradiction|contradiction|].
  destruct (presort_fields s) as [HF HQ]. injection HF as Hu _ _ _ _ _ Hk Hnow.
  pose proof (sort_sched_sorted (qsched s)) as HS. rewrite <- HQ in HS.
  pose proof (sort_sched_perm (qsched s)) as HPm. rewrite <- HQ in HPm.
  assert (Htail : forall tuc whn, unproc s <> [] \/ kq s <> [] ->
            send_tail old th tuc whn (presort s) sc = (s', sc', o) ->
            now s' = now s /\ sc' = sc /\ o <> ONone /\ o <> OBlocked /\ o <> OFuel).
  { intros tuc whn Hd' E'. rewrite <- Hnow. eapply send_tail_at_once; [|exact E']. now rewrite Hu, Hk. }
  destruct (qsched (presort s)) as [|[w1 e1] q'] eqn:EQ.
  - destruct Hd as [(q & Hin & _)|Hd]; [|now apply (Htail _ _ Hd E)].
    apply (Permutation_in _ (Permutation_sym HPm)) in Hin. contradiction.
  - destruct (w1 <? now (presort s)) eqn:ED.
    + injection E as <- <- <-. cbn. rewrite Hnow. repeat split; discriminate.
    + destruct Hd as [(q & Hin & Hlt)|Hd]; [|now apply (Htail _ _ Hd E)].
      exfalso. apply (Permutation_in _ (Permutation_sym HPm)) in Hin.
      inversion HS as [|p r Hmin Hr]; subst p r. cbn [fst] in Hmin.
      destruct Hin as [<-|Hin]; [cbn [fst] in Hlt; lia|]. specialize (Hmin q Hin). lia.
Qed.

(* ---- (c) the paste event ------------------------------------------------------------ *)
(* (k, used) is an answer of the decoder: on some buffer starting with [used]
   it popped exactly [used] and named it k *)
Definition decoded_key (ku : key * list N) : Prop :=
  exists buf rest, find_key buf = FkKey (fst ku) (snd ku) rest.
Definition decoder_raised (e : exn) : Prop :=
  exists buf used rest, find_key buf = FkRaise e used rest.

(* the paste loop stops only when both the buffer and the kernel queue are empty *)
Lemma paste_loop_all : forall fuel acc s s' ks,
  paste_loop find_key fuel acc s = (s', OPaste ks) ->
  unproc s' = [] /\ kq s' = [] /\ exists ks', ks = rev acc ++ ks' /\ Forall decoded_key ks'.
Proof.
  induction fuel as [|fuel IH]; intros acc s s' ks E; cbn [paste_loop] in E; [discriminate|].
  set (s1 := if len_lt (unproc s) max_keypress_size then snd (nb_read s) else s) in *.
  pose proof (Hprog (unproc s1)) as HP.
  destruct (find_key (unproc s1)) as [|k used rest|e used rest] eqn:EF; [| |discriminate].
  - injection E as <- <-.
    assert (H0 : unproc s1 = [] /\ kq s1 = []).
    { subst s1. destruct (len_lt (unproc s) max_keypress_size) eqn:EL.
      - destruct (nb_read s) as [n s2] eqn:ER. apply nb_read_facts in ER.
        destruct ER as (_ & Hu & Hk & _). cbn [snd] in *. rewrite Hu in HP.
        apply app_eq_nil in HP. destruct HP as [HP1 HP2].
        assert (Hkq : kq s = []).
        { pose proof read_size_pos. destruct (kq s); [reflexivity|].
          destruct read_size_nat; [lia|discriminate]. }
        rewrite Hu, Hk, HP1, Hkq. split; [reflexivity|]. now rewrite skipn_nil.
      - rewrite HP in EL. rewrite (len_lt_nil _ max_keypress_pos) in EL. discriminate. }
    destruct H0 as [H1 H2]. split; [exact H1|]. split; [exact H2|].
    exists []. rewrite app_nil_r. split; [reflexivity|constructor].
  - apply IH in E. destruct E as (U & K & ks' & -> & F). split; [exact U|]. split; [exact K|].
    exists ((k, used) :: ks'). cbn [rev]. rewrite <- app_assoc. split; [reflexivity|].
    constructor; [|exact F]. exists (unproc s1), rest. exact EF.
Qed.

Lemma paste_loop_raise : forall fuel acc s s' e d,
  paste_loop find_key fuel acc s = (s', ORaise e d) -> decoder_raised e.
Proof.
  induction fuel as [|fuel IH]; intros acc s s' e d E; cbn [paste_loop] in E; [discriminate|].
  set (s1 := if len_lt (unproc s) max_keypress_size then snd (nb_read s) else s) in *.
  destruct (find_key (unproc s1)) as [|k used rest|e' used rest] eqn:EF; [discriminate| |].
  - now apply IH in E.
  - injection E as _ <- _. exists (unproc s1), used, rest. exact EF.
Qed.

(* what a read does when nothing else is deliverable: [m] bytes are waiting in
   the kernel, the read takes n = min(READ_SIZE, m) of them *)
Lemma after_wait_main_read : forall th s s' o,
  unproc s = [] -> kq s <> [] -> after_wait_main th true s = (s', o) ->
  let n := Nat.min read_size_nat (length (kq s)) in
  now s' = now s /\
  ((exists e d, o = ORaise e d /\ decoder_raised e) \/
   if match th with Some t => t <? Z.of_nat n | None => false end
   then exists ks, o = OPaste ks /\ concat (map snd ks) = kq s /\ Forall decoded_key ks /\
                   unproc s' = [] /\ kq s' = []
   else exists k used, o = OKey k used /\ decoded_key (k, used) /\ used <> [] /\
                       used ++ unproc s' ++ kq s' = kq s).
Proof.
  intros th s s' o Hu Hk E n0. unfold after_wait_main in E. cbn [negb] in E.
  destruct (nb_read s) as [n s1] eqn:ER. apply nb_read_facts in ER.
  destruct ER as (Hn & Hu1 & Hk1 & Hnow & _ & Hn0). specialize (Hn0 Hk). rewrite Hu in Hu1. cbn [app] in Hu1.
  assert (HV : unproc s1 ++ kq s1 = kq s) by (rewrite Hu1, Hk1; apply firstn_skipn).
  destruct (Nat.eqb n 0) eqn:En; [apply Nat.eqb_eq in En; contradiction|].
  subst n0. rewrite <- Hn.
  destruct (match th with Some t => t <? Z.of_nat n | None => false end).
  - pose proof (paste_loop_fuel find_key Hloss Hprog (S (length (unproc s1) + length (kq s1))) [] s1 ltac:(lia)) as HF.
    pose proof (paste_loop_kind find_key (S (length (unproc s1) + length (kq s1))) [] s1) as HK.
    rewrite E in HF, HK. cbn [snd] in HF, HK.
    pose proof (paste_loop_bytes find_key Hloss _ _ _ _ _ E) as (Ea & Eb & _).
    injection Eb as _ _ _ _ _ _ _ _ _ Hn'. split; [lia|].
    destruct o as [| ks | | | | | e d | |]; try contradiction.
    + right. destruct Ea as [Ea|Ea]; [discriminate|].
      apply paste_loop_all in E. destruct E as (U & K & ks' & Eks & F). cbn [rev app] in Eks. subst ks'.
      exists ks. rewrite U, K in Ea. unfold d_consumed in Ea. cbn in Ea. rewrite !app_nil_r in Ea.
      repeat split; auto. now rewrite Ea, HV.
    + left. exists e, d. split; [reflexivity|]. eapply paste_loop_raise; exact E.
  - pose proof (Hloss (unproc s1)) as HL. pose proof (Hprog (unproc s1)) as HP.
    destruct (find_key (unproc s1)) as [|k used rest|e used rest] eqn:EF; injection E as <- <-; (split; [exact Hnow|]).
    + exfalso. rewrite HP in Hu1. symmetry in Hu1.
      pose proof read_size_pos. destruct (kq s); [contradiction|]. destruct read_size_nat; [lia|discriminate].
    + right. exists k, used. repeat split; auto.
      * exists (unproc s1), rest. exact EF.
      * cbn. now rewrite app_assoc, HL.
    + left. exists e, used. split; [reflexivity|]. exists (unproc s1), used, rest. exact EF.
Qed.

(* The paste clause, for a request made in ANY state in which nothing but a
   burst of bytes waiting in the kernel is deliverable: no SIGINT, no queued
   event, no scheduled event that is due, nothing buffered.  The request returns
   at once; unless the decoder raises (known findings), then
   - if the one read it makes is larger than paste_threshold: ONE paste event, whose
     keypresses are decoder answers (each the name of exactly its own bytes), whose
     bytes in order are ALL the bytes that were waiting (also those beyond
     READ_SIZE: the loop refills), and nothing is left in the buffers;
   - otherwise (or with paste_threshold None): ONE keypress, the rest stays queued. *)
Theorem read_burst : forall old th tmo s sc s' sc' o,
  sigints s = [] -> qev s = [] -> qint s = [] -> (forall q, In q (qsched s) -> now s <= fst q) ->
  unproc s = [] -> kq s <> [] ->
  send_gen find_key old th tmo s sc = (s', sc', o) ->
  let n := Nat.min read_size_nat (length (kq s)) in
  now s' = now s /\ sc' = sc /\
  ((exists e d, o = ORaise e d /\ decoder_raised e) \/
   if match th with Some t => t <? Z.of_nat n | None => false end
   then exists ks, o = OPaste ks /\ concat (map snd ks) = kq s /\ Forall decoded_key ks /\
                   unproc s' = [] /\ kq s' = []
   else exists k used, o = OKey k used /\ decoded_key (k, used) /\ used <> [] /\
                       used ++ unproc s' ++ kq s' = kq s).
Proof.
  intros old th tmo s sc s' sc' o Hsig Hev Hint Hnd Hu Hk E n. rewrite send_gen_eq in E.
  rewrite Hsig, Hev, Hint in E. cbn [pop_last] in E.
  destruct (presort_fields s) as [HF HQ]. injection HF as Hu0 _ _ _ _ _ Hk0 Hnow.
  pose proof (sort_sched_perm (qsched s)) as HPm. rewrite <- HQ in HPm.
  assert (Htail : forall tuc whn,
            match whn with None => qsched (presort s) = [] | Some w => now s <= w end ->
            send_tail old th tuc whn (presort s) sc = (s', sc', o) ->
            (after_wait_main th true (presort s) = (s', o) /\ sc' = sc) \/
            (now s' = now s /\ sc' = sc /\ exists e d, o = ORaise e d /\ decoder_raised e)).
  { intros tuc whn Hw E'. unfold send_tail in E'. rewrite Hu0, Hu in E'.
    pose proof (Hprog []) as HP. pose proof (Hloss []) as HL.
    destruct (find_key []) as [|k used rest|e used rest] eqn:EF.
    - unfold wait_fuel in E'. rewrite wait_loop_stdin in E' by (now rewrite Hk0).
      destruct (after_wait find_key th whn true (presort s)) as [s2 o2] eqn:EA. injection E' as <- <- <-.
      rewrite after_wait_eq in EA. left. split; [|reflexivity].
      destruct (qsched (presort s)) as [|[w0 e0] q']; [exact EA|].
      destruct whn as [w|]; [|discriminate]. rewrite Hnow in EA.
      destruct (w <? now s) eqn:EW; [lia|exact EA].
    - exfalso. apply app_eq_nil in HL. destruct HL as [-> _]. now apply HP.
    - (* a decoder that raises on the empty buffer *) 
      right. injection E' as <- <- <-. cbn. rewrite Hnow. repeat split.
      exists e, used. split; [reflexivity|]. exists [], used, rest. exact EF. }
  assert (Hfin : (after_wait_main th true (presort s) = (s', o) /\ sc' = sc) \/
            (now s' = now s /\ sc' = sc /\ exists e d, o = ORaise e d /\ decoder_raised e) ->
     now s' = now s /\ sc' = sc /\
     ((exists e d, o = ORaise e d /\ decoder_raised e) \/
      if match th with Some t => t <? Z.of_nat n | None => false end
      then exists ks, o = OPaste ks /\ concat (map snd ks) = kq s /\ Forall decoded_key ks /\
                      unproc s' = [] /\ kq s' = []
      else exists k used, o = OKey k used /\ decoded_key (k, used) /\ used <> [] /\
                          used ++ unproc s' ++ kq s' = kq s)).
  { intros [[Em ->]|(H1 & H2 & H3)]; [|auto]. apply after_wait_main_read in Em; [|now rewrite Hu0|now rewrite Hk0].
    rewrite Hk0, Hnow in Em. destruct Em as [Em1 Em2]. auto. }
  destruct (qsched (presort s)) as [|[w1 e1] q'] eqn:EQ.
  - apply Hfin. eapply Htail; [|exact E]. reflexivity.
  - assert (Hw1 : now s <= w1).
    { apply (Hnd (w1, e1)). apply (Permutation_in _ HPm). now left. }
    rewrite Hnow in E. destruct (w1 <? now s) eqn:ED; [lia|].
    apply Hfin. eapply Htail; [|exact E]. exact Hw1.
Qed.

(* ---- where an exception can come from --------------------------------------------- *)
Lemma after_wait_main_raise : forall th ready s s' e d,
  after_wait_main th ready s = (s', ORaise e d) -> decoder_raised e.
Proof.
  intros th ready s s' e d E. unfold after_wait_main in E.
  destruct (negb ready); [discriminate|].
  destruct (nb_read s) as [n s1] eqn:ER. apply nb_read_facts in ER.
  destruct ER as (Hn & Hu1 & _).
  destruct (Nat.eqb n 0) eqn:En; [discriminate|]. apply Nat.eqb_neq in En.
  destruct (match th with Some t => t <? Z.of_nat n | None => false end).
  - eapply paste_loop_raise; exact E.
  - pose proof (Hprog (unproc s1)) as HP.
    destruct (find_key (unproc s1)) as [|k used rest|e' used rest] eqn:EF.
    + exfalso. rewrite Hu1 in HP. apply app_eq_nil in HP. destruct HP as [_ HP].
      destruct (kq s); [cbn in Hn; lia|]. pose proof read_size_pos. destruct read_size_nat; [lia|discriminate].
    + discriminate.
    + injection E as _ <- _. exists (unproc s1), used, rest. exact EF.
Qed.

(* A request raises only when the decoder raised on the buffer, or -- the
   UnboundLocalError of _send (`when` never assigned) -- when nothing was
   scheduled at the call and an event got scheduled by the script, i.e. from
   another thread while this request was blocked (DESIGN section 6: outside the
   property as read; the model shows it, the theorem pins it down). *)
Theorem raise_origin : forall old th tmo s sc s' sc' e d,
  send_gen find_key old th tmo s sc = (s', sc', ORaise e d) ->
  decoder_raised e \/
  (e = OtherError /\ d = [] /\ qsched s = [] /\ exists q, sched_in sc q).
Proof.
  intros old th tmo s sc s' sc' e d E. rewrite send_gen_eq in E.
  destruct (pop_last (sigints s)) as [[k rest]|]; [discriminate|].
  destruct (qev s); [|discriminate]. destruct (qint s); [|discriminate].
  destruct (presort_fields s) as [_ HQ].
  pose proof (sort_sched_perm (qsched s)) as HPm. rewrite <- HQ in HPm.
  assert (Htail : forall tuc whn, (whn = None -> qsched (presort s) = []) ->
            send_tail old th tuc whn (presort s) sc = (s', sc', ORaise e d) ->
            decoder_raised e \/ (e = OtherError /\ d = [] /\ qsched s = [] /\ exists q, sched_in sc q)).
  { intros tuc whn Hw E'. unfold send_tail in E'.
    destruct (find_key (unproc (presort s))) as [|k used rest|e' used rest] eqn:EF; [|discriminate|].
    - destruct (wait_loop old (wait_fuel (presort s) sc) (now (presort s)) tuc tuc (presort s) sc)
        as [[s1 sc1] wr] eqn:EW.
      destruct wr as [o|b| |]; try discriminate.
      + injection E' as _ _ ->. apply wait_loop_event in EW. destruct EW as [[k Ek]|[e0 Ee]]; discriminate.
      + destruct (after_wait find_key th whn b s1) as [s2 o2] eqn:EA. injection E' as <- _ ->.
        rewrite after_wait_eq in EA.
        apply wait_loop_qsched in EW. destruct EW as (extra & H1 & H2).
        destruct (qsched s1) as [|[w0 e0] q'] eqn:EQ1; [left; eapply after_wait_main_raise; exact EA|].
        destruct whn as [w|].
        * destruct (w <? now s1); [discriminate|]. left. eapply after_wait_main_raise; exact EA.
        * injection EA as _ <- <-. right. rewrite (Hw eq_refl) in H1, HPm. cbn [app] in H1.
          apply Permutation_nil in HPm. repeat split; auto.
          exists (w0, e0). apply H2. rewrite <- H1. now left.
    - injection E' as _ _ <- _. left. exists (unproc (presort s)), used, rest. exact EF. }
  destruct (qsched (presort s)) as [|[w1 e1] q'] eqn:EQ.
  - eapply Htail; [|exact E]. reflexivity.
  - destruct (w1 <? now (presort s)); [discriminate|]. eapply Htail; [|exact E]. discriminate.
Qed.
End Decoder2.

(* ---- non-vacuity of the theorems above (toy decoder) ------------------------------- *)
Example sched_delivery_nonvacuous :
  let s := apply_envs [Sched 5 8; Sched 3 9; Sched 3 10; Tick 6] (init 0) in
  let '(s', _, o) := send toy_fk None (Some 0) s [] in
  o = OSched 3 9 /\ qsched s' = [(3, 10%N); (5, 8%N)] /\ now s' = 6.
Proof. vm_compute. auto. Qed.

(* an event scheduled while the request is blocked (here: a stale signal
   re-arms the select, the clock passes the first event's time, then a byte
   arrives) may stay queued behind a later one: the [extra] of sched_delivery *)
Example sched_delivery_extra_witness :
  let s := apply_envs [Sched 10 1] (init 0) in
  let '(s', _, o) := send toy_fk None None s [Tick 9; Signal 1; Sched 5 2; Tick 6; Arrive [97%N]] in
  o = OSched 10 1 /\ qsched s' = [(5, 2%N)] /\ now s' = 15.
Proof. vm_compute. auto. Qed.

Example deliverable_at_once_nonvacuous :
  let s := apply_envs [Arrive [97%N]; Tick 2] (init 0) in
  deliverable_at_call s /\
  let '(s', sc', o) := send toy_fk None None s [Tick 5] in
  o = OKey [97%N] [97%N] /\ now s' = 2 /\ sc' = [Tick 5].
Proof. split; [right; right; right; right; right; discriminate|vm_compute; auto]. Qed.

Example read_burst_nonvacuous :
  let s := apply_envs [Arrive [97; 98; 99]%N] (init 0) in
  let '(s', _, o) := send toy_fk (Some 1) None s [] in
  o = OPaste [([97], [97]); ([98], [98]); ([99], [99])]%N /\ unproc s' = [] /\ kq s' = [].
Proof. vm_compute. auto. Qed.

(* the UnboundLocalError of raise_origin is real in the model: nothing scheduled at
   the call, an event scheduled while the request is blocked, then a wake-up *)
Example raise_origin_unbound_witness :
  let '(_, _, o) := send toy_fk None None (init 0) [Sched 5 1; Arrive [97%N]] in
  o = ORaise OtherError [].
Proof. vm_compute. auto. Qed.

(* A select that times out EXACTLY at its deadline never reaches the second pop
   site of _send (`when < time.time()` is false at now = when): the blocked
   request returns None and the event goes to the next request.  A LATE wake-up
   (the normal case in the real world; step [Late d]) delivers it through that
   site, with the other events left sorted behind it. *)
Example exact_wakeup_misses_second_pop_site :
  let s := apply_envs [Sched 6 1; Sched 2 2; Sched 4 3] (init 0) in
  let '(s', _, o) := send toy_fk None None s [] in
  o = ONone /\ now s' = 2.
Proof. vm_compute. auto. Qed.

Example late_wakeup_second_pop_site :
  let s := apply_envs [Sched 6 1; Sched 2 2; Sched 4 3] (init 0) in
  let '(s', sc', o) := send toy_fk None None s [Late 1; Tick 9] in
  o = OSched 2 2 /\ now s' = 3 /\ qsched s' = [(4, 3%N); (6, 1%N)] /\ sc' = [Tick 9].
Proof. vm_compute. auto. Qed.

(* late is never early: with nothing scheduled, None comes at deadline + d *)
Example late_none_witness :
  let '(s', _, o) := send toy_fk None (Some 5) (init 0) [Tick 1; Late 2] in
  o = ONone /\ now s' = 7.
Proof. vm_compute. auto. Qed.
