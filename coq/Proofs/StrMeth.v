(* C15: the natively implemented str methods of FmtStr (split, splitlines, ljust,
   rjust), shared_atts and the __getattr__ delegation wrapper, proved against the
   references of Spec/StrSpec.v on top of the slicing theorems of Proofs/Slice.v.
   All statements are for arbitrary FmtStrs (any number of runs, empty runs). *)
From Curtsies Require Import Model.Base Spec.ListOps Model.Slice Spec.StrSpec Model.StrMeth Proofs.Slice.
From Curtsies Require Model.Atts.
From Coq Require Import Lia ZifyBool ZifyNat ZifyN.
Local Close Scope N_scope.

(* ====================================================================== *)
(* 0. small list facts                                                       *)
Section ListFacts.
Context {A : Type}.

Lemma sub_as_pyslice (l : list A) (a b : Z) : (0 <= a)%Z -> (0 <= b)%Z ->
  pyslice l (Some a) (Some b) = sub l (Z.to_nat a) (Z.to_nat b).
Proof.
  intros Ha Hb. rewrite pyslice_between by assumption. unfold sub. f_equal. lia.
Qed.

Lemma sub_to_end (l : list A) (a : nat) : sub l a (length l) = skipn a l.
Proof. unfold sub. apply firstn_all2. rewrite skipn_length. lia. Qed.

Lemma sub_empty (l : list A) (a b : nat) : b <= a -> sub l a b = [].
Proof. intros H. unfold sub. now replace (b - a) with 0 by lia. Qed.

Lemma sub_length (l : list A) (a b : nat) : length (sub l a b) = Nat.min (b - a) (length l - a).
Proof. unfold sub. now rewrite firstn_length, skipn_length. Qed.

Lemma sub_map {B} (g : A -> B) (l : list A) a b : sub (map g l) a b = map g (sub l a b).
Proof. unfold sub. now rewrite skipn_map, firstn_map. Qed.

Lemma skipn_skipn (l : list A) m n : skipn m (skipn n l) = skipn (n + m) l.
Proof. apply skipn_add. Qed.

Lemma firstn_plus (m : list A) : forall x y, firstn x m ++ firstn y (skipn x m) = firstn (x + y) m.
Proof.
  induction m as [|h m IH]; intros x y.
  - now rewrite skipn_nil, !firstn_nil.
  - destruct x as [|x]; [reflexivity|]. cbn [firstn skipn Nat.add app]. now rewrite IH.
Qed.

(* l[a:b] ++ l[b:c] = l[a:c] *)
Lemma sub_app (l : list A) a b c : a <= b -> b <= c -> sub l a b ++ sub l b c = sub l a c.
Proof.
  intros H1 H2. unfold sub.
  replace (skipn b l) with (skipn (b - a) (skipn a l)) by (rewrite skipn_skipn; f_equal; lia).
  rewrite firstn_plus. f_equal. lia.
Qed.

Lemma sub_skipn (l : list A) a b : a <= b -> sub l a b ++ skipn b l = skipn a l.
Proof.
  intros H. unfold sub. rewrite <- (firstn_skipn (b - a) (skipn a l)) at 2.
  f_equal. rewrite skipn_skipn. f_equal. lia.
Qed.

(* one more item *)
Lemma sub_snoc (pre r : list A) (c : A) start : start <= length pre ->
  sub (pre ++ c :: r) start (S (length pre)) = sub (pre ++ c :: r) start (length pre) ++ [c].
Proof.
  intros H. rewrite <- (sub_app _ start (length pre) (S (length pre))) by lia. f_equal.
  unfold sub. rewrite skipn_app, skipn_all, Nat.sub_diag. cbn [app skipn].
  now replace (S (length pre) - length pre) with 1 by lia.
Qed.

Lemma map_removelast {B} (g : A -> B) (l : list A) : map g (removelast l) = removelast (map g l).
Proof.
  induction l as [|x l IH]; [reflexivity|]. destruct l as [|y l]; [reflexivity|].
  cbn [removelast map] in *. now rewrite IH.
Qed.

Lemma rev_cons_case (l : list A) : l = [] \/ exists init x, l = init ++ [x].
Proof.
  destruct (rev l) as [|x r] eqn:E.
  - left. apply (f_equal (@rev A)) in E. now rewrite rev_involutive in E.
  - right. exists (rev r), x. apply (f_equal (@rev A)) in E. now rewrite rev_involutive in E.
Qed.
End ListFacts.

Lemma map_res_ok {X Y} (g : X -> res Y) (h : X -> Y) (l : list X) :
  (forall x, In x l -> g x = Ok (h x)) -> map_res g l = Ok (map h l).
Proof.
  induction l as [|x l IH]; intros H; [reflexivity|].
  cbn [map_res map]. rewrite (H x) by now left. cbn [bind].
  rewrite IH by (intros y Hy; apply H; now right). reflexivity.
Qed.

(* ====================================================================== *)
(* 1. split, for an arbitrary list of match spans                            *)
Definition zslices {A} (l : list A) (pts : list (Z * Z)) : list (list A) :=
  map (fun p => pyslice l (Some (fst p)) (Some (snd p))) pts.

Lemma split_matches_ok f ms :
  split_matches f ms =
  Ok (map (fun p => slice_of f (Some (fst p)) (Some (snd p))) (cut_points ms (Z.of_nat (length (text f))))).
Proof.
  unfold split_matches. apply map_res_ok. intros [a b] _. cbn [fst snd]. apply getitem_slice_ok.
Qed.

(* the pieces are the Python slices of the cell list between the matches *)
Theorem split_matches_cells f ms :
  exists rs, split_matches f ms = Ok rs /\
             map cells rs = zslices (cells f) (cut_points ms (Z.of_nat (length (cells f)))).
Proof.
  eexists. split; [apply split_matches_ok|].
  rewrite map_map. unfold zslices. rewrite cells_length_text.
  apply map_ext. intros [a b]. apply slice_of_cells.
Qed.

Definition nat_spans (ms : list span) : list (nat * nat) :=
  map (fun m => (Z.to_nat (fst m), Z.to_nat (snd m))) ms.
Definition nonneg_spans (ms : list span) : Prop := Forall (fun m => (0 <= fst m)%Z /\ (0 <= snd m)%Z) ms.

Lemma zslices_cut_from {A} (l : list A) : forall ms start, (0 <= start)%Z -> nonneg_spans ms ->
  zslices l (combine (start :: map snd ms) (map fst ms ++ [Z.of_nat (length l)])) =
  cut_from l (Z.to_nat start) (nat_spans ms).
Proof.
  induction ms as [|[a b] ms IH]; intros start Hs Hn.
  - cbn. rewrite sub_as_pyslice by lia. rewrite Nat2Z.id. now rewrite sub_to_end.
  - inversion Hn as [|? ? [Ha Hb] Hn']; subst. cbn [fst snd] in *.
    cbn [map app combine zslices nat_spans cut_from fst snd].
    rewrite sub_as_pyslice by lia. f_equal.
    apply (IH b Hb Hn').
Qed.

(* ... i.e. the pieces of the cell list outside the spans *)
Theorem split_matches_cut f ms : nonneg_spans ms ->
  exists rs, split_matches f ms = Ok rs /\ map cells rs = cut_spans (cells f) (nat_spans ms).
Proof.
  intros Hn. destruct (split_matches_cells f ms) as [rs [H1 H2]]. exists rs. split; [exact H1|].
  rewrite H2. unfold cut_points, cut_spans. now rewrite zslices_cut_from.
Qed.

Lemma cut_from_map {A B} (g : A -> B) (l : list A) : forall spans start,
  cut_from (map g l) start spans = map (map g) (cut_from l start spans).
Proof.
  induction spans as [|[a b] r IH]; intros start; cbn [cut_from map].
  - now rewrite skipn_map.
  - now rewrite sub_map, IH.
Qed.

Corollary split_matches_text f ms : nonneg_spans ms ->
  exists rs, split_matches f ms = Ok rs /\ map text rs = cut_spans (text f) (nat_spans ms).
Proof.
  intros Hn. destruct (split_matches_cut f ms Hn) as [rs [H1 H2]]. exists rs. split; [exact H1|].
  transitivity (map (map fst) (map cells rs)).
  - rewrite map_map. apply map_ext. intros r. apply text_cells.
  - rewrite H2, (text_cells f). unfold cut_spans. symmetry. apply cut_from_map.
Qed.

(* putting the matched sub-lists back between the pieces gives the list back *)
Theorem interleave_cut {A} (l : list A) : forall spans start, spans_ok start (length l) spans ->
  interleave (cut_from l start spans) (map (fun s => sub l (fst s) (snd s)) spans) = skipn start l.
Proof.
  induction spans as [|[a b] r IH]; intros start H.
  - cbn. reflexivity.
  - cbn [spans_ok] in H. destruct H as (H1 & H2 & H3).
    cbn [cut_from map interleave fst snd].
    assert (E : cut_from l b r <> []) by (destruct r as [|[? ?] ?]; discriminate).
    destruct (cut_from l b r) as [|p ps] eqn:EC; [congruence|].
    rewrite <- EC, IH by exact H3.
    rewrite sub_skipn by exact H2. now rewrite sub_skipn.
Qed.

Lemma spans_okb_ok start n spans : spans_okb start n spans = true <-> spans_ok start n spans.
Proof.
  revert start. induction spans as [|[a b] r IH]; intros start; cbn [spans_okb spans_ok].
  - apply Nat.leb_le.
  - rewrite !andb_true_iff, !Nat.leb_le, IH. tauto.
Qed.

(* ====================================================================== *)
(* 2. an explicit separator: the literal scanner against str.split            *)
Lemma is_prefix_starts p s : is_prefix p s = starts p s.
Proof. revert s. induction p as [|x p IH]; intros [|y s]; cbn; try reflexivity. Qed.

Lemma starts_length p s : starts p s = true -> length p <= length s.
Proof.
  revert s. induction p as [|x p IH]; intros [|y s]; cbn; intros H; try lia; try discriminate.
  apply andb_true_iff in H as [_ H]. apply IH in H. lia.
Qed.

Lemma lit_scan_split (sep : str) : sep <> [] ->
  forall s pre skip start cur,
    let T := pre ++ s in
    let p := length pre in
    ((skip = 0 /\ start <= p /\ cur = rev (sub T start p)) \/ (0 < skip /\ start = p + skip /\ cur = [])) ->
    skip <= length s ->
    cut_from T start (nat_spans (lit_scan sep s (Z.of_nat p) skip)) = split_go sep s skip cur.
Proof.
  intros Hsep. induction s as [|c r IH]; intros pre skip start cur T p Hinv Hskip.
  - cbn [length] in Hskip. destruct Hinv as [(-> & Hst & ->)|(Hpos & _)]; [|lia].
    destruct sep as [|x sep']; [congruence|]. cbn [lit_scan nat_spans map cut_from split_go].
    rewrite rev_involutive. subst T p. rewrite app_nil_r. now rewrite sub_to_end.
  - assert (ET : T = (pre ++ [c]) ++ r) by (subst T; now rewrite <- app_assoc).
    assert (EP : length (pre ++ [c]) = S p) by (rewrite app_length; cbn; lia).
    assert (EZ : (Z.of_nat p + 1)%Z = Z.of_nat (length (pre ++ [c]))) by lia.
    cbn [lit_scan split_go]. destruct skip as [|k].
    + destruct Hinv as [(_ & Hst & Hcur)|(Hpos & _)]; [|lia].
      rewrite is_prefix_starts. destruct (starts sep (c :: r)) eqn:Epre.
      * (* a match starts here *)
        cbn [nat_spans map fst snd cut_from].
        replace (Z.to_nat (Z.of_nat p)) with p by lia.
        replace (Z.to_nat (Z.of_nat p + Z.of_nat (length sep))) with (p + length sep) by lia.
        rewrite Hcur, rev_involutive. f_equal.
        rewrite EZ. fold (nat_spans (lit_scan sep r (Z.of_nat (length (pre ++ [c]))) (length sep - 1))).
        rewrite ET. apply IH.
        -- rewrite EP. destruct sep as [|x sep']; [congruence|]. cbn [length].
           destruct sep' as [|y sep'']; cbn [length].
           ++ left. split; [lia|]. split; [lia|]. rewrite sub_empty by lia. reflexivity.
           ++ right. split; [lia|]. split; [lia|reflexivity].
        -- apply starts_length in Epre. cbn [length] in Epre. lia.
      * rewrite EZ, ET. apply IH; [|lia].
        left. split; [reflexivity|]. rewrite EP. split; [lia|].
        rewrite <- ET. subst T p. rewrite sub_snoc by exact Hst.
        rewrite rev_app_distr. cbn [rev app]. now rewrite Hcur.
    + destruct Hinv as [(Hz & _)|(_ & Hst & ->)]; [discriminate|].
      rewrite EZ, ET. apply IH; [|cbn [length] in Hskip; lia].
      rewrite EP. destruct k as [|k'].
      * left. split; [reflexivity|]. split; [lia|]. rewrite sub_empty by lia. reflexivity.
      * right. split; [lia|]. split; [lia|reflexivity].
Qed.

Lemma lit_spans_split sep s : sep <> [] ->
  cut_spans s (nat_spans (lit_spans sep s)) = str_split s sep.
Proof.
  intros H. unfold cut_spans, lit_spans, str_split.
  apply (lit_scan_split sep H s [] 0 0 []); [|lia].
  left. split; [reflexivity|]. split; [cbn; lia|]. cbn. reflexivity.
Qed.

(* the spans the scanner reports are non-negative, sorted, non-overlapping and inside the text *)
Lemma lit_scan_nonneg sep : forall s pos skip, (0 <= pos)%Z -> nonneg_spans (lit_scan sep s pos skip).
Proof.
  induction s as [|c r IH]; intros pos skip Hp; cbn [lit_scan].
  - destruct sep; repeat constructor; cbn; lia.
  - destruct skip as [|k]; [|apply IH; lia].
    destruct (is_prefix sep (c :: r)); [|apply IH; lia].
    constructor; [cbn; lia|]. apply IH. lia.
Qed.

Lemma spans_ok_weaken start start' n spans : start' <= start -> spans_ok start n spans -> spans_ok start' n spans.
Proof. destruct spans as [|[a b] r]; cbn [spans_ok]; intros; [lia|]. split; [lia|tauto]. Qed.

Lemma lit_scan_spans_ok sep : sep <> [] -> forall s p skip, skip <= length s ->
  spans_ok (p + skip) (p + length s) (nat_spans (lit_scan sep s (Z.of_nat p) skip)).
Proof.
  intros Hsep. induction s as [|c r IH]; intros p skip Hskip; cbn [lit_scan].
  - destruct sep; [congruence|]. cbn in *. lia.
  - cbn [length] in *. replace (Z.of_nat p + 1)%Z with (Z.of_nat (S p)) by lia.
    destruct skip as [|k].
    + rewrite is_prefix_starts. destruct (starts sep (c :: r)) eqn:E.
      * apply starts_length in E. cbn [length] in E.
        cbn [nat_spans map fst snd spans_ok]. fold (nat_spans (lit_scan sep r (Z.of_nat (S p)) (length sep - 1))).
        split; [lia|]. split; [lia|].
        replace (Z.to_nat (Z.of_nat p + Z.of_nat (length sep))) with (S p + (length sep - 1))
          by (destruct sep; [congruence|cbn [length]; lia]).
        replace (p + S (length r)) with (S p + length r) by lia. apply IH. lia.
      * replace (p + 0) with p by lia.
        specialize (IH (S p) 0 ltac:(lia)).
        replace (p + S (length r)) with (S p + length r) by lia.
        replace (S p + 0) with (S p) in IH by lia.
        apply (spans_ok_weaken (S p)); [lia | exact IH].
    + replace (p + S k) with (S p + k) by lia. replace (p + S (length r)) with (S p + length r) by lia.
      apply IH. lia.
Qed.

(* f.split(sep): same texts as str.split, each piece the sub-list of the cells *)
Theorem split_lit_text is_space f sep : sep <> [] ->
  exists rs, split is_space f (SepLit sep) None = Ok rs /\ map text rs = str_split (text f) sep.
Proof.
  intros H. cbn [split].
  destruct (split_matches_text f (lit_spans sep (text f))) as [rs [H1 H2]].
  - apply lit_scan_nonneg. lia.
  - exists rs. split; [exact H1|]. now rewrite H2, lit_spans_split.
Qed.

Theorem split_lit_cells is_space f sep : sep <> [] ->
  let spans := nat_spans (lit_spans sep (text f)) in
  exists rs, split is_space f (SepLit sep) None = Ok rs /\
    map cells rs = cut_spans (cells f) spans /\
    spans_ok 0 (length (cells f)) spans /\
    interleave (map cells rs) (map (fun s => sub (cells f) (fst s) (snd s)) spans) = cells f.
Proof.
  intros H spans. cbn [split].
  destruct (split_matches_cut f (lit_spans sep (text f))) as [rs [H1 H2]].
  - apply lit_scan_nonneg. lia.
  - exists rs. split; [exact H1|]. split; [exact H2|].
    assert (OK : spans_ok 0 (length (cells f)) spans).
    { subst spans. unfold lit_spans. rewrite cells_length_text.
      apply (lit_scan_spans_ok sep H (text f) 0 0). lia. }
    split; [exact OK|]. rewrite H2. unfold cut_spans. now rewrite interleave_cut.
Qed.

(* regex=True: any sorted list of non-overlapping spans inside the text *)
Theorem split_regex_cells is_space f ms :
  nonneg_spans ms -> spans_ok 0 (length (cells f)) (nat_spans ms) ->
  let spans := nat_spans ms in
  exists rs, split is_space f (SepRegex ms) None = Ok rs /\
    map cells rs = cut_spans (cells f) spans /\
    map text rs = cut_spans (text f) spans /\
    interleave (map cells rs) (map (fun s => sub (cells f) (fst s) (snd s)) spans) = cells f.
Proof.
  intros Hn OK spans. cbn [split].
  destruct (split_matches_cut f ms Hn) as [rs [H1 H2]].
  destruct (split_matches_text f ms Hn) as [rs' [H1' H2']].
  rewrite H1 in H1'. injection H1' as <-.
  exists rs. repeat split; try assumption.
  rewrite H2. unfold cut_spans. now rewrite interleave_cut.
Qed.

Theorem split_maxsplit is_space f sep k : split is_space f sep (Some k) = Raise NotImplementedError.
Proof. reflexivity. Qed.

(* ====================================================================== *)
(* 3. the reference str.split is a right inverse of join                     *)
Lemma join_lists_cons2 {A} (sep x y : list A) r :
  join_lists sep (x :: y :: r) = x ++ sep ++ join_lists sep (y :: r).
Proof. cbn [join_lists flat_map]. now rewrite <- app_assoc. Qed.

Lemma join_lists_cons_ne {A} (sep x : list A) rest : rest <> [] ->
  join_lists sep (x :: rest) = x ++ sep ++ join_lists sep rest.
Proof. destruct rest as [|y r]; [congruence|]. intros _. apply join_lists_cons2. Qed.

Lemma starts_split p s : starts p s = true -> s = p ++ skipn (length p) s.
Proof.
  revert s. induction p as [|x p IH]; intros [|y s]; cbn; intros H; try reflexivity; try discriminate.
  apply andb_true_iff in H as [E H]. apply N.eqb_eq in E. subst y. f_equal. now apply IH.
Qed.

Lemma split_go_nonempty sep s skip cur : split_go sep s skip cur <> [].
Proof.
  revert skip cur. induction s as [|c r IH]; intros skip cur; cbn [split_go]; [discriminate|].
  destruct skip; [|apply IH]. destruct (starts sep (c :: r)); [discriminate|apply IH].
Qed.

Lemma join_split_go sep : sep <> [] -> forall s skip cur, skip <= length s ->
  join_lists sep (split_go sep s skip cur) = rev cur ++ skipn skip s.
Proof.
  intros Hsep. induction s as [|c r IH]; intros skip cur Hskip.
  - cbn in *. now replace skip with 0 by lia.
  - cbn [split_go]. destruct skip as [|k].
    + destruct (starts sep (c :: r)) eqn:E.
      * rewrite join_lists_cons_ne by apply split_go_nonempty. rewrite IH.
        -- cbn [rev app skipn]. f_equal. rewrite (starts_split _ _ E) at 1.
           destruct sep as [|x sep']; [congruence|]. cbn [length skipn]. do 2 f_equal. lia.
        -- apply starts_length in E. cbn [length] in E. lia.
      * rewrite IH by lia. cbn [rev skipn]. now rewrite <- app_assoc.
    + cbn [length] in Hskip. rewrite IH by lia. reflexivity.
Qed.

(* sep.join(s.split(sep)) == s *)
Theorem join_str_split s sep : sep <> [] -> join_lists sep (str_split s sep) = s.
Proof. intros H. unfold str_split. rewrite join_split_go by (assumption || lia). reflexivity. Qed.

(* ====================================================================== *)
(* 4. splitlines                                                             *)
Definition is_nil {A} (l : list A) : bool := match l with [] => true | _ :: _ => false end.
(* drop a final empty piece *)
Definition fixlast (ps : list str) : list str := if is_nil (last ps [0%N]) then removelast ps else ps.
(* every piece but the last gets its newline back *)
Definition addnl (ps : list str) : list str := map (fun p => p ++ newline) (removelast ps) ++ [last ps []].

Lemma fixlast_cons x ps : ps <> [] -> fixlast (x :: ps) = x :: fixlast ps.
Proof.
  intros H. unfold fixlast. destruct ps as [|y ps]; [congruence|].
  change (last (x :: y :: ps) [0%N]) with (last (y :: ps) [0%N]).
  destruct (is_nil (last (y :: ps) [0%N])); reflexivity.
Qed.

Lemma addnl_cons x ps : ps <> [] -> addnl (x :: ps) = (x ++ newline) :: addnl ps.
Proof. intros H. unfold addnl. destruct ps as [|y ps]; [congruence|]. reflexivity. Qed.

Lemma addnl_nonempty ps : addnl ps <> [].
Proof. unfold addnl. destruct (map (fun p => p ++ newline) (removelast ps)); discriminate. Qed.

Lemma starts_newline c r : starts newline (c :: r) = N.eqb c 10.
Proof. unfold newline. cbn [starts]. rewrite andb_true_r. apply N.eqb_sym. Qed.

Lemma lines_go_false s : forall cur, lines_go false s cur = fixlast (split_go newline s 0 cur).
Proof.
  induction s as [|c r IH]; intros cur.
  - cbn. unfold fixlast. cbn. destruct cur as [|x cur]; [reflexivity|].
    destruct (rev (x :: cur)) eqn:E; [|reflexivity].
    apply (f_equal (@length _)) in E. rewrite rev_length in E. discriminate.
  - cbn [lines_go split_go]. rewrite starts_newline. destruct (N.eqb c 10).
    + rewrite app_nil_r, fixlast_cons by apply split_go_nonempty. f_equal. apply IH.
    + apply IH.
Qed.

Lemma lines_go_true s : forall cur, lines_go true s cur = fixlast (addnl (split_go newline s 0 cur)).
Proof.
  induction s as [|c r IH]; intros cur.
  - cbn. unfold fixlast. cbn. destruct cur as [|x cur]; [reflexivity|].
    destruct (rev (x :: cur)) eqn:E; [|reflexivity].
    apply (f_equal (@length _)) in E. rewrite rev_length in E. discriminate.
  - cbn [lines_go split_go]. rewrite starts_newline. destruct (N.eqb c 10).
    + rewrite addnl_cons by apply split_go_nonempty.
      rewrite fixlast_cons by apply addnl_nonempty. f_equal. apply IH.
    + apply IH.
Qed.

(* the running sums and the re-slicing of keepends=True *)
Lemma dec_last_snoc init z : dec_last (init ++ [z]) = Ok (init ++ [(z - 1)%Z]).
Proof. unfold dec_last. rewrite rev_app_distr. cbn [rev app]. now rewrite rev_involutive. Qed.

Lemma dec_last_cons x l : l <> [] ->
  dec_last (x :: l) = match dec_last l with Ok t => Ok (x :: t) | Raise e => Raise e end.
Proof.
  intros H. destruct (rev_cons_case l) as [->|(init & z & ->)]; [congruence|].
  change (x :: init ++ [z]) with ((x :: init) ++ [z]). now rewrite !dec_last_snoc.
Qed.

Lemma accumulate_cons a x l : accumulate a (x :: l) = (a + x)%Z :: accumulate (a + x)%Z l.
Proof. reflexivity. Qed.

Lemma pyslice_middle {A} (pre p post : list A) :
  pyslice (pre ++ p ++ post) (Some (Z.of_nat (length pre))) (Some (Z.of_nat (length pre) + Z.of_nat (length p))%Z) = p.
Proof.
  rewrite pyslice_between by lia.
  rewrite Nat2Z.id, skipn_app, skipn_all, Nat.sub_diag. cbn [app skipn].
  replace (Z.to_nat (Z.of_nat (length pre) + Z.of_nat (length p) - Z.of_nat (length pre))) with (length p) by lia.
  rewrite firstn_app, firstn_all, Nat.sub_diag. cbn [firstn]. apply app_nil_r.
Qed.

Lemma reslice_addnl : forall (ps : list str) (pre : str), ps <> [] ->
  exists ends,
    dec_last (accumulate (Z.of_nat (length pre)) (map (fun p => (Z.of_nat (length p) + 1)%Z) ps)) = Ok ends /\
    zslices (pre ++ join_lists newline ps) (combine (Z.of_nat (length pre) :: ends) ends) = addnl ps.
Proof.
  induction ps as [|p ps IH]; intros pre H; [congruence|].
  destruct ps as [|q r].
  - exists [(Z.of_nat (length pre) + Z.of_nat (length p))%Z]. split.
    + cbn [map accumulate]. change [?x] with ([] ++ [x]). rewrite dec_last_snoc. cbn [app]. f_equal. f_equal. lia.
    + cbn [combine zslices map fst snd join_lists flat_map]. rewrite app_nil_r.
      rewrite <- (app_nil_r (pre ++ p)), <- app_assoc. rewrite pyslice_middle. reflexivity.
  - destruct (IH (pre ++ p ++ newline) ltac:(discriminate)) as (ends & E1 & E2).
    set (e0 := (Z.of_nat (length pre) + (Z.of_nat (length p) + 1))%Z).
    assert (EL : Z.of_nat (length (pre ++ p ++ newline)) = e0).
    { rewrite !app_length. cbn [length newline]. lia. }
    exists (e0 :: ends). split.
    + rewrite map_cons, accumulate_cons. fold e0.
      rewrite dec_last_cons by (cbn [map accumulate]; discriminate).
      rewrite EL in E1.
      match goal with |- match ?d with _ => _ end = _ => replace d with (@Ok (list Z) ends) by (symmetry; exact E1) end.
      reflexivity.
    + rewrite addnl_cons by discriminate. cbn [combine zslices map fst snd].
      replace (join_lists newline (p :: q :: r)) with (p ++ newline ++ join_lists newline (q :: r))
        by (symmetry; apply join_lists_cons2).
      f_equal.
      * replace e0 with (Z.of_nat (length pre) + Z.of_nat (length (p ++ newline)))%Z
          by (rewrite app_length; cbn [length newline]; lia).
        rewrite (app_assoc p). apply pyslice_middle.
      * rewrite EL in E2. unfold zslices in E2. rewrite <- E2. f_equal.
        now rewrite <- !app_assoc.
Qed.

Lemma last_item_snoc {X} (init : list X) x : last_item (init ++ [x]) = Ok x.
Proof. unfold last_item. now rewrite rev_app_distr. Qed.

Lemma last_snoc {X} (init : list X) x d : last (init ++ [x]) d = x.
Proof. apply last_last. Qed.

Lemma removelast_snoc {X} (init : list X) x : removelast (init ++ [x]) = init.
Proof. apply removelast_last. Qed.

(* the final rule `lines if lines[-1] else lines[:-1]` at the level of texts *)
Lemma finish_lines (lines : list fmtstr) : lines <> [] ->
  exists rs, bind (last_item lines) (fun l => Ok (if (len l =? 0)%Z then removelast lines else lines)) = Ok rs /\
             map text rs = fixlast (map text lines) /\
             (forall r, In r rs -> In r lines).
Proof.
  intros H. destruct (rev_cons_case lines) as [->|(init & l & ->)]; [congruence|].
  rewrite last_item_snoc. cbn [bind]. eexists. split; [reflexivity|].
  unfold fixlast. rewrite map_app. cbn [map]. rewrite last_snoc.
  rewrite len_text. destruct (text l) as [|c t] eqn:E; cbn [length is_nil].
  - replace (Z.of_nat 0 =? 0)%Z with true by reflexivity.
    rewrite !removelast_snoc. split; [reflexivity|]. intros r Hr. apply in_or_app. now left.
  - replace (Z.of_nat (S (length t)) =? 0)%Z with false by lia.
    rewrite map_app. cbn [map]. rewrite E. split; [reflexivity|]. tauto.
Qed.

Lemma map_text_nonempty (rs : list fmtstr) ps : map text rs = ps -> ps <> [] -> rs <> [].
Proof. intros H N E. subst rs. cbn in H. congruence. Qed.

(* f.splitlines(keepends): the same texts as str.splitlines *)
Theorem splitlines_text f keep :
  exists rs, splitlines f keep = Ok rs /\ map text rs = str_splitlines keep (text f).
Proof.
  unfold splitlines.
  destruct (split_lit_text (fun _ => false) f newline ltac:(discriminate)) as (lines & HS & HT).
  rewrite HS. cbn [bind]. unfold str_splitlines.
  assert (NE : lines <> []).
  { apply (map_text_nonempty lines _ HT). apply split_go_nonempty. }
  destruct keep.
  - (* keepends = True *)
    assert (EL : map (fun line => (len line + 1)%Z) lines =
                 map (fun p => (Z.of_nat (length p) + 1)%Z) (map text lines)).
    { rewrite map_map. apply map_ext. intros r. now rewrite len_text. }
    destruct (reslice_addnl (map text lines) [] ltac:(rewrite HT; apply split_go_nonempty)) as (ends & E1 & E2).
    cbn [length app] in E1, E2. change (Z.of_nat 0) with 0%Z in E1, E2.
    rewrite EL, E1. cbn [bind].
    rewrite (map_res_ok _ (fun p => slice_of f (Some (fst p)) (Some (snd p))))
      by (intros [a b] _; apply getitem_slice_ok).
    cbn [bind].
    set (lines2 := map (fun p => slice_of f (Some (fst p)) (Some (snd p))) (combine (0%Z :: ends) ends)).
    assert (T2 : map text lines2 = addnl (map text lines)).
    { assert (J : join_lists newline (map text lines) = text f)
        by (rewrite HT; apply join_str_split; discriminate).
      rewrite J in E2. rewrite <- E2. subst lines2. rewrite map_map. unfold zslices.
      apply map_ext. intros [a b]. apply slice_of_text. }
    destruct (finish_lines lines2) as (rs & R1 & R2 & _).
    { apply (map_text_nonempty lines2 _ T2). apply addnl_nonempty. }
    exists rs. split; [exact R1|]. rewrite R2, T2, HT. symmetry. apply lines_go_true.
  - cbn [bind]. destruct (finish_lines lines NE) as (rs & R1 & R2 & _).
    exists rs. split; [exact R1|]. rewrite R2, HT. symmetry. apply lines_go_false.
Qed.

(* ====================================================================== *)
(* 5. fmtstr(text, **atts) and shared_atts                                   *)
Lemma att_extend_no_atts a : Atts.att_extend no_atts a = a.
Proof.
  destruct a as [f g b d i u l v]. unfold Atts.att_extend, Atts.later. cbn.
  f_equal; match goal with |- match ?x with _ => _ end = _ => destruct x; reflexivity end.
Qed.

Lemma fmtstr_with_eq s a : fmtstr_with s a = [mkChunk s a].
Proof. unfold fmtstr_with, Atts.copy_with_new_atts, fmtstr_plain, plain_chunk. cbn. now rewrite att_extend_no_atts. Qed.

Lemma fmtstr_with_cells s a : cells (fmtstr_with s a) = map (fun x => (x, eff a)) s.
Proof. rewrite fmtstr_with_eq. cbn. apply app_nil_r. Qed.

Lemma fmtstr_with_text s a : text (fmtstr_with s a) = s.
Proof. rewrite fmtstr_with_eq. cbn. apply app_nil_r. Qed.

Definition states (l : list cell) : list sgr := map snd l.

Lemma states_chunk c : states (chunk_cells c) = map (fun _ => eff (c_a c)) (c_s c).
Proof. unfold states, chunk_cells. rewrite map_map. reflexivity. Qed.

Lemma forallb_const_map {X} (P : sgr -> bool) (e : sgr) (r : list X) :
  forallb P (map (fun _ => e) r) = match r with [] => true | _ :: _ => P e end.
Proof.
  induction r as [|x r IH]; [reflexivity|]. cbn [map forallb]. rewrite IH.
  destruct r; [apply andb_true_r|apply andb_diag].
Qed.

Lemma runs_agree_states {X} (eqb : X -> X -> bool) (get : atts -> option X) (get' : sgr -> option X) :
  (forall a, get' (eff a) = get a) -> forall f v,
  runs_agree eqb get f v = forallb (fun st => opt_eqb eqb (get' st) (Some v)) (states (cells f)).
Proof.
  intros H f v. induction f as [|c f IH]; [reflexivity|].
  unfold runs_agree in *. cbn [forallb]. rewrite IH. rewrite cells_cons. unfold states at 2.
  rewrite map_app, forallb_app. f_equal.
  fold (states (chunk_cells c)). rewrite states_chunk, forallb_const_map. unfold nonempty_run.
  destruct (c_s c); [reflexivity|]. now rewrite H.
Qed.

Lemma runs_agree_flag (get : atts -> option bool) (flag : sgr -> bool) :
  (forall a, flag (eff a) = on (get a)) -> forall f,
  runs_agree Bool.eqb get f true = forallb flag (states (cells f)).
Proof.
  intros H f. induction f as [|c f IH]; [reflexivity|].
  unfold runs_agree in *. cbn [forallb]. rewrite IH. rewrite cells_cons. unfold states at 2.
  rewrite map_app, forallb_app. f_equal.
  fold (states (chunk_cells c)). rewrite states_chunk, forallb_const_map. unfold nonempty_run.
  destruct (c_s c); [reflexivity|]. rewrite H. destruct (get (c_a c)) as [[|]|]; reflexivity.
Qed.

(* the runs before the first non-empty one *)
Lemma first_nonempty f : cells f <> [] ->
  exists pre c t, f = pre ++ c :: t /\ cells pre = [] /\ filter nonempty_run pre = [] /\ nonempty_run c = true.
Proof.
  induction f as [|c f IH]; intros H; [now cbn in H|].
  destruct (nonempty_run c) eqn:E.
  - exists [], c, f. repeat split; assumption.
  - assert (EC : chunk_cells c = []).
    { unfold nonempty_run in E. unfold chunk_cells. destruct (c_s c); [reflexivity|discriminate]. }
    rewrite cells_cons, EC in H. cbn [app] in H.
    destruct (IH H) as (pre & c' & t & -> & P1 & P2 & P3).
    exists (c :: pre), c', t. repeat split; try assumption.
    + rewrite cells_cons, EC, P1. reflexivity.
    + cbn [filter]. now rewrite E.
Qed.

Lemma color_eqb_refl c : color_eqb c c = true.
Proof. destruct c; reflexivity. Qed.

Lemma shared_color (get : atts -> option color) (get' : sgr -> option color) c f r :
  (forall a, get' (eff a) = get a) ->
  states (cells f) = eff (c_a c) :: r ->
  shared_field color_eqb get c f = all_color get' (states (cells f)).
Proof.
  intros H E. unfold shared_field. rewrite E. cbn [all_color]. rewrite H.
  destruct (get (c_a c)) as [v|] eqn:G; [|reflexivity].
  rewrite (runs_agree_states color_eqb get get' H), E. cbn [forallb]. rewrite H, G.
  cbn [opt_eqb]. now rewrite color_eqb_refl.
Qed.

Lemma shared_flag (get : atts -> option bool) (flag : sgr -> bool) c f r :
  (forall a, flag (eff a) = on (get a)) ->
  states (cells f) = eff (c_a c) :: r ->
  on (shared_field Bool.eqb get c f) = forallb flag (states (cells f)).
Proof.
  intros H E. unfold shared_field.
  destruct (get (c_a c)) as [[|]|] eqn:G.
  - rewrite (runs_agree_flag get flag H). destruct (forallb flag (states (cells f))); reflexivity.
  - rewrite E. cbn [forallb]. rewrite H, G. cbn. destruct (runs_agree Bool.eqb get f false); reflexivity.
  - rewrite E. cbn [forallb]. rewrite H, G. reflexivity.
Qed.

(* shared_atts, seen on the cells: exactly what every character of f shows *)
Theorem shared_atts_meet f : cells f <> [] ->
  exists sh, shared_atts f = Ok sh /\ eff sh = meet_sgr (states (cells f)).
Proof.
  intros H. destruct (first_nonempty f H) as (pre & c & t & Ef & P1 & P2 & P3).
  assert (SF : shared_first f = Ok c).
  { unfold shared_first. rewrite Ef, filter_app, P2. cbn [app filter]. now rewrite P3. }
  assert (ES : exists r, states (cells f) = eff (c_a c) :: r).
  { rewrite Ef, cells_app, P1. cbn [app]. rewrite cells_cons. unfold states. rewrite map_app.
    fold (states (chunk_cells c)). rewrite states_chunk. unfold nonempty_run in P3.
    destruct (c_s c) as [|x xs]; [discriminate|]. cbn [map app]. eexists. reflexivity. }
  destruct ES as [r ES].
  unfold shared_atts. rewrite SF. cbn [bind]. eexists. split; [reflexivity|].
  unfold eff at 1, meet_sgr. cbn [a_fg a_bg a_bold a_dark a_italic a_underline a_blink a_invert].
  f_equal.
  - apply (shared_color a_fg s_fg c f r); [reflexivity|exact ES].
  - apply (shared_color a_bg s_bg c f r); [reflexivity|exact ES].
  - apply (shared_flag a_bold s_bold c f r); [reflexivity|exact ES].
  - apply (shared_flag a_dark s_dark c f r); [reflexivity|exact ES].
  - apply (shared_flag a_italic s_italic c f r); [reflexivity|exact ES].
  - apply (shared_flag a_underline s_underline c f r); [reflexivity|exact ES].
  - apply (shared_flag a_blink s_blink c f r); [reflexivity|exact ES].
  - apply (shared_flag a_invert s_invert c f r); [reflexivity|exact ES].
Qed.

(* shared_atts raises exactly when there is no run *)
Lemma shared_atts_ok f : f <> [] -> exists sh, shared_atts f = Ok sh.
Proof.
  intros H. unfold shared_atts, shared_first.
  destruct (filter nonempty_run f) as [|c t]; [|eexists; reflexivity].
  destruct f; [congruence|]. eexists. reflexivity.
Qed.
Lemma shared_atts_no_runs : shared_atts [] = Raise IndexError.
Proof. reflexivity. Qed.

(* ====================================================================== *)
(* 6. splitlines: the cells of the lines                                     *)
(* the sub-lists of [l] of the given lengths, the first at offset [off], consecutive
   ones [gap] items apart (reference: plain list function) *)
Fixpoint pieces_at {A} (l : list A) (off gap : nat) (lens : list nat) : list (list A) :=
  match lens with
  | [] => []
  | n :: r => sub l off (off + n) :: pieces_at l (off + n + gap) gap r
  end.

Lemma spans_ok_le start n spans : spans_ok start n spans -> start <= n.
Proof.
  revert start. induction spans as [|[a b] r IH]; intros start; cbn [spans_ok]; [lia|].
  intros (H1 & H2 & H3). apply IH in H3. lia.
Qed.

(* the pieces outside spans of one width are the pieces at offsets that width apart *)
Lemma cut_from_pieces_at {A B} (L : list A) (T : list B) (g : nat) : length L = length T ->
  forall spans start, spans_ok start (length T) spans ->
    Forall (fun s => snd s = fst s + g) spans ->
    cut_from L start spans = pieces_at L start g (map (@length B) (cut_from T start spans)).
Proof.
  intros EL. induction spans as [|[a b] r IH]; intros start OK W.
  - cbn [spans_ok] in OK. cbn [cut_from map pieces_at]. f_equal.
    rewrite skipn_length. replace (start + (length T - start)) with (length L) by lia.
    symmetry. apply sub_to_end.
  - cbn [spans_ok] in OK. destruct OK as (H1 & H2 & H3).
    inversion W as [|? ? Wa Wr]; subst. cbn [fst snd] in Wa.
    pose proof (spans_ok_le _ _ _ H3) as Hb.
    cbn [cut_from map pieces_at]. rewrite sub_length.
    replace (start + Nat.min (a - start) (length T - start)) with a by lia.
    f_equal. replace (a + g) with b by lia. apply IH; assumption.
Qed.

Lemma lit_scan_width sep : forall s pos skip,
  Forall (fun sp => snd sp = fst sp + length sep) (nat_spans (lit_scan sep s pos skip)) \/ (pos < 0)%Z.
Proof.
  induction s as [|c r IH]; intros pos skip; cbn [lit_scan].
  - destruct (Z_lt_dec pos 0) as [N|N]; [now right|left].
    destruct sep; repeat constructor. cbn. lia.
  - destruct (Z_lt_dec pos 0) as [N|N]; [now right|].
    destruct skip as [|k].
    + destruct (is_prefix sep (c :: r)).
      * destruct (IH (pos + 1)%Z (length sep - 1)) as [H|H]; [|lia]. left.
        cbn [nat_spans map fst snd]. constructor; [cbn [fst snd]; lia|exact H].
      * destruct (IH (pos + 1)%Z 0) as [H|H]; [now left|lia].
    + destruct (IH (pos + 1)%Z k) as [H|H]; [now left|lia].
Qed.

Lemma pieces_at_removelast {A} (l : list A) gap : forall lens off,
  pieces_at l off gap (removelast lens) = removelast (pieces_at l off gap lens).
Proof.
  induction lens as [|n r IH]; intros off; [reflexivity|].
  destruct r as [|m r']; [reflexivity|].
  change (removelast (n :: m :: r')) with (n :: removelast (m :: r')).
  cbn [pieces_at] in *. rewrite IH. reflexivity.
Qed.

Lemma pieces_at_concat {A} (l : list A) : forall lens off,
  concat (pieces_at l off 0 lens) = sub l off (off + fold_right Nat.add 0 lens).
Proof.
  induction lens as [|n r IH]; intros off; cbn [pieces_at concat fold_right].
  - rewrite sub_empty by lia. reflexivity.
  - rewrite IH. replace (off + n + 0) with (off + n) by lia.
    rewrite sub_app by lia. f_equal. lia.
Qed.

Lemma sub_all {A} (l : list A) : sub l 0 (length l) = l.
Proof. now rewrite sub_to_end. Qed.

(* the reference: the lines with their ends kept are the text cut up *)
Lemma concat_lines_go_true s : forall cur, concat (lines_go true s cur) = rev cur ++ s.
Proof.
  induction s as [|c r IH]; intros cur; cbn [lines_go].
  - destruct cur as [|x cur]; [reflexivity|]. cbn [concat]. now rewrite !app_nil_r.
  - destruct (N.eqb c 10) eqn:E.
    + apply N.eqb_eq in E. subst c. cbn [concat]. rewrite IH. cbn [rev app]. now rewrite <- app_assoc.
    + rewrite IH. cbn [rev]. now rewrite <- app_assoc.
Qed.

Theorem concat_str_splitlines_keepends s : concat (str_splitlines true s) = s.
Proof. unfold str_splitlines. now rewrite concat_lines_go_true. Qed.

Lemma length_concat {A} (ls : list (list A)) : length (concat ls) = fold_right Nat.add 0 (map (@length A) ls).
Proof. induction ls as [|x r IH]; [reflexivity|]. cbn [concat map fold_right]. now rewrite app_length, IH. Qed.

(* the running sums of keepends=True, explicitly *)
Lemma dec_last_accumulate : forall (ps : list str) (a : Z), ps <> [] ->
  dec_last (accumulate a (map (fun p => (Z.of_nat (length p) + 1)%Z) ps)) =
  Ok (accumulate a (map (fun p => Z.of_nat (length p)) (addnl ps))).
Proof.
  induction ps as [|p ps IH]; intros a H; [congruence|].
  destruct ps as [|q r].
  - cbn [map accumulate addnl removelast last app]. change [?x] with ([] ++ [x]) at 1.
    rewrite dec_last_snoc. cbn [app]. do 2 f_equal. lia.
  - rewrite addnl_cons by discriminate.
    rewrite (map_cons _ p (q :: r)), (map_cons _ (p ++ newline)), !accumulate_cons.
    rewrite dec_last_cons by (cbn [map accumulate]; discriminate).
    rewrite IH by discriminate.
    rewrite app_length. cbn [length newline].
    replace (Z.of_nat (length p + 1)) with (Z.of_nat (length p) + 1)%Z by lia. reflexivity.
Qed.

Lemma zslices_accumulate {A} (L : list A) : forall (lens : list nat) (a : Z), (0 <= a)%Z ->
  zslices L (combine (a :: accumulate a (map Z.of_nat lens)) (accumulate a (map Z.of_nat lens))) =
  pieces_at L (Z.to_nat a) 0 lens.
Proof.
  induction lens as [|n r IH]; intros a Ha; [reflexivity|].
  rewrite map_cons, accumulate_cons. cbn [combine zslices map fst snd pieces_at].
  rewrite sub_as_pyslice by lia. f_equal; [f_equal; lia|].
  replace (Z.to_nat a + n + 0) with (Z.to_nat (a + Z.of_nat n)) by lia.
  apply (IH (a + Z.of_nat n)%Z). lia.
Qed.

(* the final rule `lines if lines[-1] else lines[:-1]`, texts and cells *)
Lemma finish_lines_cells (lines : list fmtstr) : lines <> [] ->
  exists rs, bind (last_item lines) (fun l => Ok (if (len l =? 0)%Z then removelast lines else lines)) = Ok rs /\
             map text rs = fixlast (map text lines) /\
             ((rs = lines) \/ (rs = removelast lines)).
Proof.
  intros H. destruct (rev_cons_case lines) as [->|(init & l & ->)]; [congruence|].
  rewrite last_item_snoc. cbn [bind]. eexists. split; [reflexivity|].
  unfold fixlast. rewrite map_app. cbn [map]. rewrite last_snoc.
  rewrite len_text. destruct (text l) as [|c t] eqn:E; cbn [length is_nil].
  - replace (Z.of_nat 0 =? 0)%Z with true by reflexivity.
    rewrite !removelast_snoc. split; [reflexivity|]. now right.
  - replace (Z.of_nat (S (length t)) =? 0)%Z with false by lia.
    rewrite map_app. cbn [map]. rewrite E. split; [reflexivity|]. now left.
Qed.

Lemma finish_pieces (L : list cell) gap (lines rs : list fmtstr) :
  map cells lines = pieces_at L 0 gap (map (@length char) (map text lines)) ->
  rs = lines \/ rs = removelast lines ->
  map cells rs = pieces_at L 0 gap (map (@length char) (map text rs)).
Proof.
  intros H [->| ->]; [exact H|].
  now rewrite !map_removelast, pieces_at_removelast, <- H.
Qed.

(* f.splitlines(keepends): the texts are str.splitlines'; every line is the sub-list of
   the per-character cells of f at its offset (lines 1 apart - the newline - without
   keepends, adjacent with keepends); with keepends the lines, concatenated, are cells f *)
Theorem splitlines_cells f keep :
  exists rs, splitlines f keep = Ok rs /\
    map text rs = str_splitlines keep (text f) /\
    map cells rs = pieces_at (cells f) 0 (if keep then 0 else 1)
                             (map (@length char) (str_splitlines keep (text f))) /\
    (keep = true -> concat (map cells rs) = cells f).
Proof.
  unfold splitlines.
  destruct (split_lit_cells (fun _ => false) f newline ltac:(discriminate)) as (lines & HS & HC & OK & _).
  destruct (split_lit_text (fun _ => false) f newline ltac:(discriminate)) as (lines' & HS' & HT).
  rewrite HS in HS'. injection HS' as <-.
  rewrite HS. cbn [bind]. unfold str_splitlines.
  assert (NE : lines <> []).
  { apply (map_text_nonempty lines _ HT). apply split_go_nonempty. }
  destruct keep.
  - (* keepends = True *)
    assert (EL : map (fun line => (len line + 1)%Z) lines =
                 map (fun p => (Z.of_nat (length p) + 1)%Z) (map text lines)).
    { rewrite map_map. apply map_ext. intros r. now rewrite len_text. }
    destruct (reslice_addnl (map text lines) [] ltac:(rewrite HT; apply split_go_nonempty)) as (ends & E1 & E2).
    cbn [length app] in E1, E2. change (Z.of_nat 0) with 0%Z in E1, E2.
    assert (EE : ends = accumulate 0 (map Z.of_nat (map (@length char) (addnl (map text lines))))).
    { rewrite dec_last_accumulate in E1 by (rewrite HT; apply split_go_nonempty).
      injection E1 as <-. now rewrite map_map. }
    rewrite EL, E1. cbn [bind].
    rewrite (map_res_ok _ (fun p => slice_of f (Some (fst p)) (Some (snd p))))
      by (intros [a b] _; apply getitem_slice_ok).
    cbn [bind].
    set (lines2 := map (fun p => slice_of f (Some (fst p)) (Some (snd p))) (combine (0%Z :: ends) ends)).
    assert (T2 : map text lines2 = addnl (map text lines)).
    { assert (J : join_lists newline (map text lines) = text f)
        by (rewrite HT; apply join_str_split; discriminate).
      rewrite J in E2. rewrite <- E2. subst lines2. rewrite map_map. unfold zslices.
      apply map_ext. intros [a b]. apply slice_of_text. }
    assert (C2 : map cells lines2 = pieces_at (cells f) 0 0 (map (@length char) (map text lines2))).
    { rewrite T2. subst lines2. rewrite map_map.
      transitivity (zslices (cells f) (combine (0%Z :: ends) ends)).
      - unfold zslices. apply map_ext. intros [a b]. apply slice_of_cells.
      - rewrite EE. apply (zslices_accumulate (cells f) _ 0%Z). lia. }
    destruct (finish_lines_cells lines2) as (rs & R1 & R2 & R3).
    { apply (map_text_nonempty lines2 _ T2). apply addnl_nonempty. }
    assert (TX : map text rs = lines_go true (text f) []).
    { rewrite R2, T2, HT. symmetry. apply lines_go_true. }
    assert (CX : map cells rs = pieces_at (cells f) 0 0 (map (@length char) (lines_go true (text f) []))).
    { rewrite <- TX. apply (finish_pieces _ _ lines2); assumption. }
    exists rs. split; [exact R1|]. split; [exact TX|]. split; [exact CX|].
    intros _. rewrite CX, pieces_at_concat, <- length_concat.
    fold (str_splitlines true (text f)). rewrite concat_str_splitlines_keepends.
    rewrite <- cells_length_text. apply sub_all.
  - cbn [bind]. destruct (finish_lines_cells lines NE) as (rs & R1 & R2 & R3).
    assert (TX : map text rs = lines_go false (text f) []).
    { rewrite R2, HT. symmetry. apply lines_go_false. }
    assert (C1 : map cells lines = pieces_at (cells f) 0 1 (map (@length char) (map text lines))).
    { rewrite HC, HT. unfold cut_spans. rewrite <- lit_spans_split by discriminate. unfold cut_spans.
      apply cut_from_pieces_at.
      - apply cells_length_text.
      - rewrite <- cells_length_text. exact OK.
      - destruct (lit_scan_width newline (text f) 0%Z 0) as [W|W]; [exact W|lia]. }
    exists rs. split; [exact R1|]. split; [exact TX|]. split; [|discriminate].
    rewrite <- TX. apply (finish_pieces _ _ lines); assumption.
Qed.

Example splitlines_cells_nonvacuous :
  let f := [C [97; 10]%N (A 2 0 0 0 0 0 0 0); C [98; 10; 10; 99]%N (A 0 3 1 0 0 0 0 0)] in
  (exists rs, splitlines f true = Ok rs /\ length rs = 4 /\ concat (map cells rs) = cells f) /\
  (exists rs, splitlines f false = Ok rs /\
     map cells rs = [[(97, Sg 2 0 0 0 0 0 0 0)]; [(98, Sg 0 3 1 0 0 0 0 0)]; []; [(99, Sg 0 3 1 0 0 0 0 0)]]%N).
Proof. split; eexists; vm_compute; repeat split. Qed.

(* ====================================================================== *)
(* 7. what "shared" means on the cells: order facts about sgr_le / meet_sgr *)
Lemma color_le_refl a : color_le a a = true.
Proof. destruct a as [c|]; [apply color_eqb_refl|reflexivity]. Qed.

Lemma color_eqb_eq a b : color_eqb a b = true -> a = b.
Proof. destruct a, b; cbn; congruence. Qed.

Lemma color_le_trans a b c : color_le a b = true -> color_le b c = true -> color_le a c = true.
Proof.
  destruct a as [x|]; [|reflexivity]. destruct b as [y|]; [|discriminate]. cbn [color_le opt_eqb].
  intros H1 H2. apply color_eqb_eq in H1. subst y. exact H2.
Qed.

Lemma implb_trans a b c : implb a b = true -> implb b c = true -> implb a c = true.
Proof. destruct a, b, c; cbn; congruence. Qed.

Lemma sgr_le_parts a b : sgr_le a b = true <->
  (color_le (s_fg a) (s_fg b) = true /\ color_le (s_bg a) (s_bg b) = true /\
   implb (s_bold a) (s_bold b) = true /\ implb (s_dark a) (s_dark b) = true /\
   implb (s_italic a) (s_italic b) = true /\ implb (s_underline a) (s_underline b) = true /\
   implb (s_blink a) (s_blink b) = true /\ implb (s_invert a) (s_invert b) = true).
Proof. unfold sgr_le. rewrite !andb_true_iff. tauto. Qed.

Lemma sgr_le_refl a : sgr_le a a = true.
Proof. apply sgr_le_parts. rewrite !color_le_refl. repeat split; apply Bool.implb_same. Qed.

Lemma sgr_le_trans a b c : sgr_le a b = true -> sgr_le b c = true -> sgr_le a c = true.
Proof.
  rewrite !sgr_le_parts. intros (A1 & A2 & A3 & A4 & A5 & A6 & A7 & A8) (B1 & B2 & B3 & B4 & B5 & B6 & B7 & B8).
  repeat split; first [eapply color_le_trans; eassumption | eapply implb_trans; eassumption].
Qed.

Lemma all_color_below get l t : In t l -> color_le (all_color get l) (get t) = true.
Proof.
  destruct l as [|s r]; [intros []|]. cbn [all_color]. intros H.
  destruct (get s) as [c|] eqn:G; [|reflexivity].
  destruct (forallb (fun t0 => opt_eqb color_eqb (get t0) (Some c)) r) eqn:F; [|reflexivity].
  cbn [color_le]. destruct H as [<-|H].
  - rewrite G. apply color_eqb_refl.
  - rewrite forallb_forall in F. now apply F.
Qed.

Lemma all_flag_below (flag : sgr -> bool) l t : In t l -> implb (forallb flag l) (flag t) = true.
Proof.
  intros H. destruct (forallb flag l) eqn:F; [|reflexivity].
  rewrite forallb_forall in F. cbn. now apply F.
Qed.

(* the shared formatting is shown by every state *)
Lemma meet_sgr_below l t : In t l -> sgr_le (meet_sgr l) t = true.
Proof.
  intros H. apply sgr_le_parts. unfold meet_sgr.
  cbn [s_fg s_bg s_bold s_dark s_italic s_underline s_blink s_invert].
  repeat split; first [now apply all_color_below | now apply all_flag_below].
Qed.

(* the state with the background taken away; only a background *)
Definition drop_bg (st : sgr) : sgr :=
  mkSgr (s_fg st) None (s_bold st) (s_dark st) (s_italic st) (s_underline st) (s_blink st) (s_invert st).
Definition only_bg (bg : option color) : sgr := mkSgr None bg false false false false false false.

Lemma drop_bg_le st : sgr_le (drop_bg st) st = true.
Proof. apply sgr_le_parts. cbn. rewrite color_le_refl. repeat split; apply Bool.implb_same. Qed.

Lemma le_drop_bg m st : s_bg m = None -> sgr_le m st = true -> sgr_le m (drop_bg st) = true.
Proof. rewrite !sgr_le_parts. cbn. intros ->. tauto. Qed.

Lemma only_bg_le m : sgr_le (only_bg (s_bg m)) m = true.
Proof. apply sgr_le_parts. cbn. rewrite color_le_refl. repeat split. Qed.

(* ====================================================================== *)
(* 8. ljust / rjust                                                          *)
(* what the result of f.ljust / f.rjust is, on the per-character cells [l] of f and the
   state [m] = eff (shared_atts f) (for f with a character: what every character shows):
     fillchar given       every character AND the padding carry m only;
     no fillchar, m has a background
                          the characters are untouched, the padding is spaces that carry
                          that background and nothing else;
     no fillchar, no shared background
                          every character loses its background, the padding is spaces
                          that carry m *)
Definition just_cells (left : bool) (l : list cell) (m : sgr) (width : Z) (fill : option char) : list cell :=
  let n := Z.to_nat (width - Z.of_nat (length l)) in
  let glue (orig pad : list cell) := if left then orig ++ pad else pad ++ orig in
  match fill with
  | Some c => glue (map (fun cl : cell => (fst cl, m)) l) (repeat (c, m) n)
  | None =>
      match s_bg m with
      | Some bg => glue l (repeat (space_char, only_bg (Some bg)) n)
      | None => glue (map (fun cl : cell => (fst cl, drop_bg (snd cl))) l) (repeat (space_char, m) n)
      end
  end.

(* the fillchar argument as Python sees it *)
Definition fill_char (fill : option str) : option (option char) :=
  match fill with
  | None => Some None
  | Some [c] => Some (Some c)
  | Some _ => None                  (* TypeError: must be exactly one character long *)
  end.

Lemma map_const_repeat {X Y} (y : Y) (x : X) n : map (fun _ => y) (repeat x n) = repeat y n.
Proof. induction n as [|n IH]; [reflexivity|]. cbn. now rewrite IH. Qed.

Lemma map_pair_repeat (c : char) (st : sgr) n : map (fun x => (x, st)) (repeat c n) = repeat (c, st) n.
Proof. induction n as [|n IH]; [reflexivity|]. cbn. now rewrite IH. Qed.

Lemma cells_retag f (g : sgr -> sgr) (h : atts -> atts) :
  (forall a, eff (h a) = g (eff a)) ->
  cells (map (fun c => mkChunk (c_s c) (h (c_a c))) f) = map (fun cl : cell => (fst cl, g (snd cl))) (cells f).
Proof.
  intros H. induction f as [|c f IH]; [reflexivity|].
  cbn [map]. rewrite !cells_cons, map_app, IH. f_equal.
  unfold chunk_cells. cbn [c_s c_a]. rewrite map_map. apply map_ext. intros x. cbn [fst snd]. now rewrite H.
Qed.

Lemma eff_remove_bg a : eff (Atts.att_remove [Atts.k_bg] a) = drop_bg (eff a).
Proof. destruct a. reflexivity. Qed.

Lemma cells_bg_removed f :
  cells (Atts.new_with_atts_removed f [Atts.k_bg]) = map (fun cl : cell => (fst cl, drop_bg (snd cl))) (cells f).
Proof. unfold Atts.new_with_atts_removed. apply cells_retag. apply eff_remove_bg. Qed.

Lemma map_fst_retag (g : sgr -> sgr) (l : list cell) : map fst (map (fun cl : cell => (fst cl, g (snd cl))) l) = map fst l.
Proof. rewrite map_map. reflexivity. Qed.

Lemma cells_of_text f (st : sgr) : map (fun x : char => (x, st)) (text f) = map (fun cl : cell => (fst cl, st)) (cells f).
Proof. rewrite (text_cells f), map_map. apply map_ext. intros cl. reflexivity. Qed.

(* ... in particular the text is str.ljust / str.rjust of the text *)
Definition py_just (left : bool) (s : str) (width : Z) (c : char) : str :=
  if left then py_ljust s width c else py_rjust s width c.
Definition fill_or_space (fc : option char) : char := match fc with Some c => c | None => space_char end.

(* scope of the model of fmtstr(text, **atts): a text that FmtStr.from_str does not parse.
   Only the fillchar branch passes text of f to fmtstr(); the padding of the other
   branches is spaces. *)
Definition just_scope (left : bool) (f : fmtstr) (width : Z) (fc : option char) : Prop :=
  match fc with
  | Some c => has_esc_intro (py_just left (text f) width c) = false
  | None => True
  end.

(* the three branches, for any f on which shared_atts answers *)
Theorem just_exact left f width fill fc sh :
  shared_atts f = Ok sh -> fill_char fill = Some fc -> just_scope left f width fc ->
  exists r, just left f width fill = Ok r /\ cells r = just_cells left (cells f) (eff sh) width fc.
Proof.
  intros SH FC _. unfold just, just_cells. rewrite cells_length_text.
  destruct fill as [[|c [|d t]]|]; try discriminate; injection FC as <-.
  - (* fillchar *)
    cbn [builtin_just bind]. rewrite SH. cbn [bind]. eexists. split; [reflexivity|].
    rewrite fmtstr_with_cells. unfold py_ljust, py_rjust.
    destruct left; rewrite map_app, map_pair_repeat, cells_of_text; reflexivity.
  - rewrite SH. cbn [bind]. change (s_bg (eff sh)) with (a_bg sh).
    destruct (a_bg sh) as [bg|] eqn:BG.
    + destruct (Z.to_nat (width - Z.of_nat (length (text f)))) as [|n] eqn:EN; cbn [repeat].
      * exists f. split; [reflexivity|]. destruct left; [now rewrite app_nil_r|reflexivity].
      * eexists. split; [reflexivity|].
        destruct left; rewrite add_cells; cbn [op_cells]; rewrite fmtstr_with_cells;
          change (space_char :: repeat space_char n) with (repeat space_char (S n));
          rewrite map_pair_repeat; reflexivity.
    + destruct (Z.to_nat (width - Z.of_nat (length (text f)))) as [|n] eqn:EN; cbn [repeat].
      * eexists. split; [reflexivity|]. rewrite cells_bg_removed.
        destruct left; [now rewrite app_nil_r|reflexivity].
      * cbn [bind]. eexists. split; [reflexivity|].
        destruct left; rewrite add_cells; cbn [op_cells]; rewrite fmtstr_with_cells, cells_bg_removed;
          change (space_char :: repeat space_char n) with (repeat space_char (S n));
          rewrite map_pair_repeat; reflexivity.
Qed.

Lemma map_fst_repeat (c : char) (st : sgr) n : map fst (repeat (c, st) n) = repeat c n.
Proof. induction n as [|n IH]; [reflexivity|]. cbn. now rewrite IH. Qed.

Lemma map_fst_tagged (h : cell -> sgr) (l : list cell) : map fst (map (fun cl : cell => (fst cl, h cl)) l) = map fst l.
Proof. rewrite map_map. reflexivity. Qed.

Lemma just_cells_text left l m width fc :
  map fst (just_cells left l m width fc) = py_just left (map fst l) width (fill_or_space fc).
Proof.
  unfold just_cells, py_just, py_ljust, py_rjust. rewrite map_length.
  destruct fc as [c|]; [|destruct (s_bg m)]; destruct left; cbn [fill_or_space];
    rewrite map_app, map_fst_repeat, ?map_map; reflexivity.
Qed.

Theorem just_text left f width fill fc : f <> [] -> fill_char fill = Some fc -> just_scope left f width fc ->
  exists r, just left f width fill = Ok r /\ text r = py_just left (text f) width (fill_or_space fc).
Proof.
  intros NE FC SC. destruct (shared_atts_ok f NE) as [sh SH].
  destruct (just_exact left f width fill fc sh SH FC SC) as (r & R1 & R2).
  exists r. split; [exact R1|]. now rewrite !text_cells, R2, just_cells_text.
Qed.

(* for f with at least one character the state m is what every character shows *)
Theorem just_cells_shared left f width fill fc :
  cells f <> [] -> fill_char fill = Some fc -> just_scope left f width fc ->
  exists r, just left f width fill = Ok r /\
    cells r = just_cells left (cells f) (meet_sgr (states (cells f))) width fc.
Proof.
  intros NE FC SC. destruct (shared_atts_meet f NE) as (sh & SH & EM).
  destruct (just_exact left f width fill fc sh SH FC SC) as (r & R1 & R2).
  exists r. split; [exact R1|]. now rewrite R2, EM.
Qed.

(* no formatting that no character had: the result is the original characters, in order,
   with the padding before or after them; every original character shows at most what it
   showed in f and at least what all characters of f show; a padding cell shows only what
   EVERY character of f shows *)
Definition padding_state (m : sgr) (fc : option char) : sgr :=
  match fc with
  | Some _ => m
  | None => match s_bg m with Some bg => only_bg (Some bg) | None => m end
  end.

Lemma In_states (l : list cell) cl : In cl l -> In (snd cl) (states l).
Proof. intros H. unfold states. now apply in_map. Qed.

Lemma Forall2_retag (P : cell -> cell -> Prop) (g : cell -> cell) (l : list cell) :
  (forall cl, In cl l -> P (g cl) cl) -> Forall2 P (map g l) l.
Proof.
  induction l as [|x l IH]; intros H; [constructor|]. cbn [map]. constructor.
  - apply H. now left.
  - apply IH. intros cl Hc. apply H. now right.
Qed.

Theorem just_no_new_formatting left f width fill fc :
  cells f <> [] -> fill_char fill = Some fc -> just_scope left f width fc ->
  let m := meet_sgr (states (cells f)) in
  let n := Z.to_nat (width - Z.of_nat (length (cells f))) in
  exists r orig,
    just left f width fill = Ok r /\
    let pad := repeat (fill_or_space fc, padding_state m fc) n in
    cells r = (if left then orig ++ pad else pad ++ orig) /\
    Forall2 (fun o c => fst o = fst c /\ sgr_le (snd o) (snd c) = true /\ sgr_le m (snd o) = true)
            orig (cells f) /\
    (forall c, In c (cells f) -> sgr_le (padding_state m fc) (snd c) = true).
Proof.
  intros NE FC SC m n. destruct (just_cells_shared left f width fill fc NE FC SC) as (r & R1 & R2).
  fold m in R2.
  assert (LE : forall c, In c (cells f) -> sgr_le m (snd c) = true).
  { intros c Hc. apply meet_sgr_below. now apply In_states. }
  assert (PAD : forall c, In c (cells f) -> sgr_le (padding_state m fc) (snd c) = true).
  { intros c Hc. apply (sgr_le_trans _ m); [|now apply LE].
    unfold padding_state. destruct fc; [apply sgr_le_refl|].
    destruct (s_bg m) as [bg|] eqn:BG; [|apply sgr_le_refl]. rewrite <- BG. apply only_bg_le. }
  unfold just_cells in R2. fold n in R2. exists r.
  destruct fc as [c|]; [|destruct (s_bg m) as [bg|] eqn:BG].
  - exists (map (fun cl : cell => (fst cl, m)) (cells f)). split; [exact R1|]. split; [exact R2|]. split; [|exact PAD].
    apply Forall2_retag. intros cl Hc. cbn [fst snd]. split; [reflexivity|]. split; [now apply LE|apply sgr_le_refl].
  - exists (cells f). split; [exact R1|]. split; [unfold padding_state; rewrite BG; exact R2|]. split; [|exact PAD].
    rewrite <- (map_id (cells f)) at 1. apply Forall2_retag. intros cl Hc.
    split; [reflexivity|]. split; [apply sgr_le_refl|now apply LE].
  - exists (map (fun cl : cell => (fst cl, drop_bg (snd cl))) (cells f)).
    split; [exact R1|]. split; [unfold padding_state; rewrite BG; exact R2|]. split; [|exact PAD].
    apply Forall2_retag. intros cl Hc. cbn [fst snd]. split; [reflexivity|]. split; [apply drop_bg_le|].
    apply le_drop_bg; [exact BG|now apply LE].
Qed.

(* the error branches: the builtin's TypeError for a fillchar that is not one character
   (raised before shared_atts is looked at), IndexError for a FmtStr without runs *)
Theorem just_bad_fillchar left f width fc : fill_char (Some fc) = None ->
  just left f width (Some fc) = Raise TypeError.
Proof. destruct fc as [|c [|d t]]; [reflexivity|discriminate|reflexivity]. Qed.

Theorem just_no_runs left width fill fc : fill_char fill = Some fc ->
  just left [] width fill = Raise IndexError.
Proof. destruct fill as [[|c [|d t]]|]; try discriminate; reflexivity. Qed.

(* NOT true: "the original characters keep their own cells".  Without a fillchar and
   without a background shared by all characters, every character loses its background
   (new_with_atts_removed("bg")) - even when nothing is padded; with a fillchar every
   character is reduced to the shared formatting. *)
Example just_keeps_own_cells_refuted :
  let f := [C [97]%N (A 0 2 0 0 0 0 0 0); C [98]%N (A 0 5 0 0 0 0 0 0)] in   (* on_red('a') + on_blue('b') *)
  (exists r, ljust f 4 None = Ok r /\ firstn 2 (cells r) <> cells f /\
             cells r = [(97, sgr_default); (98, sgr_default); (32, sgr_default); (32, sgr_default)]%N) /\
  (exists r, ljust f 1 None = Ok r /\ cells r <> cells f) /\
  (exists r, rjust [C [97]%N (A 2 0 1 0 0 0 0 0); C [98]%N (A 2 0 0 0 0 0 0 0)] 3 (Some [42%N]) = Ok r /\
             cells r = [(42, Sg 2 0 0 0 0 0 0 0); (97, Sg 2 0 0 0 0 0 0 0); (98, Sg 2 0 0 0 0 0 0 0)]%N).
Proof. repeat split; eexists; vm_compute; repeat split; discriminate. Qed.

Example just_nonvacuous :
  let f := [C [97]%N (A 2 3 1 0 0 0 0 0); C []%N (A 5 0 0 0 0 0 0 0); C [98]%N (A 2 3 0 0 0 0 0 0)] in
  cells f <> [] /\ fill_char None = Some None /\ fill_char (Some [42%N]) = Some (Some 42%N) /\
  just_scope true f 4 None /\ just_scope false f 3 (Some 42%N) /\
  meet_sgr (states (cells f)) = Sg 2 3 0 0 0 0 0 0 /\
  (exists r, ljust f 4 None = Ok r /\
     cells r = [(97, Sg 2 3 1 0 0 0 0 0); (98, Sg 2 3 0 0 0 0 0 0); (32, Sg 0 3 0 0 0 0 0 0); (32, Sg 0 3 0 0 0 0 0 0)]%N) /\
  (exists r, rjust f 3 (Some [42%N]) = Ok r /\
     cells r = [(42, Sg 2 3 0 0 0 0 0 0); (97, Sg 2 3 0 0 0 0 0 0); (98, Sg 2 3 0 0 0 0 0 0)]%N).
Proof. vm_compute. repeat split; try discriminate; eexists; split; reflexivity. Qed.

(* ====================================================================== *)
(* 9. the __getattr__ wrapper, for an ARBITRARY str method                   *)
(* the cells of fmtstr(s, **atts): every character of s with the one state *)
Definition tagged (st : sgr) (s : str) : list cell := map (fun x => (x, st)) s.

Lemma delegate_list_ok (f : fmtstr) sh (l : list str) : shared_atts f = Ok sh ->
  map_res (fun x => bind (shared_atts f) (fun shared => Ok (fmtstr_with x shared))) l =
  Ok (map (fun x => fmtstr_with x sh) l).
Proof. intros SH. apply map_res_ok. intros x _. now rewrite SH. Qed.

Section Delegation.
Context {X : Type}.
Variable m : str -> mres X.          (* getattr(self.s, att)( *args, **kwargs) as a function of self.s *)

(* a str answer: the same text, every character with exactly eff (shared_atts f) *)
Theorem delegate_str_exact f s sh : m (text f) = MStr s -> shared_atts f = Ok sh -> has_esc_intro s = false ->
  exists r, delegate m f = Ok (DFmt r) /\ text r = s /\ cells r = tagged (eff sh) s.
Proof.
  intros M SH _. unfold delegate. rewrite M, SH. cbn [bind]. eexists. split; [reflexivity|].
  split; [apply fmtstr_with_text|apply fmtstr_with_cells].
Qed.

(* a list-of-str answer: likewise, item by item *)
Theorem delegate_list_exact f l sh : m (text f) = MList l -> shared_atts f = Ok sh ->
  Forall (fun s => has_esc_intro s = false) l ->
  exists rs, delegate m f = Ok (DList rs) /\ map text rs = l /\ map cells rs = map (tagged (eff sh)) l.
Proof.
  intros M SH _. unfold delegate. rewrite M, (delegate_list_ok f sh l SH). cbn [bind].
  eexists. split; [reflexivity|]. rewrite !map_map. split.
  - rewrite <- (map_id l) at 2. apply map_ext. intros s. apply fmtstr_with_text.
  - apply map_ext. intros s. apply fmtstr_with_cells.
Qed.

(* for f with at least one character: exactly the formatting shared by all characters,
   hence nothing that not every character of f shows *)
Theorem delegate_str f s : cells f <> [] -> m (text f) = MStr s -> has_esc_intro s = false ->
  let sh := meet_sgr (states (cells f)) in
  exists r, delegate m f = Ok (DFmt r) /\ text r = s /\ cells r = tagged sh s /\
            (forall c, In c (cells f) -> sgr_le sh (snd c) = true).
Proof.
  intros NE M SC sh. destruct (shared_atts_meet f NE) as (a & SH & EM).
  destruct (delegate_str_exact f s a M SH SC) as (r & R1 & R2 & R3).
  exists r. split; [exact R1|]. split; [exact R2|]. split; [now rewrite R3, EM|].
  intros c Hc. apply meet_sgr_below. now apply In_states.
Qed.

Theorem delegate_list f l : cells f <> [] -> m (text f) = MList l ->
  Forall (fun s => has_esc_intro s = false) l ->
  let sh := meet_sgr (states (cells f)) in
  exists rs, delegate m f = Ok (DList rs) /\ map text rs = l /\ map cells rs = map (tagged sh) l /\
             (forall c, In c (cells f) -> sgr_le sh (snd c) = true).
Proof.
  intros NE M SC sh. destruct (shared_atts_meet f NE) as (a & SH & EM).
  destruct (delegate_list_exact f l a M SH SC) as (rs & R1 & R2 & R3).
  exists rs. split; [exact R1|]. split; [exact R2|]. split; [now rewrite R3, EM|].
  intros c Hc. apply meet_sgr_below. now apply In_states.
Qed.

(* anything else (int, bool, tuple, None) is passed through; an exception propagates;
   neither looks at the runs *)
Theorem delegate_other f x : m (text f) = MOther x -> delegate m f = Ok (DOther x).
Proof. intros M. unfold delegate. now rewrite M. Qed.

Theorem delegate_raise f e : m (text f) = MRaise e -> delegate m f = Raise e.
Proof. intros M. unfold delegate. now rewrite M. Qed.

(* a FmtStr without runs: self.shared_atts is self.chunks[0] -> IndexError as soon as a
   piece of text has to be wrapped; an empty list is returned as it is *)
Theorem delegate_no_runs :
  (forall s, m [] = MStr s -> delegate m [] = Raise IndexError) /\
  (forall s l, m [] = MList (s :: l) -> delegate m [] = Raise IndexError) /\
  (m [] = MList [] -> delegate m [] = Ok (DList [])).
Proof. repeat split; intros; unfold delegate; cbn [text flat_map]; rewrite H; reflexivity. Qed.
End Delegation.

(* str.upper (ASCII letters) and str.split(",")-like answers on bold(red("a")) + red("b,c") *)
Example delegate_nonvacuous :
  let f := [C [97]%N (A 2 0 1 0 0 0 0 0); C [98; 44; 99]%N (A 2 0 0 0 0 0 0 0)] in
  let upper : str -> mres unit := fun s => MStr (map (fun c => if (N.leb 97 c && N.leb c 122)%bool then (c - 32)%N else c) s) in
  let pieces : str -> mres unit := fun s => MList (str_split s [44%N]) in
  cells f <> [] /\ meet_sgr (states (cells f)) = Sg 2 0 0 0 0 0 0 0 /\
  (exists r, delegate upper f = Ok (DFmt r) /\
     cells r = [(65, Sg 2 0 0 0 0 0 0 0); (66, Sg 2 0 0 0 0 0 0 0); (44, Sg 2 0 0 0 0 0 0 0); (67, Sg 2 0 0 0 0 0 0 0)]%N) /\
  (exists rs, delegate pieces f = Ok (DList rs) /\
     map cells rs = [[(97, Sg 2 0 0 0 0 0 0 0); (98, Sg 2 0 0 0 0 0 0 0)]; [(99, Sg 2 0 0 0 0 0 0 0)]]%N).
Proof. vm_compute. repeat split; try discriminate; eexists; split; reflexivity. Qed.
